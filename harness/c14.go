package main

// C14 -- chain keys agree and BIP-32 derivation matches the standard.
// After every keygen: all parties hold the same 32-byte chain key. For indices {0,1,2^31-1,random} and paths of length <= 3
// (interleaved with refresh in the thorough tier): every party's child public key and chain code equal the reference's
// CKDpub(parent public key, chain key, index) (ref.ckd_pub: own HMAC-SHA512 + textbook curve), the derived shares are a
// consistent sharing of the child key (checkSharing), and signing with them succeeds (reference verifier).

import (
	"bytes"
	"fmt"
	"math/big"
	"strings"

	"github.com/taurusgroup/multi-party-sig/pkg/math/curve"
	"github.com/taurusgroup/multi-party-sig/pkg/party"
	"github.com/taurusgroup/multi-party-sig/pkg/taproot"
	"github.com/taurusgroup/multi-party-sig/protocols/cmp"
	"github.com/taurusgroup/multi-party-sig/protocols/doerner"
	"github.com/taurusgroup/multi-party-sig/protocols/frost"

	"verifharness/sx"
)

func init() { props["C14"] = runC14 }

type deriveReplay struct {
	Material string   `json:"material"`
	N, T     int
	Path     []uint32 `json:"path"`
	Problems []string `json:"problems"`
}

// refCKD: the reference child key (as model point) and chain code
func (c *ctx) refCKD(parent sx.V, chain []byte, index uint32) (child sx.V, chain2 []byte, ok bool, err error) {
	r, err := c.m.Call("ref.ckd_pub", sx.List(parent, sx.Bytes(chain), sx.Int(int64(index))))
	if err != nil {
		return sx.V{}, nil, false, err
	}
	if len(r.L) == 0 {
		return sx.V{}, nil, false, nil
	}
	return r.L[0], r.L[1].B, true, nil
}

func chainProblems(what string, chains map[party.ID][]byte) []string {
	var probs []string
	var first []byte
	var firstID party.ID
	for id, ck := range chains {
		if len(ck) != 32 {
			probs = append(probs, fmt.Sprintf("%s: chain key of %s has length %d, want 32", what, id, len(ck)))
		}
		if first == nil {
			first, firstID = ck, id
		} else if !bytes.Equal(first, ck) {
			probs = append(probs, fmt.Sprintf("%s: chain keys of %s and %s differ", what, firstID, id))
		}
	}
	return probs
}

// deriveAll applies DeriveChild/DeriveBIP32 at index i to every party's material; returns new material or an error text
func deriveAll(mat []interface{}, i uint32) (out []interface{}, errText string) {
	for _, m := range mat {
		var r interface{}
		var err error
		func() {
			defer func() {
				if p := recover(); p != nil {
					err = fmt.Errorf("PANIC: %v", p)
				}
			}()
			switch cf := m.(type) {
			case *cmp.Config:
				r, err = cf.DeriveBIP32(i)
			case *frost.Config:
				r, err = cf.DeriveChild(i)
			case *frost.TaprootConfig:
				r, err = cf.DeriveChild(i)
			default:
				err = fmt.Errorf("no derive for %T", m)
			}
		}()
		if err != nil {
			return nil, err.Error()
		}
		out = append(out, r)
	}
	return out, ""
}

func (c *ctx) c14Path(label string, n, t int, mat []interface{}, path []uint32, signFn func(mat []interface{}) []string) {
	var probs []string
	cur := mat
	for depth, idx := range path {
		var views []*shareView
		chains := map[party.ID][]byte{}
		for _, m := range cur {
			v, err := viewOfResult(m)
			if err != nil {
				probs = append(probs, err.Error())
				continue
			}
			views = append(views, v)
			chains[v.ID] = v.Chain
		}
		probs = append(probs, chainProblems(fmt.Sprintf("depth %d", depth), chains)...)
		if len(probs) > 0 || len(views) == 0 {
			break
		}
		parent, err := c.ptSx(views[0].Pub)
		if err != nil {
			probs = append(probs, err.Error())
			break
		}
		refChild, refChain, ok, err := c.refCKD(parent, views[0].Chain, idx)
		if err != nil {
			probs = append(probs, err.Error())
			break
		}
		next, et := deriveAll(cur, idx)
		if !ok {
			// the standard says this index is invalid; the library must refuse as well
			if et == "" {
				probs = append(probs, fmt.Sprintf("index %d is invalid per BIP-32 but derivation succeeded", idx))
			}
			break
		}
		if et != "" {
			probs = append(probs, fmt.Sprintf("derivation at index %d failed: %s", idx, et))
			break
		}
		var nviews []*shareView
		for _, m := range next {
			v, err := viewOfResult(m)
			if err != nil {
				probs = append(probs, err.Error())
				continue
			}
			nviews = append(nviews, v)
			got, err := c.ptSx(v.Pub)
			if err != nil {
				probs = append(probs, err.Error())
				continue
			}
			want := refChild
			if v.PubBytes != nil {
				// x-only keys: compare the x coordinate
				if len(got.L) != 2 || len(want.L) != 2 || got.L[0].Z.Cmp(want.L[0].Z) != 0 {
					probs = append(probs, fmt.Sprintf("party %s: child public key at index %d differs from BIP-32 CKDpub (x-only)", v.ID, idx))
				}
			} else if !got.Equal(want) {
				probs = append(probs, fmt.Sprintf("party %s: child public key at index %d differs from BIP-32 CKDpub", v.ID, idx))
			}
			c.res.Corr(len(probs) == 0)
			if !bytes.Equal(v.Chain, refChain) {
				probs = append(probs, fmt.Sprintf("party %s: child chain code at index %d differs from BIP-32 (len %d)", v.ID, idx, len(v.Chain)))
			}
		}
		if len(probs) == 0 {
			p2, _ := c.checkSharing(nviews, 6)
			for _, p := range p2 {
				probs = append(probs, fmt.Sprintf("derived material (index %d): %s", idx, p))
			}
		}
		cur = next
		if len(probs) > 0 {
			break
		}
	}
	if len(probs) == 0 && signFn != nil {
		probs = append(probs, signFn(cur)...)
	}
	c.res.Case(fmt.Sprintf("%s/n=%d/t=%d/pathlen=%d", label, n, t, len(path)), fmt.Sprintf("%s/%d/%d/%v", label, n, t, path), true)
	c.res.Sample(3, map[string]interface{}{"material": label, "n": n, "t": t, "path": path})
	if len(probs) > 0 {
		key := "C14/" + label + "/" + strings.SplitN(probs[0], ":", 2)[0]
		if len(key) > 90 {
			key = key[:90]
		}
		c.res.Violate("property", key, strings.Join(probs, "; "), deriveReplay{Material: label, N: n, T: t, Path: path, Problems: probs})
	}
}

func runC14(c *ctx) {
	r := c.res.Rng
	c.res.Rule = "FROST / FROST-Taproot / CMP / Doerner material from real keygens; chain keys equal and 32 bytes; derivation paths of length 1..3 over indices {0,1,2^31-1,random}; " +
		"child key and chain code vs the reference CKDpub; derived sharing checked; signing with derived material; non-trivial = all; distinct by (material, n, t, path)"
	c.res.Rule += "; derive -> refresh -> derive at the same index on ONE in-memory object per party in one process (retained.go): child key and chain code vs the reference for the CURRENT chain key, signing with the re-derived child and a grandchild"
	if c.replay != "" && c.retReplayRun("C14") {
		return
	}
	indices := func() uint32 {
		switch r.Intn(5) {
		case 0:
			return 0
		case 1:
			return 1
		case 2:
			return 1<<31 - 1
		}
		return uint32(r.Int63n(1 << 31))
	}
	paths := [][]uint32{{0}, {1}, {1<<31 - 1}, {indices(), indices()}, {indices(), indices(), indices()}}
	if c.thorough() {
		for i := 0; i < 10; i++ {
			paths = append(paths, []uint32{indices(), indices()})
		}
	}
	// FROST
	for _, cfg := range []struct {
		n, t int
		tap  bool
	}{{3, 1, false}, {2, 0, false}, {3, 2, true}, {4, 1, true}} {
		ids := idsOf("alice", "bob", "carl", "dave")[:cfg.n]
		label := "frost"
		if cfg.tap {
			label = "frost-taproot"
		}
		kg := runToEnd(specFrostKeygen(ids, cfg.t, cfg.tap, []byte("c14")), c.res.Seed+int64(cfg.n), "fifo")
		_, raw, probs := viewsOfSim(kg)
		if len(probs) > 0 {
			c.res.Violate("property", "C14/"+label+"/keygen-incomplete", strings.Join(probs, "; "), nil)
			continue
		}
		for pi, path := range paths {
			var signFn func([]interface{}) []string
			if pi%2 == 0 {
				signFn = func(mat []interface{}) []string { return c.signWith(mat, cfg.t, []byte(fmt.Sprintf("derived-%d", pi))) }
			}
			c.c14Path(label, cfg.n, cfg.t, raw, path, signFn)
		}
	}
	// CMP
	usePrimeCache()
	{
		ids := idsOf("alice", "bob", "carl")
		kg := runToEnd(specCMPKeygen(ids, 1, []byte("c14cmp")), c.res.Seed, "fifo")
		_, raw, probs := viewsOfSim(kg)
		if len(probs) > 0 {
			c.res.Violate("property", "C14/cmp/keygen-incomplete", strings.Join(probs, "; "), nil)
		} else {
			for pi, path := range paths[:3+r.Intn(2)] {
				var signFn func([]interface{}) []string
				if pi == 1 {
					signFn = func(mat []interface{}) []string { return c.signWith(mat, 1, bytes.Repeat([]byte{9}, 32)) }
				}
				c.c14Path("cmp", 3, 1, raw, path, signFn)
			}
			c.c01RetainedAll("C14", raw, ids)
		}
	}
	// Doerner
	c.c14Doerner(paths[:3])
}

// signWith runs a signing session among the first t+1 parties... (non-prefix: the LAST t+1) with the given material
func (c *ctx) signWith(mat []interface{}, t int, msg []byte) []string {
	var probs []string
	switch mat[0].(type) {
	case *frost.Config:
		cfgs := map[party.ID]*frost.Config{}
		var ids []party.ID
		for _, m := range mat {
			cf := m.(*frost.Config)
			cfgs[cf.ID] = cf
			ids = append(ids, cf.ID)
		}
		ids = party.NewIDSlice(ids)
		S := ids[len(ids)-t-1:]
		sp := specFrostSign(cfgs, S, msg, []byte("c14s"))
		s := runToEnd(sp, 1, "fifo")
		for _, id := range S {
			rr, e := resultOf(s.Nodes[id])
			if rr == nil {
				probs = append(probs, "signing with derived material did not complete: "+e)
				continue
			}
			if ok, why := c.verifyAnySignature(cfgs[id].PublicKey, rr, msg); !ok {
				probs = append(probs, "signature with derived material invalid under the reference verifier "+why)
			}
		}
	case *frost.TaprootConfig:
		cfgs := map[party.ID]*frost.TaprootConfig{}
		var ids []party.ID
		for _, m := range mat {
			cf := m.(*frost.TaprootConfig)
			cfgs[cf.ID] = cf
			ids = append(ids, cf.ID)
		}
		ids = party.NewIDSlice(ids)
		S := ids[len(ids)-t-1:]
		sp := specFrostSignTaproot(cfgs, S, msg, []byte("c14s"))
		s := runToEnd(sp, 1, "fifo")
		for _, id := range S {
			rr, e := resultOf(s.Nodes[id])
			if rr == nil {
				probs = append(probs, "signing with derived material did not complete: "+e)
				continue
			}
			if ok, why := c.verifyAnySignature(taproot.PublicKey(cfgs[id].PublicKey), rr, msg); !ok {
				probs = append(probs, "signature with derived material invalid under the reference verifier "+why)
			}
		}
	case *cmp.Config:
		cfgs := map[party.ID]*cmp.Config{}
		var ids []party.ID
		for _, m := range mat {
			cf := m.(*cmp.Config)
			cfgs[cf.ID] = cf
			ids = append(ids, cf.ID)
		}
		ids = party.NewIDSlice(ids)
		S := ids[len(ids)-t-1:]
		sp := specCMPSign(cfgs, S, msg, []byte("c14s"))
		s := runToEnd(sp, 1, "fifo")
		for _, id := range S {
			rr, e := resultOf(s.Nodes[id])
			if rr == nil {
				probs = append(probs, "signing with derived material did not complete: "+e)
				continue
			}
			if ok, why := c.verifyAnySignature(cfgs[id].PublicPoint(), rr, msg); !ok {
				probs = append(probs, "signature with derived material invalid under the reference verifier "+why)
			}
		}
	}
	return probs
}

func (c *ctx) c14Doerner(paths [][]uint32) {
	ids := idsOf("recv", "send")
	g := curve.Secp256k1{}
	kg := twoPartySim(ids, nil, doerner.Keygen(g, true, ids[0], ids[1], nil), doerner.Keygen(g, false, ids[1], ids[0], nil), []byte("c14d"), true, false)
	kg.RunFIFO(10000)
	rr, _ := resultOf(kg.Nodes[ids[0]])
	rs, _ := resultOf(kg.Nodes[ids[1]])
	cr, ok1 := rr.(*doerner.ConfigReceiver)
	cs, ok2 := rs.(*doerner.ConfigSender)
	if !ok1 || !ok2 {
		c.res.Violate("property", "C14/doerner/keygen-incomplete", "doerner keygen did not complete", nil)
		return
	}
	for _, path := range paths {
		var probs []string
		r, s := cr, cs
		for _, idx := range path {
			probs = append(probs, chainProblems("doerner", map[party.ID][]byte{"recv": r.ChainKey, "send": s.ChainKey})...)
			if len(probs) > 0 {
				break
			}
			parent, err := c.ptSx(r.Public)
			if err != nil {
				probs = append(probs, err.Error())
				break
			}
			refChild, refChain, ok, err := c.refCKD(parent, r.ChainKey, idx)
			if err != nil || !ok {
				break
			}
			var r2 *doerner.ConfigReceiver
			var s2 *doerner.ConfigSender
			var e1, e2 error
			func() {
				defer func() {
					if p := recover(); p != nil {
						e1 = fmt.Errorf("PANIC: %v", p)
					}
				}()
				r2, e1 = r.DeriveBIP32(idx)
				s2, e2 = s.DeriveBIP32(idx)
			}()
			if e1 != nil || e2 != nil {
				probs = append(probs, fmt.Sprintf("derivation at index %d failed: %v %v", idx, e1, e2))
				break
			}
			gr, _ := c.ptSx(r2.Public)
			gs, _ := c.ptSx(s2.Public)
			if !gr.Equal(refChild) || !gs.Equal(refChild) {
				probs = append(probs, fmt.Sprintf("child public key at index %d differs from BIP-32 CKDpub", idx))
			}
			if !bytes.Equal(r2.ChainKey, refChain) || !bytes.Equal(s2.ChainKey, refChain) {
				probs = append(probs, fmt.Sprintf("child chain code at index %d differs from BIP-32 (lengths %d, %d)", idx, len(r2.ChainKey), len(s2.ChainKey)))
			}
			for _, p := range c.checkDoerner(r2, s2) {
				probs = append(probs, fmt.Sprintf("derived material (index %d): %s", idx, p))
			}
			r, s = r2, s2
			if len(probs) > 0 {
				break
			}
		}
		c.res.Case(fmt.Sprintf("doerner/pathlen=%d", len(path)), fmt.Sprintf("doerner/%v", path), true)
		if len(probs) > 0 {
			key := "C14/doerner/" + strings.SplitN(probs[0], ":", 2)[0]
			if len(key) > 90 {
				key = key[:90]
			}
			c.res.Violate("property", key, strings.Join(probs, "; "), deriveReplay{Material: "doerner", N: 2, T: 1, Path: path, Problems: probs})
		}
	}
	_ = big.NewInt
}
