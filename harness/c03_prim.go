package main

// c03_prim.go -- the equality / identity tests the verification code of every protocol relies on
// (curve.Point.Equal, Point.IsIdentity, Scalar.Equal, Scalar.IsZero), on EVERY representation of the identity (and of an
// ordinary point, and of the zero scalar) the library can produce, against arbitrary other values.  The expected verdict is
// the equality of the values computed by the Coq reference (ref.base_mul / ref.pt_mul / ref.pt_add / ref.pt_neg on affine
// points with () for the identity; poly.eval for scalar arithmetic mod q): two representations are equal iff the reference
// values are.  A VSS check `share*G == F(id)` is exactly such a comparison; F(id) is the identity when the dealer's polynomial
// has a root at the recipient.

import (
	"fmt"
	"math/big"
	"math/rand"

	"github.com/cronokirby/saferith"
	"github.com/fxamacker/cbor/v2"

	"github.com/taurusgroup/multi-party-sig/pkg/math/curve"
	"github.com/taurusgroup/multi-party-sig/pkg/math/polynomial"

	"verifharness/sx"
)

type c03PrimReplay struct {
	Primitive string `json:"primitive"`
	A         string `json:"a_hex"`
	B         string `json:"b_hex"`
	Left      string `json:"left"`
	Right     string `json:"right"`
	Library   bool   `json:"library_says"`
	Reference bool   `json:"reference_says"`
}

type c03PtRep struct {
	Name  string
	Ident bool // by construction (class of the key only; the verdict comes from Ref)
	Lib   func() curve.Point
	Ref   func(o *c03Oracle) c03TbPt
}

type c03ScRep struct {
	Name string
	Zero bool
	Lib  func() curve.Scalar
	Ref  func(o *c03Oracle) *big.Int
}

func (o *c03Oracle) ptNeg(A c03TbPt) c03TbPt {
	if v, ok := o.call("ref.pt_neg", c03PtSx(A)); ok {
		if p, ok2 := c03SxPt(v); ok2 {
			return p
		}
	}
	return A.neg() // FALLBACK
}

// linMod: u + v*x mod q by the model's polynomial evaluation (x != 0), textbook fallback
func (o *c03Oracle) linMod(u, v, x *big.Int) *big.Int {
	if new(big.Int).Mod(x, c03TbQ).Sign() != 0 {
		if r, ok := o.call("poly.eval", sx.List(sx.Big(c03TbQ), sx.List(sx.Big(new(big.Int).Mod(u, c03TbQ)), sx.Big(new(big.Int).Mod(v, c03TbQ))), sx.Big(new(big.Int).Mod(x, c03TbQ)))); ok && r.Kind == 2 && len(r.L) == 1 && r.L[0].Kind == 0 {
			return r.L[0].Z
		}
	}
	z := new(big.Int).Mul(v, x) // FALLBACK
	return z.Add(z, u).Mod(z, c03TbQ)
}

func c03PointReps(a, b *big.Int) []c03PtRep {
	g := curve.Secp256k1{}
	sc := c03ScalarOfBig
	one := big.NewInt(1)
	qm := func(z *big.Int) *big.Int { return new(big.Int).Mod(new(big.Int).Sub(c03TbQ, z), c03TbQ) }
	half := new(big.Int).Mul(a, new(big.Int).ModInverse(big.NewInt(2), c03TbQ))
	half.Mod(half, c03TbQ)
	am1 := new(big.Int).Mod(new(big.Int).Sub(a, one), c03TbQ)
	P := func() curve.Point { return sc(a).ActOnBase() }
	Q := func() curve.Point { return sc(b).ActOnBase() }
	rP := func(o *c03Oracle) c03TbPt { return o.baseMul(a) }
	rQ := func(o *c03Oracle) c03TbPt { return o.baseMul(b) }
	decode := func(p curve.Point) curve.Point {
		bts, err := p.MarshalBinary()
		if err != nil {
			panic(err)
		}
		n := g.NewPoint()
		if err := n.UnmarshalBinary(bts); err != nil {
			panic(err)
		}
		return n
	}
	// x such that the polynomial c*(X - x) has its root there
	rootPoly := func() curve.Point {
		c := b
		coeffs := []*big.Int{new(big.Int).Mod(new(big.Int).Neg(new(big.Int).Mul(c, a)), c03TbQ), c}
		p, err := c03MakePoly(coeffs)
		if err != nil {
			panic(err)
		}
		return polynomial.NewPolynomialExponent(p).Evaluate(sc(a))
	}
	return []c03PtRep{
		// ---- the identity ----
		{"NewPoint()", true, func() curve.Point { return g.NewPoint() }, func(o *c03Oracle) c03TbPt { return c03TbPt{} }},
		{"P+(-P)", true, func() curve.Point { return P().Add(P().Negate()) }, func(o *c03Oracle) c03TbPt { return o.ptAdd(rP(o), o.ptNeg(rP(o))) }},
		{"P.Sub(P)", true, func() curve.Point { p := P(); return p.Sub(p) }, func(o *c03Oracle) c03TbPt { return o.ptAdd(rP(o), o.ptNeg(rP(o))) }},
		{"0*P", true, func() curve.Point { return g.NewScalar().Act(P()) }, func(o *c03Oracle) c03TbPt { return o.ptMul(new(big.Int), rP(o)) }},
		{"0*G", true, func() curve.Point { return g.NewScalar().ActOnBase() }, func(o *c03Oracle) c03TbPt { return o.baseMul(new(big.Int)) }},
		{"q*P", true, func() curve.Point {
			return g.NewScalar().SetNat(new(saferith.Nat).SetBig(c03TbQ, 256)).Act(P())
		}, func(o *c03Oracle) c03TbPt { return o.ptMul(c03TbQ, rP(o)) }},
		{"(q-a)*G+a*G", true, func() curve.Point { return sc(qm(a)).ActOnBase().Add(P()) }, func(o *c03Oracle) c03TbPt { return o.ptAdd(o.baseMul(qm(a)), rP(o)) }},
		{"(P+Q)-Q-P", true, func() curve.Point { return P().Add(Q()).Sub(Q()).Sub(P()) },
			func(o *c03Oracle) c03TbPt {
				return o.ptAdd(o.ptAdd(o.ptAdd(rP(o), rQ(o)), o.ptNeg(rQ(o))), o.ptNeg(rP(o)))
			}},
		{"commitment(b*(X-a)).Evaluate(a)", true, rootPoly, func(o *c03Oracle) c03TbPt {
			// b*G * a + (-(b*a))*G
			return o.ptAdd(o.ptMul(a, o.baseMul(b)), o.baseMul(new(big.Int).Mod(new(big.Int).Neg(new(big.Int).Mul(b, a)), c03TbQ)))
		}},
		{"NewPoint().Negate()", true, func() curve.Point { return g.NewPoint().Negate() }, func(o *c03Oracle) c03TbPt { return o.ptNeg(c03TbPt{}) }},
		{"NewPoint()+NewPoint()", true, func() curve.Point { return g.NewPoint().Add(g.NewPoint()) }, func(o *c03Oracle) c03TbPt { return o.ptAdd(c03TbPt{}, c03TbPt{}) }},
		// ---- the point a*G ----
		{"a*G", false, P, rP},
		{"decoded(a*G)", false, func() curve.Point { return decode(P()) }, rP},
		{"(a-1)*G+G", false, func() curve.Point { return sc(am1).ActOnBase().Add(g.NewBasePoint()) }, func(o *c03Oracle) c03TbPt { return o.ptAdd(o.baseMul(am1), c03TbG()) }},
		{"2*((a/2)*G)", false, func() curve.Point { h := sc(half).ActOnBase(); return h.Add(sc(half).ActOnBase()) }, func(o *c03Oracle) c03TbPt { h := o.baseMul(half); return o.ptAdd(h, h) }},
		{"a*G+NewPoint()", false, func() curve.Point { return P().Add(g.NewPoint()) }, func(o *c03Oracle) c03TbPt { return o.ptAdd(rP(o), c03TbPt{}) }},
		{"a*(1*G)", false, func() curve.Point { return sc(a).Act(g.NewBasePoint()) }, func(o *c03Oracle) c03TbPt { return o.ptMul(a, c03TbG()) }},
		// ---- other points ----
		{"-(a*G)", false, func() curve.Point { return P().Negate() }, func(o *c03Oracle) c03TbPt { return o.ptNeg(rP(o)) }},
		{"b*G", false, Q, rQ},
		{"G", false, func() curve.Point { return g.NewBasePoint() }, func(o *c03Oracle) c03TbPt { return c03TbG() }},
		{"a*G+b*G", false, func() curve.Point { return P().Add(Q()) }, func(o *c03Oracle) c03TbPt { return o.ptAdd(rP(o), rQ(o)) }},
		// ---- negations: same x coordinate as the point they negate, never equal to it (finite points have y != 0) ----
		{"(q-a)*G", false, func() curve.Point { return sc(qm(a)).ActOnBase() }, func(o *c03Oracle) c03TbPt { return o.baseMul(qm(a)) }},
		{"decoded(a*G with the other parity byte)", false, func() curve.Point {
			bts, err := P().MarshalBinary()
			if err != nil {
				panic(err)
			}
			bts[0] ^= 1
			n := g.NewPoint()
			if err := n.UnmarshalBinary(bts); err != nil {
				panic(err)
			}
			return n
		}, func(o *c03Oracle) c03TbPt { return o.ptNeg(rP(o)) }},
		{"NewPoint().Sub(a*G)", false, func() curve.Point { return g.NewPoint().Sub(P()) }, func(o *c03Oracle) c03TbPt { return o.ptNeg(rP(o)) }},
		{"-(b*G)", false, func() curve.Point { return Q().Negate() }, func(o *c03Oracle) c03TbPt { return o.ptNeg(rQ(o)) }},
		{"-G", false, func() curve.Point { return g.NewBasePoint().Negate() }, func(o *c03Oracle) c03TbPt { return o.ptNeg(c03TbG()) }},
		{"-(a*G+b*G)", false, func() curve.Point { return P().Add(Q()).Negate() }, func(o *c03Oracle) c03TbPt { return o.ptNeg(o.ptAdd(rP(o), rQ(o))) }},
	}
}

func c03ScalarReps(a, b *big.Int) []c03ScRep {
	g := curve.Secp256k1{}
	sc := c03ScalarOfBig
	one := big.NewInt(1)
	qm1 := new(big.Int).Sub(c03TbQ, one)
	am1 := new(big.Int).Mod(new(big.Int).Sub(a, one), c03TbQ)
	zero := func(*c03Oracle) *big.Int { return new(big.Int) }
	unm := func(bts []byte) curve.Scalar {
		s := g.NewScalar()
		if err := s.UnmarshalBinary(bts); err != nil {
			panic(err)
		}
		return s
	}
	return []c03ScRep{
		{"NewScalar()", true, func() curve.Scalar { return g.NewScalar() }, zero},
		{"a.Sub(a)", true, func() curve.Scalar { return sc(a).Sub(sc(a)) }, func(o *c03Oracle) *big.Int { return o.linMod(a, qm1, a) }},
		{"a+(-a)", true, func() curve.Scalar { return sc(a).Add(sc(a).Negate()) }, func(o *c03Oracle) *big.Int { return o.linMod(a, qm1, a) }},
		{"SetNat(q)", true, func() curve.Scalar { return g.NewScalar().SetNat(new(saferith.Nat).SetBig(c03TbQ, 256)) }, func(o *c03Oracle) *big.Int { return o.linMod(new(big.Int), c03TbQ, a) }},
		{"a*0", true, func() curve.Scalar { return sc(a).Mul(g.NewScalar()) }, func(o *c03Oracle) *big.Int { return o.linMod(new(big.Int), new(big.Int), a) }},
		{"decoded(00..00)", true, func() curve.Scalar { return unm(make([]byte, 32)) }, zero},
		{"NewScalar().Negate()", true, func() curve.Scalar { return g.NewScalar().Negate() }, zero},
		{"a", false, func() curve.Scalar { return sc(a) }, func(o *c03Oracle) *big.Int { return new(big.Int).Mod(a, c03TbQ) }},
		{"(a-1)+1", false, func() curve.Scalar { return sc(am1).Add(sc(one)) }, func(o *c03Oracle) *big.Int { return o.linMod(one, one, am1) }},
		{"decoded(a)", false, func() curve.Scalar { bts, _ := sc(a).MarshalBinary(); return unm(bts) }, func(o *c03Oracle) *big.Int { return new(big.Int).Mod(a, c03TbQ) }},
		{"-(-a)", false, func() curve.Scalar { return sc(a).Negate().Negate() }, func(o *c03Oracle) *big.Int { return o.linMod(new(big.Int), qm1, o.linMod(new(big.Int), qm1, a)) }},
		{"-a", false, func() curve.Scalar { return sc(a).Negate() }, func(o *c03Oracle) *big.Int { return o.linMod(new(big.Int), qm1, a) }},
		{"b", false, func() curve.Scalar { return sc(b) }, func(o *c03Oracle) *big.Int { return new(big.Int).Mod(b, c03TbQ) }},
		{"1", false, func() curve.Scalar { return sc(one) }, func(o *c03Oracle) *big.Int { return one }},
		{"q-1", false, func() curve.Scalar { return sc(qm1) }, func(o *c03Oracle) *big.Int { return qm1 }},
		// ---- negations ----
		{"q-a", false, func() curve.Scalar { return sc(new(big.Int).Mod(new(big.Int).Sub(c03TbQ, a), c03TbQ)) }, func(o *c03Oracle) *big.Int { return o.linMod(new(big.Int), qm1, a) }},
		{"0.Sub(a)", false, func() curve.Scalar { return g.NewScalar().Sub(sc(a)) }, func(o *c03Oracle) *big.Int { return o.linMod(new(big.Int), qm1, a) }},
		{"-b", false, func() curve.Scalar { return sc(b).Negate() }, func(o *c03Oracle) *big.Int { return o.linMod(new(big.Int), qm1, b) }},
		{"-1", false, func() curve.Scalar { return sc(one).Negate() }, func(o *c03Oracle) *big.Int { return qm1 }},
	}
}

func c03PrimClass(l, r bool, same bool) string {
	switch {
	case l && r:
		return "identity-vs-identity"
	case l:
		return "identity-vs-point"
	case r:
		return "point-vs-identity"
	case same:
		return "point-vs-same-point"
	}
	return "point-vs-other-point"
}

// c03Primitives runs the comparisons for one pair of random scalars (a, b); returns the number of comparisons.
func c03Primitives(c *ctx, o *c03Oracle, a, b *big.Int) int {
	n := 0
	hexA, hexB := fmt.Sprintf("%x", a), fmt.Sprintf("%x", b)
	guard := func(f func()) (pan string) {
		defer func() {
			if r := recover(); r != nil {
				pan = fmt.Sprint(r)
			}
		}()
		f()
		return ""
	}
	// ---- points ----
	reps := c03PointReps(a, b)
	refs := make([]c03TbPt, len(reps))
	for i, r := range reps {
		refs[i] = r.Ref(o)
		if refs[i].inf() != r.Ident {
			c.res.Violate("correspondence", "C03/primitive/harness-representation/"+r.Name, "the reference value of a representation does not have the class it was built for", nil)
		}
	}
	for i, x := range reps {
		var got bool
		pan := guard(func() { got = x.Lib().IsIdentity() })
		want := refs[i].inf()
		n++
		c.res.Case("primitive/point-is-identity", "is-identity/"+x.Name+"/"+hexA, true)
		c.res.Corr(pan == "" && got == want)
		if pan != "" || got != want {
			cl := "point"
			if x.Ident {
				cl = "identity"
			}
			c.res.Violate("property", "C03/primitive/point-is-identity/"+cl, fmt.Sprintf("IsIdentity() of %s is %v (panic %q), the reference value is identity: %v (a=%s b=%s)", x.Name, got, pan, want, hexA, hexB),
				c03PrimReplay{Primitive: "point-is-identity", A: hexA, B: hexB, Left: x.Name, Library: got, Reference: want})
		}
		for j, y := range reps {
			var eq bool
			pan := guard(func() { eq = x.Lib().Equal(y.Lib()) })
			want := refs[i].eq(refs[j])
			n++
			cl := c03PrimClass(x.Ident, y.Ident, want)
			c.res.Case("primitive/point-equal/"+cl, "equal/"+x.Name+"/"+y.Name+"/"+hexA, true)
			c.res.Corr(pan == "" && eq == want)
			if pan != "" || eq != want {
				c.res.Violate("property", "C03/primitive/point-equal/"+cl, fmt.Sprintf("(%s).Equal(%s) is %v (panic %q), the reference values are equal: %v (a=%s b=%s)", x.Name, y.Name, eq, pan, want, hexA, hexB),
					c03PrimReplay{Primitive: "point-equal", A: hexA, B: hexB, Left: x.Name, Right: y.Name, Library: eq, Reference: want})
			}
		}
	}
	// the identity has no encoding: whatever the encoder emits for it must not decode to a point that is not the identity
	{
		g := curve.Secp256k1{}
		var bts []byte
		var dec curve.Point
		pan := guard(func() {
			var err error
			if bts, err = g.NewPoint().MarshalBinary(); err != nil {
				return
			}
			p := g.NewPoint()
			if p.UnmarshalBinary(bts) == nil {
				dec = p
			}
		})
		n++
		c.res.Case("primitive/point-identity-encoding", "identity-encoding", true)
		if pan == "" && dec != nil && !dec.IsIdentity() {
			c.res.Violate("property", "C03/primitive/point-equal/identity-encoding", fmt.Sprintf("the encoding %x of the identity decodes to a point that is not the identity", bts),
				c03PrimReplay{Primitive: "identity-encoding", A: hexA, B: hexB})
		}
		// a CBOR round trip of an ordinary point keeps its value
		var back curve.Point
		pan = guard(func() {
			enc, err := cbor.Marshal(c03ScalarOfBig(a).ActOnBase())
			if err != nil {
				panic(err)
			}
			p := g.NewPoint()
			if err := cbor.Unmarshal(enc, p); err != nil {
				panic(err)
			}
			back = p
		})
		n++
		c.res.Case("primitive/point-cbor-roundtrip", "cbor-roundtrip/"+hexA, true)
		refP := c03TbPt{}
		for i, r := range reps {
			if r.Name == "a*G" {
				refP = refs[i]
			}
		}
		if pt, ok := c03PtOf(back); pan != "" || !ok || !pt.eq(refP) {
			c.res.Violate("property", "C03/primitive/point-equal/cbor-roundtrip", fmt.Sprintf("a*G does not survive its CBOR encoding (panic %q, a=%s)", pan, hexA),
				c03PrimReplay{Primitive: "cbor-roundtrip", A: hexA, B: hexB})
		}
	}
	// ---- scalars ----
	sreps := c03ScalarReps(a, b)
	srefs := make([]*big.Int, len(sreps))
	for i, r := range sreps {
		srefs[i] = r.Ref(o)
		if (srefs[i].Sign() == 0) != r.Zero {
			c.res.Violate("correspondence", "C03/primitive/harness-representation/"+r.Name, "the reference value of a scalar representation does not have the class it was built for", nil)
		}
	}
	for i, x := range sreps {
		var got bool
		pan := guard(func() { got = x.Lib().IsZero() })
		want := srefs[i].Sign() == 0
		n++
		c.res.Case("primitive/scalar-is-zero", "is-zero/"+x.Name+"/"+hexA, true)
		c.res.Corr(pan == "" && got == want)
		if pan != "" || got != want {
			cl := "nonzero"
			if x.Zero {
				cl = "zero"
			}
			c.res.Violate("property", "C03/primitive/scalar-is-zero/"+cl, fmt.Sprintf("IsZero() of %s is %v (panic %q), the reference value is zero: %v (a=%s b=%s)", x.Name, got, pan, want, hexA, hexB),
				c03PrimReplay{Primitive: "scalar-is-zero", A: hexA, B: hexB, Left: x.Name, Library: got, Reference: want})
		}
		for j, y := range sreps {
			var eq bool
			pan := guard(func() { eq = x.Lib().Equal(y.Lib()) })
			want := srefs[i].Cmp(srefs[j]) == 0
			n++
			cl := "nonzero-vs-nonzero"
			switch {
			case x.Zero && y.Zero:
				cl = "zero-vs-zero"
			case x.Zero || y.Zero:
				cl = "zero-vs-nonzero"
			}
			c.res.Case("primitive/scalar-equal/"+cl, "sc-equal/"+x.Name+"/"+y.Name+"/"+hexA, true)
			c.res.Corr(pan == "" && eq == want)
			if pan != "" || eq != want {
				c.res.Violate("property", "C03/primitive/scalar-equal/"+cl, fmt.Sprintf("(%s).Equal(%s) is %v (panic %q), the reference values are equal: %v (a=%s b=%s)", x.Name, y.Name, eq, pan, want, hexA, hexB),
					c03PrimReplay{Primitive: "scalar-equal", A: hexA, B: hexB, Left: x.Name, Right: y.Name, Library: eq, Reference: want})
			}
		}
	}
	return n
}

func c03PrimitivesAll(c *ctx, o *c03Oracle, rng *rand.Rand) {
	rounds := 2
	if c.thorough() {
		rounds = 12
	}
	n := 0
	for k := 0; k < rounds; k++ {
		a, b := c03RandNonZero(rng), c03RandNonZero(rng)
		if k == 1 {
			a = big.NewInt(1) // P = G: the degenerate representations (a-1)*G = identity, a/2 etc. still have to agree
		}
		for a.Cmp(b) == 0 || new(big.Int).Add(a, b).Cmp(c03TbQ) == 0 {
			b = c03RandNonZero(rng)
		}
		n += c03Primitives(c, o, a, b)
	}
	c.res.Note("verification primitives: %d comparisons (Point.Equal / IsIdentity / Scalar.Equal / IsZero on every representation of the identity, of a*G and of 0) against the reference values", n)
}

func c03PrimReplayRun(c *ctx, o *c03Oracle, rp c03PrimReplay) {
	a, ok1 := new(big.Int).SetString(rp.A, 16)
	b, ok2 := new(big.Int).SetString(rp.B, 16)
	if !ok1 || !ok2 {
		c.res.Note("replay: bad scalars in the primitive replay")
		return
	}
	c03Primitives(c, o, a, b)
	c.res.Sample(3, map[string]interface{}{"replayed": rp})
}
