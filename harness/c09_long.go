package main

// C09 -- long session identifiers.  The session id is a caller-chosen byte string of ANY length: two sessions whose ids are
// longer than a hash block / a digest and share a long common prefix (64 vs 65 bytes sharing 64; two 65-byte ids differing in the
// last byte; 100 vs 100 sharing 99; 1000 vs 1000 sharing 999; 65 vs 1000 sharing 64; a 64-byte id vs the same id plus one zero
// byte) are different sessions:
//   * round.NewSession: the two tags differ and each equals the model's tag (sess.new) byte for byte;
//   * real handlers (xor, FROST key generation, Doerner key generation run to completion; CMP key generation at start): the tag
//     carried by the first message of every party equals the model's tag of (id, protocol, group, parties, threshold), the tags of
//     the two sessions differ, and every message of one session offered to the parties of the other -- before every delivery of the
//     victim's in-order run, both directions -- is refused: CanAccept false, a forced Accept changes nothing; the victim completes.
// Keys: C09/long-session-id/<proto>/<pair>/{same-tag,cross-accept,victim-result}; correspondence: C09/long-session-id/<proto>/ssid-mismatch.

import (
	"bytes"
	"encoding/hex"
	"fmt"
	"math/rand"

	"github.com/taurusgroup/multi-party-sig/pkg/math/curve"
	"github.com/taurusgroup/multi-party-sig/pkg/party"
	"github.com/taurusgroup/multi-party-sig/pkg/protocol"
	"github.com/taurusgroup/multi-party-sig/protocols/cmp"
	"github.com/taurusgroup/multi-party-sig/protocols/doerner"
)

type c09LongCase struct {
	Proto  string `json:"proto"`
	Pair   string `json:"pair"`
	SidA   string `json:"session_id_a_hex"`
	SidB   string `json:"session_id_b_hex"`
	Seed   int64  `json:"seed"`
	Detail string `json:"detail,omitempty"`
}

type c09LongReplay struct {
	What string       `json:"what"`
	LS   *c09LongCase `json:"long_session_id,omitempty"`
}

type c09LongPair struct {
	name string
	a, b []byte
}

// c09LongPairs: ids cut from one random string; `flip` changes the last byte of a copy
func c09LongPairs(r *rand.Rand, thorough bool) []c09LongPair {
	base := make([]byte, 4096)
	r.Read(base)
	cut := func(n int) []byte { return append([]byte{}, base[:n]...) }
	flip := func(n int) []byte {
		o := cut(n)
		o[n-1] ^= byte(1 + r.Intn(255))
		return o
	}
	ps := []c09LongPair{
		{"64-vs-65-sharing-64", cut(64), cut(65)},
		{"65-vs-65-sharing-64", cut(65), flip(65)},
		{"100-vs-100-sharing-99", cut(100), flip(100)},
		{"1000-vs-1000-sharing-999", cut(1000), flip(1000)},
		{"65-vs-1000-sharing-64", flip(65), cut(1000)},
		{"64-vs-64-plus-zero-byte", cut(64), append(cut(64), 0)},
	}
	if thorough {
		ps = append(ps,
			c09LongPair{"32-vs-33-sharing-32", cut(32), cut(33)},
			c09LongPair{"63-vs-64-sharing-63", cut(63), cut(64)},
			c09LongPair{"128-vs-129-sharing-128", cut(128), cut(129)},
			c09LongPair{"129-vs-129-sharing-128", cut(129), flip(129)},
			c09LongPair{"4096-vs-4096-sharing-4095", cut(4096), flip(4096)},
			c09LongPair{"64-zero-bytes-vs-65-zero-bytes", make([]byte, 64), make([]byte, 65)},
		)
	}
	return ps
}

type c09LongProto struct {
	name      string
	ids       []party.ID
	thr       int
	group     bool
	startOnly bool // the sessions are not run: tags and messages of the start, victims in their initial state
	thorough  bool // thorough tier only
	fewPairs  bool // quick tier: the first and the fourth pair only
	mk        func(sid []byte, det *detReader) *Sim
}

func c09LongProtos() []*c09LongProto {
	ids3 := idsOf("alice", "bob", "carl")
	ids2 := idsOf("recv", "send")
	g := curve.Secp256k1{}
	multi := func(sp func(sid []byte) SessionSpec) func(sid []byte, det *detReader) *Sim {
		return func(sid []byte, det *detReader) *Sim { return sp(sid).build(rand.New(rand.NewSource(3)), det) }
	}
	return []*c09LongProto{
		{name: "xor", ids: ids3, thr: 0, group: false, mk: multi(func(sid []byte) SessionSpec { return specXOR(ids3, sid) })},
		{name: "frost-keygen", ids: ids3, thr: 1, group: true, mk: multi(func(sid []byte) SessionSpec { return specFrostKeygen(ids3, 1, false, sid) })},
		{name: "frost-keygen-taproot", ids: ids3, thr: 1, group: true, thorough: true, mk: multi(func(sid []byte) SessionSpec { return specFrostKeygen(ids3, 1, true, sid) })},
		{name: "doerner-keygen", ids: ids2, thr: 1, group: true, mk: func(sid []byte, det *detReader) *Sim {
			return twoPartySim(ids2, det, doerner.Keygen(g, true, ids2[0], ids2[1], nil), doerner.Keygen(g, false, ids2[1], ids2[0], nil), sid, true, false)
		}},
		{name: "cmp-keygen", ids: ids2, thr: 1, group: true, startOnly: true, fewPairs: true, mk: multi(func(sid []byte) SessionSpec {
			usePrimeCache()
			return SessionSpec{Name: "cmp-keygen/n=2", IDs: ids2, SessionID: sid,
				Start: func(id party.ID) protocol.StartFunc { return cmp.Keygen(g, id, ids2, 1, nil) }}
		})},
	}
}

// c09LongTags: the tag in the first message of every party, compared with the model's tag; returns one tag ("" if nobody sent anything)
func (c *ctx) c09LongTags(pr *c09LongProto, s *Sim, sid []byte, cs *c09LongCase) (tag []byte, problem string) {
	for _, id := range s.IDs {
		n := s.Nodes[id]
		if n.H == nil {
			return nil, fmt.Sprintf("party %s did not start: %v", id, n.StartErr)
		}
		if len(n.Out) == 0 {
			continue // a two-party follower speaks only after the leader
		}
		t := nonNil(n.Out[0].SSID)
		if tag == nil {
			tag = t
		} else if !bytes.Equal(tag, t) {
			return nil, fmt.Sprintf("the parties of ONE session carry different tags (%x.. / %x..)", tag[:6], t[:6])
		}
		ids := make([][]byte, len(pr.ids))
		for i, x := range pr.ids {
			ids[i] = []byte(x)
		}
		sp := sessParams{Sid: sid, Proto: string(n.Out[0].Protocol), Group: pr.group, IDs: ids, Self: []byte(id), Thr: pr.thr}
		rep, err := c.m.Call("sess.new", sp.sx())
		if err != nil {
			c.res.Violate("correspondence", "C09/model-error", err.Error(), c09Replay{What: "model error", A: sp.String()})
			continue
		}
		ok := len(rep.L) == 1 && bytes.Equal(blake64(rep.L[0].B), t)
		c.res.Corr(ok)
		if !ok {
			c.res.Violate("correspondence", "C09/long-session-id/"+pr.name+"/ssid-mismatch",
				fmt.Sprintf("the tag in the first message of %s (session id of %d bytes) is not the model's tag", id, len(sid)), c09LongReplay{What: "long session id", LS: cs})
		}
	}
	return tag, ""
}

// c09LongFP: state fingerprint; a two-party handler lists its stored round numbers in map order (tpStateFP sorts them)
func c09LongFP(n *Node) string {
	if n.TH != nil {
		return tpStateFP(n)
	}
	return stateFP(n)
}

// c09LongOffer: messages of session `from` offered to a fresh session `to` before each of its in-order deliveries
func (c *ctx) c09LongOffer(pr *c09LongProto, class string, foreign []*protocol.Message, sid []byte, seed int64) (bad string, finished bool, offered int) {
	det := installDetReader(seed, 0)
	defer restoreRandReader()
	b := pr.mk(sid, det)
	offer := func(n *Node) string {
		for _, m := range foreign {
			if (m.To != "" && m.To != n.ID) || m.From == n.ID {
				continue
			}
			offered++
			before := c09LongFP(n)
			can := n.H.CanAccept(m)
			msgs, pan, hung := b.call(n, func() { n.H.Accept(m) })
			after := c09LongFP(n)
			c.res.Case(class, fmt.Sprintf("%s/%d/%x", class, offered, m.Hash()[:6]), true)
			if can || before != after || len(msgs) > 0 || pan != "" || hung {
				return fmt.Sprintf("round-%d message of %s (other session) offered to %s in round %d: CanAccept=%v, state changed=%v, emitted=%d, panic=%q, hung=%v",
					m.RoundNumber, m.From, n.ID, n.Obs[len(n.Obs)-1].Round, can, before != after, len(msgs), pan, hung)
			}
		}
		return ""
	}
	for _, id := range b.IDs {
		if b.Nodes[id].H == nil {
			return fmt.Sprintf("party %s did not start: %v", id, b.Nodes[id].StartErr), false, offered
		}
	}
	if pr.startOnly {
		for _, id := range b.IDs {
			if bad = offer(b.Nodes[id]); bad != "" {
				return bad, false, offered
			}
		}
		return "", true, offered
	}
	for k := 0; len(b.Flight) > 0 && k < 10000; k++ {
		e := b.take(0)
		if bad = offer(b.Nodes[e.To]); bad != "" {
			return bad, false, offered
		}
		b.Deliver(e)
	}
	finished = true
	for _, id := range b.IDs {
		if r, _ := resultOf(b.Nodes[id]); r == nil {
			finished = false
		}
	}
	return "", finished, offered
}

func (c *ctx) c09LongOne(pr *c09LongProto, pairName string, sidA, sidB []byte, seed int64) {
	cs := &c09LongCase{Proto: pr.name, Pair: pairName, SidA: hex.EncodeToString(sidA), SidB: hex.EncodeToString(sidB), Seed: seed}
	key := "C09/long-session-id/" + pr.name + "/" + pairName
	class := "long-session-id/" + pr.name
	rp := func(detail string) c09LongReplay {
		x := *cs
		x.Detail = detail
		return c09LongReplay{What: "long session id", LS: &x}
	}
	sids := [2][]byte{sidA, sidB}
	var tags [2][]byte
	var msgs [2][]*protocol.Message
	for i := 0; i < 2; i++ {
		det := installDetReader(seed+int64(i), 0)
		s := pr.mk(sids[i], det)
		var prob string
		tags[i], prob = c.c09LongTags(pr, s, sids[i], cs)
		if prob == "" && !pr.startOnly {
			s.RunFIFO(10000)
		}
		restoreRandReader()
		if prob != "" {
			c.res.Note("C09 long session ids: %s %s: %s", pr.name, pairName, prob)
			c.res.Case(class+"/not-started", key, false)
			return
		}
		for _, id := range s.IDs {
			msgs[i] = append(msgs[i], s.Nodes[id].Out...)
		}
	}
	c.res.Case(class+"/tags", key, tags[0] != nil && tags[1] != nil)
	c.res.Sample(3, map[string]interface{}{"proto": pr.name, "pair": pairName, "tag_a": hex.EncodeToString(tags[0]), "tag_b": hex.EncodeToString(tags[1])})
	if tags[0] != nil && bytes.Equal(tags[0], tags[1]) {
		c.res.Violate("property", key+"/same-tag", fmt.Sprintf("two %s sessions whose session ids (%d and %d bytes) differ have the same session tag %x", pr.name, len(sidA), len(sidB), tags[0]),
			rp(hex.EncodeToString(tags[0])))
	}
	for dir := 0; dir < 2; dir++ {
		bad, finished, _ := c.c09LongOffer(pr, class+"/offer", msgs[dir], sids[1-dir], seed+2+int64(dir))
		who := [2]string{"a into b", "b into a"}[dir]
		if bad != "" {
			c.res.Violate("property", key+"/cross-accept", fmt.Sprintf("a message of a %s session with another (long) session id was not refused (%s): %s", pr.name, who, bad), rp(who+": "+bad))
		} else if !finished {
			c.res.Violate("property", key+"/victim-result", fmt.Sprintf("a %s session offered the messages of a session with another (long) session id did not complete (%s)", pr.name, who), rp(who))
		}
	}
}

func (c *ctx) c09LongNewSession(pairName string, sidA, sidB []byte) {
	base := sessParams{Proto: "cmp/sign", Group: true, IDs: [][]byte{[]byte("alice"), []byte("bob"), []byte("carl")}, Self: []byte("alice"), Thr: 1}
	p, q := base, base
	p.Sid, q.Sid = sidA, sidB
	key := "C09/long-session-id/new-session/" + pairName
	var tags [2][]byte
	for i, s := range []sessParams{p, q} {
		ssid, _, err := goSession(s)
		rep, merr := c.m.Call("sess.new", s.sx())
		if merr != nil {
			c.res.Violate("correspondence", "C09/model-error", merr.Error(), c09Replay{What: "model error", A: s.String()})
			return
		}
		agree := len(rep.L) == 1 && err == nil && bytes.Equal(blake64(rep.L[0].B), ssid)
		c.res.Corr(agree)
		if !agree {
			c.res.Violate("correspondence", "C09/long-session-id/new-session/ssid-mismatch", fmt.Sprintf("session id of %d bytes: Go err=%v, or the tag is not the model's", len(s.Sid), err), c09Replay{What: "ssid correspondence", A: s.String()})
		}
		tags[i] = ssid
	}
	c.res.Case("long-session-id/new-session", key, tags[0] != nil && tags[1] != nil)
	if tags[0] != nil && bytes.Equal(tags[0], tags[1]) {
		// replayed by c09ReplayTagPair (two printed parameter sets)
		c.res.Violate("property", key+"/same-tag", fmt.Sprintf("NewSession: session ids of %d and %d bytes that differ give the same session tag", len(sidA), len(sidB)),
			c09Replay{What: "ssid collision", A: p.String(), B: q.String(), Detail: hex.EncodeToString(tags[0]), Key: key + "/same-tag"})
	}
}

// c09LongSessionIDs: all pairs x protocols (only == nil), or one recorded case
func (c *ctx) c09LongSessionIDs(only *c09LongCase) {
	if only != nil {
		a, e1 := hex.DecodeString(only.SidA)
		b, e2 := hex.DecodeString(only.SidB)
		for _, pr := range c09LongProtos() {
			if pr.name == only.Proto && e1 == nil && e2 == nil {
				c.c09LongOne(pr, only.Pair, a, b, only.Seed)
				return
			}
		}
		c.res.Note("replay: unknown long-session-id case %+v", *only)
		return
	}
	seed := c.res.Seed*7919 + 900
	for k, pair := range c09LongPairs(c.res.Rng, c.thorough()) {
		c.c09LongNewSession(pair.name, pair.a, pair.b)
		for j, pr := range c09LongProtos() {
			if pr.thorough && !c.thorough() {
				continue
			}
			if pr.fewPairs && !c.thorough() && k != 0 && k != 3 {
				continue
			}
			c.c09LongOne(pr, pair.name, pair.a, pair.b, seed+int64(100*k+10*j))
		}
	}
}

// c09LongReplayFile: `-replay` of a long-session-id case; false if the file is not one
func (c *ctx) c09LongReplayFile() bool {
	var rp c09LongReplay
	if err := readJSON(c.replay, &rp); err != nil || rp.LS == nil {
		return false
	}
	c.res.Rule = "replay of one long-session-id case"
	c.c09LongSessionIDs(rp.LS)
	return true
}
