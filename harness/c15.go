package main

// C15 -- stored key material round-trips; malformed material is refused.
// (a) correspondence: the Coq codec model (coq/Model/Cbor.v, ops cbor.*) against fxamacker/cbor and the library's
//     Message / Exponent / scalar / point codecs, byte for byte, on generated values;
// (b) every result type of every protocol, obtained from real sessions through the pump, is serialized with the
//     documented encoder, restored with the documented Empty* constructor, compared field by field (canon) and used in
//     a later session TOGETHER WITH the other parties' un-restored material; signatures are judged by the reference;
// (c) every single-node corruption of the CBOR tree of every type, plus random flips / truncations: Go must return an
//     error or an object that satisfies the validity rules (checked here with math/big); an invalid object, a silently
//     empty object with nil error, or a panic is a property violation keyed C15/<type>/<field>/<corruption>.
//     For cmp.Config, frost.Config and protocol.Message the model predicts Go's verdict on every corrupted input.

import (
	"bytes"
	crand "crypto/rand"
	"encoding/hex"
	"fmt"
	"math/big"
	"math/rand"
	"sort"
	"strings"

	"github.com/cronokirby/saferith"
	"github.com/fxamacker/cbor/v2"
	"github.com/taurusgroup/multi-party-sig/pkg/ecdsa"
	"github.com/taurusgroup/multi-party-sig/pkg/math/curve"
	"github.com/taurusgroup/multi-party-sig/pkg/math/polynomial"
	"github.com/taurusgroup/multi-party-sig/pkg/math/sample"
	"github.com/taurusgroup/multi-party-sig/pkg/paillier"
	"github.com/taurusgroup/multi-party-sig/pkg/party"
	"github.com/taurusgroup/multi-party-sig/pkg/protocol"
	"github.com/taurusgroup/multi-party-sig/pkg/taproot"
	"github.com/taurusgroup/multi-party-sig/pkg/verifhook"
	"github.com/taurusgroup/multi-party-sig/protocols/cmp"
	"github.com/taurusgroup/multi-party-sig/protocols/doerner"
	"github.com/taurusgroup/multi-party-sig/protocols/frost"

	"verifharness/sx"
)

func init() { props["C15"] = runC15 }

type c15Replay struct {
	Type       string   `json:"type"`
	Field      string   `json:"field,omitempty"`
	Corruption string   `json:"corruption,omitempty"`
	Bytes      string   `json:"bytes_hex,omitempty"`
	What       string   `json:"what"`
	Scenario   string   `json:"scenario,omitempty"`
	Problems   []string `json:"problems,omitempty"`
	Go         string   `json:"go,omitempty"`
	Model      string   `json:"model,omitempty"`
}

func c15Short(s string, n int) string {
	if len(s) > n {
		return s[:n]
	}
	return s
}

func runC15(c *ctx) {
	c.res.Rule = "generated CBOR trees / messages / exponents / scalar and point byte strings (boundary lengths and values); " +
		"real results of FROST, FROST-Taproot, Doerner and CMP sessions; every single-node corruption of their CBOR trees + random flips/truncations; " +
		"cmp.Config: a catalogue of crafted primes / moduli / Pedersen parameters (c15_crafted.go); " +
		"non-trivial = the case exercises a codec on a non-empty input; distinct by input bytes"
	if c.replay != "" && c.c15TwiceReplayRun() { // encode-twice cases (c15_twice.go)
		return
	}
	if c.replay != "" {
		c.c15ReplayRun()
		return
	}
	c.c15Generic(12)
	c.c15Messages()
	c.c15SessionIDs()
	c.c15Generic(0)
	// everything below is too expensive to be re-evaluated with vm_compute: stop logging cases for cases.v
	c.m.MaxLog = len(c.m.Log)
	c.c15ScalarsPoints()
	c.c15Exponents()
	c.c15PrimeOracle()
	mats := c.c15Sessions()
	c.c15CorruptAll(mats)
	c.c15Witnesses(mats)
	c.c15Crafted(mats)
	// restore outcomes that depend on map iteration order: every damaged config restored many times (c15_repeat.go)
	c.c15RestoreRepeat()
	c.c15EncodeTwice(mats) // encode A, encode B, then decode what was returned for A (c15_twice.go)
}

// ---------------------------------------------------------------------------------------------
// (a) generic CBOR: model encoder == fxamacker encoder; model decoder inverts it

func c15GenTree(r *rand.Rand, depth int) *c15Node {
	lens := []int{0, 1, 23, 24, 25, 255, 256, 257, 300}
	k := r.Intn(8)
	if depth <= 0 && (k == c15Arr || k == c15Map) {
		k = r.Intn(4)
	}
	switch k {
	case c15Uint, c15Neg:
		vals := []uint64{0, 1, 23, 24, 255, 256, 65535, 65536, 1<<32 - 1, 1 << 32, 1<<63 - 1, 1 << 63, ^uint64(0), r.Uint64()}
		return &c15Node{K: k, U: vals[r.Intn(len(vals))]}
	case c15Bytes:
		return c15B(randBytes(r, lens[r.Intn(len(lens))]))
	case c15Text:
		alphabet := []string{"a", "Z", "0", "é", "ß", "→", "𝔾", " ", "\"", "\\"}
		var sb strings.Builder
		for i, n := 0, r.Intn(30); i < n; i++ {
			sb.WriteString(alphabet[r.Intn(len(alphabet))])
		}
		return c15T(sb.String())
	case c15Arr:
		n := &c15Node{K: c15Arr}
		for i, m := 0, []int{0, 1, 2, 5, 24, 30}[r.Intn(6)]; i < m; i++ {
			n.A = append(n.A, c15GenTree(r, depth-1))
		}
		return n
	case c15Map:
		// at most one pair: Go's encoder does not fix the order of map[interface{}]interface{} entries
		n := &c15Node{K: c15Map}
		if r.Intn(4) != 0 {
			n.MK = append(n.MK, c15GenTree(r, 0))
			n.MV = append(n.MV, c15GenTree(r, depth-1))
			if n.MK[0].K == c15Bytes { // []byte is not a valid Go map key
				n.MK[0] = c15T("k")
			}
		}
		return n
	case c15Bool:
		return &c15Node{K: c15Bool, Bool: r.Intn(2) == 0}
	}
	return c15NullNode()
}

// goValue turns a tree into the Go value whose default encoding is that tree
func (n *c15Node) goValue() interface{} {
	switch n.K {
	case c15Uint:
		return n.U
	case c15Neg:
		if n.U < 1<<63 {
			return -1 - int64(n.U)
		}
		z := new(big.Int).SetUint64(n.U)
		return z // only used for comparison avoidance (see below)
	case c15Bytes:
		return n.B
	case c15Text:
		return string(n.B)
	case c15Arr:
		l := make([]interface{}, len(n.A))
		for i, x := range n.A {
			l[i] = x.goValue()
		}
		return l
	case c15Map:
		m := map[interface{}]interface{}{}
		for i := range n.MK {
			m[n.MK[i].goValue()] = n.MV[i].goValue()
		}
		return m
	case c15Bool:
		return n.Bool
	}
	return nil
}

func (n *c15Node) hasBigNeg() bool {
	if n.K == c15Neg && n.U >= 1<<63 {
		return true
	}
	for _, x := range n.A {
		if x.hasBigNeg() {
			return true
		}
	}
	for i := range n.MK {
		if n.MK[i].hasBigNeg() || n.MV[i].hasBigNeg() {
			return true
		}
	}
	return false
}

func (c *ctx) c15ModelEncode(t *c15Node) ([]byte, bool, error) {
	rep, err := c.m.Call("cbor.encode", t.sx())
	if err != nil {
		return nil, false, err
	}
	return rep.L[0].B, rep.L[1].AsBool(), nil
}

func (c *ctx) c15Generic(n int) {
	r := c.res.Rng
	first := n > 0
	if n == 0 {
		n = 150
		if c.thorough() {
			n = 3000
		}
	}
	for i := 0; i < n; i++ {
		t := c15GenTree(r, 3)
		own := t.bytes()
		mb, wf, err := c.c15ModelEncode(t)
		if err != nil {
			c.res.Violate("correspondence", "C15/model-error/cbor.encode", err.Error(), c15Replay{Type: "cbor", What: "model error", Bytes: hex.EncodeToString(own)})
			return
		}
		ok := bytes.Equal(mb, own) && wf
		var gb []byte
		if !t.hasBigNeg() { // Go has no int below -2^63: such items are only compared with the harness encoder
			gb, err = cbor.Marshal(t.goValue())
			ok = ok && err == nil && bytes.Equal(gb, mb)
		}
		c.res.Corr(ok)
		c.res.Case(fmt.Sprintf("cbor-tree/kind=%d", t.K), hex.EncodeToString(own), len(own) > 1)
		if !ok {
			c.res.Violate("correspondence", fmt.Sprintf("C15/cbor-encode-mismatch/kind=%d", t.K), "model encoder and fxamacker/cbor disagree on a generated tree",
				c15Replay{Type: "cbor", What: "encode", Bytes: hex.EncodeToString(own), Go: hex.EncodeToString(gb), Model: hex.EncodeToString(mb)})
			continue
		}
		// model decoder: inverse, with and without trailing bytes
		tail := randBytes(r, r.Intn(3))
		rep, err := c.m.Call("cbor.decode", sx.Bytes(append(append([]byte{}, own...), tail...)))
		if err != nil {
			continue
		}
		dok := len(rep.L) == 2 && rep.L[0].Equal(t.sx()) && bytes.Equal(rep.L[1].B, tail)
		// fxamacker accepts the same bytes (first item) and re-encodes them identically
		if !t.hasBigNeg() && t.K != c15Map && t.K != c15Arr {
			var back interface{}
			if e := cbor.Unmarshal(own, &back); e != nil {
				dok = false
			} else if b2, e := cbor.Marshal(back); e != nil || !bytes.Equal(b2, own) {
				dok = false
			}
		}
		c.res.Corr(dok)
		if !dok {
			c.res.Violate("correspondence", fmt.Sprintf("C15/cbor-decode-mismatch/kind=%d", t.K), "model decoder does not invert the encoder / fxamacker does not re-encode identically",
				c15Replay{Type: "cbor", What: "decode", Bytes: hex.EncodeToString(own), Model: rep.String()})
		}
		if i < 2 {
			c.res.Sample(8, map[string]string{"what": "cbor tree", "bytes": c15Short(hex.EncodeToString(own), 80)})
		}
	}
	if first {
		return
	}
	// malformed inputs: the model decoder and fxamacker's well-formedness check agree on refusal
	bad := [][]byte{{}, {0x18}, {0x19, 1}, {0x5f, 0x41, 1, 0xff}, {0x9f, 0xff}, {0x81}, {0xa1, 0x01}, {0x62, 0x61}, {0x62, 0x61, 0xff}, {0x1c}, {0xf8, 0x14}, {0x5b, 0xff, 0xff, 0xff, 0xff, 0xff, 0xff, 0xff, 0xff}, {0x9b, 0xff, 0xff, 0xff, 0xff, 0xff, 0xff, 0xff, 0xff}}
	for _, b := range bad {
		rep, err := c.m.Call("cbor.decode", sx.Bytes(b))
		if err != nil {
			continue
		}
		var v interface{}
		gerr := cbor.Unmarshal(b, &v)
		indefinite := len(b) > 0 && (b[0] == 0x5f || b[0] == 0x9f) // valid CBOR outside the emitted subset
		ok := (len(rep.L) == 0) == (gerr != nil) || indefinite
		c.res.Corr(ok)
		c.res.Case("cbor-malformed", hex.EncodeToString(b), true)
		if !ok {
			c.res.Violate("correspondence", "C15/cbor-malformed-mismatch", "model decoder and fxamacker disagree on a malformed item",
				c15Replay{Type: "cbor", What: "malformed", Bytes: hex.EncodeToString(b), Go: fmt.Sprint(gerr), Model: rep.String()})
		}
	}
}

// ---------------------------------------------------------------------------------------------
// (a) protocol.Message

func c15MsgSx(m *protocol.Message) sx.V {
	return sx.List(sx.OptBytes(m.SSID), sx.Str(string(m.From)), sx.Str(string(m.To)), sx.Str(m.Protocol),
		sx.Int(int64(m.RoundNumber)), sx.OptBytes(m.Data), sx.Bool(m.Broadcast), sx.OptBytes(m.BroadcastVerification))
}

func c15MsgEq(a, b *protocol.Message) bool {
	sl := func(x, y []byte) bool { return (x == nil) == (y == nil) && bytes.Equal(x, y) }
	return sl(a.SSID, b.SSID) && a.From == b.From && a.To == b.To && a.Protocol == b.Protocol && a.RoundNumber == b.RoundNumber &&
		sl(a.Data, b.Data) && a.Broadcast == b.Broadcast && sl(a.BroadcastVerification, b.BroadcastVerification)
}

func c15GenSlice(r *rand.Rand, big bool) []byte {
	lens := []int{0, 1, 23, 24, 32, 64, 255, 256}
	if big {
		lens = append(lens, 65535, 65536, 70000)
	}
	switch r.Intn(6) {
	case 0:
		return nil
	case 1:
		return []byte{}
	}
	return randBytes(r, lens[r.Intn(len(lens))])
}

func c15GenID(r *rand.Rand) (id string, validUTF8 bool) {
	ids := []string{"a", "alice", "bob", "p-0123456789012345678901", "é", "名前", "𝔾roup", "a b", "a\x00b", strings.Repeat("x", 300)}
	if r.Intn(8) == 0 {
		bad := []string{"a\xff", "\xc0\x80", "\xed\xa0\x80", "\xf4\x90\x80\x80", "\xe2\x82", "ok\x80"}
		return bad[r.Intn(len(bad))], false
	}
	return ids[r.Intn(len(ids))], true
}

func (c *ctx) c15OneMessage(m *protocol.Message, class string, valid bool, prefill bool) {
	r := c.res.Rng
	gb, gerr := m.MarshalBinary()
	rep, err := c.m.Call("cbor.message_encode", c15MsgSx(m))
	if err != nil {
		c.res.Violate("correspondence", "C15/model-error/cbor.message_encode", err.Error(), c15Replay{Type: "protocol.Message", What: "model error"})
		return
	}
	ok := gerr == nil && bytes.Equal(gb, rep.L[0].B) && rep.L[1].AsBool() == valid
	c.res.Corr(ok)
	c.res.Case(class, hex.EncodeToString(gb), true)
	c.res.Sample(8, map[string]string{"what": "message", "class": class, "bytes": c15Short(hex.EncodeToString(gb), 120)})
	if !ok {
		c.res.Violate("correspondence", "C15/message-encode-mismatch/"+class, "Message.MarshalBinary differs from the model's message_encode",
			c15Replay{Type: "protocol.Message", What: "encode", Go: hex.EncodeToString(gb), Model: hex.EncodeToString(rep.L[0].B)})
		return
	}
	// restore into a fresh or a pre-filled receiver: Go and model agree on (receiver afterwards, error)
	m0 := &protocol.Message{}
	if prefill {
		m0 = &protocol.Message{SSID: []byte{9}, From: "old", To: "old2", Protocol: "oldp", RoundNumber: 7, Data: []byte{8}, Broadcast: true, BroadcastVerification: []byte{7}}
	}
	m0sx := c15MsgSx(m0)
	var uerr error
	pan := ""
	func() {
		defer func() {
			if p := recover(); p != nil {
				pan = fmt.Sprint(p)
			}
		}()
		uerr = m0.UnmarshalBinary(gb)
	}()
	urep, err := c.m.Call("cbor.message_unmarshal", sx.List(m0sx, sx.Bytes(gb)))
	if err == nil {
		uok := pan == "" && urep.L[0].Equal(c15MsgSx(m0)) && urep.L[1].AsBool() == (uerr != nil)
		c.res.Corr(uok)
		if !uok {
			c.res.Violate("correspondence", "C15/message-unmarshal-mismatch/"+class, "Message.UnmarshalBinary differs from the model's message_unmarshal",
				c15Replay{Type: "protocol.Message", What: "unmarshal", Bytes: hex.EncodeToString(gb), Go: fmt.Sprintf("%s err=%v panic=%s", c15MsgSx(m0), uerr, pan), Model: urep.String()})
		}
	}
	// property: what a session can have written is what comes back (ids of a session are valid UTF-8 and not empty:
	// round.NewSession refuses others, see c15SessionIDs)
	if valid && (pan != "" || uerr != nil || !c15MsgEq(m0, m)) {
		desc := "a message does not survive MarshalBinary -> UnmarshalBinary"
		if pan != "" {
			desc += " (panic: " + pan + ")"
		}
		c.res.Violate("property", "C15/protocol.Message/roundtrip/"+class, desc, c15Replay{Type: "protocol.Message", Bytes: hex.EncodeToString(gb), What: "roundtrip",
			Problems: []string{fmt.Sprintf("restored %s, error %v", c15MsgSx(m0), uerr)}})
	}
	if !valid && pan == "" && uerr == nil {
		c.res.Violate("property", "C15/protocol.Message/From/bad-value", "bytes that are not a restorable message (bad party id / no sender / no protocol) are accepted with a nil error",
			c15Replay{Type: "protocol.Message", Field: "From", Corruption: "invalid-utf8", Bytes: hex.EncodeToString(gb), What: "roundtrip"})
	}
	_ = r
}

func (c *ctx) c15Messages() {
	r := c.res.Rng
	n := 120
	if c.thorough() {
		n = 2500
	}
	rounds := []uint16{0, 1, 2, 23, 24, 255, 256, 65535}
	for i := 0; i < n; i++ {
		from, v1 := c15GenID(r)
		to, v2 := c15GenID(r)
		proto := []string{"cmp/keygen", "cmp/sign", "frost/keygen-taproot", "doerner/keygen", "π"}[r.Intn(5)]
		empties := r.Intn(12) == 0
		if empties {
			// not a message any session produces: no sender or no protocol; UnmarshalBinary refuses these
			if r.Intn(2) == 0 {
				from = ""
			} else {
				proto = ""
			}
		}
		rn := rounds[r.Intn(len(rounds))]
		if r.Intn(3) == 0 {
			rn = uint16(r.Intn(65536))
		}
		big := i%40 == 0
		m := &protocol.Message{SSID: c15GenSlice(r, false), From: party.ID(from), To: party.ID(to), Protocol: proto,
			RoundNumber: verifhook.RoundNumber(rn), Data: c15GenSlice(r, big), Broadcast: r.Intn(2) == 0, BroadcastVerification: c15GenSlice(r, false)}
		class := "message/valid-utf8"
		if !(v1 && v2) {
			class = "message/invalid-utf8-id"
		} else if empties {
			class = "message/no-sender-or-protocol"
		}
		if big {
			class += "/long"
		}
		c.c15OneMessage(m, class, v1 && v2 && !empties, r.Intn(2) == 0)
	}
	// every round number once (thorough) / a lattice (quick)
	step := 257
	if c.thorough() {
		step = 1
	}
	for rn := 0; rn < 65536; rn += step {
		m := &protocol.Message{From: "a", Protocol: "p", RoundNumber: verifhook.RoundNumber(rn)}
		gb, _ := m.MarshalBinary()
		var exp []byte
		t := &c15Node{K: c15Map}
		for _, kv := range []struct {
			k string
			v *c15Node
		}{{"SSID", c15NullNode()}, {"From", c15T("a")}, {"To", c15T("")}, {"Protocol", c15T("p")}, {"RoundNumber", c15U(uint64(rn))},
			{"Data", c15NullNode()}, {"Broadcast", &c15Node{K: c15Bool}}, {"BroadcastVerification", c15NullNode()}} {
			t.MK, t.MV = append(t.MK, c15T(kv.k)), append(t.MV, kv.v)
		}
		exp = t.bytes()
		ok := bytes.Equal(gb, exp)
		if rn%4099 == 0 || !ok {
			rep, err := c.m.Call("cbor.message_encode", c15MsgSx(m))
			ok = ok && err == nil && bytes.Equal(rep.L[0].B, gb)
		}
		c.res.Corr(ok)
		c.res.Case("message/round-number", fmt.Sprint(rn), true)
		if !ok {
			c.res.Violate("correspondence", "C15/message-encode-mismatch/round-number", fmt.Sprintf("round number %d", rn),
				c15Replay{Type: "protocol.Message", What: "encode", Go: hex.EncodeToString(gb), Model: hex.EncodeToString(exp)})
			break
		}
	}
	// adversarial / malformed inputs to UnmarshalBinary: the model predicts the receiver; the property wants an error
	garb := [][]byte{{}, {1, 2, 3}, {0xf6}, {0xa0}, {0x80}, {0xff}, {0xa1, 0x64, 0x46, 0x72, 0x6f, 0x6d, 0x01}, bytes.Repeat([]byte{0x81}, 40)}
	names := []string{"empty-input", "garbage", "null", "empty-map", "empty-array", "break-byte", "wrong-type-From", "deep-nesting"}
	for i, g := range garb {
		m0 := &protocol.Message{}
		var uerr error
		pan := ""
		func() {
			defer func() {
				if p := recover(); p != nil {
					pan = fmt.Sprint(p)
				}
			}()
			uerr = m0.UnmarshalBinary(g)
		}()
		c.res.Case("message/malformed", hex.EncodeToString(g), true)
		urep, err := c.m.Call("cbor.message_unmarshal", sx.List(c15MsgSx(&protocol.Message{}), sx.Bytes(g)))
		if err == nil {
			ok := pan == "" && urep.L[0].Equal(c15MsgSx(m0)) && urep.L[1].AsBool() == (uerr != nil)
			c.res.Corr(ok)
			if !ok {
				c.res.Violate("correspondence", "C15/message-unmarshal-mismatch/"+names[i], "Message.UnmarshalBinary differs from the model on malformed input",
					c15Replay{Type: "protocol.Message", What: "unmarshal", Bytes: hex.EncodeToString(g), Go: fmt.Sprintf("%s err=%v panic=%s", c15MsgSx(m0), uerr, pan), Model: urep.String()})
			}
		}
		if pan != "" || (uerr == nil && c15MsgEq(m0, &protocol.Message{})) {
			c.res.Violate("property", "C15/protocol.Message/(whole)/"+c15Class(names[i]),
				"Message.UnmarshalBinary returns nil and leaves an empty message for input that is not a message"+map[bool]string{true: " (panic: " + pan + ")", false: ""}[pan != ""],
				c15Replay{Type: "protocol.Message", Field: "(whole)", Corruption: names[i], Bytes: hex.EncodeToString(g), What: "malformed input"})
		}
	}
}

// ---------------------------------------------------------------------------------------------
// (a) scalars, points

func (c *ctx) c15ScalarsPoints() {
	r := c.res.Rng
	g := c15Group
	q := secpQ
	var ins [][]byte
	fill := func(z *big.Int, n int) []byte {
		b := make([]byte, n)
		new(big.Int).Mod(z, new(big.Int).Lsh(big.NewInt(1), uint(8*n))).FillBytes(b)
		return b
	}
	for _, d := range []int64{-2, -1, 0, 1, 2} {
		ins = append(ins, fill(new(big.Int).Add(q, big.NewInt(d)), 32))
	}
	ins = append(ins, make([]byte, 32), fill(big.NewInt(1), 32), bytes.Repeat([]byte{0xff}, 32), make([]byte, 31), make([]byte, 33), []byte{}, fill(big.NewInt(5), 1))
	n := 20
	if c.thorough() {
		n = 400
	}
	for i := 0; i < n; i++ {
		ins = append(ins, randBytes(r, 32))
	}
	for _, b := range ins {
		s := g.NewScalar()
		gerr := s.UnmarshalBinary(b)
		rep, err := c.m.Call("cbor.scalar_decode", sx.Bytes(b))
		if err != nil {
			c.res.Violate("correspondence", "C15/model-error/cbor.scalar_decode", err.Error(), c15Replay{Type: "scalar", What: "model error"})
			return
		}
		ok := (gerr == nil) == (len(rep.L) == 1)
		if ok && gerr == nil {
			ok = rep.L[0].Z.Cmp(scalarZ(s)) == 0
			back, _ := s.MarshalBinary()
			enc, e2 := c.m.Call("cbor.scalar_encode", rep.L[0])
			ok = ok && e2 == nil && bytes.Equal(back, enc.B) && bytes.Equal(back, b)
		}
		c.res.Corr(ok)
		c.res.Case("scalar-decode", hex.EncodeToString(b), len(b) > 0)
		if !ok {
			c.res.Violate("correspondence", "C15/scalar-decode-mismatch", "Secp256k1Scalar.UnmarshalBinary differs from the model",
				c15Replay{Type: "scalar", What: "decode", Bytes: hex.EncodeToString(b), Go: fmt.Sprint(gerr), Model: rep.String()})
		}
	}
	// points: valid encodings with every prefix, x >= p, x off the curve, wrong lengths
	var pins [][]byte
	np := 6
	if c.thorough() {
		np = 80
	}
	for i := 0; i < np; i++ {
		pt := sample.Scalar(crand.Reader, g).ActOnBase()
		b, _ := pt.MarshalBinary()
		for _, pre := range []byte{0, 1, 2, 3, 4, 5, 6, 7, 0xff} {
			x := append([]byte{}, b...)
			x[0] = pre
			pins = append(pins, x)
		}
		y := append([]byte{}, b...)
		y[32] ^= byte(1 + r.Intn(255))
		pins = append(pins, y, b[:32], append(append([]byte{}, b...), 0))
	}
	for _, d := range []int64{-1, 0, 1} {
		pins = append(pins, append([]byte{2}, fill(new(big.Int).Add(secpP, big.NewInt(d)), 32)...))
	}
	idb, _ := g.NewPoint().MarshalBinary()
	pins = append(pins, idb, []byte{}, []byte{2}, bytes.Repeat([]byte{0xff}, 33))
	for _, b := range pins {
		p := g.NewPoint()
		gerr := p.UnmarshalBinary(b)
		rep, err := c.m.Call("cbor.point_decode", sx.Bytes(b))
		if err != nil {
			c.res.Violate("correspondence", "C15/model-error/cbor.point_decode", err.Error(), c15Replay{Type: "point", What: "model error"})
			return
		}
		asWritten, strict := rep.L[0], rep.L[1]
		ok := (gerr == nil) == (len(asWritten.L) == 1)
		canonical := false
		if ok && gerr == nil {
			back, _ := p.MarshalBinary()
			enc, e2 := c.m.Call("cbor.point_encode", asWritten.L[0])
			ok = e2 == nil && bytes.Equal(enc.B, back)
			canonical = bytes.Equal(back, b)
			ok = ok && canonical == (len(strict.L) == 1) // the strict reference decoder accepts exactly the canonical ones
		}
		c.res.Corr(ok)
		c.res.Case(fmt.Sprintf("point-decode/len=%d", len(b)), hex.EncodeToString(b), len(b) > 0)
		if !ok {
			c.res.Violate("correspondence", "C15/point-decode-mismatch", "Secp256k1Point.UnmarshalBinary differs from the model",
				c15Replay{Type: "point", What: "decode", Bytes: hex.EncodeToString(b), Go: fmt.Sprint(gerr), Model: rep.String()})
		}
	}
	// the identity: MarshalBinary succeeds, the bytes are not restorable (stated in Coq: C15_point_identity_not_restorable)
	enc, err := c.m.Call("cbor.point_encode", sx.List())
	if err == nil {
		c.res.Corr(bytes.Equal(enc.B, idb))
		c.res.Case("point-identity", hex.EncodeToString(idb), true)
	}
}

// ---------------------------------------------------------------------------------------------
// (a) polynomial.Exponent

func (c *ctx) c15Exponents() {
	r := c.res.Rng
	g := c15Group
	n := 12
	if c.thorough() {
		n = 150
	}
	for i := 0; i < n; i++ {
		deg := []int{0, 1, 2, 3, 5, 22, 23, 24, 30}[r.Intn(9)]
		var constant curve.Scalar
		if r.Intn(3) != 0 {
			constant = sample.Scalar(crand.Reader, g)
		}
		e := polynomial.NewPolynomialExponent(polynomial.NewPolynomial(g, deg, constant))
		gb, gerr := e.MarshalBinary()
		// the coefficient points, read off the library's own encoding of each and decoded by the reference
		tree, _, perr := c15Parse(gb[4:], 0)
		if gerr != nil || perr != nil {
			continue
		}
		var pts []sx.V
		bad := false
		for _, x := range tree.get("Coefficients").A {
			d, err := c.m.Call("ref.decompress", sx.Bytes(x.B))
			if err != nil || len(d.L) != 1 {
				bad = true
				break
			}
			pts = append(pts, d.L[0])
		}
		if bad {
			continue
		}
		isConst := constant == nil
		rep, err := c.m.Call("cbor.exponent_encode", sx.List(sx.Bool(isConst), sx.List(sx.List(pts...))))
		if err != nil {
			c.res.Violate("correspondence", "C15/model-error/cbor.exponent_encode", err.Error(), c15Replay{Type: "polynomial.Exponent", What: "model error"})
			return
		}
		ok := bytes.Equal(rep.B, gb) && e.IsConstant == isConst
		c.res.Corr(ok)
		c.res.Case(fmt.Sprintf("exponent/deg=%d/const=%v", deg, isConst), hex.EncodeToString(gb), true)
		c.res.Sample(8, map[string]string{"what": "exponent", "bytes": c15Short(hex.EncodeToString(gb), 100)})
		if !ok {
			c.res.Violate("correspondence", "C15/exponent-encode-mismatch", "Exponent.MarshalBinary differs from the model",
				c15Replay{Type: "polynomial.Exponent", What: "encode", Go: hex.EncodeToString(gb), Model: hex.EncodeToString(rep.B)})
			continue
		}
		// decoding: honest bytes, altered count prefix, truncation, identity coefficient
		vars := map[string][]byte{"honest": gb}
		for name, d := range map[string]int{"count-minus-1": -1, "count-plus-1": 1, "count-plus-1000": 1000} {
			x := append([]byte{}, gb...)
			cnt := int(x[3]) + d
			if cnt < 0 || cnt > 65000 {
				continue
			}
			x[2], x[3] = byte(cnt>>8), byte(cnt)
			vars[name] = x
		}
		vars["short-3"] = gb[:3]
		vars["short-0"] = []byte{}
		vars["truncated"] = gb[:len(gb)-1]
		if len(tree.get("Coefficients").A) > 0 {
			t2 := tree.clone()
			id := make([]byte, 33)
			id[0] = 2
			t2.get("Coefficients").A[0].B = id
			vars["identity-coefficient"] = append(append([]byte{}, gb[:4]...), t2.bytes()...)
		}
		names := make([]string, 0, len(vars))
		for k := range vars {
			names = append(names, k)
		}
		sort.Strings(names)
		for _, name := range names {
			b := vars[name]
			e2 := polynomial.EmptyExponent(g)
			var uerr error
			pan := ""
			func() {
				defer func() {
					if p := recover(); p != nil {
						pan = fmt.Sprint(p)
					}
				}()
				uerr = e2.UnmarshalBinary(b)
			}()
			drep, err := c.m.Call("cbor.exponent_decode", sx.Bytes(b))
			if err != nil {
				continue
			}
			cls := 0
			if pan != "" {
				cls = 2
			} else if uerr != nil {
				cls = 1
			}
			dok := drep.L[0].AsInt() == cls
			if dok && cls == 0 {
				back, _ := e2.MarshalBinary()
				dok = len(drep.L[1].L[1].L) == e2.Degree()+map[bool]int{true: 0, false: 1}[e2.IsConstant] && drep.L[1].L[0].AsBool() == e2.IsConstant
				if name == "honest" {
					dok = dok && bytes.Equal(back, gb) && e2.Equal(*e)
				}
			}
			c.res.Corr(dok)
			c.res.Case("exponent-decode/"+name, hex.EncodeToString(b), len(b) > 0)
			if !dok {
				c.res.Violate("correspondence", "C15/exponent-decode-mismatch/"+name, "Exponent.UnmarshalBinary differs from the model",
					c15Replay{Type: "polynomial.Exponent", What: "decode", Bytes: hex.EncodeToString(b), Go: fmt.Sprintf("err=%v panic=%s", uerr, pan), Model: drep.String()})
			}
			if pan != "" {
				c.res.Violate("property", "C15/polynomial.Exponent/(whole)/"+c15Class(name), "Exponent.UnmarshalBinary panics on "+name+": "+pan,
					c15Replay{Type: "polynomial.Exponent", Field: "(whole)", Corruption: name, Bytes: hex.EncodeToString(b), What: "panic"})
			}
			if name == "honest" && (uerr != nil || pan != "") {
				c.res.Violate("property", "C15/polynomial.Exponent/roundtrip", "an Exponent does not survive MarshalBinary -> UnmarshalBinary",
					c15Replay{Type: "polynomial.Exponent", Bytes: hex.EncodeToString(b), What: "roundtrip"})
			}
		}
	}
}

// ---------------------------------------------------------------------------------------------
// the integers of the Coq refutations (Proofs/CborProofs.v: P0, Q0, PC, PS): the premise "the primality test says
// prime on (x-1)/2" is checked on Go's ProbablyPrime and on the model's Miller-Rabin

var c15P0, _ = new(big.Int).SetString("c719fca520bf470442b817cd81dab2addeeb861e9ea1c28fed3f699ff5c8aed687dc98c21bdb37564ec3339f28484a88757ef10c1bf3ce7269555b6b921c12a7e001ccb481b450028cee868d8df51fd73ad73d5c82e47db8722976fd5526b90ce773f396d702714f302153d83a1e60df04d39ed108f255467f34c5faffcf04c7", 16)
var c15Q0, _ = new(big.Int).SetString("cfcf26601f520a6b849d889b0d7292251b072cf807770461e4ebd1519538e4001879bac47ea7da917344d9dd603994b722f02a5bbdfae947216ff0dba4addb79d83e9b4e6380d674ecccea95bae5ad1fd21d0fcdd627a7e616acf2efa5da7b1a43f74eedde8645f401dd96eb833c9148d047a70669ba26a9ed1fac743633b25b", 16)
var c15PC, _ = new(big.Int).SetString("e10c83b59fe446bfc3bf8a9e388c2389144c12f3af221589c0c84b33cf8b8702778728c93b5cdac8939b5573b9a5bfef1a718fb4979678684e8b68cf145a1ea8459d2294e85b342727112eeb444a17badd42ab69f0883b814de68553c53dc4b0110a50e89a54d86dad291c7a152ec4ba2afe6c49ccc9e7aa306f26f7c5f30e7f", 16)
var c15PS, _ = new(big.Int).SetString("9079f0daff9edfa72f2f6aa497b20148128454f246a08e60abd172e228b24c58e43f4824e2bc664d52a1d17cac5aac1760825d089c945bab733e6649f88115a92c3dddc9ccc4f9b9aa809a0d880a5f2db65d45cf08febad6a790123b1c8e90ef3747b67f5ce2641194adbc3f9944e10ea9c4fc8e372ce568a3016c8672c12553", 16)

func (c *ctx) c15PrimeOracle() {
	names := []string{"P0", "Q0", "PC", "PS"}
	vals := map[string]*big.Int{"P0": c15P0, "Q0": c15Q0, "PC": c15PC, "PS": c15PS}
	for _, name := range names {
		p := vals[name]
		half := new(big.Int).Rsh(p, 1)
		goHalf := half.ProbablyPrime(20)
		// premise of the *_v0 refutations: the old ValidatePrime (which looked at (p-1)/2 only) accepts
		v0, err := c.m.Call("cbor.validate_prime_v0", sx.Big(p))
		if err != nil {
			c.res.Violate("correspondence", "C15/model-error/cbor.validate_prime_v0", err.Error(), c15Replay{Type: "oracle", What: "model error"})
			return
		}
		// the repaired ValidatePrime: Go (the library function itself) and the model agree; PC (= 3 * ...) is refused
		v1, err := c.m.Call("cbor.validate_prime", sx.Big(p))
		if err != nil {
			return
		}
		goNow := paillier.ValidatePrime(new(saferith.Nat).SetBig(p, 1024)) == nil
		want := name != "PC"
		ok := goHalf && v0.AsBool() && p.BitLen() == 1024 && goNow == want && v1.AsBool() == want && p.ProbablyPrime(20) == want
		c.res.Corr(ok)
		c.res.Case("oracle/"+name, name, true)
		if !ok {
			c.res.Violate("correspondence", "C15/oracle-premise/"+name, "the primality facts behind the Coq statements about P0, Q0, PC, PS do not hold on Go / the model",
				c15Replay{Type: "oracle", What: name, Go: fmt.Sprint(goHalf, goNow), Model: v0.String() + v1.String()})
		}
		if goNow && !p.ProbablyPrime(20) {
			c.res.Violate("property", "C15/paillier.ValidatePrime/"+name, "ValidatePrime accepts a composite number", c15Replay{Type: "oracle", What: name})
		}
	}
}

// ---------------------------------------------------------------------------------------------
// (b) real results from real sessions

type c15Material struct {
	Type     string
	Obj      interface{}
	Bytes    []byte
	Scenario string
}

type c15Run struct {
	c    *ctx
	ts   map[string]*c15Type
	mats []c15Material
	seen map[string]int
}

// roundtrip: serialize, restore, compare; returns the restored object (nil if that failed)
func (rn *c15Run) roundtrip(obj interface{}, scenario string) interface{} {
	c := rn.c
	tn := c15TypeOf(obj)
	t := rn.ts[tn]
	if t == nil {
		c.res.Note("no codec registered for %s", tn)
		return nil
	}
	var b []byte
	var merr error
	pan := ""
	func() {
		defer func() {
			if p := recover(); p != nil {
				pan = fmt.Sprint(p)
			}
		}()
		b, merr = t.Marshal(obj)
	}()
	c.res.Case("roundtrip/"+tn, tn+"/"+scenario+"/"+hex.EncodeToString(b), true)
	if pan != "" || merr != nil {
		c.res.Violate("property", "C15/"+tn+"/roundtrip/marshal-fails", fmt.Sprintf("serializing a protocol result fails: %v %s", merr, pan),
			c15Replay{Type: tn, What: "marshal", Scenario: scenario})
		return nil
	}
	if rn.seen[tn] < 3 {
		rn.mats = append(rn.mats, c15Material{Type: tn, Obj: obj, Bytes: b, Scenario: scenario})
	}
	rn.seen[tn]++
	c.res.Sample(8, map[string]string{"what": "result " + tn, "scenario": scenario, "bytes": fmt.Sprintf("%d bytes %s…", len(b), c15Short(hex.EncodeToString(b), 60))})
	back, errText, pan := c15Restore(t, b)
	if pan != "" || errText != "" {
		c.res.Violate("property", "C15/"+tn+"/roundtrip/restore-fails", fmt.Sprintf("restoring a freshly serialized protocol result fails: %s %s", errText, pan),
			c15Replay{Type: tn, What: "restore", Scenario: scenario, Bytes: hex.EncodeToString(b)})
		return nil
	}
	ca, cb := canon(obj), canon(back)
	if cf, ok := obj.(*cmp.Config); ok {
		// saferith values carry representation details (announced length, cached modulus): compare the numbers
		ca, cb = c15CmpProj(cf), c15CmpProj(back.(*cmp.Config))
	}
	if ca != cb {
		diff := c15FirstDiff(ca, cb)
		c.res.Violate("property", "C15/"+tn+"/roundtrip/not-equal", "the restored object differs from the original in observable fields: "+diff,
			c15Replay{Type: tn, What: "restore-not-equal", Scenario: scenario, Bytes: hex.EncodeToString(b), Problems: []string{diff}})
	}
	return back
}

func c15FirstDiff(a, b string) string {
	i := 0
	for i < len(a) && i < len(b) && a[i] == b[i] {
		i++
	}
	st := i - 60
	if st < 0 {
		st = 0
	}
	return fmt.Sprintf("original …%s… restored …%s…", c15Short(a[st:], 140), c15Short(b[st:], 140))
}

func (rn *c15Run) finish(name string, s *Sim) (map[party.ID]interface{}, []string) {
	s.RunFIFO(200000)
	out := map[party.ID]interface{}{}
	var probs []string
	ids := make([]string, 0, len(s.Nodes))
	for id := range s.Nodes {
		ids = append(ids, string(id))
	}
	sort.Strings(ids)
	for _, id := range ids {
		n := s.Nodes[party.ID(id)]
		if n.H == nil {
			probs = append(probs, fmt.Sprintf("%s: party %s could not start: %v", name, id, n.StartErr))
			continue
		}
		for _, o := range n.Obs {
			if o.Panic != "" {
				probs = append(probs, fmt.Sprintf("%s: party %s panicked: %s", name, id, c15Short(o.Panic, 80)))
			}
		}
		r, e := resultOf(n)
		if r == nil {
			probs = append(probs, fmt.Sprintf("%s: party %s did not complete: %s", name, id, c15Short(e, 120)))
			continue
		}
		out[party.ID(id)] = r
	}
	return out, probs
}

// messagesOf: every wire message of a finished session, round-tripped
func (rn *c15Run) messagesOf(s *Sim, scenario string, max int) {
	c := rn.c
	k := 0
	labels := make([]string, 0, len(s.Nodes))
	for l := range s.Nodes {
		labels = append(labels, string(l))
	}
	sort.Strings(labels)
	for _, l := range labels {
		for _, m := range s.Nodes[party.ID(l)].Out {
			if k >= max {
				return
			}
			k++
			b, err := m.MarshalBinary()
			back := &protocol.Message{}
			var uerr error
			if err == nil {
				uerr = back.UnmarshalBinary(b)
			}
			ok := err == nil && uerr == nil && c15MsgEq(back, m) && bytes.Equal(back.Hash(), m.Hash())
			c.res.Case("roundtrip/protocol.Message/"+scenario, hex.EncodeToString(m.Hash()), true)
			if len(b) < 600 {
				rep, e := c.m.Call("cbor.message_encode", c15MsgSx(m))
				if e == nil {
					c.res.Corr(bytes.Equal(rep.L[0].B, b))
					if !bytes.Equal(rep.L[0].B, b) {
						c.res.Violate("correspondence", "C15/message-encode-mismatch/session", "a real session message is encoded differently by the model",
							c15Replay{Type: "protocol.Message", What: "encode", Go: hex.EncodeToString(b), Model: hex.EncodeToString(rep.L[0].B)})
					}
				}
			}
			if !ok {
				c.res.Violate("property", "C15/protocol.Message/roundtrip/"+scenario, "a wire message of a real session does not survive MarshalBinary -> UnmarshalBinary",
					c15Replay{Type: "protocol.Message", What: "roundtrip", Scenario: scenario, Bytes: hex.EncodeToString(b)})
			}
			if k == 1 {
				rn.mats = append(rn.mats, c15Material{Type: "protocol.Message", Obj: m, Bytes: b, Scenario: scenario})
			}
		}
	}
}

// useLater: a later session in which `who` uses restored material and everybody else the original; sig judged by the reference
func (rn *c15Run) judge(tn, scenario string, s *Sim, pub interface{}, msg []byte, who party.ID) {
	c := rn.c
	res, probs := rn.finish(scenario, s)
	for id, r := range res {
		ok, why := c.verifyAnySignature(pub, r, msg)
		c.res.Corr(ok)
		if !ok {
			probs = append(probs, fmt.Sprintf("%s: signature returned to %s is invalid under the reference verifier %s", scenario, id, why))
		}
	}
	sort.Strings(probs)
	c.res.Case("later-session/"+tn+"/"+scenario, tn+scenario+string(who), true)
	if len(probs) > 0 {
		c.res.Violate("property", "C15/"+tn+"/later-session/"+scenario,
			fmt.Sprintf("a later session in which %s uses RESTORED material and the others their original material fails: %s", who, strings.Join(probs, "; ")),
			c15Replay{Type: tn, What: "later-session", Scenario: scenario, Problems: probs})
	}
}

func (c *ctx) c15Sessions() []c15Material {
	rn := &c15Run{c: c, ts: c15Types(), seen: map[string]int{}}
	g := c15Group
	rng := func() *rand.Rand { return rand.New(rand.NewSource(c.res.Seed)) }
	msg := bytes.Repeat([]byte{0x42}, 32)

	// ---- FROST ----
	for _, tap := range []bool{false, true} {
		ids := idsOf("alice", "bob", "carl")
		t := 1
		kg := specFrostKeygen(ids, t, tap, []byte("c15-kg")).build(rng(), nil)
		res, probs := rn.finish("frost-keygen", kg)
		if len(probs) > 0 || len(res) != len(ids) {
			c.res.Note("frost keygen (taproot=%v) did not complete: %v", tap, probs)
			continue
		}
		rn.messagesOf(kg, "frost-keygen", 12)
		who := ids[0]
		back := rn.roundtrip(res[who], "frost-keygen")
		for _, id := range ids[1:] {
			rn.roundtrip(res[id], "frost-keygen")
		}
		if back == nil {
			continue
		}
		signers := idsOf("alice", "carl")
		if !tap {
			cfgs := map[party.ID]*frost.Config{}
			for id, r := range res {
				cfgs[id] = r.(*frost.Config)
			}
			pub := cfgs[who].PublicKey
			cfgs[who] = back.(*frost.Config)
			sg := specFrostSign(cfgs, signers, msg, []byte("c15-sg")).build(rng(), nil)
			rn.judge("frost.Config", "sign", sg, pub, msg, who)
			rn.messagesOf(sg, "frost-sign", 8)
			// refresh with restored material for alice
			rf := SessionSpec{Name: "frost-refresh", IDs: ids, SessionID: []byte("c15-rf"), Start: func(id party.ID) protocol.StartFunc { return frost.Refresh(cfgs[id], ids) }}.build(rng(), nil)
			rres, rprobs := rn.finish("frost-refresh", rf)
			c.res.Case("later-session/frost.Config/refresh", "frost-refresh", true)
			for _, r := range rres {
				if nc, ok := r.(*frost.Config); ok && !nc.PublicKey.Equal(pub) {
					rprobs = append(rprobs, "refresh changed the public key")
				}
			}
			if len(rprobs) > 0 || len(rres) != len(ids) {
				c.res.Violate("property", "C15/frost.Config/later-session/refresh", "refresh with one restored config fails: "+strings.Join(rprobs, "; "),
					c15Replay{Type: "frost.Config", What: "later-session", Scenario: "refresh", Problems: rprobs})
			}
		} else {
			cfgs := map[party.ID]*frost.TaprootConfig{}
			for id, r := range res {
				cfgs[id] = r.(*frost.TaprootConfig)
			}
			pub := taproot.PublicKey(cfgs[who].PublicKey)
			cfgs[who] = back.(*frost.TaprootConfig)
			sg := specFrostSignTaproot(cfgs, signers, msg, []byte("c15-sgt")).build(rng(), nil)
			rn.judge("frost.TaprootConfig", "sign", sg, pub, msg, who)
		}
	}

	// ---- Doerner ----
	func() {
		ids := idsOf("recv", "send")
		kg := twoPartySim(ids, nil, doerner.Keygen(g, true, ids[0], ids[1], nil), doerner.Keygen(g, false, ids[1], ids[0], nil), []byte("c15-dkg"), true, false)
		res, probs := rn.finish("doerner-keygen", kg)
		cr, ok1 := res[ids[0]].(*doerner.ConfigReceiver)
		cs, ok2 := res[ids[1]].(*doerner.ConfigSender)
		if !ok1 || !ok2 {
			c.res.Note("doerner keygen did not complete: %v", probs)
			return
		}
		rn.messagesOf(kg, "doerner-keygen", 6)
		br := rn.roundtrip(cr, "doerner-keygen")
		bs := rn.roundtrip(cs, "doerner-keygen")
		pub := cr.Public
		if br != nil {
			sg := twoPartySim(ids, nil, doerner.SignReceiver(br.(*doerner.ConfigReceiver), ids[0], ids[1], msg, nil), doerner.SignSender(cs, ids[1], ids[0], msg, nil), []byte("c15-dsg1"), true, true)
			rn.judgeDoerner("doerner.ConfigReceiver", sg, pub, msg, ids[0])
		}
		if bs != nil {
			sg := twoPartySim(ids, nil, doerner.SignReceiver(cr, ids[0], ids[1], msg, nil), doerner.SignSender(bs.(*doerner.ConfigSender), ids[1], ids[0], msg, nil), []byte("c15-dsg2"), true, true)
			rn.judgeDoerner("doerner.ConfigSender", sg, pub, msg, ids[1])
		}
		// control: the same signing session with the original material on both sides
		sg := twoPartySim(ids, nil, doerner.SignReceiver(cr, ids[0], ids[1], msg, nil), doerner.SignSender(cs, ids[1], ids[0], msg, nil), []byte("c15-dsg0"), true, true)
		res0, p0 := rn.finish("doerner-sign-control", sg)
		good := false
		for _, r := range res0 {
			if sig, ok := r.(*ecdsa.Signature); ok {
				v, _ := c.verifyAnySignature(pub, sig, msg)
				good = good || v
			}
		}
		c.res.Case("later-session/doerner/control", "doerner-control", true)
		if !good {
			c.res.Note("doerner control signing (original material) produced no valid signature: %v", p0)
		}
	}()

	// ---- CMP ----
	func() {
		usePrimeCache()
		ids := idsOf("alice", "bob")
		t := 1
		if c.thorough() {
			ids = idsOf("alice", "bob", "carl")
		}
		kg := specCMPKeygen(ids, t, []byte("c15-ckg")).build(rng(), nil)
		res, probs := rn.finish("cmp-keygen", kg)
		cfgs := map[party.ID]*cmp.Config{}
		for id, r := range res {
			if cf, ok := r.(*cmp.Config); ok {
				cfgs[id] = cf
			}
		}
		if len(cfgs) != len(ids) {
			c.res.Note("cmp keygen did not complete: %v", probs)
			return
		}
		rn.messagesOf(kg, "cmp-keygen", 10)
		who := ids[0]
		back := rn.roundtrip(cfgs[who], "cmp-keygen")
		for _, id := range ids[1:] {
			rn.roundtrip(cfgs[id], "cmp-keygen")
		}
		if back == nil {
			return
		}
		pub := cfgs[who].PublicPoint()
		mixed := map[party.ID]*cmp.Config{}
		for id, cf := range cfgs {
			mixed[id] = cf
		}
		mixed[who] = back.(*cmp.Config)
		signers := ids[:2]
		sg := specCMPSign(mixed, signers, msg, []byte("c15-csg")).build(rng(), nil)
		rn.judge("cmp.Config", "sign", sg, pub, msg, who)
		for _, r := range func() map[party.ID]interface{} { m, _ := rn.finish("x", sg); return m }() {
			if sig, ok := r.(*ecdsa.Signature); ok {
				if b2 := rn.roundtrip(sig, "cmp-sign"); b2 != nil {
					v, _ := c.verifyAnySignature(pub, b2, msg)
					c.res.Case("later-use/ecdsa.Signature/verify", "sig", true)
					if !v {
						c.res.Violate("property", "C15/ecdsa.Signature/later-session/verify", "a restored signature no longer verifies", c15Replay{Type: "ecdsa.Signature", What: "later-session", Scenario: "verify"})
					}
				}
				break
			}
		}
		// presign with original material, then restore alice's presignature and finish online
		ps := specCMPPresign(cfgs, signers, []byte("c15-cps")).build(rng(), nil)
		pres, pprobs := rn.finish("cmp-presign", ps)
		pre := map[party.ID]*ecdsa.PreSignature{}
		for id, r := range pres {
			if p, ok := r.(*ecdsa.PreSignature); ok {
				pre[id] = p
			}
		}
		if len(pre) == len(signers) {
			if bp := rn.roundtrip(pre[who], "cmp-presign"); bp != nil {
				mp := map[party.ID]*ecdsa.PreSignature{}
				for id, p := range pre {
					mp[id] = p
				}
				mp[who] = bp.(*ecdsa.PreSignature)
				on := specCMPPresignOnline(cfgs, mp, signers, msg, []byte("c15-con")).build(rng(), nil)
				rn.judge("ecdsa.PreSignature", "presign-online", on, pub, msg, who)
			}
		} else {
			c.res.Note("cmp presign did not complete: %v", pprobs)
		}
		// refresh with restored config for alice
		rf := specCMPRefresh(mixed, ids, []byte("c15-crf")).build(rng(), nil)
		rres, rprobs := rn.finish("cmp-refresh", rf)
		c.res.Case("later-session/cmp.Config/refresh", "cmp-refresh", true)
		for _, r := range rres {
			if nc, ok := r.(*cmp.Config); ok && !nc.PublicPoint().Equal(pub) {
				rprobs = append(rprobs, "refresh changed the public key")
			}
		}
		if len(rprobs) > 0 || len(rres) != len(ids) {
			c.res.Violate("property", "C15/cmp.Config/later-session/refresh", "refresh with one restored config fails: "+strings.Join(rprobs, "; "),
				c15Replay{Type: "cmp.Config", What: "later-session", Scenario: "refresh", Problems: rprobs})
		} else if r0, ok := rres[who].(*cmp.Config); ok {
			rn.roundtrip(r0, "cmp-refresh")
		}
	}()
	return rn.mats
}

func (rn *c15Run) judgeDoerner(tn string, s *Sim, pub curve.Point, msg []byte, who party.ID) {
	c := rn.c
	res, probs := rn.finish("sign", s)
	got := 0
	for id, r := range res {
		if sig, ok := r.(*ecdsa.Signature); ok {
			got++
			v, why := c.verifyAnySignature(pub, sig, msg)
			c.res.Corr(v)
			if !v {
				probs = append(probs, fmt.Sprintf("signature returned to %s is invalid under the reference verifier %s", id, why))
			}
		}
	}
	if got == 0 {
		probs = append(probs, "no party returned a signature")
	}
	sort.Strings(probs)
	c.res.Case("later-session/"+tn+"/sign", tn+string(who), true)
	if len(probs) > 0 {
		c.res.Violate("property", "C15/"+tn+"/later-session/sign",
			fmt.Sprintf("signing with a RESTORED %s for %s and the other party's original config fails: %s", tn, who, strings.Join(probs, "; ")),
			c15Replay{Type: tn, What: "later-session", Scenario: "sign", Problems: probs})
	}
}

func polynomialEmpty() *polynomial.Exponent { return polynomial.EmptyExponent(c15Group) }

// c15CmpProj: the observable content of a CMP config as numbers and encodings
func c15CmpProj(cf *cmp.Config) (out string) {
	defer func() {
		if r := recover(); r != nil {
			out = fmt.Sprintf("unreadable: %v", r)
		}
	}()
	enc := func(m interface{ MarshalBinary() ([]byte, error) }) string {
		b, err := m.MarshalBinary()
		if err != nil {
			return "err:" + err.Error()
		}
		return hex.EncodeToString(b)
	}
	var sb strings.Builder
	fmt.Fprintf(&sb, "id=%q t=%d x=%s y=%s p=%x q=%x rid=%x/%v ck=%x/%v phi=%x", cf.ID, cf.Threshold, enc(cf.ECDSA), enc(cf.ElGamal),
		cf.Paillier.P().Big(), cf.Paillier.Q().Big(), cf.RID, cf.RID == nil, cf.ChainKey, cf.ChainKey == nil, cf.Paillier.Phi().Big())
	ids := make([]string, 0, len(cf.Public))
	for id := range cf.Public {
		ids = append(ids, string(id))
	}
	sort.Strings(ids)
	for _, id := range ids {
		p := cf.Public[party.ID(id)]
		fmt.Fprintf(&sb, " [%q X=%s Y=%s N=%x pedN=%x s=%x t=%x]", id, enc(p.ECDSA), enc(p.ElGamal), p.Paillier.N().Big(),
			p.Pedersen.N().Big(), p.Pedersen.S().Big(), p.Pedersen.T().Big())
	}
	return sb.String()
}

// c15SessionIDs: party ids that protocol.Message cannot carry (not valid UTF-8) must be refused when a session starts;
// otherwise the library writes messages that it cannot restore
func (c *ctx) c15SessionIDs() {
	for _, bad := range []string{"a\xff", "\xc0\x80", "\xed\xa0\x80", "ok\x80"} {
		ids := []party.ID{party.ID(bad), "bob"}
		var err error
		pan := ""
		func() {
			defer func() {
				if p := recover(); p != nil {
					pan = fmt.Sprint(p)
				}
			}()
			_, err = verifhook.NewSession(verifhook.RoundInfo{ProtocolID: "c15/ids", FinalRoundNumber: 1, SelfID: "bob", PartyIDs: ids, Threshold: 1, Group: c15Group}, []byte("sid"), nil)
		}()
		c.res.Case("session-ids/invalid-utf8", bad, true)
		if err == nil || pan != "" {
			m := &protocol.Message{From: party.ID(bad), Protocol: "c15/ids", RoundNumber: 1}
			gb, _ := m.MarshalBinary()
			c.res.Violate("property", "C15/protocol.Message/From/bad-value",
				"a session accepts a party id that is not valid UTF-8; messages from that party are written by MarshalBinary and cannot be restored by UnmarshalBinary "+pan,
				c15Replay{Type: "protocol.Message", Field: "From", Corruption: "invalid-utf8", Bytes: hex.EncodeToString(gb), What: "roundtrip"})
		}
	}
}
