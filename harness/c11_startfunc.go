package main

// C11 -- one protocol.StartFunc VALUE used to start several sessions (a retry: same session id, message, signers).
//
// frost.Sign / frost.SignTaproot return a closure; an application that keeps the closure and calls NewMultiHandler on it
// again (retry after a network failure) starts a second session of the SAME context. The nonces must then come from fresh
// randomness: with a working random source the published (D_i, E_i) of every reusing signer must be pairwise different
// between the sessions. (If they repeat while the peers' nonces differ, the two responses z_i reveal the share.)
//   all-reuse : every signer keeps its StartFunc;        sessions = 2 or 3
//   one-reuse : one signer keeps it, the peers create fresh ones (their nonces, hence the challenge, differ)
// property   C11/frost/startfunc-reuse/<frost-sign|frost-taproot-sign>/<all-reuse|one-reuse>/<rng>/nonce-repeated
// with the constant reader the contexts AND the random bytes are identical: identical commitments are expected
// (correspondence .../unmodelled-input otherwise), exactly the clause of the "identical" pairs.
// correspondence (when the 32 bytes of round 1 were observed): commitments equal <=> model nonce inputs equal.
// The stand-alone BIP-340 signer (taproot.SecretKey.Sign) has no start function: its retry is the pair "identical" under
// the honest reader in bip340().

import (
	"bytes"
	crand "crypto/rand"
	"fmt"
	"math/rand"
	"strings"

	"github.com/taurusgroup/multi-party-sig/pkg/party"
	"github.com/taurusgroup/multi-party-sig/pkg/protocol"
	"github.com/taurusgroup/multi-party-sig/protocols/frost"
)

func c11ProtoName(taproot bool) string {
	if taproot {
		return "frost-taproot-sign"
	}
	return "frost-sign"
}

func (st *c11State) startFuncSuite(a c11Ctx, r *rand.Rand, pairNo int64) int64 {
	seedOf := func() int64 { pairNo++; return st.c.res.Seed*1000003 + pairNo }
	st.startFuncReuse(a, "all-reuse", a.Signers, 3, 0, seedOf())
	one := a.Signers[r.Intn(len(a.Signers))]
	st.startFuncReuse(a, "one-reuse", []string{one}, 2, 0, seedOf())
	st.startFuncReuse(a, "all-reuse", a.Signers, 2, 1, seedOf())
	if st.c.thorough() {
		for _, name := range a.Signers {
			st.startFuncReuse(a, "one-reuse", []string{name}, 3, 0, seedOf())
		}
		st.startFuncReuse(a, "all-reuse", a.Signers, 2, 2, seedOf())
	}
	return pairNo
}

func (st *c11State) startFuncReuse(a c11Ctx, variant string, reusers []string, sessions, mode int, rngSeed int64) {
	c := st.c
	if sessions < 2 {
		sessions = 2
	}
	rp := c11Replay{Kind: "frost-startfunc", Variant: variant, RNG: c11RngNames[mode], RngSeed: rngSeed, A: &a, Sessions: sessions, Reusers: reusers}
	base := "C11/frost/startfunc-reuse/" + c11ProtoName(a.Taproot) + "/" + variant + "/" + c11RngNames[mode]
	class := fmt.Sprintf("frost/startfunc-reuse/%s/%s/sessions=%d", variant, c11RngNames[mode], sessions)
	var runs []*c11Session
	var err error
	creationReads := map[string]int{}
	func() {
		defer func() {
			if r := recover(); r != nil {
				err = fmt.Errorf("PANIC: %v", r)
			}
		}()
		mat, e := st.material(a.Key)
		if e != nil {
			err = e
			return
		}
		if a.Taproot && !a.Key.Taproot {
			err = fmt.Errorf("taproot signing needs taproot key material")
			return
		}
		det := installDetReader(rngSeed, mode)
		// the start functions: created ONCE, under the same reader (what they read at creation is recorded)
		rec := &c11RecReader{det: det}
		crand.Reader = rec
		over := map[string]protocol.StartFunc{}
		signers := idsOf(a.Signers...)
		for _, name := range reusers {
			det.setParty("startfunc-creation/" + name)
			before := len(rec.log)
			if a.Taproot {
				over[name] = frost.SignTaproot(mat.tap[party.ID(name)], signers, a.msg())
			} else {
				over[name] = frost.Sign(mat.plain[party.ID(name)], signers, a.msg())
			}
			for _, rd := range rec.log[before:] {
				creationReads[name] += len(rd.Data)
			}
		}
		restoreRandReader()
		st.startOverride = over
		defer func() { st.startOverride = nil }()
		for k := 0; k < sessions; k++ {
			if mode != 0 && k > 0 {
				det = installDetReader(rngSeed, mode) // a failing source: the same bytes again
			}
			s, e := st.runFrost(a, det)
			if e != nil {
				err = e
				return
			}
			runs = append(runs, s)
		}
	}()
	restoreRandReader()
	if err != nil {
		c.res.Case(class, a.String(), false)
		c.res.Note("C11 %s: %v", class, err)
		if strings.HasPrefix(err.Error(), "PANIC") {
			c.res.Violate("property", base+"/panic", err.Error(), rp)
		}
		return
	}
	for _, s := range runs {
		if s.Refused != "" {
			c.res.Case("frost/refused-at-start", a.String()+"|startfunc-reuse", false)
			return
		}
	}
	// a retry through a kept start function must still work: every session completes with a valid signature
	for k, s := range runs {
		if !s.Completed || !s.SigOK {
			r := rp
			r.Observed = fmt.Sprintf("session %d of %d: %s", k+1, sessions, s.Note)
			r.Expected = "every session started from the kept start function completes with a signature valid under the group key"
			c.res.Violate("property", base+"/session-fails", "a session started from a reused StartFunc value does not produce a valid signature", r)
		}
	}
	for _, name := range reusers {
		for i := 0; i < sessions; i++ {
			for j := i + 1; j < sessions; j++ {
				oi, oj := runs[i].Obs[name], runs[j].Obs[name]
				have := oi != nil && oj != nil && oi.D != nil && oj.D != nil && oi.E != nil && oj.E != nil
				c.res.Case(class, fmt.Sprintf("%s|%s|%s|%d|%d|%d|%d", a, variant, name, i, j, mode, rngSeed), have)
				r := rp
				r.Signer = name
				if !have {
					r.Observed = fmt.Sprintf("session %d: %s / session %d: %s", i+1, oi.Problem, j+1, oj.Problem)
					c.res.Corr(false)
					c.res.Violate("correspondence", "C11/frost/unobservable", "no round-2 broadcast with (D_i,E_i) observed", r)
					continue
				}
				eqD, eqE := bytes.Equal(oi.D, oj.D), bytes.Equal(oi.E, oj.E)
				r.Observed = fmt.Sprintf("session %d: D=%x E=%x rnd(round 1)=%x; session %d: D=%x E=%x rnd(round 1)=%x; bytes read from the random source while the start function was created: %d",
					i+1, oi.D, oi.E, oi.Rnd, j+1, oj.D, oj.E, oj.Rnd, creationReads[name])
				c.res.Sample(2, map[string]interface{}{"class": class, "context": a.String(), "signer": name, "sessions": []int{i + 1, j + 1}, "same_commitments": eqD && eqE})
				// property oracle, independent of the model and of what was observed of the reader
				if mode == 0 && (eqD || eqE) {
					r.Expected = "different nonce commitments: the random source works (every read returns new bytes) and the second session is a new signing attempt"
					c.res.Violate("property", base+"/nonce-repeated",
						"two sessions started from ONE StartFunc value publish the same nonce commitment although the random source works", r)
				}
				if mode != 0 && !(eqD && eqE) {
					r.Expected = "identical commitments (identical context, identical random bytes)"
					c.res.Violate("correspondence", base+"/unmodelled-input", "identical inputs give different nonce commitments", r)
				}
				// the model's verdict: needs the 32 bytes read in round 1
				if st.hasNonce {
					if oi.Problem != "" || oj.Problem != "" {
						r.Observed += " | " + oi.Problem + " / " + oj.Problem
						c.res.Corr(false)
						c.res.Violate("correspondence", "C11/frost/unobservable", "round-1 randomness or round-2 broadcast not as the model expects", r)
						continue
					}
					eqModel := bytes.Equal(oi.Material, oj.Material) && bytes.Equal(oi.Stream, oj.Stream)
					ok := eqModel == (eqD && eqE) && eqD == eqE
					c.res.Corr(ok)
					if !ok {
						r.Expected = fmt.Sprintf("model inputs equal: %v", eqModel)
						c.res.Violate("correspondence", base+"/pattern", "equality pattern of commitments differs from the model's", r)
					}
				}
			}
		}
	}
}
