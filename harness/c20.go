package main

// C20 -- invalid session parameters are refused at start.
//
// (A) correspondence: round.NewSession accept/reject vs the model op `sess.ok`, and cmp Config.CanSign vs `sess.can_sign`,
//     on a lattice (t in {-1,0,n-1,n,2^32-1,2^32}; duplicated / unsorted / empty / foreign ids; self missing; empty id; n=1),
//     each also judged against the plain statement of the Coq iff-theorems (C20_new_session_ok_iff, C20_can_sign_iff).
// (B) property: for EVERY public start function and every single bad parameter from the lattice (alone and in pairs):
//     protocol.NewMultiHandler / NewTwoPartyHandler must return an error -- never panic, never hand out a handler.
//     Validity of the session part (ids / self / threshold / signer set) is decided by the MODEL ops on the composed
//     parameters, the rest (message, key material, presignature, second party id) by construction of the bad value.
//     If a handler IS returned, the session is run with honest peers through the pump and what happens is recorded.

import (
	"fmt"
	"math/rand"
	"sort"
	"strings"
	"time"

	"github.com/taurusgroup/multi-party-sig/pkg/ecdsa"
	"github.com/taurusgroup/multi-party-sig/pkg/math/curve"
	"github.com/taurusgroup/multi-party-sig/pkg/party"
	"github.com/taurusgroup/multi-party-sig/pkg/protocol"
	"github.com/taurusgroup/multi-party-sig/pkg/taproot"
	"github.com/taurusgroup/multi-party-sig/pkg/verifhook"
	"github.com/taurusgroup/multi-party-sig/protocols/cmp"
	cmpconfig "github.com/taurusgroup/multi-party-sig/protocols/cmp/config"
	"github.com/taurusgroup/multi-party-sig/protocols/doerner"
	"github.com/taurusgroup/multi-party-sig/protocols/example"
	"github.com/taurusgroup/multi-party-sig/protocols/frost"

	"verifharness/sx"
)

func init() { props["C20"] = runC20 }

type c20Replay struct {
	What  string   `json:"what"`
	Fn    string   `json:"start_function,omitempty"`
	Bad   []string `json:"bad_parameters,omitempty"`
	Call  string   `json:"call,omitempty"`
	Start string   `json:"start_outcome,omitempty"`
	Run   string   `json:"run_outcome,omitempty"`
	// correspondence cases
	Params string `json:"params,omitempty"`
	Op     string `json:"model_op,omitempty"`
}

func runC20(c *ctx) {
	c.res.Rule = "NewSession / CanSign on the full cross product of the lattice (t x id-set mutation x self) vs the model ops sess.ok / sess.can_sign and vs the plain iff-statements; " +
		"every public start function (17) x every single bad parameter and every pair of bad parameters from different slots, started through the real handler constructors under recover; " +
		"a handler returned for invalid parameters is run with honest peers through the pump; non-trivial = at least one parameter differs from the valid base; distinct by (start function, bad parameters)"
	if c.replay != "" {
		if !c.c20OrderReplayFile() { // c20_order.go
			c.c20ReplayFile()
		}
		return
	}
	c.c20CorrSession()
	c.c20CorrCanSign()
	c.c20Search(nil)
	c.c20Order(nil) // c20_order.go: the same participant set listed in different orders by the parties of one session
}

// =====================================================================================================
// (A) correspondence

// c20Call: model call; only a spread sample of the calls is logged for the vm_compute cross-check (cases.v) so that the sample
// covers every op and every part of the lattice instead of the first sixty calls.
func (c *ctx) c20Call(op string, arg sx.V, log bool) (sx.V, error) {
	if log && len(c.m.Log) < 120 {
		c.m.MaxLog = len(c.m.Log) + 1
	} else {
		c.m.MaxLog = 0
	}
	return c.m.Call(op, arg)
}

const c20Max32 = int(1<<32 - 1)

func c20SpecSession(ids []string, self string, t int) bool {
	seen := map[string]bool{}
	for _, id := range ids {
		if seen[id] {
			return false
		}
		if id == "" {
			return false // an ID is a non-zero evaluation point of the sharing: the empty ID is refused
		}
		seen[id] = true
	}
	return seen[self] && t >= 0 && t <= c20Max32 && t <= len(ids)-1
}

func c20SpecCanSign(t int, self string, sh, sg []string) bool {
	seen := map[string]bool{}
	for _, id := range sg {
		if seen[id] {
			return false
		}
		seen[id] = true
	}
	shs := map[string]bool{}
	for _, id := range sh {
		shs[id] = true
	}
	for _, id := range sg {
		if !shs[id] {
			return false
		}
	}
	return seen[self] && t >= 0 && t <= c20Max32 && t < len(sg)
}

type c20IDMut struct {
	name string
	f    func(ids []string) []string
}

func c20IDMuts() []c20IDMut {
	cp := func(ids []string) []string { return append([]string{}, ids...) }
	return []c20IDMut{
		{"ids-as-is", func(ids []string) []string { return cp(ids) }},
		{"ids-duplicate-first", func(ids []string) []string { return append(cp(ids), ids[0]) }},
		{"ids-duplicate-last-adjacent", func(ids []string) []string { return append(cp(ids), ids[len(ids)-1]) }},
		{"ids-unsorted", func(ids []string) []string {
			o := cp(ids)
			for i, j := 0, len(o)-1; i < j; i, j = i+1, j-1 {
				o[i], o[j] = o[j], o[i]
			}
			return o
		}},
		{"ids-nil", func(ids []string) []string { return nil }},
		{"ids-empty-slice", func(ids []string) []string { return []string{} }},
		{"ids-foreign-added", func(ids []string) []string { return append(cp(ids), "zed") }},
		{"ids-with-empty-id", func(ids []string) []string { return append(cp(ids), "") }},
		{"ids-twice-empty-id", func(ids []string) []string { return append(cp(ids), "", "") }},
		{"ids-prefix-pair", func(ids []string) []string { return append(cp(ids), ids[0]+"\x00", ids[0]+"a") }},
	}
}

func c20TVals(n int, thorough bool) (vals []int, names []string) {
	add := func(v int, s string) { vals = append(vals, v); names = append(names, s) }
	add(-1, "t=-1")
	add(0, "t=0")
	add(n-1, "t=n-1")
	add(n, "t=n")
	add(c20Max32, "t=2^32-1")
	add(c20Max32+1, "t=2^32")
	if thorough {
		add(1, "t=1")
		add(n-2, "t=n-2")
		add(n+1, "t=n+1")
		add(-(1 << 31), "t=-2^31")
		add(1<<31, "t=2^31")
		add(1<<62, "t=2^62")
		add(-(1 << 62), "t=-2^62")
	}
	return
}

func c20Bytes(ids []string) [][]byte {
	if ids == nil {
		return nil
	}
	out := make([][]byte, len(ids))
	for i, s := range ids {
		out[i] = []byte(s)
	}
	return out
}

func (c *ctx) c20CorrSession() {
	pool := []string{"a", "b", "c", "d", "e", "f"}
	maxN := 4
	if c.thorough() {
		maxN = 6
	}
	for n := 1; n <= maxN; n++ {
		base := pool[:n]
		tv, tn := c20TVals(n, c.thorough())
		for _, im := range c20IDMuts() {
			ids := im.f(base)
			selves := []struct{ name, v string }{{"self-first", base[0]}, {"self-last", base[n-1]}, {"self-missing", "nobody"}, {"self-empty", ""}, {"self-foreign", "zed"}}
			for _, sf := range selves {
				for k, t := range tv {
					p := sessParams{Proto: "c20", IDs: c20Bytes(ids), Self: []byte(sf.v), Thr: t}
					_, _, err := goSession(p)
					implOK := err == nil
					what := fmt.Sprintf("%s/%s/%s", im.name, sf.name, tn[k])
					c.res.Case("newsession/"+im.name, fmt.Sprintf("n=%d/%s", n, what), !(im.name == "ids-as-is" && sf.name == "self-first" && t == n-1))
					c.res.Sample(2, map[string]interface{}{"op": "NewSession vs sess.ok", "params": p.String(), "accepted": implOK})
					if err != nil && strings.HasPrefix(err.Error(), "PANIC") {
						c.res.Violate("property", "C20/NewSession/panic/"+what, "round.NewSession panicked: "+err.Error(), c20Replay{What: "NewSession panic", Params: p.String(), Op: "sess.ok"})
					}
					rep, merr := c.c20Call("sess.ok", p.sx(), c.res.Rng.Intn(20) == 0)
					if merr != nil {
						c.res.Violate("correspondence", "C20/model-error", merr.Error(), c20Replay{What: "model error", Params: p.String(), Op: "sess.ok"})
						continue
					}
					agree := rep.AsBool() == implOK
					c.res.Corr(agree)
					if !agree {
						c.res.Violate("correspondence", "C20/newsession-mismatch/"+what, fmt.Sprintf("model sess.ok=%v, NewSession err=%v", rep.AsBool(), err),
							c20Replay{What: "NewSession vs sess.ok", Params: p.String(), Op: "sess.ok"})
					}
					// the property itself, judged by the plain statement of C20_new_session_ok_iff
					spec := c20SpecSession(ids, sf.v, t)
					if spec != implOK {
						kind := "accepts-invalid"
						if spec {
							kind = "rejects-valid"
						}
						c.res.Violate("property", "C20/NewSession/"+kind+"/"+what, fmt.Sprintf("NewSession(ids=%q, self=%q, t=%d): err=%v but the parameters are valid=%v", ids, sf.v, t, err, spec),
							c20Replay{What: "NewSession vs specification", Params: p.String(), Op: "sess.ok"})
					}
				}
			}
		}
	}
}

func c20CanSign(t int, self string, sh, sg []string) (ok bool, pan string) {
	cfg := &cmp.Config{ID: party.ID(self), Threshold: t, Public: map[party.ID]*cmpconfig.Public{}}
	for _, s := range sh {
		cfg.Public[party.ID(s)] = &cmpconfig.Public{}
	}
	ids := make([]party.ID, len(sg))
	for i, s := range sg {
		ids[i] = party.ID(s)
	}
	defer func() {
		if r := recover(); r != nil {
			pan = fmt.Sprint(r)
		}
	}()
	return cfg.CanSign(party.NewIDSlice(ids)), ""
}

func (c *ctx) c20CorrCanSign() {
	shs := [][]string{{"a", "b", "c"}, {"a", "b", "c", "d"}}
	if c.thorough() {
		shs = append(shs, []string{"a"}, []string{"a", "b"}, []string{"", "a", "b"}, []string{"a", "b", "c", "d", "e"})
	}
	sgs := []struct {
		name string
		v    []string
	}{
		{"signers-one", []string{"a"}}, {"signers-two", []string{"a", "b"}}, {"signers-two-unsorted", []string{"b", "a"}}, {"signers-three", []string{"a", "b", "c"}},
		{"signers-non-shareholder", []string{"a", "zed"}}, {"signers-extra-non-shareholder", []string{"a", "b", "zed"}}, {"signers-duplicate-self", []string{"a", "a"}},
		{"signers-duplicate-other", []string{"a", "b", "b"}}, {"signers-nil", nil}, {"signers-without-a", []string{"b", "c"}}, {"signers-with-empty-id", []string{"", "a"}},
		{"signers-four", []string{"a", "b", "c", "d"}}, {"signers-only-foreign", []string{"zed", "zy"}},
	}
	selves := []string{"a", "zed", "", "c"}
	for _, sh := range shs {
		for _, sg := range sgs {
			tv, tn := c20TVals(len(sg.v), c.thorough())
			tv, tn = append(tv, 1, len(sh)-1, len(sh)), append(tn, "t=1", "t=N-1", "t=N")
			for _, self := range selves {
				for k, t := range tv {
					impl, pan := c20CanSign(t, self, sh, sg.v)
					what := fmt.Sprintf("%s/self=%q/%s", sg.name, self, tn[k])
					arg := sx.List(sx.Int(int64(t)), sx.Str(self), sxStrs(sh), sxStrs(sg.v))
					c.res.Case("cansign/"+sg.name, fmt.Sprintf("N=%d/%s", len(sh), what), true)
					c.res.Sample(3, map[string]interface{}{"op": "Config.CanSign vs sess.can_sign", "arg": arg.String(), "can_sign": impl})
					if pan != "" {
						c.res.Violate("property", "C20/CanSign/panic/"+what, "Config.CanSign panicked: "+pan, c20Replay{What: "CanSign panic", Params: arg.String(), Op: "sess.can_sign"})
					}
					rep, merr := c.c20Call("sess.can_sign", arg, c.res.Rng.Intn(60) == 0)
					if merr != nil {
						c.res.Violate("correspondence", "C20/model-error", merr.Error(), c20Replay{What: "model error", Params: arg.String(), Op: "sess.can_sign"})
						continue
					}
					agree := rep.AsBool() == impl
					c.res.Corr(agree)
					if !agree {
						c.res.Violate("correspondence", "C20/cansign-mismatch/"+what, fmt.Sprintf("model sess.can_sign=%v, Config.CanSign=%v", rep.AsBool(), impl),
							c20Replay{What: "CanSign vs sess.can_sign", Params: arg.String(), Op: "sess.can_sign"})
					}
					if spec := c20SpecCanSign(t, self, sh, sg.v); spec != impl {
						kind := "accepts-invalid"
						if spec {
							kind = "rejects-valid"
						}
						c.res.Violate("property", "C20/CanSign/"+kind+"/"+what, fmt.Sprintf("Config{ID:%q,Threshold:%d,Public:%q}.CanSign(%q)=%v but valid=%v", self, t, sh, sg.v, impl, spec),
							c20Replay{What: "CanSign vs specification", Params: arg.String(), Op: "sess.can_sign"})
					}
				}
			}
		}
	}
}

func sxStrs(l []string) sx.V {
	out := make([]sx.V, len(l))
	for i, s := range l {
		out[i] = sx.Str(s)
	}
	return sx.List(out...)
}

// =====================================================================================================
// (B) start functions

// c20P: the parameters of one start attempt. ids / t / msg are given to EVERY party of the session (they are what the
// parties agreed on); self, cfgMut, preMut, other are local to the victim (party "a").
type c20P struct {
	ids    []party.ID
	tSym   string // "" = base threshold
	self   string // "" = own id | "missing" | "empty"
	msgMut string // "" | "nil" | "empty"
	cfgMut string
	preMut string
	othMut string // "" | "empty" | "self"
	names  []string
}

type c20Mut struct {
	name  string
	slot  string
	apply func(p *c20P)
	// flag: 1 = invalid by construction (message / key material / presignature / second party), 0 = validity of the session part is decided by the model
	flag int
}

// key material, generated lazily by real key generation sessions
type c20Mat struct {
	c     *ctx
	g     curve.Curve
	ids   []party.ID
	fr    map[party.ID]*frost.Config
	frZ   *frost.Config
	tp    map[party.ID]*frost.TaprootConfig
	tpZ   *frost.TaprootConfig
	cm    map[party.ID]*cmp.Config
	pre   map[party.ID]*ecdsa.PreSignature
	dr    *doerner.ConfigReceiver
	ds    *doerner.ConfigSender
	fail  map[string]string
	seed  int64
	tMake map[string]float64
}

var c20Msg = []byte("0123456789abcdef0123456789abcdef")

func (m *c20Mat) runSpec(sp SessionSpec) *Sim {
	m.seed++
	det := installDetReader(m.seed, 0)
	defer restoreRandReader()
	s := sp.build(rand.New(rand.NewSource(m.seed)), det)
	s.RunFIFO(200000)
	return s
}

func (m *c20Mat) needFrost() bool {
	if m.fr != nil {
		return true
	}
	if m.fail["frost"] != "" {
		return false
	}
	t0 := time.Now()
	get := func(ids []party.ID, tap bool) (map[party.ID]*frost.Config, map[party.ID]*frost.TaprootConfig, string) {
		s := m.runSpec(specFrostKeygen(ids, 1, tap, []byte("c20-kg")))
		a, b := map[party.ID]*frost.Config{}, map[party.ID]*frost.TaprootConfig{}
		for id, n := range s.Nodes {
			r, e := resultOf(n)
			switch x := r.(type) {
			case *frost.Config:
				a[id] = x
			case *frost.TaprootConfig:
				b[id] = x
			default:
				return nil, nil, fmt.Sprintf("party %s: %s", id, e)
			}
		}
		return a, b, ""
	}
	fr, _, e1 := get(m.ids, false)
	_, tp, e2 := get(m.ids, true)
	zids := idsOf("zed", "zy", "zx")
	frz, _, e3 := get(zids, false)
	_, tpz, e4 := get(zids, true)
	if e1+e2+e3+e4 != "" {
		m.fail["frost"] = e1 + e2 + e3 + e4
		m.c.res.Note("C20: FROST key generation failed: %s", m.fail["frost"])
		return false
	}
	m.fr, m.tp, m.frZ, m.tpZ = fr, tp, frz["zed"], tpz["zed"]
	m.tMake["frost"] = time.Since(t0).Seconds()
	return true
}

func (m *c20Mat) needCMP() bool {
	if m.cm != nil {
		return true
	}
	if m.fail["cmp"] != "" {
		return false
	}
	t0 := time.Now()
	usePrimeCache()
	s := m.runSpec(specCMPKeygen(m.ids, 1, []byte("c20-kg")))
	cfgs, err := cmpConfigsOf(s)
	if err != nil {
		m.fail["cmp"] = err.Error()
		m.c.res.Note("C20: CMP key generation failed: %v", err)
		return false
	}
	m.cm = cfgs
	m.tMake["cmp-keygen"] = time.Since(t0).Seconds()
	return true
}

func (m *c20Mat) needPre() bool {
	if m.pre != nil {
		return true
	}
	if !m.needCMP() || m.fail["pre"] != "" {
		return false
	}
	t0 := time.Now()
	s := m.runSpec(specCMPPresign(m.cm, m.ids[:2], []byte("c20-ps")))
	pre := map[party.ID]*ecdsa.PreSignature{}
	for id, n := range s.Nodes {
		r, e := resultOf(n)
		x, ok := r.(*ecdsa.PreSignature)
		if !ok {
			m.fail["pre"] = fmt.Sprintf("party %s: %s", id, e)
			m.c.res.Note("C20: CMP presign failed: %s", m.fail["pre"])
			return false
		}
		pre[id] = x
	}
	m.pre = pre
	m.tMake["cmp-presign"] = time.Since(t0).Seconds()
	return true
}

func (m *c20Mat) needDoerner() bool {
	if m.dr != nil {
		return true
	}
	if m.fail["doerner"] != "" {
		return false
	}
	t0 := time.Now()
	m.seed++
	det := installDetReader(m.seed, 0)
	defer restoreRandReader()
	ids := m.ids[:2]
	kg := twoPartySim(ids, det, doerner.Keygen(m.g, true, ids[0], ids[1], nil), doerner.Keygen(m.g, false, ids[1], ids[0], nil), []byte("c20-kg"), true, false)
	kg.RunFIFO(10000)
	rr, e1 := resultOf(kg.Nodes[ids[0]])
	rs, e2 := resultOf(kg.Nodes[ids[1]])
	cr, ok1 := rr.(*doerner.ConfigReceiver)
	cs, ok2 := rs.(*doerner.ConfigSender)
	if !ok1 || !ok2 {
		m.fail["doerner"] = e1 + " " + e2
		m.c.res.Note("C20: Doerner key generation failed: %s", m.fail["doerner"])
		return false
	}
	m.dr, m.ds = cr, cs
	m.tMake["doerner"] = time.Since(t0).Seconds()
	return true
}

// ---- bad key material -------------------------------------------------------------------------------

func c20CopyCMP(c *cmp.Config) *cmp.Config {
	d := *c
	d.Public = map[party.ID]*cmpconfig.Public{}
	for k, v := range c.Public {
		if v == nil {
			d.Public[k] = nil
			continue
		}
		pv := *v
		d.Public[k] = &pv
	}
	if c.Public == nil {
		d.Public = nil
	}
	return &d
}

// c20BadCMP returns the victim's config with one defect; peer is another shareholder that takes part in the session.
func c20BadCMP(name string, c *cmp.Config, peer party.ID) *cmp.Config {
	if name == "" {
		return c
	}
	d := c20CopyCMP(c)
	switch name {
	case "cfg-nil":
		return nil
	case "cfg-zero-struct":
		return &cmp.Config{}
	case "cfg-empty":
		return cmp.EmptyConfig(c.Group)
	case "cfg-group-nil":
		d.Group = nil
	case "cfg-ecdsa-share-nil":
		d.ECDSA = nil
	case "cfg-elgamal-share-nil":
		d.ElGamal = nil
	case "cfg-paillier-nil":
		d.Paillier = nil
	case "cfg-public-nil":
		d.Public = nil
	case "cfg-public-self-missing":
		delete(d.Public, c.ID)
	case "cfg-public-self-nil":
		d.Public[c.ID] = nil
	case "cfg-public-peer-missing":
		delete(d.Public, peer)
	case "cfg-public-peer-nil":
		d.Public[peer] = nil
	case "cfg-public-peer-ecdsa-nil":
		d.Public[peer].ECDSA = nil
	case "cfg-public-peer-elgamal-nil":
		d.Public[peer].ElGamal = nil
	case "cfg-public-peer-paillier-nil":
		d.Public[peer].Paillier = nil
	case "cfg-public-peer-pedersen-nil":
		d.Public[peer].Pedersen = nil
	case "cfg-id-foreign":
		d.ID = "zed"
	case "cfg-id-empty":
		d.ID = ""
	case "cfg-rid-nil":
		// passes the structural checks but cannot be written into the session hash
		d.RID = nil
	default:
		panic("unknown cmp config mutation " + name)
	}
	return d
}

func c20BadFrost(name string, c *frost.Config, peer party.ID) *frost.Config {
	if name == "" {
		return c
	}
	d := *c
	pts := map[party.ID]curve.Point{}
	for k, v := range c.VerificationShares.Points {
		pts[k] = v
	}
	d.VerificationShares = party.NewPointMap(pts)
	switch name {
	case "cfg-nil":
		return nil
	case "cfg-zero-struct":
		return &frost.Config{}
	case "cfg-empty":
		return frost.EmptyConfig(c.PublicKey.Curve())
	case "cfg-private-share-nil":
		d.PrivateShare = nil
	case "cfg-public-key-nil":
		d.PublicKey = nil
	case "cfg-verification-shares-nil":
		d.VerificationShares = nil
	case "cfg-verification-shares-empty":
		d.VerificationShares = party.EmptyPointMap(c.PublicKey.Curve())
	case "cfg-verification-share-peer-missing":
		delete(pts, peer)
	case "cfg-verification-share-self-missing":
		delete(pts, c.ID)
	case "cfg-verification-share-peer-nil":
		pts[peer] = nil
	case "cfg-id-foreign":
		d.ID = "zed"
	case "cfg-id-empty":
		d.ID = ""
	default:
		panic("unknown frost config mutation " + name)
	}
	return &d
}

func c20BadTaproot(name string, c *frost.TaprootConfig, peer party.ID) *frost.TaprootConfig {
	if name == "" {
		return c
	}
	d := c.Clone()
	switch name {
	case "cfg-nil":
		return nil
	case "cfg-zero-struct":
		return &frost.TaprootConfig{}
	case "cfg-private-share-nil":
		d.PrivateShare = nil
	case "cfg-public-key-nil":
		d.PublicKey = nil
	case "cfg-public-key-truncated":
		// LiftX has no length check: whether a truncated key is still the x coordinate of SOME point is a coin flip per length.
		// Take the longest proper prefix that lifts, so that the case does not depend on the random key.
		cut := len(c.PublicKey) - 1
		for l := len(c.PublicKey) - 1; l >= 1; l-- {
			if _, err := (curve.Secp256k1{}).LiftX(c.PublicKey[:l]); err == nil {
				cut = l
				break
			}
		}
		d.PublicKey = taproot.PublicKey(append([]byte{}, c.PublicKey[:cut]...))
	case "cfg-verification-shares-nil":
		d.VerificationShares = nil
	case "cfg-verification-share-peer-missing":
		delete(d.VerificationShares, peer)
	case "cfg-verification-share-self-missing":
		delete(d.VerificationShares, c.ID)
	case "cfg-verification-share-peer-nil":
		d.VerificationShares[peer] = nil
	case "cfg-id-foreign":
		d.ID = "zed"
	case "cfg-id-empty":
		d.ID = ""
	default:
		panic("unknown taproot config mutation " + name)
	}
	return d
}

func c20BadPre(name string, p *ecdsa.PreSignature, self party.ID) *ecdsa.PreSignature {
	if name == "" {
		return p
	}
	d := *p
	cpm := func(m *party.PointMap) map[party.ID]curve.Point {
		o := map[party.ID]curve.Point{}
		for k, v := range m.Points {
			o[k] = v
		}
		return o
	}
	rb, s := cpm(p.RBar), cpm(p.S)
	d.ID = p.ID.Copy()
	g := p.R.Curve()
	switch name {
	case "pre-nil":
		return nil
	case "pre-zero-struct":
		return &ecdsa.PreSignature{}
	case "pre-empty":
		return ecdsa.EmptyPreSignature(g)
	case "pre-R-nil":
		d.R = nil
	case "pre-R-identity":
		d.R = g.NewPoint()
	case "pre-RBar-nil":
		d.RBar = nil
		return &d
	case "pre-S-nil":
		d.S = nil
		return &d
	case "pre-KShare-nil":
		d.KShare = nil
	case "pre-ChiShare-nil":
		d.ChiShare = nil
	case "pre-KShare-zero":
		d.KShare = g.NewScalar()
	case "pre-ID-nil":
		d.ID = nil
	case "pre-ID-truncated":
		d.ID = d.ID[:len(d.ID)-1]
	case "pre-signers-foreign":
		// the presignature of a different signer set: an entry for a non-shareholder
		rb["zed"], s["zed"] = rb[self], s[self]
	case "pre-signers-without-self":
		delete(rb, self)
		delete(s, self)
	case "pre-S-entry-missing":
		delete(s, self)
	case "pre-RBar-entry-nil":
		rb[self] = nil
	case "pre-single-signer":
		for k := range rb {
			if k != self {
				delete(rb, k)
				delete(s, k)
			}
		}
	default:
		panic("unknown presignature mutation " + name)
	}
	// keep the group of the original maps (party.NewPointMap would inspect an arbitrary, possibly nil, entry)
	rbm, sm := *p.RBar, *p.S
	rbm.Points, sm.Points = rb, s
	d.RBar, d.S = &rbm, &sm
	return &d
}

func c20BadDR(name string, c *doerner.ConfigReceiver) *doerner.ConfigReceiver {
	if name == "" {
		return c
	}
	d := *c
	switch name {
	case "cfg-nil":
		return nil
	case "cfg-zero-struct":
		return &doerner.ConfigReceiver{}
	case "cfg-empty":
		return doerner.EmptyConfigReceiver(c.Public.Curve())
	case "cfg-setup-nil":
		d.Setup = nil
	case "cfg-secret-share-nil":
		d.SecretShare = nil
	case "cfg-public-nil":
		d.Public = nil
	default:
		panic("unknown doerner config mutation " + name)
	}
	return &d
}

func c20BadDS(name string, c *doerner.ConfigSender) *doerner.ConfigSender {
	if name == "" {
		return c
	}
	d := *c
	switch name {
	case "cfg-nil":
		return nil
	case "cfg-zero-struct":
		return &doerner.ConfigSender{}
	case "cfg-empty":
		return doerner.EmptyConfigSender(c.Public.Curve())
	case "cfg-setup-nil":
		d.Setup = nil
	case "cfg-secret-share-nil":
		d.SecretShare = nil
	case "cfg-public-nil":
		d.Public = nil
	default:
		panic("unknown doerner config mutation " + name)
	}
	return &d
}

// ---- start function table ---------------------------------------------------------------------------

type c20Fn struct {
	name    string
	family  string // "keygen" | "sign" | "refresh" | "cmprefresh" | "online" | "doerner"
	two     bool
	need    func(m *c20Mat) bool
	hasT    bool
	hasMsg  bool
	cfgMuts []string
	preMuts []string
	cheap   bool
	baseIDs func(m *c20Mat) []party.ID
	// start builds the StartFunc of party `who` (victim => the local defects of p apply). It may panic: called inside the handler constructor's recover.
	start func(m *c20Mat, p *c20P, who party.ID, victim bool) protocol.StartFunc
	// the config-derived facts the oracle needs: (self id, threshold, shareholders) of the victim after the key-material defect; ok=false if not readable (then the defect flag decides)
	facts func(m *c20Mat, p *c20P) (self string, t int, sh []string, ok bool)
	call  func(m *c20Mat, p *c20P) string
	// doerner: victim and peer, leaders
	victim party.ID
	leader func(who party.ID) bool
}

func c20T(p *c20P, base, n int) int {
	switch p.tSym {
	case "":
		return base
	case "t=-1":
		return -1
	case "t=0":
		return 0
	case "t=n-1":
		return n - 1
	case "t=n":
		return n
	case "t=2^32-1":
		return c20Max32
	case "t=2^32":
		return c20Max32 + 1
	}
	panic("bad tSym " + p.tSym)
}

func c20Self(p *c20P, who party.ID, victim bool) party.ID {
	if !victim {
		return who
	}
	switch p.self {
	case "missing":
		return "zed"
	case "empty":
		return ""
	}
	return who
}

func c20MsgOf(p *c20P) []byte {
	switch p.msgMut {
	case "nil":
		return nil
	case "empty":
		return []byte{}
	}
	return c20Msg
}

func c20MsgText(p *c20P) string {
	switch p.msgMut {
	case "nil":
		return "nil"
	case "empty":
		return "[]byte{}"
	}
	return fmt.Sprintf("<%d bytes>", len(c20Msg))
}

func c20Peer(p *c20P, self party.ID) party.ID {
	for _, id := range p.ids {
		if id != self && id != "zed" && id != "" {
			return id
		}
	}
	return "b"
}

func strsOf(ids []party.ID) []string {
	out := make([]string, len(ids))
	for i, id := range ids {
		out[i] = string(id)
	}
	return out
}

func sortedKeys[V any](m map[party.ID]V) []string {
	out := []string{}
	for k := range m {
		out = append(out, string(k))
	}
	sort.Strings(out)
	return out
}

func c20CfgText(p *c20P, who string) string {
	s := "config[" + who + "]"
	var ds []string
	if p.cfgMut != "" {
		ds = append(ds, strings.TrimPrefix(p.cfgMut, "cfg-"))
	}
	if p.tSym != "" {
		ds = append(ds, "Threshold "+strings.TrimPrefix(p.tSym, "t="))
	}
	if len(ds) > 0 {
		s += "{" + strings.Join(ds, ", ") + "}"
	}
	return s
}

func c20Fns() []*c20Fn {
	abc := func(m *c20Mat) []party.ID { return append([]party.ID{}, m.ids...) }
	ab := func(m *c20Mat) []party.ID { return append([]party.ID{}, m.ids[:2]...) }
	none := func(m *c20Mat) bool { return true }
	var fns []*c20Fn

	// ---- key generation family
	type kg struct {
		name  string
		hasT  bool
		cheap bool
		need  func(m *c20Mat) bool
		mk    func(m *c20Mat, self party.ID, ids []party.ID, t int) protocol.StartFunc
		txt   string
	}
	for _, k := range []kg{
		{"cmp.Keygen", true, false, func(m *c20Mat) bool { usePrimeCache(); return true },
			func(m *c20Mat, self party.ID, ids []party.ID, t int) protocol.StartFunc {
				return cmp.Keygen(m.g, self, ids, t, nil)
			}, "cmp.Keygen(secp256k1, self=%q, participants=%q, threshold=%d, pool=nil)"},
		{"frost.Keygen", true, true, none,
			func(m *c20Mat, self party.ID, ids []party.ID, t int) protocol.StartFunc {
				return frost.Keygen(m.g, self, ids, t)
			}, "frost.Keygen(secp256k1, self=%q, participants=%q, threshold=%d)"},
		{"frost.KeygenTaproot", true, true, none,
			func(m *c20Mat, self party.ID, ids []party.ID, t int) protocol.StartFunc {
				return frost.KeygenTaproot(self, ids, t)
			}, "frost.KeygenTaproot(self=%q, participants=%q, threshold=%d)"},
		{"example.StartXOR", false, true, none,
			func(m *c20Mat, self party.ID, ids []party.ID, t int) protocol.StartFunc {
				return example.StartXOR(self, party.IDSlice(ids))
			}, "example.StartXOR(self=%q, partyIDs=%q) [threshold %d]"},
	} {
		k := k
		baseT := 1
		if !k.hasT {
			baseT = 0
		}
		fns = append(fns, &c20Fn{name: k.name, family: "keygen", need: k.need, hasT: k.hasT, cheap: k.cheap, baseIDs: abc, victim: "a",
			start: func(m *c20Mat, p *c20P, who party.ID, victim bool) protocol.StartFunc {
				return k.mk(m, c20Self(p, who, victim), p.ids, c20T(p, c20BaseT(p, baseT), len(p.ids)))
			},
			facts: func(m *c20Mat, p *c20P) (string, int, []string, bool) {
				return string(c20Self(p, "a", true)), c20T(p, c20BaseT(p, baseT), len(p.ids)), nil, true
			},
			call: func(m *c20Mat, p *c20P) string {
				return fmt.Sprintf(k.txt, string(c20Self(p, "a", true)), strsOf(p.ids), c20T(p, c20BaseT(p, baseT), len(p.ids)))
			}})
	}

	cmpCfg := []string{"cfg-nil", "cfg-zero-struct", "cfg-empty", "cfg-group-nil", "cfg-ecdsa-share-nil", "cfg-paillier-nil", "cfg-public-nil", "cfg-public-self-missing",
		"cfg-public-self-nil", "cfg-public-peer-missing", "cfg-public-peer-nil", "cfg-public-peer-ecdsa-nil", "cfg-public-peer-paillier-nil", "cfg-public-peer-pedersen-nil", "cfg-id-foreign", "cfg-id-empty", "cfg-rid-nil"}
	cmpCfgPre := append(append([]string{}, cmpCfg...), "cfg-elgamal-share-nil", "cfg-public-peer-elgamal-nil")
	cmpOf := func(m *c20Mat, p *c20P, who party.ID, victim bool, n int) *cmp.Config {
		c := m.cm[who]
		if victim {
			c = c20BadCMP(p.cfgMut, c, c20Peer(p, who))
		}
		if c != nil && p.tSym != "" {
			c = c20CopyCMP(c)
			c.Threshold = c20T(p, 1, n)
		}
		return c
	}
	cmpFacts := func(m *c20Mat, p *c20P, n int) (string, int, []string, bool) {
		c := cmpOf(m, p, "a", true, n)
		if c == nil {
			return "", 0, nil, false
		}
		return string(c.ID), c.Threshold, sortedKeys(c.Public), true
	}

	fns = append(fns, &c20Fn{name: "cmp.Refresh", family: "cmprefresh", need: (*c20Mat).needCMP, hasT: true, baseIDs: abc, victim: "a",
		cfgMuts: []string{"cfg-nil", "cfg-zero-struct", "cfg-empty", "cfg-group-nil", "cfg-ecdsa-share-nil", "cfg-public-nil", "cfg-public-self-missing", "cfg-public-self-nil",
			"cfg-public-peer-nil", "cfg-public-peer-ecdsa-nil", "cfg-public-peer-paillier-nil", "cfg-public-peer-pedersen-nil", "cfg-id-foreign", "cfg-id-empty", "cfg-rid-nil"},
		start: func(m *c20Mat, p *c20P, who party.ID, victim bool) protocol.StartFunc {
			return cmp.Refresh(cmpOf(m, p, who, victim, len(m.ids)), nil)
		},
		facts: func(m *c20Mat, p *c20P) (string, int, []string, bool) { return cmpFacts(m, p, len(m.ids)) },
		call:  func(m *c20Mat, p *c20P) string { return fmt.Sprintf("cmp.Refresh(%s, pool=nil)", c20CfgText(p, "a")) }})

	fns = append(fns, &c20Fn{name: "cmp.Sign", family: "sign", need: (*c20Mat).needCMP, hasT: true, hasMsg: true, baseIDs: ab, victim: "a", cfgMuts: cmpCfg,
		start: func(m *c20Mat, p *c20P, who party.ID, victim bool) protocol.StartFunc {
			return cmp.Sign(cmpOf(m, p, who, victim, len(p.ids)), p.ids, c20MsgOf(p), nil)
		},
		facts: func(m *c20Mat, p *c20P) (string, int, []string, bool) { return cmpFacts(m, p, len(p.ids)) },
		call: func(m *c20Mat, p *c20P) string {
			return fmt.Sprintf("cmp.Sign(%s, signers=%q, messageHash=%s, pool=nil)", c20CfgText(p, "a"), strsOf(p.ids), c20MsgText(p))
		}})

	fns = append(fns, &c20Fn{name: "cmp.Presign", family: "sign", need: (*c20Mat).needCMP, hasT: true, baseIDs: ab, victim: "a", cfgMuts: cmpCfgPre,
		start: func(m *c20Mat, p *c20P, who party.ID, victim bool) protocol.StartFunc {
			return cmp.Presign(cmpOf(m, p, who, victim, len(p.ids)), p.ids, nil)
		},
		facts: func(m *c20Mat, p *c20P) (string, int, []string, bool) { return cmpFacts(m, p, len(p.ids)) },
		call: func(m *c20Mat, p *c20P) string {
			return fmt.Sprintf("cmp.Presign(%s, signers=%q, pool=nil)", c20CfgText(p, "a"), strsOf(p.ids))
		}})

	fns = append(fns, &c20Fn{name: "cmp.PresignOnline", family: "online", need: (*c20Mat).needPre, hasT: true, hasMsg: true, baseIDs: ab, victim: "a",
		cfgMuts: []string{"cfg-nil", "cfg-zero-struct", "cfg-empty", "cfg-group-nil", "cfg-public-nil", "cfg-public-self-missing", "cfg-public-self-nil", "cfg-public-peer-missing",
			"cfg-public-peer-nil", "cfg-public-peer-ecdsa-nil", "cfg-id-foreign", "cfg-id-empty"},
		preMuts: []string{"pre-nil", "pre-zero-struct", "pre-empty", "pre-R-nil", "pre-R-identity", "pre-RBar-nil", "pre-S-nil", "pre-KShare-nil", "pre-ChiShare-nil", "pre-KShare-zero",
			"pre-ID-nil", "pre-ID-truncated", "pre-signers-foreign", "pre-signers-without-self", "pre-S-entry-missing", "pre-RBar-entry-nil", "pre-single-signer"},
		start: func(m *c20Mat, p *c20P, who party.ID, victim bool) protocol.StartFunc {
			pre := m.pre[who]
			if victim {
				pre = c20BadPre(p.preMut, pre, who)
			}
			return cmp.PresignOnline(cmpOf(m, p, who, victim, 2), pre, c20MsgOf(p), nil)
		},
		facts: func(m *c20Mat, p *c20P) (string, int, []string, bool) { return cmpFacts(m, p, 2) },
		call: func(m *c20Mat, p *c20P) string {
			pt := "presignature[a]"
			if p.preMut != "" {
				pt += "{" + strings.TrimPrefix(p.preMut, "pre-") + "}"
			}
			return fmt.Sprintf("cmp.PresignOnline(%s, %s, messageHash=%s, pool=nil)", c20CfgText(p, "a"), pt, c20MsgText(p))
		}})

	// ---- FROST with key material
	frCfg := []string{"cfg-nil", "cfg-zero-struct", "cfg-empty", "cfg-private-share-nil", "cfg-public-key-nil", "cfg-verification-shares-nil", "cfg-verification-shares-empty",
		"cfg-verification-share-peer-missing", "cfg-verification-share-self-missing", "cfg-verification-share-peer-nil", "cfg-id-foreign", "cfg-id-empty"}
	tpCfg := []string{"cfg-nil", "cfg-zero-struct", "cfg-private-share-nil", "cfg-public-key-nil", "cfg-public-key-truncated", "cfg-verification-shares-nil",
		"cfg-verification-share-peer-missing", "cfg-verification-share-self-missing", "cfg-verification-share-peer-nil", "cfg-id-foreign", "cfg-id-empty"}
	frOf := func(m *c20Mat, p *c20P, who party.ID, victim bool, n int) *frost.Config {
		c := m.fr[who]
		if who == "zed" {
			c = m.frZ
		}
		if victim {
			c = c20BadFrost(p.cfgMut, c, c20Peer(p, who))
		}
		if c != nil && p.tSym != "" {
			d := *c
			d.Threshold = c20T(p, 1, n)
			c = &d
		}
		return c
	}
	tpOf := func(m *c20Mat, p *c20P, who party.ID, victim bool, n int) *frost.TaprootConfig {
		c := m.tp[who]
		if who == "zed" {
			c = m.tpZ
		}
		if victim {
			c = c20BadTaproot(p.cfgMut, c, c20Peer(p, who))
		}
		if c != nil && p.tSym != "" {
			d := *c
			d.Threshold = c20T(p, 1, n)
			c = &d
		}
		return c
	}
	frFacts := func(m *c20Mat, p *c20P) (string, int, []string, bool) {
		c := frOf(m, p, "a", true, len(p.ids))
		if c == nil || c.VerificationShares == nil {
			return "", 0, nil, false
		}
		return string(c.ID), c.Threshold, sortedKeys(c.VerificationShares.Points), true
	}
	tpFacts := func(m *c20Mat, p *c20P) (string, int, []string, bool) {
		c := tpOf(m, p, "a", true, len(p.ids))
		if c == nil {
			return "", 0, nil, false
		}
		return string(c.ID), c.Threshold, sortedKeys(c.VerificationShares), true
	}
	fns = append(fns, &c20Fn{name: "frost.Sign", family: "sign", need: (*c20Mat).needFrost, hasT: true, hasMsg: true, cheap: true, baseIDs: ab, victim: "a", cfgMuts: frCfg,
		start: func(m *c20Mat, p *c20P, who party.ID, victim bool) protocol.StartFunc {
			return frost.Sign(frOf(m, p, who, victim, len(p.ids)), p.ids, c20MsgOf(p))
		},
		facts: frFacts,
		call: func(m *c20Mat, p *c20P) string {
			return fmt.Sprintf("frost.Sign(%s, signers=%q, messageHash=%s)", c20CfgText(p, "a"), strsOf(p.ids), c20MsgText(p))
		}})
	fns = append(fns, &c20Fn{name: "frost.SignTaproot", family: "sign", need: (*c20Mat).needFrost, hasT: true, hasMsg: true, cheap: true, baseIDs: ab, victim: "a", cfgMuts: tpCfg,
		start: func(m *c20Mat, p *c20P, who party.ID, victim bool) protocol.StartFunc {
			return frost.SignTaproot(tpOf(m, p, who, victim, len(p.ids)), p.ids, c20MsgOf(p))
		},
		facts: tpFacts,
		call: func(m *c20Mat, p *c20P) string {
			return fmt.Sprintf("frost.SignTaproot(%s, signers=%q, messageHash=%s)", c20CfgText(p, "a"), strsOf(p.ids), c20MsgText(p))
		}})
	fns = append(fns, &c20Fn{name: "frost.Refresh", family: "refresh", need: (*c20Mat).needFrost, hasT: true, cheap: true, baseIDs: abc, victim: "a", cfgMuts: frCfg,
		start: func(m *c20Mat, p *c20P, who party.ID, victim bool) protocol.StartFunc {
			return frost.Refresh(frOf(m, p, who, victim, len(p.ids)), p.ids)
		},
		facts: frFacts,
		call: func(m *c20Mat, p *c20P) string {
			return fmt.Sprintf("frost.Refresh(%s, participants=%q)", c20CfgText(p, "a"), strsOf(p.ids))
		}})
	fns = append(fns, &c20Fn{name: "frost.RefreshTaproot", family: "refresh", need: (*c20Mat).needFrost, hasT: true, cheap: true, baseIDs: abc, victim: "a", cfgMuts: tpCfg,
		start: func(m *c20Mat, p *c20P, who party.ID, victim bool) protocol.StartFunc {
			return frost.RefreshTaproot(tpOf(m, p, who, victim, len(p.ids)), p.ids)
		},
		facts: tpFacts,
		call: func(m *c20Mat, p *c20P) string {
			return fmt.Sprintf("frost.RefreshTaproot(%s, participants=%q)", c20CfgText(p, "a"), strsOf(p.ids))
		}})

	// ---- Doerner (two parties: "a" holds the receiver share, "b" the sender share)
	dCfg := []string{"cfg-nil", "cfg-zero-struct", "cfg-empty", "cfg-setup-nil", "cfg-secret-share-nil", "cfg-public-nil"}
	dCfgRefresh := []string{"cfg-nil", "cfg-zero-struct", "cfg-empty", "cfg-secret-share-nil", "cfg-public-nil"}
	other := func(p *c20P, who party.ID, victim bool) party.ID {
		o := party.ID("b")
		if who == "b" {
			o = "a"
		}
		if victim {
			switch p.othMut {
			case "empty":
				return ""
			case "self":
				return who
			}
		}
		return o
	}
	type dn struct {
		name    string
		victim  party.ID
		kind    string // keygen | refresh | sign
		cfgMuts []string
	}
	for _, d := range []dn{{"doerner.Keygen(receiver)", "a", "keygen", nil}, {"doerner.Keygen(sender)", "b", "keygen", nil},
		{"doerner.RefreshReceiver", "a", "refresh", dCfgRefresh}, {"doerner.RefreshSender", "b", "refresh", dCfgRefresh},
		{"doerner.SignReceiver", "a", "sign", dCfg}, {"doerner.SignSender", "b", "sign", dCfg}} {
		d := d
		f := &c20Fn{name: d.name, family: "doerner", two: true, need: (*c20Mat).needDoerner, hasMsg: d.kind == "sign", cheap: true, baseIDs: ab, victim: d.victim, cfgMuts: d.cfgMuts}
		if d.kind == "keygen" {
			f.need = none
		}
		f.leader = func(who party.ID) bool { return d.kind == "sign" || who == "a" }
		f.start = func(m *c20Mat, p *c20P, who party.ID, victim bool) protocol.StartFunc {
			self, oth := who, other(p, who, victim)
			cm := ""
			if victim {
				cm = p.cfgMut
			}
			switch d.kind {
			case "keygen":
				return doerner.Keygen(m.g, who == "a", self, oth, nil)
			case "refresh":
				if who == "a" {
					return doerner.RefreshReceiver(c20BadDR(cm, m.dr), self, oth, nil)
				}
				return doerner.RefreshSender(c20BadDS(cm, m.ds), self, oth, nil)
			default:
				if who == "a" {
					return doerner.SignReceiver(c20BadDR(cm, m.dr), self, oth, c20MsgOf(p), nil)
				}
				return doerner.SignSender(c20BadDS(cm, m.ds), self, oth, c20MsgOf(p), nil)
			}
		}
		f.facts = func(m *c20Mat, p *c20P) (string, int, []string, bool) { return string(d.victim), 1, nil, true }
		f.call = func(m *c20Mat, p *c20P) string {
			oth := other(p, d.victim, true)
			switch d.kind {
			case "keygen":
				return fmt.Sprintf("doerner.Keygen(secp256k1, receiver=%v, self=%q, other=%q, nil)", d.victim == "a", string(d.victim), string(oth))
			case "refresh":
				return fmt.Sprintf("%s(%s, self=%q, other=%q, nil)", d.name, c20CfgText(p, string(d.victim)), string(d.victim), string(oth))
			}
			return fmt.Sprintf("%s(%s, self=%q, other=%q, hash=%s, nil)", d.name, c20CfgText(p, string(d.victim)), string(d.victim), string(oth), c20MsgText(p))
		}
		fns = append(fns, f)
	}
	return fns
}

// n=1 sessions only make sense with threshold 0
func c20BaseT(p *c20P, base int) int {
	if len(p.ids) == 1 && base > 0 {
		return 0
	}
	return base
}

// mutations available for a start function, grouped in slots (a pair takes its two mutations from different slots)
func (f *c20Fn) muts(m *c20Mat) []c20Mut {
	var out []c20Mut
	ids := func(name string, v []party.ID) {
		out = append(out, c20Mut{name: name, slot: "ids", apply: func(p *c20P) { p.ids = v }})
	}
	switch f.family {
	case "keygen":
		ids("ids-duplicate", idsOf("a", "b", "c", "a"))
		ids("ids-empty", nil)
		ids("ids-unsorted", idsOf("c", "a", "b"))
		ids("ids-with-empty-id", idsOf("a", "b", ""))
		ids("ids-n=1", idsOf("a"))
		out = append(out, c20Mut{name: "self-missing", slot: "self", apply: func(p *c20P) { p.self = "missing" }})
		out = append(out, c20Mut{name: "self-empty", slot: "self", apply: func(p *c20P) { p.self = "empty" }})
		if f.hasT {
			for _, t := range []string{"t=-1", "t=0", "t=n-1", "t=n", "t=2^32-1", "t=2^32"} {
				t := t
				out = append(out, c20Mut{name: t, slot: "t", apply: func(p *c20P) { p.tSym = t }})
			}
		}
	case "sign":
		ids("signers-size-t", idsOf("a"))
		ids("signers-non-shareholder", idsOf("a", "zed"))
		ids("signers-extra-non-shareholder", idsOf("a", "b", "zed"))
		ids("signers-duplicate", idsOf("a", "b", "b"))
		ids("signers-empty", nil)
		ids("signers-without-self", idsOf("b", "c"))
		ids("signers-unsorted", idsOf("b", "a"))
		ids("signers-all", idsOf("a", "b", "c"))
	case "refresh":
		ids("ids-duplicate", idsOf("a", "b", "c", "a"))
		ids("ids-empty", nil)
		ids("ids-without-self", idsOf("b", "c"))
		ids("ids-size-t", idsOf("a"))
		ids("ids-extra-non-shareholder", idsOf("a", "b", "c", "zed"))
		ids("ids-non-shareholder", idsOf("a", "b", "zed"))
		ids("ids-unsorted", idsOf("c", "a", "b"))
	case "doerner":
		out = append(out, c20Mut{name: "other-id-empty", slot: "other", flag: 1, apply: func(p *c20P) { p.othMut = "empty" }})
		out = append(out, c20Mut{name: "other-id-equals-self", slot: "other", apply: func(p *c20P) { p.othMut = "self" }})
	}
	if f.hasT && f.family != "keygen" {
		for _, t := range []string{"t=-1", "t=n", "t=2^32-1", "t=2^32"} {
			t := t
			out = append(out, c20Mut{name: "cfg-threshold:" + t, slot: "t", apply: func(p *c20P) { p.tSym = t }})
		}
	}
	if f.hasMsg {
		out = append(out, c20Mut{name: "message-nil", slot: "msg", flag: 1, apply: func(p *c20P) { p.msgMut = "nil" }})
		out = append(out, c20Mut{name: "message-empty", slot: "msg", flag: 1, apply: func(p *c20P) { p.msgMut = "empty" }})
	}
	for _, cm := range f.cfgMuts {
		cm := cm
		out = append(out, c20Mut{name: cm, slot: "cfg", flag: 1, apply: func(p *c20P) { p.cfgMut = cm }})
	}
	for _, pm := range f.preMuts {
		pm := pm
		out = append(out, c20Mut{name: pm, slot: "pre", flag: 1, apply: func(p *c20P) { p.preMut = pm }})
	}
	return out
}

// ---- oracle ------------------------------------------------------------------------------------------

// expect: "invalid" | "valid" | "probe" (accepted by the session rules but degenerate: n=1 or an empty identifier -- judged by the outcome of the run)
func (c *ctx) c20Expect(f *c20Fn, m *c20Mat, p *c20P, flagged bool) (string, string) {
	self, t, sh, ok := "", 0, []string(nil), false
	func() {
		defer func() { recover() }()
		self, t, sh, ok = f.facts(m, p)
	}()
	model := func(op string, arg sx.V) (bool, bool) {
		rep, err := c.c20Call(op, arg, c.res.Rng.Intn(150) == 0)
		if err != nil {
			c.res.Violate("correspondence", "C20/model-error", err.Error(), c20Replay{What: "model error", Params: arg.String(), Op: op})
			return false, false
		}
		return rep.AsBool(), true
	}
	sessOK := func(ids []string, self string, t int) (bool, bool) {
		p := sessParams{Proto: "c20", IDs: c20Bytes(ids), Self: []byte(self), Thr: t}
		if ids == nil {
			p.IDs = [][]byte{}
		}
		return model("sess.ok", p.sx())
	}
	why := ""
	sessionPart := true
	if ok {
		var v, got bool
		switch f.family {
		case "keygen":
			v, got = sessOK(strsOf(p.ids), self, t)
			why = fmt.Sprintf("sess.ok(ids=%q,self=%q,t=%d)=%v", strsOf(p.ids), self, t, v)
		case "cmprefresh":
			v, got = sessOK(sh, self, t)
			why = fmt.Sprintf("sess.ok(ids=%q,self=%q,t=%d)=%v", sh, self, t, v)
		case "sign", "refresh":
			v, got = model("sess.can_sign", sx.List(sx.Int(int64(t)), sx.Str(self), sxStrs(sh), sxStrs(strsOf(p.ids))))
			why = fmt.Sprintf("sess.can_sign(t=%d,self=%q,shareholders=%q,signers=%q)=%v", t, self, sh, strsOf(p.ids), v)
		case "online":
			sg := []string{"a", "b"}
			if m.pre != nil && !strings.Contains(p.preMut, "nil") && p.preMut != "pre-zero-struct" && p.preMut != "pre-empty" {
				func() {
					defer func() { recover() }()
					sg = strsOf(c20BadPre(p.preMut, m.pre["a"], "a").SignerIDs())
				}()
			}
			v, got = model("sess.can_sign", sx.List(sx.Int(int64(t)), sx.Str(self), sxStrs(sh), sxStrs(sg)))
			why = fmt.Sprintf("sess.can_sign(t=%d,self=%q,shareholders=%q,signers=%q)=%v", t, self, sh, sg, v)
		case "doerner":
			oth := "b"
			if f.victim == "b" {
				oth = "a"
			}
			switch p.othMut {
			case "empty":
				oth = ""
			case "self":
				oth = self
			}
			v, got = sessOK([]string{self, oth}, self, 1)
			why = fmt.Sprintf("sess.ok(ids=%q,self=%q,t=1)=%v", []string{self, oth}, self, v)
		}
		if got {
			sessionPart = v
		}
	}
	if flagged || !sessionPart {
		return "invalid", why
	}
	if f.family == "keygen" {
		for _, id := range p.ids {
			if id == "" {
				return "probe", why
			}
		}
		if len(p.ids) == 1 {
			return "probe", why
		}
	}
	return "valid", why
}

// ---- starting and running ----------------------------------------------------------------------------

func c20Wrap(mk func() protocol.StartFunc) protocol.StartFunc {
	return func(sid []byte) (verifhook.RoundSession, error) { return mk()(sid) }
}

// c20TryStart: construct the handler exactly as an application would; classify as error / panic / handler / hang.
func c20TryStart(two, leader bool, st protocol.StartFunc, sid []byte, limit time.Duration) (kind, detail string) {
	type res struct{ kind, detail string }
	done := make(chan res, 1)
	go func() {
		defer func() {
			if r := recover(); r != nil {
				done <- res{"panic", fmt.Sprint(r)}
			}
		}()
		var h protocol.Handler
		var err error
		if two {
			var th *protocol.TwoPartyHandler
			th, err = protocol.NewTwoPartyHandler(st, sid, leader)
			h = th
		} else {
			var mh *protocol.MultiHandler
			mh, err = protocol.NewMultiHandler(st, sid)
			h = mh
		}
		if err != nil {
			done <- res{"error", err.Error()}
			return
		}
		d := ""
		if _, e := h.Result(); e != nil && !strings.Contains(e.Error(), "not finished") {
			d = "handler already failed: " + e.Error()
		}
		done <- res{"handler", d}
	}()
	select {
	case r := <-done:
		return r.kind, r.detail
	case <-time.After(limit):
		return "hang", fmt.Sprintf("handler construction did not return within %v", limit)
	}
}

func (c *ctx) c20Limit() time.Duration {
	if c.thorough() {
		return 60 * time.Second
	}
	return 8 * time.Second
}

func c20Short(s string) string {
	s = strings.ReplaceAll(s, "\n", " ")
	if len(s) > 160 {
		s = s[:160] + "…"
	}
	return s
}

// c20Run runs the whole session: every real party starts with the shared parameters of p (the victim with its local defects too).
// returns a readable outcome and whether somebody panicked / stalled / hung, and whether every party finished with a result
func (c *ctx) c20Run(f *c20Fn, m *c20Mat, p *c20P, seed int64) (outcome string, crashed bool, allOK bool) {
	var parties []party.ID
	seen := map[party.ID]bool{}
	add := func(id party.ID) {
		if !seen[id] {
			seen[id] = true
			parties = append(parties, id)
		}
	}
	add(f.victim)
	if f.two {
		add("a")
		add("b")
	} else {
		for _, id := range p.ids {
			real := id == "a" || id == "b" || id == "c"
			if f.family == "keygen" {
				real = true
			}
			if id == "zed" && (strings.HasPrefix(f.name, "frost.")) {
				real = true // a party holding a share of a DIFFERENT key takes part
			}
			if real {
				add(id)
			}
		}
		if f.family == "cmprefresh" {
			add("b")
			add("c")
		}
	}
	det := installDetReader(seed, 0)
	defer restoreRandReader()
	s := NewSim(parties, rand.New(rand.NewSource(seed)), det)
	s.AcceptTimeout = 90 * time.Second
	sid := []byte("c20-session")
	for _, id := range s.IDs {
		id := id
		st := c20Wrap(func() protocol.StartFunc { return f.start(m, p, id, id == f.victim) })
		if f.two {
			s.AddTwoParty(id, st, sid, f.leader(id))
		} else {
			s.AddMulti(id, st, sid)
		}
	}
	s.Seal()
	s.RunFIFO(100000)
	allOK = true
	var parts []string
	for _, id := range s.IDs {
		n := s.Nodes[id]
		name := fmt.Sprintf("%q", string(id))
		if n.H == nil {
			allOK = false
			txt := fmt.Sprint(n.StartErr)
			if strings.HasPrefix(txt, "PANIC") {
				crashed = true
			}
			parts = append(parts, name+": refused at start ("+c20Short(txt)+")")
			continue
		}
		o := n.Obs[len(n.Obs)-1]
		pan := ""
		for _, ob := range n.Obs {
			if ob.Panic != "" {
				pan = fmt.Sprintf("PANIC in round %d: %s", ob.Round, c20Short(ob.Panic))
				break
			}
		}
		switch {
		case pan != "":
			crashed, allOK = true, false
			parts = append(parts, name+": "+pan)
		case o.Hung:
			crashed, allOK = true, false
			parts = append(parts, name+": Accept did not return")
		case o.Class == 1:
			parts = append(parts, name+": finished with a result")
		case o.Class == 2:
			allOK = false
			cul := []string{}
			for _, i := range o.Culprits {
				if i < len(s.IDs) {
					cul = append(cul, string(s.IDs[i]))
				}
			}
			parts = append(parts, fmt.Sprintf("%s: aborted in round %d blaming %q (%s)", name, o.Round, cul, c20Short(o.ErrText)))
		default:
			crashed, allOK = true, false
			parts = append(parts, fmt.Sprintf("%s: STALLED in round %d (no message in flight)", name, o.Round))
		}
	}
	if allOK {
		if probs := c.c20JudgeResults(f, m, p, s); len(probs) > 0 {
			allOK = false
			if len(probs) > 3 {
				probs = append(probs[:3], fmt.Sprintf("(+%d more)", len(probs)-3))
			}
			parts = append(parts, "but the results are NOT a valid outcome (reference check): "+strings.Join(probs, ", "))
		} else {
			parts = append(parts, "results pass the reference check")
		}
	}
	return strings.Join(parts, "; "), crashed, allOK
}

// c20JudgeResults: every party finished with a result -- is it a VALID outcome? Key material is checked for consistency and
// signatures are verified by the extracted reference (keymat.go), not by the library.
func (c *ctx) c20JudgeResults(f *c20Fn, m *c20Mat, p *c20P, s *Sim) (probs []string) {
	defer func() {
		if r := recover(); r != nil {
			probs = append(probs, fmt.Sprintf("result check panicked: %v", r))
		}
	}()
	ptEq := func(a, b curve.Point) bool {
		if a == nil || b == nil {
			return false
		}
		x, e1 := a.MarshalBinary()
		y, e2 := b.MarshalBinary()
		return e1 == nil && e2 == nil && string(x) == string(y)
	}
	var views []*shareView
	var cr *doerner.ConfigReceiver
	var cs *doerner.ConfigSender
	for _, id := range s.IDs {
		r, _ := resultOf(s.Nodes[id])
		switch x := r.(type) {
		case *frost.Config, *frost.TaprootConfig, *cmp.Config:
			v, err := viewOfResult(x)
			if err != nil {
				probs = append(probs, fmt.Sprintf("%q: %v", string(id), err))
				continue
			}
			views = append(views, v)
		case *doerner.ConfigReceiver:
			cr = x
		case *doerner.ConfigSender:
			cs = x
		case *ecdsa.PreSignature:
			if err := x.Validate(); err != nil {
				probs = append(probs, fmt.Sprintf("%q: presignature: %v", string(id), err))
			}
		case nil:
			probs = append(probs, fmt.Sprintf("%q: no result", string(id)))
		default:
			var pub interface{}
			switch {
			case f.name == "frost.SignTaproot":
				pub = m.tp["a"].PublicKey
			case f.name == "frost.Sign":
				pub = m.fr["a"].PublicKey
			case strings.HasPrefix(f.name, "cmp."):
				pub = m.cm["a"].PublicPoint()
			case strings.HasPrefix(f.name, "doerner.Sign"):
				pub = m.dr.Public
			default:
				continue // example/xor: nothing to verify
			}
			if ok, why := c.verifyAnySignature(pub, r, c20MsgOf(p)); !ok {
				probs = append(probs, fmt.Sprintf("%q: signature does not verify under the group key %s", string(id), why))
			}
		}
	}
	if len(views) > 0 {
		ps, _ := c.checkSharing(views, 6)
		probs = append(probs, ps...)
		var old curve.Point
		switch f.name {
		case "frost.Refresh":
			old = m.fr["a"].PublicKey
		case "frost.RefreshTaproot":
			old, _ = curve.Secp256k1{}.LiftX(m.tp["a"].PublicKey)
		case "cmp.Refresh":
			old = m.cm["a"].PublicPoint()
		}
		if old != nil {
			for _, v := range views {
				if !ptEq(v.Pub, old) {
					probs = append(probs, fmt.Sprintf("%q: group key changed by the refresh", string(v.ID)))
				}
			}
		}
	}
	if cr != nil && cs != nil {
		probs = append(probs, c.checkDoerner(cr, cs)...)
		if strings.HasPrefix(f.name, "doerner.Refresh") && !ptEq(cr.Public, m.dr.Public) {
			probs = append(probs, "public key changed by the refresh")
		}
	}
	return probs
}

type c20Result struct {
	Fn     string
	Bad    []string
	Expect string
	Why    string
	Call   string
	Start  string
	Detail string
	Run    string
	Bad_   bool // the property fails for this case
	Benign bool // defective key material accepted, yet the session is a valid run
	Desc   string
}

// c20Eval evaluates one case: expectation from the oracle, the victim's start, and -- if a handler came back where it must not, or for probes / cheap valid variants -- the run.
func (c *ctx) c20Eval(f *c20Fn, m *c20Mat, ms []c20Mut, runValid bool, seed int64) c20Result {
	p := &c20P{ids: f.baseIDs(m)}
	flagged := false
	onlyKeyMaterial := true
	var names []string
	for _, mu := range ms {
		mu.apply(p)
		names = append(names, mu.name)
		flagged = flagged || mu.flag == 1
		if mu.flag == 1 && mu.slot != "cfg" && mu.slot != "pre" {
			onlyKeyMaterial = false
		}
	}
	r := c20Result{Fn: f.name, Bad: names}
	r.Expect, r.Why = c.c20Expect(f, m, p, flagged)
	// sessionOK: the model accepts the session part of the composed parameters (the case is invalid only because of flagged values)
	sessionOK := true
	if r.Expect == "invalid" {
		e2, _ := c.c20Expect(f, m, p, false)
		sessionOK = e2 != "invalid"
	}
	func() {
		defer func() {
			if x := recover(); x != nil {
				r.Call = f.name + "(…)"
			}
		}()
		r.Call = f.call(m, p)
	}()
	det := installDetReader(seed, 0)
	det.setParty(string(f.victim))
	st := c20Wrap(func() protocol.StartFunc { return f.start(m, p, f.victim, true) })
	r.Start, r.Detail = c20TryStart(f.two, f.two && f.leader(f.victim), st, []byte("c20-session"), c.c20Limit())
	restoreRandReader()
	r.Detail = c20Short(r.Detail)
	switch r.Expect {
	case "invalid":
		switch r.Start {
		case "error":
		case "panic", "hang":
			r.Bad_ = true
			r.Desc = fmt.Sprintf("%s at start: %s -> %s (%s)", r.Start, r.Call, r.Start, r.Detail)
		case "handler":
			run, _, allOK := c.c20Run(f, m, p, seed)
			r.Run = run
			if allOK && onlyKeyMaterial && sessionOK {
				// the defective field is evidently not needed by this protocol: every party finished and the results pass the reference check,
				// so these parameters CAN lead to a valid run and the property does not demand their refusal
				r.Benign = true
			} else {
				r.Bad_ = true
				r.Desc = fmt.Sprintf("handler returned for invalid parameters: %s -> no error%s; session with honest peers: %s", r.Call, c20Paren(r.Detail), run)
			}
		}
	case "probe":
		switch r.Start {
		case "error":
		case "panic", "hang":
			r.Bad_ = true
			r.Desc = fmt.Sprintf("%s at start: %s -> %s (%s)", r.Start, r.Call, r.Start, r.Detail)
		case "handler":
			run, _, allOK := c.c20Run(f, m, p, seed)
			r.Run = run
			if !allOK {
				r.Bad_ = true
				r.Desc = fmt.Sprintf("degenerate parameters accepted at start but the session cannot complete: %s -> no error; session: %s", r.Call, run)
			}
		}
	case "valid":
		switch r.Start {
		case "panic", "hang":
			r.Bad_ = true
			r.Desc = fmt.Sprintf("%s at start with valid parameters: %s (%s)", r.Start, r.Call, r.Detail)
		case "error":
			// not a C20 failure (the library may be stricter than the model of NewSession), but worth a note: the oracle or the harness may be wrong
			c.res.Note("C20: %s rejects parameters the oracle calls valid: %s -> %s [%s]", f.name, r.Call, r.Detail, r.Why)
		case "handler":
			if runValid {
				run, crashed, _ := c.c20Run(f, m, p, seed)
				r.Run = run
				if crashed {
					r.Bad_ = true
					r.Desc = fmt.Sprintf("valid parameters, but the session crashes or stalls: %s; session: %s", r.Call, run)
				}
			}
		}
	}
	return r
}

func c20Paren(s string) string {
	if s == "" {
		return ""
	}
	return " (" + s + ")"
}

func c20Key(fn string, bad []string) string {
	if len(bad) == 0 {
		return "C20/" + fn + "/valid-base"
	}
	return "C20/" + fn + "/" + strings.Join(bad, "+")
}

// c20Search runs the whole lattice (only == nil) or one case (replay).
func (c *ctx) c20Search(only *c20Replay) {
	m := &c20Mat{c: c, g: curve.Secp256k1{}, ids: idsOf("a", "b", "c"), fail: map[string]string{}, tMake: map[string]float64{}, seed: c.res.Seed * 1000}
	for _, f := range c20Fns() {
		if only != nil && only.Fn != f.name {
			continue
		}
		if !f.need(m) {
			c.res.Note("C20: %s skipped, no key material", f.name)
			continue
		}
		tFn := time.Now()
		muts := f.muts(m)
		byName := map[string]c20Mut{}
		for _, mu := range muts {
			byName[mu.name] = mu
		}
		report := func(r c20Result, class string) {
			c.res.Case(class+"/"+f.name, c20Key(f.name, r.Bad), len(r.Bad) > 0)
			if len(r.Bad) == 1 {
				c.res.Sample(6, map[string]interface{}{"call": r.Call, "expected": r.Expect, "oracle": r.Why, "start": r.Start, "detail": r.Detail, "run": r.Run})
			}
			if r.Benign {
				c.res.Note("C20: %s accepts defective key material that this protocol evidently does not need (%s): %s", f.name, strings.Join(r.Bad, "+"), r.Run)
			}
			if r.Bad_ {
				c.res.Violate("property", c20Key(f.name, r.Bad), r.Desc, c20Replay{What: "start with invalid parameters", Fn: f.name, Bad: r.Bad, Call: r.Call, Start: r.Start + c20Paren(r.Detail), Run: r.Run})
			}
		}
		if only != nil {
			var ms []c20Mut
			for _, b := range only.Bad {
				mu, ok := byName[b]
				if !ok {
					c.res.Note("replay: unknown bad parameter %q for %s", b, f.name)
					return
				}
				ms = append(ms, mu)
			}
			r := c.c20Eval(f, m, ms, true, m.seed+7)
			report(r, "replay")
			fmt.Printf("replay: %s\n  expected: %s [%s]\n  start: %s %s\n  run: %s\n  property fails: %v\n", r.Call, r.Expect, r.Why, r.Start, r.Detail, r.Run, r.Bad_)
			return
		}
		// valid base
		base := c.c20Eval(f, m, nil, f.cheap || c.thorough(), m.seed+1)
		report(base, "base")
		if base.Start != "handler" {
			c.res.Note("C20: valid base of %s did not start: %s %s", f.name, base.Start, base.Detail)
		}
		// singles
		failing := map[string]bool{}
		hanging := map[string]bool{}
		for i, mu := range muts {
			r := c.c20Eval(f, m, []c20Mut{mu}, f.cheap || c.thorough(), m.seed+int64(10+i))
			report(r, "single/"+r.Expect)
			if r.Bad_ || r.Benign {
				failing[mu.name] = true
			}
			if r.Start == "hang" {
				hanging[mu.name] = true
			}
			// a single bad value from the property's list must be invalid for the oracle as well (cross-check of the oracle)
			if mu.flag == 0 && r.Expect == "valid" && !c20KnownValid(mu.name) {
				c.res.Note("C20: oracle calls %s valid for %s [%s]", mu.name, f.name, r.Why)
			}
		}
		// pairs from different slots
		for i := 0; i < len(muts); i++ {
			for j := i + 1; j < len(muts); j++ {
				a, b := muts[i], muts[j]
				if a.slot == b.slot {
					continue
				}
				if (a.name == "self-empty" || b.name == "self-empty") && (a.name == "ids-with-empty-id" || b.name == "ids-with-empty-id") {
					continue // together these are not two bad values: the victim would simply BE the party with the empty identifier
				}
				if hanging[a.name] || hanging[b.name] {
					c.res.Case("pair-skipped-single-hangs/"+f.name, c20Key(f.name, []string{a.name, b.name}), true)
					continue
				}
				covered := failing[a.name] || failing[b.name]
				if covered {
					// the pair contains a bad value that already fails alone; that single value is the finding (stable key). The pair is still
					// started under recover and counted, but reports nothing new
					r := c.c20EvalStartOnly(f, m, []c20Mut{a, b}, m.seed+int64(1000+i*100+j))
					c.res.Case("pair-covered-by-single/"+f.name, c20Key(f.name, r.Bad), true)
					continue
				}
				r := c.c20Eval(f, m, []c20Mut{a, b}, false, m.seed+int64(1000+i*100+j))
				report(r, "pair/"+r.Expect)
			}
		}
		c.res.Note("C20: %s took %.1f s", f.name, time.Since(tFn).Seconds())
	}
	var tk []string
	for k := range m.tMake {
		tk = append(tk, k)
	}
	sort.Strings(tk)
	for _, k := range tk {
		c.res.Note("C20: key material %s took %.1f s", k, m.tMake[k])
	}
}

func c20KnownValid(name string) bool {
	switch name {
	case "ids-unsorted", "signers-unsorted", "signers-all", "t=0", "t=n-1", "ids-with-empty-id", "ids-n=1":
		return true
	}
	return false
}

// start only (no run, no verdict): used for pairs whose failure is already reported under one of their members
func (c *ctx) c20EvalStartOnly(f *c20Fn, m *c20Mat, ms []c20Mut, seed int64) c20Result {
	p := &c20P{ids: f.baseIDs(m)}
	var names []string
	for _, mu := range ms {
		mu.apply(p)
		names = append(names, mu.name)
	}
	r := c20Result{Fn: f.name, Bad: names}
	det := installDetReader(seed, 0)
	det.setParty(string(f.victim))
	st := c20Wrap(func() protocol.StartFunc { return f.start(m, p, f.victim, true) })
	r.Start, r.Detail = c20TryStart(f.two, f.two && f.leader(f.victim), st, []byte("c20-session"), c.c20Limit())
	restoreRandReader()
	return r
}

func (c *ctx) c20ReplayFile() {
	var rp c20Replay
	if err := readJSON(c.replay, &rp); err != nil {
		c.res.Note("cannot read replay: %v", err)
		return
	}
	if rp.Fn != "" {
		c.c20Search(&rp)
		return
	}
	// correspondence replay: re-evaluate the model op and the implementation on the stored parameters
	arg, err := sx.Parse(rp.Params)
	if err != nil {
		c.res.Note("bad replay: %v", err)
		return
	}
	rep, merr := c.m.Call(rp.Op, arg)
	fmt.Printf("replay: %s %s -> model %s (err %v)\n", rp.Op, rp.Params, rep.String(), merr)
	switch rp.Op {
	case "sess.ok":
		if len(arg.L) == 7 {
			p := sessParams{Proto: string(arg.L[1].B), Self: arg.L[4].B, Thr: int(arg.L[5].Z.Int64())}
			for _, id := range arg.L[3].L {
				p.IDs = append(p.IDs, id.B)
			}
			_, _, e := goSession(p)
			fmt.Printf("replay: NewSession -> err=%v\n", e)
			c.res.Corr(merr == nil && rep.AsBool() == (e == nil))
			c.res.Case("replay", rp.Params, true)
			if merr == nil && rep.AsBool() != (e == nil) {
				c.res.Violate("correspondence", "C20/newsession-mismatch/replay", fmt.Sprintf("model %v, NewSession err=%v", rep.AsBool(), e), rp)
			}
		}
	case "sess.can_sign":
		if len(arg.L) == 4 {
			strs := func(v sx.V) []string {
				var o []string
				for _, x := range v.L {
					o = append(o, string(x.B))
				}
				return o
			}
			impl, pan := c20CanSign(int(arg.L[0].Z.Int64()), string(arg.L[1].B), strs(arg.L[2]), strs(arg.L[3]))
			fmt.Printf("replay: CanSign -> %v %s\n", impl, pan)
			c.res.Corr(merr == nil && rep.AsBool() == impl)
			c.res.Case("replay", rp.Params, true)
			if merr == nil && rep.AsBool() != impl {
				c.res.Violate("correspondence", "C20/cansign-mismatch/replay", fmt.Sprintf("model %v, CanSign %v", rep.AsBool(), impl), rp)
			}
		}
	}
}
