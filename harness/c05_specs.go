package main

// c05_specs.go -- the sessions the C05 harness drives (protocol, parties, prerequisites), the per-process
// environment (deterministic randomness, cached prerequisite key material), and reference runs.

import (
	"bytes"
	"encoding/hex"
	"encoding/json"
	"fmt"
	"os"
	"path/filepath"
	"sort"

	"github.com/fxamacker/cbor/v2"
	"github.com/taurusgroup/multi-party-sig/pkg/ecdsa"
	"github.com/taurusgroup/multi-party-sig/pkg/math/curve"
	"github.com/taurusgroup/multi-party-sig/pkg/party"
	"github.com/taurusgroup/multi-party-sig/pkg/protocol"
	"github.com/taurusgroup/multi-party-sig/protocols/cmp"
	"github.com/taurusgroup/multi-party-sig/protocols/doerner"
	"github.com/taurusgroup/multi-party-sig/protocols/example"
	"github.com/taurusgroup/multi-party-sig/protocols/frost"
)

type c05Env struct {
	rnd  *c05Rand
	dir  string // cache directory shared by the children of one run (heavy material, deterministic content)
	tier string

	frostCfg    map[party.ID]*frost.Config
	frostTapCfg map[party.ID]*frost.TaprootConfig
	doeR        *doerner.ConfigReceiver
	doeS        *doerner.ConfigSender
	cmpCfg      map[party.ID]*cmp.Config
	cmpPre      map[party.ID]*ecdsa.PreSignature
}

var (
	c05IDs3    = []party.ID{"alice", "bob", "carl"}
	c05IDs2    = []party.ID{"alice", "bob"}
	c05DoeIDs  = []party.ID{"recv", "send"}
	c05MsgHash = bytes.Repeat([]byte{0x42}, 32)
)

// runAll runs a session with every party live, FIFO, to quiescence.
func (env *c05Env) runAll(spec *c05Spec, withProxy bool) (*c05Engine, error) {
	e, err := newC05Engine(env, spec, spec.IDs, nil, withProxy, true)
	if err != nil {
		return nil, err
	}
	e.timeout = 300e9
	e.runFIFO(100000)
	if e.bad != nil {
		return e, fmt.Errorf("%s: honest run: party %s %s: %s", spec.Name, e.bad.Party, e.bad.Kind, e.bad.Text)
	}
	return e, nil
}

func (env *c05Env) frostConfigs() (map[party.ID]*frost.Config, error) {
	if env.frostCfg != nil {
		return env.frostCfg, nil
	}
	sp := &c05Spec{Name: "pre/frost-keygen", IDs: c05IDs3, SID: []byte("c05-pre-fk"),
		mk: func(*c05Env) (map[party.ID]protocol.StartFunc, error) {
			m := map[party.ID]protocol.StartFunc{}
			for _, id := range c05IDs3 {
				m[id] = frost.Keygen(curve.Secp256k1{}, id, c05IDs3, 1)
			}
			return m, nil
		}}
	e, err := env.runAll(sp, false)
	if err != nil {
		return nil, err
	}
	out := map[party.ID]*frost.Config{}
	for _, id := range c05IDs3 {
		r, es := e.result(id)
		c, ok := r.(*frost.Config)
		if !ok {
			return nil, fmt.Errorf("frost keygen prerequisite: %s: %s", id, es)
		}
		out[id] = c
	}
	env.frostCfg = out
	return out, nil
}

func (env *c05Env) frostTaprootConfigs() (map[party.ID]*frost.TaprootConfig, error) {
	if env.frostTapCfg != nil {
		return env.frostTapCfg, nil
	}
	sp := &c05Spec{Name: "pre/frost-keygen-taproot", IDs: c05IDs3, SID: []byte("c05-pre-fkt"),
		mk: func(*c05Env) (map[party.ID]protocol.StartFunc, error) {
			m := map[party.ID]protocol.StartFunc{}
			for _, id := range c05IDs3 {
				m[id] = frost.KeygenTaproot(id, c05IDs3, 1)
			}
			return m, nil
		}}
	e, err := env.runAll(sp, false)
	if err != nil {
		return nil, err
	}
	out := map[party.ID]*frost.TaprootConfig{}
	for _, id := range c05IDs3 {
		r, es := e.result(id)
		c, ok := r.(*frost.TaprootConfig)
		if !ok {
			return nil, fmt.Errorf("frost taproot keygen prerequisite: %s: %s", id, es)
		}
		out[id] = c
	}
	env.frostTapCfg = out
	return out, nil
}

func c05DoernerKeygenSpec(name string) *c05Spec {
	g := curve.Secp256k1{}
	return &c05Spec{Name: name, IDs: c05DoeIDs, SID: []byte("c05-doe-kg"), TwoParty: true,
		Leader: map[party.ID]bool{"recv": true, "send": false},
		mk: func(*c05Env) (map[party.ID]protocol.StartFunc, error) {
			return map[party.ID]protocol.StartFunc{
				"recv": doerner.Keygen(g, true, "recv", "send", nil),
				"send": doerner.Keygen(g, false, "send", "recv", nil),
			}, nil
		}}
}

func (env *c05Env) doernerConfigs() (*doerner.ConfigReceiver, *doerner.ConfigSender, error) {
	if env.doeR != nil {
		return env.doeR, env.doeS, nil
	}
	e, err := env.runAll(c05DoernerKeygenSpec("pre/doerner-keygen"), false)
	if err != nil {
		return nil, nil, err
	}
	rr, e1 := e.result("recv")
	rs, e2 := e.result("send")
	cr, ok1 := rr.(*doerner.ConfigReceiver)
	cs, ok2 := rs.(*doerner.ConfigSender)
	if !ok1 || !ok2 {
		return nil, nil, fmt.Errorf("doerner keygen prerequisite: %s / %s", e1, e2)
	}
	env.doeR, env.doeS = cr, cs
	return cr, cs, nil
}

func c05CMPKeygenSpec(name string, ids []party.ID) *c05Spec {
	return &c05Spec{Name: name, IDs: ids, SID: []byte("c05-cmp-kg"), Heavy: true,
		mk: func(*c05Env) (map[party.ID]protocol.StartFunc, error) {
			m := map[party.ID]protocol.StartFunc{}
			for _, id := range ids {
				m[id] = cmp.Keygen(curve.Secp256k1{}, id, ids, len(ids)-1, nil)
			}
			return m, nil
		}}
}

func c05AtomicWrite(path string, data []byte) error {
	tmp := fmt.Sprintf("%s.tmp%d", path, os.Getpid())
	if err := os.WriteFile(tmp, data, 0o644); err != nil {
		return err
	}
	return os.Rename(tmp, path)
}

// cmpConfigs: CMP key material for alice,bob (t=1): loaded from the run's cache directory; produced (deterministically) by the
// reference run of the cmp-keygen session if absent.
func (env *c05Env) cmpConfigs() (map[party.ID]*cmp.Config, error) {
	if env.cmpCfg != nil {
		return env.cmpCfg, nil
	}
	load := func() (map[party.ID]*cmp.Config, bool) {
		out := map[party.ID]*cmp.Config{}
		for _, id := range c05IDs2 {
			b, err := os.ReadFile(filepath.Join(env.dir, "cmpcfg-"+string(id)+".bin"))
			if err != nil {
				return nil, false
			}
			c := cmp.EmptyConfig(curve.Secp256k1{})
			if err := c.UnmarshalBinary(b); err != nil {
				return nil, false
			}
			out[id] = c
		}
		return out, true
	}
	if out, ok := load(); ok {
		env.cmpCfg = out
		return out, nil
	}
	os.Remove(filepath.Join(env.dir, "ref-cmp-keygen.json"))
	if _, err := env.reference(c05CMPKeygenSpec("cmp-keygen", c05IDs2)); err != nil {
		return nil, err
	}
	if out, ok := load(); ok {
		env.cmpCfg = out
		return out, nil
	}
	return nil, fmt.Errorf("cmp keygen prerequisite: configs were not produced")
}

func c05CMPPresignSpec(name string) *c05Spec {
	return &c05Spec{Name: name, IDs: c05IDs2, SID: []byte("c05-cmp-ps"), Heavy: true,
		mk: func(env *c05Env) (map[party.ID]protocol.StartFunc, error) {
			cfgs, err := env.cmpConfigs()
			if err != nil {
				return nil, err
			}
			m := map[party.ID]protocol.StartFunc{}
			for _, id := range c05IDs2 {
				m[id] = cmp.Presign(cfgs[id], c05IDs2, nil)
			}
			return m, nil
		}}
}

func (env *c05Env) cmpPresigs() (map[party.ID]*ecdsa.PreSignature, error) {
	if env.cmpPre != nil {
		return env.cmpPre, nil
	}
	load := func() (map[party.ID]*ecdsa.PreSignature, bool) {
		out := map[party.ID]*ecdsa.PreSignature{}
		for _, id := range c05IDs2 {
			b, err := os.ReadFile(filepath.Join(env.dir, "cmppre-"+string(id)+".bin"))
			if err != nil {
				return nil, false
			}
			p := ecdsa.EmptyPreSignature(curve.Secp256k1{})
			if err := cbor.Unmarshal(b, p); err != nil {
				return nil, false
			}
			out[id] = p
		}
		return out, true
	}
	if out, ok := load(); ok {
		env.cmpPre = out
		return out, nil
	}
	os.Remove(filepath.Join(env.dir, "ref-cmp-presign.json"))
	if _, err := env.reference(c05CMPPresignSpec("cmp-presign")); err != nil {
		return nil, err
	}
	if out, ok := load(); ok {
		env.cmpPre = out
		return out, nil
	}
	return nil, fmt.Errorf("cmp presign prerequisite: presignatures were not produced")
}

// c05SpecNames: the protocols of a tier, cheap ones first.
func c05SpecNames(tier string) []string {
	names := []string{"xor", "frost-keygen", "frost-keygen-taproot", "frost-sign", "frost-sign-taproot",
		"doerner-keygen", "doerner-sign", "cmp-keygen", "cmp-sign", "cmp-presign"}
	if tier == "thorough" {
		names = append(names, "frost-refresh", "doerner-refresh", "cmp-refresh", "cmp-presign-online")
	}
	return names
}

// c05Victims: (victim, senders) pairs examined for a protocol.
func c05Victims(name, tier string) [][2]string {
	switch name {
	case "doerner-keygen", "doerner-sign", "doerner-refresh":
		return [][2]string{{"recv", "send"}, {"send", "recv"}}
	case "cmp-keygen", "cmp-sign", "cmp-presign", "cmp-refresh", "cmp-presign-online":
		if tier == "thorough" {
			return [][2]string{{"bob", "alice"}, {"alice", "bob"}}
		}
		return [][2]string{{"bob", "alice"}}
	case "frost-sign", "frost-sign-taproot":
		if tier == "thorough" {
			return [][2]string{{"carl", "alice"}, {"alice", "carl"}}
		}
		return [][2]string{{"carl", "alice"}}
	}
	if tier == "thorough" {
		return [][2]string{{"bob", "alice"}, {"bob", "carl"}, {"alice", "bob"}}
	}
	return [][2]string{{"bob", "alice"}}
}

func c05MkSpec(name string) (*c05Spec, error) {
	g := curve.Secp256k1{}
	signers := []party.ID{"alice", "carl"}
	switch name {
	case "xor":
		return &c05Spec{Name: name, IDs: c05IDs3, SID: []byte("c05-xor"),
			mk: func(*c05Env) (map[party.ID]protocol.StartFunc, error) {
				m := map[party.ID]protocol.StartFunc{}
				for _, id := range c05IDs3 {
					m[id] = example.StartXOR(id, party.NewIDSlice(c05IDs3))
				}
				return m, nil
			}}, nil
	case "frost-keygen", "frost-keygen-taproot":
		tap := name == "frost-keygen-taproot"
		return &c05Spec{Name: name, IDs: c05IDs3, SID: []byte("c05-fk"),
			mk: func(*c05Env) (map[party.ID]protocol.StartFunc, error) {
				m := map[party.ID]protocol.StartFunc{}
				for _, id := range c05IDs3 {
					if tap {
						m[id] = frost.KeygenTaproot(id, c05IDs3, 1)
					} else {
						m[id] = frost.Keygen(g, id, c05IDs3, 1)
					}
				}
				return m, nil
			}}, nil
	case "frost-refresh":
		return &c05Spec{Name: name, IDs: c05IDs3, SID: []byte("c05-fr"),
			mk: func(env *c05Env) (map[party.ID]protocol.StartFunc, error) {
				cfgs, err := env.frostConfigs()
				if err != nil {
					return nil, err
				}
				m := map[party.ID]protocol.StartFunc{}
				for _, id := range c05IDs3 {
					m[id] = frost.Refresh(cfgs[id], c05IDs3)
				}
				return m, nil
			}}, nil
	case "frost-sign":
		return &c05Spec{Name: name, IDs: signers, SID: []byte("c05-fs"),
			mk: func(env *c05Env) (map[party.ID]protocol.StartFunc, error) {
				cfgs, err := env.frostConfigs()
				if err != nil {
					return nil, err
				}
				m := map[party.ID]protocol.StartFunc{}
				for _, id := range signers {
					m[id] = frost.Sign(cfgs[id], signers, c05MsgHash)
				}
				return m, nil
			}}, nil
	case "frost-sign-taproot":
		return &c05Spec{Name: name, IDs: signers, SID: []byte("c05-fst"),
			mk: func(env *c05Env) (map[party.ID]protocol.StartFunc, error) {
				cfgs, err := env.frostTaprootConfigs()
				if err != nil {
					return nil, err
				}
				m := map[party.ID]protocol.StartFunc{}
				for _, id := range signers {
					m[id] = frost.SignTaproot(cfgs[id], signers, c05MsgHash)
				}
				return m, nil
			}}, nil
	case "doerner-keygen":
		return c05DoernerKeygenSpec(name), nil
	case "doerner-refresh":
		return &c05Spec{Name: name, IDs: c05DoeIDs, SID: []byte("c05-doe-rf"), TwoParty: true,
			Leader: map[party.ID]bool{"recv": true, "send": false},
			mk: func(env *c05Env) (map[party.ID]protocol.StartFunc, error) {
				cr, cs, err := env.doernerConfigs()
				if err != nil {
					return nil, err
				}
				return map[party.ID]protocol.StartFunc{
					"recv": doerner.RefreshReceiver(cr, "recv", "send", nil),
					"send": doerner.RefreshSender(cs, "send", "recv", nil),
				}, nil
			}}, nil
	case "doerner-sign":
		return &c05Spec{Name: name, IDs: c05DoeIDs, SID: []byte("c05-doe-sg"), TwoParty: true,
			Leader: map[party.ID]bool{"recv": true, "send": true},
			mk: func(env *c05Env) (map[party.ID]protocol.StartFunc, error) {
				cr, cs, err := env.doernerConfigs()
				if err != nil {
					return nil, err
				}
				return map[party.ID]protocol.StartFunc{
					"recv": doerner.SignReceiver(cr, "recv", "send", c05MsgHash, nil),
					"send": doerner.SignSender(cs, "send", "recv", c05MsgHash, nil),
				}, nil
			}}, nil
	case "cmp-keygen":
		return c05CMPKeygenSpec(name, c05IDs2), nil
	case "cmp-refresh":
		return &c05Spec{Name: name, IDs: c05IDs2, SID: []byte("c05-cmp-rf"), Heavy: true,
			mk: func(env *c05Env) (map[party.ID]protocol.StartFunc, error) {
				cfgs, err := env.cmpConfigs()
				if err != nil {
					return nil, err
				}
				m := map[party.ID]protocol.StartFunc{}
				for _, id := range c05IDs2 {
					m[id] = cmp.Refresh(cfgs[id], nil)
				}
				return m, nil
			}}, nil
	case "cmp-sign":
		return &c05Spec{Name: name, IDs: c05IDs2, SID: []byte("c05-cmp-sg"), Heavy: true,
			mk: func(env *c05Env) (map[party.ID]protocol.StartFunc, error) {
				cfgs, err := env.cmpConfigs()
				if err != nil {
					return nil, err
				}
				m := map[party.ID]protocol.StartFunc{}
				for _, id := range c05IDs2 {
					m[id] = cmp.Sign(cfgs[id], c05IDs2, c05MsgHash, nil)
				}
				return m, nil
			}}, nil
	case "cmp-presign":
		return c05CMPPresignSpec(name), nil
	case "cmp-presign-online":
		return &c05Spec{Name: name, IDs: c05IDs2, SID: []byte("c05-cmp-po"), Heavy: true,
			mk: func(env *c05Env) (map[party.ID]protocol.StartFunc, error) {
				cfgs, err := env.cmpConfigs()
				if err != nil {
					return nil, err
				}
				pre, err := env.cmpPresigs()
				if err != nil {
					return nil, err
				}
				m := map[party.ID]protocol.StartFunc{}
				for _, id := range c05IDs2 {
					m[id] = cmp.PresignOnline(cfgs[id], pre[id], c05MsgHash, nil)
				}
				return m, nil
			}}, nil
	}
	return nil, fmt.Errorf("unknown C05 session %q", name)
}

// ---------------------------------------------------------------------------------------------
// reference run of a session

type c05Ref struct {
	Spec   string
	Order  []string
	Envs   map[string]*c05Envl
	Types  map[string]string // "<party>/r<k>/bc|p2p" -> content type of the round that consumes it
	Shape  c05Shape
	Done   map[string]string // party -> "ok" or error text
	Rounds map[string]int    // delivery key -> recipient's round before the delivery
}

type c05RefFile struct {
	Spec   string
	Order  []string
	Keys   []string
	Msgs   []string // hex of protocol.Message.MarshalBinary, parallel to Keys
	Types  map[string]string
	Final  int
	Bcast  map[string]bool
	P2P    map[string]int
	Done   map[string]string
	Rounds map[string]int
}

func (r *c05Ref) save(path string) error {
	f := c05RefFile{Spec: r.Spec, Order: r.Order, Types: r.Types, Final: r.Shape.Final, Bcast: map[string]bool{}, P2P: map[string]int{}, Done: r.Done, Rounds: r.Rounds}
	for k, v := range r.Shape.Bcast {
		f.Bcast[fmt.Sprint(k)] = v
	}
	for k, v := range r.Shape.P2P {
		f.P2P[fmt.Sprint(k)] = v
	}
	keys := make([]string, 0, len(r.Envs))
	for k := range r.Envs {
		keys = append(keys, k)
	}
	sort.Strings(keys)
	for _, k := range keys {
		b, err := r.Envs[k].Msg.MarshalBinary()
		if err != nil {
			return err
		}
		f.Keys = append(f.Keys, k)
		f.Msgs = append(f.Msgs, hex.EncodeToString(b))
	}
	b, err := json.Marshal(f)
	if err != nil {
		return err
	}
	return c05AtomicWrite(path, b)
}

func c05LoadRef(path string) (*c05Ref, error) {
	b, err := os.ReadFile(path)
	if err != nil {
		return nil, err
	}
	var f c05RefFile
	if err := json.Unmarshal(b, &f); err != nil {
		return nil, err
	}
	r := &c05Ref{Spec: f.Spec, Order: f.Order, Envs: map[string]*c05Envl{}, Types: f.Types, Done: f.Done, Rounds: f.Rounds,
		Shape: c05Shape{Final: f.Final, Bcast: map[int]bool{}, P2P: map[int]int{}}}
	for k, v := range f.Bcast {
		var i int
		fmt.Sscan(k, &i)
		r.Shape.Bcast[i] = v
	}
	for k, v := range f.P2P {
		var i int
		fmt.Sscan(k, &i)
		r.Shape.P2P[i] = v
	}
	for i, k := range f.Keys {
		raw, err := hex.DecodeString(f.Msgs[i])
		if err != nil {
			return nil, err
		}
		m := &protocol.Message{}
		if err := c05UnmarshalMessage(m, raw); err != nil {
			return nil, err
		}
		r.Envs[k] = &c05Envl{Key: k, From: c05KeyFrom(k), To: c05KeyTo(k), Msg: m}
	}
	return r, nil
}

// reference runs the honest session (all parties live, FIFO) and records everything needed to re-create any state.
func (env *c05Env) reference(spec *c05Spec) (*c05Ref, error) {
	path := ""
	if spec.Heavy && env.dir != "" {
		path = filepath.Join(env.dir, "ref-"+spec.Name+".json")
		if r, err := c05LoadRef(path); err == nil {
			return r, nil
		}
	}
	e, err := newC05Engine(env, spec, spec.IDs, nil, true, true)
	if err != nil {
		return nil, err
	}
	e.timeout = 300e9
	ref := &c05Ref{Spec: spec.Name, Envs: map[string]*c05Envl{}, Types: map[string]string{}, Done: map[string]string{}, Rounds: map[string]int{}}
	for k := 0; len(e.pool) > 0 && k < 100000; k++ {
		x := e.pool[0]
		e.pool = e.pool[1:]
		p := e.live[x.To]
		if p == nil || e.partyDead(p) {
			continue
		}
		ref.Rounds[x.Key] = p.lastO.Round
		ref.Order = append(ref.Order, x.Key)
		e.accept(p, x.Msg, true, x.Key)
	}
	if e.bad != nil {
		return nil, fmt.Errorf("%s: honest reference run: party %s %s at %s: %s [%s]", spec.Name, e.bad.Party, e.bad.Kind, e.bad.AtKey, e.bad.Text, e.bad.Site)
	}
	for k, x := range e.All {
		ref.Envs[k] = x
	}
	ref.Shape = e.learnShape()
	for _, id := range spec.IDs {
		_, es := e.result(id)
		if es == "" {
			es = "ok"
		}
		ref.Done[string(id)] = es
		if p := e.live[id]; p != nil && p.rec != nil {
			for k, v := range p.rec.types {
				ref.Types[string(id)+"/"+k] = v
			}
		}
	}
	for id, s := range ref.Done {
		if s != "ok" {
			return nil, fmt.Errorf("%s: honest reference run did not complete for %s: %s", spec.Name, id, s)
		}
	}
	// results that later sessions need as key material
	if env.dir != "" {
		for _, id := range spec.IDs {
			r, _ := e.result(id)
			switch v := r.(type) {
			case *cmp.Config:
				if spec.Name == "cmp-keygen" {
					if b, err := v.MarshalBinary(); err == nil {
						c05AtomicWrite(filepath.Join(env.dir, "cmpcfg-"+string(id)+".bin"), b)
					}
				}
			case *ecdsa.PreSignature:
				if spec.Name == "cmp-presign" {
					if b, err := cbor.Marshal(v); err == nil {
						c05AtomicWrite(filepath.Join(env.dir, "cmppre-"+string(id)+".bin"), b)
					}
				}
			}
		}
	}
	if path != "" {
		ref.save(path)
	}
	return ref, nil
}

// c05UnmarshalMessage decodes a wire message and (unlike Message.UnmarshalBinary at the pinned commit) reports failures.
func c05UnmarshalMessage(m *protocol.Message, raw []byte) error {
	if err := m.UnmarshalBinary(raw); err != nil {
		return err
	}
	if m.Protocol == "" && m.From == "" && m.SSID == nil {
		return fmt.Errorf("message did not decode")
	}
	return nil
}
