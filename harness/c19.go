package main

// C19 -- transcript hashing is injective, commitments are binding.
// Correspondence: model stream (coq/Model/Framing.v) hashed with BLAKE3 == hash.Sum() for generated typed-value
// sequences; Commit/Decommit agreement. Search: adversarially related sequence pairs must have distinct digests.

import (
	"bytes"
	"encoding/hex"
	"fmt"
	"io"
	"math/big"
	"math/rand"

	"github.com/cronokirby/saferith"
	dcr "github.com/decred/dcrd/dcrec/secp256k1/v4"
	"github.com/zeebo/blake3"

	"github.com/taurusgroup/multi-party-sig/pkg/hash"
	"github.com/taurusgroup/multi-party-sig/pkg/math/arith"
	"github.com/taurusgroup/multi-party-sig/pkg/math/curve"
	"github.com/taurusgroup/multi-party-sig/pkg/paillier"
	"github.com/taurusgroup/multi-party-sig/pkg/party"
	"github.com/taurusgroup/multi-party-sig/pkg/pedersen"
	"github.com/taurusgroup/multi-party-sig/pkg/verifhook"

	"verifharness/sx"
)

func init() { props["C19"] = runC19 }

func blake64(b []byte) []byte {
	h := blake3.New()
	h.Write(b)
	out := make([]byte, 64)
	io.ReadFull(h.Digest(), out)
	return out
}

var secpQ, _ = new(big.Int).SetString("fffffffffffffffffffffffffffffffebaaedce6af48a03bbfd25e8cd0364141", 16)
var secpP, _ = new(big.Int).SetString("fffffffffffffffffffffffffffffffffffffffffffffffffffffffefffffc2f", 16)

func randBig(r *rand.Rand, bits int) *big.Int {
	if bits <= 0 {
		return new(big.Int)
	}
	b := make([]byte, (bits+7)/8)
	r.Read(b)
	z := new(big.Int).SetBytes(b)
	return z.Rsh(z, uint(len(b)*8-bits))
}

func randBytes(r *rand.Rand, n int) []byte {
	b := make([]byte, n)
	r.Read(b)
	return b
}

// interesting byte strings: contain framing characters and length-like prefixes
func advBytes(r *rand.Rand) []byte {
	switch r.Intn(8) {
	case 0:
		return []byte{}
	case 1:
		return []byte("(")
	case 2:
		return []byte(")(")
	case 3:
		return append([]byte{0, 0, 0, 0, 0, 0, 0, byte(r.Intn(4))}, randBytes(r, r.Intn(4))...)
	case 4:
		return []byte("[]byte")
	case 5:
		return randBytes(r, 1+r.Intn(3))
	default:
		return randBytes(r, r.Intn(40))
	}
}

func optB(b []byte) sx.V { return sx.OptBytes(b) }

// genHval returns the model description (sx) of a random typed value of the given kind.
func genHval(r *rand.Rand, kind int) sx.V {
	k := sx.Int(int64(kind))
	switch kind {
	case 0, 9, 10, 11, 14:
		if r.Intn(12) == 0 {
			return sx.List(k, sx.List())
		}
		return sx.List(k, sx.List(sx.Bytes(advBytes(r))))
	case 1:
		z := randBig(r, []int{0, 1, 7, 8, 9, 64, 255, 256, 257, 600}[r.Intn(10)])
		if r.Intn(2) == 0 {
			z.Neg(z)
		}
		return sx.List(k, sx.Big(z))
	case 2:
		bl := []int{0, 1, 2, 32, 33, 256}[r.Intn(6)]
		return sx.List(k, sx.Int(int64(bl)), sx.Big(randBig(r, r.Intn(bl*8+1))))
	case 3:
		bl := []int{0, 1, 2, 32, 33, 256}[r.Intn(6)]
		z := randBig(r, r.Intn(bl*8+1))
		if r.Intn(2) == 0 {
			z.Neg(z)
		}
		return sx.List(k, sx.Int(int64(bl)), sx.Big(z))
	case 4, 17:
		n := randBig(r, []int{1, 8, 9, 64, 255, 256, 2048}[r.Intn(7)])
		if n.Sign() == 0 {
			n.SetInt64(1)
		}
		return sx.List(k, sx.Big(n))
	case 5:
		s := randBig(r, []int{0, 1, 8, 255, 256}[r.Intn(5)])
		s.Mod(s, secpQ)
		return sx.List(k, sx.Big(s))
	case 6:
		var sc dcr.ModNScalar
		sc.SetByteSlice(randBytes(r, 32))
		if sc.IsZero() {
			sc.SetInt(1)
		}
		var pt dcr.JacobianPoint
		dcr.ScalarBaseMultNonConst(&sc, &pt)
		pt.ToAffine()
		x := new(big.Int).SetBytes(pt.X.Bytes()[:])
		return sx.List(k, sx.Big(x), sx.Bool(pt.Y.IsOdd()))
	case 7:
		b := advBytes(r)
		if r.Intn(10) != 0 && len(b) == 0 {
			b = []byte("a")
		}
		return sx.List(k, sx.Bytes(b))
	case 8:
		if r.Intn(12) == 0 {
			return sx.List(k, sx.List())
		}
		n := r.Intn(5)
		ids := make([]sx.V, n)
		for i := range ids {
			ids[i] = sx.Bytes(advBytes(r))
		}
		return sx.List(k, sx.List(sx.List(ids...)))
	case 12:
		return sx.List(k, sx.Big(randBig(r, []int{0, 1, 8, 31, 32}[r.Intn(5)])))
	case 13:
		return sx.List(k, sx.Big(randBig(r, []int{0, 1, 8, 16}[r.Intn(4)])))
	case 15:
		if r.Intn(12) == 0 {
			return sx.List(k, sx.Bytes(advBytes(r)), sx.List())
		}
		return sx.List(k, sx.Bytes(advBytes(r)), sx.List(sx.Bytes(advBytes(r))))
	case 16:
		return sx.List(k, sx.Big(randBig(r, []int{0, 1, 2048, 4095, 4096}[r.Intn(5)])))
	case 18:
		if r.Intn(2) == 0 {
			return sx.List(k, sx.Big(randBig(r, 2048)), sx.Big(randBig(r, 2047)), sx.Big(randBig(r, r.Intn(2049))))
		}
		// S with a zero low byte and short announced lengths: the shape in which a byte can move between S and T
		x := randBig(r, 8+r.Intn(2000))
		sv := new(big.Int).Lsh(x, 8)
		tv := randBig(r, r.Intn(2041))
		d := sx.List(k, sx.Big(randBig(r, 2048)), sx.Big(sv), sx.Big(tv))
		c19Hints[d.String()] = [2]int{minBytes(sv), minBytes(tv) + r.Intn(2)}
		return d
	}
	return genHvalX(r, kind)
}

const nKinds = nKindsX

// c19Hints: announced byte lengths of the S and T Nats of a Pedersen value (kind 18), keyed by the printed description.
// The announced length is an implementation detail of saferith (what a peer's CBOR encoding chose); the typed value is
// (N, S, T) and its stream must not depend on it.  Carried in replay files.
var c19Hints = map[string][2]int{}

func hintsFor(seqs ...[]sx.V) map[string][2]int {
	out := map[string][2]int{}
	for _, s := range seqs {
		for _, v := range s {
			if h, ok := c19Hints[v.String()]; ok {
				out[v.String()] = h
			}
		}
	}
	if len(out) == 0 {
		return nil
	}
	return out
}

func minBytes(z *big.Int) int { return (z.BitLen() + 7) / 8 }

func natOf(z *big.Int, bits int) *saferith.Nat { return new(saferith.Nat).SetBig(z, bits) }

func optBytesOf(v sx.V) []byte {
	if len(v.L) == 0 {
		return nil
	}
	b := v.L[0].B
	if b == nil {
		b = []byte{}
	}
	return b
}

// goValue builds the Go object that a model hval description denotes.
func goValue(v sx.V) interface{} {
	kind := v.L[0].AsInt()
	a := v.L[1:]
	switch kind {
	case 0:
		return optBytesOf(a[0])
	case 1:
		return new(big.Int).Set(a[0].Z)
	case 2:
		return natOf(a[1].Z, a[0].AsInt()*8)
	case 3:
		return new(saferith.Int).SetBig(a[1].Z, a[0].AsInt()*8)
	case 4:
		return saferith.ModulusFromNat(natOf(a[0].Z, a[0].Z.BitLen()))
	case 5:
		return curve.Secp256k1{}.NewScalar().SetNat(natOf(a[0].Z, 256))
	case 6:
		b := make([]byte, 33)
		b[0] = 2
		if a[1].AsBool() {
			b[0] = 3
		}
		a[0].Z.FillBytes(b[1:])
		p := curve.Secp256k1{}.NewPoint()
		if err := p.UnmarshalBinary(b); err != nil {
			panic(err)
		}
		return p
	case 7:
		return party.ID(a[0].B)
	case 8:
		if len(a[0].L) == 0 {
			return party.IDSlice(nil)
		}
		ids := party.IDSlice{}
		for _, x := range a[0].L[0].L {
			ids = append(ids, party.ID(x.B))
		}
		return ids
	case 9:
		return verifhook.RID(optBytesOf(a[0]))
	case 10:
		return hash.Commitment(optBytesOf(a[0]))
	case 11:
		return hash.Decommitment(optBytesOf(a[0]))
	case 12:
		return verifhook.ThresholdWrapper(uint32(a[0].Z.Uint64()))
	case 13:
		return verifhook.RoundNumber(uint16(a[0].Z.Uint64()))
	case 14:
		return verifhook.SigningMessage(optBytesOf(a[0]))
	case 15:
		return &hash.BytesWithDomain{TheDomain: string(a[0].B), Bytes: optBytesOf(a[1])}
	case 16:
		ct := new(paillier.Ciphertext)
		buf := make([]byte, 512)
		a[0].Z.FillBytes(buf)
		if err := ct.UnmarshalBinary(buf); err != nil {
			panic(err)
		}
		return ct
	case 17:
		return paillier.NewPublicKey(saferith.ModulusFromNat(natOf(a[0].Z, a[0].Z.BitLen())))
	case 18:
		n := a[0].Z
		if n.Sign() == 0 {
			n = big.NewInt(1)
		}
		sb, tb := 2048, 2048
		if h, ok := c19Hints[v.String()]; ok && h[0] >= minBytes(a[1].Z) && h[1] >= minBytes(a[2].Z) {
			sb, tb = 8*h[0], 8*h[1]
		}
		return pedersen.New(arith.ModulusFromN(saferith.ModulusFromNat(natOf(n, n.BitLen()))), natOf(a[1].Z, sb), natOf(a[2].Z, tb))
	}
	return goValueX(v)
}

func goDigest(vals []sx.V) (digest []byte, ok bool) {
	h := hash.New()
	ok = true
	for _, v := range vals {
		if err := h.WriteAny(goValue(v)); err != nil {
			ok = false
			break
		}
	}
	return h.Sum(), ok
}

func seqString(vals []sx.V) string { return sx.List(vals...).String() }

// byte-like kinds: retagging keeps the bytes and changes the type
var byteKinds = []int{0, 9, 10, 11, 14}

// relatedPairs derives adversarially related sequences from l (shapes named in the property).
func relatedPairs(r *rand.Rand, l []sx.V) (out [][]sx.V, shapes []string) {
	cp := func() []sx.V { return append([]sx.V{}, l...) }
	bytesOf := func(v sx.V) ([]byte, bool) {
		k := v.L[0].AsInt()
		switch k {
		case 0, 9, 10, 11, 14:
			if len(v.L[1].L) == 1 {
				return v.L[1].L[0].B, true
			}
		case 7:
			return v.L[1].B, true
		}
		return nil, false
	}
	mk := func(kind int, b []byte) sx.V {
		if kind == 7 {
			return sx.List(sx.Int(7), sx.Bytes(b))
		}
		return sx.List(sx.Int(int64(kind)), sx.List(sx.Bytes(b)))
	}
	for i := range l {
		ki := l[i].L[0].AsInt()
		if ki == 18 {
			// a byte moves from the end of S to the front of T (only the announced lengths make that possible)
			sv, tv := l[i].L[2].Z, l[i].L[3].Z
			if h, ok := c19Hints[l[i].String()]; ok && sv.BitLen() > 8 && new(big.Int).And(sv, big.NewInt(255)).Sign() == 0 && h[1] < 256 {
				d := sx.List(l[i].L[0], l[i].L[1], sx.Big(new(big.Int).Rsh(sv, 8)), l[i].L[3])
				c19Hints[d.String()] = [2]int{h[0] - 1, h[1] + 1}
				_ = tv
				c := cp()
				c[i] = d
				out, shapes = append(out, c), append(shapes, "field-byte-shift")
			}
		}
		if b, ok := bytesOf(l[i]); ok {
			// retag
			for _, k2 := range append(byteKinds, 7) {
				if k2 != ki && !(k2 == 7 && len(b) == 0) {
					c := cp()
					c[i] = mk(k2, b)
					out, shapes = append(out, c), append(shapes, "retag")
				}
			}
			// same bytes under an explicit domain equal to the implicit one's neighbour
			c := cp()
			c[i] = sx.List(sx.Int(15), sx.Bytes([]byte("[]byt")), sx.List(sx.Bytes(append([]byte("e"), b...))))
			out, shapes = append(out, c), append(shapes, "tag-data-move")
			// split
			if len(b) >= 2 && ki != 7 {
				c := cp()
				c[i] = mk(ki, b[:1])
				c = append(c[:i+1], append([]sx.V{mk(ki, b[1:])}, c[i+1:]...)...)
				out, shapes = append(out, c), append(shapes, "split")
			}
			// shift boundary with the next byte-like item
			if i+1 < len(l) {
				if b2, ok2 := bytesOf(l[i+1]); ok2 && len(b) >= 1 {
					c := cp()
					c[i] = mk(ki, b[:len(b)-1])
					c[i+1] = mk(l[i+1].L[0].AsInt(), append([]byte{b[len(b)-1]}, b2...))
					if !(ki == 7 && len(b) == 1) {
						out, shapes = append(out, c), append(shapes, "shift-boundary")
					}
				}
			}
		}
		if ki == 15 && len(l[i].L[2].L) == 1 {
			d, b := l[i].L[1].B, l[i].L[2].L[0].B
			if len(b) > 0 {
				c := cp()
				c[i] = sx.List(sx.Int(15), sx.Bytes(append(append([]byte{}, d...), b[0])), sx.List(sx.Bytes(b[1:])))
				out, shapes = append(out, c), append(shapes, "tag-data-move")
			}
			// a nested writer whose payload imitates a complete frame sequence
			c := cp()
			c[i] = sx.List(sx.Int(15), sx.Bytes(d), sx.List(sx.Bytes(append(append([]byte{}, b...), ')', '('))))
			out, shapes = append(out, c), append(shapes, "embedded-frame")
		}
		if ki == 8 && len(l[i].L[1].L) == 1 {
			ids := l[i].L[1].L[0].L
			// regroup the identifiers' bytes: move one byte from id j to id j+1
			for j := 0; j+1 < len(ids); j++ {
				if len(ids[j].B) >= 1 {
					n := append([]sx.V{}, ids...)
					bj := ids[j].B
					n[j] = sx.Bytes(bj[:len(bj)-1])
					n[j+1] = sx.Bytes(append([]byte{bj[len(bj)-1]}, ids[j+1].B...))
					c := cp()
					c[i] = sx.List(sx.Int(8), sx.List(sx.List(n...)))
					out, shapes = append(out, c), append(shapes, "idslice-regroup")
				}
			}
		}
		if ki == 2 || ki == 4 || ki == 17 {
			// equal magnitude bytes under another numeric type
			var n *big.Int
			if ki == 2 {
				n = l[i].L[2].Z
			} else {
				n = l[i].L[1].Z
			}
			if n.Sign() > 0 {
				for _, k2 := range []int{4, 17} {
					if k2 != ki {
						c := cp()
						c[i] = sx.List(sx.Int(int64(k2)), sx.Big(n))
						out, shapes = append(out, c), append(shapes, "retag")
					}
				}
			}
		}
	}
	// same type, different value: change the last byte / the low bits of one item
	for i := range l {
		if p := perturbValue(l[i]); p != nil {
			c := cp()
			c[i] = *p
			out, shapes = append(out, c), append(shapes, "perturb-value")
		}
	}
	// same type, different value: only high-order bytes of a fixed-width field change (c19_highbytes.go); three per item
	for i := range l {
		vs := c19hbVariants(l[i], false)
		for t := 0; t < 3 && len(vs) > 0; t++ {
			j := descHash(l[i].String(), fmt.Sprint("hb", t)) % len(vs)
			c := cp()
			c[i] = vs[j].v
			out, shapes = append(out, c), append(shapes, c19hbShape(l[i].L[0].AsInt()))
			vs = append(vs[:j:j], vs[j+1:]...)
		}
	}
	if len(l) >= 2 {
		i := r.Intn(len(l) - 1)
		c := cp()
		c[i], c[i+1] = c[i+1], c[i]
		out, shapes = append(out, c), append(shapes, "permute")
		c2 := cp()
		out, shapes = append(out, c2[:len(c2)-1]), append(shapes, "drop-last")
	}
	return
}

// perturbValue returns a different value of the same kind (last byte flipped / number +-1), or nil.
func perturbValue(v sx.V) *sx.V {
	k := v.L[0].AsInt()
	flipLast := func(b []byte) []byte {
		x := append([]byte{}, b...)
		if len(x) == 0 {
			return []byte{1}
		}
		x[len(x)-1] ^= 1
		return x
	}
	bump := func(z *big.Int, max *big.Int) *big.Int {
		n := new(big.Int).Add(z, big.NewInt(1))
		if max != nil && n.Cmp(max) >= 0 {
			n.Sub(z, big.NewInt(1))
		}
		if n.Sign() < 0 {
			return nil
		}
		return n
	}
	var out sx.V
	switch k {
	case 0, 9, 10, 11, 14:
		if len(v.L[1].L) != 1 {
			return nil
		}
		out = sx.List(v.L[0], sx.List(sx.Bytes(flipLast(v.L[1].L[0].B))))
	case 7:
		out = sx.List(v.L[0], sx.Bytes(flipLast(v.L[1].B)))
	case 8:
		if len(v.L[1].L) != 1 || len(v.L[1].L[0].L) == 0 {
			return nil
		}
		ids := append([]sx.V{}, v.L[1].L[0].L...)
		ids[len(ids)-1] = sx.Bytes(flipLast(ids[len(ids)-1].B))
		out = sx.List(v.L[0], sx.List(sx.List(ids...)))
	case 15:
		if len(v.L[2].L) != 1 {
			return nil
		}
		out = sx.List(v.L[0], v.L[1], sx.List(sx.Bytes(flipLast(v.L[2].L[0].B))))
	case 1:
		out = sx.List(v.L[0], sx.Big(new(big.Int).Add(v.L[1].Z, big.NewInt(1))))
	case 12:
		n := bump(v.L[1].Z, new(big.Int).Lsh(big.NewInt(1), 32))
		if n == nil {
			return nil
		}
		out = sx.List(v.L[0], sx.Big(n))
	case 13:
		n := bump(v.L[1].Z, big.NewInt(65536))
		if n == nil {
			return nil
		}
		out = sx.List(v.L[0], sx.Big(n))
	case 5:
		n := bump(v.L[1].Z, secpQ)
		if n == nil {
			return nil
		}
		out = sx.List(v.L[0], sx.Big(n))
	case 16:
		n := bump(v.L[1].Z, new(big.Int).Lsh(big.NewInt(1), 4096))
		if n == nil {
			return nil
		}
		out = sx.List(v.L[0], sx.Big(n))
	case 4, 17:
		out = sx.List(v.L[0], sx.Big(new(big.Int).Add(v.L[1].Z, big.NewInt(1))))
	case 18:
		n := bump(v.L[3].Z, new(big.Int).Lsh(big.NewInt(1), 2048))
		if n == nil {
			return nil
		}
		out = sx.List(v.L[0], v.L[1], v.L[2], sx.Big(n))
	case 2, 3:
		bl := v.L[1].AsInt()
		if bl == 0 {
			return nil
		}
		z := new(big.Int).Xor(v.L[2].Z, big.NewInt(1))
		if v.L[2].Z.Sign() < 0 {
			z = new(big.Int).Sub(v.L[2].Z, big.NewInt(1))
			if z.BitLen() > bl*8 {
				z = new(big.Int).Add(v.L[2].Z, big.NewInt(1))
			}
		}
		out = sx.List(v.L[0], v.L[1], sx.Big(z))
	default:
		return perturbValueX(v)
	}
	return &out
}

type c19Replay struct {
	Shape string `json:"shape,omitempty"`
	SeqA  string `json:"seq_a"`
	SeqB  string `json:"seq_b,omitempty"`
	GoA   string `json:"go_digest_a,omitempty"`
	GoB   string `json:"go_digest_b,omitempty"`
	Model string `json:"model,omitempty"`
	What  string `json:"what"`
	Hints map[string][2]int `json:"announced_lengths,omitempty"`
}

// modelStream asks the model for the absorbed stream of a sequence.
func (c *ctx) modelStream(vals []sx.V) ([]byte, bool, error) {
	rep, err := c.m.Call("c19.write", sx.List(vals...))
	if err != nil {
		return nil, false, err
	}
	return rep.L[0].B, rep.L[1].AsBool(), nil
}

// c19CheckSeq: correspondence of one sequence; returns go digest and model stream.
func (c *ctx) c19CheckSeq(vals []sx.V, class string) (gd []byte, ms []byte, ok bool) {
	gd, gok := goDigest(vals)
	ms, mok, err := c.modelStream(vals)
	if err != nil {
		c.res.Violate("correspondence", "C19/model-error", err.Error(), c19Replay{SeqA: seqString(vals), What: "model error"})
		return gd, nil, false
	}
	agree := gok == mok && bytes.Equal(blake64(ms), gd)
	c.res.Corr(agree)
	c.res.Case(class, seqString(vals), len(vals) > 0)
	if !agree {
		// shrink: find a single value that disagrees on its own
		min := vals
		for _, v := range vals {
			g1, ok1 := goDigest([]sx.V{v})
			m1, mok1, _ := c.modelStream([]sx.V{v})
			if ok1 != mok1 || !bytes.Equal(blake64(m1), g1) {
				min = []sx.V{v}
				break
			}
		}
		kind := "-"
		if len(min) == 1 {
			kind = fmt.Sprint(min[0].L[0].AsInt())
		}
		c.res.Violate("correspondence", "C19/stream-mismatch/kind="+kind,
			"model stream hashed with BLAKE3 differs from hash.Sum() (or error status differs)",
			c19Replay{SeqA: seqString(min), GoA: hex.EncodeToString(gd), Model: hex.EncodeToString(ms), What: "stream correspondence", Hints: hintsFor(min)})
		// a kind whose bytes differ from the model's: look for a colliding pair of that kind before giving up
		if len(min) == 1 {
			c.c19MismatchSearch(min[0])
		}
	}
	return gd, ms, agree
}

func runC19(c *ctx) {
	r := c.res.Rng
	c.res.Rule = "random typed-value sequences (25 kinds, adversarial byte strings) + derived related sequences per attack shape; " +
		"per kind: pairs differing only in high-order bytes of a fixed-width field (v + k*2^(8w) for every byte position, top byte / upper half cleared); " +
		"non-trivial = non-empty sequence; distinct by printed sequence"
	if c.replay != "" {
		c19Replay_(c)
		return
	}
	nSeq := 300
	if c.thorough() {
		nSeq = 6000
	}
	c.c19xSmallCorpus()
	// 1. every kind alone (several times), then random sequences
	var seqs [][]sx.V
	for k := 0; k < nKinds; k++ {
		for j := 0; j < 6; j++ {
			seqs = append(seqs, []sx.V{genHval(r, k)})
		}
	}
	// regression corpus: the pre-fix IDSlice collision pair
	seqs = append(seqs,
		[]sx.V{sx.List(sx.Int(8), sx.List(sx.List(sx.Str("a"), sx.Str("bc"))))},
		[]sx.V{sx.List(sx.Int(8), sx.List(sx.List(sx.Str("ab"), sx.Str("c"))))})
	for i := 0; i < nSeq; i++ {
		n := r.Intn(6)
		s := make([]sx.V, n)
		for j := range s {
			s[j] = genHval(r, r.Intn(nKinds))
		}
		seqs = append(seqs, s)
	}
	for _, s := range seqs {
		gd, ms, _ := c.c19CheckSeq(s, fmt.Sprintf("seq-len-%d", len(s)))
		c.c19DirectWriteTo(s)
		c.res.Sample(3, map[string]string{"sequence": seqString(s), "digest": hex.EncodeToString(gd[:8])})
		// 2. search: related sequences must have different digests (and different model streams)
		rel, shapes := relatedPairs(r, s)
		for i, s2 := range rel {
			gd2, gok2 := goDigest(s2)
			c.res.Case("related-"+shapes[i], seqString(s)+"|"+seqString(s2), true)
			if !gok2 {
				continue
			}
			if bytes.Equal(gd, gd2) {
				ms2, _, _ := c.modelStream(s2)
				if bytes.Equal(ms, ms2) {
					// both denote the same item sequence in the model as well: not different typed values
					continue
				}
				c.res.Violate("property", "C19/digest-collision/"+shapes[i],
					"two different typed-value sequences give the same transcript digest",
					c19Replay{Shape: shapes[i], SeqA: seqString(s), SeqB: seqString(s2), GoA: hex.EncodeToString(gd), GoB: hex.EncodeToString(gd2), What: "digest collision by framing", Hints: hintsFor(s, s2)})
			}
		}
	}
	c.c19xWidthProbe()
	// 2b. hash.New(initial...) with unwritable items, Message.Hash() one-field variants, identifiers embedding length prefixes (c19_new.go)
	c.c19nNewAll(r)
	c.c19nMessagesAll(r)
	c.c19nIDSlicePrefix(r)
	// 2c. one hash object reused after failed writes (c19_reuse.go)
	c.c19rReuseAll(rand.New(rand.NewSource(c.res.Seed*7919 + 19))) // own stream derived from the seed: the cases of the other parts stay what they were
	// 3. commitments
	nCom := 60
	if c.thorough() {
		nCom = 1500
	}
	for i := 0; i < nCom; i++ {
		n := r.Intn(4)
		s := make([]sx.V, n)
		for j := range s {
			s[j] = genHval(r, []int{0, 1, 5, 6, 7, 9, 12, 15}[r.Intn(8)])
		}
		c.c19Commit(r, s)
	}
	// 4. pairs differing only in high-order bytes of fixed-width fields, every kind (c19_highbytes.go)
	c.c19HighBytesAll(r)
}

func goItems(vals []sx.V) []interface{} {
	out := make([]interface{}, len(vals))
	for i, v := range vals {
		out[i] = goValue(v)
	}
	return out
}

// modelDecommit evaluates the model's decommit with H = BLAKE3 (the hash itself is outside the model).
func (c *ctx) modelDecommit(cm, d []byte, vals []sx.V) (bool, error) {
	v, err := c.m.Call("c19.valid", sx.List(sx.Bytes(cm), sx.Bytes(d)))
	if err != nil {
		return false, err
	}
	if !v.L[0].AsBool() || !v.L[1].AsBool() {
		return false, nil
	}
	in, err := c.m.Call("c19.commit_input", sx.List(sx.List(vals...), sx.Bytes(d)))
	if err != nil {
		return false, err
	}
	if len(in.L) == 0 {
		return false, nil
	}
	return bytes.Equal(blake64(in.L[0].B), cm), nil
}

func (c *ctx) c19Commit(r *rand.Rand, s []sx.V) {
	h := hash.New()
	cm, d, err := h.Commit(goItems(s)...)
	_, mok, _ := c.modelStream(s)
	if (err == nil) != mok {
		c.res.Corr(false)
		c.res.Violate("correspondence", "C19/commit-error-status", "Commit error status differs from model",
			c19Replay{SeqA: seqString(s), What: "commit error status"})
		return
	}
	if err != nil {
		c.res.Case("commit-error", seqString(s), false)
		return
	}
	type variant struct {
		name string
		c, d []byte
		s    []sx.V
	}
	flip := func(b []byte) []byte { x := append([]byte{}, b...); x[r.Intn(len(x))] ^= byte(1 << uint(r.Intn(8))); return x }
	vs := []variant{
		{"honest", cm, d, s},
		{"c-flip", flip(cm), d, s},
		{"d-flip", cm, flip(d), s},
		{"c-short", cm[:63], d, s},
		{"c-long", append(append([]byte{}, cm...), 0), d, s},
		{"d-short", cm, d[:31], s},
		{"d-long", cm, append(append([]byte{}, d...), 0), s},
		{"c-zero", make([]byte, 64), d, s},
		{"d-zero", cm, make([]byte, 32), s},
		{"c-empty", []byte{}, d, s},
	}
	rel, shapes := relatedPairs(r, s)
	for i, s2 := range rel {
		vs = append(vs, variant{"items-" + shapes[i], cm, d, s2})
	}
	for _, v := range vs {
		g := hash.New().Decommit(hash.Commitment(v.c), hash.Decommitment(v.d), goItems(v.s)...)
		m, err := c.modelDecommit(v.c, v.d, v.s)
		if err != nil {
			c.res.Violate("correspondence", "C19/model-error", err.Error(), c19Replay{SeqA: seqString(v.s), What: "model error"})
			continue
		}
		c.res.Corr(g == m)
		c.res.Case("decommit-"+v.name, seqString(v.s)+hex.EncodeToString(v.c)+hex.EncodeToString(v.d), true)
		rp := c19Replay{Shape: v.name, SeqA: seqString(s), SeqB: seqString(v.s), GoA: hex.EncodeToString(v.c), GoB: hex.EncodeToString(v.d), What: "decommit"}
		if g != m {
			c.res.Violate("correspondence", "C19/decommit-mismatch/"+v.name, fmt.Sprintf("Decommit=%v model=%v", g, m), rp)
		}
		// property oracle: anything but the honest opening must be refused (unless the item sequence is the same one)
		if v.name != "honest" && g {
			ms1, _, _ := c.modelStream(s)
			ms2, _, _ := c.modelStream(v.s)
			if !(bytes.Equal(ms1, ms2) && bytes.Equal(v.c, cm) && bytes.Equal(v.d, d)) {
				c.res.Violate("property", "C19/decommit-accepts/"+v.name, "commitment opened with a different tuple / decommitment / malformed input", rp)
			}
		}
		if v.name == "honest" && !g {
			c.res.Violate("property", "C19/decommit-rejects-honest", "honest opening refused", rp)
		}
	}
}

func c19Replay_(c *ctx) {
	// replay file: JSON with seq_a / seq_b; re-run the digest comparison
	if c.c19rReplayRun() || c.c19nReplayRun() {
		return
	}
	var rp c19Replay
	if err := readJSON(c.replay, &rp); err != nil {
		c.res.Note("cannot read replay: %v", err)
		return
	}
	for k, v := range rp.Hints {
		c19Hints[k] = v
	}
	a, err := sx.Parse(rp.SeqA)
	if err != nil {
		c.res.Note("bad replay: %v", err)
		return
	}
	gd, _, _ := c.c19CheckSeq(a.L, "replay")
	fmt.Printf("replay: seq_a digest %x\n", gd)
	if rp.SeqB != "" {
		b, err := sx.Parse(rp.SeqB)
		if err == nil {
			gd2, _ := goDigest(b.L)
			fmt.Printf("replay: seq_b digest %x\n", gd2)
			if bytes.Equal(gd, gd2) && rp.SeqA != rp.SeqB {
				c.res.Violate("property", "C19/digest-collision/"+rp.Shape, "two different typed-value sequences give the same transcript digest", rp)
			}
		}
	}
}
