package main

// c15_repeat.go -- restore cases whose outcome depends on Go's map iteration order.
//
// A stored FROST / FROST-Taproot config of n >= 4 parties with threshold t <= n-2, in which exactly one OTHER party's entry of an
// identifier-keyed table is damaged (undecodable prefix byte, x not on the curve, wrong length, ...; or the table has a
// duplicated key), is restored many times: the decoder walks a Go map, so what it has already decoded when it meets the bad
// entry differs from attempt to attempt.  Every attempt must refuse, or give an object with ALL parties that passes the
// validity rules (c15Check).  Key C15/<type>/restore-drops-parties/<damage>.
// (cmp.Config and ecdsa.PreSignature with n >= 4 are not covered here: see work/H9/NOTES.md.)

import (
	"encoding/hex"
	"fmt"
	"math/rand"
	"sort"
	"strings"

	"github.com/taurusgroup/multi-party-sig/pkg/party"
)

const c15RepeatAttempts = 64

var c15RepeatDamage = map[string]bool{"bad-prefix": true, "all-ff": true, "zero": true, "flip-high-bit": true, "drop-first-byte": true, "prepend-byte": true,
	"empty": true, "one": true, "wrong-type": true, "null": true, "duplicate-party": true, "identity-point": true}

// c15RepeatOne restores b `attempts` times; problems of the first bad attempt ("" = every attempt refused or was complete and valid)
func c15RepeatOne(t *c15Type, b []byte, ids []string, attempts int) (bad string, at int, refused, accepted int) {
	want := append([]string{}, ids...)
	sort.Strings(want)
	for i := 0; i < attempts; i++ {
		obj, errText, pan := c15Restore(t, b)
		if pan != "" {
			return "panic: " + c15Short(pan, 160), i, refused, accepted
		}
		if errText != "" {
			refused++
			continue
		}
		accepted++
		var got []string
		func() {
			defer func() {
				if r := recover(); r != nil {
					got = []string{fmt.Sprint("panic reading the parties: ", r)}
				}
			}()
			got = t.IDs(obj)
		}()
		sort.Strings(got)
		if strings.Join(got, "\x00") != strings.Join(want, "\x00") {
			return fmt.Sprintf("restored without error with parties %q, stored were %q", got, want), i, refused, accepted
		}
		if probs := c15Check(t, obj); len(probs) > 0 {
			sort.Strings(probs)
			return "restored without error but " + strings.Join(probs, "; "), i, refused, accepted
		}
	}
	return "", 0, refused, accepted
}

func (c *ctx) c15RestoreRepeat() {
	ts := c15Types()
	type shape struct {
		n, t int
		tap  bool
	}
	shapes := []shape{{4, 1, false}, {4, 2, true}, {5, 1, true}, {5, 3, false}}
	if c.thorough() {
		shapes = append(shapes, shape{4, 2, false}, shape{4, 1, true}, shape{6, 2, false}, shape{6, 4, true})
	}
	names := []string{"alice", "bob", "carl", "dave", "erin", "fred"}
	cases, refusedAll, acceptedAll := 0, 0, 0
	for si, sh := range shapes {
		ids := idsOf(names[:sh.n]...)
		det := installDetReader(c.res.Seed*131+int64(si), 0)
		kg := specFrostKeygen(ids, sh.t, sh.tap, []byte("c15rep")).build(rand.New(rand.NewSource(c.res.Seed+int64(si))), det)
		kg.RunFIFO(100000)
		restoreRandReader()
		owner := party.NewIDSlice(ids)[si%sh.n]
		res, _ := resultOf(kg.Nodes[owner])
		if res == nil {
			c.res.Note("C15 repeated restore: FROST keygen n=%d t=%d did not complete", sh.n, sh.t)
			continue
		}
		tn := c15TypeOf(res)
		t := ts[tn]
		if t == nil || t.IDs == nil {
			continue
		}
		b, err := t.Marshal(res)
		if err != nil {
			continue
		}
		tree, rest, err := c15Parse(b, 0)
		if err != nil || len(rest) != 0 {
			continue
		}
		idl := t.IDs(res)
		// the undamaged bytes first (every attempt complete and valid)
		if bad, at, _, _ := c15RepeatOne(t, b, idl, 8); bad != "" {
			c.res.Violate("property", "C15/"+tn+"/restore-drops-parties/unchanged", fmt.Sprintf("attempt %d: %s", at, bad),
				c15Replay{Type: tn, Corruption: "unchanged", Bytes: hex.EncodeToString(b), What: "restore-repeat", Problems: idl})
		}
		for _, co := range c15Corruptions(tree, t.Nested, t.IDKeyed, idl, t.Self(res)) {
			other := strings.HasSuffix(co.Field, ".other") || strings.HasSuffix(co.Field, "/other") || strings.Contains(co.Field, "other")
			table := co.Name == "duplicate-party"
			if !c15RepeatDamage[co.Name] || !(other || table) {
				continue
			}
			cb := co.Tree.bytes()
			bad, at, refused, accepted := c15RepeatOne(t, cb, idl, c15RepeatAttempts)
			cases++
			refusedAll += refused
			acceptedAll += accepted
			c.res.Case(fmt.Sprintf("restore-repeat/%s/n=%d/t=%d/%s", tn, sh.n, sh.t, co.Name), tn+co.Field+hex.EncodeToString(cb), true)
			if bad != "" {
				c.res.Violate("property", "C15/"+tn+"/restore-drops-parties/"+co.Name,
					fmt.Sprintf("%s of n=%d t=%d stored by %s, %s := %s: attempt %d of %d: %s", tn, sh.n, sh.t, owner, co.Field, co.Name, at+1, c15RepeatAttempts, bad),
					c15Replay{Type: tn, Field: co.Field, Corruption: co.Name, Bytes: hex.EncodeToString(cb), What: "restore-repeat", Problems: idl,
						Scenario: fmt.Sprintf("n=%d t=%d owner=%s; replay restores these bytes 1024 times", sh.n, sh.t, owner)})
			}
		}
	}
	c.res.Note("repeated restore (map iteration order): %d damaged configs x %d attempts: %d attempts refused, %d accepted complete and valid", cases, c15RepeatAttempts, refusedAll, acceptedAll)
}

// c15RepeatReplay: `-replay` of a restore-repeat case: the stored parties are in `problems`
func (c *ctx) c15RepeatReplay(rp c15Replay) {
	t := c15Types()[rp.Type]
	b, err := hex.DecodeString(rp.Bytes)
	if t == nil || err != nil {
		c.res.Note("replay file not understood")
		return
	}
	bad, at, refused, accepted := c15RepeatOne(t, b, rp.Problems, 1024)
	c.res.Case("replay", rp.Bytes, true)
	fmt.Printf("replay: %s restored up to 1024 times: %d refused, %d accepted; first bad attempt: %q (attempt %d)\n", rp.Type, refused, accepted, bad, at+1)
	if bad != "" {
		c.res.Violate("property", "C15/"+rp.Type+"/restore-drops-parties/"+rp.Corruption, bad, rp)
	}
}
