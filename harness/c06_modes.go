package main

// C06, second equivocation mode ("reencode") and the CMP sessions used by both modes.
//
// fork mode (c06.go) needs a round whose broadcast contains randomness that is drawn when the round's messages are produced:
// only then do two honest instances of the equivocator that share everything up to round k-1 send different, individually
// valid round-k broadcasts. Rounds whose broadcast is a function of earlier (committed) randomness cannot be covered that way.
//
// reencode mode covers every broadcast round of every protocol: the equivocator is ONE honest instance; the copies of its
// round-k broadcast that go to group 2 carry the same content in a different, equally decodable CBOR encoding (a longer
// header for the top-level item, or an additional map entry that the content type does not know). The payload is
// individually valid by construction (the harness checks that both byte strings decode to the same generic CBOR value, up
// to the added entry), it is a different payload (Message.Hash covers the bytes, and the property speaks of byte-identical
// views), and nothing but the echo of the round-k view can tell the two groups apart. With `adaptive` the equivocator also
// attaches to its round-(k+1) messages for group 2 the view digest that the recipient itself holds (a two-faced party would).

import (
	"bytes"
	"fmt"
	"math/rand"
	"reflect"
	"strings"

	"github.com/cronokirby/saferith"
	"github.com/fxamacker/cbor/v2"

	"github.com/taurusgroup/multi-party-sig/pkg/math/curve"
	"github.com/taurusgroup/multi-party-sig/pkg/math/sample"
	"github.com/taurusgroup/multi-party-sig/pkg/party"
	"github.com/taurusgroup/multi-party-sig/pkg/protocol"
	"github.com/taurusgroup/multi-party-sig/protocols/cmp"
)

const c06PadKey = "~c06"

// cborReencode returns another encoding of the CBOR item `data` ("" = not possible for this item).
//
//	long-header: the head of the top-level item is written with a one-byte (or two-byte) argument instead of the shortest form
//	extra-field: a top-level map gets one more entry "~c06": 0
func cborReencode(data []byte, variant string) []byte {
	if len(data) == 0 {
		return nil
	}
	major, ai := data[0]>>5, data[0]&31
	switch variant {
	case "extra-field":
		if major != 5 || ai >= 23 {
			return nil
		}
		out := append([]byte{5<<5 | (ai + 1)}, data[1:]...)
		out = append(out, byte(3<<5|len(c06PadKey)))
		out = append(out, c06PadKey...)
		return append(out, 0)
	case "long-header":
		if major == 7 {
			return nil
		}
		switch {
		case ai < 24:
			return append([]byte{major<<5 | 24, ai}, data[1:]...)
		case ai == 24 && len(data) >= 2:
			return append([]byte{major<<5 | 25, 0, data[1]}, data[2:]...)
		case ai == 25 && len(data) >= 3:
			return append([]byte{major<<5 | 26, 0, 0, data[1], data[2]}, data[3:]...)
		}
	}
	return nil
}

// cborSameContent: both byte strings are well-formed CBOR and decode to the same generic value (ignoring the pad entry).
func cborSameContent(a, b []byte) bool {
	var va, vb interface{}
	if cbor.Unmarshal(a, &va) != nil || cbor.Unmarshal(b, &vb) != nil {
		return false
	}
	strip := func(v interface{}) interface{} {
		if m, ok := v.(map[interface{}]interface{}); ok {
			delete(m, c06PadKey)
		}
		return v
	}
	return reflect.DeepEqual(strip(va), strip(vb))
}

// reencState is what the emit hook of a reencode run records.
type reencState struct {
	orig, alt []byte
	failed    bool // the round-k broadcast could not be re-encoded in this variant
}

// buildReencoded creates the sim of a reencode run: one instance of every party; E's round-k broadcast reaches group 2 re-encoded.
func buildReencoded(sp SessionSpec, seed int64, E party.ID, g1 map[party.ID]bool, k int, variant string, det *detReader) (*Sim, *reencState) {
	s := NewSim(sp.IDs, rand.New(rand.NewSource(seed)), det)
	st := &reencState{}
	s.OnEmit = func(from party.ID, e *Env) []*Env {
		if from != E || !e.Msg.Broadcast || int(e.Msg.RoundNumber) != k || g1[e.To] {
			return []*Env{e}
		}
		alt := cborReencode(e.Msg.Data, variant)
		if alt == nil {
			st.failed = true
			return []*Env{e}
		}
		m := *e.Msg
		m.Data = alt
		st.orig, st.alt = e.Msg.Data, alt
		e.Msg = &m
		return []*Env{e}
	}
	for _, id := range s.IDs {
		s.AddMulti(id, sp.Start(id), sp.SessionID)
	}
	s.Seal()
	return s, st
}

// adaptiveBlocked / adaptivePatch: E's round-(k+1) messages to a member of group 2 carry the recipient's own digest of
// its round-k view. Until the recipient has that digest the envelope is held back (as long as anything else can be delivered).
func adaptiveTarget(s *Sim, e *Env, E party.ID, g1 map[party.ID]bool, k int) bool {
	return e.Msg.From == E && int(e.Msg.RoundNumber) == k+1 && !g1[e.To] && s.Nodes[e.To] != nil && s.Nodes[e.To].MH != nil
}

func adaptiveDigest(s *Sim, e *Env, k int) []byte {
	return s.Nodes[e.To].MH.VerifState().Hashes[uint16(k)]
}

func adaptivePick(s *Sim, i int, E party.ID, g1 map[party.ID]bool, k int) int {
	blocked := func(e *Env) bool { return adaptiveTarget(s, e, E, g1, k) && adaptiveDigest(s, e, k) == nil }
	if !blocked(s.Flight[i]) {
		return i
	}
	for j := range s.Flight {
		if !blocked(s.Flight[j]) {
			return j
		}
	}
	return i
}

func adaptivePatch(s *Sim, e *Env, E party.ID, g1 map[party.ID]bool, k int) {
	if !adaptiveTarget(s, e, E, g1, k) {
		return
	}
	if d := adaptiveDigest(s, e, k); d != nil && !bytes.Equal(d, e.Msg.BroadcastVerification) {
		m := *e.Msg
		m.BroadcastVerification = append([]byte{}, d...)
		e.Msg = &m
	}
}

// ---------------------------------------------------------------------------------------------
// CMP sessions for C06

// usePrimeCacheByParty: the Paillier primes of a party are a function of its identifier (position in ids), so that the two
// instances of a two-faced party generate the same Paillier key. Undone by usePrimeCache().
func usePrimeCacheByParty(ids []party.ID) {
	loadPrimes()
	pos := map[string]int{}
	for i, id := range party.NewIDSlice(ids) {
		pos[string(id)] = i
	}
	sample.VerifPrimeSource = func() (*saferith.Nat, *saferith.Nat, bool) {
		det := currentDet()
		if det == nil {
			return nil, nil, false
		}
		det.mu.Lock()
		cur := det.cur
		det.mu.Unlock()
		i, ok := pos[strings.TrimSuffix(cur, "#2")]
		if !ok {
			return nil, nil, false
		}
		primeMu.Lock()
		defer primeMu.Unlock()
		i %= len(primeList) / 2
		return new(saferith.Nat).SetBig(primeList[2*i], 1024), new(saferith.Nat).SetBig(primeList[2*i+1], 1024), true
	}
}

// c06FreezeCMP / c06ThawCMP: the key material as bytes (taken once, single-threaded) and private objects restored from them:
// no library object is shared between the goroutines that run cases.
func c06FreezeCMP(cfgs map[party.ID]*cmp.Config) (map[party.ID][]byte, error) {
	raw := map[party.ID][]byte{}
	for id, cf := range cfgs {
		b, err := cf.MarshalBinary()
		if err != nil {
			return nil, err
		}
		raw[id] = b
	}
	return raw, nil
}

func c06ThawCMP(raw map[party.ID][]byte) map[party.ID]*cmp.Config {
	out := map[party.ID]*cmp.Config{}
	for id, b := range raw {
		cf := cmp.EmptyConfig(curve.Secp256k1{})
		if err := cf.UnmarshalBinary(b); err != nil {
			panic(fmt.Sprintf("C06: key material of %s does not survive its own encoding: %v", id, err))
		}
		out[id] = cf
	}
	return out
}

func c06CMPNames(n int, withRefresh bool) []string {
	out := []string{fmt.Sprintf("cmp-sign/n=%d", n), fmt.Sprintf("cmp-keygen/n=%d/t=1", n), fmt.Sprintf("cmp-presign/n=%d", n)}
	if withRefresh {
		out = append(out, fmt.Sprintf("cmp-refresh/n=%d", n))
	}
	return out
}

// c06CMPSpecs: the CMP sessions of C06 (same order as c06CMPNames) on one copy of the key material. The sessions get no worker
// pool: all their randomness is drawn, in a fixed order, on the goroutine of the API call (two instances of a party stay in
// lockstep until they are forked; several cases can run in parallel, each with its own deterministic reader).
func c06CMPSpecs(cfgs map[party.ID]*cmp.Config, ids []party.ID, withRefresh bool) []SessionSpec {
	msg := bytes.Repeat([]byte{3}, 32)
	names := c06CMPNames(len(ids), withRefresh)
	out := []SessionSpec{
		{Name: names[0], IDs: ids, SessionID: []byte("c06c"),
			Start: func(id party.ID) protocol.StartFunc { return cmp.Sign(cfgs[id], ids, msg, nil) }},
		{Name: names[1], IDs: ids, SessionID: []byte("c06k"),
			Start: func(id party.ID) protocol.StartFunc { return cmp.Keygen(curve.Secp256k1{}, id, ids, 1, nil) }},
		{Name: names[2], IDs: ids, SessionID: []byte("c06p"),
			Start: func(id party.ID) protocol.StartFunc { return cmp.Presign(cfgs[id], ids, nil) }},
	}
	if withRefresh {
		out = append(out, SessionSpec{Name: names[3], IDs: ids, SessionID: []byte("c06r"),
			Start: func(id party.ID) protocol.StartFunc { return cmp.Refresh(cfgs[id], nil) }})
	}
	return out
}
