package main

// retained.go -- "application-like" use of key material: ONE in-memory object per party, kept and reused across API calls
// (Derive / DeriveChild / DeriveBIP32, Sign, Refresh), single-threaded, the way an application holds its config.
// Everywhere else the harness snapshots material by serialisation and hands every session private copies (that avoids
// harness-induced races) -- which makes in-place mutation of the CALLER's long-lived objects invisible.  Here nothing is copied:
// the documented serialisation of every input object is taken BEFORE an API call and compared AFTER it (canonical CBOR of the
// decoded bytes, so map order does not matter), and every result is judged by the reference (ref.ckd_pub, reference verifiers).
// Used by C01 (c01_retained.go), C14 (derive after refresh) and C08 (c08_retained.go).

import (
	"bytes"
	"fmt"
	"math/rand"
	"sort"
	"strings"

	"github.com/fxamacker/cbor/v2"

	"github.com/taurusgroup/multi-party-sig/pkg/math/curve"
	"github.com/taurusgroup/multi-party-sig/pkg/party"
	"github.com/taurusgroup/multi-party-sig/pkg/protocol"
	"github.com/taurusgroup/multi-party-sig/pkg/taproot"
	"github.com/taurusgroup/multi-party-sig/protocols/cmp"
	"github.com/taurusgroup/multi-party-sig/protocols/doerner"
	"github.com/taurusgroup/multi-party-sig/protocols/frost"

	"verifharness/sx"
)

var retCanonMode, _ = cbor.CanonicalEncOptions().EncMode()

// retSerial: the documented serialisation of a key-material object, decoded generically and re-encoded canonically
func retSerial(m interface{}) (out []byte, err error) {
	defer func() {
		if p := recover(); p != nil {
			err = fmt.Errorf("PANIC while serialising %T: %v", m, p)
		}
	}()
	var b []byte
	switch cf := m.(type) {
	case *cmp.Config:
		b, err = cf.MarshalBinary()
	default:
		b, err = cbor.Marshal(m)
	}
	if err != nil {
		return nil, err
	}
	var v interface{}
	if err = cbor.Unmarshal(b, &v); err != nil {
		return nil, err
	}
	return retCanonMode.Marshal(retOpen(v, 0))
}

// retOpen: a byte string that is itself the CBOR encoding of a map (party.PointMap and other types with their own MarshalBinary
// are embedded that way, with Go's random map order) is replaced by the decoded map, so that equal values have equal serialisations
func retOpen(v interface{}, depth int) interface{} {
	if depth > 16 {
		return v
	}
	switch x := v.(type) {
	case map[interface{}]interface{}:
		for k, e := range x {
			x[k] = retOpen(e, depth+1)
		}
	case []interface{}:
		for i, e := range x {
			x[i] = retOpen(e, depth+1)
		}
	case []byte:
		if len(x) > 40 && x[0]>>5 == 5 {
			var inner map[interface{}]interface{}
			if cbor.Unmarshal(x, &inner) == nil && len(inner) > 0 {
				return retOpen(inner, depth+1)
			}
		}
	}
	return v
}

// retDiff names the first place where two canonical serialisations differ (path of map keys / indices)
func retDiff(a, b []byte) string {
	var va, vb interface{}
	if cbor.Unmarshal(a, &va) != nil || cbor.Unmarshal(b, &vb) != nil {
		return "?"
	}
	return retDiffV(va, vb, "")
}

func retDiffV(a, b interface{}, path string) string {
	switch x := a.(type) {
	case map[interface{}]interface{}:
		y, ok := b.(map[interface{}]interface{})
		if !ok {
			return path
		}
		var keys []string
		km := map[string]interface{}{}
		for k := range x {
			s := fmt.Sprint(k)
			keys = append(keys, s)
			km[s] = k
		}
		sort.Strings(keys)
		for _, s := range keys {
			yv, ok := y[km[s]]
			if !ok {
				return path + "/" + s
			}
			if d := retDiffV(x[km[s]], yv, path+"/"+s); d != "" {
				return d
			}
		}
		if len(y) != len(x) {
			return path
		}
		return ""
	case []interface{}:
		y, ok := b.([]interface{})
		if !ok || len(x) != len(y) {
			return path
		}
		for i := range x {
			if d := retDiffV(x[i], y[i], fmt.Sprintf("%s/%d", path, i)); d != "" {
				return d
			}
		}
		return ""
	case []byte:
		y, ok := b.([]byte)
		if !ok || !bytes.Equal(x, y) {
			return path
		}
		return ""
	}
	if fmt.Sprint(a) != fmt.Sprint(b) {
		return path
	}
	return ""
}

type retProblem struct {
	Step  string `json:"step"`
	Class string `json:"class"`
	Text  string `json:"text"`
}

// retGuard: serialisations of a set of retained objects taken before an API call
type retGuard struct {
	names []string
	objs  []interface{}
	ser   [][]byte
}

func retSnap(names []string, objs []interface{}) (*retGuard, error) {
	g := &retGuard{names: names, objs: objs}
	for _, o := range objs {
		b, err := retSerial(o)
		if err != nil {
			return nil, err
		}
		g.ser = append(g.ser, b)
	}
	return g, nil
}

// changed lists the objects whose serialisation is no longer the one taken by retSnap
func (g *retGuard) changed() []string {
	var out []string
	for i, o := range g.objs {
		b, err := retSerial(o)
		if err != nil {
			out = append(out, fmt.Sprintf("%s (cannot be serialised any more: %v)", g.names[i], err))
			continue
		}
		if !bytes.Equal(b, g.ser[i]) {
			out = append(out, fmt.Sprintf("%s (field %s)", g.names[i], retDiff(g.ser[i], b)))
		}
	}
	return out
}

func retID(m interface{}) party.ID {
	switch cf := m.(type) {
	case *cmp.Config:
		return cf.ID
	case *frost.Config:
		return cf.ID
	case *frost.TaprootConfig:
		return cf.ID
	case *doerner.ConfigReceiver:
		return "recv"
	case *doerner.ConfigSender:
		return "send"
	}
	return ""
}

func retNames(what string, mat []interface{}) []string {
	var out []string
	for _, m := range mat {
		out = append(out, fmt.Sprintf("%s of %s", what, retID(m)))
	}
	return out
}

func retProto(m interface{}) string {
	switch m.(type) {
	case *cmp.Config:
		return "cmp"
	case *frost.Config:
		return "frost"
	case *frost.TaprootConfig:
		return "frost-taproot"
	case *doerner.ConfigReceiver, *doerner.ConfigSender:
		return "doerner"
	}
	return "unknown"
}

// retDeriveAll: the public derivation API on every party's retained object
func retDeriveAll(mat []interface{}, i uint32) (out []interface{}, errText string) {
	for _, m := range mat {
		var r interface{}
		var err error
		func() {
			defer func() {
				if p := recover(); p != nil {
					err = fmt.Errorf("PANIC: %v", p)
				}
			}()
			switch cf := m.(type) {
			case *cmp.Config:
				r, err = cf.DeriveBIP32(i)
			case *frost.Config:
				r, err = cf.DeriveChild(i)
			case *frost.TaprootConfig:
				r, err = cf.DeriveChild(i)
			case *doerner.ConfigReceiver:
				r, err = cf.DeriveBIP32(i)
			case *doerner.ConfigSender:
				r, err = cf.DeriveBIP32(i)
			default:
				err = fmt.Errorf("no derive for %T", m)
			}
		}()
		if err != nil {
			return nil, err.Error()
		}
		out = append(out, r)
	}
	return out, ""
}

// retKeyOf: (group key as compressed point bytes, chain key) a party's object reports
func retKeyOf(m interface{}) (pub []byte, xonly bool, chain []byte, err error) {
	defer func() {
		if p := recover(); p != nil {
			err = fmt.Errorf("PANIC: %v", p)
		}
	}()
	switch cf := m.(type) {
	case *cmp.Config:
		pub, err = cf.PublicPoint().MarshalBinary()
		return pub, false, cf.ChainKey, err
	case *frost.Config:
		pub, err = cf.PublicKey.MarshalBinary()
		return pub, false, cf.ChainKey, err
	case *frost.TaprootConfig:
		return append([]byte{2}, cf.PublicKey...), true, cf.ChainKey, nil
	case *doerner.ConfigReceiver:
		pub, err = cf.Public.MarshalBinary()
		return pub, false, cf.ChainKey, err
	case *doerner.ConfigSender:
		pub, err = cf.Public.MarshalBinary()
		return pub, false, cf.ChainKey, err
	}
	return nil, false, nil, fmt.Errorf("unknown key material %T", m)
}

// retRefKey: an independently computed key: compressed bytes + chain code
type retRefKey struct {
	Pub   []byte // 33 bytes, compressed
	Chain []byte
	XOnly bool
}

func (k retRefKey) verifierKey() (interface{}, error) {
	if k.XOnly {
		return taproot.PublicKey(append([]byte{}, k.Pub[1:]...)), nil
	}
	p := curve.Secp256k1{}.NewPoint()
	if err := p.UnmarshalBinary(k.Pub); err != nil {
		return nil, err
	}
	return p, nil
}

// retChildKey: BIP-32 CKDpub(parent, chain, index) by the reference (ref.ckd_pub: own HMAC-SHA512 + textbook curve)
func (c *ctx) retChildKey(parent retRefKey, index uint32) (retRefKey, bool, error) {
	dec, err := c.m.Call("ref.decompress", sx.Bytes(parent.Pub))
	if err != nil || len(dec.L) != 1 {
		return retRefKey{}, false, fmt.Errorf("reference cannot decompress the parent key %x: %v", parent.Pub, err)
	}
	child, chain, ok, err := c.refCKD(dec.L[0], parent.Chain, index)
	if err != nil || !ok {
		return retRefKey{}, ok, err
	}
	if len(child.L) != 2 {
		return retRefKey{}, false, fmt.Errorf("reference child key is the identity")
	}
	x := child.L[0].Z.FillBytes(make([]byte, 32))
	pfx := byte(2 + child.L[1].Z.Bit(0))
	if parent.XOnly {
		pfx = 2
	}
	return retRefKey{Pub: append([]byte{pfx}, x...), Chain: chain, XOnly: parent.XOnly}, true, nil
}

// retKeyProblems: every party's object must report exactly the expected key and chain code
func retKeyProblems(mat []interface{}, want retRefKey) []string {
	var probs []string
	for _, m := range mat {
		pub, _, chain, err := retKeyOf(m)
		if err != nil {
			probs = append(probs, fmt.Sprintf("party %s: %v", retID(m), err))
			continue
		}
		if !bytes.Equal(pub, want.Pub) {
			probs = append(probs, fmt.Sprintf("party %s reports public key %x, BIP-32 CKDpub for the current (parent key, chain key, index) gives %x", retID(m), pub, want.Pub))
		}
		if !bytes.Equal(chain, want.Chain) {
			probs = append(probs, fmt.Sprintf("party %s reports chain code %x, BIP-32 gives %x", retID(m), chain, want.Chain))
		}
	}
	return probs
}

// retSignSim builds (does not run) a signing session on the GIVEN objects (no copies)
func retSignSim(mat []interface{}, S []party.ID, msg, sid []byte, seed int64) *Sim {
	switch mat[0].(type) {
	case *frost.Config:
		cfgs := map[party.ID]*frost.Config{}
		for _, m := range mat {
			cfgs[m.(*frost.Config).ID] = m.(*frost.Config)
		}
		return specFrostSign(cfgs, S, msg, sid).build(rand.New(rand.NewSource(seed)), nil)
	case *frost.TaprootConfig:
		cfgs := map[party.ID]*frost.TaprootConfig{}
		for _, m := range mat {
			cfgs[m.(*frost.TaprootConfig).ID] = m.(*frost.TaprootConfig)
		}
		return specFrostSignTaproot(cfgs, S, msg, sid).build(rand.New(rand.NewSource(seed)), nil)
	case *cmp.Config:
		cfgs := map[party.ID]*cmp.Config{}
		for _, m := range mat {
			cfgs[m.(*cmp.Config).ID] = m.(*cmp.Config)
		}
		return specCMPSign(cfgs, S, msg, sid).build(rand.New(rand.NewSource(seed)), nil)
	case *doerner.ConfigReceiver:
		ids := idsOf("recv", "send")
		return twoPartySim(ids, nil, doerner.SignReceiver(mat[0].(*doerner.ConfigReceiver), ids[0], ids[1], msg, nil),
			doerner.SignSender(mat[1].(*doerner.ConfigSender), ids[1], ids[0], msg, nil), sid, true, true)
	}
	return nil
}

// retRefreshSim builds (does not run) a refresh session on the GIVEN objects (no copies)
func retRefreshSim(mat []interface{}, sid []byte, seed int64) *Sim {
	var ids []party.ID
	for _, m := range mat {
		ids = append(ids, retID(m))
	}
	rng := rand.New(rand.NewSource(seed))
	switch mat[0].(type) {
	case *frost.Config:
		cfgs := map[party.ID]*frost.Config{}
		for _, m := range mat {
			cfgs[m.(*frost.Config).ID] = m.(*frost.Config)
		}
		return SessionSpec{Name: "frost-refresh", IDs: ids, SessionID: sid,
			Start: func(id party.ID) protocol.StartFunc { return frost.Refresh(cfgs[id], ids) }}.build(rng, nil)
	case *frost.TaprootConfig:
		cfgs := map[party.ID]*frost.TaprootConfig{}
		for _, m := range mat {
			cfgs[m.(*frost.TaprootConfig).ID] = m.(*frost.TaprootConfig)
		}
		return SessionSpec{Name: "frost-taproot-refresh", IDs: ids, SessionID: sid,
			Start: func(id party.ID) protocol.StartFunc { return frost.RefreshTaproot(cfgs[id], ids) }}.build(rng, nil)
	case *cmp.Config:
		cfgs := map[party.ID]*cmp.Config{}
		for _, m := range mat {
			cfgs[m.(*cmp.Config).ID] = m.(*cmp.Config)
		}
		return specCMPRefresh(cfgs, ids, sid).build(rng, nil)
	case *doerner.ConfigReceiver:
		ids := idsOf("recv", "send")
		return twoPartySim(ids, nil, doerner.RefreshReceiver(mat[0].(*doerner.ConfigReceiver), ids[0], ids[1], nil),
			doerner.RefreshSender(mat[1].(*doerner.ConfigSender), ids[1], ids[0], nil), sid, true, false)
	}
	return nil
}

// retRun delivers everything in emission order (single driver goroutine; the pump drains Listen while Accept runs)
func retRun(s *Sim) { s.RunFIFO(200000) }

// retRunRound delivers, in emission order, every envelope in flight whose round number is <= k (to the parties in `only`, if
// given); returns the number of deliveries.  After retRunRound(k, nil) every party has consumed all messages of rounds <= k.
func retRunRound(s *Sim, k int, only map[party.ID]bool) int {
	n := 0
	for guard := 0; guard < 200000; guard++ {
		pick := -1
		for i, e := range s.Flight {
			if int(e.Msg.RoundNumber) <= k && (only == nil || only[e.To]) {
				pick = i
				break
			}
		}
		if pick < 0 {
			return n
		}
		s.Deliver(s.take(pick))
		n++
	}
	return n
}

// retMaterialOf: results of a finished key generation / refresh session, in the order of ids
func retMaterialOf(s *Sim, ids []party.ID) ([]interface{}, string) {
	var out []interface{}
	for _, id := range ids {
		r, e := resultOf(s.Nodes[id])
		if r == nil {
			return nil, fmt.Sprintf("party %s did not complete: %s", id, e)
		}
		out = append(out, r)
	}
	return out, ""
}

// retKeygen: fresh key material of one protocol family as in-memory objects (the results of the handlers)
func retKeygen(proto string, ids []party.ID, t int, sid []byte, seed int64) ([]interface{}, []party.ID, string) {
	switch proto {
	case "frost", "frost-taproot":
		kg := runToEnd(specFrostKeygen(ids, t, proto == "frost-taproot", sid), seed, "fifo")
		sorted := party.NewIDSlice(ids)
		m, e := retMaterialOf(kg, sorted)
		return m, sorted, e
	case "cmp":
		usePrimeCache()
		kg := runToEnd(specCMPKeygen(ids, t, sid), seed, "fifo")
		sorted := party.NewIDSlice(ids)
		m, e := retMaterialOf(kg, sorted)
		return m, sorted, e
	case "doerner":
		ids = idsOf("recv", "send")
		g := curve.Secp256k1{}
		kg := twoPartySim(ids, nil, doerner.Keygen(g, true, ids[0], ids[1], nil), doerner.Keygen(g, false, ids[1], ids[0], nil), sid, true, false)
		kg.RunFIFO(10000)
		m, e := retMaterialOf(kg, ids)
		return m, ids, e
	}
	return nil, nil, "unknown protocol " + proto
}

// retRestore: private in-memory objects from the documented serialisation (once, at the start of a scenario)
func retRestore(mat []interface{}) ([]interface{}, string) {
	if _, ok := mat[0].(*doerner.ConfigReceiver); ok {
		g := curve.Secp256k1{}
		br, e1 := cbor.Marshal(mat[0])
		bs, e2 := cbor.Marshal(mat[1])
		if e1 != nil || e2 != nil {
			return nil, fmt.Sprint(e1, e2)
		}
		nr, ns := doerner.EmptyConfigReceiver(g), doerner.EmptyConfigSender(g)
		if err := cbor.Unmarshal(br, nr); err != nil {
			return nil, err.Error()
		}
		if err := cbor.Unmarshal(bs, ns); err != nil {
			return nil, err.Error()
		}
		return []interface{}{nr, ns}, ""
	}
	return restoreAll(mat)
}

func retSessionProblems(c *ctx, s *Sim, key retRefKey, msg []byte, doernerLike bool) []string {
	pub, err := key.verifierKey()
	if err != nil {
		return []string{"expected key cannot be used by the verifier: " + err.Error()}
	}
	return c.c01SessionProblems(s, pub, msg, !doernerLike)
}

func retJoin(p []string) string { return strings.Join(p, "; ") }
