package main

// C15, catalogue of crafted stored material for cmp.Config: arithmetic edge cases of the secret primes and of the
// moduli that no single-node corruption of an honest encoding reaches (each prime passes every per-prime rule but the
// product has 2047 bits; primes one bit short / long whose product has 2048 bits again; P = Q; P = 1 mod 4; composite
// or not-safe P; own table entry that contradicts P*Q; Pedersen parameters that share a factor with the modulus, for
// the own entry and -- the harness knows every party's factors -- for another party's entry).
//
// Every case is a well-formed encoding built from the CBOR tree of a REAL config: only the named quantities change,
// and everything that depends on them is recomputed (own S, T are re-fitted to the new P*Q), so that the one defect of
// the case is the only reason to refuse it. Oracle as for all malformed material: restore fails (no panic), or the
// restored object satisfies every validity rule (c15ValidCMP = the model's valid_config, judged with math/big);
// the model's config_unmarshal predicts the outcome of every case (correspondence).
//
// The crafted integers come from data/craftedprimes.txt (generated once by `vh GENCRAFTED`, gencrafted.go) and are
// re-verified against their specification when they are loaded.

import (
	"bufio"
	"encoding/hex"
	"fmt"
	"math/big"
	"math/rand"
	"os"
	"sort"
	"strings"

	"github.com/cronokirby/saferith"
	"github.com/taurusgroup/multi-party-sig/pkg/paillier"
	"github.com/taurusgroup/multi-party-sig/protocols/cmp"

	"verifharness/sx"
)

func c15LoadCrafted() (map[string]*big.Int, error) {
	f, err := os.Open(dataPath("craftedprimes.txt"))
	if err != nil {
		return nil, err
	}
	defer f.Close()
	out := map[string]*big.Int{}
	sc := bufio.NewScanner(f)
	sc.Buffer(make([]byte, 1<<16), 1<<16)
	for sc.Scan() {
		l := strings.TrimSpace(sc.Text())
		if l == "" || strings.HasPrefix(l, "#") {
			continue
		}
		fs := strings.Fields(l)
		if len(fs) != 2 {
			return nil, fmt.Errorf("craftedprimes.txt: bad line %q", c15Short(l, 40))
		}
		z, ok := new(big.Int).SetString(fs[1], 16)
		if !ok {
			return nil, fmt.Errorf("craftedprimes.txt: bad number for %s", fs[0])
		}
		out[fs[0]] = z
	}
	for _, sp := range craftedSpecs {
		if out[sp.Name] == nil {
			return nil, fmt.Errorf("craftedprimes.txt: entry %s missing", sp.Name)
		}
	}
	return out, nil
}

// c15CraftedOracle: the facts the catalogue relies on, on math/big, on the library's ValidatePrime and on the model.
func (c *ctx) c15CraftedOracle(cr map[string]*big.Int) bool {
	good := true
	for _, sp := range craftedSpecs {
		z := cr[sp.Name]
		err := craftedCheck(sp, z, 20)
		c.res.Case("crafted-oracle/"+sp.Kind, sp.Name, true)
		wantValid := sp.Kind == "safe" && sp.Bits == 1024
		goNow := false
		if p := c13Try(func() { goNow = paillier.ValidatePrime(new(saferith.Nat).SetBig(z, z.BitLen())) == nil }); p != "" {
			c.res.Violate("property", "C15/paillier.ValidatePrime/"+sp.Name+"/panic", "ValidatePrime panics: "+p, c15Replay{Type: "oracle", What: sp.Name})
		}
		v1, merr := c.m.Call("cbor.validate_prime", sx.Big(z))
		ok := err == nil && merr == nil && goNow == wantValid && v1.AsBool() == wantValid
		c.res.Corr(ok)
		if !ok {
			good = good && err == nil
			c.res.Violate("correspondence", "C15/crafted-premise/"+sp.Name, fmt.Sprintf("crafted integer %s (%s): specification check %v, ValidatePrime accepts=%v, model accepts=%v (%v), expected %v",
				sp.Name, sp.Doc, err, goNow, v1.AsBool(), merr, wantValid), c15Replay{Type: "oracle", What: sp.Name})
		}
		if goNow && !wantValid {
			c.res.Violate("property", "C15/paillier.ValidatePrime/"+sp.Name, "ValidatePrime accepts "+sp.Doc, c15Replay{Type: "oracle", What: sp.Name})
		}
	}
	if n := new(big.Int).Mul(cr["S2047A"], cr["S2047B"]); n.BitLen() != 2047 {
		good = false
		c.res.Violate("correspondence", "C15/crafted-premise/S2047A*S2047B", fmt.Sprintf("product has %d bits", n.BitLen()), c15Replay{Type: "oracle", What: "S2047A*S2047B"})
	}
	if n := new(big.Int).Mul(cr["S1025"], cr["S1023"]); n.BitLen() != 2048 {
		good = false
		c.res.Violate("correspondence", "C15/crafted-premise/S1025*S1023", fmt.Sprintf("product has %d bits", n.BitLen()), c15Replay{Type: "oracle", What: "S1025*S1023"})
	}
	return good
}

// c15FitPedersen: valid Pedersen parameters for N (S = r^2, T = S^l, both units, different), from r.
func c15FitPedersen(r *rand.Rand, N *big.Int) (S, T *big.Int) {
	for {
		x := randBig(r, N.BitLen()+64)
		x.Mod(x, N)
		S = new(big.Int).Mul(x, x)
		S.Mod(S, N)
		l := randBig(r, 256)
		l.Add(l, big.NewInt(2))
		T = new(big.Int).Exp(S, l, N)
		one := big.NewInt(1)
		if S.Sign() > 0 && T.Sign() > 0 && S.Cmp(T) != 0 && new(big.Int).GCD(nil, nil, S, N).Cmp(one) == 0 && new(big.Int).GCD(nil, nil, T, N).Cmp(one) == 0 {
			return
		}
	}
}

type c15CraftedCase struct {
	Name  string
	Bytes []byte
}

// c15CraftedCases builds the catalogue from the encodings of two configs of one key generation (self and other).
func (c *ctx) c15CraftedCases(r *rand.Rand, cr map[string]*big.Int, self, other *cmp.Config, selfBytes []byte) ([]c15CraftedCase, error) {
	tree, rest, err := c15Parse(selfBytes, 0)
	if err != nil || len(rest) != 0 {
		return nil, fmt.Errorf("cannot parse the config encoding: %v", err)
	}
	pubIdx := func(t *c15Node, id string) *c15Node {
		pubs := t.get("Public")
		if pubs == nil {
			return nil
		}
		for _, e := range pubs.A {
			if v := e.get("ID"); v != nil && string(v.B) == id {
				return e
			}
		}
		return nil
	}
	if pubIdx(tree, string(self.ID)) == nil || pubIdx(tree, string(other.ID)) == nil || tree.get("P") == nil || tree.get("Q") == nil {
		return nil, fmt.Errorf("config encoding has not the expected shape")
	}
	P0, Q0 := self.Paillier.P().Big(), self.Paillier.Q().Big()
	oP, oQ := other.Paillier.P().Big(), other.Paillier.Q().Big()
	oN := new(big.Int).Mul(oP, oQ)
	one, two := big.NewInt(1), big.NewInt(2)
	var cases []c15CraftedCase
	add := func(name string, f func(t *c15Node)) {
		t := tree.clone()
		f(t)
		cases = append(cases, c15CraftedCase{Name: name, Bytes: t.bytes()})
	}
	setNat := func(n *c15Node, z *big.Int) { n.K, n.B = c15Bytes, z.Bytes() }
	// primes: set P, Q and re-fit the own S, T (and the own N of the table, which the library ignores) to P*Q
	primes := func(name string, P, Q *big.Int) {
		add(name, func(t *c15Node) {
			setNat(t.get("P"), P)
			setNat(t.get("Q"), Q)
			N := new(big.Int).Mul(P, Q)
			S, T := c15FitPedersen(r, N)
			own := pubIdx(t, string(self.ID))
			setNat(own.get("N"), N)
			setNat(own.get("S"), S)
			setNat(own.get("T"), T)
		})
	}
	primes("control-refitted", P0, Q0)
	primes("primes-swapped", Q0, P0)
	primes("primes-1024-product-2047", cr["S2047A"], cr["S2047B"])
	primes("primes-1024-product-2047-swapped", cr["S2047B"], cr["S2047A"])
	primes("P-small-valid-prime", cr["S2047A"], Q0) // both pass the per-prime rules; the size of the product decides
	primes("P-equals-Q", P0, P0)
	primes("Q-equals-P-product-2047", cr["S2047A"], cr["S2047A"])
	primes("P-1023-bits", cr["S1023"], Q0)
	primes("Q-1023-bits", P0, cr["S1023"])
	primes("P-1025-bits", cr["S1025"], Q0)
	primes("Q-1025-bits", P0, cr["S1025"])
	primes("P-1025-Q-1023-product-2048", cr["S1025"], cr["S1023"])
	primes("P-1023-Q-1025-product-2048", cr["S1023"], cr["S1025"])
	primes("P-1-mod-4", cr["P1MOD4"], Q0)
	primes("Q-1-mod-4", P0, cr["P1MOD4"])
	primes("P-prime-not-safe", cr["NOTSAFE"], Q0)
	primes("Q-prime-not-safe", P0, cr["NOTSAFE"])
	primes("P-composite-prime-half", cr["COMPHALF"], Q0)
	primes("Q-composite-prime-half", P0, cr["COMPHALF"])
	primes("P-semiprime", cr["SEMI"], Q0)
	primes("Q-semiprime", P0, cr["SEMI"])
	primes("P-is-own-modulus", new(big.Int).Mul(P0, Q0), Q0)
	primes("P-is-half-of-P", new(big.Int).Rsh(P0, 1), Q0)
	primes("P-is-2P-plus-1", new(big.Int).Add(new(big.Int).Lsh(P0, 1), one), Q0)
	primes("Q-is-other-party-P", P0, oP) // a valid prime, shared with another party's modulus
	// representation
	add("P-leading-zero-bytes", func(t *c15Node) { t.get("P").B = append([]byte{0, 0, 0}, P0.Bytes()...) })
	add("Q-leading-zero-bytes-257", func(t *c15Node) { t.get("Q").B = append(make([]byte, 129), Q0.Bytes()...) })
	// own table entry against P*Q (the library recomputes the own entry: whatever is stored must not get through)
	ownN := func(name string, N *big.Int) {
		add(name, func(t *c15Node) { setNat(pubIdx(t, string(self.ID)).get("N"), N) })
	}
	ownN("own-N-is-other-party-N", oN)
	ownN("own-N-2047-bits", new(big.Int).Mul(cr["S2047A"], cr["S2047B"]))
	ownN("own-N-plus-2", new(big.Int).Add(new(big.Int).Mul(P0, Q0), two))
	ownN("own-N-even", new(big.Int).Add(new(big.Int).Mul(P0, Q0), one))
	ownN("own-N-is-P", P0)
	// Pedersen parameters, own entry (modulus P*Q) and the other party's entry (modulus and factors known to the harness)
	N0 := new(big.Int).Mul(P0, Q0)
	for _, who := range []struct {
		tag  string
		id   string
		N    *big.Int
		P, Q *big.Int
	}{{"own", string(self.ID), N0, P0, Q0}, {"other", string(other.ID), oN, oP, oQ}} {
		who := who
		st := func(name string, S, T *big.Int) {
			add(who.tag+"-"+name, func(t *c15Node) {
				e := pubIdx(t, who.id)
				if S != nil {
					setNat(e.get("S"), S)
				}
				if T != nil {
					setNat(e.get("T"), T)
				}
			})
		}
		fS, fT := c15FitPedersen(r, who.N)
		k := randBig(r, 900)
		k.Add(k, two)
		st("S-T-refitted", fS, fT)
		st("S-is-P", who.P, nil)
		st("T-is-Q", nil, who.Q)
		st("S-multiple-of-P", new(big.Int).Mul(who.P, k), nil)
		st("T-multiple-of-Q", nil, new(big.Int).Mul(who.Q, k))
		st("S-equals-T", fS, fS)
		st("S-zero", new(big.Int), nil)
		st("T-zero", nil, new(big.Int))
		st("S-equals-N", who.N, nil)
		st("T-equals-N-plus-1", nil, new(big.Int).Add(who.N, one))
		st("S-plus-N", new(big.Int).Add(fS, who.N), nil)
		st("S-is-N-minus-1", new(big.Int).Sub(who.N, one), nil)
		st("S-one", one, nil)
	}
	// the other party's modulus
	othN := func(name string, N *big.Int, refit bool) {
		add(name, func(t *c15Node) {
			e := pubIdx(t, string(other.ID))
			setNat(e.get("N"), N)
			if refit {
				S, T := c15FitPedersen(r, N)
				setNat(e.get("S"), S)
				setNat(e.get("T"), T)
			}
		})
	}
	othN("other-N-2047-bits", new(big.Int).Mul(cr["S2047A"], cr["S2047B"]), true)
	othN("other-N-2049-bits", new(big.Int).Mul(cr["S1025"], cr["S1025"]), true)
	othN("other-N-2048-bits-from-1025-1023", new(big.Int).Mul(cr["S1025"], cr["S1023"]), true)
	othN("other-N-even", new(big.Int).Lsh(new(big.Int).Mul(cr["S2047A"], cr["S1023"]), 1), true)
	othN("other-N-2^2047", new(big.Int).Lsh(one, 2047), false)
	othN("other-N-is-own-N", N0, true)
	return cases, nil
}

// c15JudgeCrafted: one case of the catalogue (key C15/cmp.Config/restore-accepts/<case>).
func (c *ctx) c15JudgeCrafted(t *c15Type, name string, b []byte) {
	obj, errText, pan := c15Restore(t, b)
	outcome := "error"
	var probs []string
	switch {
	case pan != "":
		outcome = "panic"
		probs = []string{"panic: " + c15Short(pan, 160)}
	case errText == "":
		outcome = "accepted-valid"
		probs = c15Check(t, obj)
		if len(probs) > 0 {
			outcome = "accepted-invalid"
		}
	}
	c.res.Case("crafted/"+t.Name+"/"+outcome, "crafted/"+name+"/"+hex.EncodeToString(b), true)
	c.res.Dist["crafted-case/"+name+"/"+outcome]++
	rp := c15Replay{Type: t.Name, Field: "crafted", Corruption: name, Bytes: hex.EncodeToString(b), What: "crafted"}
	if claim, diff := c.c15PredictCMP(b, obj, errText, pan); claim {
		c.res.Corr(diff == "")
		if diff != "" {
			c.res.Violate("correspondence", "C15/"+t.Name+"-unmarshal-mismatch/crafted/"+name, diff, rp)
		}
	} else {
		c.res.Dist["corrupt/"+t.Name+"/outside-model"]++
	}
	if len(probs) > 0 {
		sort.Strings(probs)
		rp.Problems = probs
		if pan != "" {
			c.res.Violate("property", "C15/"+t.Name+"/restore-panics/"+name,
				fmt.Sprintf("restoring %s from crafted material (%s) ends in a %s", t.Name, name, strings.Join(probs, "; ")), rp)
		} else {
			c.res.Violate("property", "C15/"+t.Name+"/restore-accepts/"+name,
				fmt.Sprintf("restoring %s from crafted material (%s) gives no error but %s", t.Name, name, strings.Join(probs, "; ")), rp)
		}
	}
}

// c15Crafted runs the catalogue on the first key generation among the materials that has two configs.
func (c *ctx) c15Crafted(mats []c15Material) {
	cr, err := c15LoadCrafted()
	if err != nil {
		panic("C15 crafted material: " + err.Error() + " (generate it with `vh GENCRAFTED`)")
	}
	if !c.c15CraftedOracle(cr) {
		return
	}
	t := c15Types()["cmp.Config"]
	var cfgs []*cmp.Config
	var encs [][]byte
	for _, m := range mats {
		if cf, ok := m.Obj.(*cmp.Config); ok && m.Type == "cmp.Config" && cf.Paillier != nil {
			cfgs, encs = append(cfgs, cf), append(encs, m.Bytes)
		}
	}
	runs := 0
	for i, self := range cfgs {
		var other *cmp.Config
		for j, cf := range cfgs {
			// the same key generation: the factors held by the other party give the modulus self has on record for it
			if pub, in := self.Public[cf.ID]; j != i && other == nil && cf.ID != self.ID && in && pub.Paillier != nil &&
				new(big.Int).Mul(cf.Paillier.P().Big(), cf.Paillier.Q().Big()).Cmp(pub.Paillier.N().Big()) == 0 {
				other = cf
			}
		}
		if other == nil {
			continue
		}
		cases, err := c.c15CraftedCases(c.res.Rng, cr, self, other, encs[i])
		if err != nil {
			c.res.Note("crafted catalogue: %v", err)
			return
		}
		for _, cs := range cases {
			c.c15JudgeCrafted(t, cs.Name, cs.Bytes)
		}
		c.res.Sample(14, map[string]interface{}{"what": "crafted cmp.Config material", "self": string(self.ID), "other": string(other.ID), "cases": len(cases), "first": cases[0].Name})
		runs++
		if !c.thorough() {
			break
		}
	}
	if runs == 0 {
		c.res.Note("crafted catalogue: no pair of cmp configs of one key generation among the materials")
	}
}
