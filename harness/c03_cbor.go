package main

// c03_cbor.go -- a minimal, order-preserving CBOR tree (decode / walk / re-encode) used by the C03/C04 mutation catalogue.
// It is independent of the library's cbor package on purpose: the catalogue must be able to emit encodings the
// library's encoder would never produce (wrong lengths, wrong major types) and must re-encode untouched parts byte-identically.

import (
	"encoding/binary"
	"errors"
	"fmt"
)

type c03Node struct {
	Maj  byte       // major type 0..7
	U    uint64     // argument (uint value, negint argument, tag number, simple value)
	AI   byte       // additional-information of the head as read (keeps float widths / non-shortest heads)
	B    []byte     // payload of byte / text strings, raw bytes of floats
	Kids []*c03Node // array items; map: k0,v0,k1,v1,...; tag: one child
	// Emb: a byte string whose payload is <EmbOff raw bytes> followed by one CBOR item (the library nests
	// MarshalBinary outputs that are themselves CBOR, e.g. polynomial.Exponent = 4-byte count + CBOR map)
	Emb    *c03Node
	EmbOff int
}

var errC03CborShort = errors.New("cbor: truncated")

func c03CborParse(b []byte) (*c03Node, error) {
	n, rest, err := c03CborParse1(b, 0)
	if err != nil {
		return nil, err
	}
	if len(rest) != 0 {
		return nil, fmt.Errorf("cbor: %d trailing bytes", len(rest))
	}
	return n, nil
}

func c03CborParse1(b []byte, depth int) (*c03Node, []byte, error) {
	if depth > 64 {
		return nil, nil, errors.New("cbor: too deep")
	}
	if len(b) == 0 {
		return nil, nil, errC03CborShort
	}
	n := &c03Node{Maj: b[0] >> 5, AI: b[0] & 31}
	b = b[1:]
	switch {
	case n.AI < 24:
		n.U = uint64(n.AI)
	case n.AI == 24:
		if len(b) < 1 {
			return nil, nil, errC03CborShort
		}
		n.U, b = uint64(b[0]), b[1:]
	case n.AI == 25:
		if len(b) < 2 {
			return nil, nil, errC03CborShort
		}
		n.U, b = uint64(binary.BigEndian.Uint16(b)), b[2:]
	case n.AI == 26:
		if len(b) < 4 {
			return nil, nil, errC03CborShort
		}
		n.U, b = uint64(binary.BigEndian.Uint32(b)), b[4:]
	case n.AI == 27:
		if len(b) < 8 {
			return nil, nil, errC03CborShort
		}
		n.U, b = binary.BigEndian.Uint64(b), b[8:]
	default:
		return nil, nil, errors.New("cbor: indefinite lengths are not produced by the library")
	}
	switch n.Maj {
	case 0, 1, 7:
		return n, b, nil
	case 2, 3:
		if uint64(len(b)) < n.U {
			return nil, nil, errC03CborShort
		}
		n.B = append([]byte{}, b[:n.U]...)
		n.AI = 0
		if n.Maj == 2 && depth < 8 {
			for _, off := range []int{0, 4} {
				if len(n.B) > off+8 && (n.B[off]>>5 == 5 || n.B[off]>>5 == 4) {
					if e, rest, err := c03CborParse1(n.B[off:], depth+1); err == nil && len(rest) == 0 && len(e.Kids) > 0 {
						n.Emb, n.EmbOff = e, off
						break
					}
				}
			}
		}
		return n, b[n.U:], nil
	case 4, 5, 6:
		cnt := n.U
		if n.Maj == 5 {
			cnt *= 2
		}
		if n.Maj == 6 {
			cnt = 1
		}
		if cnt > uint64(len(b)) {
			return nil, nil, errC03CborShort
		}
		n.AI = 0
		for i := uint64(0); i < cnt; i++ {
			k, rest, err := c03CborParse1(b, depth+1)
			if err != nil {
				return nil, nil, err
			}
			n.Kids = append(n.Kids, k)
			b = rest
		}
		return n, b, nil
	}
	return nil, nil, errors.New("cbor: unreachable")
}

func c03CborHead(out []byte, maj byte, u uint64) []byte {
	m := maj << 5
	switch {
	case u < 24:
		return append(out, m|byte(u))
	case u < 1<<8:
		return append(out, m|24, byte(u))
	case u < 1<<16:
		return append(out, m|25, byte(u>>8), byte(u))
	case u < 1<<32:
		return append(out, m|26, byte(u>>24), byte(u>>16), byte(u>>8), byte(u))
	}
	var t [8]byte
	binary.BigEndian.PutUint64(t[:], u)
	return append(append(out, m|27), t[:]...)
}

func (n *c03Node) encode(out []byte) []byte {
	switch n.Maj {
	case 0, 1:
		return c03CborHead(out, n.Maj, n.U)
	case 7:
		// keep the width that was read (floats, simple values)
		switch n.AI {
		case 25:
			return append(out, 7<<5|25, byte(n.U>>8), byte(n.U))
		case 26:
			return append(out, 7<<5|26, byte(n.U>>24), byte(n.U>>16), byte(n.U>>8), byte(n.U))
		case 27:
			var t [8]byte
			binary.BigEndian.PutUint64(t[:], n.U)
			return append(append(out, 7<<5|27), t[:]...)
		case 24:
			return append(out, 7<<5|24, byte(n.U))
		}
		return append(out, 7<<5|byte(n.U&31))
	case 2, 3:
		if n.Emb != nil {
			n.B = append(append([]byte{}, n.B[:n.EmbOff]...), n.Emb.encode(nil)...)
		}
		out = c03CborHead(out, n.Maj, uint64(len(n.B)))
		return append(out, n.B...)
	case 4:
		out = c03CborHead(out, 4, uint64(len(n.Kids)))
	case 5:
		out = c03CborHead(out, 5, uint64(len(n.Kids)/2))
	case 6:
		out = c03CborHead(out, 6, n.U)
	}
	for _, k := range n.Kids {
		out = k.encode(out)
	}
	return out
}

func (n *c03Node) bytes() []byte { return n.encode(nil) }

func (n *c03Node) clone() *c03Node {
	c := *n
	c.B = append([]byte(nil), n.B...)
	c.Kids = make([]*c03Node, len(n.Kids))
	for i, k := range n.Kids {
		c.Kids[i] = k.clone()
	}
	if n.Emb != nil {
		c.Emb = n.Emb.clone()
	}
	return &c
}

// cleaf is one addressable position of a message: a leaf (string, integer, simple value) or an inner container.
type c03Leaf struct {
	Path string
	N    *c03Node
}

func c03KeyName(k *c03Node) string {
	switch k.Maj {
	case 3:
		return string(k.B)
	case 2:
		return fmt.Sprintf("h'%x'", k.B)
	case 0:
		return fmt.Sprint(k.U)
	}
	return "?"
}

// walk lists every node below n (containers included, root included) with its field path.
func (n *c03Node) walk(path string, f func(path string, n *c03Node)) {
	f(path, n)
	switch n.Maj {
	case 4:
		for i, k := range n.Kids {
			k.walk(fmt.Sprintf("%s[%d]", path, i), f)
		}
	case 5:
		for i := 0; i+1 < len(n.Kids); i += 2 {
			n.Kids[i+1].walk(path+"."+c03KeyName(n.Kids[i]), f)
		}
	case 6:
		n.Kids[0].walk(path+"#tag", f)
	case 2:
		if n.Emb != nil {
			n.Emb.walk(path+"~", f)
		}
	}
}

func (n *c03Node) leaves() []c03Leaf {
	var out []c03Leaf
	n.walk("", func(p string, x *c03Node) {
		if p == "" {
			p = "."
		}
		out = append(out, c03Leaf{p, x})
	})
	return out
}

// find returns the node at path (as produced by walk), or nil
func (n *c03Node) find(path string) *c03Node {
	var hit *c03Node
	n.walk("", func(p string, x *c03Node) {
		if p == "" {
			p = "."
		}
		if p == path && hit == nil {
			hit = x
		}
	})
	return hit
}

func (n *c03Node) isLeaf() bool { return (n.Maj <= 3 || n.Maj == 7) && n.Emb == nil }

// set replaces the content of n by that of m (keeps the pointer, so the enclosing tree sees the change)
func (n *c03Node) set(m *c03Node) { *n = *m.clone() }
