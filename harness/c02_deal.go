package main

// C02, dealer part: "when key generation completes ..." also has to hold when ONE participant deals a polynomial the honest
// code would never sample: of degree t-1, t+1, t+2 (consistent commitment and shares, c03_deal.go), or of the right degree but
// re-dealt (f + c*x).  Whenever ALL honest parties complete, their material goes through the unchanged reference checker
// (checkSharing: same key and table, own share matches, every (t+1)-subset of shares and of table entries gives the reported
// key).  FROST / FROST-Taproot: the dealer's messages are rewritten on the wire; CMP: its first round gets another polynomial.

import (
	"fmt"
	"math/rand"
	"os"
	"strings"
	"time"
)

var c02DealVariants = []string{"degree-1", "degree+1", "degree+2", "redeal"}

// c02ShareVariants: the dealer's commitment is kept / re-dealt and ONE recipient gets the negated share or another recipient's
// share (c03_deal.go).  An honest victim refuses; if a check lets it through and everybody completes, checkSharing judges.
var c02ShareVariants = []string{"asdealt+negated-share", "asdealt+other-share", "redeal+negated-share"}

func c02DegLabel(alt string) string {
	switch alt {
	case "degree-1":
		return "t-1"
	case "degree+1":
		return "t+1"
	case "degree+2":
		return "t+2"
	case "redeal":
		return "t(re-dealt)"
	}
	return alt
}

func (c *ctx) c02DealJudge(p *c03Proto, out *c03Outcome) {
	cs := out.Case
	finished := 0
	var views []*shareView
	var probs []string
	for _, hp := range out.Honest {
		if hp.Res == nil {
			continue
		}
		finished++
		v, err := viewOfResult(hp.Res)
		if err != nil {
			probs = append(probs, fmt.Sprintf("party %s: %v", hp.ID, err))
			continue
		}
		views = append(views, v)
	}
	class := "not-applicable"
	switch {
	case !out.Applied:
	case finished == len(out.Honest):
		class = "all-honest-completed"
	case finished > 0:
		class = "some-honest-completed"
	default:
		class = "nobody-completed"
	}
	if c02DebugList() != "" {
		fmt.Printf("%-22s %s n=%d t=%d dealer=%s %s note=%q :: %s\n", class, p.Name, len(p.IDs), cs.Thr, cs.Cheater, cs.Alt, out.Note, c03Describe(out))
	}
	c.res.Case(fmt.Sprintf("%s/dealer-degree=%s/%s", p.Name, c02DegLabel(cs.Alt), class), fmt.Sprintf("%s/%v/%d/%s/%s/%d", p.Name, cs.Parties, cs.Thr, cs.Cheater, cs.Alt, cs.Seed), out.Applied)
	if class != "all-honest-completed" {
		return
	}
	if len(probs) == 0 {
		func() {
			defer func() {
				if r := recover(); r != nil {
					probs = append(probs, fmt.Sprintf("key material could not be evaluated (malformed): %v", r))
				}
			}()
			p2, _ := c.checkSharing(views, 0)
			probs = append(probs, p2...)
		}()
	}
	c.res.Corr(len(probs) == 0)
	c.res.Sample(5, map[string]interface{}{"spec": p.Name, "n": len(p.IDs), "t": cs.Thr, "dealer": cs.Cheater, "dealt": cs.Alt, "outcome": "all honest parties completed"})
	if len(probs) > 0 {
		c.res.Violate("property", fmt.Sprintf("C02/%s/dealer-degree=%s/%s", p.Name, c02DegLabel(cs.Alt), c02ProblemClass(probs[0])),
			fmt.Sprintf("n=%d t=%d: %s deals (%s), every honest party completes, but: %s", len(p.IDs), cs.Thr, cs.Cheater, cs.Alt, strings.Join(probs, "; ")), cs)
	}
}

func c02DebugList() string { return os.Getenv("VERIF_C02_LIST") }

func (c *ctx) c02Dealers() {
	setNames := []string{"names", "short", "adjacent", "nonascii", "long32", "long40", "prefix"}
	maxN := 4
	if c.thorough() {
		maxN = 5
	}
	rng := rand.New(rand.NewSource(c.res.Seed*15485863 + 11))
	t0 := time.Now()
	k, runs := 0, 0
	for n := 2; n <= maxN; n++ {
		for t := 0; t < n; t++ {
			for _, tap := range []bool{false, true} {
				k++
				ids := idsOf(idSets[setNames[k%len(setNames)]][:n]...)
				p := c03ProtoFrostKeygenNT(ids, t, tap)
				pos := 1
				if c.thorough() {
					pos = 0
				}
				cases := c03DealCases(rng, "C02", p, t, false, c02DealVariants, pos)
				if n >= 3 || c.thorough() {
					cases = append(cases, c03DealCases(rng, "C02", p, t, false, c02ShareVariants, pos)...)
				}
				for _, out := range c03RunAll(p, cases) {
					runs++
					c.c02DealJudge(p, out)
				}
			}
		}
	}
	c.res.Note("dealer of a wrong-degree / re-dealt polynomial, FROST: %d runs in %.1f s", runs, time.Since(t0).Seconds())
}

func (c *ctx) c02DealersCMP() {
	rng := rand.New(rand.NewSource(c.res.Seed*15485863 + 12))
	shapes := [][2]int{{3, 1}}
	variants := []string{"degree+1", "degree-1", "redeal+negated-share"}
	if c.thorough() {
		shapes = [][2]int{{3, 1}, {3, 2}, {4, 1}, {2, 0}}
		variants = c02DealVariants
	}
	t0 := time.Now()
	runs := 0
	for _, nt := range shapes {
		ids := idsOf(idSets["names"][:nt[0]]...)
		p := c03ProtoCMPKeygenNT(ids, nt[1])
		cases := c03DealCases(rng, "C02", p, nt[1], false, variants, 1)
		for _, out := range c03RunAll(p, cases) {
			runs++
			c.c02DealJudge(p, out)
		}
	}
	c.res.Note("dealer of a wrong-degree / re-dealt polynomial, CMP: %d runs in %.1f s", runs, time.Since(t0).Seconds())
}

// c02Replay: a replay file of a dealer case (a c03Case with participants and threshold) re-runs exactly that case
func (c *ctx) c02Replay() bool {
	var cs c03Case
	if err := readJSON(c.replay, &cs); err != nil || !c03IsDeal(cs) || len(cs.Parties) == 0 {
		return false
	}
	if cs.Proto == "cmp-keygen" {
		usePrimeCache()
	}
	p := c03ProtoForCase(nil, cs)
	if p == nil {
		c.res.Note("replay: unknown protocol %q", cs.Proto)
		return true
	}
	c.c02DealJudge(p, c03Run(p, cs))
	return true
}

// c02ProblemClass: stable class of a checkSharing problem (the texts carry party names)
func c02ProblemClass(p string) string {
	switch {
	case strings.Contains(p, "do not interpolate"):
		return "table-subset-does-not-interpolate-to-the-key"
	case strings.Contains(p, "reconstruct a secret whose"):
		return "shares-reconstruct-another-key"
	case strings.Contains(p, "reconstruct a different secret"):
		return "subsets-reconstruct-different-secrets"
	case strings.Contains(p, "different group keys"):
		return "different-group-keys"
	case strings.Contains(p, "different public shares"), strings.Contains(p, "tables of different size"), strings.Contains(p, "different thresholds"):
		return "different-tables"
	case strings.Contains(p, "does not match its public table entry"):
		return "share-does-not-match-table"
	case strings.Contains(p, "is zero"):
		return "zero-share"
	case strings.Contains(p, "identity"):
		return "identity-group-key"
	}
	return "inconsistent"
}
