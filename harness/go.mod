module verifharness

go 1.20

require (
	github.com/cronokirby/saferith v0.33.0
	github.com/decred/dcrd/dcrec/secp256k1/v4 v4.2.0
	github.com/fxamacker/cbor/v2 v2.4.0
	github.com/taurusgroup/multi-party-sig v0.0.0
	github.com/zeebo/blake3 v0.2.3
)

require (
	github.com/klauspost/cpuid/v2 v2.2.5 // indirect
	github.com/x448/float16 v0.8.4 // indirect
	golang.org/x/sync v0.3.0 // indirect
)

replace github.com/taurusgroup/multi-party-sig => /repo
