package main

// C12 -- Paillier encryption and MtA are exact on their full domain.
// Correspondence: exact values of EncWithNonce/Enc, Dec, DecWithRandomness, Add, Mul, ValidateCiphertexts, ValidateN,
// arith.Modulus.Exp/ExpI (with and without factorisation) and mta.ProveAffG/ProveAffP (+ the receiver's decryption)
// against the extracted Coq model (coq/Model/Paillier.v, ops pai.* of DispatchPaillier.v).
// Search: the property's own oracles, judged with math/big only (see c12_oracle.go): range refusal, dec(enc m) = m,
// Add/Mul = integer arithmetic (symmetric wrap-around out of range), recovered randomness re-encrypts,
// validation = units below N^2, alpha + beta = a*b over Z.
// Every evaluated case is a c12Case (JSON-able through c12ReplayT): generation, nearby search and -replay share c12Run.

import (
	"bufio"
	"fmt"
	"math/big"
	"math/rand"
	"os"
	"sort"
	"strings"
	"time"

	"github.com/cronokirby/saferith"

	"github.com/taurusgroup/multi-party-sig/pkg/math/arith"
	"github.com/taurusgroup/multi-party-sig/pkg/paillier"
	"github.com/taurusgroup/multi-party-sig/pkg/pedersen"
	"github.com/taurusgroup/multi-party-sig/pkg/zk"
)

func init() { props["C12"] = runC12 }

const c12PrimesFile = "/verif/data/safeprimes.txt"

// ---------------------------------------------------------------------------------------------------------------
// keys

type c12Key struct {
	name  string
	size  string // "micro" | "small" | "real"
	p, q  *big.Int
	N, N2 *big.Int
	half  *big.Int // (N-1)/2
	phi   *big.Int
	lam   *big.Int             // lcm(p-1, q-1)
	sk    *paillier.SecretKey  // NewSecretKeyFromPrimes(p, q): its embedded PublicKey takes the CRT route
	pk    *paillier.PublicKey  // NewPublicKey(N): no factorisation
	ped   *pedersen.Parameters // auxiliary parameters when this key is the MtA receiver (real keys only)
	// arith.Modulus objects built directly (index 0: modulus N, 1: modulus N^2)
	modN, modF, modS [2]*arith.Modulus // from n only / from factors (p,q) / from factors swapped (q,p)
}

func c12Nat(z *big.Int) *saferith.Nat {
	b := z.BitLen()
	if b == 0 {
		b = 1
	}
	return new(saferith.Nat).SetBig(z, b)
}

func c12Int(z *big.Int) *saferith.Int {
	b := z.BitLen()
	if b == 0 {
		b = 1
	}
	return new(saferith.Int).SetBig(z, b)
}

func c12NewKey(name, size string, p, q *big.Int) *c12Key {
	k := &c12Key{name: name, size: size, p: new(big.Int).Set(p), q: new(big.Int).Set(q)}
	k.N = new(big.Int).Mul(p, q)
	k.N2 = new(big.Int).Mul(k.N, k.N)
	k.half = new(big.Int).Rsh(new(big.Int).Sub(k.N, c12One), 1)
	p1, q1 := new(big.Int).Sub(p, c12One), new(big.Int).Sub(q, c12One)
	k.phi = new(big.Int).Mul(p1, q1)
	g := new(big.Int).GCD(nil, nil, p1, q1)
	k.lam = new(big.Int).Div(k.phi, g)
	k.sk = paillier.NewSecretKeyFromPrimes(c12Nat(p), c12Nat(q))
	k.pk = paillier.NewPublicKey(saferith.ModulusFromNat(c12Nat(k.N)))
	pp, qq := new(big.Int).Mul(p, p), new(big.Int).Mul(q, q)
	k.modN = [2]*arith.Modulus{arith.ModulusFromN(saferith.ModulusFromNat(c12Nat(k.N))), arith.ModulusFromN(saferith.ModulusFromNat(c12Nat(k.N2)))}
	k.modF = [2]*arith.Modulus{arith.ModulusFromFactors(c12Nat(p), c12Nat(q)), arith.ModulusFromFactors(c12Nat(pp), c12Nat(qq))}
	k.modS = [2]*arith.Modulus{arith.ModulusFromFactors(c12Nat(q), c12Nat(p)), arith.ModulusFromFactors(c12Nat(qq), c12Nat(pp))}
	return k
}

// usable: p != q odd primes and gcd(N, phi) = 1 (the theorem's hypotheses)
func c12KeyOK(p, q *big.Int) bool {
	if p.Cmp(q) == 0 || p.Bit(0) == 0 || q.Bit(0) == 0 {
		return false
	}
	n := new(big.Int).Mul(p, q)
	phi := new(big.Int).Mul(new(big.Int).Sub(p, c12One), new(big.Int).Sub(q, c12One))
	return new(big.Int).GCD(nil, nil, n, phi).Cmp(c12One) == 0
}

func c12GenPrime(r *rand.Rand, bits int) *big.Int {
	for {
		z := c12RandBits(r, bits)
		z.SetBit(z, bits-1, 1)
		z.SetBit(z, 0, 1)
		if z.ProbablyPrime(32) {
			return z
		}
	}
}

// c12GenKey draws a key with primes of pbits and qbits bits; order = +1 forces p > q, -1 forces p < q.
func c12GenKey(r *rand.Rand, name, size string, pbits, qbits, order int) *c12Key {
	for {
		p, q := c12GenPrime(r, pbits), c12GenPrime(r, qbits)
		if (order > 0 && p.Cmp(q) < 0) || (order < 0 && p.Cmp(q) > 0) {
			p, q = q, p
		}
		if c12KeyOK(p, q) {
			return c12NewKey(name, size, p, q)
		}
	}
}

func c12ReadPrimes(path string) (out []*big.Int, err error) {
	f, err := os.Open(path)
	if err != nil {
		return nil, err
	}
	defer f.Close()
	sc := bufio.NewScanner(f)
	sc.Buffer(make([]byte, 1<<16), 1<<20)
	for sc.Scan() {
		line := strings.TrimSpace(sc.Text())
		if line == "" || strings.HasPrefix(line, "#") {
			continue
		}
		fs := strings.Fields(line)
		z, ok := new(big.Int).SetString(fs[len(fs)-1], 16)
		if !ok {
			return nil, fmt.Errorf("bad hex in %s", path)
		}
		out = append(out, z)
	}
	return out, sc.Err()
}

// the key cache lets replay and nearby search find keys by their primes
var c12Keys = map[string]*c12Key{}

func c12KeyFor(name, size string, p, q *big.Int) *c12Key {
	id := p.Text(16) + "|" + q.Text(16)
	if k, ok := c12Keys[id]; ok {
		return k
	}
	if size == "" {
		switch n := p.BitLen() + q.BitLen(); {
		case n <= 16:
			size = "micro"
		case n < 2000:
			size = "small"
		default:
			size = "real"
		}
	}
	if name == "" {
		name = fmt.Sprintf("replay-%d", p.BitLen()+q.BitLen())
	}
	k := c12NewKey(name, size, p, q)
	c12Keys[id] = k
	return k
}

// c12MakeKeys: micro and small keys from c.res.Rng, real keys from pkg/zk/default.go and /verif/data/safeprimes.txt.
func (c *ctx) c12MakeKeys() (micro *c12Key, small, real []*c12Key) {
	r := c.res.Rng
	reg := func(k *c12Key) *c12Key { c12Keys[k.p.Text(16)+"|"+k.q.Text(16)] = k; return k }
	micro = reg(c12GenKey(r, "micro-9bit", "micro", 4, 5, 0))
	small = []*c12Key{
		reg(c12GenKey(r, "small-64a", "small", 32, 32, -1)),
		reg(c12GenKey(r, "small-64b", "small", 33, 31, +1)),
		reg(c12GenKey(r, "small-128", "small", 64, 64, 0)),
	}
	real = []*c12Key{
		reg(c12NewKey("zk-prover", "real", zk.ProverPaillierSecret.P().Big(), zk.ProverPaillierSecret.Q().Big())),
		reg(c12NewKey("zk-verifier", "real", zk.VerifierPaillierSecret.P().Big(), zk.VerifierPaillierSecret.Q().Big())),
	}
	ps, err := c12ReadPrimes(c12PrimesFile)
	if err != nil || len(ps) < 2 {
		c.res.Note("cannot read %s (%v): running with %d real keys only", c12PrimesFile, err, len(real))
	} else {
		// the file may be shared with other users and grow: take the first pair (thorough: the first three)
		maxPairs := 1
		if c.thorough() {
			maxPairs = 3
		}
		for i := 0; i+1 < len(ps) && i/2 < maxPairs; i += 2 {
			if c12KeyOK(ps[i], ps[i+1]) && ps[i].ProbablyPrime(16) && ps[i+1].ProbablyPrime(16) {
				real = append(real, reg(c12NewKey(fmt.Sprintf("file-%d", i/2), "real", ps[i], ps[i+1])))
			} else {
				c.res.Note("%s: pair %d is not a usable prime pair, skipped", c12PrimesFile, i/2)
			}
		}
	}
	// Pedersen parameters for the MtA receiver side, drawn by the library from a deterministic tape
	for _, k := range real {
		func() {
			defer c12WithTape(r.Int63())()
			defer func() {
				if e := recover(); e != nil {
					c.res.Note("GeneratePedersen panicked for %s: %v", k.name, e)
				}
			}()
			k.ped, _ = k.sk.GeneratePedersen()
		}()
	}
	return
}

// ---------------------------------------------------------------------------------------------------------------
// case generation

type c12Gen struct {
	c *ctx
	r *rand.Rand
	// batching: cases are collected (generation is serial and uses only r) and evaluated in parallel by flush
	batching bool
	batch    []*c12Case
}

// plaintext lattice of the property: 0, +-1, +-(N-1)/2 and neighbours, +-N.., +-2^k, random in and out of range.
// level 0: boundary points only; 1: + powers of two and a few random; 2: everything.
func (g *c12Gen) plaintexts(k *c12Key, level int) []*big.Int {
	var out []*big.Int
	pm := func(z *big.Int) { out = append(out, new(big.Int).Set(z), new(big.Int).Neg(z)) }
	add := func(z *big.Int, d int64) *big.Int { return new(big.Int).Add(z, big.NewInt(d)) }
	out = append(out, new(big.Int))
	pm(c12One)
	pm(k.half)
	pm(add(k.half, 1))
	if level >= 1 {
		pm(big.NewInt(2))
		pm(add(k.half, -1))
		pm(add(k.half, 2))
		pm(add(k.N, -1))
		pm(k.N)
		pm(add(k.N, 1))
		bits := k.N.BitLen()
		ks := []int{7, 8, 63, 64, bits - 3, bits - 2, bits - 1, bits}
		if level >= 2 {
			ks = append(ks, 1, 31, 32, 65, 255, 256, 1279, 1280, bits/2, bits+1, 2*bits, 2*bits+7)
			pm(k.N2)
			pm(new(big.Int).Lsh(k.N, 1))
		}
		seen := map[int]bool{}
		for _, e := range ks {
			if e >= 1 && !seen[e] {
				seen[e] = true
				pm(new(big.Int).Lsh(c12One, uint(e)))
			}
		}
		nr := 2
		if level >= 2 {
			nr = 6
		}
		for i := 0; i < nr; i++ {
			out = append(out, g.randIn(k), g.randOut(k))
		}
		out = append(out, c12Signed(g.r, c12RandBits(g.r, 1+g.r.Intn(k.N.BitLen()-1))))
	}
	return out
}

// uniform in [-half, half]
func (g *c12Gen) randIn(k *c12Key) *big.Int {
	z := c12RandBelow(g.r, k.N)
	return z.Sub(z, k.half)
}

// out of range: half < |m| <= 2N
func (g *c12Gen) randOut(k *c12Key) *big.Int {
	span := new(big.Int).Sub(new(big.Int).Lsh(k.N, 1), k.half)
	z := c12RandBelow(g.r, span)
	z.Add(z, k.half).Add(z, c12One)
	return c12Signed(g.r, z)
}

// random unit modulo N (reduced), with a few edge nonces now and then
func (g *c12Gen) nonce(k *c12Key) *big.Int {
	switch g.r.Intn(16) {
	case 0:
		return big.NewInt(1)
	case 1:
		return new(big.Int).Sub(k.N, c12One)
	case 2:
		return new(big.Int).Add(k.N, c12One) // not reduced: the library reduces
	}
	for {
		z := c12RandBelow(g.r, k.N)
		if z.Sign() > 0 && new(big.Int).GCD(nil, nil, z, k.N).Cmp(c12One) == 0 {
			return z
		}
	}
}

// ciphertext candidates: around 0, N, N^2, multiples of p and q, encryptions of boundary plaintexts, random.
func (g *c12Gen) ciphertexts(k *c12Key, level int) []*big.Int {
	var out []*big.Int
	add := func(z *big.Int, d int64) *big.Int { return new(big.Int).Add(z, big.NewInt(d)) }
	for _, d := range []int64{0, 1, 2} {
		out = append(out, big.NewInt(d))
	}
	for _, d := range []int64{-1, 0, 1} {
		out = append(out, add(k.N, d), add(k.N2, d))
	}
	mulBelow := func(f *big.Int) *big.Int { // random multiple of f below N^2
		q := new(big.Int).Div(k.N2, f)
		z := c12RandBelow(g.r, q)
		if z.Sign() == 0 {
			z.SetInt64(1)
		}
		return z.Mul(z, f)
	}
	out = append(out, new(big.Int).Set(k.p), new(big.Int).Set(k.q), mulBelow(k.p), mulBelow(k.q))
	// encryptions (math/big) of the boundary plaintexts: dec must return exactly these
	for _, m := range []*big.Int{new(big.Int), c12One, big.NewInt(-1), k.half, new(big.Int).Neg(k.half)} {
		out = append(out, c12BigEnc(k, m, g.nonce(k)))
	}
	out = append(out, c12BigEnc(k, big.NewInt(-1), c12One)) // DecWithRandomness = (-1, 1): the reply shaped like the protocol's error
	nr := 2
	if level >= 1 {
		out = append(out, new(big.Int).Mul(k.p, k.p), new(big.Int).Mul(k.q, k.q), mulBelow(k.N),
			new(big.Int).Mul(k.N, k.p), new(big.Int).Mul(k.N, k.q), new(big.Int).Add(k.N2, k.N), add(new(big.Int).Lsh(k.N2, 1), 1),
			new(big.Int).Sub(k.N2, k.p), new(big.Int).Sub(k.N2, k.q))
		nr = 6
	}
	if level >= 2 {
		nr = 20
		for i := 0; i < 4; i++ {
			out = append(out, mulBelow(k.p), mulBelow(k.q))
		}
		out = append(out, add(k.N2, 2), add(k.N2, -2), new(big.Int).Mul(k.N2, k.N))
	}
	for i := 0; i < nr; i++ {
		out = append(out, c12RandBelow(g.r, k.N2))
		if i%3 == 0 {
			z := c12RandBits(g.r, k.N2.BitLen()+1+g.r.Intn(70))
			out = append(out, z.Add(z, k.N2)) // above N^2
		}
		if i%2 == 0 {
			out = append(out, c12BigEnc(k, g.randIn(k), g.nonce(k)))
		}
	}
	return out
}

// plaintext pairs whose sum is in range, on the boundary, or just out of range
func (g *c12Gen) addPairs(k *c12Key, level int) [][2]*big.Int {
	h := k.half
	n := func(z *big.Int) *big.Int { return new(big.Int).Neg(z) }
	add := func(z *big.Int, d int64) *big.Int { return new(big.Int).Add(z, big.NewInt(d)) }
	out := [][2]*big.Int{
		{add(h, -1), big.NewInt(1)}, // = +half
		{h, big.NewInt(1)},          // = half+1: wraps to -half
		{n(h), big.NewInt(-1)},      // wraps to +half
		{h, n(h)},                   // = 0
		{h, h},                      // = N-1: wraps to -1
		{n(h), n(h)},                // wraps to +1
	}
	if level >= 1 {
		out = append(out, [2]*big.Int{new(big.Int), new(big.Int)}, [2]*big.Int{big.NewInt(1), big.NewInt(-1)},
			[2]*big.Int{n(add(h, -1)), big.NewInt(-1)}, [2]*big.Int{h, new(big.Int)}, [2]*big.Int{add(h, -1), big.NewInt(2)})
		nr := 2
		if level >= 2 {
			nr = 8
		}
		for i := 0; i < nr; i++ {
			// m1 random; m2 chosen so that the sum is at distance d from the boundary
			m1 := g.randIn(k)
			d := int64(g.r.Intn(5) - 2)
			var m2 *big.Int
			if m1.Sign() >= 0 {
				m2 = new(big.Int).Sub(add(h, d), m1)
			} else {
				m2 = new(big.Int).Sub(n(add(h, d)), m1)
			}
			if m2.CmpAbs(h) <= 0 {
				out = append(out, [2]*big.Int{m1, m2})
			}
			out = append(out, [2]*big.Int{g.randIn(k), g.randIn(k)})
		}
	}
	return out
}

// (scalar, plaintext) pairs: scalars 0, 1, -1, q-1, random signed; products in, on the boundary, just out of range
func (g *c12Gen) mulPairs(k *c12Key, level int) [][2]*big.Int {
	h := k.half
	n := func(z *big.Int) *big.Int { return new(big.Int).Neg(z) }
	q1 := new(big.Int).Sub(c12SecpQ, c12One)
	out := [][2]*big.Int{
		{new(big.Int), h}, {big.NewInt(1), n(h)}, {big.NewInt(-1), h}, {big.NewInt(-1), n(h)},
		{big.NewInt(2), h},                                     // = N-1: wraps to -1
		{q1, big.NewInt(1)}, {q1, c12RandBelow(g.r, c12SecpQ)}, // the MtA shape a*b
	}
	scal := []*big.Int{big.NewInt(2), big.NewInt(-3), q1, n(q1), c12Signed(g.r, c12RandBelow(g.r, c12SecpQ))}
	if level >= 1 {
		out = append(out, [2]*big.Int{new(big.Int), new(big.Int)}, [2]*big.Int{big.NewInt(1), big.NewInt(1)},
			[2]*big.Int{k.N, big.NewInt(1)}, [2]*big.Int{n(k.N), h}, [2]*big.Int{h, h}, [2]*big.Int{n(h), big.NewInt(2)},
			[2]*big.Int{c12Signed(g.r, c12RandBits(g.r, k.N.BitLen())), g.randIn(k)})
		scal = append(scal, c12Signed(g.r, c12RandBits(g.r, 1+g.r.Intn(64))), c12Signed(g.r, c12RandBits(g.r, 1+g.r.Intn(k.N.BitLen()))))
	}
	if level >= 2 {
		for i := 0; i < 6; i++ {
			scal = append(scal, c12Signed(g.r, c12RandBits(g.r, 1+g.r.Intn(k.N.BitLen()+8))))
			out = append(out, [2]*big.Int{c12Signed(g.r, c12RandBelow(g.r, c12SecpQ)), g.randIn(k)})
		}
	}
	for _, s := range scal {
		if s.Sign() == 0 {
			continue
		}
		// largest |m| with |s*m| <= half, and the next one (just out of range)
		m0 := new(big.Int).Div(h, new(big.Int).Abs(s))
		m1 := new(big.Int).Add(m0, c12One)
		out = append(out, [2]*big.Int{s, m0}, [2]*big.Int{s, n(m0)})
		if m1.Cmp(h) <= 0 {
			out = append(out, [2]*big.Int{s, m1}, [2]*big.Int{s, n(m1)})
		}
	}
	return out
}

// (a, b, betaNeg) for the MtA core on small keys: a*b + betaNeg in range, on the boundary and just outside
func (g *c12Gen) mtaCoreTuples(k *c12Key, level int) [][3]*big.Int {
	h := k.half
	var out [][3]*big.Int
	n := 6 + 10*level
	for i := 0; i < n; i++ {
		bits := 1 + g.r.Intn((k.N.BitLen()+1)/2)
		a, b := c12RandBits(g.r, bits), c12RandBits(g.r, 1+g.r.Intn(bits))
		switch i % 6 {
		case 0:
			a = new(big.Int)
		case 1:
			b = big.NewInt(1)
		}
		if g.r.Intn(3) == 0 {
			b = c12Signed(g.r, b)
		}
		prod := new(big.Int).Mul(a, b)
		if prod.CmpAbs(h) > 0 {
			continue
		}
		// betaNeg puts a*b + betaNeg at distance d from the boundary (d > 0: outside), or is random
		var bn *big.Int
		if i%2 == 0 {
			d := int64(g.r.Intn(5) - 2)
			bn = new(big.Int).Sub(new(big.Int).Add(h, big.NewInt(d)), prod)
			if g.r.Intn(2) == 0 {
				bn = new(big.Int).Sub(new(big.Int).Neg(new(big.Int).Add(h, big.NewInt(d))), prod)
			}
		} else {
			bn = g.randIn(k)
		}
		if bn.CmpAbs(h) > 0 {
			continue
		}
		out = append(out, [3]*big.Int{a, b, bn})
	}
	return out
}

// (which, x, e) triples for arith.Modulus.Exp / ExpI; which = 0: modulus N, 1: modulus N^2
func (g *c12Gen) expTriples(k *c12Key, level int, sparse bool) [][3]*big.Int {
	var out [][3]*big.Int
	for w := 0; w < 2; w++ {
		n, p, q := k.N, k.p, k.q
		phi := k.phi
		if w == 1 {
			n, p, q = k.N2, new(big.Int).Mul(k.p, k.p), new(big.Int).Mul(k.q, k.q)
			phi = new(big.Int).Mul(k.phi, k.N)
		}
		add := func(z *big.Int, d int64) *big.Int { return new(big.Int).Add(z, big.NewInt(d)) }
		unit := func() *big.Int {
			for {
				z := c12RandBelow(g.r, n)
				if new(big.Int).GCD(nil, nil, z, n).Cmp(c12One) == 0 {
					return z
				}
			}
		}
		xs := []*big.Int{new(big.Int), big.NewInt(1), add(n, -1), new(big.Int).Set(p), new(big.Int).Set(q), unit()}
		es := []*big.Int{new(big.Int), big.NewInt(1), big.NewInt(-1), new(big.Int).Set(phi), new(big.Int).Neg(k.N),
			c12Signed(g.r, c12RandBits(g.r, n.BitLen()))}
		if level >= 1 {
			xs = append(xs, big.NewInt(2), new(big.Int).Set(n), add(n, 1), new(big.Int).Add(n, unit()),
				new(big.Int).Mul(p, c12RandBelow(g.r, q)), new(big.Int).Mul(q, c12RandBelow(g.r, p)), add(k.N, 1), unit())
			es = append(es, big.NewInt(2), big.NewInt(-2), new(big.Int).Set(k.N), add(phi, -1), add(phi, 1),
				new(big.Int).Lsh(c12One, uint(n.BitLen()-1)), new(big.Int).Neg(new(big.Int).Lsh(c12One, 64)),
				c12Signed(g.r, c12RandBits(g.r, 1+g.r.Intn(64))), c12Signed(g.r, c12RandBits(g.r, n.BitLen()+17)))
		}
		if level >= 2 {
			for i := 0; i < 4; i++ {
				xs = append(xs, unit(), c12RandBits(g.r, n.BitLen()+1+g.r.Intn(64)))
				es = append(es, c12Signed(g.r, c12RandBits(g.r, 1+g.r.Intn(n.BitLen()))))
			}
			es = append(es, new(big.Int).Set(n), new(big.Int).Neg(phi), add(new(big.Int).Lsh(c12One, uint(n.BitLen())), -1))
		}
		if level == 0 {
			// diagonal plus two extra rows: every x and every e occurs
			for i, x := range xs {
				out = append(out, [3]*big.Int{big.NewInt(int64(w)), x, es[i%len(es)]}, [3]*big.Int{big.NewInt(int64(w)), x, es[(i+2)%len(es)]})
			}
			continue
		}
		for _, x := range xs {
			for _, e := range es {
				if sparse && g.r.Intn(3) != 0 {
					continue
				}
				out = append(out, [3]*big.Int{big.NewInt(int64(w)), x, e})
			}
		}
	}
	return out
}

// ---------------------------------------------------------------------------------------------------------------
// the run

func runC12(c *ctx) {
	c.res.Rule = "micro (9-bit N, exhaustive plaintext range), 3 small (64/128-bit N) and >= 2 real 2048-bit Paillier keys, each key both as SecretKey " +
		"(CRT route) and as NewPublicKey(N); plaintext lattice 0, +-1, +-(N-1)/2 and neighbours, +-N, +-2^k, random in/out of range; " +
		"sum/product pairs in, on and just outside the range; ciphertext candidates around 0, N, N^2, multiples of p, q, N, random; " +
		"Modulus.Exp/ExpI operand grid; MtA scalars {0,1,q-1,random}^2; sequences of calls on shared objects (ops seq, seqmta: every object serialised " +
		"before/after every call, objects reused afterwards). One case = one operation on one operand tuple; " +
		"non-trivial = operands not all in {0,1}; distinct by (op, key, form, operands)"
	// only small-key cases are re-evaluated with vm_compute (cases.v); real-size operands are far too slow there
	c.m.MaxLogSize = 420
	if c.replay != "" {
		if !c.c12MultiReplay() { // validators called with several values: c12_multi.go
			c12Replay_(c)
		}
		return
	}
	g := &c12Gen{c: c, r: c.res.Rng}
	micro, small, real := c.c12MakeKeys()
	for _, k := range append(append([]*c12Key{micro}, small...), real...) {
		c.res.Note("key %s: N has %d bits, p %s q", k.name, k.N.BitLen(), map[int]string{-1: "<", 1: ">"}[k.p.Cmp(k.q)])
	}
	T := c.thorough()
	lv := func(quick, thorough int) int {
		if T {
			return thorough
		}
		return quick
	}

	t0 := time.Now()
	lap := func(what string) {
		c.res.Note("%s: %.1f s, %d evaluations and %d model calls so far", what, time.Since(t0).Seconds(), c.res.Evaluations, c.m.Calls)
		t0 = time.Now()
	}
	// 0. prelude: one case of every operation on the micro key and the first small key (these fill cases.v with all ops)
	for _, k := range []*c12Key{micro, small[0]} {
		g.prelude(k)
	}
	for _, n := range []int64{143, 1, 4} {
		g.run(&c12Case{op: "validaten", k: micro, form: "-", a: []*big.Int{big.NewInt(n)}})
	}
	// 1. micro key: every plaintext in [-N-2, N+2], both key forms; ciphertext candidates exhaustively (thorough) or sampled
	g.microExhaustive(micro, T)
	g.seqSuite(micro, lv(40, 200))
	lap("micro key")
	// 2. small keys
	for _, k := range small {
		g.keySuite(k, lv(2, 2), lv(1, 2), lv(1, 3))
		g.seqSuite(k, lv(24, 120))
	}
	lap("small keys")
	// 3. real keys (evaluated in parallel; MtA first: its library calls serialise on the randomness tape)
	g.batching = true
	g.mtaSuite(real, T)
	for i, k := range real {
		encLevel := lv(0, 2)
		if !T && i == 0 {
			encLevel = 1 // quick: the full plaintext lattice on one real key, the boundary points on all
		}
		g.keySuite(k, encLevel, lv(0, 2), lv(1, 2))
	}
	g.validateN(real[0], T)
	// sequences of calls on shared objects (argument mutation, reuse), real size
	for _, k := range real {
		g.seqSuite(k, lv(4, 24))
	}
	g.seqMtaSuite(real, lv(4, 12))
	nreal := len(g.batch)
	g.flush()
	g.batching = false
	lap(fmt.Sprintf("real keys and MtA (%d cases)", nreal))
	g.multiSuite(append(append([]*c12Key{micro}, small...), real...), lv(1, 3)) // c12_multi.go: validators called with several values
	var ks []string
	for k := range c12Spent {
		ks = append(ks, k)
	}
	sort.Strings(ks)
	var sb strings.Builder
	for _, k := range ks {
		fmt.Fprintf(&sb, " %s=%.1fs", k, c12Spent[k].Seconds())
	}
	c.res.Note("wall time by operation:%s", sb.String())
}

func (g *c12Gen) run(cs *c12Case) {
	if g.batching {
		g.batch = append(g.batch, cs)
		return
	}
	g.c.c12Run(cs)
}

func (g *c12Gen) flush() {
	g.c.c12RunAll(g.batch)
	g.batch = nil
}

func (g *c12Gen) prelude(k *c12Key) {
	rho := g.nonce(k)
	m := g.randIn(k)
	ct := c12BigEnc(k, m, rho)
	for _, f := range []string{"sk", "pk"} {
		g.run(&c12Case{op: "enc", k: k, form: f, a: []*big.Int{m, rho}})
		g.run(&c12Case{op: "enc", k: k, form: f, a: []*big.Int{new(big.Int).Add(k.half, c12One), rho}})
		g.run(&c12Case{op: "mul", k: k, form: f, a: []*big.Int{big.NewInt(-3), m, rho}})
		g.run(&c12Case{op: "add", k: k, form: f, a: []*big.Int{m, rho, k.half, g.nonce(k)}})
	}
	g.run(&c12Case{op: "validate", k: k, form: "pk", a: []*big.Int{ct}})
	g.run(&c12Case{op: "mtacore", k: k, form: "pk", a: []*big.Int{big.NewInt(3), big.NewInt(5), big.NewInt(-7), rho, g.nonce(k)}})
	g.run(&c12Case{op: "dec", k: k, form: "sk", a: []*big.Int{ct}})
	g.run(&c12Case{op: "dec", k: k, form: "sk", a: []*big.Int{new(big.Int).Mul(k.p, big.NewInt(3))}})
	g.run(&c12Case{op: "decrand", k: k, form: "sk", a: []*big.Int{ct}})
	for _, f := range []string{"n", "factors", "swapped"} {
		g.run(&c12Case{op: "exp", k: k, form: f, a: []*big.Int{big.NewInt(1), ct, k.phi}})
		g.run(&c12Case{op: "expi", k: k, form: f, a: []*big.Int{big.NewInt(0), rho, new(big.Int).Neg(m)}})
	}
}

func (g *c12Gen) microExhaustive(k *c12Key, thorough bool) {
	lim := new(big.Int).Add(k.N, big.NewInt(2))
	for m := new(big.Int).Neg(lim); m.Cmp(lim) <= 0; m = new(big.Int).Add(m, c12One) {
		for _, f := range []string{"sk", "pk"} {
			g.run(&c12Case{op: "enc", k: k, form: f, a: []*big.Int{m, g.nonce(k)}})
		}
	}
	top := new(big.Int).Add(k.N2, k.N)
	for ct := new(big.Int); ct.Cmp(top) <= 0; ct = new(big.Int).Add(ct, c12One) {
		if !thorough {
			// both ends completely, the middle sampled
			lo := ct.Cmp(new(big.Int).Lsh(k.N, 1)) <= 0
			hi := ct.Cmp(new(big.Int).Sub(k.N2, k.N)) >= 0
			if !lo && !hi && g.r.Intn(64) != 0 {
				continue
			}
		}
		g.run(&c12Case{op: "validate", k: k, form: []string{"sk", "pk"}[int(ct.Int64())&1], a: []*big.Int{ct}})
		g.run(&c12Case{op: "decrand", k: k, form: "sk", a: []*big.Int{ct}})
	}
	g.keySuite(k, 2, 2, 2)
}

// keySuite runs every operation family on one key. level selects the operand lattice; reps the number of nonces.
func (g *c12Gen) keySuite(k *c12Key, encLevel, level, reps int) {
	forms := []string{"sk", "pk"}
	// Enc / EncWithNonce over the plaintext lattice
	for _, m := range g.plaintexts(k, encLevel) {
		for _, f := range forms {
			for i := 0; i < reps; i++ {
				if i > 0 && m.CmpAbs(k.half) > 0 {
					break // refusal does not depend on the nonce
				}
				g.run(&c12Case{op: "enc", k: k, form: f, a: []*big.Int{m, g.nonce(k)}})
			}
		}
	}
	// Enc with the library's own nonce (deterministic tape behind crypto/rand.Reader)
	for _, m := range []*big.Int{new(big.Int), k.half, new(big.Int).Neg(k.half), new(big.Int).Add(k.half, c12One), g.randIn(k)} {
		g.run(&c12Case{op: "encr", k: k, form: forms[g.r.Intn(2)], a: []*big.Int{m}, seed: g.r.Int63()})
	}
	// Dec, DecWithRandomness, ValidateCiphertexts on ciphertext candidates
	for i, ct := range g.ciphertexts(k, level) {
		g.run(&c12Case{op: "validate", k: k, form: forms[i&1], a: []*big.Int{ct}})
		g.run(&c12Case{op: "dec", k: k, form: "sk", a: []*big.Int{ct}})
		if level >= 1 || i%2 == 0 {
			g.run(&c12Case{op: "decrand", k: k, form: "sk", a: []*big.Int{ct}})
		}
	}
	// Add
	for i, pr := range g.addPairs(k, level) {
		for j, f := range forms {
			if level == 0 && (i+j)%2 == 1 {
				continue
			}
			g.run(&c12Case{op: "add", k: k, form: f, a: []*big.Int{pr[0], g.nonce(k), pr[1], g.nonce(k)}})
		}
	}
	for i := 0; i < 2+2*level; i++ {
		c1, c2 := c12RandBelow(g.r, k.N2), c12RandBelow(g.r, k.N2)
		if i == 0 {
			c1 = new(big.Int).Add(k.N2, c12One) // not reduced
		}
		g.run(&c12Case{op: "addraw", k: k, form: forms[i&1], a: []*big.Int{c1, c2}})
	}
	// Mul
	for i, pr := range g.mulPairs(k, level) {
		for j, f := range forms {
			if level == 0 && (i+j)%2 == 1 {
				continue
			}
			g.run(&c12Case{op: "mul", k: k, form: f, a: []*big.Int{pr[0], pr[1], g.nonce(k)}})
		}
	}
	// newMta's arithmetic replayed through the public API (keys too small for the ZK proofs of ProveAffG/P): full range incl. wrap-around
	if k.size != "real" {
		for _, t := range g.mtaCoreTuples(k, level) {
			g.run(&c12Case{op: "mtacore", k: k, form: "pk", a: []*big.Int{t[0], t[1], t[2], g.nonce(k), g.nonce(k)}})
		}
	}
	// arith.Modulus.Exp / ExpI
	// the operand grid at real size is the most expensive family: quick runs the diagonal, thorough the level-1 grid in full;
	// small keys run the large grid
	expLevel, sparse := level, level == 1
	if k.size == "real" {
		expLevel, sparse = 0, false
		if g.c.thorough() {
			expLevel = 1
		}
	}
	for i, t := range g.expTriples(k, expLevel, sparse) {
		fs := []string{"n", "factors", "swapped"}
		if expLevel == 0 {
			fs = []string{"n", "factors"}
			if i%4 == 0 {
				fs = []string{"swapped"}
			}
		}
		for _, f := range fs {
			cs := &c12Case{op: "expi", k: k, form: f, a: []*big.Int{t[0], t[1], t[2]}}
			if n, _, _, _ := cs.expMod(); c12BigExp(n, t[1], t[2]) == nil {
				continue // negative power of a non-unit: meaningless by saferith's contract, outside the property
			}
			if t[2].Sign() >= 0 {
				g.run(&c12Case{op: "exp", k: k, form: f, a: []*big.Int{t[0], t[1], t[2]}})
			}
			g.run(cs)
		}
	}
}

func (g *c12Gen) validateN(k *c12Key, thorough bool) {
	cands := []*big.Int{new(big.Int).Set(k.N), new(big.Int).Add(k.N, c12One), new(big.Int).Rsh(k.N, 1), new(big.Int).Lsh(k.N, 1),
		new(big.Int).Add(new(big.Int).Lsh(k.N, 1), c12One), new(big.Int).Lsh(c12One, 2047), new(big.Int).Add(new(big.Int).Lsh(c12One, 2047), c12One),
		new(big.Int).Sub(new(big.Int).Lsh(c12One, 2048), c12One), new(big.Int).Add(new(big.Int).Lsh(c12One, 2048), c12One),
		new(big.Int).Sub(new(big.Int).Lsh(c12One, 2047), c12One), big.NewInt(1), big.NewInt(3), big.NewInt(143)}
	n := 4
	if thorough {
		n = 40
	}
	for i := 0; i < n; i++ {
		z := c12RandBits(g.r, []int{2046, 2047, 2048, 2048, 2049, 1024, 4096}[g.r.Intn(7)])
		if z.Sign() == 0 {
			z.SetInt64(1)
		}
		cands = append(cands, z)
	}
	for _, z := range cands {
		g.run(&c12Case{op: "validaten", k: k, form: "-", a: []*big.Int{z}})
	}
}

func (g *c12Gen) mtaSuite(real []*c12Key, thorough bool) {
	q1 := new(big.Int).Sub(c12SecpQ, c12One)
	vals := func() []*big.Int {
		return []*big.Int{new(big.Int), big.NewInt(1), q1, c12RandBelow(g.r, c12SecpQ)}
	}
	n := 0
	rounds := 1
	if thorough {
		rounds = 6
	}
	for round := 0; round < rounds; round++ {
		as, bs := vals(), vals()
		if round > 0 {
			as = append(as, big.NewInt(2), new(big.Int).Rsh(c12SecpQ, 1), c12RandBelow(g.r, c12SecpQ))
			bs = append(bs, new(big.Int).Sub(c12SecpQ, big.NewInt(2)), c12RandBits(g.r, 128), c12RandBelow(g.r, c12SecpQ))
		}
		for _, a := range as {
			for _, b := range bs {
				// rotate through (sender, receiver) pairs of distinct keys and the two entry points
				s := real[n%len(real)]
				rcv := real[(n+1+(n/len(real))%(len(real)-1))%len(real)]
				if rcv == s {
					rcv = real[(n+1)%len(real)]
				}
				fn := []string{"affg", "affp"}[(n/2+n)%2]
				n++
				if rcv.ped == nil {
					continue
				}
				g.run(&c12Case{op: "mta", k: rcv, snd: s, form: fn, a: []*big.Int{a, b, g.nonce(rcv), g.nonce(s)}, seed: g.r.Int63()})
			}
		}
	}
}

// ---------------------------------------------------------------------------------------------------------------
// replay

func c12Replay_(c *ctx) {
	var rp c12ReplayT
	if err := readJSON(c.replay, &rp); err != nil {
		c.res.Note("cannot read replay: %v", err)
		return
	}
	cs, err := rp.toCase()
	if err != nil {
		c.res.Note("bad replay: %v", err)
		return
	}
	if cs.op == "mta" && cs.k.ped == nil {
		func() {
			defer c12WithTape(rp.Seed ^ 0x5eed)()
			defer func() { recover() }()
			cs.k.ped, _ = cs.k.sk.GeneratePedersen()
		}()
	}
	cs.nearby = true // replay exactly this case
	c.c12Run(cs)
	fmt.Printf("replay: %s %s/%s bucket %s: go %s | model %s | correspondence broken=%v property broken=%v\n",
		cs.op, cs.k.name, cs.form, cs.bucket(), c12Trunc(cs.goOut), c12Trunc(cs.modelOut), cs.corrBroken, cs.propBroken)
}
