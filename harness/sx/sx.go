// Package sx is the Go side of the generic value type exchanged with the Coq model
// (coq/Model/Sx.v): printing as s-expression text for the extracted driver, printing as a
// Gallina term for cases.v (vm_compute route), and parsing the driver's replies.
package sx

import (
	"encoding/hex"
	"fmt"
	"math/big"
	"strings"
)

type V struct {
	Kind int // 0 atom, 1 bytes, 2 list
	Z    *big.Int
	B    []byte
	L    []V
}

func Int(i int64) V        { return V{Kind: 0, Z: big.NewInt(i)} }
func Big(z *big.Int) V     { return V{Kind: 0, Z: new(big.Int).Set(z)} }
func Bytes(b []byte) V     { return V{Kind: 1, B: append([]byte{}, b...)} }
func Str(s string) V       { return Bytes([]byte(s)) }
func List(l ...V) V        { return V{Kind: 2, L: l} }
func Bool(b bool) V        { if b { return Int(1) }; return Int(0) }
func Opt(v *V) V           { if v == nil { return List() }; return List(*v) }
func OptBytes(b []byte) V  { if b == nil { return List() }; return List(Bytes(b)) }

func (v V) String() string {
	var sb strings.Builder
	v.write(&sb)
	return sb.String()
}

func (v V) write(sb *strings.Builder) {
	switch v.Kind {
	case 0:
		sb.WriteString(v.Z.String())
	case 1:
		sb.WriteByte('#')
		sb.WriteString(hex.EncodeToString(v.B))
	default:
		sb.WriteByte('(')
		for i, x := range v.L {
			if i > 0 {
				sb.WriteByte(' ')
			}
			x.write(sb)
		}
		sb.WriteByte(')')
	}
}

// Coq prints the value as a Gallina term of type sx (scopes: Z literals with %Z, N bytes with %N).
func (v V) Coq() string {
	var sb strings.Builder
	v.coq(&sb)
	return sb.String()
}

func (v V) coq(sb *strings.Builder) {
	switch v.Kind {
	case 0:
		fmt.Fprintf(sb, "(At (%s)%%Z)", v.Z.String())
	case 1:
		fmt.Fprintf(sb, "(Bs (hexs \"%s\"))", hex.EncodeToString(v.B))
	default:
		sb.WriteString("(Li [")
		for i, x := range v.L {
			if i > 0 {
				sb.WriteByte(';')
			}
			x.coq(sb)
		}
		sb.WriteString("])")
	}
}

func CoqBytes(b []byte) string { return fmt.Sprintf("(hexs \"%s\")", hex.EncodeToString(b)) }

func Parse(s string) (V, error) {
	if i := strings.Index(s, ";"); i >= 0 {
		s = s[:i]
	}
	p := &parser{s: s}
	v, err := p.value()
	if err != nil {
		return V{}, err
	}
	return v, nil
}

type parser struct {
	s   string
	pos int
}

func (p *parser) skip() {
	for p.pos < len(p.s) && (p.s[p.pos] == ' ' || p.s[p.pos] == '\t') {
		p.pos++
	}
}

func (p *parser) value() (V, error) {
	p.skip()
	if p.pos >= len(p.s) {
		return V{}, fmt.Errorf("eof")
	}
	switch c := p.s[p.pos]; {
	case c == '(':
		p.pos++
		var l []V
		for {
			p.skip()
			if p.pos >= len(p.s) {
				return V{}, fmt.Errorf("unterminated list")
			}
			if p.s[p.pos] == ')' {
				p.pos++
				return V{Kind: 2, L: l}, nil
			}
			x, err := p.value()
			if err != nil {
				return V{}, err
			}
			l = append(l, x)
		}
	case c == '#':
		p.pos++
		st := p.pos
		for p.pos < len(p.s) && strings.IndexByte("0123456789abcdefABCDEF", p.s[p.pos]) >= 0 {
			p.pos++
		}
		b, err := hex.DecodeString(p.s[st:p.pos])
		if err != nil {
			return V{}, err
		}
		return V{Kind: 1, B: b}, nil
	default:
		st := p.pos
		for p.pos < len(p.s) && strings.IndexByte(" \t()", p.s[p.pos]) < 0 {
			p.pos++
		}
		z, ok := new(big.Int).SetString(p.s[st:p.pos], 0)
		if !ok {
			return V{}, fmt.Errorf("bad atom %q", p.s[st:p.pos])
		}
		return V{Kind: 0, Z: z}, nil
	}
}

func (v V) IsErr() bool {
	return v.Kind == 2 && len(v.L) == 2 && v.L[0].Kind == 1 && string(v.L[0].B) == "!err"
}

func (v V) Equal(w V) bool {
	if v.Kind != w.Kind {
		return false
	}
	switch v.Kind {
	case 0:
		return v.Z.Cmp(w.Z) == 0
	case 1:
		return string(v.B) == string(w.B)
	default:
		if len(v.L) != len(w.L) {
			return false
		}
		for i := range v.L {
			if !v.L[i].Equal(w.L[i]) {
				return false
			}
		}
		return true
	}
}

func (v V) AsBool() bool { return v.Kind == 0 && v.Z.Sign() != 0 }
func (v V) AsInt() int   { return int(v.Z.Int64()) }
