package main

// C07 -- outcome independent of delivery order, duplication, early arrival; stale/foreign messages are no-ops.
// (a) exhaustive delivery orders for the deterministic xor protocol (n=2,3) with one duplicate and one foreign/stale
//     injection at every position; (b) sampled adversarial schedules for FROST keygen/sign;
// (c) Doerner keygen/sign on the TwoPartyHandler under duplicates, stale re-sends, early deliveries (c07_twoparty.go);
// every run is replayed in the Coq handler model (state-by-state correspondence).

import (
	"fmt"
	"math/rand"
	"sort"
	"strings"

	"github.com/taurusgroup/multi-party-sig/pkg/party"
	"github.com/taurusgroup/multi-party-sig/pkg/protocol"
	"github.com/taurusgroup/multi-party-sig/protocols/frost"
)

func init() { props["C07"] = runC07 }

type schedReplay struct {
	Spec     string   `json:"spec"`
	Seed     int64    `json:"seed"`
	Policy   string   `json:"policy"`
	Order    []string `json:"delivery_order"`
	Expected string   `json:"expected"`
	Observed string   `json:"observed"`
	Node     string   `json:"node,omitempty"`
	Event    int      `json:"event,omitempty"`
}

func envName(e *Env) string {
	k := "p2p"
	if e.Msg.Broadcast {
		k = "bc"
	}
	return fmt.Sprintf("%s->%s/r%d/%s%s", e.Msg.From, e.To, e.Msg.RoundNumber, k, e.Tag)
}

// runSchedule runs a session under a policy; returns the sim, the delivery order and per-party result fingerprints.
func (c *ctx) runSchedule(sp SessionSpec, seed int64, pol func(*Sim) Policy) (*Sim, []string, map[party.ID]string) {
	det := installDetReader(seed, 0)
	defer restoreRandReader()
	s := sp.build(rand.New(rand.NewSource(seed)), det)
	var order []string
	p := pol(s)
	for k := 0; len(s.Flight) > 0 && k < 5000; k++ {
		i, keep := p(s)
		var e *Env
		if keep {
			e = s.Flight[i]
		} else {
			e = s.take(i)
		}
		order = append(order, envName(e))
		s.Deliver(e)
	}
	res := map[party.ID]string{}
	for id, n := range s.Nodes {
		r, errText := resultOf(n)
		if errText != "" {
			res[id] = "ERR:" + errText
		} else {
			res[id] = resultFP(r)
		}
	}
	return s, order, res
}

func resString(m map[party.ID]string) string {
	var ks []string
	for k := range m {
		ks = append(ks, string(k))
	}
	sort.Strings(ks)
	var sb strings.Builder
	for _, k := range ks {
		v := m[party.ID(k)]
		if len(v) > 60 {
			v = v[:60] + "…"
		}
		fmt.Fprintf(&sb, "%s=%s;", k, v)
	}
	return sb.String()
}

// checkRun: property oracle (everyone completes, same results as reference) + model correspondence.
func (c *ctx) checkRun(sp SessionSpec, seed int64, polName string, s *Sim, order []string, res, ref map[party.ID]string, sh shapeInfo) {
	c.res.Case(sp.Name+"/"+polName, sp.Name+strings.Join(order, ","), len(order) > 0)
	bad := ""
	for id, v := range res {
		if strings.HasPrefix(v, "ERR:") {
			bad = fmt.Sprintf("party %s did not complete: %s", id, v)
		} else if ref != nil && ref[id] != v {
			bad = fmt.Sprintf("party %s result differs from the in-order run", id)
		}
	}
	for _, n := range s.Nodes {
		for _, o := range n.Obs {
			if o.Panic != "" {
				bad = fmt.Sprintf("party %s panicked: %s", n.ID, o.Panic)
			}
			if o.Hung {
				bad = fmt.Sprintf("party %s: Accept did not return", n.ID)
			}
		}
	}
	if bad != "" {
		c.res.Violate("property", "C07/"+sp.Name+"/"+polName, bad,
			schedReplay{Spec: sp.Name, Seed: seed, Policy: polName, Order: order, Expected: resString(ref), Observed: resString(res)})
	}
	for _, n := range s.Nodes {
		i, mo, ro, err := c.CompareWithModel(s, n, sh, true)
		if err != nil {
			c.res.Corr(false)
			c.res.Violate("correspondence", "C07/model-error", err.Error(), schedReplay{Spec: sp.Name, Seed: seed, Policy: polName, Order: order})
			continue
		}
		c.res.Corr(i < 0)
		if i >= 0 {
			c.res.Violate("correspondence", "C07/handler-model/"+sp.Name, "handler state differs from the Coq model after an event",
				schedReplay{Spec: sp.Name, Seed: seed, Policy: polName, Order: order, Expected: mo, Observed: ro, Node: string(n.ID), Event: i})
		}
	}
	c.c07System(sp, seed, polName, s, order, sh)
}

// c07Sys: counters of the system-level comparison (pump_sys.go) for the run's notes
var c07Sys = sysStats{skips: map[string]int{}}

// c07System: the whole session in the system model (Model/System.v through sys.run): every party's final observation, who
// completed, which completers hold equal views; and the C07 theorem read off the reply (hypotheses reported => everybody done,
// ideal output) against what the real handlers did.
func (c *ctx) c07System(sp SessionSpec, seed int64, polName string, s *Sim, order []string, sh shapeInfo) {
	o, err := c.CompareSystemWithModel(s, sh, true)
	rp := func(exp, obs string) sysSchedReplay {
		return sysSchedReplay{schedReplay: schedReplay{Spec: sp.Name, Seed: seed, Policy: polName, Order: order, Expected: exp, Observed: obs}, Events: o.Events, Resolved: o.Resolved}
	}
	if err != nil {
		c.res.Corr(false)
		c.res.Violate("correspondence", "C07/system-model-error", err.Error(), rp("", ""))
		return
	}
	if o.Skip != "" {
		c07Sys.skipped++
		c07Sys.skips[o.Skip]++
		return
	}
	c07Sys.compared++
	c07Sys.injects += o.injects
	c07Sys.invalids += o.invalids
	c.res.Corr(o.Mismatch == "")
	if o.Mismatch != "" {
		c.res.Violate("correspondence", "C07/system-model/"+sp.Name, "whole session in the system model (sys.run): "+o.Mismatch, rp(o.Model, o.Real))
		return
	}
	f := o.Facts
	if !f.WF {
		c07Sys.notWF++
	}
	if !f.Complete {
		c07Sys.incomplete++
	}
	if f.c07Hyp() {
		c07Sys.hypC07++
		// the theorem (Properties/C06_sys.v C07_sys_schedule_independent) says the reply reports everybody done with the ideal
		// output; the reply agrees with the real handlers (checked above), so a failure here is the property failing on the code
		if !f.c07Concl(len(s.IDs)) {
			c.res.Violate("property", "C07/"+sp.Name+"/system/"+polName, "all-honest complete schedule (only junk injected), but not every party completed with the lockstep output",
				rp(fmt.Sprintf("completers %v ideal %v", f.Completers, f.Ideal), ""))
		}
	}
}

// sysSchedReplay: a schedule replay with the system-level event list (kind, sender, recipient, round) and the schedule the
// model resolved it to.
type sysSchedReplay struct {
	schedReplay
	Events   []string `json:"system_events,omitempty"`
	Resolved string   `json:"resolved_schedule,omitempty"`
}

// permutations of 0..n-1 (Heap), calling f for each
func permute(n int, f func([]int) bool) {
	a := make([]int, n)
	for i := range a {
		a[i] = i
	}
	var rec func(k int) bool
	rec = func(k int) bool {
		if k == 1 {
			return f(a)
		}
		for i := 0; i < k; i++ {
			if !rec(k - 1) {
				return false
			}
			if k%2 == 0 {
				a[i], a[k-1] = a[k-1], a[i]
			} else {
				a[0], a[k-1] = a[k-1], a[0]
			}
		}
		return true
	}
	rec(n)
}

func runC07(c *ctx) {
	c.res.Rule = "xor: every delivery order of the in-flight envelopes (n=2,3) plus one duplicate and one foreign/stale injection at every position; " +
		"FROST keygen/sign(+taproot): seeded schedules (random+dups, LIFO, latest-round-first/p2p-before-broadcast); " +
		"conflicting duplicates (xor, FROST keygen/sign): after every genuine delivery a second, different but individually valid message of the same sender / round / kind (from a second honest instance of the sender, and the genuine one re-encoded), " +
		"while the round is to come / open / closed: state fingerprint unchanged, in-order result, model replay; one schedule per session type (FROST keygen / sign, CMP keygen) delivered through the wire format " +
		"(Message.MarshalBinary -> bytes -> UnmarshalBinary into a fresh Message before Accept; policy wire/...); non-trivial = at least one delivery; distinct by delivery order"
	if c.replay != "" {
		var rp schedReplay
		if readJSON(c.replay, &rp) == nil && strings.HasPrefix(rp.Spec, "doerner-") {
			c.res.Note("replay: re-running %s schedule %s seed %d", rp.Spec, rp.Policy, rp.Seed)
			c.c07TwoParty(&rp)
			return
		}
		c.res.Note("replay: re-running the named spec/seed/policy")
	}
	// ---------- (a) xor, exhaustive ----------
	for _, n := range []int{2, 3} {
		ids := idsOf("a", "b", "c")[:n]
		sp := specXOR(ids, []byte("sid-1"))
		refS, _, ref := c.runSchedule(sp, 7, func(*Sim) Policy { return func(*Sim) (int, bool) { return 0, false } })
		sh := refS.learnShape()
		// conflicting duplicates (conflict.go): a second, different xor value of the same sender after the first one
		{
			cs := conflictHarvest(sp, 7)
			for _, note := range cs.Notes {
				c.res.Note("C07 %s conflicting duplicates: %s", sp.Name, note)
			}
			for _, pn := range conflictPols {
				pn := pn
				c.c07Conflict(sp, 7, pn, func(s *Sim) Policy { s.rng = rand.New(rand.NewSource(7 + c.res.Seed)); return c07Policy(pn)(s) }, cs, ref, sh)
			}
		}
		total := n * (n - 1)
		cnt := 0
		limit := 720
		permute(total, func(perm []int) bool {
			cnt++
			if cnt > limit {
				return false
			}
			// the schedule: deliver envelope with original sequence rank perm[k] at step k;
			// xor has a single message round so all envelopes are in flight from the start
			order := append([]int{}, perm...)
			for variant := 0; variant < 3; variant++ {
				if variant > 0 && !(c.thorough() || cnt%7 == 0) {
					continue
				}
				c.xorExhaustiveRun(sp, order, variant, ref, sh)
			}
			return true
		})
	}
	// ---------- (b) FROST, sampled ----------
	nSched := 6
	if c.thorough() {
		nSched = 60
	}
	pols := map[string]func(*Sim) Policy{
		"fifo":         func(*Sim) Policy { return func(*Sim) (int, bool) { return 0, false } },
		"lifo":         func(*Sim) Policy { return policyLIFO() },
		"latest-first": func(*Sim) Policy { return policyLatestFirst() },
		"random":       func(*Sim) Policy { return policyRandom(0) },
		"random-dup":   func(*Sim) Policy { return policyRandom(0.25) },
	}
	polNames := []string{"fifo", "lifo", "latest-first", "random", "random-dup"}
	// delivery mode "wire" (pump.go Sim.Wire): every envelope through Message.MarshalBinary -> bytes -> UnmarshalBinary into a fresh
	// Message before Accept, as a real transport does; one such schedule per session type (policy name wire/<policy>)
	wire := func(p func(*Sim) Policy) func(*Sim) Policy {
		return func(s *Sim) Policy { s.Wire = true; return p(s) }
	}
	wireRun := func(sp SessionSpec, seed int64, pn string, ref map[party.ID]string, sh shapeInfo) {
		s, order, res := c.runSchedule(sp, seed, wire(func(s *Sim) Policy { s.rng = rand.New(rand.NewSource(seed + 99)); return pols[pn](s) }))
		if s.WireFail > 0 {
			c.res.Note("C07 %s wire/%s: %d envelopes did not cross the wire format (handed over in memory): %v", sp.Name, pn, s.WireFail, s.Trace)
		}
		c.checkRun(sp, seed, "wire/"+pn, s, order, res, ref, sh)
	}
	for _, cfg := range []struct {
		n, t    int
		taproot bool
	}{{3, 1, false}, {2, 1, false}, {4, 2, true}, {3, 0, false}} {
		ids := idsOf("alice", "bob", "carl", "dave")[:cfg.n]
		sp := specFrostKeygen(ids, cfg.t, cfg.taproot, []byte("kg"))
		seed := c.res.Seed*1000 + int64(cfg.n*10+cfg.t)
		refS, _, ref := c.runSchedule(sp, seed, pols["fifo"])
		sh := refS.learnShape()
		c.checkRun(sp, seed, "fifo", refS, nil, ref, ref, sh)
		for k := 0; k < nSched; k++ {
			pn := polNames[1+k%4]
			s, order, res := c.runSchedule(sp, seed, func(s *Sim) Policy { s.rng = rand.New(rand.NewSource(seed + int64(k))); return pols[pn](s) })
			c.checkRun(sp, seed, pn, s, order, res, ref, sh)
		}
		wireRun(sp, seed, "random-dup", ref, sh)
		// conflicting duplicates: every message of a second instance of every sender (and every genuine message re-encoded)
		// delivered after the genuine one, while its round is to come / open / closed
		conflicts := func(sp SessionSpec, seed int64, ref map[party.ID]string, sh shapeInfo) {
			cs := conflictHarvest(sp, seed)
			for _, note := range cs.Notes {
				c.res.Note("C07 %s conflicting duplicates: %s", sp.Name, note)
			}
			for _, pn := range conflictPols {
				pn := pn
				c.c07Conflict(sp, seed, pn, func(s *Sim) Policy { s.rng = rand.New(rand.NewSource(seed + 77)); return c07Policy(pn)(s) }, cs, ref, sh)
			}
		}
		conflicts(sp, seed, ref, sh)
		// signing with the generated material (non-prefix signer subsets)
		if !cfg.taproot {
			cfgs := map[party.ID]*frost.Config{}
			ok := true
			for id, n := range refS.Nodes {
				r, _ := resultOf(n)
				if cf, isCfg := r.(*frost.Config); isCfg {
					cfgs[id] = cf
				} else {
					ok = false
				}
			}
			if ok && cfg.n >= 3 {
				signers := []party.ID{ids[0], ids[cfg.n-1]}
				if cfg.t >= 2 {
					signers = ids[1:]
				}
				sps := specFrostSign(cfgs, signers, []byte("message to sign"), []byte("sg"))
				rs, _, rref := c.runSchedule(sps, seed+1, pols["fifo"])
				shs := rs.learnShape()
				c.checkRun(sps, seed+1, "fifo", rs, nil, rref, rref, shs)
				for k := 0; k < nSched; k++ {
					pn := polNames[1+k%4]
					s, order, res := c.runSchedule(sps, seed+1, func(s *Sim) Policy { s.rng = rand.New(rand.NewSource(seed + int64(k))); return pols[pn](s) })
					c.checkRun(sps, seed+1, pn, s, order, res, rref, shs)
				}
				wireRun(sps, seed+1, "random-dup", rref, shs)
				conflicts(sps, seed+1, rref, shs)
				// all share holders sign: a signing round then stays open after the first message of a sender
				spa := specFrostSign(cfgs, ids, []byte("message to sign"), []byte("sg-all"))
				ra, _, aref := c.runSchedule(spa, seed+2, pols["fifo"])
				conflicts(spa, seed+2, aref, ra.learnShape())
			}
		}
	}
	// ---------- (b') slow readers: one party receives nothing until everybody else is stuck, then its backlog newest first ----------
	{
		starve := func(sp SessionSpec, seed int64, ref map[party.ID]string, sh shapeInfo, consistentOnly bool) {
			for _, v := range sp.IDs {
				for _, latest := range []bool{true, false} {
					v, latest := v, latest
					pn := fmt.Sprintf("starve-%s/latest-round-first=%v", v, latest)
					s, order, res := c.runSchedule(sp, seed, func(*Sim) Policy { return policyStarve(v, latest) })
					r := ref
					if consistentOnly {
						r = nil
					}
					c.checkRun(sp, seed, pn, s, order, res, r, sh)
				}
			}
		}
		holdOne := func(sp SessionSpec, seed int64, ref map[party.ID]string, sh shapeInfo, sample int) {
			type hk struct {
				v, f party.ID
				k    int
				b    bool
			}
			var all []hk
			for _, v := range sp.IDs {
				for _, f := range sp.IDs {
					if f == v {
						continue
					}
					for k := 1; k < sh.Final; k++ {
						if sh.Bcast[k] {
							all = append(all, hk{v, f, k, true})
						}
						if sh.P2P[k] != 0 {
							all = append(all, hk{v, f, k, false})
						}
					}
				}
			}
			if sample > 0 && len(all) > sample {
				r := rand.New(rand.NewSource(seed + c.res.Seed))
				r.Shuffle(len(all), func(i, j int) { all[i], all[j] = all[j], all[i] })
				all = all[:sample]
			}
			for _, h := range all {
				h := h
				pn := fmt.Sprintf("hold-%s->%s/round%d/bcast=%v", h.f, h.v, h.k, h.b)
				s, order, res := c.runSchedule(sp, seed, func(*Sim) Policy { return policyHoldOne(h.v, h.f, h.k, h.b) })
				c.checkRun(sp, seed, pn, s, order, res, ref, sh)
			}
		}
		ids := idsOf("alice", "bob", "carl")
		spf := specFrostKeygen(ids, 1, false, []byte("kg-starve"))
		refS, _, ref := c.runSchedule(spf, c.res.Seed+5, func(*Sim) Policy { return func(*Sim) (int, bool) { return 0, false } })
		starve(spf, c.res.Seed+5, ref, refS.learnShape(), false)
		holdOne(spf, c.res.Seed+5, ref, refS.learnShape(), 0)
		// CMP key generation: its rounds 3 and 4 change the session hash in Finalize, so the order "all later broadcasts queued before
		// the own earlier one arrives" matters there (safe primes from the cache; results are compared for completion only)
		usePrimeCache()
		spc := specCMPKeygen(ids, 1, []byte("kgc-starve"))
		refC, _, _ := c.runSchedule(spc, c.res.Seed+6, func(*Sim) Policy { return func(*Sim) (int, bool) { return 0, false } })
		shC := refC.learnShape()
		vs := ids
		if !c.thorough() {
			vs = ids[int(c.res.Seed)%3 : int(c.res.Seed)%3+1]
		}
		for _, v := range vs {
			v := v
			pn := fmt.Sprintf("starve-%s/latest-round-first=true", v)
			s, order, res := c.runSchedule(spc, c.res.Seed+6, func(*Sim) Policy { return policyStarve(v, true) })
			c.checkRun(spc, c.res.Seed+6, pn, s, order, res, nil, shC)
		}
		nh := 3
		if c.thorough() {
			nh = 0
		}
		holdOne(spc, c.res.Seed+6, nil, shC, nh)
		wireRun(spc, c.res.Seed+6, "lifo", nil, shC)
	}
	c.c07ForeignAbort() // c07_foreign.go: abort notices of a cancelled sibling session at every point of the in-order schedule
	c07Sys.note(c, "C07 schedules")
	// ---------- (c) TwoPartyHandler: Doerner keygen / sign ----------
	c.c07TwoParty(nil)
	if len(c.res.Samples) == 0 {
		c.res.Sample(1, "no schedules ran")
	}
}

var conflictPols = []string{"fifo", "lifo", "latest-first", "random"}

func c07Policy(name string) func(*Sim) Policy {
	switch name {
	case "lifo":
		return func(*Sim) Policy { return policyLIFO() }
	case "latest-first":
		return func(*Sim) Policy { return policyLatestFirst() }
	case "random":
		return func(*Sim) Policy { return policyRandom(0) }
	}
	return func(*Sim) Policy { return func(*Sim) (int, bool) { return 0, false } }
}

// xorExhaustiveRun: deliver the initial envelopes in the given order.
// variant 0: plain; 1: duplicate each delivered envelope once more at the end and a copy right after the first;
// 2: inject a foreign-session message and a stale/future-round/unknown-sender message before every delivery.
func (c *ctx) xorExhaustiveRun(sp SessionSpec, order []int, variant int, ref map[party.ID]string, sh shapeInfo) {
	det := installDetReader(7, 0)
	defer restoreRandReader()
	s := sp.build(rand.New(rand.NewSource(1)), det)
	init := append([]*Env{}, s.Flight...)
	s.Flight = nil
	var names []string
	deliver := func(e *Env) {
		names = append(names, envName(e))
		s.Deliver(e)
	}
	// a second, genuinely different session of the same protocol among the same parties (other session id, other randomness)
	det2 := installDetReader(99, 0)
	other := specXOR(sp.IDs, []byte("sid-OTHER")).build(rand.New(rand.NewSource(2)), det2)
	crandSet(det)
	otherMsg := func(from, to party.ID) *protocol.Message {
		for _, e := range other.Flight {
			if e.Msg.From == from && e.To == to {
				return e.Msg
			}
		}
		return nil
	}
	foreign := func(e *Env, kind int) *Env {
		m := *e.Msg
		// payload of the other session (different value), so that accepting it would change the outcome
		if om := otherMsg(e.Msg.From, e.To); om != nil {
			m.Data = om.Data
		}
		tag := ""
		switch kind {
		case 0:
			if om := otherMsg(e.Msg.From, e.To); om != nil {
				m = *om
			}
			tag = "/foreign-session"
		case 1:
			m.Protocol = m.Protocol + "x"
			tag = "/foreign-proto"
		case 2:
			m.From = "zed"
			tag = "/unknown-sender"
		case 3:
			m.RoundNumber = 1
			tag = "/stale-round"
		case 4:
			m.RoundNumber = 9
			tag = "/future-round"
		case 5:
			m.To = "zed"
			tag = "/wrong-recipient"
		}
		return &Env{Msg: &m, To: e.To, Valid: true, Tag: tag}
	}
	for k, i := range order {
		if i >= len(init) {
			continue
		}
		e := init[i]
		if variant == 2 {
			deliver(foreign(e, k%6))
			deliver(foreign(e, (k+3)%6))
		}
		deliver(e)
		if variant == 1 && k == 0 {
			deliver(&Env{Msg: e.Msg, To: e.To, Valid: true, Tag: "/dup"})
		}
	}
	if variant == 1 {
		for _, i := range order {
			if i < len(init) {
				deliver(&Env{Msg: init[i].Msg, To: init[i].To, Valid: true, Tag: "/dup"})
			}
		}
	}
	s.RunFIFO(1000)
	res := map[party.ID]string{}
	for id, n := range s.Nodes {
		r, errText := resultOf(n)
		if errText != "" {
			res[id] = "ERR:" + errText
		} else {
			res[id] = resultFP(r)
		}
	}
	c.checkRun(sp, 7, fmt.Sprintf("exhaustive-v%d", variant), s, names, res, ref, sh)
	c.res.Sample(3, map[string]interface{}{"spec": sp.Name, "variant": variant, "order": names})
}

var _ = protocol.Message{}
