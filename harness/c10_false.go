package main

// C10 -- FALSE-STATEMENT provers: proofs GENERATED for a statement the witness does not satisfy.
//
// Tampering with an honest proof exercises every check of the verifier only against data that was consistent before the
// change; a verifier that compares a value with itself still rejects those. Here the prover itself (the library's NewProof,
// and the model's prover zk.<sys>.prove with honest masks) runs on an inconsistent (statement, witness) pair that differs
// from a true one in exactly ONE component, with honest randomness and the honest challenge of the resulting transcript:
//   pub<i>   : public field i replaced by the same field of another honestly generated statement (same keys), the witness kept.
//              Fields that are key material (Paillier moduli, Pedersen N, s, t of the key set) are replaced (by those of another
//              key set) for the MODEL prover only, which keeps computing with its own copies; the library's prover takes its
//              parameters from the public input, so a proof under other auxiliary parameters is a valid proof of a true statement.
//   wit-<w>  : witness component w (the components that enter the relation: whitelist below) replaced by that of the other
//              statement, the public input kept (library prover).
// Every such proof must be rejected by the library's verifier and by the model's verifier:
//   property C10/<sys>/false-statement/<component>.<prover>/accepted ; the replay re-verifies the generated triple.

import (
	"fmt"
	"math/big"

	"verifharness/model"
	"verifharness/sx"
)

// witness components that are part of the proven relation (a replaced value makes the statement false for that witness)
var zkRelationWitness = map[string][]string{
	"sch": {"x"}, "log": {"a"}, "elog": {"y", "lambda"}, "nth": {"rho"}, "enc": {"k", "rho"}, "logstar": {"x", "rho"},
	"dec": {"y", "rho"}, "mul": {"x", "rho", "rhox"}, "affg": {"x", "y", "sn", "r"}, "affp": {"x", "y", "sn", "rx", "r"},
	"mulstar": {"x", "rho"}, "encelg": {"x", "rho", "b"}, "fac": {"p", "q"}, "prm": {"lambda"}, "mod": {"p", "q"},
}

func zkIsKeyMaterial(k *zkKeys, v sx.V) bool {
	if v.Z == nil || len(v.L) > 0 {
		return false
	}
	for _, z := range []*big.Int{k.nh, k.s, k.t, k.n0, k.n1} {
		if z != nil && v.Z.Cmp(z) == 0 {
			return true
		}
	}
	return false
}

func zkPrivGet(p interface{}, name string) *big.Int {
	switch w := p.(type) {
	case bigs:
		return w[name]
	case affW:
		return map[string]*big.Int{"x": w.x, "y": w.y, "sn": w.sn, "rx": w.rx, "r": w.r}[name]
	}
	return nil
}

func zkPrivSet(p interface{}, name string, z *big.Int) interface{} {
	switch w := p.(type) {
	case bigs:
		o := bigs{}
		for k, v := range w {
			o[k] = v
		}
		o[name] = z
		return o
	case affW:
		switch name {
		case "x":
			w.x = z
		case "y":
			w.y = z
		case "sn":
			w.sn = z
		case "rx":
			w.rx = z
		case "r":
			w.r = z
		}
		return w
	}
	return p
}

// zkFalseJobs: inst is a true statement with its witness (keys k); other is a second key set (may be nil)
func zkFalseJobs(g *zkGen, d *zkDef, k, other *zkKeys, inst *zkInst, modelProver bool) (jobs []*zkJob) {
	class := d.classes[len(d.classes)-1]
	donor := d.gen(g, k, class)
	donor.keys, donor.class = k, class
	var donorK *zkInst
	if other != nil && !(d.name == "prm" && other.lambda == nil) {
		donorK = d.gen(g, other, class)
	}
	goJob := func(comp string, fi *zkInst) {
		jobs = append(jobs, &zkJob{cs: "false-statement/" + comp + ".go-prover", expect: expReject, mk: func(*model.Client) (t zkTriple, ok bool, err error) {
			defer func() {
				if e := recover(); e != nil {
					ok, err = false, nil // the prover refuses the inconsistent input: nothing to verify
				}
			}()
			com, resp := d.goProve(fi, goHashOf(zkPrefixA))
			return zkTriple{zkPrefixA, fi.pub, com, resp}, true, nil
		}})
	}
	keyDone := false
	for i := range inst.pub.L {
		orig := inst.pub.L[i]
		keyMat := zkIsKeyMaterial(k, orig)
		var repl sx.V
		have := false
		if !keyMat && i < len(donor.pub.L) && !donor.pub.L[i].Equal(orig) {
			repl, have = donor.pub.L[i], true
		} else if keyMat && donorK != nil && i < len(donorK.pub.L) && !donorK.pub.L[i].Equal(orig) {
			repl, have = donorK.pub.L[i], true
		}
		if !have {
			continue
		}
		fi := *inst
		fi.pub = replaceAt(inst.pub, i, repl)
		comp := fmt.Sprintf("pub%d", i)
		if keyMat {
			comp += "-key"
		} else {
			goJob(comp, &fi)
		}
		// quick tier: key-material fields (4-5 per system, the same check of the verifier each time) only for the first of them
		if keyMat && !g.c.thorough() {
			if keyDone {
				continue
			}
			keyDone = true
		}
		if modelProver && d.rnd != nil {
			rnd := sx.List(d.rnd(g, inst)...)
			fic := fi
			jobs = append(jobs, &zkJob{cs: "false-statement/" + comp + ".model-prover", expect: expReject, mk: func(m *model.Client) (zkTriple, bool, error) {
				return zkModelProve(m, d, &fic, zkPrefixA, rnd)
			}})
		}
	}
	for _, name := range zkRelationWitness[d.name] {
		a, b := zkPrivGet(inst.priv, name), zkPrivGet(donor.priv, name)
		if a == nil || b == nil || a.Cmp(b) == 0 {
			continue
		}
		fi := *inst
		fi.priv = zkPrivSet(inst.priv, name, b)
		goJob("wit-"+name, &fi)
	}
	return jobs
}
