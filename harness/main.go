// vh -- correspondence and violation-search harness for the Coq models of multi-party-sig.
//   vh <property> -tier quick|thorough -seed N -model <mpsmodel> -out <result.json> [-cases <cases.v>] [-replay f]
package main

import (
	"flag"
	"fmt"
	"os"
	"strings"

	"verifharness/hk"
	"verifharness/model"
)

type ctx struct {
	res    *hk.Result
	m      *model.Client
	tier   string
	replay string
}

var props = map[string]func(*ctx){}

func main() {
	if len(os.Args) < 2 {
		fmt.Fprintln(os.Stderr, "usage: vh <property> [flags]")
		os.Exit(2)
	}
	prop := strings.ToUpper(os.Args[1])
	fs := flag.NewFlagSet("vh", flag.ExitOnError)
	tier := fs.String("tier", "quick", "")
	seed := fs.Int64("seed", 1, "")
	mpath := fs.String("model", "/verif/coq/Extract/out/mpsmodel", "")
	out := fs.String("out", "", "")
	cases := fs.String("cases", "", "")
	replay := fs.String("replay", "", "")
	fs.Parse(os.Args[2:])
	f, ok := props[prop]
	if !ok {
		fmt.Fprintln(os.Stderr, "unknown property", prop)
		os.Exit(2)
	}
	m, err := model.Start(*mpath)
	if err != nil {
		fmt.Fprintln(os.Stderr, "cannot start model:", err)
		os.Exit(2)
	}
	c := &ctx{res: hk.New(prop, *tier, *seed), m: m, tier: *tier, replay: *replay}
	f(c)
	c.res.ModelCalls = m.Calls
	m.Close()
	if *cases != "" {
		if err := m.WriteCasesV(*cases); err != nil {
			fmt.Fprintln(os.Stderr, err)
			os.Exit(2)
		}
	}
	if *out != "" {
		if err := c.res.Write(*out); err != nil {
			fmt.Fprintln(os.Stderr, err)
			os.Exit(2)
		}
	}
	fmt.Printf("%s: %d evaluations, %d distinct, corr %d/%d broken, %d violations\n", prop, c.res.Evaluations,
		c.res.Distinct, c.res.CorrBroken, c.res.CorrChecked, len(c.res.Violations))
}

func (c *ctx) thorough() bool { return c.tier == "thorough" }
