package main

// C06, fourth equivocation mode ("directed", and its control "directed-same").
//
// A transport may deliver a broadcast as one copy per recipient, and nothing stops a cheater from filling in `To` on each copy
// while leaving the Broadcast flag set.  What the unchanged handler does with such a copy (pinned by these runs, see
// work/H9/NOTES.md): CanAccept is true (IsFor: To is the recipient), Accept stores the copy in the broadcast queue of its
// round WITH its To, the round code consumes it like any broadcast, and the recipient's view digest is computed over
// Message.Hash() of the stored copy, which covers To and Data.  So every recipient of directed copies holds a different view
// digest (its own name is in it) and honest parties stop with "broadcast verification failed" as soon as they exchange their
// next messages: a directed broadcast does NOT behave like a normal one, it ends the session without naming anybody.
//
// directed: the equivocator E is two honest instances in lockstep up to round k-1 (as in fork mode); from round k on every
// broadcast of either instance is sent as per-recipient copies with To filled in; group 1 gets instance 1's payloads, group 2
// instance 2's (different, individually valid).  E echoes to every honest recipient the view digest that this recipient itself
// holds for the previous round, and messages to E's instances are given the instance's own digest (a cheater does not check).
// directed-same: ONE honest instance of E; its broadcasts from round k on are sent as directed copies with identical payloads,
// with the same echo.  Oracles as in the other modes: no two honest parties of different groups both complete (directed-same:
// completers have equal public results), completers hold identical views (compared without the addressing field To), view
// digests equal iff the stored views (as hashed by Message.Hash) are equal.

import (
	"bytes"
	"fmt"
	"math/rand"

	"github.com/taurusgroup/multi-party-sig/pkg/party"
	"github.com/taurusgroup/multi-party-sig/pkg/protocol"
)

type directedState struct {
	E        party.ID
	k        int
	same     bool
	bcast    map[int]bool
	directed map[*protocol.Message]bool // the per-recipient copies produced
	got      map[party.ID]int           // honest recipient -> directed copies of round k delivered
	toSys    int                        // honest parties' messages to E's first instance that were given the instance's own digest
}

func buildDirected(sp SessionSpec, seed int64, E party.ID, g1 map[party.ID]bool, k int, bcast map[int]bool, same bool, det *detReader) (*Sim, *directedState) {
	s := NewSim(sp.IDs, rand.New(rand.NewSource(seed)), det)
	ds := &directedState{E: E, k: k, same: same, bcast: bcast, directed: map[*protocol.Message]bool{}, got: map[party.ID]int{}}
	e2 := party.ID(string(E) + "#2")
	if !same {
		det.alias[string(e2)] = string(E)
		if k <= 2 {
			det.alias[string(e2)] = string(E) + "-forked"
		}
		s.Route = func(from, to *Node) bool {
			if from.ID == E {
				if from.Label == E {
					return g1[to.ID]
				}
				return !g1[to.ID]
			}
			return true
		}
	}
	// (set before the nodes are created: the round-2 messages are emitted at construction)
	s.OnEmit = func(from party.ID, e *Env) []*Env {
		if from != E {
			return []*Env{e}
		}
		if e.Msg.RoundNumber == 0 {
			return nil // the cheater keeps its instances' failures to itself
		}
		to := s.Nodes[e.To]
		if to == nil || to.ID == E || !e.Msg.Broadcast || int(e.Msg.RoundNumber) < k {
			return []*Env{e}
		}
		m := *e.Msg
		m.To = to.ID
		e.Msg = &m
		ds.directed[&m] = true
		return []*Env{e}
	}
	for _, id := range s.IDs {
		s.AddMulti(id, sp.Start(id), sp.SessionID)
	}
	if !same {
		s.AddMultiAs(e2, E, sp.Start(E), sp.SessionID)
	}
	s.Seal()
	return s, ds
}

// digestFor: the digest the recipient of e holds for the round before e's round, if e has to carry it
func (ds *directedState) digestFor(s *Sim, e *Env) (d []byte, needed, ok bool) {
	r := int(e.Msg.RoundNumber)
	if r <= ds.k || !ds.bcast[r-1] {
		return nil, false, true
	}
	to := s.Nodes[e.To]
	if to == nil || to.MH == nil {
		return nil, false, true
	}
	if to.ID != ds.E && e.Msg.From != ds.E {
		return nil, false, true // honest to honest: untouched
	}
	d = to.MH.VerifState().Hashes[uint16(r-1)]
	return d, true, d != nil
}

func (ds *directedState) pick(s *Sim, i int) int {
	blocked := func(e *Env) bool { _, needed, ok := ds.digestFor(s, e); return needed && !ok }
	if !blocked(s.Flight[i]) {
		return i
	}
	for j, f := range s.Flight {
		if !blocked(f) {
			return j
		}
	}
	return i
}

func (ds *directedState) patch(s *Sim, e *Env) {
	if d, needed, ok := ds.digestFor(s, e); needed && ok && !bytes.Equal(d, e.Msg.BroadcastVerification) {
		m := *e.Msg
		m.BroadcastVerification = append([]byte{}, d...)
		if ds.directed[e.Msg] {
			ds.directed[&m] = true
		}
		if to := s.Nodes[e.To]; to != nil && to.Label == ds.E && e.Msg.From != ds.E {
			ds.toSys++
		}
		e.Msg = &m
	}
}

func (ds *directedState) delivered(s *Sim, e *Env) {
	if ds.directed[e.Msg] && int(e.Msg.RoundNumber) == ds.k {
		if to := s.Nodes[e.To]; to != nil && to.ID != ds.E && to.MH != nil {
			// counted when the copy is what the recipient now holds as E's round-k broadcast
			if q := to.MH.VerifState().Broadcasts[uint16(ds.k)]; q != nil && q[ds.E] != nil && q[ds.E].To == to.ID && bytes.Equal(q[ds.E].Data, e.Msg.Data) {
				ds.got[to.ID]++
			}
		}
	}
}

// viewsOfNoTo: viewsOf with the addressing field cleared (what was broadcast, not to whom the copy was addressed)
func viewsOfNoTo(n *Node) map[int]map[party.ID][]byte {
	out := map[int]map[party.ID][]byte{}
	if n.MH == nil {
		return out
	}
	st := n.MH.VerifState()
	for r, q := range st.Broadcasts {
		out[int(r)] = map[party.ID][]byte{}
		for id, m := range q {
			bc := 0
			if m.Broadcast {
				bc = 1
			}
			// the fields themselves (independent of Message.Hash)
			out[int(r)][id] = []byte(fmt.Sprintf("%x|%x|%s|%d|%x|%d|%x", m.SSID, []byte(m.From), m.Protocol, m.RoundNumber, m.Data, bc, m.BroadcastVerification))
		}
	}
	return out
}
