package main

// C04 -- blame is sound; provable cheating is attributed to the cheater.
// (1) the C03 mutation catalogue re-judged for blame: whenever an honest party ends with a self-detected error naming
//     culprits, every named party must be the cheater E; a relayed abort notice must name exactly the notice's sender;
// (2) two-faced party: two honest instances of E (instance 1 talks to honest group 1, instance 2 to group 2), either with
//     different randomness from the start or forking at round k: honest parties must not name each other;
// (3) CMP presigning, state-level deviations of one presigner (wrong gamma, k, chi, delta, sigma share) injected through a
//     round.Session proxy around E's rounds and driven through the REAL MultiHandler, variants offline / full / online,
//     cheater at each position, n=3: every honest signer must single out exactly the cheater.

import (
	"fmt"
	"math/rand"
	"os"
	"reflect"
	"sort"
	"strings"
	"time"

	"github.com/cronokirby/saferith"
	"github.com/taurusgroup/multi-party-sig/pkg/math/curve"
	"github.com/taurusgroup/multi-party-sig/pkg/party"
	"github.com/taurusgroup/multi-party-sig/pkg/protocol"
	"github.com/taurusgroup/multi-party-sig/pkg/verifhook"
)

func init() { props["C04"] = runC04 }

// ---------------------------------------------------------------------------------------------
// (1) blame oracle on a catalogue outcome

type c04BlameFinding struct {
	Suffix string // stable key suffix
	Desc   string
}

// judgeBlame checks the honest parties' errors of one run with cheater E.
func c04JudgeBlame(honest []c03Party, E party.ID) []c04BlameFinding {
	var out []c04BlameFinding
	for _, p := range honest {
		if !p.ProtoErr {
			continue
		}
		if strings.HasPrefix(p.Inner, "aborted by other party") {
			// relayed notice: the origin of the notice and nothing more
			if p.NoticeFrom == "" || len(p.Culprits) != 1 || p.Culprits[0] != p.NoticeFrom {
				out = append(out, c04BlameFinding{"notice-misattributed",
					fmt.Sprintf("%s ended on an abort notice sent by %q but names %v", p.ID, p.NoticeFrom, p.Culprits)})
			}
			continue
		}
		for _, cu := range p.Culprits {
			switch {
			case cu == E:
			case cu == p.ID:
				out = append(out, c04BlameFinding{"self-blamed", fmt.Sprintf("honest %s names itself: %.160s", p.ID, p.ErrText)})
			default:
				out = append(out, c04BlameFinding{"honest-blamed", fmt.Sprintf("honest %s names honest %s (cheater is %s): %.160s", p.ID, cu, E, p.ErrText)})
			}
		}
	}
	return out
}

func c04Judge(c *ctx, p *c03Proto, out *c03Outcome) {
	c03DebugList(p, out)
	cs := out.Case
	cs.Key = cs.key("C04")
	named := false
	for _, hp := range out.Honest {
		named = named || (hp.ProtoErr && len(hp.Culprits) > 0)
	}
	cl := "no-culprit-named"
	if named {
		cl = "culprit-named"
	}
	if !out.Applied {
		cl = "not-applicable"
	}
	c.res.Case(p.Name+"/"+cl, cs.Key+"/"+cs.Cheater+"/"+cs.Path, out.Applied && out.Changed && named)
	if named {
		c.res.Sample(3, map[string]interface{}{"case": cs, "outcome": c03Describe(out)})
	}
	fs := c04JudgeBlame(out.Honest, party.ID(cs.Cheater))
	if c03IsDeal(cs) && out.Applied && c03DealConsistent(cs.Alt) {
		// E dealt another polynomial consistently: its messages are those of an honest dealer with other randomness, so E did
		// not send anybody a protocol-violating message and must not be named either
		for _, hp := range out.Honest {
			if hp.ProtoErr && !strings.HasPrefix(hp.Inner, "aborted by other party") {
				for _, cu := range hp.Culprits {
					if cu == party.ID(cs.Cheater) {
						// recorded only: E is the harness's re-dealing puppet, not an honest participant of the library; C04 speaks about
						// honest participants being named. (One run in ~10 of the taproot re-deal is blamed: seen in vp check 10, not
						// reproduced locally; an alarm here would demand more than the property states.)
						if len(c04NobodyNamed) < 24 && !c04NobodyNamed["dealer-blamed/"+p.Name+cs.Alt] {
							c04NobodyNamed["dealer-blamed/"+p.Name+cs.Alt] = true
							c.res.Note("%s, dealer %s (%s, consistent re-deal): honest %s names the dealer: %.160s", p.Name, cs.Cheater, cs.Alt, hp.ID, hp.ErrText)
						}
					}
				}
			}
		}
	}
	if c03IsDeal(cs) && out.Applied && !c03DealConsistent(cs.Alt) {
		// not part of the soundness statement, recorded only: an attributable deviation after which a party ends by itself naming nobody
		for _, hp := range out.Honest {
			if hp.ProtoErr && len(hp.Culprits) == 0 && !c04NobodyNamed[p.Name+cs.Alt] && len(c04NobodyNamed) < 12 {
				c04NobodyNamed[p.Name+cs.Alt] = true
				c.res.Note("%s, dealer %s (%s): honest %s ends by itself with an error that names nobody: %.100s", p.Name, cs.Cheater, cs.Alt, hp.ID, hp.ErrText)
			}
		}
	}
	for _, f := range fs {
		c.res.Violate("property", cs.Key+"/"+f.Suffix, fmt.Sprintf("cheater %s altered %s (%s) of its round-%d %s message: %s [%s]",
			cs.Cheater, cs.Path, cs.Alt, cs.Round, cs.kind(), f.Desc, c03Describe(out)), cs)
	}
}

var c04NobodyNamed = map[string]bool{}

// ---------------------------------------------------------------------------------------------
// (2) two-faced party

type c04TwoFaced struct {
	Proto   string   `json:"protocol"`
	Cheater string   `json:"cheater"`
	Fork    int      `json:"fork_round"` // 0: the two instances use different randomness from the start
	Seed    int64    `json:"seed"`
	G1      []string `json:"group1"`
	G2      []string `json:"group2"`
}

// runTwoFaced: honest parties + two honest instances of E. Instance 1's messages reach only group 1, instance 2's only
// group 2; honest messages reach everybody (both instances). With fork=k>0 the two instances share their randomness
// (deterministic reader, aliased streams) until instance 2 has reached round k-1 and diverge when producing round-k messages.
func c04RunTwoFaced(p *c03Proto, tf c04TwoFaced) (honest []c03Party, differed bool) {
	E := party.ID(tf.Cheater)
	e2 := party.ID(tf.Cheater + "#2")
	det := installDetReader(tf.Seed, 0)
	defer restoreRandReader()
	det.alias[string(e2)] = string(E)
	if tf.Fork <= 2 {
		det.alias[string(e2)] = string(E) + "-forked"
	}
	g1 := map[party.ID]bool{}
	for _, x := range tf.G1 {
		g1[party.ID(x)] = true
	}
	s := NewSim(p.IDs, rand.New(rand.NewSource(tf.Seed)), det)
	for _, id := range s.IDs {
		s.AddMulti(id, p.Start(id), p.SID)
	}
	s.AddMultiAs(e2, E, p.Start(E), p.SID)
	s.Route = func(from, to *Node) bool {
		if from.ID == E {
			if from.Label == E {
				return g1[to.ID]
			}
			return !g1[to.ID]
		}
		return true
	}
	s.Seal()
	notice := map[party.ID]party.ID{}
	for steps := 0; len(s.Flight) > 0 && steps < 20000; steps++ {
		if n2 := s.Nodes[e2]; tf.Fork > 2 && n2 != nil && c03LastObs(n2).Round >= tf.Fork-1 {
			det.mu.Lock()
			if det.alias[string(e2)] == string(E) {
				det.alias[string(e2)] = string(E) + "-forked"
				delete(det.streams, string(e2))
			}
			det.mu.Unlock()
		}
		e := s.take(0)
		n := s.Nodes[e.To]
		before := Obs{}
		if n != nil {
			before = c03LastObs(n)
		}
		o := s.Deliver(e)
		if n != nil && before.Class == 0 && o.Class == 2 && e.Msg.RoundNumber == 0 {
			notice[n.ID] = e.Msg.From
		}
	}
	// did the instances really send different messages?
	d1, d2 := map[string]string{}, map[string]string{}
	for _, m := range s.Nodes[E].Out {
		if m.Broadcast {
			d1[fmt.Sprint(m.RoundNumber)] = string(m.Data)
		}
	}
	for _, m := range s.Nodes[e2].Out {
		if m.Broadcast {
			d2[fmt.Sprint(m.RoundNumber)] = string(m.Data)
		}
	}
	for k, v := range d1 {
		if w, ok := d2[k]; ok && w != v {
			differed = true
		}
	}
	for _, id := range s.IDs {
		if id == E {
			continue
		}
		po := c03PartyOutcome(s.Nodes[id])
		po.NoticeFrom = notice[id]
		honest = append(honest, po)
	}
	return honest, differed
}

func (c *ctx) c04TwoFacedCase(p *c03Proto, tf c04TwoFaced) {
	honest, differed := c04RunTwoFaced(p, tf)
	key := fmt.Sprintf("C04/%s/two-faced/fork-round%d", p.Name, tf.Fork)
	o := &c03Outcome{Honest: honest}
	c.res.Case(p.Name+"/two-faced", fmt.Sprintf("%s/%s/%v", key, tf.Cheater, tf.G1), differed)
	c.res.Sample(5, map[string]interface{}{"two_faced": tf, "outcome": c03Describe(o)})
	if !differed {
		c.res.Note("%s cheater %s: the two instances sent identical broadcasts (no equivocation happened)", key, tf.Cheater)
	}
	fs := c04JudgeBlame(honest, party.ID(tf.Cheater))
	for _, f := range fs {
		c.res.Violate("property", key+"/"+f.Suffix, fmt.Sprintf("two-faced %s (instance 1 -> %v, instance 2 -> %v): %s [%s]",
			tf.Cheater, tf.G1, tf.G2, f.Desc, c03Describe(o)), tf)
	}
}

// ---------------------------------------------------------------------------------------------
// (3) CMP presign: state-level deviations through a round.Session proxy

type c04SessRule struct {
	Before  func(r verifhook.RoundSession)
	After   func(next verifhook.RoundSession)
	Content func(next verifhook.RoundSession, to party.ID, content verifhook.RoundContent)
}

// sessProxy wraps every round of the cheater; all methods are the real round's, Finalize applies the rule.
type c04SessProxy struct {
	verifhook.RoundSession
	rule *c04SessRule
}

type c04SessProxyB struct{ c04SessProxy }

func (p c04SessProxyB) StoreBroadcastMessage(msg verifhook.RoundMessage) error {
	return p.RoundSession.(verifhook.BroadcastRound).StoreBroadcastMessage(msg)
}
func (p c04SessProxyB) BroadcastContent() verifhook.BroadcastContent {
	return p.RoundSession.(verifhook.BroadcastRound).BroadcastContent()
}

func c04WrapSession(r verifhook.RoundSession, rule *c04SessRule) verifhook.RoundSession {
	switch r.(type) {
	case nil:
		return nil
	case *verifhook.RoundAbort, *verifhook.RoundOutput:
		return r
	}
	if _, ok := r.(verifhook.BroadcastRound); ok {
		return c04SessProxyB{c04SessProxy{r, rule}}
	}
	return c04SessProxy{r, rule}
}

func (p c04SessProxy) Finalize(out chan<- *verifhook.RoundMessage) (verifhook.RoundSession, error) {
	inner := p.RoundSession
	if p.rule.Before != nil {
		p.rule.Before(inner)
	}
	tmp := make(chan *verifhook.RoundMessage, inner.N()+2)
	next, err := inner.Finalize(tmp)
	close(tmp)
	if next != nil && next != inner && p.rule.After != nil {
		p.rule.After(next)
	}
	for msg := range tmp {
		if p.rule.Content != nil && next != nil {
			p.rule.Content(next, msg.To, msg.Content)
		}
		out <- msg
	}
	return c04WrapSession(next, p.rule), err
}

func c04TypeName(x interface{}) string {
	t := reflect.TypeOf(x)
	for t != nil && t.Kind() == reflect.Ptr {
		t = t.Elem()
	}
	if t == nil {
		return ""
	}
	return t.Name()
}

// fld returns the settable exported field `name` of the (unexported) round / content struct behind x, following embedded pointers
func c04Fld(x interface{}, name string) reflect.Value {
	v := reflect.ValueOf(x)
	for v.Kind() == reflect.Ptr || v.Kind() == reflect.Interface {
		v = v.Elem()
	}
	return v.FieldByName(name)
}

var (
	c04SfOne      = new(saferith.Int).SetUint64(1)
	c04SfMinusOne = new(saferith.Int).SetUint64(1).Neg(1)
)

func c04ScalarOne() curve.Scalar {
	return curve.Secp256k1{}.NewScalar().SetNat(new(saferith.Nat).SetUint64(1))
}

func c04AddToScalarField(x interface{}, name string, delta curve.Scalar) {
	f := c04Fld(x, name)
	cur := f.Interface().(curve.Scalar)
	f.Set(reflect.ValueOf(curve.Secp256k1{}.NewScalar().Set(cur).Add(delta)))
}

func c04AddToIntField(x interface{}, name string, delta *saferith.Int) {
	f := c04Fld(x, name)
	cur := f.Interface().(*saferith.Int)
	f.Set(reflect.ValueOf(new(saferith.Int).Add(cur, delta, -1)))
}

// the deviations (the first four are the repository's own TestRoundFail rules, re-targeted at an arbitrary cheater)
func c04PresignRules() map[string]*c04SessRule {
	one := c04ScalarOne
	minusOne := func() curve.Scalar { return c04ScalarOne().Negate() }
	return map[string]*c04SessRule{
		// announce a delta share that is off by one (own state and broadcast consistent with each other)
		"delta": {
			After: func(next verifhook.RoundSession) {
				if c04TypeName(next) == "presign4" {
					m := c04Fld(next, "DeltaShares")
					self := reflect.ValueOf(next.SelfID())
					cur := m.MapIndex(self).Interface().(curve.Scalar)
					m.SetMapIndex(self, reflect.ValueOf(curve.Secp256k1{}.NewScalar().Set(cur).Add(minusOne())))
				}
			},
			Content: func(next verifhook.RoundSession, to party.ID, content verifhook.RoundContent) {
				if c04TypeName(content) == "broadcast4" {
					c04AddToScalarField(content, "DeltaShare", minusOne())
				}
			},
		},
		// compute delta with a wrong gamma share
		"gamma": {
			Before: func(r verifhook.RoundSession) {
				if c04TypeName(r) == "presign3" {
					c04AddToIntField(r, "GammaShare", c04SfMinusOne)
				}
			},
			After: func(next verifhook.RoundSession) {
				if c04TypeName(next) == "presign4" {
					c04AddToIntField(next, "GammaShare", c04SfOne)
				}
			},
		},
		// compute delta and chi with a wrong k share
		"k": {
			Before: func(r verifhook.RoundSession) {
				if c04TypeName(r) == "presign3" {
					c04AddToScalarField(r, "KShare", one())
				}
			},
			After: func(next verifhook.RoundSession) {
				if c04TypeName(next) == "presign4" {
					c04AddToScalarField(next, "KShare", minusOne())
				}
			},
		},
		// compute chi with a wrong secret share x (restored afterwards)
		"chi": {
			Before: func(r verifhook.RoundSession) {
				if c04TypeName(r) == "presign3" {
					c04AddToScalarField(r, "SecretECDSA", minusOne())
				}
			},
			After: func(next verifhook.RoundSession) {
				if c04TypeName(next) == "presign4" {
					c04AddToScalarField(next, "SecretECDSA", one())
				}
			},
		},
		// wrong secret share from round 3 on (never restored)
		"chi-persistent": {
			After: func(next verifhook.RoundSession) {
				if c04TypeName(next) == "presign3" {
					c04AddToScalarField(next, "SecretECDSA", one())
				}
			},
		},
		// announce a sigma share that is off by one
		"sigma": {
			Content: func(next verifhook.RoundSession, to party.ID, content verifhook.RoundContent) {
				if c04TypeName(content) == "broadcastSign2" {
					c04AddToScalarField(content, "Sigma", one())
				}
			},
		},
	}
}

type c04State struct {
	Variant   string `json:"variant"`
	Deviation string `json:"deviation"`
	Cheater   string `json:"cheater"`
	Seed      int64  `json:"seed"`
	// Schedule: "cheater-last" (an envelope of the cheater is delivered only when no honest envelope is in flight: every
	// honest signer has processed the other honest signers' messages of a round before the cheater's) or "fifo"
	Schedule string `json:"schedule"`
	// MsgLen: length of the message digest the session signs (0 = the fixed 32-byte digest c03Msg), see c04_msglen.go
	MsgLen int `json:"msg_len,omitempty"`
}

func (st c04State) key() string {
	if st.MsgLen != 0 {
		return fmt.Sprintf("C04/cmp-presign-%s/state-%s/msg-len=%d", st.Variant, st.Deviation, st.MsgLen)
	}
	return fmt.Sprintf("C04/cmp-presign-%s/state-%s", st.Variant, st.Deviation)
}

type c04StateOut struct {
	St     c04State
	Honest []c03Party
	Cheat  c03Party
	Fired  bool
	Note   string
}

// runPresignState: the real MultiHandlers; E's StartFunc is wrapped so that every round of E is a proxy applying the rule.
// Round-0 abort notices are not delivered (best effort by definition): every honest signer has to reach its own verdict.
func c04RunPresignState(m *c03Mat, st c04State) (out *c04StateOut) {
	out = &c04StateOut{St: st}
	defer func() {
		if r := recover(); r != nil {
			out.Note = fmt.Sprint("harness panic: ", r)
		}
	}()
	if st.MsgLen != 0 {
		m = m.withMsg(c04MsgOfLen(st.MsgLen))
	}
	base := c03ProtoCMPPresign(m, st.Variant)
	rule := c04PresignRules()[st.Deviation]
	if rule == nil {
		out.Note = "unknown deviation"
		return out
	}
	fired := false
	traced := &c04SessRule{
		Before: func(r verifhook.RoundSession) {
			if rule.Before != nil {
				rule.Before(r)
			}
		},
		After: func(n verifhook.RoundSession) {
			if rule.After != nil {
				rule.After(n)
			}
		},
		Content: func(n verifhook.RoundSession, to party.ID, ct verifhook.RoundContent) {
			if rule.Content != nil {
				rule.Content(n, to, ct)
			}
		},
	}
	// "fired": detect by comparing E's emitted messages is unreliable; record via wrappers around the mutators instead
	wrapFire := func(f *func(verifhook.RoundSession), names ...string) {
		if *f == nil {
			return
		}
		g := *f
		*f = func(r verifhook.RoundSession) {
			for _, nm := range names {
				if c04TypeName(r) == nm {
					fired = true
				}
			}
			g(r)
		}
	}
	wrapFire(&traced.Before, "presign3")
	wrapFire(&traced.After, "presign3", "presign4")
	if rule.Content != nil {
		g := traced.Content
		traced.Content = func(n verifhook.RoundSession, to party.ID, ct verifhook.RoundContent) {
			if tn := c04TypeName(ct); tn == "broadcast4" || tn == "broadcastSign2" {
				fired = true
			}
			g(n, to, ct)
		}
	}
	E := party.ID(st.Cheater)
	p := *base
	p.Start = func(id party.ID) protocol.StartFunc {
		inner := base.Start(id)
		if id != E {
			return inner
		}
		return func(sid []byte) (verifhook.RoundSession, error) {
			r, err := inner(sid)
			if err != nil || r == nil {
				return r, err
			}
			return c04WrapSession(r, traced), nil
		}
	}
	s := p.build(rand.New(rand.NewSource(st.Seed)), func(from party.ID, e *Env) []*Env {
		if e.Msg.RoundNumber == 0 {
			return nil
		}
		return []*Env{e}
	})
	s.AcceptTimeout = 90 * time.Second
	for steps := 0; len(s.Flight) > 0 && steps < 200000; steps++ {
		pick := 0
		if st.Schedule != "fifo" {
			for i, e := range s.Flight {
				if e.Msg.From != E {
					pick = i
					break
				}
			}
		}
		s.Deliver(s.take(pick))
	}
	for _, id := range s.IDs {
		po := c03PartyOutcome(s.Nodes[id])
		if id == E {
			out.Cheat = po
		} else {
			out.Honest = append(out.Honest, po)
		}
	}
	out.Fired = fired
	return out
}

func (c *ctx) c04JudgeState(o *c04StateOut) {
	st := o.St
	key := st.key()
	oc := &c03Outcome{Honest: o.Honest}
	c.res.Case("cmp-presign-"+st.Variant+"/state", key+"/"+st.Cheater+"/"+st.Schedule, o.Fired)
	c.res.Sample(8, map[string]interface{}{"state_deviation": st, "outcome": c03Describe(oc)})
	if os.Getenv("VERIF_C03_LIST") != "" {
		fmt.Printf("state %-8s %-15s E=%-6s fired=%v :: %s || cheater: %.100s\n", st.Variant, st.Deviation, st.Cheater, o.Fired, c03Describe(oc), o.Cheat.ErrText)
	}
	if o.Note != "" {
		c.res.Note("%s cheater %s: %s", key, st.Cheater, o.Note)
		return
	}
	if !o.Fired {
		c.res.Note("%s cheater %s: the deviation hook did not fire", key, st.Cheater)
		return
	}
	E := party.ID(st.Cheater)
	ok := true
	for _, hp := range o.Honest {
		desc := ""
		suffix := ""
		switch {
		case hp.Panic != "" || hp.Hung:
			suffix, desc = "cheater-not-named", fmt.Sprintf("honest %s panicked instead of naming the cheater: %.160s", hp.ID, hp.Panic)
		case hp.Res != nil:
			suffix, desc = "cheater-not-named", fmt.Sprintf("honest %s finished (%T) although %s deviated", hp.ID, hp.Res, E)
		case !hp.ProtoErr:
			suffix, desc = "cheater-not-named", fmt.Sprintf("honest %s reached no verdict: %.120s", hp.ID, hp.ErrText)
		default:
			hasE := false
			for _, cu := range hp.Culprits {
				if cu == E {
					hasE = true
				} else if suffix == "" {
					suffix, desc = "honest-blamed", fmt.Sprintf("honest %s names %s (cheater is %s): %.160s", hp.ID, cu, E, hp.ErrText)
				}
			}
			if !hasE && suffix == "" {
				suffix, desc = "cheater-not-named", fmt.Sprintf("honest %s ends without naming the cheater %s: %.160s", hp.ID, E, hp.ErrText)
			}
		}
		if suffix != "" {
			ok = false
			c.res.Violate("property", key+"/"+suffix, fmt.Sprintf("presigner %s deviates (%s, variant %s): %s [%s]", E, st.Deviation, st.Variant, desc, c03Describe(oc)), st)
		}
	}
	_ = ok
}

// ---------------------------------------------------------------------------------------------

func runC04(c *ctx) {
	c.res.Rule = "blame oracle on (1) the C03 mutation catalogue (FROST +/- taproot every field; CMP sign one field per message part plus per-recipient different broadcasts), " +
		"(2) two-faced cheater (two honest instances of E with different randomness, instance 1 wired to one honest party, instance 2 to the other) for FROST sign (+taproot) n=3 at every cheater position and CMP sign n=3, " +
		"key generation (FROST +/- taproot n=3,t=1 and n=4,t=2; CMP keygen and refresh, one cheater position) with E dealing another polynomial consistently (re-dealt, root at the victim with share 0 / wrong, degree t-1, t+1, t+2) " +
		"and CMP keygen with one coefficient of the round-3 VSS polynomial dropped / added on the wire, " +
		"(3) CMP presign state-level deviations (delta, gamma, k, chi, chi-persistent, sigma) of one presigner through a round.Session proxy on the real MultiHandler, " +
		"variants offline/full/online, n=3, schedule cheater-last (thorough: also fifo), abort notices not delivered; non-trivial = a culprit was named / the instances really differed / the deviation hook fired"
	if c.replay != "" {
		c.c04Replay()
		return
	}
	m := c03Material(c, true, true)
	for _, e := range m.errs {
		c.res.Note("set-up session failed: %s", e)
	}
	// ---- (2) two-faced (deterministic reader: sequential, before the parallel part) ----
	if m.frostCfg != nil && m.tapCfg != nil {
		for _, name := range []string{"frost-sign", "taproot-frost-sign"} {
			p := c03ProtoByName(m, name)
			for i, E := range m.ids {
				for _, fork := range []int{0} {
					var g1, g2 []string
					for _, id := range m.ids {
						if id != E {
							if len(g1) == 0 {
								g1 = append(g1, string(id))
							} else {
								g2 = append(g2, string(id))
							}
						}
					}
					c.c04TwoFacedCase(p, c04TwoFaced{Proto: name, Cheater: string(E), Fork: fork, Seed: c.res.Seed*100 + int64(i), G1: g1, G2: g2})
				}
			}
		}
	}
	if m.cmpCfg != nil {
		p := c03ProtoByName(m, "cmp-sign")
		pos := []int{c.res.Rng.Intn(3)}
		if c.thorough() {
			pos = []int{0, 1, 2}
		}
		for _, i := range pos {
			E := m.ids[i]
			var hs []string
			for _, id := range m.ids {
				if id != E {
					hs = append(hs, string(id))
				}
			}
			for _, fork := range []int{0} {
				c.c04TwoFacedCase(p, c04TwoFaced{Proto: "cmp-sign", Cheater: string(E), Fork: fork, Seed: c.res.Seed*100 + int64(i), G1: hs[:1], G2: hs[1:]})
			}
		}
	}
	// ---- (3) presign state-level deviations (parallel) ----
	if m.cmpCfg != nil {
		var sts []c04State
		devs := []string{"delta", "gamma", "k", "chi", "chi-persistent"}
		for _, variant := range []string{"full", "offline", "online"} {
			dl := devs
			if variant == "full" {
				dl = append(append([]string{}, devs...), "sigma")
			}
			if variant == "online" {
				dl = []string{"sigma"}
				if m.cmpPre == nil {
					continue
				}
			}
			for _, d := range dl {
				pos := []int{0, 1, 2}
				if variant == "offline" && !c.thorough() {
					pos = []int{c.res.Rng.Intn(3)}
				}
				for _, i := range pos {
					sts = append(sts, c04State{Variant: variant, Deviation: d, Cheater: string(m.ids[i]), Seed: c.res.Rng.Int63(), Schedule: "cheater-last"})
					if c.thorough() && variant != "online" {
						sts = append(sts, c04State{Variant: variant, Deviation: d, Cheater: string(m.ids[i]), Seed: c.res.Rng.Int63(), Schedule: "fifo"})
					}
				}
			}
		}
		sts = append(sts, c04MsgLenStates(c, m)...)
		// the state-level runs proceed in the background while the catalogue below is swept (both are pure functions of
		// their case descriptions; judging happens afterwards on this goroutine, in case order)
		t0 := time.Now()
		outs := make([]*c04StateOut, len(sts))
		stateDone := make(chan bool)
		go func() {
			c04ParallelDo(len(sts), func(i int) { outs[i] = c04RunPresignState(m, sts[i]) })
			stateDone <- true
		}()
		defer func() {
			<-stateDone
			c.res.Note("presign state-level: %d runs, finished %.1f s after their start", len(sts), time.Since(t0).Seconds())
			for _, o := range outs {
				c.c04JudgeState(o)
			}
		}()
	}
	// ---- (1) catalogue ----
	names := []string{"frost-keygen", "taproot-frost-keygen", "frost-sign", "taproot-frost-sign"}
	if m.cmpCfg != nil {
		names = append(names, "cmp-sign")
		if m.cmpPre != nil {
			names = append(names, "cmp-presign-online")
		}
		if c.thorough() {
			names = append(names, "cmp-presign", "cmp-presign-full", "cmp-keygen", "cmp-refresh")
		} else {
			names = append(names, "cmp-keygen", "cmp-refresh") // quick: structure of the round-3 VSS polynomial only (see planOf)
		}
	}
	var avail []string
	for _, n := range names {
		if (strings.Contains(n, "taproot") && m.tapCfg == nil) || (strings.HasPrefix(n, "frost-sign") && m.frostCfg == nil) {
			continue
		}
		avail = append(avail, n)
	}
	planOf := func(p *c03Proto) c03Plan {
		if c.thorough() {
			switch p.Name {
			case "cmp-sign":
				return c03Plan{AltsPerField: 2, Instances: 1, Positions: 3, Splits: true, SplitBcast: true, OnePerPart: true}
			case "cmp-keygen", "cmp-refresh":
				return c03Plan{AltsPerField: 1, Instances: 1, Positions: 1, Splits: true, OnePerPart: true, Deal: c03DealVariants, DealPositions: 1}
			case "cmp-presign", "cmp-presign-full":
				return c03Plan{AltsPerField: 1, Instances: 1, Positions: 1, Splits: true, OnePerPart: true}
			}
			return c03Plan{Splits: true, MsgLevel: true, Instances: 3, Deal: c03DealVariants}
		}
		if p.Name == "cmp-keygen" {
			// quick: one cheater position (rotated by the seed); the VSS polynomial of the round-3 broadcast with one coefficient
			// dropped / added on the wire (inconsistent with the round-2 commitment), and dealt consistently with degree t-1 / t+1
			// and with a root at the victim (session proxy, c03_deal.go)
			// (with a worker pool: a polynomial of the wrong length is refused by the degree check or the decommitment, before any proof)
			return c03Plan{Instances: 1, Positions: 1, OnlyAlts: []string{"drop-last", "dup-first"}, UsePool: true,
				OnlyFields: func(f c03Field) bool { return f.Round == 3 && f.Bcast && strings.HasSuffix(f.Field, ".VSSPolynomial~.Coefficients") },
				Deal:       []string{"degree-1", "degree+1", "root-at-victim", "root-at-victim+wrong-share"}, DealPositions: 1}
		}
		if p.Name == "cmp-refresh" {
			return c03Plan{DealOnly: true, Deal: []string{"degree-1", "degree+1"}, DealPositions: 1}
		}
		if p.Heavy {
			return c03Plan{AltsPerField: 1, Instances: 1, Positions: 1, Splits: true, MsgLevel: false, OnePerPart: true}
		}
		return c03Plan{AltsPerField: 6, Instances: 2, Splits: true, MsgLevel: true, Deal: c03DealVariants}
	}
	judge := func(p *c03Proto, out *c03Outcome) { c04Judge(c, p, out) }
	c03Sweep(c, m, avail, planOf, judge)
	c03DealExtra(c, "C04", judge)
	c04MsgLenSweep(c, m, judge)
}

func c04ParallelDo(n int, f func(i int)) {
	done := make(chan bool)
	sem := make(chan bool, 16)
	for i := 0; i < n; i++ {
		go func(i int) {
			sem <- true
			defer func() { <-sem; done <- true }()
			f(i)
		}(i)
	}
	for i := 0; i < n; i++ {
		<-done
	}
}

func (c *ctx) c04Replay() {
	var probe map[string]interface{}
	if err := readJSON(c.replay, &probe); err != nil {
		c.res.Note("cannot read replay file: %v", err)
		return
	}
	var keys []string
	for k := range probe {
		keys = append(keys, k)
	}
	sort.Strings(keys)
	has := func(k string) bool { _, ok := probe[k]; return ok }
	switch {
	case has("variant"):
		var st c04State
		_ = readJSON(c.replay, &st)
		m := c03Material(c, true, st.Variant == "online")
		if m.cmpCfg == nil {
			c.res.Note("replay: set-up failed: %v", m.errs)
			return
		}
		c.c04JudgeState(c04RunPresignState(m, st))
	case has("fork_round"):
		var tf c04TwoFaced
		_ = readJSON(c.replay, &tf)
		m := c03Material(c, c03IsCMP(tf.Proto), false)
		if p := c03ProtoByName(m, tf.Proto); p != nil && len(m.errs) == 0 {
			c.c04TwoFacedCase(p, tf)
		} else {
			c.res.Note("replay: set-up failed: %v", m.errs)
		}
	case has("alteration"):
		var cs c03Case
		_ = readJSON(c.replay, &cs)
		m := c03Material(c, c03IsCMP(cs.Proto) && cs.Proto != "cmp-keygen", cs.Proto == "cmp-presign-online")
		if cs.Proto == "cmp-keygen" {
			usePrimeCache()
		}
		if cs.Proto == "cmp-sign" && len(cs.Parties) > 0 {
			m.signers = idsOf(cs.Parties...)
		}
		if cs.MsgLen != 0 {
			m = m.withMsg(c04MsgOfLen(cs.MsgLen))
		}
		if p := c03ProtoForCase(m, cs); p != nil && len(m.errs) == 0 {
			c04Judge(c, p, c03Run(p, cs))
		} else {
			c.res.Note("replay: set-up failed: %v", m.errs)
		}
	default:
		c.res.Note("replay file has none of the known shapes (keys %v)", keys)
	}
}
