package main

// `vh GENPRIMES -out <file>`: one-off generation of 1024-bit safe Blum primes with the repository's own sampler
// (public test material stored in /verif/data/safeprimes24.txt; never run by the checks).

import (
	crand "crypto/rand"
	"fmt"
	"os"

	"github.com/taurusgroup/multi-party-sig/pkg/math/sample"
	"github.com/taurusgroup/multi-party-sig/pkg/pool"
)

func init() { props["GENPRIMES"] = runGenPrimes }

func runGenPrimes(c *ctx) {
	pl := pool.NewPool(0)
	defer pl.TearDown()
	f, err := os.OpenFile("/verif/data/safeprimes24.txt", os.O_APPEND|os.O_CREATE|os.O_WRONLY, 0o644)
	if err != nil {
		panic(err)
	}
	defer f.Close()
	n := 8
	if c.thorough() {
		n = 12
	}
	for i := 0; i < n; i++ {
		p, q := sample.Paillier(crand.Reader, pl)
		fmt.Fprintf(f, "%x\n%x\n", p.Big(), q.Big())
		f.Sync()
	}
	c.res.Case("genprimes", "x", true)
	c.res.Sample(1, "generated")
}
