package main

// C07 -- abort notices of a CANCELLED sibling session never change the outcome of a healthy session.
//
// For every C07 multi-party session spec (FROST key generation / signing as in c07.go (b), CMP key generation as in (b')):
//   * the in-order (FIFO) run is the reference;
//   * a sibling session of the same protocol and the same participants under ANOTHER session id is started and cancelled
//     (c09_abort.go anHarvest: a party is Stop()ped, or ends on an undecodable message; its notice travels, the peers abort
//     and emit theirs); every round-0 message the sibling's handlers really emitted is taken, and of each also the variants
//     Data nil / directed at the recipient / directed + Data nil / flagged broadcast + Data nil;
//   * the victim session is run again in order, and at the chosen points of the schedule (before the first delivery, after
//     every k-th delivery, when one envelope is left, after the last one; thorough: every point) every notice is offered to
//     EVERY victim party: CanAccept, and Accept regardless.
// Oracle (C07, foreign-session messages are no-ops): CanAccept false, handler state unchanged, and every victim party
// completes with the result of the in-order reference (CMP with a worker pool: completes), never with an error.
// A failing combined run is narrowed to ONE injection (point, recipient, notice) which is re-run on its own and reported.
// Every victim history is replayed in the Coq handler model and the whole session in the system model, like c07.go checkRun.

import (
	"fmt"
	"math/rand"
	"os"
	"sort"
	"strings"
	"time"

	"github.com/taurusgroup/multi-party-sig/pkg/party"
	"github.com/taurusgroup/multi-party-sig/pkg/protocol"
	"github.com/taurusgroup/multi-party-sig/protocols/frost"
)

const c07fPolicy = "foreign-abort-notice"

type c07fInj struct {
	Point  int    `json:"after_deliveries"`
	To     string `json:"offered_to"`
	Notice int    `json:"notice_index"`
	Desc   string `json:"notice,omitempty"`
}

type c07fReplay struct {
	Spec       string    `json:"spec"`
	Seed       int64     `json:"seed"`
	Policy     string    `json:"policy"`
	SiblingSID string    `json:"sibling_session_id"`
	Every      int       `json:"offered_after_every_kth_delivery,omitempty"`
	Offset     int       `json:"kth_offset,omitempty"`
	Inject     []c07fInj `json:"injections,omitempty"` // empty: every notice to every party at every chosen point
	Expected   string    `json:"expected,omitempty"`
	Observed   string    `json:"observed,omitempty"`
	Detail     string    `json:"detail,omitempty"`
}

// c07fNotice: one round-0 message to offer; directed: To is set to the recipient it is offered to.
type c07fNotice struct {
	msg      *protocol.Message
	directed bool
	desc     string
}

func (nt c07fNotice) forRecipient(id party.ID) *protocol.Message {
	if !nt.directed {
		return nt.msg
	}
	m := *nt.msg
	m.To = id
	return &m
}

type c07fOffer struct {
	inj     c07fInj
	can     bool
	changed bool
	emitted int
	pan     string
	hung    bool
}

// c07fHarvest cancels the sibling session and returns what to offer. Quick tier: at most two emitted notices per sender.
func (c *ctx) c07fHarvest(sib SessionSpec, heavy bool, seed int64) (out []c07fNotice, tag []byte, emitted int) {
	installMux()
	defer restoreRandReader()
	var ns []anNotice
	func() {
		defer func() {
			if r := recover(); r != nil {
				c.res.Note("C07 foreign abort notices: harvesting %s panicked: %v", sib.Name, r)
			}
		}()
		ns, tag, _ = anHarvest(anSibling{diff: "session-id", scoped: true, build: func(det *detReader) *Sim { return sib.build(rand.New(rand.NewSource(3)), det) }},
			false, heavy, int(seed%3), seed+7)
	}()
	emitted = len(ns)
	perSender := map[party.ID]int{}
	for _, n := range ns {
		if !c.thorough() && perSender[n.msg.From] >= 2 {
			continue
		}
		perSender[n.msg.From]++
		base := fmt.Sprintf("round-0 message of %s (%s; text %.50q)", n.msg.From, n.how, n.msg.Data)
		nilData := *n.msg
		nilData.Data = nil
		bc := nilData
		bc.Broadcast = true
		out = append(out,
			c07fNotice{n.msg, false, base + " as emitted"},
			c07fNotice{&nilData, false, base + " with Data nil"},
			c07fNotice{n.msg, true, base + " directed at the recipient"},
			c07fNotice{&nilData, true, base + " directed at the recipient, Data nil"},
			c07fNotice{&bc, false, base + " flagged broadcast, Data nil"})
	}
	return out, tag, emitted
}

// c07fVictim: the victim session in order; inj == nil: every notice to every party at every chosen point, else exactly inj.
func (c *ctx) c07fVictim(sp SessionSpec, seed int64, notices []c07fNotice, every, offset int, inj []c07fInj) (*Sim, []string, map[party.ID]string, []c07fOffer) {
	det := installDetReader(seed, 0)
	defer restoreRandReader()
	s := sp.build(rand.New(rand.NewSource(seed)), det)
	var labels []party.ID
	for l, n := range s.Nodes {
		if n.H != nil {
			labels = append(labels, l)
			if len(n.Obs) > 0 {
				anDrained(n, n.Obs[0])
			}
		}
	}
	sort.Slice(labels, func(i, j int) bool { return labels[i] < labels[j] })
	var offers []c07fOffer
	var order []string
	offer := func(point int, l party.ID, ni int) {
		n := s.Nodes[l]
		if n == nil || n.H == nil || ni < 0 || ni >= len(notices) {
			return
		}
		m := notices[ni].forRecipient(n.ID)
		before := anFP(n)
		can := s.CanAccept(l, m, true)
		e := &Env{Msg: m, To: l, Valid: true, Tag: "/foreign-notice"}
		order = append(order, envName(e))
		ob := s.Deliver(e)
		offers = append(offers, c07fOffer{inj: c07fInj{Point: point, To: string(l), Notice: ni, Desc: notices[ni].desc}, can: can,
			changed: !ob.Hung && anFP(n) != before, emitted: len(ob.NewOut), pan: ob.Panic, hung: ob.Hung})
	}
	delivered := 0
	for steps := 0; steps < 20000; steps++ {
		if inj != nil {
			for _, x := range inj {
				if x.Point == delivered {
					offer(delivered, party.ID(x.To), x.Notice)
				}
			}
		} else if delivered == 0 || (every > 0 && delivered%every == offset%every) || len(s.Flight) <= 1 {
			for _, l := range labels {
				for ni := range notices {
					offer(delivered, l, ni)
				}
			}
		}
		if len(s.Flight) == 0 {
			break
		}
		e := s.take(0)
		order = append(order, envName(e))
		ob := s.Deliver(e)
		anDrained(s.Nodes[e.To], ob)
		delivered++
	}
	res := map[party.ID]string{}
	for id, n := range s.Nodes {
		r, errText := resultOf(n)
		if errText != "" {
			cul := ""
			if n.MH != nil {
				cul = fmt.Sprintf(" culprits=%v", n.MH.VerifState().Culprits)
			}
			res[id] = "ERR:" + errText + cul
		} else {
			res[id] = resultFP(r)
		}
	}
	return s, order, res, offers
}

type c07fVerdict struct{ outcome, desc string }

// c07fJudge: the property oracle on one victim run.
func c07fJudge(res, ref map[party.ID]string, offers []c07fOffer) (out []c07fVerdict, first *c07fOffer) {
	var ids []string
	for id := range res {
		ids = append(ids, string(id))
	}
	sort.Strings(ids)
	for i := range offers {
		o := &offers[i]
		if o.can || o.changed || o.emitted > 0 || o.pan != "" || o.hung {
			if first == nil {
				first = o
			}
		}
	}
	seen := map[string]bool{}
	add := func(k, d string) {
		if !seen[k] {
			seen[k] = true
			out = append(out, c07fVerdict{k, d})
		}
	}
	for i := range offers {
		o := &offers[i]
		where := fmt.Sprintf("%s offered to %s after %d deliveries", o.inj.Desc, o.inj.To, o.inj.Point)
		if o.pan != "" || o.hung {
			add("panic", fmt.Sprintf("Accept of the abort notice of a cancelled sibling session panicked / did not return (%s): %q", where, o.pan))
		}
		if o.can {
			add("can-accept", "CanAccept is true for the abort notice of a cancelled sibling session (other session id): "+where)
		}
		if o.emitted > 0 {
			add("emitted", fmt.Sprintf("a party emitted %d message(s) on the abort notice of a cancelled sibling session: %s", o.emitted, where))
		}
	}
	for _, id := range ids {
		v := res[party.ID(id)]
		if strings.HasPrefix(v, "ERR:") {
			add("victim-aborted", fmt.Sprintf("party %s of the healthy session ended with an error after abort notices of a cancelled sibling session were offered: %.160s", id, v))
		}
	}
	for _, id := range ids {
		v := res[party.ID(id)]
		if !strings.HasPrefix(v, "ERR:") && ref != nil && ref[party.ID(id)] != v {
			add("result-differs", fmt.Sprintf("party %s completed with a result different from the in-order run", id))
		}
	}
	if len(out) == 0 {
		for i := range offers {
			if o := &offers[i]; o.changed {
				add("state-changed", fmt.Sprintf("the handler state changed on the abort notice of a cancelled sibling session (%s offered to %s after %d deliveries)", o.inj.Desc, o.inj.To, o.inj.Point))
				break
			}
		}
	}
	return out, first
}

// c07fSpec: one session spec; returns the in-order reference sim (nil for heavy specs: no byte-identical reference there).
func (c *ctx) c07fSpec(sp, sib SessionSpec, seed int64, heavy bool, only *c07fReplay) *Sim {
	fifo := func(*Sim) Policy { return func(*Sim) (int, bool) { return 0, false } }
	var refS *Sim
	var ref map[party.ID]string
	if !heavy {
		refS, _, ref = c.runSchedule(sp, seed, fifo)
		for id, v := range ref {
			if strings.HasPrefix(v, "ERR:") {
				c.res.Note("C07 foreign abort notices: in-order run of %s did not complete at %s (%.80s): spec skipped", sp.Name, id, v)
				return refS
			}
		}
	}
	if only != nil && (only.Spec != sp.Name || only.Seed != seed) {
		return refS
	}
	notices, sibTag, emitted := c.c07fHarvest(sib, heavy, seed)
	if len(notices) == 0 {
		c.res.Note("C07 foreign abort notices: the cancelled sibling of %s emitted no round-0 message", sp.Name)
		c.res.Case(sp.Name+"/"+c07fPolicy+"/no-notice", sp.Name, false)
		return refS
	}
	every, offset := 4, int((seed+c.res.Seed)%4)
	if heavy {
		every, offset = 8, int((seed+c.res.Seed)%8)
	}
	if c.thorough() {
		every, offset = 1, 0
	}
	var inj []c07fInj
	if only != nil {
		inj = only.Inject
		if only.Every > 0 {
			every, offset = only.Every, only.Offset
		}
	}
	rp := func(inj []c07fInj, res map[party.ID]string, detail string) c07fReplay {
		return c07fReplay{Spec: sp.Name, Seed: seed, Policy: c07fPolicy, SiblingSID: string(sib.SessionID), Every: every, Offset: offset, Inject: inj,
			Expected: resString(ref), Observed: resString(res), Detail: detail}
	}
	s, order, res, offers := c.c07fVictim(sp, seed, notices, every, offset, inj)
	// a sibling whose tag equals the victim's is the victim's own session as far as the handlers can tell: nothing to judge
	for _, n := range s.Nodes {
		if len(n.Out) > 0 && sibTag != nil && sameBytes(nonNil(n.Out[0].SSID), sibTag) {
			c.res.Note("C07 foreign abort notices: %s and its sibling under session id %q have the same session tag: not judged", sp.Name, sib.SessionID)
			return refS
		}
	}
	for _, o := range offers {
		c.res.Case(sp.Name+"/"+c07fPolicy+"/offered", fmt.Sprintf("%s/%d/%d/%s/%d", sp.Name, seed, o.inj.Point, o.inj.To, o.inj.Notice), true)
	}
	if len(offers) > 0 {
		c.res.Sample(2, map[string]interface{}{"spec": sp.Name, "policy": c07fPolicy, "sibling_session_id": string(sib.SessionID), "notices": len(notices),
			"offers": len(offers), "first": offers[0].inj})
	}
	c.res.Note("C07 foreign abort notices: %s seed %d: the cancelled sibling emitted %d round-0 messages, %d notices (with variants) offered %d times (every %d-th delivery from %d, first, last two points), %d steps",
		sp.Name, seed, emitted, len(notices), len(offers), every, offset, len(order))
	verdicts, first := c07fJudge(res, ref, offers)
	if len(verdicts) > 0 {
		// narrow to one injection: the first offer that was not a no-op, alone
		reported := false
		if inj == nil && first != nil {
			one := []c07fInj{first.inj}
			_, _, res1, offers1 := c.c07fVictim(sp, seed, notices, every, offset, one)
			v1, _ := c07fJudge(res1, ref, offers1)
			for _, v := range v1 {
				reported = true
				c.res.Violate("property", "C07/"+sp.Name+"/"+c07fPolicy+"/"+v.outcome, v.desc, rp(one, res1, "single injection; found in the run offering every notice to every party at every chosen point"))
			}
		}
		if !reported {
			for _, v := range verdicts {
				c.res.Violate("property", "C07/"+sp.Name+"/"+c07fPolicy+"/"+v.outcome, v.desc, rp(inj, res, ""))
			}
		}
	}
	// model replay of the victim run (handler model per node, system model for the session)
	for _, n := range s.Nodes {
		for _, o := range n.Obs {
			if o.Panic != "" || o.Hung {
				return refS // reported above; the models have no counterpart
			}
		}
	}
	var sh shapeInfo
	if refS != nil {
		sh = refS.learnShape()
	} else {
		sh = s.learnShape()
	}
	srp := schedReplay{Spec: sp.Name, Seed: seed, Policy: c07fPolicy, Order: order}
	var labels []string
	for l := range s.Nodes {
		labels = append(labels, string(l))
	}
	sort.Strings(labels)
	for _, l := range labels {
		n := s.Nodes[party.ID(l)]
		i, mo, ro, err := c.CompareWithModel(s, n, sh, true)
		if err != nil {
			c.res.Corr(false)
			c.res.Violate("correspondence", "C07/model-error", err.Error(), rp(inj, res, "handler model"))
			continue
		}
		c.res.Corr(i < 0)
		if i >= 0 {
			srp.Expected, srp.Observed, srp.Node, srp.Event = mo, ro, l, i
			c.res.Violate("correspondence", "C07/handler-model/"+sp.Name, "handler state differs from the Coq model after an event (abort notices of a cancelled sibling session offered)",
				rp(inj, res, fmt.Sprintf("node %s event %d: model %s, handler %s", l, i, mo, ro)))
		}
	}
	c.c07System(sp, seed, c07fPolicy, s, order, sh)
	return refS
}

// c07ForeignAbort: called from runC07.
func (c *ctx) c07ForeignAbort() {
	var only *c07fReplay
	if c.replay != "" {
		var rp c07fReplay
		if readJSON(c.replay, &rp) != nil || rp.Policy != c07fPolicy {
			return
		}
		only = &rp
		c.res.Note("replay: re-running %s seed %d with the recorded abort-notice injection(s)", rp.Spec, rp.Seed)
	}
	if os.Getenv("C07_TIMING") != "" {
		defer func(t0 time.Time) {
			fmt.Fprintf(os.Stderr, "C07 foreign abort notices: %.1fs\n", time.Since(t0).Seconds())
		}(time.Now())
	}
	c.res.Rule += "; abort notices of a cancelled sibling session (same protocol and participants, other session id; a party stopped / failed, all emitted round-0 messages, " +
		"also with Data nil / directed / flagged broadcast) offered (CanAccept, then Accept regardless) to every party of FROST keygen / sign and CMP keygen sessions before the first, " +
		"after every k-th, before and after the last in-order delivery: refused, state unchanged, in-order result; non-trivial = a notice was offered; distinct by point / recipient / notice"
	sibOf := func(sid string) []byte { return []byte(sid + "/cancelled-sibling") }
	for _, cfg := range []struct {
		n, t    int
		taproot bool
	}{{3, 1, false}, {2, 1, false}, {4, 2, true}, {3, 0, false}} {
		ids := idsOf("alice", "bob", "carl", "dave")[:cfg.n]
		seed := c.res.Seed*1000 + int64(cfg.n*10+cfg.t)
		refS := c.c07fSpec(specFrostKeygen(ids, cfg.t, cfg.taproot, []byte("kg")), specFrostKeygen(ids, cfg.t, cfg.taproot, sibOf("kg")), seed, false, only)
		if cfg.taproot || cfg.n < 3 || refS == nil {
			continue
		}
		cfgs := map[party.ID]*frost.Config{}
		ok := true
		for id, n := range refS.Nodes {
			r, _ := resultOf(n)
			if cf, isCfg := r.(*frost.Config); isCfg {
				cfgs[id] = cf
			} else {
				ok = false
			}
		}
		if !ok {
			continue
		}
		msg := []byte("message to sign")
		signers := []party.ID{ids[0], ids[cfg.n-1]}
		c.c07fSpec(specFrostSign(cfgs, signers, msg, []byte("sg")), specFrostSign(cfgs, signers, msg, sibOf("sg")), seed+1, false, only)
		c.c07fSpec(specFrostSign(cfgs, ids, msg, []byte("sg-all")), specFrostSign(cfgs, ids, msg, sibOf("sg-all")), seed+2, false, only)
	}
	// CMP key generation (worker pool: completion only), safe primes from the cache
	usePrimeCache()
	ids := idsOf("alice", "bob", "carl")
	c.c07fSpec(specCMPKeygen(ids, 1, []byte("kgc-foreign")), specCMPKeygen(ids, 1, sibOf("kgc-foreign")), c.res.Seed+8, true, only)
}
