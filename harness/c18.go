package main

// C18 -- the worker pool always returns and never loses workers.
// Correspondence: (1) results of Parallelize/Search on the real pool vs the model's prediction for the same (w, c, nil-tape);
// (2) the model's exhaustive exploration (pool.explore) must report no deadlocked / leaked / bad state for the modelled handshake;
// Search: stress -- many consecutive calls with instant tasks, a watchdog for lost workers / deadlock, worker-availability probe;
// default-sized pools (NewPool(0), NewPool(-1)) in re-executed children restricted to 1, 2, 4 CPUs (c18_default.go).

import (
	"fmt"
	"sync"
	"sync/atomic"
	"time"

	"github.com/taurusgroup/multi-party-sig/pkg/pool"

	"verifharness/sx"
)

func init() { props["C18"] = runC18 }

type c18Replay struct {
	Kind     string `json:"kind"`
	Workers  int    `json:"workers"`
	Count    int    `json:"count"`
	Calls    int    `json:"consecutive_calls"`
	FailedAt int    `json:"failed_at_call"`
	What     string `json:"what"`
}

// withWatchdog runs f; returns false if it does not finish in d.
func withWatchdog(d time.Duration, f func()) bool {
	done := make(chan struct{})
	go func() { f(); close(done) }()
	select {
	case <-done:
		return true
	case <-time.After(d):
		return false
	}
}

func runC18(c *ctx) {
	c.res.Rule = "stress: consecutive Parallelize/Search calls with instant tasks for w in {1,2,4,16}, c in {0,1,2,3,17} under a watchdog, then a worker-availability probe; " +
		"model: pool.run results for the same (w,c) and pool.explore over all interleavings for small (w,c); non-trivial = c>0"
	// schedule-level lockstep of the real goroutines with the model (c18_lockstep.go; uses the yield hooks in pkg/pool)
	if c.replay != "" {
		if c.c18DefaultReplay() {
			return
		}
		c.c18Lockstep()
		return
	}
	defer c.c18Lockstep()
	// default-sized pools in child processes that see 1, 2, 4 CPUs (c18_default.go)
	defer c.c18Default()
	calls := 20000
	if c.thorough() {
		calls = 60000
	}
	// model variant that corresponds to the code: V1 (repaired handshake). V0 is kept in the model as the regression witness.
	variant := int64(1)

	// (1) exhaustive model exploration: no deadlock / leak / bad return in the modelled handshake
	for _, wc := range [][3]int64{{0, 1, 1}, {0, 2, 2}, {0, 1, 2}, {0, 2, 1}, {1, 1, 1}, {1, 2, 1}, {1, 1, 2}} {
		rep, err := c.m.Call("pool.explore", sx.List(sx.Int(variant), sx.Int(wc[0]), sx.Int(wc[1]), sx.Int(wc[2]), sx.Int(2), sx.Int(1)))
		if err != nil {
			c.res.Violate("correspondence", "C18/model-error", err.Error(), nil)
			continue
		}
		ok := rep.L[0].AsBool() && rep.L[3].AsInt() == 0 && rep.L[4].AsInt() == 0 && rep.L[5].AsInt() == 0
		c.res.Corr(ok)
		c.res.Case(fmt.Sprintf("explore/kind=%d/w=%d/c=%d", wc[0], wc[1], wc[2]), fmt.Sprint(wc), true)
		if !ok {
			c.res.Violate("correspondence", fmt.Sprintf("C18/explore/kind=%d/w=%d/c=%d", wc[0], wc[1], wc[2]),
				"exhaustive exploration of the model finds deadlocked/leaked/bad states: "+rep.String(), nil)
		}
	}

	// (2) real pool under stress
	for _, w := range []int{1, 2, 4, 16} {
		for _, cnt := range []int{0, 1, 2, 3, 17} {
			for _, kind := range []string{"parallelize", "search"} {
				c.c18Stress(kind, w, cnt, calls/ (1 + cnt/4))
			}
		}
	}
	// nil pool gives the same results on the calling goroutine
	var np *pool.Pool
	r := np.Parallelize(5, func(i int) interface{} { return i * i })
	good := len(r) == 5
	for i := range r {
		good = good && r[i] == i*i
	}
	rs := np.Search(3, func() interface{} { return 7 })
	good = good && len(rs) == 3 && rs[0] == 7 && rs[2] == 7
	c.res.Case("nil-pool", "nil-pool", true)
	if !good {
		c.res.Violate("property", "C18/nil-pool", "nil pool results differ", c18Replay{Kind: "nil-pool"})
	}
}

func (c *ctx) c18Stress(kind string, w, cnt, calls int) {
	pl := pool.NewPool(w)
	key := fmt.Sprintf("C18/%s/w=%d/c=%d", kind, w, cnt)
	failedAt, what := -1, ""
	var nilSeen int64
	fin := withWatchdog(20*time.Second+time.Duration(calls)*time.Millisecond, func() {
		for k := 0; k < calls; k++ {
			ok := withWatchdog(10*time.Second, func() {
				if kind == "parallelize" {
					res := pl.Parallelize(cnt, func(i int) interface{} { return 1000*k + i })
					if len(res) != cnt {
						what = fmt.Sprintf("Parallelize returned %d results for %d tasks", len(res), cnt)
					}
					for i, x := range res {
						if x != 1000*k+i {
							what = fmt.Sprintf("Parallelize result[%d] = %v, want %d", i, x, 1000*k+i)
						}
					}
				} else {
					var ctr int64
					res := pl.Search(cnt, func() interface{} {
						// every third answer is nil ("keep searching")
						if atomic.AddInt64(&ctr, 1)%3 == 0 {
							return nil
						}
						return k
					})
					if len(res) != cnt {
						what = fmt.Sprintf("Search returned %d results, want %d", len(res), cnt)
					}
					for _, x := range res {
						if x == nil {
							atomic.AddInt64(&nilSeen, 1)
							what = "Search returned a nil result"
						} else if x != k {
							what = fmt.Sprintf("Search returned %v from another call (want %d)", x, k)
						}
					}
				}
			})
			if !ok {
				what = "call did not return within 10s (lost workers / deadlock)"
			}
			if what != "" {
				failedAt = k
				return
			}
		}
	})
	if !fin && what == "" {
		what, failedAt = "stress run did not finish (deadlock)", calls
	}
	// availability probe: every worker must take a task concurrently
	if what == "" && w <= 16 {
		var mu sync.Mutex
		started := 0
		gate := make(chan struct{})
		ok := withWatchdog(5*time.Second, func() {
			go func() {
				deadline := time.After(3 * time.Second)
				for {
					mu.Lock()
					s := started
					mu.Unlock()
					if s >= w {
						close(gate)
						return
					}
					select {
					case <-deadline:
						close(gate)
						return
					default:
						time.Sleep(time.Millisecond)
					}
				}
			}()
			pl.Parallelize(w, func(i int) interface{} {
				mu.Lock()
				started++
				mu.Unlock()
				<-gate
				return i
			})
		})
		mu.Lock()
		s := started
		mu.Unlock()
		if !ok || s < w {
			what, failedAt = fmt.Sprintf("after %d calls only %d of %d workers take a task", calls, s, w), calls
		}
	}
	c.res.Case("stress-"+kind, key, cnt > 0)
	c.res.Sample(2, map[string]interface{}{"kind": kind, "workers": w, "count": cnt, "calls": calls})
	if what != "" {
		c.res.Violate("property", key, what, c18Replay{Kind: kind, Workers: w, Count: cnt, Calls: calls, FailedAt: failedAt, What: what})
		return // a deadlocked pool cannot be torn down
	}
	withWatchdog(5*time.Second, func() { pl.TearDown() })
}
