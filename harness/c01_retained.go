package main

// C01 / C14, retained in-memory key material (see retained.go).  One scenario per protocol family, on ONE object per party:
//   derive child 0; derive child 1 from the SAME parent object; sign with the parent, child 0, child 1, the parent again;
//   refresh (the same objects go into Refresh); derive child 0 again from the refreshed objects; sign with it.
// Every signature is judged by the reference verifier under the INDEPENDENTLY computed key for the current
// (parent key, chain key, index): parent key and chain key are recorded (as bytes) when key generation / refresh ended,
// the child is ref.ckd_pub of those.  After every API call the input objects are compared with their serialisation taken
// before the call.  FROST / Doerner refresh changes the chain key, CMP carries it: the expected child after the refresh is
// computed from whatever chain key the refreshed material agrees on.
// Keys: C01/<protocol>/retained-objects/<step>/<class>; C14/<protocol>/derive-after-refresh/<step>/<class>.

import (
	"bytes"
	"fmt"
	"math/rand"
	"strings"

	"github.com/taurusgroup/multi-party-sig/pkg/party"
)

type retReplay struct {
	Scenario string       `json:"retained_scenario"` // "derive-sign-refresh"
	Prop     string       `json:"property"`
	Proto    string       `json:"protocol"`
	N        int          `json:"n"`
	T        int          `json:"t"`
	IDs      []string     `json:"ids"`
	Seed     int64        `json:"seed"`
	Signs    bool         `json:"with_signing_sessions"`
	Light    bool         `json:"without_second_parent_sessions"` // quick-tier CMP: no "parent again" / "refreshed parent" sessions
	Problems []retProblem `json:"problems,omitempty"`
}

// c01Retained runs the scenario; mat0 (optional) = material of a finished key generation (private objects are restored from it once)
func (c *ctx) c01Retained(rp retReplay, mat0 []interface{}) {
	var probs []retProblem
	add := func(step, class, text string) { probs = append(probs, retProblem{step, class, text}) }
	rng := rand.New(rand.NewSource(rp.Seed))
	ids := idsOf(rp.IDs...)
	var mat []interface{}
	var et string
	if mat0 == nil {
		mat, ids, et = retKeygen(rp.Proto, ids, rp.T, []byte(fmt.Sprintf("ret-%s-%d", rp.Proto, rp.Seed)), rp.Seed)
	} else {
		mat, et = retRestore(mat0)
		ids = party.NewIDSlice(ids)
		if rp.Proto == "doerner" {
			ids = idsOf("recv", "send")
		}
	}
	finish := func() {
		cls := fmt.Sprintf("%s/retained-objects/n=%d/t=%d", rp.Proto, rp.N, rp.T)
		if rp.Prop == "C14" {
			cls = fmt.Sprintf("%s/derive-after-refresh/n=%d/t=%d", rp.Proto, rp.N, rp.T)
		}
		c.res.Case(cls, fmt.Sprintf("retained/%s/%s/%d/%d/%v/%d", rp.Prop, rp.Proto, rp.N, rp.T, rp.IDs, rp.Seed), true)
		c.res.Corr(len(probs) == 0)
		seen := map[string]bool{}
		for _, p := range probs {
			fam := "retained-objects"
			if rp.Prop == "C14" {
				fam = "derive-after-refresh"
			}
			key := fmt.Sprintf("%s/%s/%s/%s/%s", rp.Prop, rp.Proto, fam, p.Step, p.Class)
			if seen[key] {
				continue
			}
			seen[key] = true
			r := rp
			r.Problems = probs
			c.res.Violate("property", key, fmt.Sprintf("%s n=%d t=%d, one in-memory object per party reused across calls: %s", rp.Proto, rp.N, rp.T, p.Text), r)
		}
	}
	defer finish()
	if et != "" {
		add("keygen", "incomplete", "key generation for the scenario did not complete: "+et)
		return
	}
	dl := rp.Proto == "doerner"
	// the parent key as recorded when key generation ended (bytes)
	pub, xonly, chain, err := retKeyOf(mat[0])
	if err != nil {
		add("keygen", "incomplete", err.Error())
		return
	}
	parent := retRefKey{Pub: append([]byte{}, pub...), Chain: append([]byte{}, chain...), XOnly: xonly}
	k := 0
	subs := allSubsetsLargerThan(ids, rp.T)
	pickS := func() []party.ID {
		if dl {
			return ids
		}
		k++
		return subs[(int(rp.Seed%7)+k*5)%len(subs)]
	}
	// sign runs one signing session on the given retained objects and judges it under `key`
	sign := func(step string, objs []interface{}, key retRefKey) {
		if !rp.Signs {
			return
		}
		g, err := retSnap(retNames("config", objs), objs)
		if err != nil {
			add(step, "not-serialisable", err.Error())
			return
		}
		S := pickS()
		msg := msgOfLen(rng, []int{32, 20, 64}[rng.Intn(3)])
		s := retSignSim(objs, S, msg, []byte(fmt.Sprintf("ret-%s-%d", step, rp.Seed)), rng.Int63())
		if ch := g.changed(); len(ch) > 0 {
			add(step+"-start", "input-mutated", "starting a signing session changed the caller's object: "+retJoin(ch))
		}
		retRun(s)
		if ps := retSessionProblems(c, s, key, msg, dl); len(ps) > 0 {
			add(step, strings.Replace(c01ProblemClass(ps[0]), "under-keygen-key", "under-bip32-key", 1), fmt.Sprintf("signers %v, signature judged under the BIP-32 key for the current (parent key, chain key, index): %s", S, retJoin(ps)))
		}
		if ch := g.changed(); len(ch) > 0 {
			add(step, "input-mutated", "a signing session changed the caller's object: "+retJoin(ch))
		}
	}
	// derive calls the derivation API at index i on every retained object; `watch` = objects that must stay as they are
	derive := func(step string, objs []interface{}, i uint32, par retRefKey, watch []interface{}, wnames []string) ([]interface{}, retRefKey, bool) {
		g, err := retSnap(append(retNames("parent config", objs), wnames...), append(append([]interface{}{}, objs...), watch...))
		if err != nil {
			add(step, "not-serialisable", err.Error())
			return nil, retRefKey{}, false
		}
		want, ok, err := c.retChildKey(par, i)
		if err != nil {
			add(step, "reference", err.Error())
			return nil, retRefKey{}, false
		}
		ch, et := retDeriveAll(objs, i)
		if bad := g.changed(); len(bad) > 0 {
			add(step, "input-mutated", fmt.Sprintf("derivation at index %d changed an object the caller holds: %s", i, retJoin(bad)))
		}
		if !ok {
			if et == "" {
				add(step, "invalid-index-accepted", fmt.Sprintf("index %d is invalid per BIP-32 but derivation succeeded", i))
			}
			return nil, retRefKey{}, false
		}
		if et != "" {
			add(step, "derive-failed", fmt.Sprintf("derivation at index %d failed: %s", i, et))
			return nil, retRefKey{}, false
		}
		if ps := retKeyProblems(ch, want); len(ps) > 0 {
			add(step, "child-key-differs", fmt.Sprintf("index %d: %s", i, retJoin(ps)))
		}
		return ch, want, true
	}
	i0, i1 := uint32(0), uint32(1)
	if rp.Seed%3 == 0 {
		i0, i1 = uint32(rng.Int31()), uint32(rng.Int31())
	}
	ch0, key0, ok0 := derive("derive-child-a", mat, i0, parent, nil, nil)
	var ch1 []interface{}
	var key1 retRefKey
	ok1 := false
	if ok0 {
		ch1, key1, ok1 = derive("derive-child-b", mat, i1, parent, ch0, retNames("child a config", ch0))
	}
	if rp.Prop == "C01" {
		sign("sign-parent", mat, parent)
		if ok0 {
			sign("sign-child-a", ch0, key0)
		}
		if ok1 {
			sign("sign-child-b", ch1, key1)
		}
		if !rp.Light {
			sign("sign-parent-again", mat, parent)
		}
		// the objects the application holds must still report what they reported when they were made
		if ps := retKeyProblems(mat, parent); len(ps) > 0 {
			add("after-signing", "parent-key-differs", retJoin(ps))
		}
		if ok0 {
			if ps := retKeyProblems(ch0, key0); len(ps) > 0 {
				add("after-signing", "child-key-differs", retJoin(ps))
			}
		}
	}
	// ---- refresh with the same objects ----
	g, err := retSnap(retNames("config", mat), mat)
	if err != nil {
		add("refresh", "not-serialisable", err.Error())
		return
	}
	rs := retRefreshSim(mat, []byte(fmt.Sprintf("ret-refresh-%d", rp.Seed)), rng.Int63())
	if bad := g.changed(); len(bad) > 0 {
		add("refresh-start", "input-mutated", "starting a refresh session changed the caller's object: "+retJoin(bad))
	}
	retRun(rs)
	next, et := retMaterialOf(rs, ids)
	if et != "" {
		add("refresh", "session-incomplete", "all-honest refresh on the retained objects did not complete: "+et)
		return
	}
	if bad := g.changed(); len(bad) > 0 {
		// the retained pre-refresh object is C08's subject (C08/<protocol>/retained-config/...): counted here, judged there
		c.res.Case(rp.Proto+"/retained-objects/refresh-changed-its-input-object", fmt.Sprintf("refresh-input/%s/%d", rp.Proto, rp.Seed), true)
	}
	pub2, _, chain2, err := retKeyOf(next[0])
	if err != nil {
		add("refresh", "session-incomplete", err.Error())
		return
	}
	if !bytes.Equal(pub2, parent.Pub) {
		add("refresh", "group-key-changed", fmt.Sprintf("refreshed material reports key %x, key generation recorded %x", pub2, parent.Pub))
	}
	parent2 := retRefKey{Pub: parent.Pub, Chain: append([]byte{}, chain2...), XOnly: xonly}
	if ps := retKeyProblems(next, parent2); len(ps) > 0 {
		add("refresh", "parent-key-differs", retJoin(ps))
	}
	c.res.Case(fmt.Sprintf("%s/refresh-chain-key-changed=%v", rp.Proto, !bytes.Equal(chain2, parent.Chain)), fmt.Sprintf("ck/%s/%d", rp.Proto, rp.Seed), true)
	ch0b, key0b, ok := derive("derive-child-a-after-refresh", next, i0, parent2, nil, nil)
	if ok {
		sign("sign-child-a-after-refresh", ch0b, key0b)
		if rp.Prop == "C14" {
			// and a grandchild: the child chain code goes into the next level
			if gc, keyg, ok := derive("derive-grandchild-after-refresh", ch0b, i1, key0b, nil, nil); ok && rp.Proto != "cmp" {
				sign("sign-grandchild-after-refresh", gc, keyg)
			}
		}
	}
	if rp.Prop == "C01" && !rp.Light {
		sign("sign-refreshed-parent", next, parent2)
	}
}

// c01RetainedAll: the scenarios of a run (prop = "C01" or "C14"); cmpMat: material of the CMP key generation the run already made
func (c *ctx) c01RetainedAll(prop string, cmpMat []interface{}, cmpIDs []party.ID) {
	seed := c.res.Seed*7919 + 11
	shapes := []struct {
		proto string
		n, t  int
		set   string
	}{{"frost", 3, 1, "names"}, {"frost-taproot", 3, 1, "short"}, {"frost", 2, 1, "nonascii"}, {"frost-taproot", 4, 2, "long40"}, {"doerner", 2, 1, "names"}}
	if c.thorough() {
		shapes = append(shapes, []struct {
			proto string
			n, t  int
			set   string
		}{{"frost", 4, 1, "prefix"}, {"frost-taproot", 2, 0, "names"}, {"frost", 5, 2, "names"}, {"doerner", 2, 1, "short"}}...)
	}
	for i, sh := range shapes {
		c.c01Retained(retReplay{Scenario: "derive-sign-refresh", Prop: prop, Proto: sh.proto, N: sh.n, T: sh.t, IDs: idSets[sh.set][:sh.n], Seed: seed + int64(i), Signs: true}, nil)
	}
	if cmpMat != nil {
		var ids []string
		for _, id := range cmpIDs {
			ids = append(ids, string(id))
		}
		// CMP: signing sessions are the expensive part; C14 only signs with the child derived after the refresh
		c.c01Retained(retReplay{Scenario: "derive-sign-refresh", Prop: prop, Proto: "cmp", N: len(ids), T: 1, IDs: ids, Seed: seed + 100, Signs: true, Light: !c.thorough()}, cmpMat)
	}
}

func (c *ctx) retReplayRun(prop string) bool {
	var rp retReplay
	if err := readJSON(c.replay, &rp); err != nil || rp.Scenario != "derive-sign-refresh" {
		return false
	}
	rp.Problems = nil
	rp.Prop = prop
	c.c01Retained(rp, nil)
	c.res.Sample(3, map[string]interface{}{"replayed": rp})
	return true
}
