package main

// C19 -- (1) hash.New(initial...) with unwritable items at every position; (2) protocol.Message.Hash() of two messages
// that differ in exactly one field; (3) IDSlice pairs whose identifiers embed 8-byte big-endian length prefixes.
//
// (1) Contract of the code on the unchanged tree (pinned here): New(i1..in) writes every item with ITS OWN WriteAny call
// and ignores the error, so an unwritable item (empty party.ID, nil IDSlice, BytesWithDomain with nil Bytes, nil *Public,
// nil *paillier.PublicKey, a nil interface ...) is SKIPPED and every later item is still absorbed:
//     New(items...).Sum() == BLAKE3(model stream of the subsequence of writable items).
// New cannot report an error, so "the digest of the prefix up to the first unwritable item" would only be sound together
// with an error; without one the only contract under which later items still count is the item-wise one.  Consequence
// checked as a property: two initial sequences which differ in (or by the presence of) a writable item AFTER an unwritable one
// have different digests.
// (2) Message.Hash() is New(SSID, From, To, Protocol, RoundNumber, Content, Broadcast, BroadcastVerification): a broadcast
// has To == "" (unwritable), so everything the echo broadcast compares (Data above all) comes after an unwritable item.

import (
	"bytes"
	"encoding/hex"
	"fmt"
	"math/rand"
	"strings"

	"github.com/taurusgroup/multi-party-sig/pkg/hash"
	"github.com/taurusgroup/multi-party-sig/pkg/paillier"
	"github.com/taurusgroup/multi-party-sig/pkg/party"
	"github.com/taurusgroup/multi-party-sig/pkg/pedersen"
	"github.com/taurusgroup/multi-party-sig/pkg/protocol"
	"github.com/taurusgroup/multi-party-sig/pkg/verifhook"
	cmpconfig "github.com/taurusgroup/multi-party-sig/protocols/cmp/config"

	"verifharness/sx"
)

// ---- (1) hash.New(initial...) ----

// An initial item is a model value description (kinds of c19.go that are hash.WriterToWithDomain), or a typed nil that
// the model has no value for: (-1 "<name>").  The typed nils used are those for which WriteAny returns an error on the
// unchanged tree; nil *Exponent / *Commitment / points / scalars / *BytesWithDomain panic inside WriteTo instead (see NOTES).
var c19nNilNames = []string{"nil-interface", "nil-*config.Public", "nil-*config.Config", "nil-*paillier.Ciphertext", "nil-*paillier.PublicKey", "nil-*pedersen.Parameters"}

func c19nNil(name string) sx.V { return sx.List(sx.Int(-1), sx.Str(name)) }

func c19nIsNil(v sx.V) bool { return v.L[0].AsInt() == -1 }

func c19nGo(v sx.V) (w hash.WriterToWithDomain, ok bool) {
	if c19nIsNil(v) {
		switch string(v.L[1].B) {
		case "nil-interface":
			return nil, true
		case "nil-*config.Public":
			return (*cmpconfig.Public)(nil), true
		case "nil-*config.Config":
			return (*cmpconfig.Config)(nil), true
		case "nil-*paillier.Ciphertext":
			return (*paillier.Ciphertext)(nil), true
		case "nil-*paillier.PublicKey":
			return (*paillier.PublicKey)(nil), true
		case "nil-*pedersen.Parameters":
			return (*pedersen.Parameters)(nil), true
		}
		return nil, false
	}
	w, ok = goValue(v).(hash.WriterToWithDomain)
	return
}

// c19nNewDigest: hash.New(items...).Sum(); pan != "" when New panicked
func c19nNewDigest(items []sx.V) (d []byte, pan string) {
	defer func() {
		if p := recover(); p != nil {
			d, pan = nil, fmt.Sprint(p)
		}
	}()
	ws := make([]hash.WriterToWithDomain, len(items))
	for i, v := range items {
		w, ok := c19nGo(v)
		if !ok {
			return nil, "not a WriterToWithDomain: " + v.String()
		}
		ws[i] = w
	}
	return hash.New(ws...).Sum(), ""
}

// c19nItemwise: New() followed by one WriteAny per item, errors ignored (the unchanged code's behaviour, in Go)
func c19nItemwise(items []sx.V) (d []byte, pan string) {
	defer func() {
		if p := recover(); p != nil {
			d, pan = nil, fmt.Sprint(p)
		}
	}()
	h := hash.New()
	for _, v := range items {
		w, _ := c19nGo(v)
		_ = h.WriteAny(w)
	}
	return h.Sum(), ""
}

// c19nWritable: the subsequence of items the MODEL can write (typed nils: none)
func (c *ctx) c19nWritable(items []sx.V) (out []sx.V, mask []bool, err error) {
	var vals []sx.V
	var idx []int
	mask = make([]bool, len(items))
	for i, v := range items {
		if !c19nIsNil(v) {
			vals, idx = append(vals, v), append(idx, i)
		}
	}
	if len(vals) == 0 {
		return nil, mask, nil
	}
	rep, err := c.m.Call("c19.items", sx.List(vals...))
	if err != nil || len(rep.L) != len(vals) {
		return nil, nil, fmt.Errorf("c19.items: %v", err)
	}
	for j := range vals {
		if len(rep.L[j].L) == 3 {
			out = append(out, vals[j])
			mask[idx[j]] = true
		}
	}
	return out, mask, nil
}

// c19nGenWriter: a random value of a kind that is a hash.WriterToWithDomain
func c19nGenWriter(r *rand.Rand, writable bool) sx.V {
	for {
		v := genHval(r, r.Intn(nKinds))
		if v.L[0].AsInt() >= 23 && r.Intn(4) != 0 {
			continue // the 2048-bit material kinds: fewer (size)
		}
		if _, ok := goValue(v).(hash.WriterToWithDomain); !ok {
			continue
		}
		if writable {
			if _, gok := goDigestSafe([]sx.V{v}); !gok {
				continue
			}
		}
		return v
	}
}

// c19nUnwritables: model-described unwritable items plus the typed nils
func c19nUnwritables() []sx.V {
	out := []sx.V{
		sx.List(sx.Int(7), sx.Bytes([]byte{})),                         // empty party.ID (the To of a broadcast)
		sx.List(sx.Int(8), sx.List()),                                   // nil IDSlice
		sx.List(sx.Int(9), sx.List()),                                   // nil RID
		sx.List(sx.Int(10), sx.List()),                                  // nil Commitment
		sx.List(sx.Int(11), sx.List()),                                  // nil Decommitment
		sx.List(sx.Int(14), sx.List()),                                  // nil signing message
		sx.List(sx.Int(15), sx.Str("Content"), sx.List()),               // BytesWithDomain with nil Bytes (a message without Data)
		sx.List(sx.Int(15), sx.Str("BroadcastVerification"), sx.List()), // idem
		sx.List(sx.Int(22), sx.List()),                                  // nil frost messageHash
		sx.List(sx.Int(23), sx.List()),                                  // nil *config.Public (model value)
	}
	for _, n := range c19nNilNames {
		out = append(out, c19nNil(n))
	}
	return out
}

type c19nReplay struct {
	What  string `json:"what"`
	Shape string `json:"shape,omitempty"`
	New   string `json:"new_initial_a,omitempty"`
	NewB  string `json:"new_initial_b,omitempty"`
	GoA   string `json:"go_digest_a,omitempty"`
	GoB   string `json:"go_digest_b,omitempty"`
	Want  string `json:"model_digest_a,omitempty"`
	MsgA  *c19nMsg `json:"message_a,omitempty"`
	MsgB  *c19nMsg `json:"message_b,omitempty"`
	Field string `json:"field,omitempty"`
	Hints map[string][2]int `json:"announced_lengths,omitempty"`
}

// c19nCheckNew: contract of hash.New on one initial sequence, and the collision search behind unwritable items
func (c *ctx) c19nCheckNew(r *rand.Rand, items []sx.V, class string) {
	d, pan := c19nNewDigest(items)
	wr, mask, err := c.c19nWritable(items)
	if err != nil {
		c.res.Violate("correspondence", "C19/model-error", err.Error(), c19nReplay{What: "model error", New: seqString(items)})
		return
	}
	ms, mok, err := c.modelStream(wr)
	if err != nil || !mok {
		c.res.Violate("correspondence", "C19/model-error", fmt.Sprint("writable subsequence not writable as a whole: ", err), c19nReplay{What: "model error", New: seqString(items)})
		return
	}
	want := blake64(ms)
	nUn := 0
	for _, w := range mask {
		if !w {
			nUn++
		}
	}
	c.res.Case(class, "new|"+seqString(items), len(items) > 0)
	agree := pan == "" && bytes.Equal(d, want)
	c.res.Corr(agree)
	if !agree {
		c.res.Violate("correspondence", "C19/new-initial/contract",
			fmt.Sprintf("hash.New(initial...) is not the digest of the writable items written one by one (%d of %d items unwritable; panic=%q)", nUn, len(items), pan),
			c19nReplay{What: "hash.New contract", New: seqString(items), GoA: hex.EncodeToString(d), Want: hex.EncodeToString(want), Hints: hintsFor(items)})
	}
	d2, pan2 := c19nItemwise(items)
	ok2 := pan == pan2 && bytes.Equal(d, d2)
	c.res.Corr(ok2)
	if !ok2 {
		c.res.Violate("correspondence", "C19/new-initial/not-itemwise", "hash.New(initial...) differs from New() followed by one WriteAny per item",
			c19nReplay{What: "hash.New itemwise", New: seqString(items), GoA: hex.EncodeToString(d), GoB: hex.EncodeToString(d2), Hints: hintsFor(items)})
	}
	if pan != "" {
		return
	}
	// property: a writable item behind an unwritable one still counts
	seenUn := false
	for i := range items {
		if !mask[i] {
			seenUn = true
			continue
		}
		if !seenUn {
			continue
		}
		var alts [][]sx.V
		var shapes []string
		if p := perturbValue(items[i]); p != nil {
			if _, gok := goDigestSafe([]sx.V{*p}); gok {
				a := append([]sx.V{}, items...)
				a[i] = *p
				alts, shapes = append(alts, a), append(shapes, "perturb-after-unwritable")
			}
		}
		a := append(append([]sx.V{}, items[:i]...), items[i+1:]...)
		alts, shapes = append(alts, a), append(shapes, "drop-after-unwritable")
		for k, alt := range alts {
			da, pa := c19nNewDigest(alt)
			c.res.Case("new-related-"+shapes[k], "new|"+seqString(items)+"|"+seqString(alt), true)
			if pa == "" && bytes.Equal(d, da) {
				c.res.Violate("property", "C19/new-initial/collision/"+shapes[k],
					"two initial sequences of hash.New which differ in a writable item placed after an unwritable one give the same digest",
					c19nReplay{What: "hash.New collision", Shape: shapes[k], New: seqString(items), NewB: seqString(alt), GoA: hex.EncodeToString(d), GoB: hex.EncodeToString(da), Hints: hintsFor(items, alt)})
			}
		}
	}
}

func (c *ctx) c19nNewAll(r *rand.Rand) {
	un := c19nUnwritables()
	// every unwritable item at every position of sequences of 1..4 writable items
	nBase := 12
	if c.thorough() {
		nBase = 150
	}
	for b := 0; b < nBase; b++ {
		n := 1 + r.Intn(4)
		base := make([]sx.V, n)
		for i := range base {
			base[i] = c19nGenWriter(r, true)
		}
		if b == 0 {
			c.c19nCheckNew(r, base, "new-all-writable")
		}
		for pos := 0; pos <= n; pos++ {
			u := un[(b+pos)%len(un)]
			if b < len(un) {
				u = un[b] // each unwritable item at every position at least once
			}
			s := append(append(append([]sx.V{}, base[:pos]...), u), base[pos:]...)
			c.c19nCheckNew(r, s, fmt.Sprintf("new-unwritable-at-%d", pos))
		}
	}
	for b := len(un) - nBase; b > 0; b-- {
		// (quick tier: the unwritable items not reached above, in front of and between two writable items)
		u := un[len(un)-b]
		x, y := c19nGenWriter(r, true), c19nGenWriter(r, true)
		c.c19nCheckNew(r, []sx.V{u, x, y}, "new-unwritable-at-0")
		c.c19nCheckNew(r, []sx.V{x, u, y}, "new-unwritable-at-1")
		c.c19nCheckNew(r, []sx.V{x, y, u}, "new-unwritable-at-2")
	}
	// random mixtures (several unwritable items, also adjacent and only unwritable ones)
	nMix := 40
	if c.thorough() {
		nMix = 1500
	}
	for i := 0; i < nMix; i++ {
		n := r.Intn(7)
		s := make([]sx.V, n)
		for j := range s {
			if r.Intn(3) == 0 {
				s[j] = un[r.Intn(len(un))]
			} else {
				s[j] = c19nGenWriter(r, false)
			}
		}
		c.c19nCheckNew(r, s, fmt.Sprintf("new-mixed-len-%d", n))
	}
	c.c19nCheckNew(r, nil, "new-empty")
}

// ---- (2) protocol.Message.Hash ----

type c19nMsg struct {
	SSID     *string `json:"ssid_hex"` // nil = nil slice
	From     string  `json:"from_hex"`
	To       string  `json:"to_hex"`
	Protocol string  `json:"protocol"`
	Round    uint16  `json:"round"`
	Data     *string `json:"data_hex"`
	Bcast    bool    `json:"broadcast"`
	BV       *string `json:"broadcast_verification_hex"`
}

func hexOpt(b []byte) *string {
	if b == nil {
		return nil
	}
	s := hex.EncodeToString(b)
	return &s
}

func unhexOpt(s *string) []byte {
	if s == nil {
		return nil
	}
	b, _ := hex.DecodeString(*s)
	if b == nil {
		b = []byte{}
	}
	return b
}

func c19nMsgOf(m *protocol.Message) *c19nMsg {
	return &c19nMsg{SSID: hexOpt(m.SSID), From: hex.EncodeToString([]byte(m.From)), To: hex.EncodeToString([]byte(m.To)), Protocol: m.Protocol,
		Round: uint16(m.RoundNumber), Data: hexOpt(m.Data), Bcast: m.Broadcast, BV: hexOpt(m.BroadcastVerification)}
}

func (d *c19nMsg) msg() *protocol.Message {
	f, _ := hex.DecodeString(d.From)
	t, _ := hex.DecodeString(d.To)
	return &protocol.Message{SSID: unhexOpt(d.SSID), From: party.ID(f), To: party.ID(t), Protocol: d.Protocol, RoundNumber: verifhook.RoundNumber(d.Round),
		Data: unhexOpt(d.Data), Broadcast: d.Bcast, BroadcastVerification: unhexOpt(d.BV)}
}

// c19nMsgItems: the eight initial items of Message.Hash as model values
func c19nMsgItems(m *protocol.Message) []sx.V {
	bwd := func(dom string, b []byte) sx.V { return sx.List(sx.Int(15), sx.Str(dom), sx.OptBytes(b)) }
	bc := byte(0)
	if m.Broadcast {
		bc = 1
	}
	return []sx.V{
		bwd("SSID", m.SSID),
		sx.List(sx.Int(7), sx.Bytes([]byte(m.From))),
		sx.List(sx.Int(7), sx.Bytes([]byte(m.To))),
		bwd("Protocol", []byte(m.Protocol)),
		sx.List(sx.Int(13), sx.Int(int64(m.RoundNumber))),
		bwd("Content", m.Data),
		bwd("Broadcast", []byte{bc}),
		bwd("BroadcastVerification", m.BroadcastVerification),
	}
}

func c19nMsgHash(m *protocol.Message) (d []byte, pan string) {
	defer func() {
		if p := recover(); p != nil {
			d, pan = nil, fmt.Sprint(p)
		}
	}()
	return m.Hash(), ""
}

type c19nVariant struct {
	field string
	m     protocol.Message
}



// c19nMsgVariants: messages differing from m in exactly one field (as a value: nil vs empty is not a difference)
func c19nMsgVariants(r *rand.Rand, m protocol.Message) (out []c19nVariant) {
	add := func(f string, q protocol.Message) { out = append(out, c19nVariant{f, q}) }
	bytesVars := func(b []byte) [][]byte {
		vs := [][]byte{append(append([]byte{}, b...), 0), append(append([]byte{}, b...), byte(1+r.Intn(255))), append([]byte{byte(r.Intn(256))}, b...)}
		if len(b) > 0 {
			x := append([]byte{}, b...)
			x[r.Intn(len(x))] ^= byte(1 << uint(r.Intn(8)))
			y := append([]byte{}, b...)
			y[len(y)-1] ^= 1
			vs = append(vs, x, y, b[:len(b)-1], b[1:], nil, randBytes(r, len(b)))
		} else {
			vs = append(vs, randBytes(r, 32), randBytes(r, 64))
		}
		var keep [][]byte
		for _, v := range vs {
			if !bytes.Equal(v, b) {
				keep = append(keep, v)
			}
		}
		return keep
	}
	for _, v := range bytesVars(m.Data) {
		q := m
		q.Data = v
		add("Data", q)
	}
	for _, v := range bytesVars(m.SSID) {
		q := m
		q.SSID = v
		add("SSID", q)
	}
	for _, v := range bytesVars(m.BroadcastVerification) {
		q := m
		q.BroadcastVerification = v
		add("BroadcastVerification", q)
	}
	for _, d := range []uint16{1, 255, 256, 0x8000, uint16(1 + r.Intn(65535))} {
		q := m
		q.RoundNumber = m.RoundNumber + verifhook.RoundNumber(d)
		add("RoundNumber", q)
	}
	for _, p := range []string{m.Protocol + "2", m.Protocol + "\x00", "x" + m.Protocol, strings.ToUpper(m.Protocol) + "!", "frost/sign"} {
		if p != m.Protocol {
			q := m
			q.Protocol = p
			add("Protocol", q)
		}
	}
	if len(m.Protocol) > 0 {
		q := m
		q.Protocol = m.Protocol[:len(m.Protocol)-1]
		if q.Protocol != "" {
			add("Protocol", q)
		}
	}
	q := m
	q.Broadcast = !m.Broadcast
	add("Broadcast", q)
	for _, id := range []party.ID{m.From + "x", "z" + m.From, party.ID(randBytes(r, 1+r.Intn(6))), m.From + party.ID([]byte{0})} {
		if id != m.From && id != "" {
			q := m
			q.From = id
			add("From", q)
		}
	}
	tos := []party.ID{m.To + "x", "z" + m.To, party.ID(randBytes(r, 1+r.Intn(6))), "", m.From}
	if m.To != "" {
		tos = append(tos, m.To+party.ID([]byte{0}), m.To[:len(m.To)-1])
	}
	for _, id := range tos {
		if id != m.To {
			q := m
			q.To = id
			add("To", q)
		}
	}
	return
}

func c19nGenMsg(r *rand.Rand, flavour int) protocol.Message {
	ids := []party.ID{"a", "b", "ab", "alice", "bob", party.ID([]byte{0, 0, 0, 0, 0, 0, 0, 1, 'a'}), party.ID(randBytes(r, 1+r.Intn(8)))}
	m := protocol.Message{
		SSID:        randBytes(r, 64),
		From:        ids[r.Intn(len(ids))],
		Protocol:    []string{"cmp/sign", "cmp/keygen-threshold", "frost/keygen", "p"}[r.Intn(4)],
		RoundNumber: verifhook.RoundNumber(1 + r.Intn(8)),
		Data:        randBytes(r, []int{1, 2, 33, 200}[r.Intn(4)]),
	}
	switch r.Intn(6) {
	case 0:
		m.SSID = nil
	case 1:
		m.SSID = advBytes(r)
	}
	switch r.Intn(6) {
	case 0:
		m.Data = nil
	case 1:
		m.Data = advBytes(r)
	}
	if r.Intn(2) == 0 {
		m.BroadcastVerification = randBytes(r, 64)
	} else if r.Intn(4) == 0 {
		m.BroadcastVerification = advBytes(r)
	}
	to := ids[r.Intn(len(ids))]
	switch flavour {
	case 0: // p2p
		m.To = to
	case 1: // broadcast
		m.Broadcast = true
	case 2: // directed copy of a broadcast
		m.To, m.Broadcast = to, true
	case 3: // to all, not reliably broadcast
	}
	return m
}

var c19nFlavours = []string{"p2p", "broadcast", "directed-broadcast", "to-all"}

// c19nCheckMsg: Message.Hash against the model (New-contract on the eight items) and one-field variants
func (c *ctx) c19nCheckMsg(r *rand.Rand, m protocol.Message, flavour string) {
	d, pan := c19nMsgHash(&m)
	items := c19nMsgItems(&m)
	wr, _, err := c.c19nWritable(items)
	var want []byte
	if err == nil {
		ms, _, e2 := c.modelStream(wr)
		err = e2
		want = blake64(ms)
	}
	if err != nil {
		c.res.Violate("correspondence", "C19/model-error", err.Error(), c19nReplay{What: "model error", MsgA: c19nMsgOf(&m)})
		return
	}
	c.res.Case("message-hash/"+flavour, canon(c19nMsgOf(&m)), true)
	agree := pan == "" && bytes.Equal(d, want)
	c.res.Corr(agree)
	if !agree {
		c.res.Violate("correspondence", "C19/message-hash/stream-mismatch/"+flavour,
			fmt.Sprintf("Message.Hash() is not BLAKE3 of the model stream of its writable fields in order (panic=%q)", pan),
			c19nReplay{What: "message hash", MsgA: c19nMsgOf(&m), GoA: hex.EncodeToString(d), Want: hex.EncodeToString(want)})
	}
	if pan != "" {
		return
	}
	for _, v := range c19nMsgVariants(r, m) {
		q := v.m
		dq, pq := c19nMsgHash(&q)
		c.res.Case("message-hash-variant/"+flavour+"/"+v.field, canon(c19nMsgOf(&m))+"|"+canon(c19nMsgOf(&q)), true)
		if pq == "" && bytes.Equal(d, dq) {
			c.res.Violate("property", "C19/message-hash/"+v.field+"/collision",
				fmt.Sprintf("two %s messages which differ exactly in %s have the same Message.Hash()", flavour, v.field),
				c19nReplay{What: "message hash collision", Field: v.field, Shape: flavour, MsgA: c19nMsgOf(&m), MsgB: c19nMsgOf(&q), GoA: hex.EncodeToString(d), GoB: hex.EncodeToString(dq)})
		}
	}
	// bytes moving between From and To (both written under the domain "ID")
	if len(m.From) >= 2 && m.To != "" {
		q := m
		q.From, q.To = m.From[:len(m.From)-1], party.ID(m.From[len(m.From)-1:])+m.To
		dq, pq := c19nMsgHash(&q)
		c.res.Case("message-hash-variant/"+flavour+"/From-To-shift", canon(c19nMsgOf(&m))+"|"+canon(c19nMsgOf(&q)), true)
		if pq == "" && bytes.Equal(d, dq) {
			c.res.Violate("property", "C19/message-hash/From-To-shift/collision", "a byte moved from From to To: same Message.Hash()",
				c19nReplay{What: "message hash collision", Field: "From-To-shift", Shape: flavour, MsgA: c19nMsgOf(&m), MsgB: c19nMsgOf(&q), GoA: hex.EncodeToString(d), GoB: hex.EncodeToString(dq)})
		}
	}
}

func (c *ctx) c19nMessagesAll(r *rand.Rand) {
	n := 10
	if c.thorough() {
		n = 400
	}
	for f, name := range c19nFlavours {
		for i := 0; i < n; i++ {
			c.c19nCheckMsg(r, c19nGenMsg(r, f), name)
		}
	}
}

// ---- (3) identifiers which embed 8-byte big-endian length prefixes ----

func be8(n int) []byte { return []byte{0, 0, 0, 0, 0, 0, 0, byte(n)} }

func catB(parts ...[]byte) []byte {
	var out []byte
	for _, p := range parts {
		out = append(out, p...)
	}
	return out
}

type idPair struct {
	shape string // sub-shape, for the case class
	a, b  [][]byte
}

// prefixEmbeddingPairs: pairs of DIFFERENT identifier lists which concatenate to the same bytes once a length prefix of
// value L is read between the pieces: {a, b|L|c} vs {a|L|b, c}; count confusions {a|L|b, c} vs {a, b, c} and {a|L|b} vs {a, b};
// each alone and followed by a common last identifier of several lengths (a writer whose prefixes are all the same number
// -- the count, the last length, the first length -- needs that number to be one of the lengths present).
func prefixEmbeddingPairs(r *rand.Rand, maxL int) (out []idPair) {
	for L := 0; L <= maxL; L++ {
		P := be8(L)
		for _, ln := range [][3]int{{1, 1, 1}, {1, 1, L}, {L, L, L}, {1 + r.Intn(3), 1 + r.Intn(3), 1 + r.Intn(3)}} {
			if ln[0] == 0 || ln[1] == 0 || ln[2] == 0 {
				continue
			}
			a := bytes.Repeat([]byte{byte('a' + r.Intn(4))}, ln[0])
			b := bytes.Repeat([]byte{byte('e' + r.Intn(4))}, ln[1])
			cc := bytes.Repeat([]byte{byte('i' + r.Intn(4))}, ln[2])
			tails := [][]byte{nil}
			for _, tl := range []int{1, 2, L, ln[2], 3, 10} {
				if tl > 0 {
					tails = append(tails, bytes.Repeat([]byte{'z'}, tl))
				}
			}
			for _, t := range tails {
				wt := func(l ...[]byte) [][]byte {
					if t != nil {
						return append(l, t)
					}
					return l
				}
				out = append(out,
					idPair{"regroup", wt(a, catB(b, P, cc)), wt(catB(a, P, b), cc)},
					idPair{"count-3-2", wt(catB(a, P, b), cc), wt(a, b, cc)},
					idPair{"count-2-1", wt(catB(a, P, b)), wt(a, b)},
					idPair{"double", wt(catB(a, P, b, P, cc)), wt(a, b, cc)},
					idPair{"prefix-first", wt(catB(P, a), b), wt(a, catB(P, b))},
				)
			}
		}
	}
	return
}

func idsSx(ids [][]byte) sx.V {
	l := make([]sx.V, len(ids))
	for i, id := range ids {
		l[i] = sx.Bytes(id)
	}
	return sx.List(sx.Int(8), sx.List(sx.List(l...)))
}

func (c *ctx) c19nIDSlicePrefix(r *rand.Rand) {
	maxL := 12
	if c.thorough() {
		maxL = 40
	}
	for _, p := range prefixEmbeddingPairs(r, maxL) {
		sa, sb := []sx.V{idsSx(p.a)}, []sx.V{idsSx(p.b)}
		if seqString(sa) == seqString(sb) {
			continue
		}
		da, oka := goDigestSafe(sa)
		db, okb := goDigestSafe(sb)
		c.res.Case("related-idslice-prefix-embedding/"+p.shape, seqString(sa)+"|"+seqString(sb), true)
		if !oka || !okb || !bytes.Equal(da, db) {
			continue
		}
		c.res.Violate("property", "C19/digest-collision/idslice-prefix-embedding",
			"two different identifier lists (identifiers embedding an 8-byte length prefix) give the same transcript digest",
			c19Replay{Shape: "idslice-prefix-embedding", SeqA: seqString(sa), SeqB: seqString(sb), GoA: hex.EncodeToString(da), GoB: hex.EncodeToString(db), What: "digest collision by framing (" + p.shape + ")"})
		// and where the model stands
		c.c19CheckSeq(sa, "idslice-prefix-embedding")
		c.c19CheckSeq(sb, "idslice-prefix-embedding")
		return
	}
	// correspondence on a sample of them (the streams themselves)
	ps := prefixEmbeddingPairs(r, 3)
	for i := 0; i < len(ps); i += 7 {
		c.c19CheckSeq([]sx.V{idsSx(ps[i].a)}, "idslice-prefix-embedding")
		c.c19CheckSeq([]sx.V{idsSx(ps[i].b)}, "idslice-prefix-embedding")
	}
}

// c19nReplayRun: replay of the cases of this file; returns false when the file is not one of them
func (c *ctx) c19nReplayRun() bool {
	var rp c19nReplay
	if err := readJSON(c.replay, &rp); err != nil {
		return false
	}
	for k, v := range rp.Hints {
		c19Hints[k] = v
	}
	r := c.res.Rng
	switch {
	case rp.MsgA != nil && rp.MsgB != nil:
		a, b := rp.MsgA.msg(), rp.MsgB.msg()
		da, _ := c19nMsgHash(a)
		db, _ := c19nMsgHash(b)
		fmt.Printf("replay: message_a hash %x\nreplay: message_b hash %x\n", da, db)
		if bytes.Equal(da, db) && canon(rp.MsgA) != canon(rp.MsgB) {
			c.res.Violate("property", "C19/message-hash/"+rp.Field+"/collision", "two messages which differ exactly in "+rp.Field+" have the same Message.Hash()", rp)
		}
		return true
	case rp.MsgA != nil:
		c.c19nCheckMsg(r, *rp.MsgA.msg(), "replay")
		return true
	case rp.New != "" || rp.What == "hash.New contract" || rp.What == "hash.New collision" || rp.What == "hash.New itemwise":
		a, err := sx.Parse(rp.New)
		if err != nil {
			c.res.Note("bad replay: %v", err)
			return true
		}
		if rp.NewB != "" {
			b, err := sx.Parse(rp.NewB)
			if err == nil {
				da, _ := c19nNewDigest(a.L)
				db, _ := c19nNewDigest(b.L)
				fmt.Printf("replay: New(a) %x\nreplay: New(b) %x\n", da, db)
				if da != nil && bytes.Equal(da, db) && rp.New != rp.NewB {
					c.res.Violate("property", "C19/new-initial/collision/"+rp.Shape, "two different initial sequences of hash.New give the same digest", rp)
				}
			}
			return true
		}
		c.c19nCheckNew(r, a.L, "replay")
		return true
	}
	return false
}
