package main

// pump_sys.go -- the multi-party SYSTEM model (coq/Model/System.v) executed against a whole real session.
//
// CompareWithModel (pump.go) replays every node's own history in the handler model (op hnd.run).  The system theorems
// (no split under equivocation, schedule independence, blame) are about Model/System.v: n handlers and a network.  Here the
// global order of the pump's API calls (Sim.SysLog) is handed to the op sys.run (coq/Model/DispatchSystem.v), which runs
// System.step on it, and every party's final observation and the global facts the theorems speak about are compared with
// the real handlers.
//
// System parties are the nodes whose label is their party id (a two-faced party's second instance is the adversary: what it
// sends is an injection naming the party as sender; what it receives is no event of the system).
//
// Oracles handed to the model (tables learned from the run):
//   fp       (from, bcast, to, round) -> interned CONTENT of the message the real handler emitted in that slot (all 8 fields);
//   view     (round, fingerprints of the stored broadcasts in party order) -> interned digest the real handler computed;
//   invalid  (recipient, sender, fingerprint): messages the recipient's round code rejected (the envelope said so, or the
//            handler ended with a verification error naming the sender right when that message was examined).
// Events: (0 to msg) genuine copy delivered, (1 to msg) delivered once more, (2 to msg) anything else handed to a party,
//         (4 p) Stop.  A genuine copy is one whose content a system party emitted and which is addressed to the recipient.

import (
	"fmt"
	"sort"
	"strings"

	"github.com/taurusgroup/multi-party-sig/pkg/party"
	"github.com/taurusgroup/multi-party-sig/pkg/protocol"

	"verifharness/sx"
)

// sysRec is one API call of the pump in global order.
type sysRec struct {
	Kind   int // 0 Accept, 1 Stop
	To     party.ID
	Msg    *protocol.Message
	Valid  bool
	Panics int
	Tag    string
	ObsIdx int // index in Nodes[To].Obs of the observation taken after the call
}

// sysCase is a prepared comparison: the argument of sys.run and what the real handlers showed.
type sysCase struct {
	Skip      string // non-empty: the run is outside what the shape model can express (why)
	N         int
	Arg       sx.V
	Events    []string // readable event list (the replay)
	RealObs   []string // normalised final observation per party
	RealTrace []string // per event: "(round class)" of the recipient right after it
	RealDone  []int    // parties with a result
	RealPairs map[[2]int][2]bool
	Results   map[int]string // public result fingerprint per completer (filled by the caller if it wants the results compared)
	Injects   int
	Invalids  int // entries of the invalid-message table
}

// sysFacts: the facts part of the reply.
type sysFacts struct {
	WF, N2, StopFree, Complete, Junk, NoInvalid, VHInj, AllDone bool
	Authentic, InvalFrom, Completers                            []int
	Pairs                                                       map[[2]int][2]bool
	Ideal                                                       []bool
}

// sysOutcome: result of one comparison.
type sysOutcome struct {
	Skip     string
	Mismatch string // "" = model and implementation agree
	Model    string
	Real     string
	Facts    sysFacts
	Events   []string
	Resolved string
	injects  int
	invalids int
}

func sysContentKey(m *protocol.Message) string {
	b := func(x []byte) string {
		if x == nil {
			return "nil"
		}
		return fmt.Sprintf("%d:%x", len(x), x)
	}
	return fmt.Sprintf("%s|%d:%s|%d:%s|%d:%s|%d|%s|%v|%s", b(m.SSID), len(m.From), m.From, len(m.To), m.To, len(m.Protocol), m.Protocol,
		m.RoundNumber, b(m.Data), m.Broadcast, b(m.BroadcastVerification))
}

func (s *Sim) sysFP(m *protocol.Message) int64 { return s.Intern("sysmsg", []byte(sysContentKey(m))) }

// sysMsgSx: the model's msg tuple with the content fingerprint.
func (s *Sim) sysMsgSx(m *protocol.Message, valid bool, panics int) sx.V {
	l := []sx.V{sx.Int(s.Intern("ssid", nonNil(m.SSID))), sx.Int(s.Intern("proto", []byte(m.Protocol))), sx.Int(int64(s.idx(m.From))),
		sx.Int(int64(s.toIdx(m.To))), sx.Int(int64(m.RoundNumber)), sx.Bool(m.Data != nil), sx.Bool(m.Broadcast),
		sx.Int(s.Intern("digest", m.BroadcastVerification)), sx.Int(s.sysFP(m)), sx.Bool(valid)}
	if panics != 0 {
		l = append(l, sx.Int(int64(panics)))
	}
	return sx.List(l...)
}

func sortedSx(l []sx.V) string {
	ss := make([]string, len(l))
	for i := range l {
		ss[i] = l[i].String()
	}
	sort.Strings(ss)
	return "(" + strings.Join(ss, " ") + ")"
}

// sysNormObs: observation (cur class culprits errkind out closes rt qb qp hashes views stored-p2p) with the lists as sorted multisets.
func sysNormObs(v sx.V) string {
	if v.Kind != 2 || len(v.L) != 12 {
		return v.String()
	}
	parts := make([]string, 12)
	for i, x := range v.L {
		switch i {
		case 2, 4, 9, 10, 11:
			parts[i] = sortedSx(x.L)
		default:
			parts[i] = x.String()
		}
	}
	return "(" + strings.Join(parts, " ") + ")"
}

// SysCase prepares the system-level comparison of a finished run (no model call, no shared state: safe on any goroutine).
func (s *Sim) SysCase(sh shapeInfo, fixedStop bool) *sysCase {
	sc := &sysCase{N: len(s.IDs), RealPairs: map[[2]int][2]bool{}, Results: map[int]string{}}
	n := len(s.IDs)
	nodes := make([]*Node, n)
	for i, id := range s.IDs {
		nd := s.Nodes[id]
		if nd == nil || nd.H == nil || nd.MH == nil || nd.ID != id {
			sc.Skip = "not a multi-party handler session"
			return sc
		}
		nodes[i] = nd
	}
	isSys := func(nd *Node) (int, bool) {
		if nd == nil || nd.Label != nd.ID {
			return 0, false
		}
		i := s.idx(nd.ID)
		return i, i < n && nodes[i] == nd
	}
	for _, nd := range s.Nodes {
		for _, o := range nd.Obs {
			if o.Panic != "" || o.Hung {
				sc.Skip = "an API call panicked or did not return"
				return sc
			}
		}
	}
	// ---- ssid / proto ----
	ssid, proto := int64(0), int64(0)
	for _, nd := range nodes {
		if len(nd.Out) > 0 {
			ssid, proto = s.Intern("ssid", nonNil(nd.Out[0].SSID)), s.Intern("proto", []byte(nd.Out[0].Protocol))
			break
		}
	}
	if ssid == 0 {
		sc.Skip = "nothing was emitted"
		return sc
	}
	// ---- fingerprint table and the set of emitted contents ----
	type slot struct {
		from  int
		bc    bool
		to, r int
	}
	slots := map[slot]int64{}
	var fpt []sx.V
	emitted := make([]map[string]bool, n) // contents party i has emitted SO FAR (advanced with the event log below)
	cursor := make([]int, n)              // how many of nodes[i].Out are in emitted[i]
	advance := func(i, obsIdx int) {
		nd := nodes[i]
		upto := 0
		for k := 0; k <= obsIdx && k < len(nd.Obs); k++ {
			upto += len(nd.Obs[k].NewOut)
		}
		for ; cursor[i] < upto && cursor[i] < len(nd.Out); cursor[i]++ {
			emitted[i][sysContentKey(nd.Out[cursor[i]])] = true
		}
	}
	for i, nd := range nodes {
		emitted[i] = map[string]bool{}
		advance(i, 0)
		for _, m := range nd.Out {
			k := slot{i, m.Broadcast, s.toIdx(m.To), int(m.RoundNumber)}
			f := s.sysFP(m)
			if old, ok := slots[k]; ok {
				if old != f {
					sc.Skip = fmt.Sprintf("party %d emitted two different messages for one slot (round %d)", i, m.RoundNumber)
					return sc
				}
				continue
			}
			slots[k] = f
			fpt = append(fpt, sx.List(sx.Int(int64(i)), sx.Bool(m.Broadcast), sx.Int(int64(k.to)), sx.Int(int64(k.r)), sx.Int(f)))
		}
	}
	// ---- view-digest table: every handler of the sim (the second instance of a two-faced party included) ----
	var vht []sx.V
	seenV := map[string]bool{}
	var labels []string
	for l := range s.Nodes {
		labels = append(labels, string(l))
	}
	sort.Strings(labels)
	for _, l := range labels {
		nd := s.Nodes[party.ID(l)]
		if nd.MH == nil {
			continue
		}
		st := nd.MH.VerifState()
		var rs []int
		for r := range st.Hashes {
			rs = append(rs, int(r))
		}
		sort.Ints(rs)
		for _, r := range rs {
			q := st.Broadcasts[uint16(r)]
			var view []sx.V
			ok := true
			for _, id := range s.IDs {
				m := q[id]
				if m == nil {
					ok = false
					break
				}
				view = append(view, sx.Int(s.sysFP(m)))
			}
			if !ok {
				continue
			}
			e := sx.List(sx.Int(int64(r)), sx.List(view...), sx.Int(s.Intern("digest", st.Hashes[uint16(r)])))
			if !seenV[e.String()] {
				seenV[e.String()] = true
				vht = append(vht, e)
			}
		}
	}
	// ---- events ----
	type inv struct {
		to, from int
		fp       int64
	}
	invalid := map[inv]bool{}
	var invList []sx.V
	addInv := func(to, from int, fp int64) {
		k := inv{to, from, fp}
		if !invalid[k] {
			invalid[k] = true
			invList = append(invList, sx.List(sx.Int(int64(to)), sx.Int(int64(from)), sx.Int(fp)))
		}
	}
	type got struct {
		m *protocol.Message
	}
	received := make([][]got, n) // per party: the messages handed to it, in order
	seenCopy := map[string]bool{}
	var evs []sx.V
	for _, rec := range s.SysLog {
		to, ok := isSys(s.Nodes[rec.To])
		if !ok {
			continue
		}
		nd := nodes[to]
		if rec.Kind == 1 {
			evs = append(evs, sx.List(sx.Int(4), sx.Int(int64(to))))
			sc.Events = append(sc.Events, fmt.Sprintf("stop@%s", nd.ID))
			sc.RealTrace = append(sc.RealTrace, glanceOf(nd, rec.ObsIdx))
			advance(to, rec.ObsIdx)
			continue
		}
		m := rec.Msg
		from := s.idx(m.From)
		key := sysContentKey(m)
		kind := 2
		if from < n && from != to && emitted[from][key] && (m.To == "" || m.To == nd.ID) {
			kind = 0
			ck := fmt.Sprintf("%d<-%s", to, key)
			if seenCopy[ck] {
				kind = 1
			}
			seenCopy[ck] = true
		}
		if kind == 2 {
			sc.Injects++
		}
		fp := s.sysFP(m)
		if !rec.Valid {
			addInv(to, from, fp)
		}
		// what the handler made of it
		if rec.ObsIdx >= 1 && rec.ObsIdx < len(nd.Obs) {
			prev, cur := nd.Obs[rec.ObsIdx-1], nd.Obs[rec.ObsIdx]
			if prev.Class == 0 && cur.Class == 2 && (cur.ErrKind == 2 || cur.ErrKind == 0) {
				switch {
				case cur.Round == 0:
					sc.Skip = "a round's Finalize ended the session (abort round): no counterpart in the shape model"
				case len(cur.Culprits) != 1:
					sc.Skip = "verification error naming several parties / nobody"
				case cur.Culprits[0] == to:
					sc.Skip = "a round's Finalize failed (the party names itself)"
				case cur.Culprits[0] == from && int(m.RoundNumber) == prev.Round:
					addInv(to, from, fp) // the message just examined (or the queued p2p message it chains to: same verdict)
				default:
					// a queued message of the round the handler moved to: the stored one = the first of that kind from the culprit
					j, nr := cur.Culprits[0], cur.Round
					found := false
					for _, g := range append(append([]got{}, received[to]...), got{m}) {
						if s.idx(g.m.From) == j && int(g.m.RoundNumber) == nr && g.m.Broadcast == sh.Bcast[nr] {
							addInv(to, j, s.sysFP(g.m))
							found = true
							break
						}
					}
					if !found {
						sc.Skip = "verification error that cannot be attributed to a delivered message"
					}
				}
			}
		}
		received[to] = append(received[to], got{m})
		advance(to, rec.ObsIdx)
		sc.RealTrace = append(sc.RealTrace, glanceOf(nd, rec.ObsIdx))
		evs = append(evs, sx.List(sx.Int(int64(kind)), sx.Int(int64(to)), s.sysMsgSx(m, rec.Valid, rec.Panics)))
		kn := [...]string{"deliver", "dup", "inject"}[kind]
		bk := "p2p"
		if m.Broadcast {
			bk = "bc"
		}
		sc.Events = append(sc.Events, fmt.Sprintf("%s %s->%s/r%d/%s%s", kn, m.From, nd.ID, m.RoundNumber, bk, rec.Tag))
	}
	if sc.Skip != "" {
		return sc
	}
	sc.Invalids = len(invList)
	sc.Arg = sx.List(sx.Int(int64(n)), sx.Int(ssid), sx.Int(proto), sh.sx(), sx.List(vht...), sx.List(fpt...), sx.List(invList...),
		sx.Bool(fixedStop), sx.List(evs...))
	// ---- what the real handlers show at the end ----
	type viewT map[int]map[int]int64
	views := make([]viewT, n)
	for i, nd := range nodes {
		o := nd.Obs[len(nd.Obs)-1]
		st := nd.MH.VerifState()
		var cul, outs, hs, vs, ps []sx.V
		for _, c := range o.Culprits {
			cul = append(cul, sx.Int(int64(c)))
		}
		for _, m := range nd.Out {
			outs = append(outs, s.outSx(m))
		}
		for r, d := range st.Hashes {
			hs = append(hs, sx.List(sx.Int(int64(r)), sx.Int(s.Intern("digest", d))))
		}
		views[i] = viewT{}
		qb := 0
		for r, q := range st.Broadcasts {
			views[i][int(r)] = map[int]int64{}
			for id, m := range q {
				qb++
				views[i][int(r)][s.idx(id)] = s.sysFP(m)
				vs = append(vs, sx.List(sx.Int(int64(r)), sx.Int(int64(s.idx(id))), sx.Int(s.sysFP(m))))
			}
		}
		qp := 0
		for r, q := range st.Messages {
			for id, m := range q {
				qp++
				ps = append(ps, sx.List(sx.Int(int64(r)), sx.Int(int64(s.idx(id))), sx.Int(s.sysFP(m))))
			}
		}
		closes := 0
		if o.Closed {
			closes = 1
		}
		ek := o.ErrKind
		obs := sx.List(sx.Int(int64(o.Round)), sx.Int(int64(o.Class)), sx.List(cul...), sx.Int(int64(ek)), sx.List(outs...),
			sx.Int(int64(closes)), sx.Int(0), sx.Int(int64(qb)), sx.Int(int64(qp)), sx.List(hs...), sx.List(vs...), sx.List(ps...))
		sc.RealObs = append(sc.RealObs, sysNormObs(obs))
		if st.HasResult {
			sc.RealDone = append(sc.RealDone, i)
		}
	}
	eqOn := func(a, b, lo, hi int) bool {
		for k := lo; k <= hi; k++ {
			if !sh.Bcast[k] {
				continue
			}
			for j := 0; j < n; j++ {
				x, okx := views[a][k][j]
				y, oky := views[b][k][j]
				if !okx || !oky || x != y {
					return false
				}
			}
		}
		return true
	}
	for x, a := range sc.RealDone {
		for _, b := range sc.RealDone[x+1:] {
			sc.RealPairs[[2]int{a, b}] = [2]bool{eqOn(a, b, 2, sh.Final-1), eqOn(a, b, 2, sh.Final)}
		}
	}
	return sc
}

func glanceOf(nd *Node, i int) string {
	if i < 0 || i >= len(nd.Obs) {
		return "?"
	}
	return fmt.Sprintf("(%d %d)", nd.Obs[i].Round, nd.Obs[i].Class)
}

func sxInts(v sx.V) []int {
	out := []int{}
	for _, x := range v.L {
		out = append(out, x.AsInt())
	}
	return out
}

func parseSysFacts(v sx.V) (f sysFacts, ok bool) {
	if v.Kind != 2 || len(v.L) != 13 {
		return f, false
	}
	b := func(i int) bool { return v.L[i].AsBool() }
	f = sysFacts{WF: b(0), N2: b(1), StopFree: b(2), Complete: b(3), Junk: b(4), NoInvalid: b(5), VHInj: b(6), AllDone: b(7),
		Authentic: sxInts(v.L[8]), InvalFrom: sxInts(v.L[9]), Completers: sxInts(v.L[10]), Pairs: map[[2]int][2]bool{}}
	for _, p := range v.L[11].L {
		if len(p.L) != 4 {
			return f, false
		}
		f.Pairs[[2]int{p.L[0].AsInt(), p.L[1].AsInt()}] = [2]bool{p.L[2].AsBool(), p.L[3].AsBool()}
	}
	for _, x := range v.L[12].L {
		f.Ideal = append(f.Ideal, x.AsBool())
	}
	return f, true
}

func intsIn(l []int, x int) bool {
	for _, y := range l {
		if y == x {
			return true
		}
	}
	return false
}

var sysLogged int

// RunSysCase asks the model and compares.
func (c *ctx) RunSysCase(sc *sysCase) (*sysOutcome, error) {
	o := &sysOutcome{Skip: sc.Skip, Events: sc.Events, injects: sc.Injects, invalids: sc.Invalids}
	if sc.Skip != "" {
		return o, nil
	}
	// the first few (small) calls are logged for the vm_compute cross-check (cases.v) even when other ops filled the log
	if sysLogged < 4 && len(sc.Arg.String()) <= 8000 {
		sysLogged++
		oldN, oldS := c.m.MaxLog, c.m.MaxLogSize
		if len(c.m.Log) >= oldN {
			c.m.MaxLog = len(c.m.Log) + 1
		}
		c.m.MaxLogSize = 20000
		defer func() { c.m.MaxLog, c.m.MaxLogSize = oldN, oldS }()
	}
	rep, err := c.m.Call("sys.run", sc.Arg)
	if err != nil {
		return o, err
	}
	if rep.Kind != 2 || len(rep.L) != 5 || len(rep.L[0].L) != sc.N || len(rep.L[4].L) != len(sc.RealTrace) {
		o.Mismatch = "reply not understood"
		o.Model = rep.String()
		return o, nil
	}
	facts, ok := parseSysFacts(rep.L[1])
	if !ok {
		o.Mismatch = "facts not understood"
		o.Model = rep.L[1].String()
		return o, nil
	}
	o.Facts = facts
	o.Resolved = rep.L[2].String()
	// 1. every delivery of a genuine copy must find that copy in the model's network
	if un := sxInts(rep.L[3]); len(un) > 0 {
		i := un[0]
		o.Mismatch = fmt.Sprintf("event %d: the real network delivered a copy that the model's parties never sent", i)
		if i < len(sc.Events) {
			o.Real = sc.Events[i]
		}
		o.Model = fmt.Sprintf("unresolved events %v", un)
		return o, nil
	}
	// 2. after every event: round and result class of the party it was handed to
	for i, g := range rep.L[4].L {
		if a := g.String(); a != sc.RealTrace[i] {
			o.Mismatch = fmt.Sprintf("event %d (%s): round / result class of the recipient right after it differ", i, sc.Events[i])
			o.Model, o.Real = a, sc.RealTrace[i]
			return o, nil
		}
	}
	// 3. every party's final observation
	for i := 0; i < sc.N; i++ {
		if a, b := sysNormObs(rep.L[0].L[i]), sc.RealObs[i]; a != b {
			o.Mismatch = fmt.Sprintf("party %d: final observation differs", i)
			o.Model, o.Real = a, b
			return o, nil
		}
	}
	// 4. the global facts: who completed, which completers hold equal views
	if fmt.Sprint(facts.Completers) != fmt.Sprint(append([]int{}, sc.RealDone...)) {
		o.Mismatch = "different sets of completers"
		o.Model, o.Real = fmt.Sprint(facts.Completers), fmt.Sprint(sc.RealDone)
		return o, nil
	}
	if fmt.Sprint(facts.Pairs) != fmt.Sprint(sc.RealPairs) {
		o.Mismatch = "completers' views: pairwise equality differs"
		o.Model, o.Real = fmt.Sprint(facts.Pairs), fmt.Sprint(sc.RealPairs)
		return o, nil
	}
	return o, nil
}

// CompareSystemWithModel = SysCase + RunSysCase.
func (c *ctx) CompareSystemWithModel(s *Sim, sh shapeInfo, fixedStop bool) (*sysOutcome, error) {
	return c.RunSysCase(s.SysCase(sh, fixedStop))
}

// sysTheoremC07: the hypotheses of C07_sys_schedule_independent as reported, and whether its conclusion is reported too.
func (f sysFacts) c07Hyp() bool {
	return f.StopFree && f.N2 && f.WF && f.NoInvalid && f.Junk && f.Complete
}
func (f sysFacts) c07Concl(n int) bool {
	if !f.AllDone || len(f.Completers) != n {
		return false
	}
	for _, b := range f.Ideal {
		if !b {
			return false
		}
	}
	return true
}

// sysStats: counters for the run's notes.
type sysStats struct {
	compared, skipped, hypC07, hypC06, injects, invalids int
	notWF, honestPairs, incomplete                       int // shape not well-formed; pairs of completers other than the equivocator; copies left in flight
	skips                                                map[string]int
}

func (st *sysStats) note(c *ctx, what string) {
	var ks []string
	for k, v := range st.skips {
		ks = append(ks, fmt.Sprintf("%s: %d", k, v))
	}
	sort.Strings(ks)
	c.res.Note("system model (sys.run) %s: %d whole sessions compared, %d outside the shape model %v; hypotheses of the C07 theorem (C07_sys_schedule_independent) reported in %d, of the C06 theorem (C06_sys_no_split_pairs) in %d with %d pairs of completers other than the equivocator; %d sessions with a shape that is not well-formed, %d with copies left in flight; %d injected messages, %d messages rejected by a recipient's round code",
		what, st.compared, st.skipped, ks, st.hypC07, st.hypC06, st.honestPairs, st.notWF, st.incomplete, st.injects, st.invalids)
}
