package main

// C17 -- sessions in which PROCESSING A MESSAGE PANICS inside a round.
//
// A proxy round.Session (built on the verifhook re-exports, like c04WrapSession) wraps every round of one party; all
// methods are the real round's, except that VerifyMessage / StoreBroadcastMessage panic for ONE chosen message
// (round, sender, kind) taken from the messages that party receives in an honest reference run.  The handler must turn
// the panic into a clean end of the session (handler.go: recoverToAbort, under the lock).
//
// In a third of the plans the panic strikes later: the message is verified and stored, and Finalize of that round panics
// (round code reading several parties' inputs).
//
// (1) sequential form (c17History): the panicking message sits at a random point of a random API history; oracles of
//     c17History plus: the call in which the panic fires ends the running session with the panic error and nobody
//     named.  Model replay: the message carries the model's panic flag (Model/Handler.v m_panic: 1 = the round code panics
//     while verifying / storing it, 2 = in Finalize of its round; pump.go Env.Panics) and the FULL observation is compared
//     after every call: round reached, result class, culprits (none), error kind (7 = recovered panic), messages forwarded
//     before the panic, abort notice, closes, queue occupancy (the message panicked on stays stored), view digests.
// (2) concurrent form (c17PanicConcurrent; run by C17 and, under the race detector, by C17RACE): while two goroutines
//     deliver messages to the handler, others call Result / CanAccept / Stop / Accept on it.  The value panicked with yields
//     when it is formatted (i.e. while the handler is recovering): it wakes a goroutine that calls Stop and Result, and
//     waits a moment for it.  Oracles: no call lets a panic escape, Result never changes once the session has ended (also
//     as seen by the goroutine that stopped it), Listen() is closed, the session ended with the panic error or, if Stop won,
//     with the user abort.  With the recovery under the lock the stopper simply waits for Accept to return.

import (
	"fmt"
	"math/rand"
	"runtime"
	"sort"
	"strings"
	"sync"
	"sync/atomic"
	"time"

	"github.com/taurusgroup/multi-party-sig/pkg/party"
	"github.com/taurusgroup/multi-party-sig/pkg/protocol"
	"github.com/taurusgroup/multi-party-sig/pkg/verifhook"
)

const c17PanicErrPrefix = recoveredPanicPrefix

type c17PanicPoint struct {
	Round int    `json:"round"`
	From  string `json:"from"`
	Bcast bool   `json:"broadcast"`
	Fin   bool   `json:"finalize,omitempty"` // the message is accepted; Finalize of its round panics
}

func (p c17PanicPoint) String() string {
	k := "p2p"
	if p.Bcast {
		k = "bc"
	}
	if p.Fin {
		k += "/finalize"
	}
	return fmt.Sprintf("%s/r%d/%s", p.From, p.Round, k)
}

// flag: the model's panic flag for the message this point names
func (p c17PanicPoint) flag() int {
	if p.Fin {
		return 2
	}
	return 1
}

func (p c17PanicPoint) matches(m *protocol.Message) bool {
	return m != nil && int(m.RoundNumber) == p.Round && string(m.From) == p.From && m.Broadcast == p.Bcast
}

type c17PanicPlan struct {
	Pt    c17PanicPoint
	Val   interface{} // the value the round code panics with
	fired int32
}

func (pl *c17PanicPlan) Fired() int { return int(atomic.LoadInt32(&pl.fired)) }

func (pl *c17PanicPlan) maybe(r verifhook.RoundSession, msg verifhook.RoundMessage, bcast bool) {
	if !pl.Pt.Fin && pl.Pt.Bcast == bcast && int(r.Number()) == pl.Pt.Round && string(msg.From) == pl.Pt.From {
		atomic.AddInt32(&pl.fired, 1)
		panic(pl.Val)
	}
}

type c17PanicProxy struct {
	verifhook.RoundSession
	plan *c17PanicPlan
}

type c17PanicProxyB struct{ c17PanicProxy }

func (p c17PanicProxy) VerifyMessage(msg verifhook.RoundMessage) error {
	p.plan.maybe(p.RoundSession, msg, false)
	return p.RoundSession.VerifyMessage(msg)
}

func (p c17PanicProxy) Finalize(out chan<- *verifhook.RoundMessage) (verifhook.RoundSession, error) {
	if p.plan.Pt.Fin && int(p.RoundSession.Number()) == p.plan.Pt.Round {
		// the handler calls Finalize only when every message of the round is in: the one the plan names has been verified and stored
		atomic.AddInt32(&p.plan.fired, 1)
		panic(p.plan.Val)
	}
	next, err := p.RoundSession.Finalize(out)
	if next == p.RoundSession {
		return p, err
	}
	return c17WrapPanic(next, p.plan), err
}

func (p c17PanicProxyB) StoreBroadcastMessage(msg verifhook.RoundMessage) error {
	p.plan.maybe(p.RoundSession, msg, true)
	return p.RoundSession.(verifhook.BroadcastRound).StoreBroadcastMessage(msg)
}

func (p c17PanicProxyB) BroadcastContent() verifhook.BroadcastContent {
	return p.RoundSession.(verifhook.BroadcastRound).BroadcastContent()
}

func c17WrapPanic(r verifhook.RoundSession, plan *c17PanicPlan) verifhook.RoundSession {
	switch r.(type) {
	case nil:
		return nil
	case *verifhook.RoundAbort, *verifhook.RoundOutput:
		return r
	}
	if _, ok := r.(verifhook.BroadcastRound); ok {
		return c17PanicProxyB{c17PanicProxy{r, plan}}
	}
	return c17PanicProxy{r, plan}
}

func c17WrapStart(inner protocol.StartFunc, plan *c17PanicPlan) protocol.StartFunc {
	return func(sid []byte) (verifhook.RoundSession, error) {
		r, err := inner(sid)
		if err != nil || r == nil {
			return r, err
		}
		return c17WrapPanic(r, plan), nil
	}
}

// c17WithPanic: the same session, with `victim`'s rounds wrapped
func c17WithPanic(sp SessionSpec, victim party.ID, plan *c17PanicPlan) SessionSpec {
	out := sp
	out.Start = func(id party.ID) protocol.StartFunc {
		if id == victim {
			return c17WrapStart(sp.Start(id), plan)
		}
		return sp.Start(id)
	}
	return out
}

// c17PanicPoints: per party, the (round, sender, kind) of every message it receives in the honest reference run
func c17PanicPoints(ref *Sim) map[party.ID][]c17PanicPoint {
	out := map[party.ID][]c17PanicPoint{}
	var labels []string
	for l := range ref.Nodes {
		labels = append(labels, string(l))
	}
	sort.Strings(labels)
	for _, to := range ref.IDs {
		seen := map[c17PanicPoint]bool{}
		for _, l := range labels {
			n := ref.Nodes[party.ID(l)]
			for _, m := range n.Out {
				pt := c17PanicPoint{Round: int(m.RoundNumber), From: string(m.From), Bcast: m.Broadcast}
				if m.RoundNumber > 0 && m.IsFor(to) && !seen[pt] {
					seen[pt] = true
					out[to] = append(out[to], pt)
				}
			}
		}
	}
	return out
}

// ---------------------------------------------------------------------------------------------
// concurrent form

// c17YieldValue is what the round code panics with.  Formatting it (the handler does that while it turns the panic into
// an error) tells the harness that the recovery is in progress and gives other goroutines a moment to get in.
type c17YieldValue struct {
	recovering chan struct{}
	release    chan struct{}
	once       sync.Once
	wait       time.Duration
}

func (p *c17YieldValue) String() string {
	p.once.Do(func() { close(p.recovering) })
	select {
	case <-p.release:
	case <-time.After(p.wait):
	}
	return "c17: processing this message panics"
}

type c17PanicSession struct {
	Spec   string `json:"spec"`
	It     int    `json:"iteration"`
	Victim string `json:"victim"`
	Point  string `json:"panicking_message"`
}

// c17PanicSpecs: the sessions used, with the messages each party receives
func c17PanicSpecs() ([]SessionSpec, []map[party.ID][]c17PanicPoint) {
	specs := []SessionSpec{
		specXOR(idsOf("a", "b", "c"), []byte("p")),
		specFrostKeygen(idsOf("alice", "bob", "carl"), 1, false, []byte("pk")),
	}
	var pts []map[party.ID][]c17PanicPoint
	for _, sp := range specs {
		det := installDetReader(5, 0)
		ref := sp.build(rand.New(rand.NewSource(5)), det)
		ref.RunFIFO(10000)
		restoreRandReader()
		pts = append(pts, c17PanicPoints(ref))
	}
	return specs, pts
}

// c17PanicConcurrent runs `iters` concurrent sessions (iteration numbers from..from+iters-1).
func (c *ctx) c17PanicConcurrent(from, iters int) {
	specs, pts := c17PanicSpecs()
	for it := from; it < from+iters; it++ {
		k := it % len(specs)
		c.c17PanicSessionRun(specs[k], pts[k], it)
	}
}

func (c *ctx) c17PanicSessionRun(sp0 SessionSpec, pts map[party.ID][]c17PanicPoint, it int) {
	ids := party.NewIDSlice(sp0.IDs)
	victim := ids[(it/2)%len(ids)]
	if len(pts[victim]) == 0 {
		return
	}
	pt := pts[victim][(it/(2*len(ids)))%len(pts[victim])]
	pt.Fin = it%4 == 3 // every fourth session: the message is accepted and Finalize of its round panics
	pv := &c17YieldValue{recovering: make(chan struct{}), release: make(chan struct{}), wait: 30 * time.Millisecond}
	plan := &c17PanicPlan{Pt: pt, Val: pv}
	sp := c17WithPanic(sp0, victim, plan)
	sp.SessionID = append([]byte("panic-"), byte(it), byte(it>>8))
	name := "panic-recovery/" + sp0.Name
	rep := c17PanicSession{Spec: name, It: it, Victim: string(victim), Point: pt.String()}
	var vmu sync.Mutex
	var viol []string
	bad := func(what string) {
		vmu.Lock()
		viol = append(viol, what)
		vmu.Unlock()
	}
	hs := map[party.ID]protocol.Handler{}
	for _, id := range ids {
		h, err := protocol.NewMultiHandler(sp.Start(id), sp.SessionID)
		if err != nil {
			c.res.Note("%s: %s could not start: %v", name, id, err)
			return
		}
		hs[id] = h
	}
	inbox := map[party.ID]chan *protocol.Message{}
	for id := range hs {
		inbox[id] = make(chan *protocol.Message, 256)
	}
	guard := func(what string, f func()) {
		defer func() {
			if r := recover(); r != nil {
				bad(fmt.Sprintf("%s: %s let a panic escape: %v", strings.ToLower(what)+"-panic", what, r))
			}
		}()
		f()
	}
	var wg sync.WaitGroup
	stopAll := make(chan struct{})
	var closedSeen int32
	for _, id := range ids {
		id, h := id, hs[id]
		wg.Add(1)
		go func() { // forwarder: Listen -> inboxes
			defer wg.Done()
			for m := range h.Listen() {
				for to, ch := range inbox {
					if m.IsFor(to) {
						select {
						case ch <- m:
						default:
						}
					}
				}
			}
			if id == victim {
				atomic.StoreInt32(&closedSeen, 1)
			}
		}()
		for k := 0; k < 2; k++ {
			wg.Add(1)
			go func() { // acceptors
				defer wg.Done()
				for {
					select {
					case m := <-inbox[id]:
						guard("Accept", func() {
							if h.CanAccept(m) {
								h.Accept(m)
							}
							h.Accept(m) // duplicate
						})
					case <-stopAll:
						return
					}
				}
			}()
		}
	}
	v := hs[victim]
	// pollers on the victim: Result must go from "not finished" to ONE final answer
	type seen struct{ finals []string }
	pollers := make([]seen, 2)
	for k := range pollers {
		k := k
		wg.Add(1)
		go func() {
			defer wg.Done()
			last := ""
			for {
				guard("Result", func() {
					cl, fp := resultClass(v)
					if cl != 0 {
						s := fmt.Sprintf("%d:%s", cl, fp)
						if s != last {
							pollers[k].finals = append(pollers[k].finals, s)
							last = s
						}
					}
					_ = v.CanAccept(&protocol.Message{From: "zz", Data: []byte{1}})
				})
				select {
				case <-stopAll:
					return
				default:
					runtime.Gosched()
				}
			}
		}()
	}
	// the application stops the session while the handler is recovering, and looks at the result right away
	afterStop := ""
	stopperDone := make(chan struct{})
	wg.Add(1)
	go func() {
		defer wg.Done()
		defer close(stopperDone)
		select {
		case <-pv.recovering:
		case <-stopAll:
			return
		}
		guard("Stop", func() {
			v.Stop()
			cl, fp := resultClass(v)
			afterStop = fmt.Sprintf("%d:%s", cl, fp)
		})
		close(pv.release)
	}()
	// wait until the victim's session has ended; the application then stops the other parties (the abort notice is sent
	// without blocking and may be lost), and everybody must have ended
	waitEnded := func(which func(party.ID) bool) bool {
		done, giveUp := make(chan struct{}), make(chan struct{})
		go func() {
			for {
				all := true
				for id, h := range hs {
					if which(id) {
						if cl, _ := resultClass(h); cl == 0 {
							all = false
						}
					}
				}
				if all {
					close(done)
					return
				}
				select {
				case <-giveUp:
					return
				default:
					runtime.Gosched()
				}
			}
		}()
		ok := withWatchdog(30e9, func() { <-done })
		close(giveUp)
		return ok
	}
	ended := waitEnded(func(id party.ID) bool { return id == victim })
	if ended {
		for id, h := range hs {
			if id != victim {
				h := h
				guard("Stop", func() { h.Stop() })
			}
		}
		ended = waitEnded(func(party.ID) bool { return true })
	}
	if ended {
		withWatchdog(5e9, func() { <-stopperDone })
		// a moment for an unsynchronised late write to show
		for i := 0; i < 20; i++ {
			runtime.Gosched()
		}
	}
	close(stopAll)
	if !ended {
		bad("hang: concurrent session with a panicking message did not end")
	}
	joined := withWatchdog(10e9, func() { wg.Wait() })
	if ended && !joined {
		bad("not-closed: every session ended but a goroutine ranging over Listen() did not finish")
	}
	if ended && joined {
		cl, fp := resultClass(v)
		final := fmt.Sprintf("%d:%s", cl, fp)
		if plan.Fired() > 0 {
			if cl != 2 || !(strings.Contains(fp, c17PanicErrPrefix) || strings.Contains(fp, "aborted by user")) {
				bad("wrong-end: the session did not end with the recovered-panic error (or the user abort): " + final)
			}
		}
		if afterStop != "" && afterStop != final {
			bad(fmt.Sprintf("result-changed: Result after Stop returned was %.80q, later %.80q", afterStop, final))
		}
		for k := range pollers {
			if len(pollers[k].finals) > 1 || (len(pollers[k].finals) == 1 && pollers[k].finals[0] != final) {
				bad(fmt.Sprintf("result-changed: a goroutine polling Result saw %d different final answers %.200q, at the end %.80q", len(pollers[k].finals), pollers[k].finals, final))
			}
		}
		if atomic.LoadInt32(&closedSeen) == 0 {
			bad("not-closed: session ended but Listen() was not closed")
		}
		guard("Stop", func() { v.Stop() }) // harmless on a finished session
	}
	outcome := "panic-recovered"
	if plan.Fired() == 0 {
		outcome = "panic-not-reached"
	}
	c.res.Case("race/"+name+"/"+outcome, fmt.Sprint(name, it), true)
	sort.Strings(viol)
	for _, w := range viol {
		c.res.Violate("property", "C17/"+name+"/"+strings.SplitN(w, ":", 2)[0], w, rep)
	}
}
