package main

// conflict.go -- "conflicting duplicates" for C07 and C17: a second, DIFFERENT but individually valid message of the same
// sender for the same round and kind.
//
// Source 1 (fork): a second honest instance of the sender with another random stream from the start (the two-faced driver of
// C06, buildTwoFaced with every honest party in group 1: instance 2 hears everybody and is heard by nobody).  Every message it
// emits is what the sender could have sent in that round; it differs from the first instance's message wherever the round draws
// randomness.  Source 2 (reencode): the genuine message in another, equally decodable CBOR encoding (cborReencode of C06).
//
// The handler keeps the FIRST message per (round, sender, kind): a conflicting duplicate delivered after the first version --
// while the round is still to come, while it is open, after it has closed, after the session has ended -- must leave the state
// fingerprint unchanged, emit nothing, and the session must end as it does without it.  The Coq model (hnd.run: first message
// wins) replays the history event by event.

import (
	"bytes"
	"fmt"
	"math/rand"
	"sort"

	"github.com/taurusgroup/multi-party-sig/pkg/party"
	"github.com/taurusgroup/multi-party-sig/pkg/protocol"
)

// conflictSet: per sender the messages of its second instance, and the results of the undisturbed run.
type conflictSet struct {
	BySender map[party.ID][]*protocol.Message
	RefFP    map[party.ID]string // result fingerprint per party in the run in which everybody hears instance 1 only
	Notes    []string
}

// conflictHarvest runs the session once per sender E with a second instance of E (same seed: all first instances draw the
// per-party streams of an ordinary run with that seed).
func conflictHarvest(sp SessionSpec, seed int64) *conflictSet {
	cs := &conflictSet{BySender: map[party.ID][]*protocol.Message{}, RefFP: map[party.ID]string{}}
	all := map[party.ID]bool{}
	for _, id := range sp.IDs {
		all[id] = true
	}
	for _, E := range party.NewIDSlice(sp.IDs) {
		det := installDetReader(seed, 0)
		s, _ := buildTwoFaced(sp, seed, E, all, 2, det)
		s.RunFIFO(100000)
		restoreRandReader()
		e2 := s.Nodes[party.ID(string(E)+"#2")]
		if e2 == nil || e2.H == nil {
			cs.Notes = append(cs.Notes, fmt.Sprintf("second instance of %s did not start", E))
			continue
		}
		for _, m := range e2.Out {
			if m.RoundNumber > 0 {
				cs.BySender[E] = append(cs.BySender[E], m)
			}
		}
		for _, id := range sp.IDs {
			r, e := resultOf(s.Nodes[id])
			fp := resultFP(r) + e
			if old, ok := cs.RefFP[id]; ok && old != fp {
				cs.Notes = append(cs.Notes, fmt.Sprintf("the undisturbed result of %s is not reproducible for seed %d", id, seed))
			}
			cs.RefFP[id] = fp
		}
	}
	return cs
}

// conflictsFor: the conflicting duplicates of the genuine message v1 as received by `to`: the second instance's message of the
// same sender / round / kind meant for `to` (if it differs), and v1 re-encoded.
func (cs *conflictSet) conflictsFor(v1 *protocol.Message, to party.ID) (out []*protocol.Message, tags []string) {
	if v1 == nil || v1.RoundNumber == 0 {
		return nil, nil
	}
	// (the re-encodings first, the second instance's message last: a handler that wrongly lets a later version replace an earlier
	// one then ends up with content that differs from the genuine message)
	for _, variant := range []string{"long-header", "extra-field"} {
		if alt := cborReencode(v1.Data, variant); alt != nil && cborSameContent(v1.Data, alt) {
			m := *v1
			m.Data = alt
			out, tags = append(out, &m), append(tags, "/conflict-"+variant)
		}
	}
	if cs != nil {
		for _, m := range cs.BySender[v1.From] {
			if m.RoundNumber == v1.RoundNumber && m.Broadcast == v1.Broadcast && m.IsFor(to) && m.To == v1.To && !bytes.Equal(m.Data, v1.Data) {
				out, tags = append(out, m), append(tags, "/conflict-fork")
			}
		}
	}
	return out, tags
}

// conflictQuiet delivers a conflicting duplicate to node `to` of s and reports whether anything visible changed.
func conflictQuiet(s *Sim, to party.ID, m *protocol.Message, tag string) (bad string) {
	n := s.Nodes[to]
	before := stateFP(n)
	o := s.Deliver(&Env{Msg: m, To: to, Valid: true, Tag: tag})
	after := stateFP(n)
	if before != after || len(o.NewOut) > 0 || o.Panic != "" || o.Hung {
		return fmt.Sprintf("a second, different round-%d message of %s (%s) delivered to %s after the first one: state changed=%v, emitted=%d, panic=%q, blocked=%v (handler now: round %d, error %q)",
			m.RoundNumber, m.From, tag[1:], to, before != after, len(o.NewOut), o.Panic, o.Hung, o.Round, o.ErrText)
	}
	return ""
}

// c07Conflict: the session under a delivery policy; after every genuine delivery of a message v1 to X every conflicting duplicate of
// v1 is delivered to X (round still to come or open), again once X has left that round, and again after the end.
func (c *ctx) c07Conflict(sp SessionSpec, seed int64, polName string, pol func(*Sim) Policy, cs *conflictSet, ref map[party.ID]string, sh shapeInfo) {
	det := installDetReader(seed, 0)
	defer restoreRandReader()
	s := sp.build(rand.New(rand.NewSource(seed)), det)
	var order []string
	p := pol(s)
	type pend struct {
		m     *protocol.Message
		to    party.ID
		tag   string
		round int
	}
	var later []pend
	bad := ""
	counts := map[string]int{}
	inject := func(m *protocol.Message, to party.ID, tag string) {
		e := &Env{Msg: m, To: to, Valid: true, Tag: tag}
		order = append(order, envName(e))
		counts[tag]++
		if b := conflictQuiet(s, to, m, tag); b != "" && bad == "" {
			bad = b
		}
	}
	roundOf := func(id party.ID) (int, bool) {
		n := s.Nodes[id]
		o := n.Obs[len(n.Obs)-1]
		return o.Round, o.Class != 0
	}
	flush := func(all bool) {
		var keep []pend
		for _, x := range later {
			r, ended := roundOf(x.to)
			if all || ended || r > x.round {
				inject(x.m, x.to, x.tag+"/closed")
			} else {
				keep = append(keep, x)
			}
		}
		later = keep
	}
	for k := 0; len(s.Flight) > 0 && k < 5000; k++ {
		i, keep := p(s)
		var e *Env
		if keep {
			e = s.Flight[i]
		} else {
			e = s.take(i)
		}
		order = append(order, envName(e))
		s.Deliver(e)
		if e.Tag == "" && e.Msg.RoundNumber > 0 {
			ms, tags := cs.conflictsFor(e.Msg, e.To)
			for j, m := range ms {
				r, ended := roundOf(e.To)
				state := "/open"
				if ended || r > int(m.RoundNumber) {
					state = "/closed"
				} else if r < int(m.RoundNumber) {
					state = "/early"
				}
				inject(m, e.To, tags[j]+state)
				if state != "/closed" {
					later = append(later, pend{m, e.To, tags[j], int(m.RoundNumber)})
				}
			}
		}
		flush(false)
	}
	flush(true)
	res := map[party.ID]string{}
	for id, n := range s.Nodes {
		r, errText := resultOf(n)
		if errText != "" {
			res[id] = "ERR:" + errText
		} else {
			res[id] = resultFP(r)
		}
	}
	var cl []string
	for t, n := range counts {
		cl = append(cl, fmt.Sprintf("%s=%d", t, n))
	}
	sort.Strings(cl)
	c.res.Sample(9, map[string]interface{}{"spec": sp.Name, "schedule": "conflict-" + polName, "conflicting_duplicates": cl})
	if bad != "" {
		c.res.Violate("property", "C07/"+sp.Name+"/conflict-"+polName+"/not-ignored", bad,
			schedReplay{Spec: sp.Name, Seed: seed, Policy: "conflict-" + polName, Order: order, Expected: resString(ref), Observed: resString(res)})
	}
	c.checkRun(sp, seed, "conflict-"+polName, s, order, res, ref, sh)
}
