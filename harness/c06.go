package main

// C06 -- equivocation on a broadcast round cannot split honest parties.
// Two-faced party E = two honest instances of E sharing their randomness up to round k-1 and diverging when they
// produce their round-k messages; instance 1 talks to honest group G1, instance 2 to G2; both receive all honest messages.
// Oracle: no two honest parties from different groups both complete; completers hold byte-identical views of every
// non-final broadcast round. Also checks the mechanism itself: equal view digests <=> equal views (across all handlers).

import (
	"bytes"
	"fmt"
	"math/rand"
	"sort"
	"strings"

	"github.com/taurusgroup/multi-party-sig/pkg/party"
	"github.com/taurusgroup/multi-party-sig/protocols/frost"
)

func init() { props["C06"] = runC06 }

type c06Replay struct {
	Spec     string   `json:"spec"`
	Seed     int64    `json:"seed"`
	Cheater  string   `json:"equivocator"`
	Round    int      `json:"equivocation_round"`
	G1       []string `json:"group1"`
	G2       []string `json:"group2"`
	Policy   string   `json:"policy"`
	Finished []string `json:"finished"`
	What     string   `json:"what"`
}

// buildTwoFaced creates the sim with two instances of E.
func buildTwoFaced(sp SessionSpec, seed int64, E party.ID, g1 map[party.ID]bool, k int) (*Sim, *detReader) {
	det := installDetReader(seed, 0)
	s := NewSim(sp.IDs, rand.New(rand.NewSource(seed)), det)
	e2 := party.ID(string(E) + "#2")
	det.alias[string(e2)] = string(E)
	if k <= 2 {
		// the round-2 messages are produced at construction: instance 2 differs from the start
		det.alias[string(e2)] = string(E) + "-forked"
	}
	for _, id := range s.IDs {
		s.AddMulti(id, sp.Start(id), sp.SessionID)
	}
	s.AddMultiAs(e2, E, sp.Start(E), sp.SessionID)
	s.Route = func(from, to *Node) bool {
		if from.ID == E {
			// instance 1 -> group 1, instance 2 -> group 2
			if from.Label == E {
				return g1[to.ID]
			}
			return !g1[to.ID]
		}
		return true // honest messages reach everyone incl. both instances of E
	}
	s.Seal()
	return s, det
}

// forkWhen switches instance 2's random stream once it is in round k-1 (it then produces different round-k messages)
func forkIfDue(s *Sim, det *detReader, E party.ID, k int) {
	e2 := party.ID(string(E) + "#2")
	n := s.Nodes[e2]
	if n == nil || len(n.Obs) == 0 {
		return
	}
	if n.Obs[len(n.Obs)-1].Round >= k-1 {
		det.mu.Lock()
		if det.alias[string(e2)] == string(E) {
			det.alias[string(e2)] = string(E) + "-forked"
			if st := det.streams[string(e2)]; st != nil {
				delete(det.streams, string(e2))
			}
		}
		det.mu.Unlock()
	}
}

func viewsOf(n *Node) map[int]map[party.ID][]byte {
	out := map[int]map[party.ID][]byte{}
	if n.MH == nil {
		return out
	}
	st := n.MH.VerifState()
	for r, q := range st.Broadcasts {
		out[int(r)] = map[party.ID][]byte{}
		for id, m := range q {
			out[int(r)][id] = m.Hash()
		}
	}
	return out
}

func (c *ctx) c06Run(sp SessionSpec, seed int64, E party.ID, g1 map[party.ID]bool, k int, final int, bcast map[int]bool, polName string) {
	s, det := buildTwoFaced(sp, seed, E, g1, k)
	defer restoreRandReader()
	if k == 2 {
		// first message round: instance 2 must differ from the start -> rebuild it with a forked stream
		forkIfDue(s, det, E, 2)
	}
	var pol Policy
	switch polName {
	case "lifo":
		pol = policyLIFO()
	case "random":
		pol = policyRandom(0.1)
	default:
		pol = func(*Sim) (int, bool) { return 0, false }
	}
	for steps := 0; len(s.Flight) > 0 && steps < 20000; steps++ {
		forkIfDue(s, det, E, k)
		i, keep := pol(s)
		var e *Env
		if keep {
			e = s.Flight[i]
		} else {
			e = s.take(i)
		}
		s.Deliver(e)
	}
	var G1, G2, fin []string
	finished := map[party.ID]bool{}
	for _, id := range s.IDs {
		if id == E {
			continue
		}
		if g1[id] {
			G1 = append(G1, string(id))
		} else {
			G2 = append(G2, string(id))
		}
		r, _ := resultOf(s.Nodes[id])
		if r != nil {
			finished[id] = true
			fin = append(fin, string(id))
		}
	}
	rp := c06Replay{Spec: sp.Name, Seed: seed, Cheater: string(E), Round: k, G1: G1, G2: G2, Policy: polName, Finished: fin}
	key := fmt.Sprintf("C06/%s/round%d", sp.Name, k)
	// did the two instances really send different round-k broadcasts?
	var b1, b2 []byte
	for _, m := range s.Nodes[E].Out {
		if m.Broadcast && int(m.RoundNumber) == k {
			b1 = m.Data
		}
	}
	for _, m := range s.Nodes[party.ID(string(E)+"#2")].Out {
		if m.Broadcast && int(m.RoundNumber) == k {
			b2 = m.Data
		}
	}
	equivocated := b1 != nil && b2 != nil && !bytes.Equal(b1, b2)
	c.res.Case(fmt.Sprintf("%s/round%d/equivocated=%v", sp.Name, k, equivocated), fmt.Sprintf("%s/%s/%d/%v/%s/%d", sp.Name, E, k, G1, polName, seed), equivocated)
	c.res.Sample(3, rp)
	if !equivocated {
		return
	}
	// oracle 1: no cross-group pair of completers
	for _, a := range G1 {
		for _, b := range G2 {
			if finished[party.ID(a)] && finished[party.ID(b)] {
				rp.What = fmt.Sprintf("honest %s and %s received different round-%d broadcasts from %s and both completed", a, b, k, E)
				c.res.Violate("property", key+"/split", rp.What, rp)
			}
		}
	}
	// oracle 2: completers hold identical views of every non-final broadcast round
	var views []map[int]map[party.ID][]byte
	var who []string
	for id := range finished {
		views = append(views, viewsOf(s.Nodes[id]))
		who = append(who, string(id))
	}
	for i := 1; i < len(views); i++ {
		for r := 2; r < final; r++ {
			if !bcast[r] {
				continue
			}
			for id, h := range views[0][r] {
				if !bytes.Equal(views[i][r][id], h) {
					rp.What = fmt.Sprintf("completers %s and %s hold different round-%d broadcasts of %s", who[0], who[i], r, id)
					c.res.Violate("property", key+"/views-differ", rp.What, rp)
				}
			}
		}
	}
	// mechanism: equal digests <=> equal views, over all handlers (honest and both instances)
	type vd struct {
		view, digest string
		who          string
	}
	byRound := map[int][]vd{}
	for lbl, n := range s.Nodes {
		if n.MH == nil {
			continue
		}
		st := n.MH.VerifState()
		for r, d := range st.Hashes {
			q := st.Broadcasts[r]
			var ks []string
			for id := range q {
				ks = append(ks, string(id))
			}
			sort.Strings(ks)
			var sb strings.Builder
			for _, id := range ks {
				fmt.Fprintf(&sb, "%s:%x;", id, q[party.ID(id)].Hash())
			}
			byRound[int(r)] = append(byRound[int(r)], vd{sb.String(), string(d), string(lbl)})
		}
	}
	for r, l := range byRound {
		for i := range l {
			for j := i + 1; j < len(l); j++ {
				c.res.Corr((l[i].view == l[j].view) == (l[i].digest == l[j].digest))
				if (l[i].view == l[j].view) != (l[i].digest == l[j].digest) {
					rp.What = fmt.Sprintf("round %d: %s and %s have views equal=%v but view digests equal=%v", r, l[i].who, l[j].who, l[i].view == l[j].view, l[i].digest == l[j].digest)
					c.res.Violate("property", key+"/view-digest-not-injective", rp.What, rp)
				}
			}
		}
	}
}

func runC06(c *ctx) {
	c.res.Rule = "two-faced party (two honest instances diverging at round k) for every broadcast round k followed by a further round, every equivocator, every 2-partition of the honest parties (n=3,4), " +
		"FIFO/LIFO/random schedules; FROST keygen, FROST sign (CMP sign in the thorough tier); non-trivial = the two instances really sent different round-k broadcasts"
	type proto struct {
		sp    SessionSpec
		final int
	}
	var protos []SessionSpec
	for _, n := range []int{3, 4} {
		ids := idsOf("alice", "bob", "carl", "dave")[:n]
		protos = append(protos, specFrostKeygen(ids, 1, false, []byte("c06")))
	}
	// FROST sign needs key material
	{
		ids := idsOf("alice", "bob", "carl")
		det := installDetReader(77, 0)
		kg := specFrostKeygen(ids, 1, false, []byte("kg")).build(rand.New(rand.NewSource(1)), det)
		kg.RunFIFO(10000)
		restoreRandReader()
		cfgs := map[party.ID]*frost.Config{}
		for id, n := range kg.Nodes {
			if r, _ := resultOf(n); r != nil {
				cfgs[id] = r.(*frost.Config)
			}
		}
		if len(cfgs) == 3 {
			protos = append(protos, specFrostSign(cfgs, ids, []byte("msg"), []byte("c06s")))
		}
	}
	{
		usePrimeCache()
		ids := idsOf("alice", "bob", "carl")
		kg := specCMPKeygen(ids, 1, []byte("kgc")).build(rand.New(rand.NewSource(1)), nil)
		kg.RunFIFO(100000)
		if cfgs, err := cmpConfigsOf(kg); err == nil {
			protos = append(protos, specCMPSign(cfgs, ids, bytes.Repeat([]byte{3}, 32), []byte("c06c")))
		}
	}
	pols := []string{"fifo", "lifo", "random"}
	for _, sp := range protos {
		// learn shape from an honest run
		det := installDetReader(5, 0)
		ref := sp.build(rand.New(rand.NewSource(5)), det)
		ref.RunFIFO(100000)
		restoreRandReader()
		sh := ref.learnShape()
		for k := 2; k < sh.Final; k++ {
			if !sh.Bcast[k] {
				continue
			}
			if !c.thorough() && strings.HasPrefix(sp.Name, "cmp") && k > 2 {
				continue // later CMP sign broadcasts are functions of round-1 randomness: the two instances cannot differ there (thorough tier records that)
			}
			for ei, E := range party.NewIDSlice(sp.IDs) {
				if !c.thorough() && strings.HasPrefix(sp.Name, "cmp") && ei != (k % len(sp.IDs)) {
					continue // quick tier: one equivocator position per round for the (slow) CMP sessions
				}
				var honest []party.ID
				for _, id := range party.NewIDSlice(sp.IDs) {
					if id != E {
						honest = append(honest, id)
					}
				}
				// all 2-partitions with both groups non-empty
				for mask := 1; mask < (1<<len(honest))-1; mask++ {
					if mask&1 == 0 {
						continue // symmetric partitions once
					}
					g1 := map[party.ID]bool{}
					for i, id := range honest {
						if mask&(1<<i) != 0 {
							g1[id] = true
						}
					}
					for pi, pn := range pols {
						if !c.thorough() && pi > 0 && ((mask+k)%2 == 0 || strings.HasPrefix(sp.Name, "cmp")) {
							continue
						}
						c.c06Run(sp, c.res.Seed*977+int64(mask*31+k*7+pi), E, g1, k, sh.Final, sh.Bcast, pn)
					}
				}
			}
		}
	}
}
