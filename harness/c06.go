package main

// C06 -- equivocation on a broadcast round cannot split honest parties.
// Two-faced party E = two honest instances of E sharing their randomness up to round k-1 and diverging when they
// produce their round-k messages; instance 1 talks to honest group G1, instance 2 to G2; both receive all honest messages.
// Oracle: no two honest parties from different groups both complete; completers hold byte-identical views of every
// non-final broadcast round. Also checks the mechanism itself: equal view digests <=> equal views (across all handlers).
// A second mode (c06_modes.go, "reencode") covers the rounds in which two honest instances cannot differ.
// A third mode (c06_resend.go, "resend"): version 1 of the round-k broadcast goes to everybody, then version 2 to group 2 while
// it is still in round k, then the second instance's later messages with the echo digest each recipient expects.
// Every case is executed by c06Exec (no access to the shared result) and reported by c06Report, so that the slow CMP
// cases can run on several goroutines: each has its own deterministic reader (muxReader), its own copy of the key material
// restored from bytes and sessions without a worker pool.

import (
	"bytes"
	"fmt"
	"math/rand"
	"os"
	"sort"
	"strings"
	"sync"
	"time"

	"github.com/taurusgroup/multi-party-sig/pkg/party"
	"github.com/taurusgroup/multi-party-sig/protocols/frost"
)

func init() { props["C06"] = runC06 }

type c06Replay struct {
	Spec     string   `json:"spec"`
	Seed     int64    `json:"seed"`
	Cheater  string   `json:"equivocator"`
	Round    int      `json:"equivocation_round"`
	G1       []string `json:"group1"`
	G2       []string `json:"group2"`
	Policy   string   `json:"policy"`
	Finished []string `json:"finished"`
	What     string   `json:"what"`
	// Mode: "fork" (two honest instances of the equivocator diverging at the round, the default), "reencode"
	// (one instance; group 2 gets the same content in another, equally decodable CBOR encoding: see c06_modes.go) or "resend"
	// (group 2 gets version 1 and then, still in the round, version 2; afterwards the second instance's messages: c06_resend.go)
	Mode     string `json:"mode,omitempty"`
	Variant  string `json:"variant,omitempty"`
	Adaptive bool   `json:"adaptive,omitempty"`
	// Wire: delivery mode (pump.go Sim.Wire): every envelope is encoded with Message.MarshalBinary and decoded with
	// UnmarshalBinary into a fresh Message before Accept, as a real transport does; false = the Message object is handed over
	Wire bool `json:"wire,omitempty"`
}

// c06Det: the deterministic reader of one run. mux = the run executes in parallel with others (pump.go muxReader); otherwise
// the reader is installed as the process's crypto/rand.Reader.
func c06Det(seed int64, mux bool) *detReader {
	if mux {
		return newMuxDetReader(seed)
	}
	return installDetReader(seed, 0)
}

// buildTwoFaced creates the sim with two instances of E.
func buildTwoFaced(sp SessionSpec, seed int64, E party.ID, g1 map[party.ID]bool, k int, det *detReader) (*Sim, *detReader) {
	s := NewSim(sp.IDs, rand.New(rand.NewSource(seed)), det)
	e2 := party.ID(string(E) + "#2")
	det.alias[string(e2)] = string(E)
	if k <= 2 {
		// the round-2 messages are produced at construction: instance 2 differs from the start
		det.alias[string(e2)] = string(E) + "-forked"
	}
	for _, id := range s.IDs {
		s.AddMulti(id, sp.Start(id), sp.SessionID)
	}
	s.AddMultiAs(e2, E, sp.Start(E), sp.SessionID)
	s.Route = func(from, to *Node) bool {
		if from.ID == E {
			// instance 1 -> group 1, instance 2 -> group 2
			if from.Label == E {
				return g1[to.ID]
			}
			return !g1[to.ID]
		}
		return true // honest messages reach everyone incl. both instances of E
	}
	s.Seal()
	return s, det
}

// forkWhen switches instance 2's random stream once it is in round k-1 (it then produces different round-k messages)
func forkIfDue(s *Sim, det *detReader, E party.ID, k int) {
	e2 := party.ID(string(E) + "#2")
	n := s.Nodes[e2]
	if n == nil || len(n.Obs) == 0 {
		return
	}
	if n.Obs[len(n.Obs)-1].Round >= k-1 {
		det.mu.Lock()
		if det.alias[string(e2)] == string(E) {
			det.alias[string(e2)] = string(E) + "-forked"
			if st := det.streams[string(e2)]; st != nil {
				delete(det.streams, string(e2))
			}
		}
		det.mu.Unlock()
	}
}

func viewsOf(n *Node) map[int]map[party.ID][]byte {
	out := map[int]map[party.ID][]byte{}
	if n.MH == nil {
		return out
	}
	st := n.MH.VerifState()
	for r, q := range st.Broadcasts {
		out[int(r)] = map[party.ID][]byte{}
		for id, m := range q {
			out[int(r)][id] = m.Hash()
		}
	}
	return out
}

// c06Mode selects how the equivocator produces two versions of its round-k broadcast.
type c06Mode struct {
	Name     string // "fork" | "reencode" | "resend"
	Variant  string // reencode: "long-header" | "extra-field"
	Adaptive bool   // reencode: round-(k+1) messages to group 2 carry the recipient's own view digest
}

func (m c06Mode) String() string {
	if m.Name == "resend" || m.Name == "directed" || m.Name == "directed-same" {
		return m.Name
	}
	if m.Name != "reencode" {
		return "fork"
	}
	s := "reencode:" + m.Variant
	if m.Adaptive {
		s += ":adaptive"
	}
	return s
}

// c06Job is one case; c06Out what its execution found.
type c06Job struct {
	sp    SessionSpec
	seed  int64
	E     party.ID
	g1    map[party.ID]bool
	k     int
	last  int // number of the last message round of an honest run
	bcast map[int]bool
	pol   string
	mode  c06Mode
	mux   bool
	sh    shapeInfo // round table of the session (reference run): the system model runs on it (pump_sys.go)
	wire  bool      // delivery through the wire format (Sim.Wire)
}

type c06Viol struct {
	key, what string
	rp        c06Replay
}

type c06Out struct {
	class, fp   string
	equivocated bool
	rp          c06Replay
	viols       []c06Viol
	corr        []bool
	notes       []string
	secs        float64
	sys         *sysCase // the whole session prepared for the system model (sys.run), compared by c06Report
	sysE        int      // index of the equivocator
	sysKey      string
	dsum        string // directed modes: what the honest parties ended with (aggregated into one note)
}

func (c *ctx) c06Report(o *c06Out) {
	c.res.Case(o.class, o.fp, o.equivocated)
	c.res.Sample(3, o.rp)
	for _, n := range o.notes {
		c.res.Note("%s", n)
	}
	for _, ok := range o.corr {
		c.res.Corr(ok)
	}
	for _, v := range o.viols {
		c.res.Violate("property", v.key, v.what, v.rp)
	}
	if o.dsum != "" {
		c06DirectedSum[o.dsum]++
	}
	c.c06System(o)
}

// c06DirectedSum: outcome of the honest parties in the directed runs -> number of runs (one note at the end)
var c06DirectedSum = map[string]int{}

// c06Sys: counters of the system-level comparison for the run's notes
var c06Sys = sysStats{skips: map[string]int{}}

// c06SysReplay: the case plus the system-level event list and the schedule the model resolved it to
type c06SysReplay struct {
	c06Replay
	Events   []string `json:"system_events,omitempty"`
	Resolved string   `json:"resolved_schedule,omitempty"`
	Model    string   `json:"model,omitempty"`
	Real     string   `json:"implementation,omitempty"`
}

// c06System: the whole session in the system model (Model/System.v through sys.run). The n handlers of the session are the
// system; the second instance of the two-faced party, re-encoded and re-sent messages are injections naming the equivocator.
// Compared: after every event the recipient's round and result class, every party's final observation (round, result class,
// culprits, error kind, emitted headers, view digests, stored broadcasts and p2p messages), who completed, which completers hold
// equal views. Read off the reply: the view-digest table is injective; the C06 theorem (C06_sys_no_split_pairs); and, against the
// real results: completers other than the equivocator that hold equal views of every protected round have equal public results.
func (c *ctx) c06System(o *c06Out) {
	if o.sys == nil {
		return
	}
	out, err := c.RunSysCase(o.sys)
	rp := func(what, model, real string) c06SysReplay {
		r := c06SysReplay{c06Replay: o.rp, Events: out.Events, Resolved: out.Resolved, Model: model, Real: real}
		r.What = what
		return r
	}
	if err != nil {
		c.res.Corr(false)
		c.res.Violate("correspondence", "C06/system-model-error", err.Error(), rp(err.Error(), "", ""))
		return
	}
	if out.Skip != "" {
		c06Sys.skipped++
		c06Sys.skips[out.Skip]++
		return
	}
	c06Sys.compared++
	c06Sys.injects += out.injects
	c06Sys.invalids += out.invalids
	c.res.Corr(out.Mismatch == "")
	if out.Mismatch != "" {
		c.res.Violate("correspondence", "C06/system-model/"+o.sysKey, "whole session in the system model (sys.run): "+out.Mismatch, rp(out.Mismatch, out.Model, out.Real))
		return
	}
	f := out.Facts
	if !f.VHInj {
		what := "two different broadcast views of a round have the same view digest (table of the digests the handlers computed, keyed by message content): the echo cannot tell them apart"
		c.res.Violate("property", "C06/"+o.sysKey+"/sys-view-digest-collision", what, rp(what, "", ""))
	}
	authentic := intsIn(f.Authentic, o.sysE) || out.injects == 0
	if !authentic {
		c.res.Corr(false)
		what := fmt.Sprintf("a message that no party of the system sent names a party other than the equivocator %d as its sender (authentic for %v)", o.sysE, f.Authentic)
		c.res.Violate("correspondence", "C06/system-model/"+o.sysKey+"/not-authentic", what, rp(what, "", ""))
		return
	}
	hyp := f.StopFree && f.WF && f.VHInj
	if hyp {
		c06Sys.hypC06++
	}
	if !f.WF {
		c06Sys.notWF++
		c06Sys.skips["(compared, shape not well-formed) "+o.rp.Spec+" "+o.sys.Arg.L[3].String()]++
	}
	if !f.Complete {
		c06Sys.incomplete++
	}
	for ab, pq := range f.Pairs {
		if ab[0] == o.sysE || ab[1] == o.sysE {
			continue
		}
		if hyp {
			c06Sys.honestPairs++
		}
		if hyp && !pq[0] {
			// excluded by C06_sys_no_split_pairs
			c.res.Corr(false)
			what := fmt.Sprintf("the reply contradicts the theorem: completers %d and %d hold different views of a protected round", ab[0], ab[1])
			c.res.Violate("correspondence", "C06/system-model/"+o.sysKey+"/theorem", what, rp(what, "", ""))
		}
		if !pq[0] {
			what := fmt.Sprintf("honest parties %d and %d both completed with different views of a protected broadcast round", ab[0], ab[1])
			c.res.Violate("property", "C06/"+o.sysKey+"/sys-split", what, rp(what, "", ""))
		}
		if pq[0] && o.sys.Results[ab[0]] != o.sys.Results[ab[1]] {
			what := fmt.Sprintf("honest parties %d and %d completed holding identical views of every protected broadcast round, but with different public results: what the round code consumed is not what the handler stored", ab[0], ab[1])
			c.res.Violate("property", "C06/"+o.sysKey+"/sys-equal-views-different-results", what, rp(what, o.sys.Results[ab[0]], o.sys.Results[ab[1]]))
		}
	}
}

// c06Exec runs one case.
func c06Exec(j c06Job) *c06Out {
	sp, seed, E, g1, k, last, mode := j.sp, j.seed, j.E, j.g1, j.k, j.last, j.mode
	o := &c06Out{}
	t0 := time.Now()
	defer func() { o.secs = time.Since(t0).Seconds() }()
	det := c06Det(seed, j.mux)
	if j.mux {
		defer muxEnter(det)()
	} else {
		defer restoreRandReader()
	}
	var s *Sim
	var re *reencState
	var rs *resendState
	var ds *directedState
	if mode.Name == "directed" || mode.Name == "directed-same" {
		s, ds = buildDirected(sp, seed, E, g1, k, j.bcast, mode.Name == "directed-same", det)
	} else if mode.Name == "reencode" {
		s, re = buildReencoded(sp, seed, E, g1, k, mode.Variant, det)
	} else if mode.Name == "resend" {
		s, rs = buildResend(sp, seed, E, g1, k, j.bcast, det)
	} else {
		s, _ = buildTwoFaced(sp, seed, E, g1, k, det)
	}
	s.Wire = j.wire
	twoInst := mode.Name != "reencode" && mode.Name != "directed-same"
	if twoInst && k == 2 {
		// first message round: instance 2 must differ from the start -> rebuild it with a forked stream
		forkIfDue(s, det, E, 2)
	}
	var pol Policy
	switch j.pol {
	case "lifo":
		pol = policyLIFO()
	case "random":
		pol = policyRandom(0.1)
	default:
		pol = func(*Sim) (int, bool) { return 0, false }
	}
	for steps := 0; len(s.Flight) > 0 && steps < 20000; steps++ {
		if twoInst {
			forkIfDue(s, det, E, k)
		}
		i, keep := pol(s)
		if mode.Adaptive {
			i = adaptivePick(s, i, E, g1, k)
		}
		if rs != nil {
			i, keep = rs.pick(s, i), false
		}
		if ds != nil {
			i, keep = ds.pick(s, i), false
		}
		var e *Env
		if keep {
			e = s.Flight[i]
		} else {
			e = s.take(i)
		}
		if mode.Adaptive {
			adaptivePatch(s, e, E, g1, k)
		}
		if rs != nil {
			rs.patch(s, e)
		}
		if ds != nil {
			ds.patch(s, e)
		}
		s.Deliver(e)
		if rs != nil {
			rs.delivered(s, e)
		}
		if ds != nil {
			ds.delivered(s, e)
		}
	}
	// the whole session for the system model (compared by c06Report)
	o.sys, o.sysE = s.SysCase(j.sh, true), s.idx(E)
	if ds != nil && ds.toSys > 0 {
		// honest parties' messages to the equivocator's own handler were altered (its own digest): the equivocator is not a party of
		// the system model then (there every message is sent by a party or is an injection naming the equivocator); direct oracles only
		o.sys = nil
	}
	o.sysKey = fmt.Sprintf("%s/round%d/%s", sp.Name, k, mode.Name)
	if mode.Name == "" {
		o.sysKey = fmt.Sprintf("%s/round%d/fork", sp.Name, k)
	}
	if j.wire {
		o.sysKey += "/wire"
	}
	for i, id := range s.IDs {
		if r, _ := resultOf(s.Nodes[id]); r != nil && o.sys != nil {
			o.sys.Results[i] = c06PublicFP(r)
		}
	}
	var G1, G2, fin []string
	finished := map[party.ID]bool{}
	for _, id := range s.IDs {
		if id == E {
			continue
		}
		if g1[id] {
			G1 = append(G1, string(id))
		} else {
			G2 = append(G2, string(id))
		}
		r, _ := resultOf(s.Nodes[id])
		if r != nil {
			finished[id] = true
			fin = append(fin, string(id))
		}
	}
	rp := c06Replay{Spec: sp.Name, Seed: seed, Cheater: string(E), Round: k, G1: G1, G2: G2, Policy: j.pol, Finished: fin, Mode: "fork"}
	if rs != nil {
		rp.Mode = "resend"
	}
	if ds != nil {
		rp.Mode = mode.Name
	}
	key := fmt.Sprintf("C06/%s/round%d", sp.Name, k)
	class := fmt.Sprintf("%s/round%d", sp.Name, k)
	if j.wire {
		// the same case with every envelope crossing Message.MarshalBinary / UnmarshalBinary (oracles unchanged)
		rp.Wire = true
		key += "/wire"
		class += "/wire"
		if s.WireFail > 0 {
			o.notes = append(o.notes, fmt.Sprintf("C06 %s round %d %s wire delivery: %d envelopes did not cross the wire format and were handed over in memory: %v", sp.Name, k, mode, s.WireFail, s.Trace))
		}
	}
	// did the two groups really receive different, individually valid round-k broadcasts?
	var b1, b2 []byte
	equivocated := false
	if mode.Name == "reencode" {
		rp.Mode, rp.Variant, rp.Adaptive = "reencode", mode.Variant, mode.Adaptive
		key += "/reencoded"
		class += "/" + mode.String()
		b1, b2 = re.orig, re.alt
		// individually valid: the same content (decoded generically), and no member of group 2 found fault with E's messages
		equivocated = b1 != nil && b2 != nil && !bytes.Equal(b1, b2) && cborSameContent(b1, b2)
		for _, id := range G2 {
			gst := s.Nodes[party.ID(id)].MH.VerifState()
			for _, cu := range gst.Culprits {
				// (an abort relayed by E, or a view mismatch, is not a verdict on the payload)
				if cu == E && errKindOf(gst.ErrText) == 2 {
					equivocated = false
					o.notes = append(o.notes, fmt.Sprintf("C06 %s round %d %s: %s rejected the re-encoded broadcast of %s (%s)", sp.Name, k, mode, id, E, gst.ErrText))
				}
			}
		}
	} else if ds != nil && ds.same {
		// control: one instance, identical payloads, every copy addressed to its recipient
		key += "/directed-same"
		class += "/directed-same"
		equivocated = len(G1)+len(G2) > 0
		for _, id := range append(append([]string{}, G1...), G2...) {
			if ds.got[party.ID(id)] == 0 {
				equivocated = false // the directed copy is not what this party holds as E's round-k broadcast
			}
		}
	} else {
		for _, m := range s.Nodes[E].Out {
			if m.Broadcast && int(m.RoundNumber) == k {
				b1 = m.Data
			}
		}
		e2 := s.Nodes[party.ID(string(E)+"#2")]
		for _, m := range e2.Out {
			if m.Broadcast && int(m.RoundNumber) == k {
				b2 = m.Data
			}
		}
		equivocated = b1 != nil && b2 != nil && !bytes.Equal(b1, b2)
		// for k > 2 the instances must have been in lockstep before: identical messages in every earlier round
		if k > 2 {
			sig := func(n *Node) string {
				var sb strings.Builder
				for _, m := range n.Out {
					if int(m.RoundNumber) < k && m.RoundNumber > 0 {
						fmt.Fprintf(&sb, "%d/%s/%v/%x;", m.RoundNumber, m.To, m.Broadcast, m.Hash())
					}
				}
				return sb.String()
			}
			if sig(s.Nodes[E]) != sig(e2) {
				class += "/lockstep-lost"
				equivocated = false
			}
		}
		if ds != nil {
			key += "/directed"
			class += "/directed"
			for _, id := range append(append([]string{}, G1...), G2...) {
				if ds.got[party.ID(id)] == 0 {
					equivocated = false
				}
			}
		}
		if rs != nil {
			key += "/resend"
			class += "/resend"
			// the case bites only if every member of group 2 was given version 2 after version 1 while it was in round k
			for _, id := range G2 {
				if !rs.open[party.ID(id)] {
					equivocated = false
				}
			}
			if len(G2) > 0 && !equivocated && b1 != nil && b2 != nil && !bytes.Equal(b1, b2) {
				class += "/not-in-round"
				o.notes = append(o.notes, fmt.Sprintf("C06 %s round %d resend (%s, %s, group 2 %v): version 2 did not reach every member of group 2 in round %d after version 1 (v1 %v, v2 %v, open %v)", sp.Name, k, E, j.pol, G2, k, rs.v1At, rs.v2At, rs.open))
			}
		}
	}
	if ds != nil {
		errs := map[string]bool{}
		for _, id := range append(append([]string{}, G1...), G2...) {
			if st := s.Nodes[party.ID(id)].MH.VerifState(); st.ErrText != "" {
				errs[fmt.Sprintf("%q culprits=%d", st.ErrText, len(st.Culprits))] = true
			}
		}
		var el []string
		for e := range errs {
			el = append(el, e)
		}
		sort.Strings(el)
		o.dsum = fmt.Sprintf("%s, copies held by every honest party=%v: %d of %d honest parties completed; their errors: %s", mode.Name, equivocated, len(fin), len(G1)+len(G2), strings.Join(el, "; "))
	}
	o.class = fmt.Sprintf("%s/equivocated=%v", class, equivocated)
	o.fp = fmt.Sprintf("%s/%s/%d/%v/%s/%d/%s", sp.Name, E, k, G1, j.pol, seed, mode)
	if j.wire {
		o.fp += "/wire"
	}
	o.equivocated, o.rp = equivocated, rp
	if !equivocated {
		return o
	}
	violate := func(k, what string) {
		r := rp
		r.What = what
		o.viols = append(o.viols, c06Viol{k, what, r})
	}
	// oracle 1: no cross-group pair of completers
	for _, a := range G1 {
		for _, b := range G2 {
			if finished[party.ID(a)] && finished[party.ID(b)] {
				if ds != nil && ds.same {
					// identical payloads: both may complete, with the same (public) result
					ra, _ := resultOf(s.Nodes[party.ID(a)])
					rb, _ := resultOf(s.Nodes[party.ID(b)])
					if fa, fb := c06PublicFP(ra), c06PublicFP(rb); fa != fb {
						violate(key+"/split", fmt.Sprintf("%s sent its round-%d broadcast as identical copies addressed to each recipient; honest %s and %s both completed, with different results", E, k, a, b))
					}
					continue
				}
				if rs != nil {
					// resend: group 2 holds version 1 as well; a split = both complete, but not with the same (public) result
					ra, _ := resultOf(s.Nodes[party.ID(a)])
					rb, _ := resultOf(s.Nodes[party.ID(b)])
					if fa, fb := c06PublicFP(ra), c06PublicFP(rb); fa != fb {
						violate(key+"/split", fmt.Sprintf("%s sent version 1 of its round-%d broadcast to everybody and then version 2 to %v; honest %s (group 1) and %s (group 2) both completed, with different results", E, k, G2, a, b))
					}
					continue
				}
				violate(key+"/split", fmt.Sprintf("honest %s and %s received different round-%d broadcasts from %s and both completed", a, b, k, E))
			}
		}
	}
	// oracle 2: completers hold identical views of every non-final broadcast round
	var views []map[int]map[party.ID][]byte
	for _, id := range fin {
		if ds != nil {
			views = append(views, viewsOfNoTo(s.Nodes[party.ID(id)]))
			continue
		}
		views = append(views, viewsOf(s.Nodes[party.ID(id)]))
	}
	for i := 1; i < len(views); i++ {
		for r := 2; r < last; r++ {
			if !j.bcast[r] {
				continue
			}
			var froms []string
			for id := range views[0][r] {
				froms = append(froms, string(id))
			}
			sort.Strings(froms)
			for _, id := range froms {
				if !bytes.Equal(views[i][r][party.ID(id)], views[0][r][party.ID(id)]) {
					violate(key+"/views-differ", fmt.Sprintf("completers %s and %s hold different round-%d broadcasts of %s", fin[0], fin[i], r, id))
				}
			}
		}
	}
	// mechanism: equal digests <=> equal views, over all handlers (honest and both instances)
	type vd struct {
		view, digest string
		who          string
	}
	byRound := map[int][]vd{}
	var labels []string
	for lbl := range s.Nodes {
		labels = append(labels, string(lbl))
	}
	sort.Strings(labels)
	for _, lbl := range labels {
		n := s.Nodes[party.ID(lbl)]
		if n.MH == nil {
			continue
		}
		st := n.MH.VerifState()
		for r, d := range st.Hashes {
			q := st.Broadcasts[r]
			var ks []string
			for id := range q {
				ks = append(ks, string(id))
			}
			sort.Strings(ks)
			var sb strings.Builder
			for _, id := range ks {
				fmt.Fprintf(&sb, "%s:%x;", id, q[party.ID(id)].Hash())
			}
			byRound[int(r)] = append(byRound[int(r)], vd{sb.String(), string(d), lbl})
		}
	}
	var rounds []int
	for r := range byRound {
		rounds = append(rounds, r)
	}
	sort.Ints(rounds)
	for _, r := range rounds {
		l := byRound[r]
		for i := range l {
			for j := i + 1; j < len(l); j++ {
				same := (l[i].view == l[j].view) == (l[i].digest == l[j].digest)
				o.corr = append(o.corr, same)
				if !same {
					violate(key+"/view-digest-not-injective", fmt.Sprintf("round %d: %s and %s have views equal=%v but view digests equal=%v", r, l[i].who, l[j].who, l[i].view == l[j].view, l[i].digest == l[j].digest))
				}
			}
		}
	}
	return o
}

// c06Last: the last message round of an honest run (for the offline presign this is 7 although round numbers go up to 8)
func c06Last(sh shapeInfo) int {
	last := 0
	for r := range sh.Bcast {
		if r > last {
			last = r
		}
	}
	return last
}

// c06Parallel executes the jobs on up to `workers` goroutines and returns the outcomes in job order.
func c06Parallel(jobs []c06Job, workers int) []*c06Out {
	outs := make([]*c06Out, len(jobs))
	var wg sync.WaitGroup
	sem := make(chan struct{}, workers)
	for i := range jobs {
		wg.Add(1)
		sem <- struct{}{}
		go func(i int) {
			defer wg.Done()
			defer func() { <-sem }()
			outs[i] = c06Exec(jobs[i])
		}(i)
	}
	wg.Wait()
	return outs
}

func runC06(c *ctx) {
	c.res.Rule = "three modes for every broadcast round k that is followed by a further round, every protocol family on the multi-party handler: " +
		"(fork) two-faced party = two honest instances diverging at round k; (reencode) one instance whose round-k broadcast reaches group 2 in another, equally decodable CBOR encoding " +
		"(plain, and adaptive: the equivocator echoes the recipient's own view digest); (resend) version 1 of the round-k broadcast to everybody, then version 2 to group 2 while it is in round k, then the second instance's " +
		"messages with the digest each recipient expects (no cross-group completers with different results); every equivocator and every 2-partition of the honest parties (n=3,4) for FROST keygen/sign with FIFO/LIFO/random schedules, " +
		"one equivocator/partition per round for CMP keygen, sign, presign (refresh, all positions and fork mode on every round in the thorough tier); two delivery modes: the Message object handed over in memory, and `wire` " +
		"(every envelope through Message.MarshalBinary, the bytes, UnmarshalBinary into a fresh Message, as a transport does: every FROST case, every CMP protocol and mode at least once; keys .../wire/...); non-trivial = the two groups really received different, individually valid round-k broadcasts"
	defer func() { c06Sys.note(c, "C06 runs (fork / reencode / resend / directed)") }()
	defer func() {
		var ks []string
		for k := range c06DirectedSum {
			ks = append(ks, k)
		}
		sort.Strings(ks)
		for _, k := range ks {
			c.res.Note("directed broadcast copies (Broadcast=true, To=recipient): %d runs: %s", c06DirectedSum[k], k)
		}
	}()
	var rpl *c06Replay
	if c.replay != "" {
		rpl = &c06Replay{}
		if err := readJSON(c.replay, rpl); err != nil || rpl.Spec == "" {
			c.res.Note("replay file not understood (%v): running everything", err)
			rpl = nil
		} else {
			c.res.Note("replay: only %s round %d equivocator %s mode %s", rpl.Spec, rpl.Round, rpl.Cheater, rpl.Mode)
		}
	}
	timing := os.Getenv("C06_TIMING") != ""
	pols := []string{"fifo", "lifo", "random"}
	reencModes := []c06Mode{{"reencode", "long-header", false}, {"reencode", "extra-field", true}, {"reencode", "long-header", true}, {"reencode", "extra-field", false}}
	// jobsFor lists the cases of one session type. mk returns the session (for CMP: on a private copy of the key material).
	jobsFor := func(mk func() SessionSpec, name string, ids []party.ID, sh shapeInfo, isCMP bool) (jobs []c06Job) {
		last := c06Last(sh)
		var ks []int
		for k := 2; k < last; k++ {
			if sh.Bcast[k] {
				ks = append(ks, k)
			}
		}
		c.res.Note("%s: broadcast rounds followed by a further round: %v (last message round %d)", name, ks, last)
		if rpl != nil {
			g1 := map[party.ID]bool{}
			for _, id := range rpl.G1 {
				g1[party.ID(id)] = true
			}
			mode := c06Mode{Name: "fork"}
			if rpl.Mode == "reencode" {
				mode = c06Mode{"reencode", rpl.Variant, rpl.Adaptive}
			} else if rpl.Mode == "resend" || rpl.Mode == "directed" || rpl.Mode == "directed-same" {
				mode = c06Mode{Name: rpl.Mode}
			}
			return []c06Job{{mk(), rpl.Seed, party.ID(rpl.Cheater), g1, rpl.Round, last, sh.Bcast, rpl.Policy, mode, isCMP, sh, rpl.Wire}}
		}
		for _, k := range ks {
			for ei, E := range party.NewIDSlice(ids) {
				if !c.thorough() && isCMP && ei != (k%len(ids)) {
					continue // quick tier: one equivocator position per round for the (slow) CMP sessions
				}
				var honest []party.ID
				for _, id := range party.NewIDSlice(ids) {
					if id != E {
						honest = append(honest, id)
					}
				}
				// all 2-partitions with both groups non-empty
				for mask := 1; mask < (1<<len(honest))-1; mask++ {
					if mask&1 == 0 {
						continue // symmetric partitions once
					}
					g1 := map[party.ID]bool{}
					for i, id := range honest {
						if mask&(1<<i) != 0 {
							g1[id] = true
						}
					}
					for pi, pn := range pols {
						if !c.thorough() && pi > 0 && ((mask+k)%2 == 0 || isCMP) {
							continue
						}
						if c.thorough() && isCMP && pi == 1 {
							continue // thorough tier, CMP: FIFO and random schedules
						}
						seed := c.res.Seed*977 + int64(mask*31+k*7+pi)
						// fork mode: in the quick tier only where the two instances can differ (CMP: see c06ForkRounds)
						forked := c.thorough() || !isCMP || c06ForkRounds(name)[k]
						if forked {
							jobs = append(jobs, c06Job{mk(), seed, E, g1, k, last, sh.Bcast, pn, c06Mode{Name: "fork"}, isCMP, sh, false})
							// resend mode: wherever two instances can differ (CMP: the rounds of c06ForkRounds, in both tiers)
							if !isCMP || c06ForkRounds(name)[k] {
								jobs = append(jobs, c06Job{mk(), seed, E, g1, k, last, sh.Bcast, pn, c06Mode{Name: "resend"}, isCMP, sh, false})
								// directed mode: per-recipient copies (To filled in) with different payloads (c06_directed.go)
								jobs = append(jobs, c06Job{mk(), seed, E, g1, k, last, sh.Bcast, pn, c06Mode{Name: "directed"}, isCMP, sh, false})
							}
						}
						// reencode mode: every round (quick tier, CMP: the rounds that fork mode does not cover); the variant rotates with the case
						nm := 1
						if c.thorough() {
							nm = len(reencModes)
						} else if isCMP && forked {
							nm = 0
						}
						// directed-same: per-recipient copies with identical payloads, every round (one schedule per partition in the quick tier)
						if c.thorough() || pi == 0 {
							jobs = append(jobs, c06Job{mk(), seed, E, g1, k, last, sh.Bcast, pn, c06Mode{Name: "directed-same"}, isCMP, sh, false})
						}
						for v := 0; v < nm; v++ {
							jobs = append(jobs, c06Job{mk(), seed, E, g1, k, last, sh.Bcast, pn, reencModes[(ei+mask+k+pi+v)%len(reencModes)], isCMP, sh, false})
						}
					}
				}
			}
		}
		// delivery mode "wire" (every envelope through MarshalBinary -> bytes -> UnmarshalBinary into a fresh Message): the same
		// cases again. FROST: every case. CMP (slow), thorough tier: every FIFO case again; quick tier: every mode in both delivery
		// modes for every protocol: a mode with a single case gets that case again, of a mode with several cases (other rounds /
		// equivocators) the last one is delivered through the wire format.
		var wired []c06Job
		again := func(j c06Job) {
			j.sp, j.wire = mk(), true
			wired = append(wired, j)
		}
		if isCMP && !c.thorough() {
			byMode := map[string][]int{}
			var order []string
			for i, j := range jobs {
				if byMode[j.mode.Name] == nil {
					order = append(order, j.mode.Name)
				}
				byMode[j.mode.Name] = append(byMode[j.mode.Name], i)
			}
			for _, m := range order {
				if l := byMode[m]; len(l) >= 2 {
					jobs[l[len(l)-1]].wire = true
				} else {
					again(jobs[l[0]])
				}
			}
		} else {
			for _, j := range jobs {
				if isCMP && j.pol != "fifo" {
					continue
				}
				again(j)
			}
		}
		return append(jobs, wired...)
	}
	report := func(outs []*c06Out) {
		for _, o := range outs {
			if timing {
				fmt.Fprintf(os.Stderr, "%-70s %.1fs\n", o.fp, o.secs)
			}
			c.c06Report(o)
		}
	}

	// ---- FROST: sequential, the deterministic reader is the process's crypto/rand.Reader ----
	var frostSpecs []SessionSpec
	for _, n := range []int{3, 4} {
		ids := idsOf("alice", "bob", "carl", "dave")[:n]
		frostSpecs = append(frostSpecs, specFrostKeygen(ids, 1, false, []byte("c06")))
	}
	{
		// FROST sign needs key material
		ids := idsOf("alice", "bob", "carl")
		det := installDetReader(77, 0)
		kg := specFrostKeygen(ids, 1, false, []byte("kg")).build(rand.New(rand.NewSource(1)), det)
		kg.RunFIFO(10000)
		restoreRandReader()
		cfgs := map[party.ID]*frost.Config{}
		for id, n := range kg.Nodes {
			if r, _ := resultOf(n); r != nil {
				cfgs[id] = r.(*frost.Config)
			}
		}
		if len(cfgs) == 3 {
			frostSpecs = append(frostSpecs, specFrostSign(cfgs, ids, []byte("msg"), []byte("c06s")))
		}
	}
	for _, sp := range frostSpecs {
		if rpl != nil && rpl.Spec != sp.Name {
			continue
		}
		sp := sp
		det := installDetReader(5, 0)
		ref := sp.build(rand.New(rand.NewSource(5)), det)
		ref.RunFIFO(100000)
		restoreRandReader()
		for _, j := range jobsFor(func() SessionSpec { return sp }, sp.Name, sp.IDs, ref.learnShape(), false) {
			report([]*c06Out{c06Exec(j)})
		}
	}

	// ---- CMP: one key generation; the cases run in parallel ----
	if rpl != nil && !strings.HasPrefix(rpl.Spec, "cmp") {
		return
	}
	usePrimeCache()
	ids := idsOf("alice", "bob", "carl")
	kg := specCMPKeygen(ids, 1, []byte("kgc")).build(rand.New(rand.NewSource(1)), nil)
	kg.RunFIFO(100000)
	cfgs, err := cmpConfigsOf(kg)
	if err != nil {
		c.res.Note("CMP key generation did not complete: %v", err)
		return
	}
	raw, err := c06FreezeCMP(cfgs)
	if err != nil {
		c.res.Note("CMP key material cannot be serialised: %v", err)
		return
	}
	withRefresh := c.thorough() || (rpl != nil && strings.HasPrefix(rpl.Spec, "cmp-refresh"))
	names := c06CMPNames(len(ids), withRefresh)
	mk := func(i int) func() SessionSpec {
		return func() SessionSpec { return c06CMPSpecs(c06ThawCMP(raw), ids, withRefresh)[i] }
	}
	// from here on every CMP session draws its Paillier primes by party (the two instances of a two-faced party need the
	// same key) and its randomness from the reader registered for its goroutine
	usePrimeCacheByParty(ids)
	installMux()
	defer restoreRandReader()
	defer usePrimeCache()
	workers := 12
	// shapes: the key generation above is an honest run of cmp-keygen; sign / presign / refresh are run once each
	shapes := make([]shapeInfo, len(names))
	var wg sync.WaitGroup
	for i, name := range names {
		if rpl != nil && rpl.Spec != name {
			continue
		}
		if strings.HasPrefix(name, "cmp-keygen") {
			shapes[i] = kg.learnShape()
			continue
		}
		wg.Add(1)
		go func(i int) {
			defer wg.Done()
			det := newMuxDetReader(5)
			defer muxEnter(det)()
			ref := mk(i)().build(rand.New(rand.NewSource(5)), det)
			ref.RunFIFO(100000)
			shapes[i] = ref.learnShape()
		}(i)
	}
	wg.Wait()
	var jobs []c06Job
	for i, name := range names {
		if rpl != nil && rpl.Spec != name {
			continue
		}
		jobs = append(jobs, jobsFor(mk(i), name, ids, shapes[i], true)...)
	}
	report(c06Parallel(jobs, workers))
}

// c06ForkRounds: the CMP rounds on which the quick tier runs fork mode: the round's broadcast contains randomness drawn when the
// round's messages are produced, so that two instances of a party that were in lockstep until round k-1 send different,
// individually valid round-k broadcasts. (Round 2 always; keygen/refresh 4: fresh zkmod/zkprm proofs; presign 3: fresh MtA
// ciphertexts. Presign 4 (fresh ElGamal encryption of chi) and 6 (fresh zkelog proof) qualify too, but the two instances
// are in byte-level lockstep before round 4 only by luck: the round-3 broadcast holds two Go maps, which CBOR writes in
// iteration order; when the orders differ the run is a re-encoding equivocation in round 3 and is recorded as
// `lockstep-lost`. Every other CMP broadcast is a function of values fixed by earlier rounds. The thorough tier runs fork
// mode on every round and records `equivocated=false` / `lockstep-lost` where it cannot bite.)
func c06ForkRounds(name string) map[int]bool {
	switch {
	case strings.HasPrefix(name, "cmp-keygen"), strings.HasPrefix(name, "cmp-refresh"):
		return map[int]bool{4: true}
	case strings.HasPrefix(name, "cmp-presign"):
		return map[int]bool{3: true}
	case strings.HasPrefix(name, "cmp-sign"):
		return map[int]bool{2: true}
	}
	return map[int]bool{}
}
