// Package hk: shared bookkeeping of a harness run (counters, samples, violations) written as JSON
// for the ./check script, which owns known-findings matching, VIOLATION lines and evidence files.
package hk

import (
	"encoding/json"
	"fmt"
	"math/rand"
	"os"
	"sort"
	"time"
)

type Violation struct {
	// Key is a stable identifier of the failing case (what known-findings.txt is keyed on).
	Key    string      `json:"key"`
	Desc   string      `json:"desc"`
	Kind   string      `json:"kind"` // "property" (oracle failed on the implementation) or "correspondence"
	Replay interface{} `json:"replay"`
}

type Result struct {
	Property    string         `json:"property"`
	Tier        string         `json:"tier"`
	Seed        int64          `json:"seed"`
	Evaluations int            `json:"evaluations"`
	Distinct    int            `json:"distinct_nontrivial"`
	Rule        string         `json:"rule"`
	Dist        map[string]int `json:"distribution"`
	Samples     []interface{}  `json:"samples"`
	Violations  []Violation    `json:"violations"`
	CorrChecked int            `json:"correspondence_checked"`
	CorrBroken  int            `json:"correspondence_disagreements"`
	ModelCalls  int            `json:"model_calls"`
	Notes       []string       `json:"notes"`
	WallS       float64        `json:"wall_s"`

	distinct map[string]bool
	start    time.Time
	Rng      *rand.Rand `json:"-"`
}

func New(prop, tier string, seed int64) *Result {
	return &Result{Property: prop, Tier: tier, Seed: seed, Dist: map[string]int{}, distinct: map[string]bool{},
		start: time.Now(), Rng: rand.New(rand.NewSource(seed)), Samples: []interface{}{}, Violations: []Violation{}, Notes: []string{}}
}

// Case counts one evaluated case; fp is its fingerprint (distinctness), nontrivial by the caller's rule.
func (r *Result) Case(class string, fp string, nontrivial bool) {
	r.Evaluations++
	r.Dist[class]++
	if nontrivial && !r.distinct[fp] {
		r.distinct[fp] = true
		r.Distinct++
	}
}

func (r *Result) Sample(max int, s interface{}) {
	if len(r.Samples) < max {
		r.Samples = append(r.Samples, s)
	}
}

func (r *Result) Violate(kind, key, desc string, replay interface{}) {
	for _, v := range r.Violations {
		if v.Key == key {
			return
		}
	}
	if len(r.Violations) < 200 {
		r.Violations = append(r.Violations, Violation{Key: key, Desc: desc, Kind: kind, Replay: replay})
	}
}

func (r *Result) Corr(ok bool) {
	r.CorrChecked++
	if !ok {
		r.CorrBroken++
	}
}

func (r *Result) Note(f string, a ...interface{}) { r.Notes = append(r.Notes, fmt.Sprintf(f, a...)) }

func (r *Result) Write(path string) error {
	r.WallS = time.Since(r.start).Seconds()
	sort.Slice(r.Violations, func(i, j int) bool { return r.Violations[i].Key < r.Violations[j].Key })
	b, err := json.MarshalIndent(r, "", " ")
	if err != nil {
		return err
	}
	return os.WriteFile(path, b, 0o644)
}
