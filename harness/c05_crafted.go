package main

// c05_crafted.go -- multi-message malformed inputs that a field-by-field generator does not produce by itself.
//
// FROST keygen: a sender whose commitment polynomial Phi has one coefficient MORE than the threshold says, with shares that are
// consistent with that longer polynomial (constant term unchanged, so the Schnorr proof stays valid and every VSS check passes).

import (
	"encoding/binary"
	"os"
	"sort"

	"github.com/cronokirby/saferith"
	"github.com/taurusgroup/multi-party-sig/pkg/party"
	"github.com/taurusgroup/multi-party-sig/pkg/protocol"
)

func c05SortStrings(s []string) { sort.Strings(s) }
func c05OsExit(c int)           { os.Exit(c) }

func c05MapGet(n *c05Cnode, key string) *c05Cnode {
	if n == nil || n.Major != 5 {
		return nil
	}
	for i, k := range n.Keys {
		if k.keyLabel() == key {
			return n.Items[i]
		}
	}
	return nil
}

func c05Crafted(spec *c05Spec, ref *c05Ref, pr c05CandParams) []*c05Cand {
	if spec.Name != "frost-keygen" && spec.Name != "frost-keygen-taproot" && spec.Name != "frost-refresh" {
		return nil
	}
	if pr.OnlyMalf != "" {
		return nil
	}
	var out []*c05Cand
	for _, sender := range pr.Senders {
		// the sender's round-2 broadcast as the victim receives it
		var bcKey string
		for _, k := range ref.Order {
			e := ref.Envs[k]
			if e != nil && e.From == sender && e.To == pr.Victim && e.Msg.RoundNumber == 2 && e.Msg.Broadcast {
				bcKey = k
			}
		}
		if bcKey == "" {
			continue
		}
		bc := ref.Envs[bcKey].Msg
		tree, err := c05CParseAll(bc.Data)
		if err != nil {
			continue
		}
		phi := c05MapGet(tree, "Phi_i")
		if phi == nil || phi.Inner == nil || phi.InnerOff != 4 {
			continue
		}
		coeffs := c05MapGet(phi.Inner, "Coefficients")
		if coeffs == nil || coeffs.Major != 4 {
			continue
		}
		k := len(coeffs.Items) // exponent of the new term
		c := c05Group.NewScalar().SetNat(new(saferith.Nat).SetUint64(5))
		cG, err := c.ActOnBase().MarshalBinary()
		if err != nil {
			continue
		}
		t2 := tree.clone()
		phi2 := c05MapGet(t2, "Phi_i")
		co2 := c05MapGet(phi2.Inner, "Coefficients")
		co2.Items = append(co2.Items, c05CBytes(cG))
		binary.BigEndian.PutUint32(phi2.Bytes[:4], uint32(len(co2.Items)))
		mbc := c05CloneMsg(bc)
		mbc.Data = t2.encode()
		// consistent shares: f'(l) = f(l) + c*l^k for every recipient l
		extra := map[string]*protocol.Message{}
		okAll := true
		for _, to := range spec.IDs {
			if to == sender {
				continue
			}
			var p2pKey string
			for _, kk := range ref.Order {
				e := ref.Envs[kk]
				if e != nil && e.From == sender && e.To == to && e.Msg.RoundNumber == 3 && !e.Msg.Broadcast {
					p2pKey = kk
				}
			}
			if p2pKey == "" {
				okAll = false
				break
			}
			pm := ref.Envs[p2pKey].Msg
			pt, err := c05CParseAll(pm.Data)
			if err != nil {
				okAll = false
				break
			}
			f := c05MapGet(pt, "F_li")
			if f == nil || f.Major != 2 {
				okAll = false
				break
			}
			share := c05Group.NewScalar()
			if err := share.UnmarshalBinary(f.Bytes); err != nil {
				okAll = false
				break
			}
			l := party.ID(to).Scalar(c05Group)
			term := c05Group.NewScalar().Set(c)
			for i := 0; i < k; i++ {
				term.Mul(l)
			}
			share.Add(term)
			nb, err := share.MarshalBinary()
			if err != nil {
				okAll = false
				break
			}
			f.Bytes = nb
			m2 := c05CloneMsg(pm)
			m2.Data = pt.encode()
			extra[p2pKey] = m2
		}
		if !okAll {
			continue
		}
		key := "C05/" + spec.Name + "/round2/" + ref.ctype(pr.Victim, bc) + "/Phi_i/degree-plus1-with-consistent-shares"
		out = append(out, &c05Cand{Key: key, Bucket: spec.Name + "/round2/inorder/crafted", Target: bcKey, State: "inorder", Family: "content", Round: 2,
			CType: ref.ctype(pr.Victim, bc), Path: "/Phi_i", Malf: "degree-plus1-with-consistent-shares", Extra: extra, Core: true,
			make: func() *protocol.Message { return c05CloneMsg(mbc) }})
	}
	return out
}
