package main

// C13 -- OT-based multiplication is correct for all inputs (internal/ot).
//
// Correspondence (exact, against coq/Model/DispatchOT.v ops): bitAt, transposeBits, fieldElement.accumulate/eq,
// makeGadget, encode; the model's relation checkers (ot.corre_check, ot.ext_x/ext_t/ext_check, ot.additive_check,
// ot.additive_recv_class, ot.mult_recv_check, ot.mult_check) are evaluated on the values of REAL runs of the OT stack.
// Search: every relation is also judged by a plain Go oracle (math/big, XOR), and every single-field alteration of
// the random-OT / setup / Multiply messages must end in an error on the checking side or in a still-correct product;
// a panic or a wrong accepted product is a property violation (c13_alter.go).
//
// All randomness of the library (crypto/rand.Reader) is replaced by a seeded reader, the worker pool is nil
// (sequential), so every case is a function of (setup seed, case seed, explicit parameters) and replays exactly.

import (
	crand "crypto/rand"
	"encoding/binary"
	"encoding/hex"
	"fmt"
	"io"
	"math/big"
	"math/rand"
	"sort"
	"sync"

	"github.com/cronokirby/saferith"

	"github.com/taurusgroup/multi-party-sig/pkg/hash"
	"github.com/taurusgroup/multi-party-sig/pkg/math/curve"
	"github.com/taurusgroup/multi-party-sig/pkg/verifhook"

	"verifharness/sx"
)

func init() { props["C13"] = runC13 }

const (
	c13OTParam   = 128 // params.OTParam
	c13OTBytes   = 16  // params.OTBytes
	c13StatParam = 80  // params.StatParam
)

var c13Group = curve.Secp256k1{}

// ---------------------------------------------------------------------------------------------
// deterministic crypto/rand.Reader

type c13Reader struct {
	mu     sync.Mutex
	r      *rand.Rand
	forced []byte
	rec    bool
	log    []byte
}

func (d *c13Reader) Read(p []byte) (int, error) {
	d.mu.Lock()
	defer d.mu.Unlock()
	for i := range p {
		if len(d.forced) > 0 {
			p[i] = d.forced[0]
			d.forced = d.forced[1:]
		} else {
			p[i] = byte(d.r.Intn(256))
		}
	}
	if d.rec {
		d.log = append(d.log, p...)
	}
	return len(p), nil
}

func (d *c13Reader) seed(s int64) {
	d.mu.Lock()
	d.r = rand.New(rand.NewSource(s))
	d.forced, d.rec, d.log = nil, false, nil
	d.mu.Unlock()
}
func (d *c13Reader) force(b []byte) {
	d.mu.Lock()
	d.forced = append([]byte{}, b...)
	d.mu.Unlock()
}
func (d *c13Reader) record() {
	d.mu.Lock()
	d.rec, d.log = true, nil
	d.mu.Unlock()
}
func (d *c13Reader) stop() []byte {
	d.mu.Lock()
	defer d.mu.Unlock()
	d.rec = false
	l := d.log
	d.log = nil
	return l
}

// ---------------------------------------------------------------------------------------------
// small helpers

// c13Try runs f and turns a panic into a string (empty = no panic).
func c13Try(f func()) (p string) {
	defer func() {
		if r := recover(); r != nil {
			p = fmt.Sprint(r)
			if p == "" {
				p = "panic"
			}
		}
	}()
	f()
	return ""
}

func c13Sc(z *big.Int) curve.Scalar {
	m := new(big.Int).Mod(z, secpQ)
	return c13Group.NewScalar().SetNat(new(saferith.Nat).SetBig(m, 256))
}

func c13Z(s curve.Scalar) *big.Int {
	b, err := s.MarshalBinary()
	if err != nil {
		panic(err)
	}
	return new(big.Int).SetBytes(b)
}

func c13Hex(z *big.Int) string { return z.Text(16) }
func c13UnHex(s string) *big.Int {
	z, ok := new(big.Int).SetString(s, 16)
	if !ok {
		return new(big.Int)
	}
	return z
}

func c13BitAt(i int, d []byte) int { return int(d[i>>3]>>(uint(i)&7)) & 1 }

func c13Fe(b []byte) (f [4]uint64) {
	for i := 0; i < 4; i++ {
		f[i] = binary.LittleEndian.Uint64(b[8*i:])
	}
	return
}
func c13FeBytes(f [4]uint64) []byte {
	b := make([]byte, 32)
	for i := 0; i < 4; i++ {
		binary.LittleEndian.PutUint64(b[8*i:], f[i])
	}
	return b
}

func c13Rows(rows [][c13OTBytes]byte) sx.V {
	l := make([]sx.V, len(rows))
	for i := range rows {
		l[i] = sx.Bytes(rows[i][:])
	}
	return sx.List(l...)
}

func c13Zs(zs []*big.Int) sx.V {
	l := make([]sx.V, len(zs))
	for i := range zs {
		l[i] = sx.Big(zs[i])
	}
	return sx.List(l...)
}

// res value of the model: (0 v) ok, (1) error, (2) panic
func c13ResClass(v sx.V) string {
	if v.Kind != 2 || len(v.L) == 0 || v.L[0].Kind != 0 {
		return "?"
	}
	switch v.L[0].AsInt() {
	case 0:
		return "ok"
	case 1:
		return "err"
	case 2:
		return "panic"
	}
	return "?"
}

// c13Case is the replay record of every case kind (only the fields of its kind are set).
type c13Case struct {
	What      string `json:"what"`
	SetupSeed int64  `json:"setup_seed,omitempty"`
	Seed      int64  `json:"seed,omitempty"`
	Nonce     string `json:"nonce,omitempty"`
	I         int    `json:"i,omitempty"`
	L         int    `json:"l,omitempty"`
	Data      string `json:"data,omitempty"`
	A         string `json:"a,omitempty"`
	B         string `json:"b,omitempty"`
	F         string `json:"f,omitempty"`
	Alpha     string `json:"alpha,omitempty"`
	Alpha1    string `json:"alpha1,omitempty"`
	Beta      string `json:"beta,omitempty"`
	Gamma     string `json:"gamma,omitempty"`
	NoiseLen  int    `json:"noise_len,omitempty"`
	Choices   string `json:"choices,omitempty"`
	Choice    int    `json:"choice,omitempty"`
	Msg       string `json:"msg,omitempty"`
	Path      string `json:"path,omitempty"`
	Op        string `json:"op,omitempty"`
	Observed  string `json:"observed,omitempty"`
	// concurrent configurations (c13_conc.go)
	Mode       string `json:"mode,omitempty"`
	Goroutines int    `json:"goroutines,omitempty"`
	Iter       int    `json:"iterations,omitempty"`
}

func (c *ctx) c13ModelErr(op string, err error, rp c13Case) {
	rp.Observed = err.Error()
	if len(rp.Observed) > 300 {
		rp.Observed = rp.Observed[:300]
	}
	c.res.Corr(false)
	c.res.Violate("correspondence", "C13/model-error/"+op, "the model refused the arguments of "+op, rp)
}

// ---------------------------------------------------------------------------------------------
// 1. bitAt

func (c *ctx) c13BitAtCase(i int, data []byte, class string) {
	rp := c13Case{What: "bitat", I: i, Data: hex.EncodeToString(data)}
	var got byte
	p := c13Try(func() { got = verifhook.OTBitAt(i, data) })
	c.res.Case("bitat-"+class, fmt.Sprintf("%d/%x", i, data), len(data) > 0)
	rep, err := c.m.Call("ot.bit_at", sx.List(sx.Int(int64(i)), sx.Bytes(data)))
	if err != nil {
		c.c13ModelErr("ot.bit_at", err, rp)
		return
	}
	var goV sx.V
	if p != "" {
		goV = sx.List(sx.Int(2))
	} else {
		goV = sx.List(sx.Int(0), sx.Int(int64(got)))
	}
	ok := rep.Equal(goV)
	c.res.Corr(ok)
	if !ok {
		rp.Observed = fmt.Sprintf("go=%s model=%s", goV, rep)
		c.res.Violate("correspondence", "C13/bitat-mismatch/"+class, "bitAt differs from the model", rp)
	}
	// plain oracle: little-endian bit order inside a byte, panic exactly when i/8 >= len
	if i>>3 < len(data) {
		want := c13BitAt(i, data)
		if p != "" || int(got) != want {
			rp.Observed = fmt.Sprintf("got=%d panic=%q want=%d", got, p, want)
			c.res.Violate("property", "C13/bitat-wrong/"+class, "bitAt(i,data) is not bit (i&7) of byte i>>3", rp)
		}
	}
}

func (c *ctx) c13BitAtAll(r *rand.Rand, n int) {
	for k := 0; k < n; k++ {
		l := r.Intn(20)
		data := randBytes(r, l)
		switch r.Intn(4) {
		case 0:
			if l > 0 {
				c.c13BitAtCase(r.Intn(8*l), data, "in-range")
			}
		case 1:
			c.c13BitAtCase(8*l+r.Intn(9), data, "past-end")
		case 2:
			if l > 0 {
				c.c13BitAtCase(8*l-1, data, "last-bit")
			}
		default:
			if l > 0 {
				i := r.Intn(8 * l)
				d := make([]byte, l)
				d[i>>3] = 1 << (uint(i) & 7)
				c.c13BitAtCase(i, d, "single-bit")
				c.c13BitAtCase((i+1)%(8*l), d, "single-bit")
			}
		}
	}
}

// ---------------------------------------------------------------------------------------------
// 2. transposeBits

func (c *ctx) c13TransposeCase(l int, flat []byte, class string) {
	rp := c13Case{What: "transpose", L: l, Data: hex.EncodeToString(flat)}
	rowBytes := len(flat) / c13OTParam
	var M [c13OTParam][]byte
	for j := 0; j < c13OTParam; j++ {
		M[j] = flat[j*rowBytes : (j+1)*rowBytes]
	}
	var MT [][c13OTBytes]byte
	p := c13Try(func() { MT = verifhook.OTTransposeBits(l, &M) })
	nontriv := false
	for _, b := range flat {
		if b != 0 {
			nontriv = true
		}
	}
	c.res.Case("transpose-"+class, fmt.Sprintf("%d/%x", l, flat), nontriv)
	if p != "" {
		rp.Observed = p
		c.res.Violate("property", "C13/transpose-panic/"+class, "transposeBits panics on a well-formed matrix", rp)
		return
	}
	// plain oracle
	bad := len(MT) != l
	for i := 0; i < l && !bad; i++ {
		for j := 0; j < c13OTParam; j++ {
			if c13BitAt(j, MT[i][:]) != c13BitAt(i, M[j]) {
				bad = true
				rp.Observed = fmt.Sprintf("MT[%d] bit %d != M[%d] bit %d", i, j, j, i)
				break
			}
		}
	}
	if bad {
		c.res.Violate("property", "C13/transpose-wrong/"+class, "transposeBits: bit j of row i is not bit i of M[j]", rp)
	}
	if l%8 != 0 || l != 8*rowBytes {
		return // the model op takes full rows only
	}
	rep, err := c.m.Call("ot.transpose", sx.List(sx.Int(c13OTParam), sx.Int(int64(l)), sx.Bytes(flat)))
	if err != nil {
		c.c13ModelErr("ot.transpose", err, rp)
		return
	}
	var goFlat []byte
	for i := range MT {
		goFlat = append(goFlat, MT[i][:]...)
	}
	ok := rep.Kind == 1 && string(rep.B) == string(goFlat)
	c.res.Corr(ok)
	if !ok {
		c.res.Violate("correspondence", "C13/transpose-mismatch/"+class, "transposeBits differs from the model", rp)
	}
}

func (c *ctx) c13TransposeAll(r *rand.Rand, ls []int, nRandom int) {
	for _, l := range ls {
		rb := l / 8
		n := c13OTParam * rb
		if l > 300 && !c.thorough() {
			// the model's transpose takes ~2 s at the real inflated batch size (880): two cases in the quick tier
			d := make([]byte, n)
			j, i := r.Intn(c13OTParam), l-1
			d[j*rb+i>>3] |= 1 << (uint(i) & 7)
			c.c13TransposeCase(l, d, "single-bit")
			c.c13TransposeCase(l, randBytes(r, n), "random")
			continue
		}
		zero := make([]byte, n)
		ones := make([]byte, n)
		for i := range ones {
			ones[i] = 0xff
		}
		c.c13TransposeCase(l, zero, "zero")
		c.c13TransposeCase(l, ones, "ones")
		// single bit: row j, bit i
		for k := 0; k < 3; k++ {
			d := make([]byte, n)
			j, i := r.Intn(c13OTParam), r.Intn(l)
			if k == 0 {
				j, i = c13OTParam-1, l-1
			}
			if k == 1 {
				j, i = 0, l-1
			}
			d[j*rb+i>>3] |= 1 << (uint(i) & 7)
			c.c13TransposeCase(l, d, "single-bit")
		}
		// diagonal
		d := make([]byte, n)
		for j := 0; j < c13OTParam; j++ {
			i := j % l
			d[j*rb+i>>3] |= 1 << (uint(i) & 7)
		}
		c.c13TransposeCase(l, d, "diagonal")
		// one full row / one full column
		d = make([]byte, n)
		jj := r.Intn(c13OTParam)
		for i := 0; i < rb; i++ {
			d[jj*rb+i] = 0xff
		}
		c.c13TransposeCase(l, d, "full-row")
		d = make([]byte, n)
		ii := r.Intn(l)
		for j := 0; j < c13OTParam; j++ {
			d[j*rb+ii>>3] |= 1 << (uint(ii) & 7)
		}
		c.c13TransposeCase(l, d, "full-column")
		for k := 0; k < nRandom; k++ {
			c.c13TransposeCase(l, randBytes(r, n), "random")
		}
	}
	// l smaller than the rows (only the plain oracle applies)
	for _, l := range []int{1, 5, 13} {
		c.c13TransposeCase(l, randBytes(r, c13OTParam*2), "partial-rows")
	}
}

// ---------------------------------------------------------------------------------------------
// 3. fieldElement.accumulate / eq

func c13Clmul(a, b []byte) *big.Int {
	// a, b little-endian 16 bytes; carry-less product as a number
	rev := func(x []byte) []byte {
		y := make([]byte, len(x))
		for i := range x {
			y[len(x)-1-i] = x[i]
		}
		return y
	}
	A := new(big.Int).SetBytes(rev(a))
	B := new(big.Int).SetBytes(rev(b))
	out := new(big.Int)
	for i := 0; i < A.BitLen(); i++ {
		if A.Bit(i) == 1 {
			out.Xor(out, new(big.Int).Lsh(B, uint(i)))
		}
	}
	return out
}

func c13LE32(z *big.Int) []byte {
	be := z.FillBytes(make([]byte, 32))
	for i, j := 0, 31; i < j; i, j = i+1, j-1 {
		be[i], be[j] = be[j], be[i]
	}
	return be
}

func (c *ctx) c13AccCase(f, a, b []byte, class string) {
	rp := c13Case{What: "accumulate", F: hex.EncodeToString(f), A: hex.EncodeToString(a), B: hex.EncodeToString(b)}
	var aa, bb [c13OTBytes]byte
	copy(aa[:], a)
	copy(bb[:], b)
	var out [4]uint64
	p := c13Try(func() { out = verifhook.OTAccumulate(c13Fe(f), &aa, &bb) })
	got := c13FeBytes(out)
	c.res.Case("accumulate-"+class, rp.F+rp.A+rp.B, new(big.Int).SetBytes(a).Sign() != 0 && new(big.Int).SetBytes(b).Sign() != 0)
	// plain oracle
	prod := c13Clmul(a, b)
	want := c13LE32(prod)
	for i := range want {
		want[i] ^= f[i]
	}
	if p != "" || string(want) != string(got) {
		rp.Observed = fmt.Sprintf("got=%x want=%x panic=%q", got, want, p)
		c.res.Violate("property", "C13/accumulate-wrong/"+class, "accumulate is not f xor carry-less a*b", rp)
	}
	rep, err := c.m.Call("ot.accumulate", sx.List(sx.Bytes(f), sx.Bytes(a), sx.Bytes(b)))
	if err != nil {
		c.c13ModelErr("ot.accumulate", err, rp)
		return
	}
	ok := rep.Kind == 1 && string(rep.B) == string(got)
	c.res.Corr(ok)
	if !ok {
		rp.Observed = fmt.Sprintf("go=%x model=%s", got, rep)
		c.res.Violate("correspondence", "C13/accumulate-mismatch/"+class, "accumulate (loop as written) differs from the model", rp)
	}
	if new(big.Int).SetBytes(f).Sign() == 0 {
		rep2, err := c.m.Call("ot.clmul", sx.List(sx.Bytes(a), sx.Bytes(b)))
		if err != nil {
			c.c13ModelErr("ot.clmul", err, rp)
			return
		}
		ok := rep2.Kind == 1 && string(rep2.B) == string(got)
		c.res.Corr(ok)
		if !ok {
			c.res.Violate("correspondence", "C13/clmul-mismatch/"+class, "accumulate(0,a,b) differs from the model's reference carry-less product", rp)
		}
	}
}

func (c *ctx) c13EqCase(f, g []byte, class string) {
	rp := c13Case{What: "eq", F: hex.EncodeToString(f), A: hex.EncodeToString(g)}
	var got bool
	p := c13Try(func() { got = verifhook.OTFieldEq(c13Fe(f), c13Fe(g)) })
	c.res.Case("eq-"+class, rp.F+rp.A, true)
	want := string(f) == string(g)
	if p != "" || got != want {
		rp.Observed = fmt.Sprintf("got=%v want=%v panic=%q", got, want, p)
		c.res.Violate("property", "C13/eq-wrong/"+class, "fieldElement.eq is not equality", rp)
	}
	rep, err := c.m.Call("ot.fe_eq", sx.List(sx.Bytes(f), sx.Bytes(g)))
	if err != nil {
		c.c13ModelErr("ot.fe_eq", err, rp)
		return
	}
	ok := rep.AsBool() == got
	c.res.Corr(ok)
	if !ok {
		c.res.Violate("correspondence", "C13/eq-mismatch/"+class, "fieldElement.eq differs from the model", rp)
	}
}

func c13Boundary16(r *rand.Rand) (vs [][]byte, names []string) {
	mk := func(f func(b []byte)) []byte { b := make([]byte, 16); f(b); return b }
	vs = append(vs, mk(func(b []byte) {}))
	names = append(names, "zero")
	vs = append(vs, mk(func(b []byte) {
		for i := range b {
			b[i] = 0xff
		}
	}))
	names = append(names, "ones")
	for _, bit := range []int{0, 63, 64, 127} {
		bit := bit
		vs = append(vs, mk(func(b []byte) { b[bit>>3] = 1 << (uint(bit) & 7) }))
		names = append(names, fmt.Sprintf("bit%d", bit))
	}
	vs = append(vs, randBytes(r, 16))
	names = append(names, "random")
	return
}

func (c *ctx) c13FieldAll(r *rand.Rand, nRandom int) {
	vs, names := c13Boundary16(r)
	zero32 := make([]byte, 32)
	ones32 := make([]byte, 32)
	for i := range ones32 {
		ones32[i] = 0xff
	}
	for i, a := range vs {
		for j, b := range vs {
			_ = names
			c.c13AccCase(zero32, a, b, "boundary*boundary")
			if (i+j)%3 == 0 {
				c.c13AccCase(ones32, a, b, "boundary*boundary+acc")
				c.c13AccCase(randBytes(r, 32), a, b, "boundary*boundary+acc")
			}
		}
	}
	for k := 0; k < nRandom; k++ {
		f, cl := zero32, "random*random"
		if k%2 == 1 {
			f, cl = randBytes(r, 32), "random*random+acc"
		}
		c.c13AccCase(f, randBytes(r, 16), randBytes(r, 16), cl)
	}
	// eq
	for k := 0; k < 4+nRandom/4; k++ {
		f := randBytes(r, 32)
		if k == 0 {
			f = zero32
		}
		if k == 1 {
			f = ones32
		}
		c.c13EqCase(f, append([]byte{}, f...), "equal")
		for _, bit := range []int{0, 63, 64, 127, 128, 191, 192, 255, r.Intn(256)} {
			g := append([]byte{}, f...)
			g[bit>>3] ^= 1 << (uint(bit) & 7)
			c.c13EqCase(f, g, fmt.Sprintf("differ-limb%d", bit/64))
		}
		c.c13EqCase(f, randBytes(r, 32), "random")
	}
}

// ---------------------------------------------------------------------------------------------
// 4. makeGadget, 5. encode

func c13Hash(nonce []byte) *hash.Hash {
	h := hash.New()
	_ = h.WriteAny(&hash.BytesWithDomain{TheDomain: "C13 harness nonce", Bytes: nonce})
	return h
}

// c13Noise re-derives the gadget's noise scalars from the hash (independently of sample.Scalar).
func c13Noise(h *hash.Hash, n int) []*big.Int {
	d := h.Fork(&hash.BytesWithDomain{TheDomain: "Multiply Gadget Sampling", Bytes: nil}).Digest()
	out := make([]*big.Int, n)
	buf := make([]byte, 32)
	for i := range out {
		if _, err := io.ReadFull(d, buf); err != nil {
			panic(err)
		}
		out[i] = new(big.Int).SetBytes(buf)
		out[i].Mod(out[i], secpQ)
	}
	return out
}

// c13Chi01 re-derives the two check weights of Multiply from the hash state after the additive OT.
func c13Chi01(h *hash.Hash) (*big.Int, *big.Int) {
	d := h.Fork(&hash.BytesWithDomain{TheDomain: "Multiply Chi Sampling", Bytes: nil}).Digest()
	buf := make([]byte, 32)
	rd := func() *big.Int {
		if _, err := io.ReadFull(d, buf); err != nil {
			panic(err)
		}
		z := new(big.Int).SetBytes(buf)
		return z.Mod(z, secpQ)
	}
	a := rd()
	b := rd()
	return a, b
}

const c13GadgetLen = 8 * (32 + (256+2*c13StatParam+7)/8) // 672

func (c *ctx) c13GadgetCase(nonce []byte) []*big.Int {
	rp := c13Case{What: "gadget", Nonce: hex.EncodeToString(nonce)}
	h := c13Hash(nonce)
	var g []curve.Scalar
	p := c13Try(func() { g = verifhook.OTMakeGadget(h.Clone(), c13Group) })
	c.res.Case("gadget", rp.Nonce, true)
	if p != "" {
		rp.Observed = p
		c.res.Violate("property", "C13/gadget-panic", "makeGadget panics", rp)
		return nil
	}
	gz := make([]*big.Int, len(g))
	for i := range g {
		gz[i] = c13Z(g[i])
	}
	noise := c13Noise(h, c13GadgetLen-256)
	// plain oracle: g[8i+j] = 2^(8(31-i)+j), then the noise
	bad := len(gz) != c13GadgetLen
	for i := 0; i < 32 && !bad; i++ {
		for j := 0; j < 8; j++ {
			w := new(big.Int).Lsh(big.NewInt(1), uint(8*(31-i)+j))
			w.Mod(w, secpQ)
			if gz[8*i+j].Cmp(w) != 0 {
				bad = true
				rp.Observed = fmt.Sprintf("g[%d] != 2^%d", 8*i+j, 8*(31-i)+j)
			}
		}
	}
	for i := 256; i < c13GadgetLen && !bad; i++ {
		if gz[i].Cmp(noise[i-256]) != 0 {
			bad = true
			rp.Observed = fmt.Sprintf("noise entry %d differs from the hash stream", i-256)
		}
	}
	if bad {
		c.res.Violate("property", "C13/gadget-wrong", "makeGadget is not (powers of two in big-endian byte/little-endian bit order) ++ hash noise", rp)
	}
	rep, err := c.m.Call("ot.gadget", sx.List(sx.Big(secpQ), sx.Int(32), c13Zs(noise)))
	if err != nil {
		c.c13ModelErr("ot.gadget", err, rp)
		return gz
	}
	ok := rep.Equal(c13Zs(gz))
	c.res.Corr(ok)
	if !ok {
		c.res.Violate("correspondence", "C13/gadget-mismatch", "makeGadget differs from the model given the same hash outputs", rp)
	}
	return gz
}

// c13EncodeCase: encode(beta, noise) with the random gamma forced; exact against ot.encode, decode relation by
// ot.encode_check and by plain big.Int.
func (c *ctx) c13EncodeCase(rd *c13Reader, beta *big.Int, noise []*big.Int, noiseNonce []byte, gamma []byte, class string) {
	rp := c13Case{What: "encode", Beta: c13Hex(beta), Gamma: hex.EncodeToString(gamma), NoiseLen: len(noise)}
	if noiseNonce != nil {
		rp.Nonce = hex.EncodeToString(noiseNonce) // real gadget noise: re-derived from the nonce on replay
	} else {
		for _, n := range noise {
			rp.Data += fmt.Sprintf("%064x", n)
		}
	}
	ns := make([]curve.Scalar, len(noise))
	for i := range noise {
		ns[i] = c13Sc(noise[i])
	}
	rd.force(gamma)
	var data []byte
	var err error
	p := c13Try(func() { data, err = verifhook.OTEncode(c13Sc(beta), ns) })
	rd.force(nil)
	goClass := "ok"
	if p != "" {
		goClass = "panic"
	} else if err != nil {
		goClass = "err"
	}
	c.res.Case("encode-"+c13Short2(class), rp.Beta+"/"+rp.Gamma+"/"+fmt.Sprint(len(noise)), true)
	rep, merr := c.m.Call("ot.encode", sx.List(sx.Big(secpQ), sx.Int(32), sx.Big(beta), c13Zs(noise), sx.Bytes(gamma)))
	if merr != nil {
		c.c13ModelErr("ot.encode", merr, rp)
		return
	}
	ok := c13ResClass(rep) == goClass && (goClass != "ok" || string(rep.L[1].B) == string(data))
	c.res.Corr(ok)
	if !ok {
		rp.Observed = fmt.Sprintf("go=%s %x model=%s", goClass, data, rep)
		c.res.Violate("correspondence", "C13/encode-mismatch/"+class, "encode differs from the model for the same gamma", rp)
	}
	if goClass != "ok" {
		if len(noise)%8 == 0 {
			rp.Observed = goClass + " " + p
			c.res.Violate("property", "C13/encode-fails/"+class, "encode fails on a noise vector whose length is a multiple of 8", rp)
		}
		return
	}
	// decode relation: sum_j bit_j(data) * g_j = beta with g = powers ++ noise
	g := make([]*big.Int, 0, 256+len(noise))
	for i := 0; i < 32; i++ {
		for j := 0; j < 8; j++ {
			w := new(big.Int).Lsh(big.NewInt(1), uint(8*(31-i)+j))
			g = append(g, w.Mod(w, secpQ))
		}
	}
	g = append(g, noise...)
	sum := new(big.Int)
	if len(data)*8 != len(g) {
		rp.Observed = fmt.Sprintf("len(data)=%d", len(data))
		c.res.Violate("property", "C13/encode-length/"+class, "encode output has not one bit per gadget entry", rp)
		return
	}
	for j := range g {
		if c13BitAt(j, data) == 1 {
			sum.Add(sum, g[j])
		}
	}
	sum.Mod(sum, secpQ)
	plain := sum.Cmp(new(big.Int).Mod(beta, secpQ)) == 0
	rep2, merr := c.m.Call("ot.encode_check", sx.List(sx.Big(secpQ), c13Zs(g), sx.Bytes(data), sx.Big(beta)))
	if merr != nil {
		c.c13ModelErr("ot.encode_check", merr, rp)
		return
	}
	c.res.Corr(rep2.AsBool() == plain)
	if rep2.AsBool() != plain {
		c.res.Violate("correspondence", "C13/encode-check-oracles-disagree", "model checker and big.Int checker disagree on the decode relation", rp)
	}
	if !rep2.AsBool() || !plain {
		rp.Observed = fmt.Sprintf("data=%x decoded=%s", data, c13Hex(sum))
		c.res.Violate("property", "C13/encode-decode-wrong/"+class, "sum_j bit_j(encode beta) * g_j != beta (mod q)", rp)
	}
}

// c13Short2 keeps the first component of a class name ("gadget-noise/0/gamma-all-0" -> "gadget-noise").
func c13Short2(s string) string {
	for i := 0; i < len(s); i++ {
		if s[i] == '/' {
			return s[:i]
		}
	}
	return s
}

// scalar lattice of the property
func c13Lattice(r *rand.Rand, thorough bool) (zs []*big.Int, names []string) {
	add := func(z *big.Int, n string) { zs = append(zs, z); names = append(names, n) }
	add(big.NewInt(0), "0")
	add(big.NewInt(1), "1")
	add(big.NewInt(2), "2")
	add(new(big.Int).Sub(secpQ, big.NewInt(1)), "q-1")
	add(new(big.Int).Sub(secpQ, big.NewInt(2)), "q-2")
	add(new(big.Int).Lsh(big.NewInt(1), 128), "2^128")
	if thorough {
		add(new(big.Int).Lsh(big.NewInt(1), 255), "2^255")
		add(new(big.Int).Lsh(big.NewInt(1), 64), "2^64")
		add(new(big.Int).Rsh(secpQ, 1), "(q-1)/2")
	}
	z := randBig(r, 256)
	add(z.Mod(z, secpQ), "random")
	return
}

func c13Patterns(r *rand.Rand, n int) (ps [][]byte, names []string) {
	mk := func(v byte) []byte {
		b := make([]byte, n)
		for i := range b {
			b[i] = v
		}
		return b
	}
	return [][]byte{mk(0), mk(0xff), mk(0x55), mk(0xaa), randBytes(r, n)}, []string{"all-0", "all-1", "alternating", "alternating'", "random"}
}

func (c *ctx) c13EncodeAll(rd *c13Reader, r *rand.Rand, gadgetNoise []*big.Int, noiseNonce []byte) {
	zs, zn := c13Lattice(r, c.thorough())
	// real gadget noise
	for i, beta := range zs {
		ps, pn := c13Patterns(r, len(gadgetNoise)/8)
		for k, g := range ps {
			if !c.thorough() && i > 0 && k != 4 && (i+k)%3 != 0 {
				continue
			}
			c.c13EncodeCase(rd, beta, gadgetNoise, noiseNonce, g, "gadget-noise/"+zn[i]+"/gamma-"+pn[k])
		}
	}
	// short noise vectors with boundary noise scalars
	for _, nl := range []int{0, 8, 16, 24} {
		for k := 0; k < 4; k++ {
			noise := make([]*big.Int, nl)
			for i := range noise {
				switch r.Intn(4) {
				case 0:
					noise[i] = big.NewInt(0)
				case 1:
					noise[i] = new(big.Int).Sub(secpQ, big.NewInt(1))
				default:
					noise[i] = randBig(r, 256)
					noise[i].Mod(noise[i], secpQ)
				}
			}
			ps, pn := c13Patterns(r, nl/8)
			bi := r.Intn(len(zs))
			pi := r.Intn(len(ps))
			c.c13EncodeCase(rd, zs[bi], noise, nil, ps[pi], fmt.Sprintf("noise%d/%s/gamma-%s", nl, zn[bi], pn[pi]))
		}
	}
	// length not a multiple of 8: the model says the loop runs past gamma (Go: index panic); outcome class compared only
	for _, nl := range []int{12, 9} {
		noise := make([]*big.Int, nl)
		for i := range noise {
			noise[i] = randBig(r, 200)
		}
		c.c13EncodeCase(rd, zs[r.Intn(len(zs))], noise, nil, randBytes(r, nl/8), fmt.Sprintf("noise%d-not-multiple-of-8", nl))
	}
}

// ---------------------------------------------------------------------------------------------
// environment: one correlated-OT setup (the real 128 random OTs, nil pool = sequential, seeded reader)

type c13Env struct {
	c         *ctx
	rd        *c13Reader
	setupSeed int64
	ss        *verifhook.CorreOTSendSetup
	rs        *verifhook.CorreOTReceiveSetup
	delta     [c13OTBytes]byte
}

func (c *ctx) c13NewEnv(rd *c13Reader, setupSeed int64) *c13Env {
	e := &c13Env{c: c, rd: rd, setupSeed: setupSeed}
	out := e.setupRun(c13Case{What: "setup", SetupSeed: setupSeed})
	if e.ss == nil || e.rs == nil {
		c.res.Violate("property", "C13/setup-fails", "honest correlated-OT setup does not complete: "+out, c13Case{What: "setup", SetupSeed: setupSeed, Observed: out})
		return nil
	}
	return e
}

// c13Prelude evaluates a few small cases of every kind first, so that the cases.v sample (the first logged model
// calls, re-evaluated with vm_compute) covers every op and not only the first section.
func (c *ctx) c13Prelude(rd *c13Reader, r *rand.Rand) {
	c.c13BitAtAll(r, 4)
	c.c13TransposeCase(8, randBytes(r, c13OTParam), "random")
	d := make([]byte, c13OTParam)
	d[77] = 0x20
	c.c13TransposeCase(8, d, "single-bit")
	vs, _ := c13Boundary16(r)
	c.c13AccCase(make([]byte, 32), vs[1], vs[5], "boundary*boundary")
	c.c13AccCase(randBytes(r, 32), vs[6], vs[2], "boundary*boundary+acc")
	c.c13AccCase(make([]byte, 32), randBytes(r, 16), randBytes(r, 16), "random*random")
	f := randBytes(r, 32)
	g := append([]byte{}, f...)
	g[31] ^= 0x80
	c.c13EqCase(f, f, "equal")
	c.c13EqCase(f, g, "differ-limb3")
	noise := []*big.Int{big.NewInt(0), new(big.Int).Sub(secpQ, big.NewInt(1)), randBig(r, 255), randBig(r, 255), big.NewInt(1), randBig(r, 255), randBig(r, 200), randBig(r, 255)}
	c.c13EncodeCase(rd, new(big.Int).Sub(secpQ, big.NewInt(1)), noise, nil, []byte{0xa5}, "noise8")
	c.c13EncodeCase(rd, big.NewInt(0), noise, nil, []byte{0xff}, "noise8")
	e := c.c13NewEnv(rd, r.Int63())
	if e == nil {
		return
	}
	zs, zn := c13Lattice(r, false)
	mk := func(l int) string { return hex.EncodeToString(randBytes(r, l)) }
	e.correCase(c13Case{What: "corre", SetupSeed: e.setupSeed, Seed: r.Int63(), Nonce: "00", Choices: mk(1), Op: "random"})
	e.additiveCase(c13Case{What: "additive", SetupSeed: e.setupSeed, Seed: r.Int63(), Nonce: "01", Choices: mk(5), Op: "random",
		Alpha: c13Hex(zs[3]), Alpha1: c13Hex(zs[6])})
	e.additiveCase(c13Case{What: "additive", SetupSeed: e.setupSeed, Seed: r.Int63(), Nonce: "02", Choices: mk(2), Op: "random",
		Alpha: c13Hex(zs[1]), Alpha1: c13Hex(zs[6])})
	e.mulJudge(c13Case{What: "multiply", SetupSeed: e.setupSeed, Seed: r.Int63(), Nonce: "03", Alpha: c13Hex(zs[3]), Beta: c13Hex(zs[4]),
		Op: zn[3] + "*" + zn[4]}, true, false)
	e.mulJudge(c13Case{What: "alter", SetupSeed: e.setupSeed, Seed: r.Int63(), Nonce: "04", Alpha: c13Hex(zs[6]), Beta: c13Hex(zs[6]),
		Msg: "S1", Path: "Msg.CombinedPads[32][0]", Op: "extend:1"}, true, true)
}

// outcomes of the altered runs per field class (reported as notes)
var c13Outcomes map[string]map[string]int

func c13Outcome(class, outcome string) {
	if c13Outcomes[class] == nil {
		c13Outcomes[class] = map[string]int{}
	}
	c13Outcomes[class][outcome]++
}

func (c *ctx) c13OutcomeNotes() {
	var keys []string
	for k := range c13Outcomes {
		keys = append(keys, k)
	}
	sort.Strings(keys)
	for _, k := range keys {
		var os []string
		for o := range c13Outcomes[k] {
			os = append(os, o)
		}
		sort.Strings(os)
		line := ""
		for _, o := range os {
			line += fmt.Sprintf(" %s=%d", o, c13Outcomes[k][o])
		}
		c.res.Note("outcomes %s:%s", k, line)
	}
}

// ---------------------------------------------------------------------------------------------

func runC13(c *ctx) {
	c.res.Rule = "pure helpers: boundary + random bit matrices / GF(2^128) vectors / scalars on the lattice {0,1,2,q-1,q-2,2^k,random}; " +
		"real OT runs: batch sizes x choice patterns (all-0, all-1, alternating, random) x nonces on shared setups; " +
		"alterations: one field of one message per run; concurrent: G goroutines x k honest multiplications over one shared setup / over " +
		"their own setups, Doerner signing sessions side by side; aliasing: every layer with inputs that are sub-slices of larger buffers " +
		"(consecutive rows of one choice matrix / nonce buffer, spare capacity, guard bytes), messages in transport buffers, shared scalar objects; non-trivial = input not all zero; distinct by printed parameters"
	old := crand.Reader
	rd := &c13Reader{}
	rd.seed(c.res.Rng.Int63())
	crand.Reader = rd
	defer func() { crand.Reader = old }()
	c.m.MaxLogSize = 8000
	c.m.MaxLog = 80
	c13Outcomes = map[string]map[string]int{}
	if c.replay != "" {
		c13ReplayRun(c, rd)
		return
	}
	r := c.res.Rng
	defer c.c13OutcomeNotes()
	c.c13Prelude(rd, r)
	th := c.thorough()
	pick := func(q, t int) int {
		if th {
			return t
		}
		return q
	}

	// the cases.v sample: at most 12 logged calls per pure section, the rest for the real runs
	budget := func(n int) {
		c.m.MaxLog = 80
		if len(c.m.Log)+n < 80 {
			c.m.MaxLog = len(c.m.Log) + n
		}
	}
	// pure helpers
	budget(12)
	c.c13BitAtAll(r, pick(150, 3000))
	budget(6)
	if th {
		c.c13TransposeAll(r, []int{8, 16, 24, 64, 128, 136, 256, 296, 880}, 5)
	} else {
		c.c13TransposeAll(r, []int{8, 16, 64, 128, 136, 880}, 2)
	}
	budget(12)
	c.c13FieldAll(r, pick(60, 3000))
	budget(6)
	var noise []*big.Int
	var noiseNonce []byte
	for k := 0; k < pick(3, 40); k++ {
		nn := randBytes(r, 1+r.Intn(8))
		g := c.c13GadgetCase(nn)
		if g != nil && len(g) == c13GadgetLen {
			noise, noiseNonce = g[256:], nn
		}
	}
	if noise != nil {
		c.c13EncodeAll(rd, r, noise, noiseNonce)
	}

	budget(80)
	// real runs
	c.c13RandomOTAll(rd, r, pick(6, 60))
	nSetups := pick(2, 4)
	for s := 0; s < nSetups; s++ {
		e := c.c13NewEnv(rd, r.Int63())
		if e == nil {
			continue
		}
		e.correAll(r, s)
		e.extendedAll(r, s)
		e.additiveAll(r, s)
		e.multiplyAll(r, s)
		e.alterAll(r, s)
	}
	c.c13SetupAlterAll(rd, r, pick(1, 4))
	// executions overlapping in one process (c13_conc.go)
	c.c13ConcAll(rd, r)
	// caller-owned inputs: rows of one choice matrix, transport buffers, shared scalar objects (c13_alias.go)
	c.c13AliasAll(rd, r)
}
