package main

// c03_oracle.go -- library-independent oracles for C03/C04:
//   * signatures are judged by the Coq reference verifier (ops ref.ecdsa_verify / ref.bip340_verify / ref.schnorr_verify_c);
//     if an op is missing from the op table the harness falls back to the plain math/big textbook check below
//     (FALLBACK, clearly marked; it is also cross-checked against the model on every judged signature);
//   * key material is judged with the model's polynomial ops (poly.id_scalar, poly.interpolate0, poly.lagrange_all)
//     plus reference curve arithmetic (ref.base_mul / ref.pt_mul / ref.pt_add).

import (
	"bytes"
	"crypto/sha256"
	"encoding"
	"fmt"
	"math/big"
	"reflect"
	"sort"
	"strings"
	"unsafe"

	"github.com/taurusgroup/multi-party-sig/pkg/ecdsa"
	"github.com/taurusgroup/multi-party-sig/pkg/hash"
	"github.com/taurusgroup/multi-party-sig/pkg/math/curve"
	"github.com/taurusgroup/multi-party-sig/pkg/math/sample"
	"github.com/taurusgroup/multi-party-sig/pkg/party"
	"github.com/taurusgroup/multi-party-sig/pkg/taproot"
	"github.com/taurusgroup/multi-party-sig/protocols/cmp"
	"github.com/taurusgroup/multi-party-sig/protocols/doerner"
	"github.com/taurusgroup/multi-party-sig/protocols/frost"

	"verifharness/sx"
)

// ---------------------------------------------------------------------------------------------
// FALLBACK: textbook secp256k1 over math/big (affine, no library code)

var (
	c03TbP, _  = new(big.Int).SetString("fffffffffffffffffffffffffffffffffffffffffffffffffffffffefffffc2f", 16)
	c03TbQ, _  = new(big.Int).SetString("fffffffffffffffffffffffffffffffebaaedce6af48a03bbfd25e8cd0364141", 16)
	c03TbGx, _ = new(big.Int).SetString("79be667ef9dcbbac55a06295ce870b07029bfcdb2dce28d959f2815b16f81798", 16)
	c03TbGy, _ = new(big.Int).SetString("483ada7726a3c4655da4fbfc0e1108a8fd17b448a68554199c47d08ffb10d4b8", 16)
)

// tbPt: nil X = point at infinity
type c03TbPt struct{ X, Y *big.Int }

func c03TbG() c03TbPt       { return c03TbPt{c03TbGx, c03TbGy} }
func (a c03TbPt) inf() bool { return a.X == nil }
func (a c03TbPt) eq(b c03TbPt) bool {
	if a.inf() || b.inf() {
		return a.inf() && b.inf()
	}
	return a.X.Cmp(b.X) == 0 && a.Y.Cmp(b.Y) == 0
}
func (a c03TbPt) neg() c03TbPt {
	if a.inf() {
		return a
	}
	return c03TbPt{a.X, new(big.Int).Mod(new(big.Int).Neg(a.Y), c03TbP)}
}
func (a c03TbPt) onCurve() bool {
	if a.inf() {
		return true
	}
	l := new(big.Int).Mul(a.Y, a.Y)
	r := new(big.Int).Mul(a.X, a.X)
	r.Mul(r, a.X).Add(r, big.NewInt(7))
	return l.Sub(l, r).Mod(l, c03TbP).Sign() == 0
}

func c03TbAdd(a, b c03TbPt) c03TbPt {
	if a.inf() {
		return b
	}
	if b.inf() {
		return a
	}
	var lam *big.Int
	if a.X.Cmp(b.X) == 0 {
		if new(big.Int).Mod(new(big.Int).Add(a.Y, b.Y), c03TbP).Sign() == 0 {
			return c03TbPt{}
		}
		num := new(big.Int).Mul(a.X, a.X)
		num.Mul(num, big.NewInt(3))
		den := new(big.Int).Lsh(a.Y, 1)
		lam = num.Mul(num, den.ModInverse(den, c03TbP))
	} else {
		num := new(big.Int).Sub(b.Y, a.Y)
		den := new(big.Int).Sub(b.X, a.X)
		den.Mod(den, c03TbP)
		lam = num.Mul(num, den.ModInverse(den, c03TbP))
	}
	lam.Mod(lam, c03TbP)
	x := new(big.Int).Mul(lam, lam)
	x.Sub(x, a.X).Sub(x, b.X).Mod(x, c03TbP)
	y := new(big.Int).Sub(a.X, x)
	y.Mul(y, lam).Sub(y, a.Y).Mod(y, c03TbP)
	return c03TbPt{x, y}
}

func c03TbMul(k *big.Int, a c03TbPt) c03TbPt {
	k = new(big.Int).Mod(k, c03TbQ)
	r := c03TbPt{}
	for i := k.BitLen() - 1; i >= 0; i-- {
		r = c03TbAdd(r, r)
		if k.Bit(i) == 1 {
			r = c03TbAdd(r, a)
		}
	}
	return r
}

// tbLiftX: the point with the given x and even (odd=false) / odd y
func c03TbLiftX(x *big.Int, odd bool) (c03TbPt, bool) {
	if x.Sign() < 0 || x.Cmp(c03TbP) >= 0 {
		return c03TbPt{}, false
	}
	r := new(big.Int).Mul(x, x)
	r.Mul(r, x).Add(r, big.NewInt(7)).Mod(r, c03TbP)
	e := new(big.Int).Add(c03TbP, big.NewInt(1))
	e.Rsh(e, 2)
	y := new(big.Int).Exp(r, e, c03TbP)
	if new(big.Int).Mod(new(big.Int).Mul(y, y), c03TbP).Cmp(r) != 0 {
		return c03TbPt{}, false
	}
	if (y.Bit(0) == 1) != odd {
		y.Sub(c03TbP, y)
	}
	return c03TbPt{new(big.Int).Set(x), y}, true
}

func c03TbDecompress(b []byte) (c03TbPt, bool) {
	if len(b) != 33 || (b[0] != 2 && b[0] != 3) {
		return c03TbPt{}, false
	}
	return c03TbLiftX(new(big.Int).SetBytes(b[1:]), b[0] == 3)
}

func c03TbFromHash(h []byte) *big.Int {
	if len(h) > 32 {
		h = h[:32]
	}
	return new(big.Int).Mod(new(big.Int).SetBytes(h), c03TbQ)
}

// FALLBACK textbook verifiers
func c03TbEcdsaVerify(X, R c03TbPt, s, m *big.Int) bool {
	if X.inf() || R.inf() || !X.onCurve() || !R.onCurve() {
		return false
	}
	r := new(big.Int).Mod(R.X, c03TbQ)
	s = new(big.Int).Mod(s, c03TbQ)
	if r.Sign() == 0 || s.Sign() == 0 {
		return false
	}
	si := new(big.Int).ModInverse(s, c03TbQ)
	u1 := new(big.Int).Mul(m, si)
	u2 := new(big.Int).Mul(r, si)
	return c03TbAdd(c03TbMul(u1, c03TbG()), c03TbMul(u2, X)).eq(R)
}

func c03TbSchnorrVerifyC(Y, R c03TbPt, z, c *big.Int) bool {
	return c03TbMul(z, c03TbG()).eq(c03TbAdd(R, c03TbMul(c, Y)))
}

func c03TbTagged(tag string, parts ...[]byte) []byte {
	t := sha256.Sum256([]byte(tag))
	h := sha256.New()
	h.Write(t[:])
	h.Write(t[:])
	for _, p := range parts {
		h.Write(p)
	}
	return h.Sum(nil)
}

func c03TbBip340Verify(pk, msg, sig []byte) bool {
	if len(pk) != 32 || len(sig) != 64 {
		return false
	}
	P, ok := c03TbLiftX(new(big.Int).SetBytes(pk), false)
	if !ok {
		return false
	}
	r, s := new(big.Int).SetBytes(sig[:32]), new(big.Int).SetBytes(sig[32:])
	if r.Cmp(c03TbP) >= 0 || s.Cmp(c03TbQ) >= 0 {
		return false
	}
	e := new(big.Int).Mod(new(big.Int).SetBytes(c03TbTagged("BIP0340/challenge", sig[:32], pk, msg)), c03TbQ)
	R := c03TbAdd(c03TbMul(s, c03TbG()), c03TbMul(e, P).neg())
	return !R.inf() && R.Y.Bit(0) == 0 && R.X.Cmp(r) == 0
}

// ---------------------------------------------------------------------------------------------
// bridging library values to integers / model values

func c03BinOf(x interface{}) []byte {
	bm, ok := x.(encoding.BinaryMarshaler)
	if !ok || x == nil || (reflect.ValueOf(x).Kind() == reflect.Ptr && reflect.ValueOf(x).IsNil()) {
		return nil
	}
	var b []byte
	func() {
		defer func() { _ = recover() }()
		b, _ = bm.MarshalBinary()
	}()
	return b
}

func c03PtOf(p curve.Point) (c03TbPt, bool) {
	if p == nil {
		return c03TbPt{}, false
	}
	ident := false
	func() {
		defer func() { _ = recover() }()
		ident = p.IsIdentity()
	}()
	if ident {
		return c03TbPt{}, true
	}
	return c03TbDecompress(c03BinOf(p))
}

func c03ScOf(s curve.Scalar) *big.Int {
	b := c03BinOf(s)
	if b == nil {
		return nil
	}
	return new(big.Int).SetBytes(b)
}

func c03PtSx(p c03TbPt) sx.V {
	if p.inf() {
		return sx.List()
	}
	return sx.List(sx.Big(p.X), sx.Big(p.Y))
}

func c03SxPt(v sx.V) (c03TbPt, bool) {
	if v.Kind != 2 {
		return c03TbPt{}, false
	}
	if len(v.L) == 0 {
		return c03TbPt{}, true
	}
	if len(v.L) == 2 && v.L[0].Kind == 0 && v.L[1].Kind == 0 {
		return c03TbPt{v.L[0].Z, v.L[1].Z}, true
	}
	return c03TbPt{}, false
}

// oracle bundles the model client with fallback bookkeeping
type c03Oracle struct {
	c        *ctx
	fallback map[string]int // op -> number of times the textbook fallback had to be used
	logged   map[string]int // op -> calls that entered the cases.v log
	disagree []string       // model vs textbook disagreements (harness self-check)
}

func newC03Oracle(c *ctx) *c03Oracle {
	return &c03Oracle{c: c, fallback: map[string]int{}, logged: map[string]int{}}
}

// logBudget: how many calls per op may enter cases.v (the vm_compute re-evaluation of a secp256k1 scalar
// multiplication takes several seconds, so only a few curve-heavy cases are logged; cheap ops more freely)
var c03LogBudget = map[string]int{"ref.ecdsa_verify": 1, "ref.schnorr_verify_c": 1, "ref.bip340_verify": 1, "ref.pt_add": 2,
	"ref.base_mul": 0, "ref.pt_mul": 0, "ref.from_hash": 2, "poly.id_scalar": 3, "poly.lagrange_all": 2, "poly.interpolate0": 2}

// call returns (reply, true) or (_, false) if the op is unavailable
func (o *c03Oracle) call(op string, arg sx.V) (sx.V, bool) {
	saved := o.c.m.MaxLog
	if o.logged[op] >= c03LogBudget[op] {
		o.c.m.MaxLog = 0
	}
	before := len(o.c.m.Log)
	v, err := o.c.m.Call(op, arg)
	if len(o.c.m.Log) > before {
		o.logged[op]++
	}
	o.c.m.MaxLog = saved
	if err != nil {
		o.fallback[op]++
		return sx.V{}, false
	}
	return v, true
}

func (o *c03Oracle) cross(op string, model, textbook bool) bool {
	if model != textbook {
		o.disagree = append(o.disagree, fmt.Sprintf("%s: model=%v textbook=%v", op, model, textbook))
	}
	return model
}

func (o *c03Oracle) ecdsaVerify(X, R c03TbPt, s *big.Int, msgHash []byte) bool {
	m := c03TbFromHash(msgHash)
	if v, ok := o.call("ref.from_hash", sx.Bytes(msgHash)); ok && v.Kind == 0 {
		if v.Z.Cmp(m) != 0 {
			o.disagree = append(o.disagree, "ref.from_hash differs from textbook")
		}
		m = v.Z
	}
	tb := c03TbEcdsaVerify(X, R, s, m)
	if v, ok := o.call("ref.ecdsa_verify", sx.List(c03PtSx(X), c03PtSx(R), sx.Big(s), sx.Big(m))); ok {
		return o.cross("ref.ecdsa_verify", v.AsBool(), tb)
	}
	return tb // FALLBACK
}

func (o *c03Oracle) schnorrVerifyC(Y, R c03TbPt, z, cc *big.Int) bool {
	tb := c03TbSchnorrVerifyC(Y, R, z, cc)
	if v, ok := o.call("ref.schnorr_verify_c", sx.List(c03PtSx(Y), c03PtSx(R), sx.Big(z), sx.Big(cc))); ok {
		return o.cross("ref.schnorr_verify_c", v.AsBool(), tb)
	}
	return tb // FALLBACK
}

func (o *c03Oracle) bip340Verify(pk, msg, sig []byte) bool {
	tb := c03TbBip340Verify(pk, msg, sig)
	if v, ok := o.call("ref.bip340_verify", sx.List(sx.Bytes(pk), sx.Bytes(msg), sx.Bytes(sig))); ok {
		return o.cross("ref.bip340_verify", v.AsBool(), tb)
	}
	return tb // FALLBACK
}

func (o *c03Oracle) baseMul(k *big.Int) c03TbPt {
	if v, ok := o.call("ref.base_mul", sx.Big(new(big.Int).Mod(k, c03TbQ))); ok {
		if p, ok2 := c03SxPt(v); ok2 {
			return p
		}
	}
	return c03TbMul(k, c03TbG()) // FALLBACK
}

func (o *c03Oracle) ptMul(k *big.Int, P c03TbPt) c03TbPt {
	if v, ok := o.call("ref.pt_mul", sx.List(sx.Big(new(big.Int).Mod(k, c03TbQ)), c03PtSx(P))); ok {
		if p, ok2 := c03SxPt(v); ok2 {
			return p
		}
	}
	return c03TbMul(k, P) // FALLBACK
}

func (o *c03Oracle) ptAdd(A, B c03TbPt) c03TbPt {
	if v, ok := o.call("ref.pt_add", sx.List(c03PtSx(A), c03PtSx(B))); ok {
		if p, ok2 := c03SxPt(v); ok2 {
			return p
		}
	}
	return c03TbAdd(A, B) // FALLBACK
}

func (o *c03Oracle) idScalar(id party.ID) *big.Int {
	if v, ok := o.call("poly.id_scalar", sx.List(sx.Big(c03TbQ), sx.Bytes([]byte(id)))); ok && v.Kind == 0 {
		return v.Z
	}
	// FALLBACK: the library's own definition (big-endian bytes of the id reduced mod q)
	return new(big.Int).Mod(new(big.Int).SetBytes([]byte(id)), c03TbQ)
}

// lagrangeAll: coefficients at 0 for the given abscissae (model op; textbook fallback)
func (o *c03Oracle) lagrangeAll(xs []*big.Int) []*big.Int {
	l := make([]sx.V, len(xs))
	for i, x := range xs {
		l[i] = sx.Big(x)
	}
	if v, ok := o.call("poly.lagrange_all", sx.List(sx.Big(c03TbQ), sx.List(l...))); ok && v.Kind == 2 && len(v.L) == len(xs) {
		out := make([]*big.Int, len(xs))
		for i := range out {
			out[i] = v.L[i].Z
		}
		return out
	}
	out := make([]*big.Int, len(xs)) // FALLBACK
	for j := range xs {
		num, den := big.NewInt(1), big.NewInt(1)
		for k := range xs {
			if k != j {
				num.Mul(num, xs[k]).Mod(num, c03TbQ)
				d := new(big.Int).Sub(xs[k], xs[j])
				den.Mul(den, d.Mod(d, c03TbQ)).Mod(den, c03TbQ)
			}
		}
		out[j] = num.Mul(num, den.ModInverse(den, c03TbQ)).Mod(num, c03TbQ)
	}
	return out
}

func (o *c03Oracle) interpolate0(xs, ys []*big.Int) *big.Int {
	lx, ly := make([]sx.V, len(xs)), make([]sx.V, len(ys))
	for i := range xs {
		lx[i], ly[i] = sx.Big(xs[i]), sx.Big(ys[i])
	}
	if v, ok := o.call("poly.interpolate0", sx.List(sx.Big(c03TbQ), sx.List(lx...), sx.List(ly...))); ok && v.Kind == 0 {
		return v.Z
	}
	s := new(big.Int) // FALLBACK
	for j, l := range o.lagrangeAll(xs) {
		s.Add(s, new(big.Int).Mul(l, ys[j])).Mod(s, c03TbQ)
	}
	return s
}

// ---------------------------------------------------------------------------------------------
// signature oracles

// unexportedField reads field `name` of struct value v (copy made addressable) even if unexported
func c03UnexportedField(v interface{}, name string) interface{} {
	rv := reflect.ValueOf(v)
	cp := reflect.New(rv.Type()).Elem()
	cp.Set(rv)
	f := cp.FieldByName(name)
	if !f.IsValid() {
		return nil
	}
	return reflect.NewAt(f.Type(), unsafe.Pointer(f.UnsafeAddr())).Elem().Interface()
}

// frostChallenge recomputes c = H(R, Y, m) as the signature scheme defines it (transcript hash of C19)
func c03FrostChallenge(R, Y curve.Point, m []byte) *big.Int {
	h := hash.New()
	_ = h.WriteAny(R, Y, &hash.BytesWithDomain{TheDomain: "messageHash", Bytes: m})
	return c03ScOf(sample.Scalar(h.Digest(), curve.Secp256k1{}))
}

// judgeSignature: returns "" if res is a valid signature on msg under the group key recorded at key generation.
// libSays is the library's own verdict (for the correspondence counter).
func (o *c03Oracle) judgeSignature(res interface{}, groupKey interface{}, msg []byte) (bad string, libSays bool, judged bool) {
	defer func() {
		if r := recover(); r != nil {
			bad, judged = fmt.Sprintf("oracle panicked on result %T: %v", res, r), true
		}
	}()
	switch sig := res.(type) {
	case frost.Signature:
		Y := groupKey.(curve.Point)
		z, _ := c03UnexportedField(sig, "z").(curve.Scalar)
		if sig.R == nil || z == nil {
			return "FROST signature with nil component", false, true
		}
		libSays = sig.Verify(Y, msg)
		Yp, ok1 := c03PtOf(Y)
		Rp, ok2 := c03PtOf(sig.R)
		if !ok1 || !ok2 {
			return "FROST signature: R or Y is not a curve point", libSays, true
		}
		if !o.schnorrVerifyC(Yp, Rp, c03ScOf(z), c03FrostChallenge(sig.R, Y, msg)) {
			return "FROST signature does not satisfy z*G = R + c*Y for the agreed message and group key", libSays, true
		}
		return "", libSays, true
	case taproot.Signature:
		pk := groupKey.([]byte)
		libSays = taproot.PublicKey(pk).Verify(sig, msg)
		if !o.bip340Verify(pk, msg, []byte(sig)) {
			return "taproot signature is not a valid BIP-340 signature for the agreed message and key", libSays, true
		}
		return "", libSays, true
	case *ecdsa.Signature:
		if sig == nil || sig.R == nil || sig.S == nil {
			return "ECDSA signature with nil component", false, true
		}
		X := groupKey.(curve.Point)
		libSays = sig.Verify(X, msg)
		Xp, ok1 := c03PtOf(X)
		Rp, ok2 := c03PtOf(sig.R)
		if !ok1 || !ok2 {
			return "ECDSA signature: R or X is not a curve point", libSays, true
		}
		if !o.ecdsaVerify(Xp, Rp, c03ScOf(sig.S), msg) {
			return "ECDSA signature invalid for the agreed message hash and group key", libSays, true
		}
		return "", libSays, true
	case ecdsa.Signature:
		return o.judgeSignature(&sig, groupKey, msg)
	}
	return fmt.Sprintf("unexpected result type %T for a signing session", res), false, true
}

// ---------------------------------------------------------------------------------------------
// key-material oracles

type c03KeyView struct {
	ID     party.ID
	Thr    int
	Share  *big.Int
	Group  c03TbPt // group key as a point (taproot: lifted even-y point)
	GroupB []byte  // canonical bytes of the group key as stored
	Table  map[party.ID][]byte
	Extra  map[string][]byte    // further fields that must be equal across parties (chain key, rid, Paillier/Pedersen publics)
	Own    map[string][2][]byte // name -> (derived-from-secret, public entry) pairs that must match, as bytes
}

func c03SortedIDs(m map[party.ID][]byte) []party.ID {
	var out []party.ID
	for k := range m {
		out = append(out, k)
	}
	sort.Slice(out, func(i, j int) bool { return out[i] < out[j] })
	return out
}

func c03Subsets(n, k int, f func([]int)) {
	idx := make([]int, k)
	var rec func(start, d int)
	rec = func(start, d int) {
		if d == k {
			f(append([]int{}, idx...))
			return
		}
		for i := start; i < n; i++ {
			idx[d] = i
			rec(i+1, d+1)
		}
	}
	rec(0, 0)
}

// judgeKeyMaterial: consistency of the key material held by the honest finishers (C02's checker restricted to them).
// expectGroup (optional) = group key that must be preserved (refresh).
func (o *c03Oracle) judgeKeyMaterial(views []c03KeyView, all []party.ID, thr int, expectGroup []byte) []string {
	var bad []string
	if len(views) == 0 {
		return nil
	}
	v0 := views[0]
	for _, v := range views {
		if v.Thr != thr {
			bad = append(bad, fmt.Sprintf("%s: threshold %d, expected %d", v.ID, v.Thr, thr))
		}
		if v.Group.inf() {
			bad = append(bad, fmt.Sprintf("%s: group key is the identity", v.ID))
		}
		if !bytes.Equal(v.GroupB, v0.GroupB) {
			bad = append(bad, fmt.Sprintf("%s and %s hold different group keys", v0.ID, v.ID))
		}
		if expectGroup != nil && !bytes.Equal(v.GroupB, expectGroup) {
			bad = append(bad, fmt.Sprintf("%s: group key changed by the refresh", v.ID))
		}
		if len(v.Table) != len(all) {
			bad = append(bad, fmt.Sprintf("%s: public table has %d entries for %d parties", v.ID, len(v.Table), len(all)))
		}
		for _, id := range all {
			if !bytes.Equal(v.Table[id], v0.Table[id]) {
				bad = append(bad, fmt.Sprintf("%s and %s disagree on the public share of %s", v0.ID, v.ID, id))
			}
		}
		for k, x := range v.Extra {
			if !bytes.Equal(x, v0.Extra[k]) {
				bad = append(bad, fmt.Sprintf("%s and %s disagree on %s", v0.ID, v.ID, k))
			}
		}
		// own share * G = own table entry
		if v.Share != nil {
			own, ok := c03TbDecompress(v.Table[v.ID])
			if !ok || !o.baseMul(v.Share).eq(own) {
				bad = append(bad, fmt.Sprintf("%s: own share * G differs from its entry in the public table", v.ID))
			}
		}
		for k, pr := range v.Own {
			if !bytes.Equal(pr[0], pr[1]) {
				bad = append(bad, fmt.Sprintf("%s: own %s does not match its public entry", v.ID, k))
			}
		}
	}
	if len(bad) > 0 {
		return bad
	}
	// threshold structure: every (t+1)-subset of the table interpolates (in the exponent) to the group key
	ids := c03SortedIDs(v0.Table)
	if thr+1 <= len(ids) && len(ids) <= 6 {
		c03Subsets(len(ids), thr+1, func(sel []int) {
			xs := make([]*big.Int, len(sel))
			for i, k := range sel {
				xs[i] = o.idScalar(ids[k])
			}
			acc := c03TbPt{}
			for i, l := range o.lagrangeAll(xs) {
				p, ok := c03TbDecompress(v0.Table[ids[sel[i]]])
				if !ok {
					bad = append(bad, fmt.Sprintf("table entry of %s is not a point", ids[sel[i]]))
					return
				}
				acc = o.ptAdd(acc, o.ptMul(l, p))
			}
			if !acc.eq(v0.Group) {
				names := []string{}
				for _, k := range sel {
					names = append(names, string(ids[k]))
				}
				bad = append(bad, "public shares of {"+strings.Join(names, ",")+"} do not interpolate to the group key")
			}
		})
	}
	// the honest finishers' secret shares reconstruct the group secret
	var hv []c03KeyView
	for _, v := range views {
		if v.Share != nil {
			hv = append(hv, v)
		}
	}
	if len(hv) >= thr+1 {
		hv = hv[:thr+1]
		xs, ys := make([]*big.Int, len(hv)), make([]*big.Int, len(hv))
		for i, v := range hv {
			xs[i], ys[i] = o.idScalar(v.ID), v.Share
		}
		if !o.baseMul(o.interpolate0(xs, ys)).eq(v0.Group) {
			bad = append(bad, "the honest finishers' secret shares do not reconstruct the secret of the group key")
		}
	}
	return bad
}

func c03PointMapBytes(m map[party.ID]curve.Point) map[party.ID][]byte {
	out := map[party.ID][]byte{}
	for k, v := range m {
		out[k] = c03BinOf(v)
	}
	return out
}

func c03FrostKeyView(res interface{}) (c03KeyView, bool) {
	switch c := res.(type) {
	case *frost.Config:
		g, _ := c03PtOf(c.PublicKey)
		kv := c03KeyView{ID: c.ID, Thr: c.Threshold, Share: c03ScOf(c.PrivateShare), Group: g, GroupB: c03BinOf(c.PublicKey),
			Table: map[party.ID][]byte{}, Extra: map[string][]byte{"chain key": c.ChainKey}}
		if c.VerificationShares != nil {
			kv.Table = c03PointMapBytes(c.VerificationShares.Points)
		}
		return kv, true
	case *frost.TaprootConfig:
		g, _ := c03TbLiftX(new(big.Int).SetBytes(c.PublicKey), false)
		kv := c03KeyView{ID: c.ID, Thr: c.Threshold, Share: c03ScOf(c.PrivateShare), Group: g, GroupB: append([]byte{}, c.PublicKey...),
			Table: map[party.ID][]byte{}, Extra: map[string][]byte{"chain key": c.ChainKey}}
		for k, v := range c.VerificationShares {
			kv.Table[k] = c03BinOf(v)
		}
		return kv, true
	}
	return c03KeyView{}, false
}

func c03CmpKeyView(res interface{}) (c03KeyView, bool) {
	c, ok := res.(*cmp.Config)
	if !ok || c == nil {
		return c03KeyView{}, false
	}
	kv := c03KeyView{ID: c.ID, Thr: c.Threshold, Share: c03ScOf(c.ECDSA), Table: map[party.ID][]byte{},
		Extra: map[string][]byte{"rid": c.RID, "chain key": c.ChainKey}, Own: map[string][2][]byte{}}
	var pp curve.Point
	func() {
		defer func() { _ = recover() }()
		pp = c.PublicPoint()
	}()
	if pp != nil {
		kv.Group, _ = c03PtOf(pp)
		kv.GroupB = c03BinOf(pp)
	}
	for id, p := range c.Public {
		kv.Table[id] = c03BinOf(p.ECDSA)
		kv.Extra["ElGamal/"+string(id)] = c03BinOf(p.ElGamal)
		if p.Paillier != nil {
			kv.Extra["Paillier N/"+string(id)] = p.Paillier.N().Big().Bytes()
		}
		if p.Pedersen != nil {
			kv.Extra["Pedersen/"+string(id)] = append(append(p.Pedersen.N().Big().Bytes(), p.Pedersen.S().Big().Bytes()...), p.Pedersen.T().Big().Bytes()...)
		}
	}
	if self := c.Public[c.ID]; self != nil {
		if c.ElGamal != nil {
			kv.Own["ElGamal key"] = [2][]byte{c03BinOf(c.ElGamal.ActOnBase()), c03BinOf(self.ElGamal)}
		}
		if c.Paillier != nil && self.Paillier != nil {
			n := new(big.Int).Mul(c.Paillier.P().Big(), c.Paillier.Q().Big())
			kv.Own["Paillier modulus"] = [2][]byte{n.Bytes(), self.Paillier.N().Big().Bytes()}
		}
	}
	return kv, true
}

// doerner: with one honest party there is nothing to compare with; the stored group key must be a non-identity point
func c03DoernerKeyCheck(res interface{}) []string {
	var pub curve.Point
	switch c := res.(type) {
	case *doerner.ConfigReceiver:
		pub = c.Public
	case *doerner.ConfigSender:
		pub = c.Public
	default:
		return []string{fmt.Sprintf("unexpected result type %T", res)}
	}
	if p, ok := c03PtOf(pub); !ok || p.inf() {
		return []string{"group key is the identity or not a curve point"}
	}
	return nil
}

// judgePresignatures: honest finishers must hold the same public part; the public part must satisfy
// sum_j RBar_j = G, sum_j S_j = X, and own k*R = RBar[self], chi*R = S[self].
func (o *c03Oracle) judgePresignatures(res map[party.ID]interface{}, groupKey curve.Point) []string {
	var bad []string
	var first *ecdsa.PreSignature
	var firstID party.ID
	ids := make([]party.ID, 0, len(res))
	for id := range res {
		ids = append(ids, id)
	}
	sort.Slice(ids, func(i, j int) bool { return ids[i] < ids[j] })
	X, _ := c03PtOf(groupKey)
	for _, id := range ids {
		p, ok := res[id].(*ecdsa.PreSignature)
		if !ok || p == nil || p.R == nil || p.RBar == nil || p.S == nil {
			bad = append(bad, fmt.Sprintf("%s: result %T is not a complete presignature", id, res[id]))
			continue
		}
		if first == nil {
			first, firstID = p, id
		} else {
			if !bytes.Equal(c03BinOf(p.R), c03BinOf(first.R)) || !bytes.Equal(p.ID, first.ID) {
				bad = append(bad, fmt.Sprintf("%s and %s hold different presignature R / ID", firstID, id))
			}
			for j, q := range first.RBar.Points {
				if !bytes.Equal(c03BinOf(q), c03BinOf(p.RBar.Points[j])) || !bytes.Equal(c03BinOf(first.S.Points[j]), c03BinOf(p.S.Points[j])) {
					bad = append(bad, fmt.Sprintf("%s and %s disagree on RBar/S of %s", firstID, id, j))
				}
			}
		}
		R, okR := c03PtOf(p.R)
		if !okR || R.inf() {
			bad = append(bad, fmt.Sprintf("%s: presignature R is the identity", id))
			continue
		}
		sumRBar, sumS := c03TbPt{}, c03TbPt{}
		for _, q := range p.RBar.Points {
			x, _ := c03PtOf(q)
			sumRBar = o.ptAdd(sumRBar, x)
		}
		for _, q := range p.S.Points {
			x, _ := c03PtOf(q)
			sumS = o.ptAdd(sumS, x)
		}
		if !sumRBar.eq(c03TbG()) {
			bad = append(bad, fmt.Sprintf("%s: sum of RBar_j is not the generator", id))
		}
		if !sumS.eq(X) {
			bad = append(bad, fmt.Sprintf("%s: sum of S_j is not the group key", id))
		}
		own, _ := c03PtOf(p.RBar.Points[id])
		if !o.ptMul(c03ScOf(p.KShare), R).eq(own) {
			bad = append(bad, fmt.Sprintf("%s: k_i*R differs from RBar_i", id))
		}
		ownS, _ := c03PtOf(p.S.Points[id])
		if !o.ptMul(c03ScOf(p.ChiShare), R).eq(ownS) {
			bad = append(bad, fmt.Sprintf("%s: chi_i*R differs from S_i", id))
		}
	}
	return bad
}
