package main

// C18 lockstep -- the REAL goroutines of pkg/pool are forced through model schedules.
//
// pkg/pool (build tag verif, hook patch work/poolhook/01-pool-yield-hook.diff) calls yield(point, worker) immediately
// before every operation on shared state. The scheduler below installs pool.VerifYield, parks every goroutine at its
// yield point and releases exactly the goroutine(s) that the schedule names; after the release it waits until they are
// parked again (or have returned) and projects the real state: caller pc class, *ctr (pool.VerifExpose), the result
// slots written so far, every worker's pc class, commands received, notifications delivered, invocations of the search
// function. The same schedule is given to the Coq model (pool.trace, variant V1 = the current pool.go; pool.run_calls
// for the second of two consecutive calls) and the two state sequences are compared entry by entry, together with the
// "enabled" bit of every goroutine in every state on the way.
//
// Point mapping (yield point -> model pc, coq/Model/Pool.v; the numbers are the tags printed by DispatchPool.print_state):
//   worker k = gid k+1:  0 WIdle (before the receive of `range commands`)      1 WPar (before results[i] = f(i))
//                        2 WParDec (before AddInt64)     3 WSLoad (before LoadInt64, every evaluation of the loop test)
//                        4 WSRun (before f())   5 WSDec (before AddInt64)   6 WSWrite (before `if i >= 0 {results[i] = res}`)
//                        7 WNotify (before ctrChanged <- struct{}{})        8 WExit (after the range loop; TearDown only)
//   caller = gid 0:     10 CSelect (before the select)   11 CWait (before the test of the wait loop)
//                       12 CRecv (before <-ctrChanged)   13 CReturn (before return; the scheduler lets the caller run on
//                       to the actual return at once, "returned" is also what a caller that returns elsewhere shows)
// Model steps -> releases:
//   gid 0 at CWait                    : release the caller alone (local test done < n); it parks at 12 or 13.
//   gid k+1 at a local pc 1..6        : release worker k alone; it parks at its next point.
//   gid k+1 at WIdle, caller CSelect  : rendezvous on `commands` = ONE joint model step: release worker k (it blocks in the
//                                       receive) AND the caller (it enters the select). Every other goroutine is parked at a
//                                       yield, not at a channel, so the send to worker k is the only ready case. Wait for both:
//                                       worker at 1 / 3, caller at 10 (more commands) or 11.
//   gid k+1 at WNotify, caller CSelect/CRecv (same call) : rendezvous on ctrChanged, joint step: release both, wait for both:
//                                       worker at 0, caller at 10 (select loop) resp. 11 (wait loop).
//   anything else is "not enabled" (the model skips such schedule entries; the scheduler does not touch the goroutines).
// Enumeration: (a) for every configuration all maximal schedules of one call depth-first by replay from a fresh pool, up to a
// cap; where the cap cuts this off, (b) an enumeration to state coverage: every reachable state of the real goroutines
// (key = projected state + what each worker holds in its locals) is entered and every enabled step is taken from it at
// least once; the notes compare the number of model states met with the model's own exhaustive count (pool.explore);
// (c) uniformly random schedules for w <= 4, c <= 5 and random nil tapes; (d) two or three consecutive calls on one pool.
// Every run ends with TearDown and checks that every worker leaves its loop (point 8).
// The hooks are process-wide: goroutines are recognised by goroutine id (workers: started by the goroutine that drives
// the run; caller: registered by the harness), so other pools of the process pass through untouched.
// Violations: a state / enabled-bit difference is a correspondence violation (replay = calls with their schedules);
// a released goroutine that never parks, a quiescent state with the caller inside the call (deadlock), a worker that is
// not back at its receive when nothing can move (lost worker), a wrong result, a worker that does not exit on TearDown
// are property violations, judged on the real goroutines only.

import (
	"bytes"
	"fmt"
	"runtime"
	"sort"
	"strings"
	"sync"
	"sync/atomic"
	"time"

	"github.com/taurusgroup/multi-party-sig/pkg/pool"

	"verifharness/sx"
)

const (
	lsWIdle   = 0
	lsWNotify = 7
	lsWExit   = 8
	lsCSelect = 10
	lsCWait   = 11
	lsCRecv   = 12
	lsCReturn = 13
	lsRunning = -1
	lsGone    = -2 // the goroutine has returned
)

var lsKindName = [2]string{"parallelize", "search"}

type lsEv struct{ g, point int }

// one call on the pool: kind 0 Parallelize / 1 Search, the answers of the first invocations of the search function
// (nil = "keep searching"), and, for replay, the schedule.
type c18LsCall struct {
	Kind  int      `json:"kind"`
	Count int      `json:"count"`
	Tape  []*int64 `json:"tape"`
	Sched []int    `json:"sched"`
}

type c18LsReplay struct {
	Mode    string      `json:"mode"` // "lockstep"
	Workers int         `json:"workers"`
	Calls   []c18LsCall `json:"calls"`
	Call    int         `json:"at_call"`
	Step    int         `json:"at_step"`
	What    string      `json:"what"`
	Real    string      `json:"real_state,omitempty"`
	Model   string      `json:"model_state,omitempty"`
}

// projected state (same layout on both sides)
type lsState struct {
	caller  int
	ctr     int64
	results string // "(() (1000))"
	wtags   string // "0 7"
	cmdI    int
	done    int
	epoch   int
	ncalls  int
}

func (s lsState) String() string {
	return fmt.Sprintf("caller=%d ctr=%d results=%s workers=[%s] cmdI=%d done=%d epoch=%d ncalls=%d", s.caller, s.ctr, s.results, s.wtags, s.cmdI, s.done, s.epoch, s.ncalls)
}

type lsEntry struct {
	g  int
	en bool
	st lsState
}

type lsCallOut struct {
	call    c18LsCall // Sched = the entries actually fed to the model (probes of disabled gids included)
	chosen  []int     // the enabled choices only
	entries []lsEntry
	enSets  [][]int // enabled gids before every choice
}

type lsOutcome struct {
	w     int
	calls []*lsCallOut
	// property-level finding on the real goroutines ("" = none)
	pkind, pdesc string
	pcall, pstep int
}

// ---- the scheduler ----

type lsRun struct {
	w       int
	ev      chan lsEv
	wake    []chan struct{}
	at      []int
	pl      *pool.Pool
	ctr     *int64
	results []interface{}
	exposed int
	epoch   int
	kind    int
	cmdI    int
	done    int
	ncalls  int64
	wEpoch  []int
	res     []interface{}
	panicV  interface{}
	handed  map[int64]bool
	lastF   int64    // last non-nil answer of the search function
	waux    []string // what a worker holds in its locals, as far as the harness saw it go in (only used to tell states apart)
	timeout time.Duration
	// which goroutines belong to this run (other pools of the process may be calling the hooks at the same time, e.g.
	// workers of an earlier pool that are still on their way out after TearDown)
	mu    sync.Mutex
	sched uint64         // the goroutine that drives this run and creates the pool
	goids map[uint64]int // goroutine id -> gid
}

var lsCur atomic.Value // *lsRun (nil pointer = pass through)

// The hooks are installed once, before any pool exists in this process (package-level variables are initialised in file
// order and this file precedes cmpsess.go, whose pool starts its workers at once), so that no worker goroutine ever reads
// pool.VerifYield concurrently with this write. Outside c18Lockstep lsCur is nil and both hooks return immediately.
var _ = func() bool {
	pool.VerifYield, pool.VerifExpose = lsYield, lsExpose
	return true
}()

// lsGoid returns the id of the calling goroutine and, if creator is set, of the goroutine that started it
// ("goroutine N [running]: ... created by f in goroutine M"; 0 if the runtime does not print it).
func lsGoid(creator bool) (self, parent uint64) {
	num := func(b []byte) (n uint64) {
		for _, ch := range b {
			if ch < '0' || ch > '9' {
				break
			}
			n = n*10 + uint64(ch-'0')
		}
		return
	}
	if !creator {
		var b [40]byte
		n := runtime.Stack(b[:], false)
		return num(bytes.TrimPrefix(b[:n], []byte("goroutine "))), 0
	}
	b := make([]byte, 8192)
	b = b[:runtime.Stack(b, false)]
	self = num(bytes.TrimPrefix(b, []byte("goroutine ")))
	if i := bytes.LastIndex(b, []byte(" in goroutine ")); i >= 0 && bytes.Contains(b[:i], []byte("created by ")) {
		parent = num(b[i+len(" in goroutine "):])
	}
	return
}

// lsMine maps the calling goroutine to its gid in the run. A worker is adopted at its first yield (point 0) if it was
// started by the goroutine that drives the run (that goroutine is started afresh by c18Lockstep, so it has created no
// other pool); the caller registers itself before it enters the pool.
func (r *lsRun) lsMine(point, worker int) (int, bool) {
	id, _ := lsGoid(false)
	r.mu.Lock()
	g, ok := r.goids[id]
	r.mu.Unlock()
	if ok {
		return g, g == worker+1
	}
	if point != lsWIdle || worker < 0 || worker >= r.w {
		return 0, false
	}
	if _, parent := lsGoid(true); parent != r.sched {
		return 0, false
	}
	r.mu.Lock()
	r.goids[id] = worker + 1
	r.mu.Unlock()
	return worker + 1, true
}

func lsYield(point, worker int) {
	r, _ := lsCur.Load().(*lsRun)
	if r == nil {
		return
	}
	g, ok := r.lsMine(point, worker)
	if !ok {
		return // not a goroutine of the pool under the scheduler
	}
	r.ev <- lsEv{g, point}
	<-r.wake[g]
}

func lsExpose(ctr *int64, results []interface{}) {
	r, _ := lsCur.Load().(*lsRun)
	if r == nil {
		return
	}
	if g, ok := r.lsMine(-1, -1); !ok || g != 0 {
		return
	}
	r.ctr, r.results = ctr, results
	r.exposed++
}

func (r *lsRun) release(g int) {
	r.at[g] = lsRunning
	r.wake[g] <- struct{}{}
}

// await waits until every goroutine in gs has parked again or returned.
func (r *lsRun) await(gs ...int) error {
	pending := len(gs)
	var timer *time.Timer
	for pending > 0 {
		var e lsEv
		select {
		case e = <-r.ev:
		default:
			if timer == nil {
				timer = time.NewTimer(r.timeout)
				defer timer.Stop()
			}
			select {
			case e = <-r.ev:
			case <-timer.C:
				var stuck []string
				for _, g := range gs {
					if r.at[g] == lsRunning {
						stuck = append(stuck, fmt.Sprint(g))
					}
				}
				return fmt.Errorf("goroutine(s) %s released but neither parked at a yield point nor returned within %v", strings.Join(stuck, ","), r.timeout)
			}
		}
		if e.g < 0 || e.g > r.w || r.at[e.g] != lsRunning {
			return fmt.Errorf("goroutine %d reported point %d although it was not released", e.g, e.point)
		}
		r.at[e.g] = e.point
		pending--
	}
	return nil
}

func lsNewRun(w int, timeout time.Duration) (*lsRun, error) {
	r := &lsRun{w: w, ev: make(chan lsEv, w+2), wake: make([]chan struct{}, w+1), at: make([]int, w+1), wEpoch: make([]int, w), waux: make([]string, w), timeout: timeout}
	for g := range r.wake {
		r.wake[g] = make(chan struct{}, 1)
		r.at[g] = lsRunning
	}
	r.at[0] = lsGone // no call yet
	r.goids = map[uint64]int{}
	r.sched, _ = lsGoid(false)
	lsCur.Store(r)
	r.pl = pool.NewPool(w)
	gs := make([]int, w)
	for k := range gs {
		gs[k] = k + 1
	}
	return r, r.await(gs...)
}

func (r *lsRun) startCall(cl c18LsCall) error {
	r.epoch++
	r.kind, r.cmdI, r.done = cl.Kind, 0, 0
	atomic.StoreInt64(&r.ncalls, 0)
	r.res, r.panicV, r.handed = nil, nil, map[int64]bool{}
	r.ctr, r.results = nil, nil
	e := int64(r.epoch)
	tape := cl.Tape
	r.at[0] = lsRunning
	go func() {
		defer func() {
			if p := recover(); p != nil {
				r.panicV = p
			}
			r.ev <- lsEv{0, lsGone}
		}()
		self, _ := lsGoid(false)
		r.mu.Lock()
		r.goids[self] = 0
		r.mu.Unlock()
		if cl.Kind == 0 {
			r.res = r.pl.Parallelize(cl.Count, func(i int) interface{} { return 1000*e + int64(i) })
		} else {
			r.res = r.pl.Search(cl.Count, func() interface{} {
				n := atomic.AddInt64(&r.ncalls, 1) - 1
				if n < int64(len(tape)) {
					if tape[n] == nil {
						return nil
					}
					r.handed[*tape[n]] = true
					r.lastF = *tape[n]
					return *tape[n]
				}
				r.handed[1000*e+n] = true
				r.lastF = 1000*e + n
				return 1000*e + n
			})
		}
	}()
	return r.await(0)
}

func (r *lsRun) enabled(g int) bool {
	if g > r.w {
		return false
	}
	if g == 0 {
		return r.at[0] == lsCWait
	}
	switch p := r.at[g]; {
	case p == lsWIdle:
		return r.at[0] == lsCSelect
	case p == lsWNotify:
		return r.wEpoch[g-1] == r.epoch && (r.at[0] == lsCSelect || r.at[0] == lsCRecv)
	case p >= 1 && p <= 6:
		return true
	}
	return false
}

func (r *lsRun) enabledSet() []int {
	var en []int
	for g := 0; g <= r.w; g++ {
		if r.enabled(g) {
			en = append(en, g)
		}
	}
	return en
}

// step performs the model step of gid g on the real goroutines (g must be enabled).
func (r *lsRun) step(g int) error {
	if g == 0 {
		r.release(0)
		if err := r.await(0); err != nil {
			return err
		}
		if r.at[0] == lsCReturn { // nothing shared happens between this point and the return
			r.release(0)
			return r.await(0)
		}
		return nil
	}
	switch r.at[g] {
	case lsWIdle:
		r.release(g)
		r.release(0)
		if err := r.await(g, 0); err != nil {
			return err
		}
		r.waux[g-1] = ""
		if r.kind == 0 {
			r.waux[g-1] = fmt.Sprint(r.cmdI)
		}
		r.cmdI++ // worker g-1 came out of its receive
		r.wEpoch[g-1] = r.epoch
	case lsWNotify:
		r.release(g)
		r.release(0)
		if err := r.await(g, 0); err != nil {
			return err
		}
		r.done++ // worker g-1 came out of its send
		if r.at[g] == lsWIdle {
			r.wEpoch[g-1] = 0
		}
	default:
		from := r.at[g]
		r.release(g)
		if err := r.await(g); err != nil {
			return err
		}
		switch {
		case from == 4 && r.at[g] == 5:
			r.waux[g-1] = fmt.Sprint(r.lastF)
		case from == 5 && r.at[g] == 6 && r.ctr != nil:
			r.waux[g-1] = fmt.Sprintf("%d,%s", atomic.LoadInt64(r.ctr), r.waux[g-1])
		default:
			r.waux[g-1] = ""
		}
	}
	if r.at[0] == lsCReturn {
		r.release(0)
		return r.await(0)
	}
	return nil
}

func lsFmtSlots(results []interface{}) string {
	var sb strings.Builder
	sb.WriteByte('(')
	for i, x := range results {
		if i > 0 {
			sb.WriteByte(' ')
		}
		if x == nil {
			sb.WriteString("()")
		} else {
			fmt.Fprintf(&sb, "(%v)", x)
		}
	}
	sb.WriteByte(')')
	return sb.String()
}

func (r *lsRun) state() lsState {
	s := lsState{cmdI: r.cmdI, done: r.done, epoch: r.epoch, ncalls: int(atomic.LoadInt64(&r.ncalls))}
	switch r.at[0] {
	case lsCSelect, lsCWait, lsCRecv:
		s.caller = r.at[0] - 10
	default:
		s.caller = 3
	}
	if r.ctr != nil {
		s.ctr = atomic.LoadInt64(r.ctr)
	}
	s.results = lsFmtSlots(r.results)
	tags := make([]string, r.w)
	for k := range tags {
		tags[k] = fmt.Sprint(r.at[k+1])
	}
	s.wtags = strings.Join(tags, " ")
	return s
}

// key identifies the state of the real goroutines for the state-covering enumeration.
func (r *lsRun) key() string {
	return fmt.Sprintf("%v|%v|%v", r.state(), r.waux, r.wEpoch)
}

// checkReturn judges the result of a returned call without the model.
func (r *lsRun) checkReturn(cl c18LsCall) string {
	if r.panicV != nil {
		return fmt.Sprintf("the call panicked: %v", r.panicV)
	}
	if len(r.res) != cl.Count {
		return fmt.Sprintf("%d results for count %d", len(r.res), cl.Count)
	}
	seen := map[int64]bool{}
	for i, x := range r.res {
		if x == nil {
			return fmt.Sprintf("result[%d] is nil: %s", i, lsFmtSlots(r.res))
		}
		v, ok := x.(int64)
		if !ok {
			return fmt.Sprintf("result[%d] = %v is not a value produced by the task function", i, x)
		}
		if cl.Kind == 0 {
			if v != 1000*int64(r.epoch)+int64(i) {
				return fmt.Sprintf("result[%d] = %d, want f(%d) = %d", i, v, i, 1000*int64(r.epoch)+int64(i))
			}
		} else {
			if !r.handed[v] {
				return fmt.Sprintf("result[%d] = %d was not returned by the search function during this call", i, v)
			}
			if seen[v] {
				return fmt.Sprintf("one success (%d) fills two slots: %s", v, lsFmtSlots(r.res))
			}
			seen[v] = true
		}
	}
	return ""
}

// lsExec runs the calls on one fresh pool of w workers. choose picks the next gid among the enabled ones (-1 = stop);
// explicit: replay the schedules in calls instead (entries that are not enabled are skipped, as in the model).
func lsExec(w int, calls []c18LsCall, choose func(r *lsRun, call, depth int, en []int) int, explicit bool, timeout time.Duration) *lsOutcome {
	out := &lsOutcome{w: w}
	fail := func(call, step int, kind, desc string) *lsOutcome {
		out.pkind, out.pdesc, out.pcall, out.pstep = kind, desc, call, step
		lsCur.Store((*lsRun)(nil)) // the goroutines of this run stay parked for good
		return out
	}
	r, err := lsNewRun(w, timeout)
	if err != nil {
		return fail(0, 0, "blocked", "NewPool: "+err.Error())
	}
	for ci, cl := range calls {
		co := &lsCallOut{call: c18LsCall{Kind: cl.Kind, Count: cl.Count, Tape: cl.Tape}}
		out.calls = append(out.calls, co)
		if err := r.startCall(cl); err != nil {
			return fail(ci, 0, "blocked", "start of the call: "+err.Error())
		}
		if r.exposed != ci+1 {
			return fail(ci, 0, "hook", "pool.VerifExpose was not called once at the start of the call")
		}
		do := func(g int) error { // one schedule entry
			en := r.enabled(g)
			if en {
				if err := r.step(g); err != nil {
					return err
				}
				co.chosen = append(co.chosen, g)
			}
			co.call.Sched = append(co.call.Sched, g)
			co.entries = append(co.entries, lsEntry{g, en, r.state()})
			return nil
		}
		if !explicit { // observe the state at the start of the call: gid w+1 is nobody, a skipped entry on both sides
			do(w + 1)
		}
		for depth := 0; ; depth++ {
			if explicit && depth < len(cl.Sched) {
				if g := cl.Sched[depth]; g >= 0 && g <= w+1 {
					if err := do(g); err != nil {
						return fail(ci, len(co.chosen), "blocked", err.Error())
					}
				}
				continue
			}
			en := r.enabledSet()
			if len(en) == 0 {
				break
			}
			if len(co.chosen) >= 4000 {
				return fail(ci, len(co.chosen), "no-termination", "the call is still running after 4000 steps")
			}
			g := en[0] // (a replayed schedule that ends early is completed with the lowest enabled gid)
			if !explicit {
				g = choose(r, ci, depth, en)
			}
			if g < 0 {
				break
			}
			co.enSets = append(co.enSets, en)
			if ci == 0 && !explicit { // probe: the gids that are not enabled here must be skipped by the model as well
				for p := 0; p <= w; p++ {
					if !r.enabled(p) {
						do(p)
					}
				}
			}
			if err := do(g); err != nil {
				return fail(ci, len(co.chosen), "blocked", err.Error())
			}
		}
		// the schedule is over: judge the real goroutines
		quiet := len(r.enabledSet()) == 0
		if r.at[0] != lsGone {
			if quiet {
				return fail(ci, len(co.chosen), "deadlock", fmt.Sprintf("no goroutine can move and the caller is still inside the call: %s", r.state()))
			}
			return fail(ci, len(co.chosen), "incomplete", "the schedule ends before the caller returns")
		}
		if bad := r.checkReturn(cl); bad != "" {
			return fail(ci, len(co.chosen), "bad-result", bad)
		}
		if quiet {
			for k := 0; k < w; k++ {
				if r.at[k+1] != lsWIdle {
					return fail(ci, len(co.chosen), "lost-worker", fmt.Sprintf("the caller has returned, nothing can move, and worker %d is parked at point %d instead of its receive: %s", k, r.at[k+1], r.state()))
				}
			}
		}
	}
	// TearDown: every worker leaves its range loop
	for k := 0; k < w; k++ {
		if r.at[k+1] != lsWIdle {
			return fail(len(calls)-1, 0, "incomplete", "workers still busy at the end of the schedule")
		}
	}
	r.pl.TearDown()
	gs := make([]int, w)
	for k := range gs {
		gs[k] = k + 1
		r.release(k + 1)
	}
	if err := r.await(gs...); err != nil {
		return fail(len(calls)-1, 0, "teardown", err.Error())
	}
	for k := 0; k < w; k++ {
		if r.at[k+1] != lsWExit {
			return fail(len(calls)-1, 0, "teardown", fmt.Sprintf("after TearDown worker %d is at point %d, not at its exit", k, r.at[k+1]))
		}
	}
	lsCur.Store((*lsRun)(nil))
	for k := 0; k < w; k++ {
		r.wake[k+1] <- struct{}{}
	}
	return out
}

// ---- the model side ----

func lsTapeSx(t []*int64) sx.V {
	l := make([]sx.V, len(t))
	for i, x := range t {
		if x == nil {
			l[i] = sx.List()
		} else {
			l[i] = sx.List(sx.Int(*x))
		}
	}
	return sx.List(l...)
}

func lsSchedSx(s []int) sx.V {
	l := make([]sx.V, len(s))
	for i, g := range s {
		l[i] = sx.Int(int64(g))
	}
	return sx.List(l...)
}

func lsModelState(v sx.V) (lsState, error) {
	if v.Kind != 2 || len(v.L) < 9 {
		return lsState{}, fmt.Errorf("unexpected model state %s", v.String())
	}
	s := lsState{caller: v.L[0].AsInt(), ctr: v.L[1].Z.Int64(), results: v.L[2].String(), cmdI: v.L[5].AsInt(), done: v.L[6].AsInt(), epoch: v.L[7].AsInt(), ncalls: v.L[8].AsInt()}
	tags := make([]string, len(v.L[3].L))
	for k, wk := range v.L[3].L {
		if wk.Kind != 2 || len(wk.L) == 0 {
			return lsState{}, fmt.Errorf("unexpected worker %s", wk.String())
		}
		tags[k] = wk.L[0].Z.String()
	}
	s.wtags = strings.Join(tags, " ")
	return s, nil
}

// lsSame: what is compared. The model counts invocations of the task function only for Search.
func lsSame(kind int, real, model lsState) bool {
	if kind == 0 {
		real.ncalls, model.ncalls = 0, 0
	}
	return real == model
}

type lsMismatch struct {
	call, step  int
	what        string
	real, model string
}

// lsCompare replays the schedules of an outcome in the model and compares entry by entry. Returns the number of
// comparisons made and the first disagreement.
func (c *ctx) lsCompare(out *lsOutcome, mstates map[string]bool) (int, *lsMismatch) {
	n := 0
	if len(out.calls) == 0 {
		return 0, nil
	}
	co := out.calls[0]
	if len(co.entries) > 0 {
		rep, err := c.m.Call("pool.trace", sx.List(sx.Int(1), sx.Int(int64(co.call.Kind)), sx.Int(int64(out.w)), sx.Int(int64(co.call.Count)), lsSchedSx(co.call.Sched), lsTapeSx(co.call.Tape)))
		if err != nil {
			return n, &lsMismatch{0, 0, "model error: " + err.Error(), "", ""}
		}
		if len(rep.L) != len(co.entries) {
			return n, &lsMismatch{0, 0, "model trace has the wrong length", "", rep.String()}
		}
		for i, e := range co.entries {
			n++
			ms, err := lsModelState(rep.L[i].L[1])
			if err != nil {
				return n, &lsMismatch{0, i, err.Error(), "", ""}
			}
			if mstates != nil {
				mstates[rep.L[i].L[1].String()] = true
			}
			if rep.L[i].L[0].AsBool() != e.en {
				return n, &lsMismatch{0, i, fmt.Sprintf("gid %d: enabled for the real goroutines = %v, in the model = %v", e.g, e.en, !e.en), e.st.String(), ms.String()}
			}
			if !lsSame(co.call.Kind, e.st, ms) {
				return n, &lsMismatch{0, i, fmt.Sprintf("state after step %d (gid %d) differs", i, e.g), e.st.String(), ms.String()}
			}
		}
	}
	// later calls: pool.run_calls on growing prefixes of the call's schedule
	for ci := 1; ci < len(out.calls); ci++ {
		co := out.calls[ci]
		for i, e := range co.entries {
			var cs []sx.V
			for cj := 0; cj <= ci; cj++ {
				cc := out.calls[cj]
				sched := cc.chosen
				if cj == ci {
					sched = cc.call.Sched[:i+1]
				}
				cs = append(cs, sx.List(sx.Int(int64(cc.call.Kind)), sx.Int(int64(cc.call.Count)), lsSchedSx(sched), lsTapeSx(cc.call.Tape)))
			}
			rep, err := c.m.Call("pool.run_calls", sx.List(sx.Int(1), sx.Int(int64(out.w)), sx.List(cs...)))
			if err != nil || len(rep.L) != ci+1 {
				return n, &lsMismatch{ci, i, fmt.Sprintf("model error: %v %s", err, rep.String()), "", ""}
			}
			n++
			ms, err := lsModelState(rep.L[ci])
			if err != nil {
				return n, &lsMismatch{ci, i, err.Error(), "", ""}
			}
			if !lsSame(co.call.Kind, e.st, ms) {
				return n, &lsMismatch{ci, i, fmt.Sprintf("call %d: state after step %d (gid %d) differs", ci+1, i, e.g), e.st.String(), ms.String()}
			}
		}
	}
	return n, nil
}

// ---- bookkeeping ----

type lsStats struct {
	scheds, steps, cmps int
	abort               bool            // a goroutine got lost outside the yield points: the scheduler cannot be trusted any further
	states              map[string]bool // distinct projected states of the real goroutines
	mstates             map[string]bool // distinct model states met in the traces of the current single-call configuration
}

func lsTapeString(t []*int64) string {
	return lsTapeSx(t).String()
}

func lsReplayOf(out *lsOutcome, explicitChosenOnly bool) []c18LsCall {
	var cs []c18LsCall
	for _, co := range out.calls {
		cl := co.call
		if explicitChosenOnly {
			cl.Sched = append([]int{}, co.chosen...)
		}
		if cl.Tape == nil {
			cl.Tape = []*int64{}
		}
		if cl.Sched == nil {
			cl.Sched = []int{}
		}
		cs = append(cs, cl)
	}
	return cs
}

// lsJudge records one executed schedule: counts, model comparison (if cmp), violations. Returns (states agree, property holds).
func (c *ctx) lsJudge(class string, out *lsOutcome, st *lsStats, cmp bool) (bool, bool) {
	var fp strings.Builder
	fmt.Fprintf(&fp, "%s|w=%d", class, out.w)
	nontrivial := false
	steps := 0
	for _, co := range out.calls {
		fmt.Fprintf(&fp, "|%d,%d,%s,%v", co.call.Kind, co.call.Count, lsTapeString(co.call.Tape), co.chosen)
		nontrivial = nontrivial || co.call.Count > 0 || co.call.Kind == 1
		steps += len(co.chosen)
		for _, e := range co.entries {
			st.states[fmt.Sprintf("%d/%d/%s|%v", co.call.Kind, co.call.Count, lsTapeString(co.call.Tape), e.st)] = true
		}
	}
	c.res.Case(class, fp.String(), nontrivial)
	st.scheds++
	st.steps += steps
	n, mm := 0, (*lsMismatch)(nil)
	if cmp {
		n, mm = c.lsCompare(out, st.mstates)
	}
	st.cmps += n
	for i := 0; i < n-1; i++ {
		c.res.Corr(true)
	}
	if n > 0 {
		c.res.Corr(mm == nil)
	} else if mm != nil {
		c.res.Corr(false)
	}
	corrOK, propOK := true, true
	kindName := "none"
	if len(out.calls) > 0 {
		kindName = lsKindName[out.calls[0].call.Kind]
		if len(out.calls) > 1 {
			kindName = "calls"
		}
	}
	if mm != nil {
		corrOK = false
		c.res.Violate("correspondence", "C18/lockstep/"+kindName+"/state-mismatch",
			fmt.Sprintf("real pool goroutines and Pool.v (V1) disagree under the same schedule (w=%d): %s; real: %s; model: %s", out.w, mm.what, mm.real, mm.model),
			c18LsReplay{Mode: "lockstep", Workers: out.w, Calls: lsReplayOf(out, false), Call: mm.call, Step: mm.step, What: mm.what, Real: mm.real, Model: mm.model})
	}
	if out.pkind != "" {
		propOK = false
		st.abort = st.abort || out.pkind == "blocked" || out.pkind == "teardown"
		c.res.Violate("property", "C18/lockstep/"+kindName+"/"+out.pkind,
			fmt.Sprintf("w=%d, call %d after %d schedule entries: %s", out.w, out.pcall+1, out.pstep, out.pdesc),
			c18LsReplay{Mode: "lockstep", Workers: out.w, Calls: lsReplayOf(out, true), Call: out.pcall, Step: out.pstep, What: out.pkind + ": " + out.pdesc})
	}
	return corrOK, propOK
}

// lsExhaust enumerates the maximal schedules of one call depth-first (at most limit of them). Returns whether the
// enumeration was complete, the number of schedules run, and whether it stopped on a property-level failure.
func (c *ctx) lsExhaust(class string, w int, cl c18LsCall, limit int, st *lsStats, timeout time.Duration) (bool, int, bool) {
	var prefix []int
	runs := 0
	cmp := true // after a disagreement with the model keep looking for a property-level failure on the real goroutines only
	for runs < limit {
		out := lsExec(w, []c18LsCall{cl}, func(_ *lsRun, _, depth int, en []int) int {
			if depth < len(prefix) {
				return prefix[depth]
			}
			return en[0]
		}, false, timeout)
		runs++
		corrOK, propOK := c.lsJudge(class, out, st, cmp)
		cmp = cmp && corrOK
		if !propOK {
			return false, runs, true
		}
		co := out.calls[0]
		next := false
		for d := len(co.chosen) - 1; d >= 0 && !next; d-- {
			en := co.enSets[d]
			i := sort.SearchInts(en, co.chosen[d])
			if i+1 < len(en) {
				prefix = append(append([]int{}, co.chosen[:d]...), en[i+1])
				next = true
			}
		}
		if !next {
			return true, runs, false
		}
	}
	return false, runs, false
}

// lsCover enumerates schedules of one call so that every reachable state of the real goroutines is entered and every
// enabled step is taken from it at least once (depth-first with a visited set over real-side state keys; every run is a
// complete schedule, replayed from a fresh pool). Returns whether the enumeration finished within limit runs.
func (c *ctx) lsCover(class string, w int, cl c18LsCall, limit int, st *lsStats, timeout time.Duration) (bool, int, int) {
	visited := map[string]bool{}
	work := [][]int{{}}
	runs := 0
	cmp := true
	for len(work) > 0 && runs < limit {
		prefix := work[len(work)-1]
		work = work[:len(work)-1]
		var path []int
		branching := true
		out := lsExec(w, []c18LsCall{cl}, func(r *lsRun, _, depth int, en []int) int {
			g := en[0]
			if depth < len(prefix) {
				g = prefix[depth]
			} else if branching {
				if k := r.key(); !visited[k] {
					visited[k] = true
					for _, alt := range en[1:] {
						work = append(work, append(append(make([]int, 0, len(path)+1), path...), alt))
					}
				} else {
					branching = false
				}
			}
			path = append(path, g)
			return g
		}, false, timeout)
		runs++
		corrOK, propOK := c.lsJudge(class, out, st, cmp)
		cmp = cmp && corrOK
		if !propOK {
			return false, runs, len(visited)
		}
	}
	return len(work) == 0, runs, len(visited)
}

func lsVal(x int64) *int64 { return &x }

func (c *ctx) lsRandomTape(maxLen int) []*int64 {
	n := c.res.Rng.Intn(maxLen + 1)
	t := make([]*int64, n)
	for i := range t {
		if c.res.Rng.Intn(3) != 0 {
			t[i] = nil
		} else {
			t[i] = lsVal(int64(7 + i))
		}
	}
	return t
}

func (c *ctx) c18Lockstep() {
	// a goroutine of its own: the pools it creates are then the only ones whose workers name it as their creator
	fin := make(chan struct{})
	go func() {
		defer close(fin)
		c.c18LockstepBody()
	}()
	<-fin
}

func (c *ctx) c18LockstepBody() {
	defer lsCur.Store((*lsRun)(nil))
	timeout := 10 * time.Second
	if c.replay != "" {
		var rp c18LsReplay
		if err := readJSON(c.replay, &rp); err == nil && rp.Mode == "lockstep" {
			c.c18LsReplayRun(rp, timeout)
		}
		return
	}
	c.res.Rule += "; lockstep: real pool goroutines parked at the verif yield points and released along model schedules (all interleavings of one call for " +
		"(w,c) in {1,2}x{0,1,2}+(2,3)+(3,2), Parallelize / Search without and with a nil first answer, up to a cap; random schedules for w<=4, c<=5, random nil tapes; " +
		"two and three consecutive calls on one pool), projected state compared with pool.trace / pool.run_calls after every schedule entry; non-trivial = c>0 or Search"
	limit, climit, nrand, ncalls2 := 800, 2000, 1000, 200
	if c.thorough() {
		limit, climit, nrand, ncalls2 = 25000, 100000, 20000, 3000
	}
	st := &lsStats{states: map[string]bool{}}
	t0 := time.Now()
	// (a) all interleavings of one call
	wcs := [][2]int{{1, 0}, {1, 1}, {1, 2}, {2, 0}, {2, 1}, {2, 2}, {2, 3}, {3, 2}}
	type variant struct {
		kind int
		tape []*int64
		name string
	}
	variants := []variant{{0, nil, "parallelize"}, {1, nil, "search"}, {1, []*int64{nil}, "search-nil"}}
	complete, capped, covered := 0, 0, 0
	for _, v := range variants {
		for _, wc := range wcs {
			class := fmt.Sprintf("lockstep-all/%s/w=%d/c=%d", v.name, wc[0], wc[1])
			cl := c18LsCall{Kind: v.kind, Count: wc[1], Tape: v.tape}
			st.mstates = map[string]bool{}
			done, runs, failed := c.lsExhaust(class, wc[0], cl, limit, st, timeout)
			cov, covRuns, covDone := "", 0, false
			if done {
				complete++
			} else if !failed {
				// the enumeration of all interleavings was cut off: enumerate up to state coverage instead (every reachable
				// state of the real goroutines entered, every enabled step taken from it at least once)
				capped++
				var nst int
				covDone, covRuns, nst = c.lsCover("lockstep-cover/"+class[13:], wc[0], cl, climit, st, timeout)
				cov = fmt.Sprintf(" + %d schedules to state coverage (every step from every one of %d real states taken: %v)", covRuns, nst, covDone)
				if covDone {
					covered++
				}
			}
			// coverage: model states met in these traces against the model's own exhaustive exploration of the configuration
			if rep, err := c.m.Call("pool.explore", sx.List(sx.Int(1), sx.Int(int64(v.kind)), sx.Int(int64(wc[0])), sx.Int(int64(wc[1])), sx.Int(1), sx.Int(int64(len(v.tape))))); err == nil && len(rep.L) >= 6 {
				cov += fmt.Sprintf(", %d of the %d model-reachable states visited (exploration complete=%v)", len(st.mstates), rep.L[1].AsInt(), rep.L[0].AsBool())
			}
			st.mstates = nil
			c.res.Note("lockstep %s w=%d c=%d: %d schedules depth-first (all interleavings: %v)%s", v.name, wc[0], wc[1], runs, done, cov)
			if st.abort {
				return
			}
		}
	}
	// (b) random schedules of one call
	cmp := true
	for i := 0; i < nrand && !st.abort; i++ {
		w, cnt := 1+c.res.Rng.Intn(4), c.res.Rng.Intn(6)
		cl := c18LsCall{Kind: c.res.Rng.Intn(2), Count: cnt}
		if cl.Kind == 1 {
			cl.Tape = c.lsRandomTape(4)
		}
		out := lsExec(w, []c18LsCall{cl}, func(_ *lsRun, _, _ int, en []int) int { return en[c.res.Rng.Intn(len(en))] }, false, timeout)
		corrOK, propOK := c.lsJudge("lockstep-random/"+lsKindName[cl.Kind], out, st, cmp)
		cmp = cmp && corrOK
		if !propOK {
			break
		}
		if i < 2 {
			c.res.Sample(6, map[string]interface{}{"lockstep": "random", "workers": w, "call": out.calls[0].call})
		}
	}
	// (c) consecutive calls on one pool
	cmp = true
	for i := 0; i < ncalls2 && !st.abort; i++ {
		w := 1 + c.res.Rng.Intn(3)
		nc := 2 + c.res.Rng.Intn(2)
		calls := make([]c18LsCall, nc)
		for j := range calls {
			calls[j] = c18LsCall{Kind: c.res.Rng.Intn(2), Count: c.res.Rng.Intn(4)}
			if calls[j].Kind == 1 {
				calls[j].Tape = c.lsRandomTape(2)
			}
		}
		out := lsExec(w, calls, func(_ *lsRun, _, _ int, en []int) int { return en[c.res.Rng.Intn(len(en))] }, false, timeout)
		corrOK, propOK := c.lsJudge("lockstep-calls", out, st, cmp)
		cmp = cmp && corrOK
		if !propOK {
			break
		}
	}
	c.res.Note("lockstep total: %d schedules, %d steps of real goroutines, %d state comparisons with the model, %d distinct projected states; all interleavings enumerated for %d configurations, cut off for %d (of these %d enumerated to full state coverage); %.1fs",
		st.scheds, st.steps, st.cmps, len(st.states), complete, capped, covered, time.Since(t0).Seconds())
}

func (c *ctx) c18LsReplayRun(rp c18LsReplay, timeout time.Duration) {
	out := lsExec(rp.Workers, rp.Calls, nil, true, timeout)
	st := &lsStats{states: map[string]bool{}}
	corrOK, propOK := c.lsJudge("lockstep-replay", out, st, true)
	for ci, co := range out.calls {
		for i, e := range co.entries {
			fmt.Printf("replay: call %d entry %d gid %d enabled=%v real: %s\n", ci+1, i, e.g, e.en, e.st)
		}
	}
	fmt.Printf("replay: lockstep states agree with the model=%v property holds=%v %s %s\n", corrOK, propOK, out.pkind, out.pdesc)
}
