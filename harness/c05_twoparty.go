package main

// C05, two-party handler: a peer's genuine later-round messages delivered BEFORE the earlier ones, with a driver that reads
// Listen() only between Accept calls (the README's single-goroutine loop): every Accept must return (no hang while the handler
// holds its lock, no panic).  Uses the two-party schedules of c07_twoparty.go; here only "returns / does not crash" is judged.

import (
	"fmt"
)

type c05tpReplay struct {
	Kind     string   `json:"kind"`
	Spec     string   `json:"spec"`
	Schedule string   `json:"schedule"`
	Seed     int64    `json:"seed"`
	Order    []string `json:"delivery_order"`
}

func (c *ctx) c05TwoPartyEarly() {
	specs, err := tpSpecs()
	if err != nil {
		c.res.Note("C05 two-party part: reference sessions did not complete: %v", err)
		return
	}
	for _, sp := range specs {
		ref, err := c.tpReference(sp)
		if err != nil || !ref.Determ {
			c.res.Note("C05 two-party part: %s: no deterministic reference (%v)", sp.Name, err)
			continue
		}
		for _, sched := range []string{"early-all", "early-next", "lifo", "stale-both"} {
			s, order, _ := c.c07tpRun(sp, ref, sched, c.res.Seed)
			c.res.Case("twoparty/"+sp.Name+"/"+sched, fmt.Sprint(order), true)
			for _, n := range s.Nodes {
				for i, o := range n.Obs {
					if o.Hung || o.Panic != "" {
						what, key := "did not return (blocked on its full out channel while holding the handler lock)", "hang"
						if o.Panic != "" {
							what, key = "panicked: "+o.Panic, "panic"
						}
						c.res.Violate("property", fmt.Sprintf("C05/%s/twoparty-early-delivery/%s/%s", sp.Name, sched, key),
							fmt.Sprintf("party %s, call %d of the schedule %s: Accept %s; the driver reads Listen() only between calls", n.ID, i, sched, what),
							c05tpReplay{Kind: "twoparty-early", Spec: sp.Name, Schedule: sched, Seed: c.res.Seed, Order: order})
						break
					}
				}
			}
		}
	}
}
