package main

// pump_tp.go -- lockstep between protocol.TwoPartyHandler and the Coq model Model/TwoParty.v (op "tph.run").
//
// The round table ("shape") of one party is derived from an honest reference run (learnTwoPartyShape): per round
// whether a message is expected, what Finalize emits and which round follows.  CompareTwoPartyWithModel replays the
// API history recorded by the Sim for one node in the model and compares the observation after every call
// (round, result class, error kind, emitted headers, closed, runtime outcome, and -- when recorded -- the set of
// round numbers with a stored message).
//
// The model has the real channel capacity (2) and is told that the user empties Listen() after every call.  The
// tp* drivers below therefore drain the channel only AFTER a call has returned (Sim.call drains concurrently, which
// makes "was there room for the abort notice" a race); a call that does not return is reported as blocked.

import (
	"fmt"
	"sort"
	"strings"
	"time"

	"github.com/taurusgroup/multi-party-sig/pkg/party"
	"github.com/taurusgroup/multi-party-sig/pkg/protocol"

	"verifharness/sx"
)

type tpRoundInfo struct {
	Expects bool
	Outs    []sx.V // (to round bcast)
	Output  bool   // Finalize returns the Output round (otherwise: round r+1)
	Known   bool
}

type tpShape struct {
	Final  int
	Leader bool
	Rounds map[int]*tpRoundInfo
	SSID   []byte
	Proto  string
}

func (sh tpShape) sx() sx.V {
	rs := []sx.V{}
	for r := 0; r <= sh.Final+1; r++ {
		ri := sh.Rounds[r]
		if ri == nil || !ri.Known {
			rs = append(rs, sx.List(sx.Bool(ri != nil && ri.Expects), sx.List(sx.Int(0))))
			continue
		}
		next := sx.List(sx.Int(0), sx.Int(int64(r+1)))
		if ri.Output {
			next = sx.List(sx.Int(1), sx.Bool(true))
		}
		outs := ri.Outs
		if outs == nil {
			outs = []sx.V{}
		}
		rs = append(rs, sx.List(sx.Bool(ri.Expects), sx.List(sx.Int(2), sx.List(outs...), next)))
	}
	return sx.List(sx.Int(int64(sh.Final)), sx.List(rs...))
}

func (sh tpShape) String() string { return fmt.Sprintf("leader=%v %s", sh.Leader, sh.sx().String()) }

// learnTwoPartyShape derives the round table of node n from an honest run that completed with a result.
func learnTwoPartyShape(s *Sim, n *Node) (tpShape, error) {
	sh := tpShape{Rounds: map[int]*tpRoundInfo{}}
	if n.TH == nil || len(n.Obs) == 0 {
		return sh, fmt.Errorf("no two-party handler")
	}
	st := n.TH.VerifState()
	if !st.HasResult {
		return sh, fmt.Errorf("reference run of %s did not complete: %s", n.ID, st.ErrText)
	}
	sh.Final = int(st.Final)
	get := func(r int) *tpRoundInfo {
		if sh.Rounds[r] == nil {
			sh.Rounds[r] = &tpRoundInfo{}
		}
		return sh.Rounds[r]
	}
	// a round expects a message iff one was delivered for it (a completed run consumed every delivered message in its
	// round without error; a stored message for a round without content fails to decode)
	for _, ev := range n.Events {
		if len(ev.L) == 2 && ev.L[0].AsInt() == 0 && len(ev.L[1].L) >= 5 {
			if r := ev.L[1].L[4].AsInt(); r > 0 {
				get(r).Expects = true
			}
		}
	}
	o0 := n.Obs[0]
	sh.Leader = o0.Round != 1 || len(o0.NewOut) > 0 || o0.Class != 0
	before := 1
	for i, o := range n.Obs {
		if o.Panic != "" || o.Hung {
			return sh, fmt.Errorf("reference run of %s: panic or hang at call %d", n.ID, i)
		}
		if before == 0 {
			if len(o.NewOut) > 0 {
				return sh, fmt.Errorf("reference run of %s: output after the end", n.ID)
			}
			continue
		}
		var passed []int
		switch {
		case o.Class == 1:
			for r := before; r <= sh.Final; r++ {
				passed = append(passed, r)
			}
		case o.Class == 0 && o.Round > before:
			for r := before; r < o.Round; r++ {
				passed = append(passed, r)
			}
		case o.Class == 0 && o.Round == before:
		default:
			return sh, fmt.Errorf("reference run of %s: unexpected observation at call %d", n.ID, i)
		}
		outs := make([]sx.V, len(o.NewOut))
		for k, m := range o.NewOut { // (to round bcast bv) -> (to round bcast)
			outs[k] = sx.List(m.L[0], m.L[1], m.L[2])
		}
		switch {
		case len(passed) == 0 && len(outs) > 0:
			return sh, fmt.Errorf("reference run of %s: messages without progress at call %d", n.ID, i)
		case len(passed) == 1:
			get(passed[0]).Outs = outs
		case len(outs) == len(passed):
			for k, r := range passed {
				get(r).Outs = []sx.V{outs[k]}
			}
		case len(outs) == 0:
		default:
			return sh, fmt.Errorf("reference run of %s: cannot attribute %d messages to %d rounds at call %d", n.ID, len(outs), len(passed), i)
		}
		for _, r := range passed {
			ri := get(r)
			ri.Known = true
			ri.Output = o.Class == 1 && r == sh.Final
		}
		before = o.Round
		if o.Class != 0 {
			before = 0
		}
	}
	// session tag and protocol id: from any message of the session
	for _, x := range s.Nodes {
		if len(x.Out) > 0 {
			sh.SSID, sh.Proto = nonNil(x.Out[0].SSID), x.Out[0].Protocol
			break
		}
	}
	if sh.SSID == nil {
		return sh, fmt.Errorf("reference run emitted nothing")
	}
	return sh, nil
}

// tpNormObs: bring a model observation and a real one to a common form.  The model distinguishes error kinds the
// error text does not (verify / finalize / protocol abort / recovered panic -> 2); stored rounds are compared only
// when the driver recorded them.
func tpNormObs(v sx.V, withStored bool) string {
	if v.Kind != 2 || len(v.L) != 11 {
		return v.String()
	}
	c := append([]sx.V{}, v.L...)
	switch c[3].AsInt() {
	case 4, 6, 7:
		c[3] = sx.Int(2)
	}
	if !withStored {
		c[8], c[9] = sx.Int(0), sx.List()
	}
	return normObs(sx.List(c...))
}

// tpModelRun replays node n's recorded history in the model; returns one observation per recorded observation.
func (c *ctx) tpModelRun(s *Sim, n *Node, sh tpShape, fixedStop bool) ([]sx.V, error) {
	arg := sx.List(sx.Int(int64(n.Idx)), sx.Int(int64(len(s.IDs))), sx.Int(s.Intern("ssid", sh.SSID)), sx.Int(s.Intern("proto", []byte(sh.Proto))),
		sh.sx(), sx.Bool(sh.Leader), sx.Bool(fixedStop), sx.Bool(true), sx.List(n.Events...))
	rep, err := c.m.Call("tph.run", arg)
	if err != nil {
		return nil, err
	}
	return rep.L, nil
}

// CompareTwoPartyWithModel replays node n's recorded event history in the Coq two-party handler model and returns
// the first event index at which the observation differs (-1 = all equal), with both observations.
// opts[0] = the Stop guard is the repaired one (default true); opts[1] = compare the stored round numbers as well
// (only meaningful when every observation was completed with tpNote; default false).
func (c *ctx) CompareTwoPartyWithModel(s *Sim, n *Node, sh tpShape, opts ...bool) (int, string, string, error) {
	if n.TH == nil {
		return -1, "", "", nil
	}
	fixedStop, withStored := true, false
	if len(opts) > 0 {
		fixedStop = opts[0]
	}
	if len(opts) > 1 {
		withStored = opts[1]
	}
	rep, err := c.tpModelRun(s, n, sh, fixedStop)
	if err != nil {
		return 0, "", "", err
	}
	if len(rep) != len(n.Obs) {
		return 0, fmt.Sprintf("%d observations", len(rep)), fmt.Sprintf("%d observations", len(n.Obs)), nil
	}
	for i := range n.Obs {
		a, b := tpNormObs(rep[i], withStored), tpNormObs(obsSx(n.Obs[i]), withStored)
		if a != b {
			return i, a, b, nil
		}
	}
	return -1, "", "", nil
}

// ---------------------------------------------------------------------------------------------
// drivers that drain Listen() only after the call has returned

// tpCall runs f; the outgoing channel is NOT read while f runs.  A call that does not return within the timeout is
// blocked on the full channel (the handler holds its lock): reported as hung, then released by draining.
func (s *Sim) tpCall(n *Node, f func()) (msgs []*protocol.Message, pan string, hung bool) {
	done := make(chan string, 1)
	go func() {
		defer muxEnter(s.det)() // sims that run in parallel (muxReader): the call draws from this sim's deterministic reader
		defer func() {
			if r := recover(); r != nil {
				done <- "PANIC: " + fmt.Sprint(r)
			} else {
				done <- ""
			}
		}()
		f()
	}()
	timeout := s.AcceptTimeout
	if timeout > 60*time.Second {
		timeout = 60 * time.Second
	}
	select {
	case p := <-done:
		return s.collect(n), strings.TrimPrefix(p, "PANIC: "), false
	case <-time.After(timeout):
		return nil, "", true
	}
}

// tpNote completes the last observation of n with the set of stored round numbers.
func tpNote(n *Node) {
	if n == nil || n.TH == nil || len(n.Obs) == 0 {
		return
	}
	o := &n.Obs[len(n.Obs)-1]
	if o.Hung {
		return
	}
	st := n.TH.VerifState()
	o.QP = len(st.Stored)
	o.HashRnds = nil
	for _, r := range st.Stored {
		o.HashRnds = append(o.HashRnds, int(r))
	}
	sort.Ints(o.HashRnds)
}

func (s *Sim) tpRecord(n *Node, ev sx.V, extra func() int, f func()) Obs {
	if s.det != nil {
		s.det.setParty(string(n.Label))
	}
	n.Events = append(n.Events, ev)
	msgs, pan, hung := s.tpCall(n, f)
	x := 0
	if extra != nil && !hung {
		x = extra()
	}
	o := s.observe(n, msgs, pan, x, hung)
	n.Obs = append(n.Obs, o)
	tpNote(n)
	s.enqueue(n, msgs)
	return n.Obs[len(n.Obs)-1]
}

func (s *Sim) tpDeliver(e *Env) Obs {
	n := s.Nodes[e.To]
	if n == nil || n.H == nil {
		return Obs{}
	}
	arg := e.Msg
	if s.Wire {
		// delivery mode "wire" (pump.go): the recipient is handed what the wire format yields for the message
		if w, err := wireCopy(e.Msg); err == nil {
			arg = w
		} else {
			s.WireFail++
			s.Trace = append(s.Trace, fmt.Sprintf("wire: %s -> %s round %d does not cross the wire format: %v", e.Msg.From, e.To, e.Msg.RoundNumber, err))
		}
	}
	return s.tpRecord(n, sx.List(sx.Int(0), s.msgSx(e.Msg, e.Valid)), nil, func() { n.H.Accept(arg) })
}

func (s *Sim) tpStop(id party.ID) Obs {
	n := s.Nodes[id]
	return s.tpRecord(n, sx.List(sx.Int(1)), nil, func() { n.H.Stop() })
}

func (s *Sim) tpCanAccept(id party.ID, m *protocol.Message, valid bool) bool {
	n := s.Nodes[id]
	var res bool
	s.tpRecord(n, sx.List(sx.Int(3), s.msgSx(m, valid)), func() int {
		if res {
			return 1
		}
		return 0
	}, func() { res = n.H.CanAccept(m) })
	return res
}
