package main

// C09 -- sessions are isolated from one another.
// (1) byte-exact: BLAKE3(model ssid stream) == Helper.SSID() for generated parameter sets (incl. adversarial identifier sets);
// (2) pairs of sessions differing in exactly one parameter have different tags;
// (3) every message of one session offered to the handlers of another at every point: CanAccept false, forced Accept changes nothing,
//     the victim session completes with the same result as an undisturbed run;
// (4) a proof-carrying broadcast replayed under another sender's name is not accepted as that sender's.

import (
	"bytes"
	"encoding/hex"
	"fmt"
	"math/rand"
	"sort"
	"strings"

	"github.com/taurusgroup/multi-party-sig/pkg/hash"
	"github.com/taurusgroup/multi-party-sig/pkg/math/curve"
	"github.com/taurusgroup/multi-party-sig/pkg/party"
	"github.com/taurusgroup/multi-party-sig/pkg/protocol"
	"github.com/taurusgroup/multi-party-sig/pkg/verifhook"
	"github.com/taurusgroup/multi-party-sig/protocols/doerner"

	"verifharness/sx"
)

func init() { props["C09"] = runC09 }

type sessParams struct {
	Sid   []byte // nil = absent
	Proto string
	Group bool
	IDs   [][]byte
	Self  []byte
	Thr   int
	Aux   []sx.V
}

func (p sessParams) sx() sx.V {
	ids := make([]sx.V, len(p.IDs))
	for i, id := range p.IDs {
		ids[i] = sx.Bytes(id)
	}
	grp := sx.List()
	if p.Group {
		grp = sx.List(sx.Str("secp256k1"))
	}
	return sx.List(sx.OptBytes(p.Sid), sx.Str(p.Proto), grp, sx.List(ids...), sx.Bytes(p.Self), sx.Int(int64(p.Thr)), sx.List(p.Aux...))
}

func (p sessParams) String() string { return p.sx().String() }

// goSession runs round.NewSession; returns SSID (nil on error) and the helper
func goSession(p sessParams) (ssid []byte, helper *verifhook.RoundHelper, err error) {
	ids := make([]party.ID, len(p.IDs))
	for i, id := range p.IDs {
		ids[i] = party.ID(id)
	}
	info := verifhook.RoundInfo{ProtocolID: p.Proto, FinalRoundNumber: 3, SelfID: party.ID(p.Self), PartyIDs: ids, Threshold: p.Thr}
	if p.Group {
		info.Group = curve.Secp256k1{}
	}
	var aux []hash.WriterToWithDomain
	for _, a := range p.Aux {
		aux = append(aux, goValue(a).(hash.WriterToWithDomain))
	}
	defer func() {
		if r := recover(); r != nil {
			err = fmt.Errorf("PANIC: %v", r)
		}
	}()
	h, e := verifhook.NewSession(info, p.Sid, nil, aux...)
	if e != nil {
		return nil, nil, e
	}
	return h.SSID(), h, nil
}

func genSess(r *rand.Rand) sessParams {
	idPool := [][]byte{[]byte("a"), []byte("b"), []byte("ab"), []byte("bc"), []byte("c"), []byte("abc"), []byte("alice"), []byte("bob"), {0}, {0, 'a'}, []byte("\xc3\xa9"), bytes.Repeat([]byte("x"), 40)}
	n := 1 + r.Intn(4)
	perm := r.Perm(len(idPool))
	p := sessParams{Proto: []string{"p", "proto/x", "", "cmp/sign"}[r.Intn(4)], Group: r.Intn(3) != 0}
	for i := 0; i < n; i++ {
		p.IDs = append(p.IDs, idPool[perm[i]])
	}
	p.Self = p.IDs[r.Intn(n)]
	p.Thr = r.Intn(n)
	switch r.Intn(4) {
	case 0:
		p.Sid = nil
	case 1:
		p.Sid = []byte{}
	default:
		p.Sid = advBytes(r)
	}
	// invalid variants
	switch r.Intn(12) {
	case 0:
		p.IDs = append(p.IDs, p.IDs[0])
	case 1:
		p.Self = []byte("nobody")
	case 2:
		p.Thr = n
	case 3:
		p.Thr = -1
	case 4:
		p.Thr = 1 << 33
	}
	na := r.Intn(3)
	for i := 0; i < na; i++ {
		p.Aux = append(p.Aux, genHval(r, []int{9, 12, 13, 14, 15}[r.Intn(5)]))
	}
	return p
}

// oneParamVariants returns parameter sets differing from p in exactly one parameter
func oneParamVariants(p sessParams) (out []sessParams, what []string) {
	add := func(q sessParams, w string) { out = append(out, q); what = append(what, w) }
	q := p
	if p.Sid == nil {
		q.Sid = []byte{}
	} else {
		q.Sid = nil
	}
	add(q, "sid-nil-vs-empty")
	q = p
	q.Sid = append(append([]byte{}, p.Sid...), 'x')
	add(q, "sid")
	q = p
	q.Proto = p.Proto + "2"
	add(q, "protocol")
	q = p
	q.Group = !p.Group
	add(q, "group")
	if p.Thr+1 < len(p.IDs) {
		q = p
		q.Thr = p.Thr + 1
		add(q, "threshold")
	}
	q = p
	q.IDs = append(append([][]byte{}, p.IDs...), []byte("zz-extra"))
	add(q, "participants+1")
	if len(p.IDs) >= 2 {
		// same concatenation, different split
		q = p
		q.IDs = append([][]byte{}, p.IDs...)
		a, b := q.IDs[0], q.IDs[1]
		if len(a) >= 2 {
			q.IDs[0], q.IDs[1] = a[:len(a)-1], append([]byte{a[len(a)-1]}, b...)
			if bytes.Equal(q.Self, a) {
				q.Self = q.IDs[0]
			} else if bytes.Equal(q.Self, b) {
				q.Self = q.IDs[1]
			}
			add(q, "participants-regrouped")
		}
	}
	q = p
	q.Aux = append(append([]sx.V{}, p.Aux...), sx.List(sx.Int(14), sx.List(sx.Bytes([]byte("m")))))
	add(q, "aux+message")
	return
}

type c09Replay struct {
	What   string `json:"what"`
	A      string `json:"session_a,omitempty"`
	B      string `json:"session_b,omitempty"`
	Detail string `json:"detail,omitempty"`
	Key    string `json:"key,omitempty"` // violation key of an ssid-collision pair (c09_prefix.go), kept by `-replay`
	// KM: a key-material case (c09_keymat.go); `-replay` re-runs exactly this one
	KM *kmReplay `json:"key_material,omitempty"`
	// AN: an abort-notice case (c09_abort.go); `-replay` re-runs that protocol family / schedule / seed
	AN *anReplay `json:"abort_notice,omitempty"`
	// TP: a two-party cross-session replay (c09Doerner); `-replay` re-runs the Doerner part
	TP string `json:"two_party,omitempty"`
}

func runC09(c *ctx) {
	r := c.res.Rng
	if c.replay != "" {
		if c.c09LongReplayFile() { // c09_long.go
			return
		}
		var rp c09Replay
		if err := readJSON(c.replay, &rp); err == nil && rp.KM != nil {
			c.res.Rule = "replay of one key-material case"
			c.res.Note("replay: only the key-material case %+v", *rp.KM)
			c.c09KeyMaterial(rp.KM)
			return
		} else if err == nil && rp.AN != nil {
			c.res.Rule = "replay of one abort-notice case"
			c.res.Note("replay: only the abort-notice case %+v", *rp.AN)
			c.c09AbortNotices(rp.AN)
			return
		} else if err == nil && rp.TP != "" {
			c.res.Rule = "replay of the two-party cross-session replays"
			c.c09Doerner()
			return
		} else if err == nil && c.c09ReplayTagPair(rp) {
			return
		}
	}
	c.res.Rule = "session tags: random parameter sets (adversarial identifier sets, nil/empty session id, invalid thresholds) compared byte-exactly with the model; " +
		"one-parameter variants must differ; cross-session replay on real handlers (xor, FROST keygen, Doerner keygen vs sign); non-trivial = valid parameters; distinct by parameter set"
	n := 250
	if c.thorough() {
		n = 5000
	}
	for i := 0; i < n; i++ {
		p := genSess(r)
		ssid, helper, err := goSession(p)
		rep, merr := c.m.Call("sess.new", p.sx())
		if merr != nil {
			c.res.Violate("correspondence", "C09/model-error", merr.Error(), c09Replay{What: "model error", A: p.String()})
			continue
		}
		mok := len(rep.L) == 1
		agree := mok == (err == nil)
		if agree && mok {
			agree = bytes.Equal(blake64(rep.L[0].B), ssid)
		}
		c.res.Corr(agree)
		c.res.Case(fmt.Sprintf("ssid/ok=%v", err == nil), p.String(), err == nil)
		c.res.Sample(2, map[string]string{"params": p.String(), "ssid": hex.EncodeToString(ssid)})
		if err != nil && strings.HasPrefix(err.Error(), "PANIC") {
			c.res.Violate("property", "C09/newsession-panic", err.Error(), c09Replay{What: "NewSession panicked", A: p.String()})
		}
		if !agree {
			c.res.Violate("correspondence", "C09/ssid-mismatch", fmt.Sprintf("model ok=%v, Go err=%v, or digests differ", mok, err), c09Replay{What: "ssid correspondence", A: p.String()})
		}
		if err != nil {
			continue
		}
		// HashForID separates parties
		if mok {
			for _, id := range p.IDs {
				hf, e2 := c.m.Call("sess.hash_for_id", sx.List(sx.Bytes(rep.L[0].B), sx.Bytes(id)))
				if e2 == nil {
					ok := bytes.Equal(blake64(hf.B), helper.HashForID(party.ID(id)).Sum())
					c.res.Corr(ok)
					if !ok {
						c.res.Violate("correspondence", "C09/hash-for-id-mismatch", "HashForID differs from model", c09Replay{What: "HashForID", A: p.String()})
					}
				}
			}
		}
		// (2) one-parameter variants
		vs, what := oneParamVariants(p)
		for k, q := range vs {
			s2, _, e2 := goSession(q)
			c.res.Case("variant/"+what[k], p.String()+"|"+q.String(), true)
			if e2 != nil {
				continue
			}
			if bytes.Equal(s2, ssid) {
				c.res.Violate("property", "C09/ssid-collision/"+what[k], "sessions differing in one parameter have the same session tag",
					c09Replay{What: "ssid collision", A: p.String(), B: q.String(), Detail: hex.EncodeToString(ssid)})
			}
		}
	}
	// identifier sets embedding 8-byte length prefixes (c09_prefix.go)
	c.c09PrefixEmbedding(r)
	c.c09Replay()
	c.c09KeyMaterial(nil)
	c.c09LongSessionIDs(nil) // c09_long.go: session ids of 64..1000 bytes sharing long prefixes
}

func stateFP(n *Node) string {
	if n.MH != nil {
		st := n.MH.VerifState()
		sort.Slice(st.Rounds, func(i, j int) bool { return st.Rounds[i].Number < st.Rounds[j].Number })
		return canon(st)
	}
	if n.TH != nil {
		return canon(n.TH.VerifState())
	}
	return ""
}

// crossReplay: run session A to completion collecting all its messages; then run B, and before every delivery of B
// offer every A-message to the recipient: CanAccept must be false and a forced Accept must not change the state.
func (c *ctx) crossReplay(name string, mkA, mkB func(det *detReader) *Sim, seed int64) {
	detA := installDetReader(seed, 0)
	a := mkA(detA)
	a.RunFIFO(10000)
	var amsgs []*protocol.Message
	for _, n := range a.Nodes {
		amsgs = append(amsgs, n.Out...)
	}
	// undisturbed reference run of B
	detB := installDetReader(seed+1, 0)
	ref := mkB(detB)
	ref.RunFIFO(10000)
	refRes := map[party.ID]string{}
	for id, n := range ref.Nodes {
		r, e := resultOf(n)
		refRes[id] = resultFP(r) + e
	}
	detB2 := installDetReader(seed+1, 0)
	b := mkB(detB2)
	defer restoreRandReader()
	key := "C09/replay/" + name
	offered := 0
	for len(b.Flight) > 0 {
		e := b.take(0)
		n := b.Nodes[e.To]
		for _, m := range amsgs {
			if m.To != "" && m.To != e.To {
				continue
			}
			if m.From == e.To {
				continue
			}
			offered++
			before := stateFP(n)
			can := n.H.CanAccept(m)
			msgs, pan, hung := b.call(n, func() { n.H.Accept(m) })
			after := stateFP(n)
			c.res.Case("replay/"+name, fmt.Sprintf("%s/%d/%x", name, offered, m.Hash()[:6]), true)
			if can || before != after || len(msgs) > 0 || pan != "" || hung {
				c.res.Violate("property", key, fmt.Sprintf("a message of another session was accepted (CanAccept=%v, state changed=%v, emitted=%d, panic=%q)", can, before != after, len(msgs), pan),
					c09Replay{What: "cross-session replay", A: name, Detail: fmt.Sprintf("message %v round %d offered to %s", m.From, m.RoundNumber, e.To)})
				return
			}
		}
		b.Deliver(e)
	}
	for id, n := range b.Nodes {
		r, e := resultOf(n)
		if refRes[id] != resultFP(r)+e {
			c.res.Violate("property", key+"/result", "victim session result differs from the undisturbed run", c09Replay{What: "cross-session replay result", A: name})
		}
	}
}

func (c *ctx) c09Replay() {
	ids := idsOf("alice", "bob", "carl")
	mk := func(sp SessionSpec) func(det *detReader) *Sim {
		return func(det *detReader) *Sim { return sp.build(rand.New(rand.NewSource(3)), det) }
	}
	// sessions differing in exactly one parameter
	c.crossReplay("xor/sid", mk(specXOR(ids, []byte("s1"))), mk(specXOR(ids, []byte("s2"))), 11)
	c.crossReplay("xor/sid-nil", mk(specXOR(ids, nil)), mk(specXOR(ids, []byte{})), 12)
	c.crossReplay("xor/participants", mk(specXOR(idsOf("alice", "bob", "carl", "dave"), []byte("s"))), mk(specXOR(ids, []byte("s"))), 13)
	c.crossReplay("frost-keygen/threshold", mk(specFrostKeygen(ids, 1, false, []byte("k"))), mk(specFrostKeygen(ids, 2, false, []byte("k"))), 14)
	c.crossReplay("frost-keygen/taproot-vs-plain", mk(specFrostKeygen(ids, 1, true, []byte("k"))), mk(specFrostKeygen(ids, 1, false, []byte("k"))), 15)
	c.crossReplay("frost-keygen/sid", mk(specFrostKeygen(ids, 1, false, []byte("k1"))), mk(specFrostKeygen(ids, 1, false, []byte("k2"))), 16)
	// Doerner: keygen messages offered to a signing session with the same session id and parties
	c.c09Doerner()
	// (4) proof replay under another sender's name
	c.c09ProofReplay()
	// (5) abort notices (round-0 messages) of other sessions, every family, both handlers
	c.c09AbortNotices(nil)
}

// twoPartySim: ids[0] is the receiver ("Bob"), ids[1] the sender. Leaders as in the repository's own usage:
// keygen/refresh: receiver leads; sign: both advance at once.
func twoPartySim(ids []party.ID, det *detReader, startR, startS protocol.StartFunc, sid []byte, leadR, leadS bool) *Sim {
	s := NewSim(ids, rand.New(rand.NewSource(1)), det)
	s.AddTwoParty(ids[0], startR, sid, leadR)
	s.AddTwoParty(ids[1], startS, sid, leadS)
	s.Seal()
	return s
}

func (c *ctx) c09Doerner() {
	ids := idsOf("recv", "send")
	g := curve.Secp256k1{}
	det := installDetReader(21, 0)
	defer restoreRandReader()
	kg := twoPartySim(ids, det, doerner.Keygen(g, true, ids[0], ids[1], nil), doerner.Keygen(g, false, ids[1], ids[0], nil), []byte("same-sid"), true, false)
	kg.RunFIFO(1000)
	rr, e1 := resultOf(kg.Nodes[ids[0]])
	rs, e2 := resultOf(kg.Nodes[ids[1]])
	cr, ok1 := rr.(*doerner.ConfigReceiver)
	cs, ok2 := rs.(*doerner.ConfigSender)
	c.res.Case("doerner-keygen", "doerner-keygen", true)
	if !ok1 || !ok2 {
		c.res.Note("doerner keygen did not complete: %s %s", e1, e2)
		return
	}
	var kmsgs []*protocol.Message
	for _, n := range kg.Nodes {
		kmsgs = append(kmsgs, n.Out...)
	}
	msgHash := bytes.Repeat([]byte{7}, 32)
	sg := twoPartySim(ids, det, doerner.SignReceiver(cr, ids[0], ids[1], msgHash, nil), doerner.SignSender(cs, ids[1], ids[0], msgHash, nil), []byte("same-sid"), true, true)
	for _, n := range sg.Nodes {
		if n.H == nil {
			c.res.Note("doerner sign did not start: %v", n.StartErr)
			return
		}
	}
	for _, m := range kmsgs {
		for _, n := range sg.Nodes {
			if m.From == n.ID {
				continue
			}
			c.res.Case("replay/doerner-keygen-into-sign", fmt.Sprintf("%x", m.Hash()[:6]), true)
			if n.H.CanAccept(m) {
				c.res.Violate("property", "C09/replay/doerner-keygen-into-sign",
					"a Doerner key-generation message is acceptable to a signing session with the same session id and parties (protocol ids are equal)",
					c09Replay{What: "cross-protocol replay", Detail: fmt.Sprintf("keygen message round %d from %s: CanAccept on the sign handler of %s = true (protocol %q)", m.RoundNumber, m.From, n.ID, m.Protocol)})
				return
			}
		}
	}
	c.c09DoernerSiblings()
}

// c09DoernerSiblings: two-party sessions (Doerner keygen, sign) differing in the session id only (another one / none), and keygen
// vs sign with the same id: every message of the sibling session at every position of the victim session (c07_twoparty.go
// tpForeignRun): CanAccept false, state fingerprint unchanged, undisturbed result; victim nodes replayed in the two-party model.
func (c *ctx) c09DoernerSiblings() {
	specs, err := tpSpecs()
	if err != nil {
		c.res.Note("C09 two-party siblings: Doerner reference sessions did not complete: %v", err)
		return
	}
	for _, sp := range specs {
		ref, err := c.tpReference(sp)
		if err != nil {
			c.res.Note("C09 two-party siblings: %s reference run failed: %v", sp.Name, err)
			continue
		}
		for _, sib := range sp.Sibs {
			o := c.tpForeignRun(sp, ref, sib)
			class := "replay/" + sp.Name + "/" + sib.Name
			if o.Skip != "" || o.SameTag {
				// equal tags: the key-material cases judge them (Doerner: message and roles are outside the statement)
				c.res.Case(class+"/not-used", class, false)
				continue
			}
			c.res.Case(class, class, o.Offered > 0)
			rp := c09Replay{What: "cross-session replay (two-party handler)", A: sp.Name, B: sib.Name, Detail: o.Bad, TP: sp.Name + "/" + sib.Name}
			if o.Bad != "" {
				c.res.Violate("property", "C09/replay/"+sp.Name+"/"+sib.Name, "a message of a two-party session differing in "+sib.Name+" was accepted by / changed a running "+sp.Name+" session", rp)
			}
			if o.Dead || o.Sim == nil {
				continue
			}
			for _, id := range o.Sim.IDs {
				i, mo, ro, err := c.CompareTwoPartyWithModel(o.Sim, o.Sim.Nodes[id], ref.Shapes[id], true, true)
				c.res.Corr(err == nil && i < 0)
				if err != nil || i >= 0 {
					rp.Detail = fmt.Sprintf("node %s event %d: model %s, handler %s (err %v)", id, i, mo, ro, err)
					c.res.Violate("correspondence", "C09/replay/twoparty-handler-model/"+sp.Name, "two-party handler state differs from the Coq model after an event (cross-session replay)", rp)
				}
			}
		}
	}
}

func (c *ctx) c09ProofReplay() {
	// short identifiers, identifiers of exactly 32 bytes, and longer ones
	for _, setName := range []string{"names", "long32", "long40", "nonascii"} {
		ids := idsOf(idSets[setName][:3]...)
		alice, bob, carl := ids[0], ids[1], ids[2]
		det := installDetReader(31, 0)
		sp := specFrostKeygen(ids, 1, false, []byte("pr"))
		s := sp.build(rand.New(rand.NewSource(1)), det)
		// bob's round-2 broadcast to carl is replaced by alice's (proof and commitment made by/for alice)
		var aliceB *protocol.Message
		for _, e := range s.Flight {
			if e.Msg.From == alice && e.Msg.Broadcast {
				aliceB = e.Msg
			}
		}
		if aliceB != nil {
			for _, e := range s.Flight {
				if e.Msg.From == bob && e.To == carl && e.Msg.Broadcast {
					m := *aliceB
					m.From = bob
					e.Msg = &m
					e.Valid = false
				}
			}
			// deliver the replayed broadcast first: carl is in round 2 and verifies it on arrival
			accepted := false
			for i, e := range s.Flight {
				if e.To == carl && !e.Valid {
					o := s.Deliver(s.take(i))
					accepted = o.Class != 2 && o.Panic == ""
					break
				}
			}
			s.RunFIFO(10000)
			r, _ := resultOf(s.Nodes[carl])
			c.res.Case("proof-replay/frost-keygen/"+setName, "proof-replay/"+setName, true)
			if accepted {
				c.res.Violate("property", "C09/proof-replay/frost-keygen/verified/ids="+setName, "a proof made by one party verified under another party's name",
					c09Replay{What: "proof replay under another sender's name", Detail: fmt.Sprintf("ids %q: the round-2 broadcast (Schnorr proof of knowledge, commitment) of %q delivered to %q as coming from %q was not rejected on arrival", ids, alice, carl, bob)})
			}
			if r != nil {
				c.res.Violate("property", "C09/proof-replay/frost-keygen/ids="+setName, "a proof-carrying broadcast of one party replayed under another party's name was accepted",
					c09Replay{What: "proof replay under another sender's name", Detail: fmt.Sprintf("ids %q: the round-2 broadcast (Schnorr proof, commitment) of %q delivered to %q as coming from %q; %q completed", ids, alice, carl, bob, carl)})
			}
		}
		restoreRandReader()
	}
}
