package main

// c03_deal.go -- "dealing" deviations of ONE participant E of a key generation / refresh (used by C03, C04 and C02).
//
// E deals another polynomial than the one its honest code sampled, CONSISTENTLY: the commitment in the exponent that
// everybody receives and the share every recipient receives belong to the same polynomial f' (except, in the
// "+wrong-share" variants, the share of one victim).
//
//   * message-level (FROST keygen / refresh, +taproot): E's handler is honest, the harness rewrites E's messages on the wire.
//     That is possible by rewriting alone because the proof of knowledge in E's commitment broadcast covers only the constant
//     term Phi_0 (refresh: there is no proof at all): f' = f + c*x^k (k >= 1) needs Phi'_k = Phi_k + c*G and, for recipient j,
//     f(id_j) + c*id_j^k.  E's commitment broadcast is held back until E's share messages are visible to the harness (E is
//     rushing anyway: it has received every honest commitment by then); the leading coefficient needed for "degree-1" is
//     interpolated from the shares E sent (E's own knowledge).  The attached views of the previous round's broadcasts are
//     kept consistent with what each side saw, as in c03Run.  All arithmetic of E is plain math/big (c03Tb*), not the library's.
//   * state-level (CMP keygen / refresh): message rewriting alone cannot be consistent there (the polynomial is under a hash
//     commitment in round 2, the shares are Paillier ciphertexts and the round-5 proof is about E's own final share), so E's
//     first round is handed another VSSSecret through a round.Session proxy (c04WrapSession) and everything E sends follows
//     from it; the victim's wrong share is a fresh encryption under the victim's Paillier key put into E's message4.
//
// Variants (c03Case.Alt), with d = degree the protocol prescribes (the threshold):
//   redeal                      f' = f + c*x, c random                          -> legal dealing: must be accepted, everybody consistent
//   redeal+wrong-share          the same, the victim's share is a random value  -> the victim must not finish with it
//   root-at-victim              c such that f'(id_victim) = 0: the commitment evaluates to the IDENTITY at the victim and the
//                               victim's share is 0                             -> legal dealing: accepted, consistent
//   root-at-victim+wrong-share  the same, the victim's share is a random value  -> the victim must not finish with it
//   degree-1 / degree+1 / degree+2   f' of degree d-1 (leading coefficient removed) / d+1 / d+2 (random higher coefficients),
//                               consistent shares                               -> whoever finishes must hold a consistent degree-d sharing
// Oracle: the protocol's unchanged judge (key material of the honest finishers), C04's blame oracle, C02's checkSharing.

import (
	"fmt"
	"math/big"
	"math/rand"
	"reflect"
	"strings"
	"time"
	"unsafe"

	"github.com/cronokirby/saferith"

	"github.com/taurusgroup/multi-party-sig/pkg/math/curve"
	"github.com/taurusgroup/multi-party-sig/pkg/math/polynomial"
	"github.com/taurusgroup/multi-party-sig/pkg/paillier"
	"github.com/taurusgroup/multi-party-sig/pkg/party"
	"github.com/taurusgroup/multi-party-sig/pkg/pool"
	"github.com/taurusgroup/multi-party-sig/pkg/protocol"
	"github.com/taurusgroup/multi-party-sig/pkg/verifhook"
	"github.com/taurusgroup/multi-party-sig/protocols/cmp"
	"github.com/taurusgroup/multi-party-sig/protocols/frost"
)

const c03DealField = "<dealing>"

func c03IsDeal(cs c03Case) bool { return strings.HasPrefix(cs.Field, "<dealing") }

var c03DealVariants = []string{"redeal", "redeal+wrong-share", "root-at-victim", "root-at-victim+wrong-share", "degree-1", "degree+1", "degree+2"}

// c03DealShareVariants: the commitment E's honest code made is kept ("asdealt") or re-dealt, and the victim's share is the
// NEGATED correct share (accepted by a check that compares x coordinates only) or the correct share of ANOTHER recipient
// (accepted by a check that evaluates the commitment at the wrong index).  share + q is the same scalar: not a variant.
var c03DealShareVariants = []string{"asdealt+negated-share", "asdealt+other-share", "redeal+negated-share", "redeal+other-share"}

// c03DealSplit: "<base>+<what the victim's share is>" (wrong-share: a random value; negated-share; other-share)
func c03DealSplit(alt string) (base, wrong string) {
	for _, w := range []string{"wrong-share", "negated-share", "other-share"} {
		if strings.HasSuffix(alt, "+"+w) {
			return strings.TrimSuffix(alt, "+"+w), w
		}
	}
	return alt, ""
}

// c03DealConsistent: variants in which E's messages are those of an honest dealer with other randomness
func c03DealConsistent(alt string) bool { return alt == "redeal" || alt == "root-at-victim" }

type c03DealSpec struct {
	// message-level
	CommitRound int
	CommitKey   string
	ShareRound  int
	ShareKey    string
	// state-level
	State        bool
	RoundType    string // type name of the round whose field holds the polynomial
	PolyField    string
	ShareContent string // type name of the p2p content carrying the encrypted share
	ShareField   string
	PaillierMap  string // field of the next round: map[party.ID]*paillier.PublicKey
}

func c03DealSpecOf(proto string) *c03DealSpec {
	switch proto {
	case "frost-keygen", "taproot-frost-keygen", "frost-refresh", "taproot-frost-refresh":
		return &c03DealSpec{CommitRound: 2, CommitKey: "Phi_i", ShareRound: 3, ShareKey: "F_li"}
	case "cmp-keygen", "cmp-refresh":
		return &c03DealSpec{State: true, RoundType: "round1", PolyField: "VSSSecret", ShareContent: "message4", ShareField: "Share", PaillierMap: "PaillierPublic"}
	}
	return nil
}

// FROST key generation for arbitrary participants / threshold (the catalogue's own protocol has n=3, t=1)
func c03ProtoFrostKeygenNT(ids []party.ID, t int, tap bool) *c03Proto {
	name := "frost-keygen"
	if tap {
		name = "taproot-frost-keygen"
	}
	ids = append([]party.ID{}, ids...)
	return &c03Proto{Name: name, IDs: ids, SID: []byte(fmt.Sprintf("c03-%s-%d-%d", name, len(ids), t)),
		Start: func(id party.ID) protocol.StartFunc {
			if tap {
				return frost.KeygenTaproot(id, ids, t)
			}
			return frost.Keygen(curve.Secp256k1{}, id, ids, t)
		},
		Judge: c03JudgeKeys(c03FrostKeyView, ids, t, nil)}
}

// c03ProtoForCase: the protocol a case belongs to (dealing cases may carry their own participants and threshold)
func c03ProtoForCase(m *c03Mat, cs c03Case) *c03Proto {
	if c03IsDeal(cs) && len(cs.Parties) > 0 && (cs.Proto == "frost-keygen" || cs.Proto == "taproot-frost-keygen") {
		return c03ProtoFrostKeygenNT(idsOf(cs.Parties...), cs.Thr, cs.Proto == "taproot-frost-keygen")
	}
	if c03IsDeal(cs) && len(cs.Parties) > 0 && cs.Proto == "cmp-keygen" {
		return c03ProtoCMPKeygenNT(idsOf(cs.Parties...), cs.Thr)
	}
	return c03ProtoByName(m, cs.Proto)
}

func c03ProtoCMPKeygenNT(ids []party.ID, t int) *c03Proto {
	ids = append([]party.ID{}, ids...)
	return &c03Proto{Name: "cmp-keygen", IDs: ids, Heavy: true, SID: []byte(fmt.Sprintf("c03-ck-%d-%d", len(ids), t)),
		Start: func(id party.ID) protocol.StartFunc { return cmp.Keygen(curve.Secp256k1{}, id, ids, t, nil) },
		PoolStart: func(id party.ID, pl *pool.Pool) protocol.StartFunc {
			return cmp.Keygen(curve.Secp256k1{}, id, ids, t, pl)
		},
		Judge: c03JudgeKeys(c03CmpKeyView, ids, t, nil)}
}

// c03DealCases: dealing cases for protocol p; `positions` cheater positions starting at a seeded rotation, one victim per
// case (rotating over the honest parties); thr = the threshold of p (for the key of non-default shapes), deflt = p is the
// catalogue's own n=3,t=1 protocol of that name.
func c03DealCases(rng *rand.Rand, prop string, p *c03Proto, thr int, deflt bool, variants []string, positions int) []c03Case {
	ids := party.NewIDSlice(p.IDs)
	if positions <= 0 || positions > len(ids) {
		positions = len(ids)
	}
	rot := rng.Intn(len(ids))
	var cases []c03Case
	k := 0
	for pi := 0; pi < positions; pi++ {
		E := ids[(pi+rot)%len(ids)]
		var honest []party.ID
		for _, id := range ids {
			if id != E {
				honest = append(honest, id)
			}
		}
		for _, v := range variants {
			k++
			cs := c03Case{Proto: p.Name, Cheater: string(E), Bcast: true, Field: c03DealField, Alt: v, Seed: rng.Int63(),
				Victim: string(honest[(k+rot)%len(honest)]), Thr: thr}
			if sp := c03DealSpecOf(p.Name); sp != nil && !sp.State {
				cs.Round = sp.CommitRound
			} else {
				cs.Round = 1
			}
			if !deflt {
				cs.Field = fmt.Sprintf("<dealing/n=%d/t=%d>", len(ids), thr)
				for _, id := range ids {
					cs.Parties = append(cs.Parties, string(id))
				}
			}
			cs.Path = "victim=" + cs.Victim
			cs.Key = cs.key(prop)
			cases = append(cases, cs)
		}
	}
	return cases
}

// ---------------------------------------------------------------------------------------------
// E's own arithmetic (math/big)

func c03TbCompress(p c03TbPt) []byte {
	out := make([]byte, 33)
	out[0] = 2 + byte(p.Y.Bit(0))
	p.X.FillBytes(out[1:])
	return out
}

func c03IDScalarBig(id party.ID) *big.Int {
	return new(big.Int).Mod(new(big.Int).SetBytes([]byte(id)), c03TbQ)
}

func c03RandNonZero(rng *rand.Rand) *big.Int {
	for {
		v := new(big.Int).Rand(rng, c03TbQ)
		if v.Sign() != 0 {
			return v
		}
	}
}

func c03PowMod(x *big.Int, k int) *big.Int { return new(big.Int).Exp(x, big.NewInt(int64(k)), c03TbQ) }

// c03LeadingCoeff: the coefficient of x^d of the polynomial of degree <= d through d+1 points
func c03LeadingCoeff(xs, ys []*big.Int) (*big.Int, bool) {
	acc := new(big.Int)
	for j := range xs {
		den := big.NewInt(1)
		for k := range xs {
			if k != j {
				d := new(big.Int).Sub(xs[j], xs[k])
				den.Mul(den, d.Mod(d, c03TbQ)).Mod(den, c03TbQ)
			}
		}
		if den.Sign() == 0 {
			return nil, false
		}
		t := new(big.Int).Mul(ys[j], new(big.Int).ModInverse(den, c03TbQ))
		acc.Add(acc, t).Mod(acc, c03TbQ)
	}
	return acc, true
}

// c03EvalCommit: sum_k x^k * C_k over the textbook curve (coefficients from power `first` on)
func c03EvalCommit(cs []c03TbPt, first int, x *big.Int) c03TbPt {
	acc := c03TbPt{}
	for i := len(cs) - 1; i >= 0; i-- {
		acc = c03TbAdd(c03TbMul(x, acc), cs[i])
	}
	for i := 0; i < first; i++ {
		acc = c03TbMul(x, acc)
	}
	return acc
}

// ---------------------------------------------------------------------------------------------

func c03RunDeal(p *c03Proto, cs c03Case) (out *c03Outcome) {
	sp := c03DealSpecOf(p.Name)
	if sp == nil {
		return &c03Outcome{Case: cs, Note: "no dealing in this protocol"}
	}
	if sp.State {
		return c03RunDealState(p, cs, sp)
	}
	return c03RunDealMsg(p, cs, sp)
}

// c03DealLoop: honest envelopes first, then E's, `onIdle` when only held envelopes are left (returns false to stop)
func c03DealLoop(s *Sim, E party.ID, out *c03Outcome, fixDigestsAfter func() int, onIdle func() bool) map[party.ID]party.ID {
	notice := map[party.ID]party.ID{}
	deliver := func(i int) {
		e := s.take(i)
		n := s.Nodes[e.To]
		if n == nil || n.H == nil {
			return
		}
		if r := fixDigestsAfter(); r > 0 && n.MH != nil && int(e.Msg.RoundNumber) > r && (e.Msg.From == E || e.To == E) {
			if h := n.MH.VerifState().Hashes[uint16(e.Msg.RoundNumber)-1]; h != nil && !sameBytes(h, e.Msg.BroadcastVerification) {
				m := *e.Msg
				m.BroadcastVerification = h
				e.Msg = &m
			}
		}
		before := c03LastObs(n).Class
		o := s.Deliver(e)
		out.Deliveries++
		if before == 0 && o.Class == 2 && e.Msg.RoundNumber == 0 {
			notice[n.ID] = e.Msg.From
		}
	}
	for steps := 0; len(s.Flight) > 0 && steps < 20000; steps++ {
		pick, pickE, held := -1, -1, false
		for i, e := range s.Flight {
			if e.Tag == "/held" {
				held = true
				continue
			}
			if e.Msg.From != E && pick < 0 {
				pick = i
			}
			if e.Msg.From == E && pickE < 0 {
				pickE = i
			}
		}
		switch {
		case pick >= 0:
			deliver(pick)
		case pickE >= 0:
			deliver(pickE)
		case held:
			if !onIdle() {
				return notice
			}
		}
	}
	return notice
}

func c03DealCollect(s *Sim, E party.ID, out *c03Outcome, notice map[party.ID]party.ID) {
	for _, id := range s.IDs {
		po := c03PartyOutcome(s.Nodes[id])
		po.NoticeFrom = notice[id]
		if id == E {
			out.Cheater = po
		} else {
			out.Honest = append(out.Honest, po)
		}
	}
}

// ---- message-level ----

func c03RunDealMsg(p *c03Proto, cs c03Case, sp *c03DealSpec) (out *c03Outcome) {
	out = &c03Outcome{Case: cs}
	t0 := time.Now()
	defer func() {
		if r := recover(); r != nil {
			out.Note = fmt.Sprint("harness panic: ", r)
		}
		out.CPUSec = time.Since(t0).Seconds()
	}()
	E := party.ID(cs.Cheater)
	rng := rand.New(rand.NewSource(cs.Seed))
	s := p.build(rng, func(from party.ID, e *Env) []*Env {
		if from == E && e.Tag == "" {
			r := int(e.Msg.RoundNumber)
			if (r == sp.CommitRound && e.Msg.Broadcast) || r == sp.ShareRound {
				e.Tag = "/held"
			}
		}
		return []*Env{e}
	})
	s.AcceptTimeout = 90 * time.Second
	mutated := false
	notice := c03DealLoop(s, E, out, func() int {
		if mutated {
			return sp.CommitRound
		}
		return 0
	}, func() bool {
		c03DealRewrite(s, rng, cs, sp, out)
		mutated = out.Applied
		for _, e := range s.Flight {
			if e.Tag == "/held" {
				e.Tag = ""
			}
		}
		return true
	})
	c03DealCollect(s, E, out, notice)
	return out
}

// c03DealRewrite rewrites the held envelopes of E (its commitment broadcast and its share messages) according to the case.
func c03DealRewrite(s *Sim, rng *rand.Rand, cs c03Case, sp *c03DealSpec, out *c03Outcome) {
	victim := party.ID(cs.Victim)
	var commitEnvs, shareEnvs []*Env
	for _, e := range s.Flight {
		if e.Tag != "/held" {
			continue
		}
		switch {
		case int(e.Msg.RoundNumber) == sp.CommitRound && e.Msg.Broadcast:
			commitEnvs = append(commitEnvs, e)
		case int(e.Msg.RoundNumber) == sp.ShareRound && !e.Msg.Broadcast && e.Msg.To != "":
			shareEnvs = append(shareEnvs, e)
		}
	}
	if len(commitEnvs) == 0 || len(shareEnvs) == 0 {
		out.Note = "E's commitment broadcast and share messages were not both emitted"
		return
	}
	// the commitment
	tree, err := c03CborParse(commitEnvs[0].Msg.Data)
	if err != nil {
		out.Note = "commitment broadcast is not CBOR: " + err.Error()
		return
	}
	host := tree.find("." + sp.CommitKey)
	if host == nil || host.Emb == nil || host.EmbOff != 4 {
		out.Note = "no embedded polynomial commitment " + sp.CommitKey
		return
	}
	arr, flag := host.Emb.find(".Coefficients"), host.Emb.find(".IsConstant")
	if arr == nil || arr.Maj != 4 || flag == nil || flag.Maj != 7 {
		out.Note = "unexpected shape of the polynomial commitment"
		return
	}
	first := 0 // power of x of the first listed coefficient
	if flag.U == 21 {
		first = 1
	}
	var C []c03TbPt
	for _, k := range arr.Kids {
		pt, ok := c03TbDecompress(k.B)
		if !ok {
			out.Note = "commitment coefficient is not a point"
			return
		}
		C = append(C, pt)
	}
	d := len(C) - 1 + first // degree E's honest code dealt
	// the shares
	type sh struct {
		e    *Env
		tree *c03Node
		n    *c03Node
		x, y *big.Int
	}
	var shares []*sh
	seenTo := map[party.ID]bool{}
	for _, e := range shareEnvs {
		if seenTo[e.Msg.To] {
			continue
		}
		seenTo[e.Msg.To] = true
		tr, err := c03CborParse(e.Msg.Data)
		if err != nil {
			out.Note = "share message is not CBOR"
			return
		}
		n := tr.find("." + sp.ShareKey)
		if n == nil || n.Maj != 2 || len(n.B) != 32 {
			out.Note = "no 32-byte share " + sp.ShareKey
			return
		}
		shares = append(shares, &sh{e, tr, n, c03IDScalarBig(e.Msg.To), new(big.Int).SetBytes(n.B)})
	}
	var vsh *sh
	for _, x := range shares {
		if x.e.Msg.To == victim {
			vsh = x
		}
	}
	base, wrongKind := c03DealSplit(cs.Alt)
	wrong := wrongKind != ""
	if (wrong || base == "root-at-victim") && vsh == nil {
		out.Note = "the victim receives no share from E"
		return
	}
	addTerm := func(c *big.Int, k int) { // f' = f + c*x^k on the shares
		for _, x := range shares {
			x.y = new(big.Int).Mod(new(big.Int).Add(x.y, new(big.Int).Mul(c, c03PowMod(x.x, k))), c03TbQ)
		}
	}
	shiftCoeff := func(c *big.Int, k int) bool { // Phi'_k = Phi_k + c*G
		i := k - first
		if i < 0 || i >= len(C) {
			return false
		}
		C[i] = c03TbAdd(C[i], c03TbMul(c, c03TbG()))
		return true
	}
	switch base {
	case "asdealt":
		// E's own polynomial and commitment, untouched
	case "redeal", "root-at-victim":
		if d < 1 {
			out.Note = "a constant polynomial has no higher coefficient to re-deal"
			return
		}
		c := c03RandNonZero(rng)
		if base == "root-at-victim" {
			if vsh.x.Sign() == 0 {
				out.Note = "victim's evaluation point is 0"
				return
			}
			c = new(big.Int).Mul(new(big.Int).Neg(vsh.y), new(big.Int).ModInverse(vsh.x, c03TbQ))
			c.Mod(c, c03TbQ)
		}
		shiftCoeff(c, 1)
		addTerm(c, 1)
	case "degree+1", "degree+2":
		up := 1
		if base == "degree+2" {
			up = 2
		}
		for k := d + 1; k <= d+up; k++ {
			c := c03RandNonZero(rng)
			C = append(C, c03TbMul(c, c03TbG()))
			addTerm(c, k)
		}
	case "degree-1":
		if d < 1 {
			out.Note = "a constant polynomial has no leading coefficient to remove"
			return
		}
		var xs, ys []*big.Int
		if first == 1 {
			xs, ys = append(xs, new(big.Int)), append(ys, new(big.Int)) // refresh: f(0) = 0 is known
		}
		for _, x := range shares {
			xs, ys = append(xs, x.x), append(ys, x.y)
		}
		if len(xs) < d+1 {
			out.Note = fmt.Sprintf("E's %d shares do not determine its polynomial of degree %d", len(shares), d)
			return
		}
		lead, ok := c03LeadingCoeff(xs[:d+1], ys[:d+1])
		if !ok {
			out.Note = "evaluation points not distinct"
			return
		}
		if !c03TbMul(lead, c03TbG()).eq(C[len(C)-1]) {
			out.Note = "harness: interpolated leading coefficient does not match E's commitment"
			return
		}
		C = C[:len(C)-1]
		addTerm(new(big.Int).Neg(lead), d)
	default:
		out.Note = "unknown dealing variant " + cs.Alt
		return
	}
	for _, pt := range C {
		if pt.inf() {
			out.Note = "a coefficient of the re-dealt polynomial is the identity, which has no encoding (for a polynomial x*g(x) of degree 1 a root at the victim means f' = 0)"
			return
		}
	}
	// harness self-check: the new commitment evaluates to share*G at every recipient (textbook arithmetic)
	for _, x := range shares {
		if !c03EvalCommit(C, first, x.x).eq(c03TbMul(x.y, c03TbG())) {
			out.Note = "harness: re-dealt shares are not consistent with the re-dealt commitment"
			return
		}
	}
	if base == "root-at-victim" && (vsh.y.Sign() != 0 || !c03EvalCommit(C, first, vsh.x).inf()) {
		out.Note = "harness: the re-dealt polynomial has no root at the victim"
		return
	}
	switch wrongKind {
	case "wrong-share":
		for {
			r := c03RandNonZero(rng)
			if r.Cmp(vsh.y) != 0 {
				vsh.y = r
				break
			}
		}
	case "negated-share":
		neg := new(big.Int).Mod(new(big.Int).Neg(vsh.y), c03TbQ)
		if neg.Cmp(vsh.y) == 0 {
			out.Note = "the victim's share is 0: its negation is the same share"
			return
		}
		vsh.y = neg
	case "other-share":
		var other *sh
		for _, x := range shares {
			if x != vsh && x.y.Cmp(vsh.y) != 0 {
				other = x
				break
			}
		}
		if other == nil {
			out.Note = "E sends no other recipient a different share"
			return
		}
		vsh.y = new(big.Int).Set(other.y)
	}
	// write back
	arr.Kids = nil
	for _, pt := range C {
		arr.Kids = append(arr.Kids, &c03Node{Maj: 2, B: c03TbCompress(pt)})
	}
	cnt := len(arr.Kids)
	host.B[0], host.B[1], host.B[2], host.B[3] = byte(cnt>>24), byte(cnt>>16), byte(cnt>>8), byte(cnt)
	nm := *commitEnvs[0].Msg
	nm.Data = tree.bytes()
	if !sameBytes(nm.Data, commitEnvs[0].Msg.Data) {
		out.Changed = true
	}
	for _, e := range commitEnvs {
		e.Msg, e.Valid = &nm, false
	}
	for _, x := range shares {
		x.n.B = x.y.FillBytes(make([]byte, 32))
		m := *x.e.Msg
		m.Data = x.tree.bytes()
		if !sameBytes(m.Data, x.e.Msg.Data) {
			out.Changed = true
		}
		for _, e := range shareEnvs {
			if e.Msg == x.e.Msg && e != x.e {
				e.Msg, e.Valid = &m, false
			}
		}
		x.e.Msg, x.e.Valid = &m, false
	}
	out.Applied = true
}

// ---- state-level ----

func c03ScalarOfBig(z *big.Int) curve.Scalar {
	return curve.Secp256k1{}.NewScalar().SetNat(new(saferith.Nat).SetBig(new(big.Int).Mod(z, c03TbQ), 256))
}

// c03MakePoly builds a library polynomial with the given coefficients (constant term first)
func c03MakePoly(coeffs []*big.Int) (p *polynomial.Polynomial, err error) {
	defer func() {
		if r := recover(); r != nil {
			p, err = nil, fmt.Errorf("cannot build a polynomial: %v", r)
		}
	}()
	if len(coeffs) == 0 {
		return nil, fmt.Errorf("no coefficients")
	}
	p = polynomial.NewPolynomial(curve.Secp256k1{}, len(coeffs)-1, c03ScalarOfBig(coeffs[0]))
	f := reflect.ValueOf(p).Elem().FieldByName("coefficients")
	if !f.IsValid() || f.Kind() != reflect.Slice || f.Len() != len(coeffs) {
		return nil, fmt.Errorf("polynomial.Polynomial has no coefficient slice of the expected shape")
	}
	sl := reflect.NewAt(f.Type(), unsafe.Pointer(f.UnsafeAddr())).Elem()
	for i, z := range coeffs {
		sl.Index(i).Set(reflect.ValueOf(c03ScalarOfBig(z)))
	}
	return p, nil
}

func c03EvalBig(coeffs []*big.Int, x *big.Int) *big.Int {
	acc := new(big.Int)
	for i := len(coeffs) - 1; i >= 0; i-- {
		acc.Mul(acc, x).Add(acc, coeffs[i]).Mod(acc, c03TbQ)
	}
	return acc
}

func c03RunDealState(p *c03Proto, cs c03Case, sp *c03DealSpec) (out *c03Outcome) {
	out = &c03Outcome{Case: cs}
	t0 := time.Now()
	defer func() {
		if r := recover(); r != nil {
			out.Note = fmt.Sprint("harness panic: ", r)
		}
		out.CPUSec = time.Since(t0).Seconds()
	}()
	E, victim := party.ID(cs.Cheater), party.ID(cs.Victim)
	rng := rand.New(rand.NewSource(cs.Seed))
	base, wrongKind := c03DealSplit(cs.Alt)
	wrong := wrongKind != ""
	var dealt []*big.Int
	polyDone, shareDone := false, false
	note := ""
	rule := &c04SessRule{
		Before: func(r verifhook.RoundSession) {
			if polyDone || c04TypeName(r) != sp.RoundType {
				return
			}
			polyDone = true
			f := c04Fld(r, sp.PolyField)
			cur, ok := f.Interface().(*polynomial.Polynomial)
			if !ok || cur == nil {
				note = "round has no polynomial field " + sp.PolyField
				return
			}
			d := int(cur.Degree())
			a0 := c03ScOf(cur.Constant())
			refresh := a0.Sign() == 0
			coeffs := []*big.Int{a0}
			for k := 1; k <= d; k++ {
				coeffs = append(coeffs, c03RandNonZero(rng))
			}
			xv := c03IDScalarBig(victim)
			switch base {
			case "redeal", "asdealt":
				// (state level: E's commitment follows from the polynomial it is handed; "asdealt" = an honest dealer's fresh polynomial)
			case "root-at-victim":
				if refresh {
					// f = x*g(x), g of degree d-1 with g(xv) = 0: shift g's constant term
					if d < 2 {
						note = "a polynomial x*g(x) of degree 1 with a root at the victim is the zero polynomial (identity commitments have no encoding)"
						return
					}
					g := coeffs[1:]
					g[0] = new(big.Int).Mod(new(big.Int).Sub(g[0], c03EvalBig(g, xv)), c03TbQ)
				} else {
					if d < 1 {
						note = "a constant polynomial has no root"
						return
					}
					// keep E's constant term (its contribution to the key), shift the linear coefficient
					fv := c03EvalBig(coeffs, xv)
					c := new(big.Int).Mul(new(big.Int).Neg(fv), new(big.Int).ModInverse(xv, c03TbQ))
					coeffs[1] = new(big.Int).Mod(new(big.Int).Add(coeffs[1], c), c03TbQ)
				}
				if c03EvalBig(coeffs, xv).Sign() != 0 {
					note = "harness: no root at the victim"
					return
				}
			case "degree+1":
				coeffs = append(coeffs, c03RandNonZero(rng))
			case "degree+2":
				coeffs = append(coeffs, c03RandNonZero(rng), c03RandNonZero(rng))
			case "degree-1":
				if d < 1 {
					note = "a constant polynomial has no leading coefficient to remove"
					return
				}
				coeffs = coeffs[:len(coeffs)-1]
			default:
				note = "unknown dealing variant " + cs.Alt
				return
			}
			np, err := c03MakePoly(coeffs)
			if err != nil {
				note = err.Error()
				return
			}
			f.Set(reflect.ValueOf(np))
			dealt = coeffs
			out.Applied, out.Changed = true, true
		},
		Content: func(next verifhook.RoundSession, to party.ID, content verifhook.RoundContent) {
			if !wrong || dealt == nil || to != victim || c04TypeName(content) != sp.ShareContent {
				return
			}
			pkv := c04Fld(next, sp.PaillierMap)
			if !pkv.IsValid() || pkv.Kind() != reflect.Map {
				note = "next round has no Paillier key table " + sp.PaillierMap
				return
			}
			e := pkv.MapIndex(reflect.ValueOf(victim))
			if !e.IsValid() {
				note = "no Paillier key of the victim"
				return
			}
			pk, ok := e.Interface().(*paillier.PublicKey)
			if !ok || pk == nil {
				note = "no Paillier key of the victim"
				return
			}
			right := c03EvalBig(dealt, c03IDScalarBig(victim))
			var r *big.Int
			switch wrongKind {
			case "negated-share":
				if r = new(big.Int).Mod(new(big.Int).Neg(right), c03TbQ); r.Cmp(right) == 0 {
					note = "the victim's share is 0: its negation is the same share"
					return
				}
			case "other-share":
				for _, id := range party.NewIDSlice(p.IDs) {
					if id != E && id != victim {
						if o := c03EvalBig(dealt, c03IDScalarBig(id)); o.Cmp(right) != 0 {
							r = o
							break
						}
					}
				}
				if r == nil {
					note = "no other recipient with a different share"
					return
				}
			default:
				for {
					if r = c03RandNonZero(rng); r.Cmp(right) != 0 {
						break
					}
				}
			}
			ct, _ := pk.Enc(curve.MakeInt(c03ScalarOfBig(r)))
			c04Fld(content, sp.ShareField).Set(reflect.ValueOf(ct))
			shareDone = true
		},
	}
	// a worker pool of this run's own (every message of a dealing run is well-formed, see c03Proto.PoolStart)
	pooled, poolDone := c03Pooled(p)
	defer poolDone()
	pp := *p
	pp.Start = func(id party.ID) protocol.StartFunc {
		inner := pooled.Start(id)
		if id != E {
			return inner
		}
		return func(sid []byte) (verifhook.RoundSession, error) {
			r, err := inner(sid)
			if err != nil || r == nil {
				return r, err
			}
			return c04WrapSession(r, rule), nil
		}
	}
	s := pp.build(rng, nil)
	s.AcceptTimeout = 90 * time.Second
	notice := c03DealLoop(s, E, out, func() int { return 0 }, func() bool { return false })
	c03DealCollect(s, E, out, notice)
	if note != "" {
		out.Note = note
	}
	if out.Applied && wrong && !shareDone {
		out.Applied, out.Note = false, "the wrong share of the victim was never sent (E did not reach the share round) "+note
	}
	return out
}

// c03DealExtra: the dealing cases on FROST key generations of another shape than the catalogue's n=3, t=1 (degree-2 polynomials:
// the re-dealt linear coefficient is not the leading one; the leading coefficient is interpolated from three shares).
func c03DealExtra(c *ctx, prop string, judge func(p *c03Proto, out *c03Outcome)) {
	ids := idsOf("alice", "bob", "carl", "dave")
	for i, tap := range []bool{false, true} {
		p := c03ProtoFrostKeygenNT(ids, 2, tap)
		pos := 2
		if c.thorough() {
			pos = 0
		}
		vars := c03DealVariants
		if prop == "C03" {
			vars = append(append([]string{}, c03DealVariants...), c03DealShareVariants...)
		}
		cases := c03DealCases(rand.New(rand.NewSource(c.res.Seed*1000003+977+int64(i))), prop, p, 2, false, vars, pos)
		t0 := time.Now()
		outs := c03RunAll(p, cases)
		c.res.Note("%s n=4 t=2: %d dealing cases in %.1f s", p.Name, len(cases), time.Since(t0).Seconds())
		for _, out := range outs {
			judge(p, out)
		}
	}
}
