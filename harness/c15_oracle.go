package main

// c15_oracle.go -- for every result type of every protocol: the documented way to serialize and restore it,
// and the validity rules of C15 judged on exported fields with math/big (never with the library's own validators).

import (
	"fmt"
	"math/big"
	"sort"

	"github.com/cronokirby/saferith"
	"github.com/fxamacker/cbor/v2"
	"github.com/taurusgroup/multi-party-sig/pkg/ecdsa"
	"github.com/taurusgroup/multi-party-sig/pkg/math/curve"
	"github.com/taurusgroup/multi-party-sig/pkg/party"
	"github.com/taurusgroup/multi-party-sig/pkg/protocol"
	"github.com/taurusgroup/multi-party-sig/protocols/cmp"
	"github.com/taurusgroup/multi-party-sig/protocols/doerner"
	"github.com/taurusgroup/multi-party-sig/protocols/frost"
)

func c15BigU(u uint64) *big.Int { return new(big.Int).SetUint64(u) }

type c15Type struct {
	Name    string
	Marshal func(obj interface{}) ([]byte, error)
	Restore func(b []byte) (interface{}, error) // with the documented Empty* constructor
	Empty   func() interface{}
	Valid   func(obj interface{}) []string
	Self    func(obj interface{}) string
	IDs     func(obj interface{}) []string
	Nested  map[string]bool
	IDKeyed map[string]bool
}

var c15Group = curve.Secp256k1{}

func c15Types() map[string]*c15Type {
	cborMarshal := func(obj interface{}) ([]byte, error) { return cbor.Marshal(obj) }
	ts := []*c15Type{
		{
			Name:    "cmp.Config",
			Marshal: func(o interface{}) ([]byte, error) { return o.(*cmp.Config).MarshalBinary() },
			Restore: func(b []byte) (interface{}, error) {
				c := cmp.EmptyConfig(c15Group)
				err := c.UnmarshalBinary(b)
				return c, err
			},
			Empty: func() interface{} { return cmp.EmptyConfig(c15Group) },
			Valid: func(o interface{}) []string { return c15ValidCMP(o.(*cmp.Config)) },
			Self:  func(o interface{}) string { return string(o.(*cmp.Config).ID) },
			IDs: func(o interface{}) []string {
				var l []string
				for id := range o.(*cmp.Config).Public {
					l = append(l, string(id))
				}
				return l
			},
		},
		{
			Name:    "frost.Config",
			Marshal: cborMarshal,
			Restore: func(b []byte) (interface{}, error) {
				c := frost.EmptyConfig(c15Group)
				err := cbor.Unmarshal(b, c)
				return c, err
			},
			Empty: func() interface{} { return frost.EmptyConfig(c15Group) },
			Valid: func(o interface{}) []string { return c15ValidFrost(o.(*frost.Config)) },
			Self:  func(o interface{}) string { return string(o.(*frost.Config).ID) },
			IDs: func(o interface{}) []string {
				var l []string
				for id := range o.(*frost.Config).VerificationShares.Points {
					l = append(l, string(id))
				}
				return l
			},
			Nested:  map[string]bool{"VerificationShares": true},
			IDKeyed: map[string]bool{"VerificationShares": true},
		},
		{
			Name:    "frost.TaprootConfig",
			Marshal: cborMarshal,
			Restore: func(b []byte) (interface{}, error) {
				c := &frost.TaprootConfig{}
				err := cbor.Unmarshal(b, c)
				return c, err
			},
			Empty: func() interface{} { return &frost.TaprootConfig{} },
			Valid: func(o interface{}) []string { return c15ValidTaproot(o.(*frost.TaprootConfig)) },
			Self:  func(o interface{}) string { return string(o.(*frost.TaprootConfig).ID) },
			IDs: func(o interface{}) []string {
				var l []string
				for id := range o.(*frost.TaprootConfig).VerificationShares {
					l = append(l, string(id))
				}
				return l
			},
			IDKeyed: map[string]bool{"VerificationShares": true},
		},
		{
			Name:    "doerner.ConfigReceiver",
			Marshal: cborMarshal,
			Restore: func(b []byte) (interface{}, error) {
				c := doerner.EmptyConfigReceiver(c15Group)
				err := cbor.Unmarshal(b, c)
				return c, err
			},
			Empty: func() interface{} { return doerner.EmptyConfigReceiver(c15Group) },
			Valid: func(o interface{}) []string {
				c := o.(*doerner.ConfigReceiver)
				return c15ValidDoerner(c.Setup == nil, c.SecretShare, c.Public, c.ChainKey)
			},
		},
		{
			Name:    "doerner.ConfigSender",
			Marshal: cborMarshal,
			Restore: func(b []byte) (interface{}, error) {
				c := doerner.EmptyConfigSender(c15Group)
				err := cbor.Unmarshal(b, c)
				return c, err
			},
			Empty: func() interface{} { return doerner.EmptyConfigSender(c15Group) },
			Valid: func(o interface{}) []string {
				c := o.(*doerner.ConfigSender)
				return c15ValidDoerner(c.Setup == nil, c.SecretShare, c.Public, c.ChainKey)
			},
		},
		{
			Name:    "ecdsa.PreSignature",
			Marshal: cborMarshal,
			Restore: func(b []byte) (interface{}, error) {
				p := ecdsa.EmptyPreSignature(c15Group)
				err := cbor.Unmarshal(b, p)
				return p, err
			},
			Empty: func() interface{} { return ecdsa.EmptyPreSignature(c15Group) },
			Valid: func(o interface{}) []string { return c15ValidPreSig(o.(*ecdsa.PreSignature)) },
			IDs: func(o interface{}) []string {
				var l []string
				for id := range o.(*ecdsa.PreSignature).RBar.Points {
					l = append(l, string(id))
				}
				return l
			},
			Nested:  map[string]bool{"RBar": true, "S": true},
			IDKeyed: map[string]bool{"RBar": true, "S": true},
		},
		{
			Name:    "ecdsa.Signature",
			Marshal: cborMarshal,
			Restore: func(b []byte) (interface{}, error) {
				s := ecdsa.EmptySignature(c15Group)
				err := cbor.Unmarshal(b, &s)
				return &s, err
			},
			Empty: func() interface{} { s := ecdsa.EmptySignature(c15Group); return &s },
			Valid: func(o interface{}) []string {
				s := o.(*ecdsa.Signature)
				var p []string
				if s.R == nil || s.R.IsIdentity() {
					p = append(p, "R is the identity")
				}
				if s.S == nil || s.S.IsZero() {
					p = append(p, "S is zero")
				}
				return p
			},
		},
		{
			Name:    "protocol.Message",
			Marshal: func(o interface{}) ([]byte, error) { return o.(*protocol.Message).MarshalBinary() },
			Restore: func(b []byte) (interface{}, error) {
				m := &protocol.Message{}
				err := m.UnmarshalBinary(b)
				return m, err
			},
			Empty: func() interface{} { return &protocol.Message{} },
			Valid: func(o interface{}) []string { return nil },
		},
	}
	out := map[string]*c15Type{}
	for _, t := range ts {
		out[t.Name] = t
	}
	return out
}

func c15TypeOf(obj interface{}) string {
	switch obj.(type) {
	case *cmp.Config:
		return "cmp.Config"
	case *frost.Config:
		return "frost.Config"
	case *frost.TaprootConfig:
		return "frost.TaprootConfig"
	case *doerner.ConfigReceiver:
		return "doerner.ConfigReceiver"
	case *doerner.ConfigSender:
		return "doerner.ConfigSender"
	case *ecdsa.PreSignature:
		return "ecdsa.PreSignature"
	case *ecdsa.Signature:
		return "ecdsa.Signature"
	case *protocol.Message:
		return "protocol.Message"
	}
	return fmt.Sprintf("%T", obj)
}

// c15Restore runs the documented restore under recover.
func c15Restore(t *c15Type, b []byte) (obj interface{}, errText string, pan string) {
	defer func() {
		if r := recover(); r != nil {
			pan = fmt.Sprint(r)
			if pan == "" {
				pan = "panic"
			}
		}
	}()
	o, err := t.Restore(b)
	if err != nil {
		return nil, err.Error(), ""
	}
	return o, "", ""
}

// c15Check applies the rules to a restored object under recover (accessors of half-built objects may panic too).
func c15Check(t *c15Type, obj interface{}) (probs []string) {
	defer func() {
		if r := recover(); r != nil {
			probs = append(probs, fmt.Sprintf("reading the restored object panics: %v", r))
		}
	}()
	if canon(obj) == canon(t.Empty()) {
		probs = append(probs, "silently empty object with nil error")
	}
	return append(probs, t.Valid(obj)...)
}

func c15NatBig(n *saferith.Nat) *big.Int {
	if n == nil {
		return nil
	}
	return n.Big()
}

func c15ScalarBad(s curve.Scalar) bool { return s == nil || s.IsZero() }
func c15PointBad(p curve.Point) bool   { return p == nil || p.IsIdentity() }

func c15ValidThreshold(t, n int) bool { return t >= 0 && n > 0 && t <= n-1 }

var c15One = big.NewInt(1)

func c15ValidPedersen(N, S, T *big.Int) []string {
	var p []string
	if S == nil || T == nil {
		return []string{"Pedersen S or T is nil"}
	}
	for name, x := range map[string]*big.Int{"S": S, "T": T} {
		if x.Sign() <= 0 || x.Cmp(N) >= 0 {
			p = append(p, "Pedersen "+name+" outside [1, N-1]")
		} else if new(big.Int).GCD(nil, nil, x, N).Cmp(c15One) != 0 {
			p = append(p, "Pedersen "+name+" not coprime to N")
		}
	}
	if S.Cmp(T) == 0 {
		p = append(p, "Pedersen S = T")
	}
	sort.Strings(p)
	return p
}

// the rules the property names for a CMP config
func c15ValidCMP(c *cmp.Config) []string {
	var p []string
	if c15ScalarBad(c.ECDSA) {
		p = append(p, "ECDSA secret share is zero")
	}
	if c15ScalarBad(c.ElGamal) {
		p = append(p, "ElGamal secret is zero")
	}
	var ownN *big.Int
	if c.Paillier == nil {
		p = append(p, "Paillier secret key is nil")
	} else {
		P, Q := c15NatBig(c.Paillier.P()), c15NatBig(c.Paillier.Q())
		for name, x := range map[string]*big.Int{"P": P, "Q": Q} {
			switch {
			case x == nil:
				p = append(p, "Paillier "+name+" is nil")
			case x.BitLen() != 1024:
				p = append(p, fmt.Sprintf("Paillier %s has %d bits", name, x.BitLen()))
			case !x.ProbablyPrime(20):
				p = append(p, "Paillier "+name+" is composite")
			case x.Bit(0) != 1 || x.Bit(1) != 1:
				p = append(p, "Paillier "+name+" is not 3 mod 4")
			}
		}
		if P != nil && Q != nil {
			ownN = new(big.Int).Mul(P, Q)
			if P.Cmp(Q) == 0 {
				p = append(p, "Paillier P = Q")
			}
		}
	}
	if !c15ValidThreshold(c.Threshold, len(c.Public)) {
		p = append(p, fmt.Sprintf("threshold %d with %d parties", c.Threshold, len(c.Public)))
	}
	if _, ok := c.Public[c.ID]; !ok {
		p = append(p, "own public data missing")
	}
	if len(c.RID) != 32 {
		p = append(p, fmt.Sprintf("RID has %d bytes", len(c.RID)))
	}
	if len(c.ChainKey) != 32 {
		p = append(p, fmt.Sprintf("ChainKey has %d bytes", len(c.ChainKey)))
	}
	ids := make([]string, 0, len(c.Public))
	for id := range c.Public {
		ids = append(ids, string(id))
	}
	sort.Strings(ids)
	for _, id := range ids {
		pub := c.Public[party.ID(id)]
		who := "other party"
		if party.ID(id) == c.ID {
			who = "own"
		}
		if pub == nil {
			p = append(p, who+" public data nil")
			continue
		}
		if c15PointBad(pub.ECDSA) {
			p = append(p, who+" ECDSA public share is the identity")
		}
		if c15PointBad(pub.ElGamal) {
			p = append(p, who+" ElGamal public key is the identity")
		}
		var N *big.Int
		if pub.Paillier == nil || pub.Paillier.N() == nil {
			p = append(p, who+" Paillier modulus nil")
		} else {
			N = pub.Paillier.N().Big()
			if N.BitLen() != 2048 {
				p = append(p, fmt.Sprintf("%s Paillier modulus has %d bits", who, N.BitLen()))
			}
			if N.Bit(0) != 1 {
				p = append(p, who+" Paillier modulus is even")
			}
			if party.ID(id) == c.ID && ownN != nil && N.Cmp(ownN) != 0 {
				p = append(p, "own Paillier modulus is not P*Q")
			}
		}
		if pub.Pedersen == nil || pub.Pedersen.N() == nil {
			p = append(p, who+" Pedersen parameters nil")
		} else if N != nil {
			pn := pub.Pedersen.N().Big()
			if pn.Cmp(N) != 0 {
				p = append(p, who+" Pedersen modulus differs from Paillier modulus")
			}
			for _, q := range c15ValidPedersen(pn, c15NatBig(pub.Pedersen.S()), c15NatBig(pub.Pedersen.T())) {
				p = append(p, who+" "+q)
			}
		}
	}
	return p
}

func c15ValidFrost(c *frost.Config) []string {
	var p []string
	if c15ScalarBad(c.PrivateShare) {
		p = append(p, "private share is zero")
	}
	if c15PointBad(c.PublicKey) {
		p = append(p, "public key is the identity")
	}
	n := 0
	if c.VerificationShares == nil || c.VerificationShares.Points == nil {
		p = append(p, "verification shares nil")
	} else {
		n = len(c.VerificationShares.Points)
		if _, ok := c.VerificationShares.Points[c.ID]; !ok {
			p = append(p, "own verification share missing")
		}
		for _, pt := range c.VerificationShares.Points {
			if c15PointBad(pt) {
				p = append(p, "a verification share is the identity")
				break
			}
		}
	}
	if !c15ValidThreshold(c.Threshold, n) {
		p = append(p, fmt.Sprintf("threshold %d with %d parties", c.Threshold, n))
	}
	return p
}

func c15ValidTaproot(c *frost.TaprootConfig) []string {
	var p []string
	if c.PrivateShare == nil || c.PrivateShare.IsZero() {
		p = append(p, "private share is zero or nil")
	}
	if len(c.PublicKey) != 32 {
		p = append(p, fmt.Sprintf("public key has %d bytes", len(c.PublicKey)))
	} else if _, err := (curve.Secp256k1{}).LiftX(c.PublicKey); err != nil {
		p = append(p, "public key is not the abscissa of a curve point")
	}
	n := len(c.VerificationShares)
	if n > 0 {
		if _, ok := c.VerificationShares[c.ID]; !ok {
			p = append(p, "own verification share missing")
		}
	}
	for _, pt := range c.VerificationShares {
		if pt == nil || pt.IsIdentity() {
			p = append(p, "a verification share is nil or the identity")
			break
		}
	}
	if !c15ValidThreshold(c.Threshold, n) {
		p = append(p, fmt.Sprintf("threshold %d with %d parties", c.Threshold, n))
	}
	return p
}

func c15ValidDoerner(setupNil bool, share curve.Scalar, pub curve.Point, chain []byte) []string {
	var p []string
	if setupNil {
		p = append(p, "OT setup is nil")
	}
	if c15ScalarBad(share) {
		p = append(p, "secret share is zero")
	}
	if c15PointBad(pub) {
		p = append(p, "public key is the identity")
	}
	if len(chain) != 32 {
		p = append(p, fmt.Sprintf("ChainKey has %d bytes", len(chain)))
	}
	return p
}

// the rules of PreSignature.Validate re-stated (Validate itself is not called by the restore path)
func c15ValidPreSig(s *ecdsa.PreSignature) []string {
	var p []string
	if c15PointBad(s.R) {
		p = append(p, "R is the identity")
	}
	if s.RBar == nil || s.S == nil || s.RBar.Points == nil || s.S.Points == nil {
		p = append(p, "RBar or S nil")
	} else {
		if len(s.RBar.Points) != len(s.S.Points) {
			p = append(p, "different number of RBar and S shares")
		}
		if len(s.RBar.Points) == 0 {
			p = append(p, "no signers")
		}
		for id, r := range s.RBar.Points {
			if c15PointBad(r) {
				p = append(p, "an RBar share is the identity")
				break
			}
			if x, ok := s.S.Points[id]; !ok || c15PointBad(x) {
				p = append(p, "an S share is missing or the identity")
				break
			}
		}
	}
	if len(s.ID) != 32 {
		p = append(p, fmt.Sprintf("ID has %d bytes", len(s.ID)))
	} else {
		z := true
		for _, b := range s.ID {
			if b != 0 {
				z = false
			}
		}
		if z {
			p = append(p, "ID is zero")
		}
	}
	if c15ScalarBad(s.KShare) {
		p = append(p, "KShare is zero")
	}
	if c15ScalarBad(s.ChiShare) {
		p = append(p, "ChiShare is zero")
	}
	return p
}
