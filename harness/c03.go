package main

// C03 -- a tampering participant cannot make an honest party accept a wrong result.
// Mutation catalogue generated from the LIVE messages: one cheating party E (an honest handler whose outgoing
// messages are rewritten on the wire), every protocol, every round, every outgoing message kind of E; the CBOR payload
// is decoded into a generic tree (c03_cbor.go) and every field path is altered (boundary values, values copied from other
// senders / rounds / fields, re-randomised valid-looking values, structural damage, recipient / round / sender substitution,
// per-recipient different alterations; on p2p messages also header-level: the recipient field To cleared / set to another party /
// set to the sender, alone and combined with every payload alteration). E is "rushing" (its target message is released after every honest message of
// the round is known) and keeps the view digests it attaches consistent with what each recipient saw.
// Oracle (c03_oracle.go): every honest party that FINISHED holds a signature valid under the Coq reference verifier for the
// agreed message and the group key recorded at key generation, or key material consistent with all other honest finishers.
// The same runs are judged for blame soundness by C04 (c04.go).

import (
	"errors"
	"fmt"
	"math/big"
	"math/rand"
	"os"
	"regexp"
	"runtime"
	"sort"
	"strings"
	"sync"
	"time"

	"github.com/fxamacker/cbor/v2"

	"github.com/taurusgroup/multi-party-sig/pkg/ecdsa"
	"github.com/taurusgroup/multi-party-sig/pkg/math/curve"
	"github.com/taurusgroup/multi-party-sig/pkg/party"
	"github.com/taurusgroup/multi-party-sig/pkg/pool"
	"github.com/taurusgroup/multi-party-sig/pkg/protocol"
	"github.com/taurusgroup/multi-party-sig/protocols/cmp"
	"github.com/taurusgroup/multi-party-sig/protocols/cmp/presign"
	"github.com/taurusgroup/multi-party-sig/protocols/doerner"
	"github.com/taurusgroup/multi-party-sig/protocols/frost"
)

func init() { props["C03"] = runC03 }

// ---------------------------------------------------------------------------------------------
// cases and outcomes

type c03Case struct {
	Proto   string   `json:"protocol"`
	Cheater string   `json:"cheater"`
	Round   int      `json:"round"`
	Bcast   bool     `json:"broadcast"`
	Field   string   `json:"field"`      // field path with array indices normalised to [*]
	Path    string   `json:"path"`       // concrete path of the altered node
	Alt     string   `json:"alteration"` // "a" or "split:a|b" (different alterations for the first / second honest recipient)
	Seed    int64    `json:"seed"`
	Key     string   `json:"key"`
	Parties []string `json:"parties,omitempty"` // participants of the session when not the default three
	// Order "p2p-first": E's broadcast of the same round is delivered only after the altered p2p messages (the handler then
	// verifies the stored p2p message from inside the broadcast path); "" = E's broadcast first
	Order string `json:"order,omitempty"`
	// Hdr: header-level alteration of the recipient field `To` of E's p2p messages, applied on top of the field alteration
	// and delivered to the ORIGINAL recipient: "to-cleared" (empty To: the form two-party sessions use), "to-other" (a third
	// participant), "to-sender" (E itself), "to-explicit" (the recipient's id where the sender had left To empty); "" = untouched
	Hdr string `json:"header,omitempty"`
	// dealing cases (Field "<dealing...>", c03_deal.go): the recipient whose share is special, and the threshold of the session
	Victim string `json:"victim,omitempty"`
	Thr    int    `json:"threshold,omitempty"`
	// Pool: the session runs with a worker pool of its own (c03Proto.PoolStart; only for alterations that cannot reach a pool worker)
	Pool bool `json:"pool,omitempty"`
	// MsgLen: length in bytes of the message digest the signing session is run on (0 = the fixed 32-byte digest c03Msg)
	MsgLen int `json:"msg_len,omitempty"`
}

func (cs c03Case) kind() string {
	if cs.Bcast {
		return "bc"
	}
	return "p2p"
}

func (cs c03Case) key(prop string) string {
	k := fmt.Sprintf("%s/%s/round%d/%s%s/%s", prop, cs.Proto, cs.Round, cs.kind(), cs.Field, cs.Alt)
	if cs.Order != "" {
		k += "/" + cs.Order
	}
	if cs.Hdr != "" {
		k += "/" + cs.Hdr
	}
	if cs.MsgLen != 0 {
		k += fmt.Sprintf("/msg-len=%d", cs.MsgLen)
	}
	return k
}

type c03Party struct {
	ID         party.ID
	Res        interface{}
	Err        error
	ErrText    string
	Inner      string // text of the wrapped error (without the culprit prefix)
	ProtoErr   bool
	Culprits   []party.ID
	NoticeFrom party.ID // sender of the round-0 notice that ended this party ("" = the error was detected by the party itself)
	Panic      string
	Hung       bool
	Round      int
}

type c03Outcome struct {
	Case       c03Case
	Applied    bool // the alteration was applicable to the live message
	Changed    bool // ... and changed at least one delivered byte
	Note       string
	Honest     []c03Party
	Cheater    c03Party
	Deliveries int
	CPUSec     float64 // wall time of this run on its worker goroutine
}

func (o *c03Outcome) class() string {
	if !o.Applied {
		return "not-applicable"
	}
	fin, rej, wait, pan := 0, 0, 0, 0
	for _, p := range o.Honest {
		switch {
		case p.Panic != "" || p.Hung:
			pan++
		case p.Res != nil:
			fin++
		case p.Err != nil && p.ErrText != "protocol: not finished":
			rej++
		default:
			wait++
		}
	}
	switch {
	case pan > 0:
		return "panic-or-hang"
	case fin == len(o.Honest):
		return "all-finished"
	case fin > 0:
		return "some-finished"
	case rej > 0:
		return "rejected"
	}
	_ = wait
	return "waiting"
}

// ---------------------------------------------------------------------------------------------
// protocols under test

type c03Proto struct {
	Name   string
	IDs    []party.ID
	Two    bool
	Heavy  bool // CMP: seconds per run
	SID    []byte
	Start  func(id party.ID) protocol.StartFunc
	// PoolStart (optional): the same session with the library's worker pool; used by runs in which every message is well-formed
	// (dealing cases): a panic on a pool worker could not be recovered by the handler and would end the harness
	PoolStart func(id party.ID, pl *pool.Pool) protocol.StartFunc
	Leader    map[party.ID]bool
	// Judge returns the reasons why the honest finishers' results are WRONG (nil = fine); sigs = #signatures judged
	Judge  func(o *c03Oracle, out *c03Outcome) []string
	Moduli [][]byte
}

func (p *c03Proto) build(rng *rand.Rand, onEmit func(from party.ID, e *Env) []*Env) *Sim {
	s := NewSim(p.IDs, rng, nil)
	s.OnEmit = onEmit
	for _, id := range s.IDs {
		if p.Two {
			s.AddTwoParty(id, p.Start(id), p.SID, p.Leader[id])
		} else {
			s.AddMulti(id, p.Start(id), p.SID)
		}
	}
	s.Seal()
	return s
}

type c03Mat struct {
	msg      []byte
	ids      []party.ID
	frostCfg map[party.ID]*frost.Config
	tapCfg   map[party.ID]*frost.TaprootConfig
	dIDs     []party.ID
	dR       *doerner.ConfigReceiver
	dS       *doerner.ConfigSender
	cmpCfg   map[party.ID]*cmp.Config
	cmpPre   map[party.ID]*ecdsa.PreSignature
	moduli   [][]byte
	errs     []string
	signers  []party.ID // CMP sign participants (nil = all three)
	// ser: documented encoding of every party's material, taken once (single-threaded) by freeze(); every run restores its
	// own private objects from it (fresh*), so that no Go object is shared between the goroutines that execute runs: the
	// library's Nat and point types write to themselves in read-only operations (saferith resizedLimbs, ToAffine).
	ser map[string][]byte
}

func c03RunHonest(p *c03Proto, seed int64) *Sim {
	s := p.build(rand.New(rand.NewSource(seed)), nil)
	s.RunFIFO(200000)
	return s
}

func c03ResultsOf(s *Sim) (map[party.ID]interface{}, error) {
	out := map[party.ID]interface{}{}
	for id, n := range s.Nodes {
		r, e := resultOf(n)
		if r == nil {
			return nil, fmt.Errorf("party %s: %s", id, e)
		}
		out[id] = r
	}
	return out, nil
}

var c03Msg = []byte("C03 agreed message hash 32 bytes")

// c03Material runs the honest set-up sessions (key generation, presigning) the signing protocols need.
func c03Material(c *ctx, needCMP, needPre bool) *c03Mat {
	m := &c03Mat{msg: c03Msg, ids: idsOf("alice", "bob", "carl"), dIDs: idsOf("recv", "send")}
	fail := func(what string, err error) { m.errs = append(m.errs, what+": "+err.Error()) }
	// FROST
	if res, err := c03ResultsOf(c03RunHonest(c03ProtoFrostKeygen(m, false), 11)); err != nil {
		fail("frost keygen", err)
	} else {
		m.frostCfg = map[party.ID]*frost.Config{}
		for id, r := range res {
			m.frostCfg[id], _ = r.(*frost.Config)
		}
	}
	if res, err := c03ResultsOf(c03RunHonest(c03ProtoFrostKeygen(m, true), 12)); err != nil {
		fail("frost taproot keygen", err)
	} else {
		m.tapCfg = map[party.ID]*frost.TaprootConfig{}
		for id, r := range res {
			m.tapCfg[id], _ = r.(*frost.TaprootConfig)
		}
	}
	// Doerner
	if res, err := c03ResultsOf(c03RunHonest(c03ProtoDoernerKeygen(m), 13)); err != nil {
		fail("doerner keygen", err)
	} else {
		m.dR, _ = res[m.dIDs[0]].(*doerner.ConfigReceiver)
		m.dS, _ = res[m.dIDs[1]].(*doerner.ConfigSender)
	}
	if needCMP {
		usePrimeCache()
		if res, err := c03ResultsOf(c03RunHonest(c03ProtoCMPKeygen(m), 14)); err != nil {
			fail("cmp keygen", err)
		} else {
			m.cmpCfg = map[party.ID]*cmp.Config{}
			for id, r := range res {
				m.cmpCfg[id], _ = r.(*cmp.Config)
			}
			for _, id := range m.ids {
				if pub := m.cmpCfg[id].Public[id]; pub != nil && pub.Paillier != nil {
					n := pub.Paillier.N().Big()
					m.moduli = append(m.moduli, n.Bytes(), new(big.Int).Mul(n, n).Bytes())
				}
			}
		}
		if needPre && m.cmpCfg != nil {
			if res, err := c03ResultsOf(c03RunHonest(c03ProtoCMPPresign(m, "offline"), 15)); err != nil {
				fail("cmp presign", err)
			} else {
				m.cmpPre = map[party.ID]*ecdsa.PreSignature{}
				for id, r := range res {
					m.cmpPre[id], _ = r.(*ecdsa.PreSignature)
				}
			}
		}
	}
	m.freeze()
	return m
}

// freeze: the material is shared read-only by runs on several goroutines, but the library's point type normalises itself
// in place on first use (JacobianPoint.ToAffine inside Equal / MarshalBinary / XScalar): two runs reading a freshly computed
// point (presignature R, RBar, S; verification shares) concurrently would race and compute garbage -- a harness artefact, not a
// protocol failure.  Round-tripping everything once through its documented encoding leaves only affine points, which no
// read-only operation writes to.
func (m *c03Mat) freeze() {
	fail := func(what string, err interface{}) { m.errs = append(m.errs, fmt.Sprintf("freeze %s: %v", what, err)) }
	g := curve.Secp256k1{}
	m.ser = map[string][]byte{}
	keep := func(key string, v interface{}) {
		var b []byte
		var err error
		if cf, ok := v.(*cmp.Config); ok {
			b, err = cf.MarshalBinary()
		} else {
			b, err = cbor.Marshal(v)
		}
		if err == nil {
			m.ser[key] = b
		}
	}
	defer func() {
		for id, cf := range m.frostCfg {
			keep("frost/"+string(id), cf)
		}
		for id, cf := range m.tapCfg {
			keep("tap/"+string(id), cf)
		}
		for id, cf := range m.cmpCfg {
			keep("cmp/"+string(id), cf)
		}
		for id, pre := range m.cmpPre {
			keep("pre/"+string(id), pre)
		}
		if m.dR != nil {
			keep("dR", m.dR)
		}
		if m.dS != nil {
			keep("dS", m.dS)
		}
	}()
	for id, cf := range m.frostCfg {
		if cf == nil {
			continue
		}
		if r, e := restoreAll([]interface{}{cf}); e == "" {
			m.frostCfg[id] = r[0].(*frost.Config)
		} else {
			fail("frost config", e)
		}
	}
	for id, cf := range m.tapCfg {
		if cf == nil {
			continue
		}
		if r, e := restoreAll([]interface{}{cf}); e == "" {
			m.tapCfg[id] = r[0].(*frost.TaprootConfig)
		} else {
			fail("taproot config", e)
		}
	}
	for id, cf := range m.cmpCfg {
		if cf == nil {
			continue
		}
		if r, e := restoreAll([]interface{}{cf}); e == "" {
			m.cmpCfg[id] = r[0].(*cmp.Config)
		} else {
			fail("cmp config", e)
		}
	}
	for id, pre := range m.cmpPre {
		if pre == nil {
			continue
		}
		b, err := cbor.Marshal(pre)
		if err != nil {
			fail("presignature", err)
			continue
		}
		n := ecdsa.EmptyPreSignature(g)
		if err := cbor.Unmarshal(b, n); err != nil {
			fail("presignature", err)
			continue
		}
		m.cmpPre[id] = n
	}
	if m.dR != nil {
		if b, err := cbor.Marshal(m.dR); err == nil {
			n := doerner.EmptyConfigReceiver(g)
			if err := cbor.Unmarshal(b, n); err == nil {
				m.dR = n
			} else {
				fail("doerner receiver", err)
			}
		}
	}
	if m.dS != nil {
		if b, err := cbor.Marshal(m.dS); err == nil {
			n := doerner.EmptyConfigSender(g)
			if err := cbor.Unmarshal(b, n); err == nil {
				m.dS = n
			} else {
				fail("doerner sender", err)
			}
		}
	}
}

func (m *c03Mat) freshFrost(id party.ID) *frost.Config {
	if b := m.ser["frost/"+string(id)]; b != nil {
		n := frost.EmptyConfig(curve.Secp256k1{})
		if cbor.Unmarshal(b, n) == nil {
			return n
		}
	}
	return m.frostCfg[id]
}

func (m *c03Mat) freshTap(id party.ID) *frost.TaprootConfig {
	if b := m.ser["tap/"+string(id)]; b != nil {
		n := &frost.TaprootConfig{}
		if cbor.Unmarshal(b, n) == nil {
			return n
		}
	}
	return m.tapCfg[id]
}

func (m *c03Mat) freshCMP(id party.ID) *cmp.Config {
	if b := m.ser["cmp/"+string(id)]; b != nil {
		n := cmp.EmptyConfig(curve.Secp256k1{})
		if n.UnmarshalBinary(b) == nil {
			return n
		}
	}
	return m.cmpCfg[id]
}

func (m *c03Mat) freshPre(id party.ID) *ecdsa.PreSignature {
	if b := m.ser["pre/"+string(id)]; b != nil {
		n := ecdsa.EmptyPreSignature(curve.Secp256k1{})
		if cbor.Unmarshal(b, n) == nil {
			return n
		}
	}
	return m.cmpPre[id]
}

func (m *c03Mat) freshDR() *doerner.ConfigReceiver {
	if b := m.ser["dR"]; b != nil {
		n := doerner.EmptyConfigReceiver(curve.Secp256k1{})
		if cbor.Unmarshal(b, n) == nil {
			return n
		}
	}
	return m.dR
}

func (m *c03Mat) freshDS() *doerner.ConfigSender {
	if b := m.ser["dS"]; b != nil {
		n := doerner.EmptyConfigSender(curve.Secp256k1{})
		if cbor.Unmarshal(b, n) == nil {
			return n
		}
	}
	return m.dS
}

func c03HonestResults(out *c03Outcome) map[party.ID]interface{} {
	res := map[party.ID]interface{}{}
	for _, p := range out.Honest {
		if p.Res != nil {
			res[p.ID] = p.Res
		}
	}
	return res
}

func c03JudgeSigs(groupKey func() interface{}, msg []byte) func(o *c03Oracle, out *c03Outcome) []string {
	return func(o *c03Oracle, out *c03Outcome) []string {
		var bad []string
		for _, p := range out.Honest {
			if p.Res == nil {
				continue
			}
			b, lib, judged := o.judgeSignature(p.Res, groupKey(), msg)
			if judged {
				o.c.res.Corr(lib == (b == ""))
			}
			if b != "" {
				bad = append(bad, fmt.Sprintf("%s finished with a wrong result: %s", p.ID, b))
			}
		}
		return bad
	}
}

func c03JudgeKeys(view func(interface{}) (c03KeyView, bool), all []party.ID, thr int, expectGroup func() []byte) func(o *c03Oracle, out *c03Outcome) []string {
	return func(o *c03Oracle, out *c03Outcome) []string {
		var views []c03KeyView
		var bad []string
		for _, p := range out.Honest {
			if p.Res == nil {
				continue
			}
			v, ok := view(p.Res)
			if !ok {
				bad = append(bad, fmt.Sprintf("%s finished with an unexpected result type %T", p.ID, p.Res))
				continue
			}
			if v.ID != p.ID {
				bad = append(bad, fmt.Sprintf("%s finished with key material labelled %q", p.ID, v.ID))
			}
			views = append(views, v)
		}
		if len(views) == 0 {
			return bad
		}
		var eg []byte
		if expectGroup != nil {
			eg = expectGroup()
		}
		func() {
			defer func() {
				if r := recover(); r != nil {
					bad = append(bad, fmt.Sprintf("key material could not be evaluated (malformed): %v", r))
				}
			}()
			bad = append(bad, o.judgeKeyMaterial(views, all, thr, eg)...)
		}()
		o.c.res.Corr(len(bad) == 0)
		return bad
	}
}

func c03ProtoFrostKeygen(m *c03Mat, tap bool) *c03Proto {
	name := "frost-keygen"
	if tap {
		name = "taproot-frost-keygen"
	}
	ids := m.ids
	return &c03Proto{Name: name, IDs: ids, SID: []byte("c03-" + name),
		Start: func(id party.ID) protocol.StartFunc {
			if tap {
				return frost.KeygenTaproot(id, ids, 1)
			}
			return frost.Keygen(curve.Secp256k1{}, id, ids, 1)
		},
		Judge: c03JudgeKeys(c03FrostKeyView, ids, 1, nil)}
}

// FROST refresh: the key generation rounds run on existing shares; every dealer's polynomial has constant term 0 (checked in
// round 2 on the commitment), so a share of value 0 is "consistent" with the dealer's commitment at the evaluation point 0.
// Every run restores private configs from bytes (Refresh aliases its input config).  Oracle: key-material consistency of the
// honest finishers AND the group key unchanged.
func c03ProtoFrostRefresh(m *c03Mat, tap bool) *c03Proto {
	ids := m.ids
	if tap {
		return &c03Proto{Name: "taproot-frost-refresh", IDs: ids, SID: []byte("c03-tfr"),
			Start: func(id party.ID) protocol.StartFunc { return frost.RefreshTaproot(m.freshTap(id), ids) },
			Judge: c03JudgeKeys(c03FrostKeyView, ids, 1, func() []byte { return append([]byte{}, m.tapCfg[ids[0]].PublicKey...) })}
	}
	return &c03Proto{Name: "frost-refresh", IDs: ids, SID: []byte("c03-fr"),
		Start: func(id party.ID) protocol.StartFunc { return frost.Refresh(m.freshFrost(id), ids) },
		Judge: c03JudgeKeys(c03FrostKeyView, ids, 1, func() []byte { return c03BinOf(m.frostCfg[ids[0]].PublicKey) })}
}

func c03ProtoFrostSign(m *c03Mat, tap bool) *c03Proto {
	ids := m.ids
	if tap {
		return &c03Proto{Name: "taproot-frost-sign", IDs: ids, SID: []byte("c03-tfs"),
			Start: func(id party.ID) protocol.StartFunc { return frost.SignTaproot(m.freshTap(id), ids, m.msg) },
			Judge: c03JudgeSigs(func() interface{} { return []byte(m.tapCfg[ids[0]].PublicKey) }, m.msg)}
	}
	return &c03Proto{Name: "frost-sign", IDs: ids, SID: []byte("c03-fs"),
		Start: func(id party.ID) protocol.StartFunc { return frost.Sign(m.freshFrost(id), ids, m.msg) },
		Judge: c03JudgeSigs(func() interface{} { return m.frostCfg[ids[0]].PublicKey }, m.msg)}
}

func c03ProtoDoernerKeygen(m *c03Mat) *c03Proto {
	g := curve.Secp256k1{}
	r, s := m.dIDs[0], m.dIDs[1]
	return &c03Proto{Name: "doerner-keygen", IDs: m.dIDs, Two: true, SID: []byte("c03-dk"), Leader: map[party.ID]bool{r: true},
		Start: func(id party.ID) protocol.StartFunc {
			if id == r {
				return doerner.Keygen(g, true, r, s, nil)
			}
			return doerner.Keygen(g, false, s, r, nil)
		},
		Judge: func(o *c03Oracle, out *c03Outcome) []string {
			var bad []string
			for _, p := range out.Honest {
				if p.Res != nil {
					for _, b := range c03DoernerKeyCheck(p.Res) {
						bad = append(bad, fmt.Sprintf("%s finished with a wrong result: %s", p.ID, b))
					}
				}
			}
			return bad
		}}
}

func c03ProtoDoernerSign(m *c03Mat) *c03Proto {
	r, s := m.dIDs[0], m.dIDs[1]
	return &c03Proto{Name: "doerner-sign", IDs: m.dIDs, Two: true, SID: []byte("c03-ds"), Leader: map[party.ID]bool{r: true, s: true},
		Start: func(id party.ID) protocol.StartFunc {
			if id == r {
				return doerner.SignReceiver(m.freshDR(), r, s, m.msg, nil)
			}
			return doerner.SignSender(m.freshDS(), s, r, m.msg, nil)
		},
		Judge: c03JudgeSigs(func() interface{} { return m.dR.Public }, m.msg)}
}

func c03ProtoCMPKeygen(m *c03Mat) *c03Proto {
	ids := m.ids
	return &c03Proto{Name: "cmp-keygen", IDs: ids, Heavy: true, SID: []byte("c03-ck"),
		Start: func(id party.ID) protocol.StartFunc { return cmp.Keygen(curve.Secp256k1{}, id, ids, 1, nil) },
		PoolStart: func(id party.ID, pl *pool.Pool) protocol.StartFunc { return cmp.Keygen(curve.Secp256k1{}, id, ids, 1, pl) },
		Judge: c03JudgeKeys(c03CmpKeyView, ids, 1, nil)}
}

func c03ProtoCMPRefresh(m *c03Mat) *c03Proto {
	ids := m.ids
	return &c03Proto{Name: "cmp-refresh", IDs: ids, Heavy: true, SID: []byte("c03-cr"), Moduli: m.moduli,
		Start:     func(id party.ID) protocol.StartFunc { return cmp.Refresh(m.freshCMP(id), nil) },
		PoolStart: func(id party.ID, pl *pool.Pool) protocol.StartFunc { return cmp.Refresh(m.freshCMP(id), pl) },
		Judge: c03JudgeKeys(c03CmpKeyView, ids, 1, func() []byte { return c03BinOf(m.cmpCfg[ids[0]].PublicPoint()) })}
}

func c03ProtoCMPSign(m *c03Mat, ids []party.ID) *c03Proto {
	if len(ids) == 0 {
		ids = m.ids
	}
	return &c03Proto{Name: "cmp-sign", IDs: ids, Heavy: true, SID: []byte("c03-cs"), Moduli: m.moduli,
		Start: func(id party.ID) protocol.StartFunc { return cmp.Sign(m.freshCMP(id), ids, m.msg, nil) },
		Judge: c03JudgeSigs(func() interface{} { return m.cmpCfg[ids[0]].PublicPoint() }, m.msg)}
}

// variant: "offline" (presignature only), "full" (presign + sign in one session), "online" (sign with stored presignatures)
func c03ProtoCMPPresign(m *c03Mat, variant string) *c03Proto {
	ids := m.ids
	pk := func() interface{} { return m.cmpCfg[ids[0]].PublicPoint() }
	switch variant {
	case "full":
		return &c03Proto{Name: "cmp-presign-full", IDs: ids, Heavy: true, SID: []byte("c03-pf"), Moduli: m.moduli,
			Start: func(id party.ID) protocol.StartFunc { return presign.StartPresign(m.freshCMP(id), ids, m.msg, nil) },
			Judge: c03JudgeSigs(pk, m.msg)}
	case "online":
		return &c03Proto{Name: "cmp-presign-online", IDs: ids, SID: []byte("c03-po"), Moduli: m.moduli,
			Start: func(id party.ID) protocol.StartFunc { return cmp.PresignOnline(m.freshCMP(id), m.freshPre(id), m.msg, nil) },
			Judge: c03JudgeSigs(pk, m.msg)}
	}
	return &c03Proto{Name: "cmp-presign", IDs: ids, Heavy: true, SID: []byte("c03-ps"), Moduli: m.moduli,
		Start: func(id party.ID) protocol.StartFunc { return cmp.Presign(m.freshCMP(id), ids, nil) },
		Judge: func(o *c03Oracle, out *c03Outcome) []string {
			res := c03HonestResults(out)
			if len(res) == 0 {
				return nil
			}
			var bad []string
			func() {
				defer func() {
					if r := recover(); r != nil {
						bad = append(bad, fmt.Sprintf("presignature could not be evaluated (malformed): %v", r))
					}
				}()
				bad = o.judgePresignatures(res, m.cmpCfg[ids[0]].PublicPoint())
			}()
			o.c.res.Corr(len(bad) == 0)
			return bad
		}}
}

// ---------------------------------------------------------------------------------------------
// alterations

var c03ReIdx = regexp.MustCompile(`\[\d+\]`)

func c03NormPath(p string) string { return c03ReIdx.ReplaceAllString(p, "[*]") }

func c03NodeClass(n *c03Node) string {
	switch n.Maj {
	case 0, 1:
		return "int"
	case 2:
		if n.Emb != nil {
			return "embedded"
		}
		switch {
		case len(n.B) == 33 && (n.B[0] == 2 || n.B[0] == 3):
			return "point"
		case len(n.B) == 32:
			return "scalar"
		case len(n.B) >= 64:
			return "bignum"
		}
		return "bytes"
	case 3:
		return "text"
	case 4:
		return "array"
	case 5:
		return "map"
	case 6:
		return "tag"
	}
	return "simple"
}

var c03AltsByClass = map[string][]string{
	"point":    {"flipbit", "neg", "fresh", "copy-sender", "zero", "short", "gen", "copy-field", "copy-round", "long", "empty", "max"},
	"scalar":   {"plus1", "zero", "fresh", "copy-sender", "qm1", "one", "q", "flipbit", "copy-field", "copy-round", "short", "long", "empty", "max"},
	"bignum":   {"flipbit", "zero", "fresh", "copy-sender", "one", "max", "N", "N2", "plus1", "flipfirst", "copy-field", "copy-round", "short", "long", "empty"},
	"bytes":    {"flipbit", "zero", "fresh", "copy-sender", "max", "short", "one", "flipfirst", "copy-field", "copy-round", "long", "empty"},
	"embedded": {"flipbit", "prefix+1", "zero", "copy-sender", "short", "empty", "fresh"},
	"int":      {"plus1", "zero", "one", "max"},
	"text":     {"empty", "other"},
	"simple":   {"toggle", "null"},
	"tag":      {"negate", "untag"},
	"array":    {"drop-last", "null", "empty", "swap", "dup-first", "copy-sender"},
	"map":      {"drop-last", "null", "empty", "swap", "dup-first", "copy-sender"},
	"message":  {"sender-subst", "recipient-subst", "round-subst", "garbage", "truncate", "drop"},
}

func c03BeAdd1(b []byte) []byte {
	out := append([]byte{}, b...)
	for i := len(out) - 1; i >= 0; i-- {
		out[i]++
		if out[i] != 0 {
			break
		}
	}
	return out
}

type c03AltEnv struct {
	rng    *rand.Rand
	s      *Sim
	E      party.ID
	round  int
	bcast  bool
	to     party.ID
	moduli [][]byte
	cache  map[*protocol.Message]*c03Node
}

func (a *c03AltEnv) parsed(m *protocol.Message) *c03Node {
	if t, ok := a.cache[m]; ok {
		return t
	}
	t, err := c03CborParse(m.Data)
	if err != nil {
		t = nil
	}
	a.cache[m] = t
	return t
}

// liveMessages: everything emitted so far, in a deterministic order
func (a *c03AltEnv) liveMessages() []*protocol.Message {
	var labels []string
	for l := range a.s.Nodes {
		labels = append(labels, string(l))
	}
	sort.Strings(labels)
	var out []*protocol.Message
	for _, l := range labels {
		out = append(out, a.s.Nodes[party.ID(l)].Out...)
	}
	return out
}

func (a *c03AltEnv) otherSenderMsg() *protocol.Message {
	var best *protocol.Message
	for _, m := range a.liveMessages() {
		if m.From == a.E || int(m.RoundNumber) != a.round || m.Broadcast != a.bcast {
			continue
		}
		if best == nil || (m.To == a.to && best.To != a.to) {
			best = m
		}
	}
	return best
}

func (a *c03AltEnv) freshBytes(n *c03Node) []byte {
	switch c03NodeClass(n) {
	case "point":
		k := new(big.Int).Rand(a.rng, c03TbQ)
		p := c03TbMul(k.Add(k, big.NewInt(1)), c03TbG())
		out := make([]byte, 33)
		out[0] = 2 + byte(p.Y.Bit(0))
		p.X.FillBytes(out[1:])
		return out
	case "scalar":
		out := make([]byte, 32)
		new(big.Int).Rand(a.rng, c03TbQ).FillBytes(out)
		return out
	}
	out := make([]byte, len(n.B))
	a.rng.Read(out)
	if len(out) > 0 && len(n.B) > 0 {
		out[0] = n.B[0] >> 1 // stays below the original magnitude (valid-looking)
		if len(out) > 1 && out[0] == 0 {
			out[1] |= 0x40
		}
	}
	return out
}

// apply performs alteration `alt` on the node at `path` of `root`; ok=false when not applicable to the live message.
func (a *c03AltEnv) apply(root *c03Node, path, alt string) (ok bool, note string) {
	n := root.find(path)
	if n == nil {
		return false, "path not present in the live message"
	}
	// embedded hosts with a 4-byte element count: remember which array the count describes
	var host *c03Node
	var hostArr *c03Node
	root.walk("", func(p string, x *c03Node) {
		if x.Emb != nil && x.EmbOff == 4 && strings.HasPrefix(path, p+"~") {
			host = x
		}
	})
	if host != nil {
		cnt := int(uint32(host.B[0])<<24 | uint32(host.B[1])<<16 | uint32(host.B[2])<<8 | uint32(host.B[3]))
		host.Emb.walk("", func(_ string, x *c03Node) {
			if x.Maj == 4 && len(x.Kids) == cnt && hostArr == nil {
				hostArr = x
			}
		})
	}
	defer func() {
		if ok && host != nil && hostArr != nil && host.Emb != nil {
			c := len(hostArr.Kids)
			host.B[0], host.B[1], host.B[2], host.B[3] = byte(c>>24), byte(c>>16), byte(c>>8), byte(c)
		}
	}()
	setB := func(b []byte) bool {
		if n.Maj != 2 && n.Maj != 3 {
			return false
		}
		n.B, n.Emb = b, nil
		return true
	}
	sameShape := func(x *c03Node) bool {
		return x.Maj == n.Maj && x.Emb == nil && (n.Maj != 2 || len(x.B) == len(n.B)) && x.isLeaf()
	}
	L := len(n.B)
	switch alt {
	case "zero":
		if n.Maj <= 1 {
			n.Maj, n.U = 0, 0
			return true, ""
		}
		return setB(make([]byte, L)), ""
	case "one":
		if n.Maj <= 1 {
			n.Maj, n.U = 0, 1
			return true, ""
		}
		if L == 0 {
			return false, "empty"
		}
		b := make([]byte, L)
		b[L-1] = 1
		return setB(b), ""
	case "max":
		if n.Maj <= 1 {
			n.U = ^uint64(0)
			return true, ""
		}
		b := make([]byte, L)
		for i := range b {
			b[i] = 0xff
		}
		return setB(b), ""
	case "qm1", "q":
		if n.Maj != 2 || L != 32 {
			return false, "not a 32-byte string"
		}
		v := new(big.Int).Set(c03TbQ)
		if alt == "qm1" {
			v.Sub(v, big.NewInt(1))
		}
		return setB(v.FillBytes(make([]byte, 32))), ""
	case "N", "N2":
		if n.Maj != 2 || len(a.moduli) < 2 {
			return false, "no Paillier modulus in this protocol"
		}
		i := 2 * a.rng.Intn(len(a.moduli)/2)
		if alt == "N2" {
			i++
		}
		return setB(append([]byte{}, a.moduli[i]...)), ""
	case "plus1":
		if n.Maj <= 1 {
			n.U++
			return true, ""
		}
		if n.Maj != 2 || L == 0 {
			return false, "not a byte string"
		}
		return setB(c03BeAdd1(n.B)), ""
	case "flipbit", "flipfirst":
		if (n.Maj != 2 && n.Maj != 3) || L == 0 {
			return false, "not a string"
		}
		b := append([]byte{}, n.B...)
		if alt == "flipbit" {
			b[L-1] ^= 1
		} else {
			b[0] ^= 1
		}
		return setB(b), ""
	case "neg":
		if c03NodeClass(n) != "point" {
			return false, "not a point"
		}
		b := append([]byte{}, n.B...)
		b[0] ^= 1
		return setB(b), ""
	case "gen":
		if c03NodeClass(n) != "point" {
			return false, "not a point"
		}
		b := make([]byte, 33)
		b[0] = 2
		c03TbGx.FillBytes(b[1:])
		return setB(b), ""
	case "fresh":
		if n.Maj != 2 {
			return false, "not a byte string"
		}
		return setB(a.freshBytes(n)), ""
	case "empty":
		switch n.Maj {
		case 2, 3:
			return setB([]byte{}), ""
		case 4, 5:
			n.Kids = nil
			return true, ""
		}
		return false, ""
	case "short":
		if (n.Maj != 2 && n.Maj != 3) || L == 0 {
			return false, ""
		}
		return setB(append([]byte{}, n.B[:L-1]...)), ""
	case "long":
		if n.Maj != 2 && n.Maj != 3 {
			return false, ""
		}
		return setB(append([]byte{0}, n.B...)), ""
	case "prefix+1":
		if n.Emb == nil || n.EmbOff != 4 {
			return false, ""
		}
		n.encode(nil)
		b := append([]byte{}, n.B...)
		b[3]++
		return setB(b), ""
	case "other":
		if n.Maj != 3 {
			return false, ""
		}
		for _, id := range a.s.IDs {
			if string(id) != string(n.B) {
				return setB([]byte(id)), ""
			}
		}
		return false, ""
	case "toggle":
		if n.Maj != 7 || (n.U != 20 && n.U != 21) {
			return false, "not a boolean"
		}
		n.U = 41 - n.U
		return true, ""
	case "null":
		*n = c03Node{Maj: 7, U: 22}
		return true, ""
	case "negate":
		if n.Maj != 6 || (n.U != 2 && n.U != 3) {
			return false, "not a bignum tag"
		}
		n.U = 5 - n.U
		return true, ""
	case "untag":
		if n.Maj != 6 {
			return false, ""
		}
		*n = *n.Kids[0]
		return true, ""
	case "drop-last":
		switch {
		case n.Maj == 4 && len(n.Kids) >= 1:
			n.Kids = n.Kids[:len(n.Kids)-1]
		case n.Maj == 5 && len(n.Kids) >= 2:
			n.Kids = n.Kids[:len(n.Kids)-2]
		default:
			return false, ""
		}
		return true, ""
	case "dup-first":
		switch {
		case n.Maj == 4 && len(n.Kids) >= 1:
			n.Kids = append(n.Kids, n.Kids[0].clone())
		case n.Maj == 5 && len(n.Kids) >= 2:
			n.Kids = append(n.Kids, n.Kids[0].clone(), n.Kids[1].clone())
		default:
			return false, ""
		}
		return true, ""
	case "swap":
		switch {
		case n.Maj == 4 && len(n.Kids) >= 2:
			n.Kids[0], n.Kids[1] = n.Kids[1], n.Kids[0]
		case n.Maj == 5 && len(n.Kids) >= 4:
			n.Kids[1], n.Kids[3] = n.Kids[3], n.Kids[1]
		default:
			return false, ""
		}
		return true, ""
	case "copy-sender":
		om := a.otherSenderMsg()
		if om == nil {
			return false, "no message of another sender for this round"
		}
		t := a.parsed(om)
		if t == nil {
			return false, ""
		}
		x := t.find(path)
		if x == nil {
			return false, "other sender's message has no such path"
		}
		n.set(x)
		return true, "from " + string(om.From)
	case "copy-field":
		var cands []*c03Node
		root.walk("", func(p string, x *c03Node) {
			if x != n && sameShape(x) && string(x.B) != string(n.B) {
				cands = append(cands, x)
			}
		})
		if len(cands) == 0 || !n.isLeaf() {
			return false, "no other field of the same shape"
		}
		n.set(cands[a.rng.Intn(len(cands))])
		return true, ""
	case "copy-round":
		if !n.isLeaf() {
			return false, ""
		}
		var cands []*c03Node
		for _, m := range a.liveMessages() {
			if int(m.RoundNumber) == a.round || m.RoundNumber == 0 || len(m.Data) > 1<<16 {
				continue
			}
			if t := a.parsed(m); t != nil {
				t.walk("", func(_ string, x *c03Node) {
					if sameShape(x) && string(x.B) != string(n.B) {
						cands = append(cands, x)
					}
				})
			}
		}
		if len(cands) == 0 {
			return false, "no value of the same shape in another round"
		}
		n.set(cands[a.rng.Intn(len(cands))])
		return true, ""
	case "copy-recipient":
		// the value E sent to ANOTHER recipient in the same position (consistent with E's commitments at that recipient's point)
		if !n.isLeaf() {
			return false, ""
		}
		var cands []*c03Node
		for _, m := range a.ownP2P() {
			if m.To == a.toID() {
				continue
			}
			if t := a.parsed(m); t != nil {
				if x := t.find(path); x != nil && sameShape(x) && string(x.B) != string(n.B) {
					cands = append(cands, x)
				}
			}
		}
		if len(cands) == 0 {
			return false, "E sent no different value of this shape to another recipient"
		}
		n.set(cands[a.rng.Intn(len(cands))])
		return true, ""
	case "interp0":
		// the value at the evaluation point 0 of the polynomial through the scalars E sent to ALL its recipients
		// (for a dealt Shamir sharing of degree < #recipients this is the dealer's constant term f(0))
		if c03NodeClass(n) != "scalar" {
			return false, "not a scalar"
		}
		var xs, ys []*big.Int
		for _, m := range a.ownP2P() {
			if t := a.parsed(m); t != nil {
				if x := t.find(path); x != nil && c03NodeClass(x) == "scalar" {
					xs = append(xs, new(big.Int).Mod(new(big.Int).SetBytes([]byte(m.To)), c03TbQ))
					ys = append(ys, new(big.Int).SetBytes(x.B))
				}
			}
		}
		if len(xs) < 2 {
			return false, "E sent this scalar to fewer than two recipients"
		}
		v, ok := c03InterpolateAt0(xs, ys)
		if !ok {
			return false, "evaluation points not distinct"
		}
		return setB(v.FillBytes(make([]byte, 32))), ""
	case "none":
		return true, ""
	}
	return false, "unknown alteration " + alt
}

// ownP2P: E's own addressed p2p messages of the round under alteration, one per recipient, in emission order
func (a *c03AltEnv) ownP2P() []*protocol.Message {
	var out []*protocol.Message
	seen := map[party.ID]bool{}
	if n := a.s.Nodes[a.E]; n != nil {
		for _, m := range n.Out {
			if int(m.RoundNumber) == a.round && !m.Broadcast && m.To != "" && !seen[m.To] {
				seen[m.To] = true
				out = append(out, m)
			}
		}
	}
	return out
}

// toID: party id of the recipient the envelope under alteration is delivered to
func (a *c03AltEnv) toID() party.ID {
	if n := a.s.Nodes[a.to]; n != nil {
		return n.ID
	}
	return a.to
}

// c03InterpolateAt0: Lagrange interpolation at 0 over the scalar field (the cheater's own arithmetic, plain math/big)
func c03InterpolateAt0(xs, ys []*big.Int) (*big.Int, bool) {
	acc := new(big.Int)
	for j := range xs {
		num, den := big.NewInt(1), big.NewInt(1)
		for k := range xs {
			if k == j {
				continue
			}
			num.Mul(num, xs[k]).Mod(num, c03TbQ)
			d := new(big.Int).Sub(xs[k], xs[j])
			den.Mul(den, d.Mod(d, c03TbQ)).Mod(den, c03TbQ)
		}
		if den.Sign() == 0 {
			return nil, false
		}
		l := num.Mul(num, new(big.Int).ModInverse(den, c03TbQ))
		acc.Add(acc, l.Mul(l, ys[j])).Mod(acc, c03TbQ)
	}
	return acc, true
}

// ---------------------------------------------------------------------------------------------
// one mutated run

func c03LastObs(n *Node) Obs {
	if len(n.Obs) == 0 {
		return Obs{}
	}
	return n.Obs[len(n.Obs)-1]
}

func c03PartyOutcome(n *Node) c03Party {
	p := c03Party{ID: n.ID}
	if n.H == nil {
		p.Err, p.ErrText = n.StartErr, "no handler: "+fmt.Sprint(n.StartErr)
		return p
	}
	for _, o := range n.Obs {
		if o.Panic != "" && p.Panic == "" {
			p.Panic = o.Panic
		}
		if o.Hung {
			p.Hung = true
		}
	}
	if p.Hung {
		return p
	}
	p.Round = c03LastObs(n).Round
	func() {
		defer func() {
			if r := recover(); r != nil {
				p.Panic = fmt.Sprint("Result: ", r)
			}
		}()
		p.Res, p.Err = n.H.Result()
	}()
	if p.Err != nil {
		p.ErrText = p.Err.Error()
		var pe protocol.Error
		var pp *protocol.Error
		p.Inner = p.ErrText
		if errors.As(p.Err, &pe) {
			p.ProtoErr, p.Culprits = true, pe.Culprits
			if pe.Err != nil {
				p.Inner = pe.Err.Error()
			}
		} else if errors.As(p.Err, &pp) && pp != nil {
			p.ProtoErr, p.Culprits = true, pp.Culprits
			if pp.Err != nil {
				p.Inner = pp.Err.Error()
			}
		}
	}
	return p
}

func c03SplitAlt(alt string) (string, string, bool) {
	if strings.HasPrefix(alt, "split:") {
		ab := strings.SplitN(strings.TrimPrefix(alt, "split:"), "|", 2)
		if len(ab) == 2 {
			return ab[0], ab[1], true
		}
	}
	return alt, alt, false
}

// c03Run executes one case: E's messages of (round, kind) are held back until nothing else can be delivered ("rushing"),
// altered, released; the run continues until no envelope is in flight.
func c03Run(p *c03Proto, cs c03Case) (out *c03Outcome) {
	if c03IsDeal(cs) {
		return c03RunDeal(p, cs)
	}
	out = &c03Outcome{Case: cs}
	t0 := time.Now()
	defer func() {
		if r := recover(); r != nil {
			out.Note = fmt.Sprint("harness panic: ", r)
		}
		out.CPUSec = time.Since(t0).Seconds()
	}()
	if cs.Pool {
		pp, done := c03Pooled(p)
		defer done()
		p = pp
	}
	E := party.ID(cs.Cheater)
	rng := rand.New(rand.NewSource(cs.Seed))
	s := p.build(rng, func(from party.ID, e *Env) []*Env {
		if from == E && int(e.Msg.RoundNumber) == cs.Round && e.Msg.Broadcast == cs.Bcast && e.Tag == "" {
			e.Tag = "/held"
		} else if cs.Order == "p2p-first" && !cs.Bcast && from == E && int(e.Msg.RoundNumber) == cs.Round && e.Msg.Broadcast && e.Tag == "" {
			e.Tag = "/late"
		}
		return []*Env{e}
	})
	s.AcceptTimeout = 90 * time.Second
	env := &c03AltEnv{rng: rng, s: s, E: E, round: cs.Round, bcast: cs.Bcast, moduli: p.Moduli, cache: map[*protocol.Message]*c03Node{}}
	notice := map[party.ID]party.ID{}
	mutated := false
	deliver := func(i int) {
		e := s.take(i)
		n := s.Nodes[e.To]
		if n == nil || n.H == nil {
			return
		}
		// E keeps the attached view digests consistent with what each side saw (only after a broadcast was altered)
		if mutated && cs.Bcast && n.MH != nil && int(e.Msg.RoundNumber) > cs.Round && (e.Msg.From == E || e.To == E) {
			if h := n.MH.VerifState().Hashes[uint16(e.Msg.RoundNumber)-1]; h != nil && !sameBytes(h, e.Msg.BroadcastVerification) {
				m := *e.Msg
				m.BroadcastVerification = h
				e.Msg = &m
			}
		}
		before := c03LastObs(n).Class
		o := s.Deliver(e)
		out.Deliveries++
		if before == 0 && o.Class == 2 && e.Msg.RoundNumber == 0 {
			notice[n.ID] = e.Msg.From
		}
	}
	for steps := 0; len(s.Flight) > 0 && steps < 20000; steps++ {
		pick, pickE, held, late := -1, -1, false, false
		for i, e := range s.Flight {
			if e.Tag == "/held" {
				held = true
				continue
			}
			if e.Tag == "/late" {
				late = true
				continue
			}
			if e.Msg.From != E && pick < 0 {
				pick = i
			}
			if e.Msg.From == E && pickE < 0 {
				pickE = i
			}
		}
		switch {
		case pick >= 0:
			deliver(pick)
		case pickE >= 0:
			deliver(pickE)
		case held:
			c03Mutate(s, env, cs, out)
			mutated = true
		case late:
			// the altered p2p messages have been delivered (and stored): now E's broadcast of that round
			for _, e := range s.Flight {
				if e.Tag == "/late" {
					e.Tag = ""
				}
			}
		}
	}
	for _, id := range s.IDs {
		n := s.Nodes[id]
		po := c03PartyOutcome(n)
		po.NoticeFrom = notice[id]
		if id == E {
			out.Cheater = po
		} else {
			out.Honest = append(out.Honest, po)
		}
	}
	return out
}

// c03HeaderAlts: header-level alterations of a p2p message, by whether the sender addressed it (To set) or not (To empty)
func c03HeaderAlts(addressed bool, parties int) []string {
	var hs []string
	if addressed {
		hs = append(hs, "to-cleared")
	} else {
		hs = append(hs, "to-explicit")
	}
	if parties >= 3 {
		hs = append(hs, "to-other")
	}
	return append(hs, "to-sender")
}

// c03Mutate rewrites all held envelopes of E according to the case and releases them: first the payload (field- or
// message-level alteration), then, if the case has one, the header-level alteration of `To`.  The envelope still goes to the
// original recipient (E controls the wire).
func c03Mutate(s *Sim, env *c03AltEnv, cs c03Case, out *c03Outcome) {
	c03MutatePayload(s, env, cs, out)
	if cs.Hdr == "" || cs.Bcast || !out.Applied {
		return
	}
	hdrChanged := false
	for _, e := range s.Flight {
		if e.Tag != "/mut" {
			continue
		}
		rcpt := e.To
		if n := s.Nodes[e.To]; n != nil {
			rcpt = n.ID
		}
		to := e.Msg.To
		switch cs.Hdr {
		case "to-cleared":
			to = ""
		case "to-explicit":
			to = rcpt
		case "to-sender":
			to = env.E
		case "to-other":
			for _, id := range s.IDs {
				if id != env.E && id != rcpt {
					to = id
					break
				}
			}
		}
		if to != e.Msg.To {
			m := *e.Msg
			m.To = to
			e.Msg, e.Valid = &m, false
			hdrChanged = true
		}
	}
	if hdrChanged {
		out.Changed = true
	} else if cs.Field == "<message>" && cs.Alt == "none" {
		out.Applied, out.Note = false, "header alteration does not change this message"
	}
}

func c03MutatePayload(s *Sim, env *c03AltEnv, cs c03Case, out *c03Outcome) {
	var heldEnvs []*Env
	for _, e := range s.Flight {
		if e.Tag == "/held" {
			heldEnvs = append(heldEnvs, e)
			e.Tag = "/mut"
		}
	}
	altA, altB, split := c03SplitAlt(cs.Alt)
	setData := func(e *Env, data []byte) {
		if !sameBytes(data, e.Msg.Data) {
			out.Changed = true
		}
		m := *e.Msg
		m.Data = data
		m.To = e.Msg.To
		e.Msg, e.Valid = &m, false
	}
	if cs.Field == "<message>" {
		switch altA {
		case "none":
			// header-level alteration alone (applied by c03Mutate)
			out.Applied = true
		case "drop":
			var keep []*Env
			for _, e := range s.Flight {
				if e.Tag != "/mut" {
					keep = append(keep, e)
				}
			}
			s.Flight = keep
			out.Applied, out.Changed = true, true
		case "garbage":
			for _, e := range heldEnvs {
				b := make([]byte, 1+env.rng.Intn(40))
				env.rng.Read(b)
				setData(e, b)
			}
			out.Applied = true
		case "truncate":
			for _, e := range heldEnvs {
				setData(e, append([]byte{}, e.Msg.Data[:len(e.Msg.Data)/2]...))
			}
			out.Applied = true
		case "recipient-subst":
			// E's message for one recipient delivered to another (header rewritten so that the handler looks at it)
			if len(heldEnvs) < 2 || heldEnvs[0].Msg == heldEnvs[1].Msg {
				out.Note = "needs distinct messages for two recipients"
				return
			}
			d := make([][]byte, len(heldEnvs))
			for i, e := range heldEnvs {
				d[i] = e.Msg.Data
			}
			for i, e := range heldEnvs {
				m := *e.Msg
				m.Data = d[(i+1)%len(d)]
				e.Msg, e.Valid = &m, false
			}
			out.Applied, out.Changed = true, true
		case "round-subst":
			// the payload of another round's message of E under this round's header
			var other *protocol.Message
			for _, m := range s.Nodes[env.E].Out {
				if int(m.RoundNumber) != cs.Round && m.RoundNumber != 0 && (other == nil || m.Broadcast == cs.Bcast) {
					other = m
				}
			}
			if other == nil {
				out.Note = "E has sent no message of another round yet"
				return
			}
			for _, e := range heldEnvs {
				setData(e, other.Data)
			}
			out.Applied = true
		case "sender-subst":
			// another sender's whole payload of this round replayed under E's name
			for _, e := range heldEnvs {
				env.to = e.To
				om := env.otherSenderMsg()
				if om == nil {
					out.Note = "no message of another sender"
					return
				}
				setData(e, om.Data)
			}
			out.Applied = true
		default:
			out.Note = "unknown message-level alteration"
		}
		return
	}
	// field-level: same alteration for every recipient, or (split) different ones for the first / the other recipients
	firstTo := party.ID("")
	seedA, seedB := env.rng.Int63(), env.rng.Int63()
	for _, e := range heldEnvs {
		if firstTo == "" {
			firstTo = e.To
		}
		alt, sd := altA, seedA
		if split && e.To != firstTo {
			alt, sd = altB, seedB
		}
		tree, err := c03CborParse(e.Msg.Data)
		if err != nil {
			out.Note = "live message is not CBOR: " + err.Error()
			return
		}
		env.to = e.To
		save := env.rng
		env.rng = rand.New(rand.NewSource(sd)) // every recipient of a broadcast gets the same altered bytes
		ok, note := env.apply(tree, cs.Path, alt)
		env.rng = save
		if !ok {
			out.Note = note
			if !split {
				return
			}
			continue
		}
		if note != "" {
			out.Note = note
		}
		out.Applied = true
		setData(e, tree.bytes())
	}
}

// ---------------------------------------------------------------------------------------------
// catalogue

type c03Field struct {
	Round int
	Bcast bool
	Field string
	Paths []string
	Class string
	// p2p messages: whether the sender addresses them (To set) and to how many distinct recipients it sends this kind
	Addressed bool
	Rcpts     int
}

// enumerate lists E's outgoing message kinds and their field paths from an honest reference run.
func c03Enumerate(ref *Sim, E party.ID) []c03Field {
	type mk struct {
		r  int
		bc bool
	}
	seen := map[mk]bool{}
	info := map[mk][2]int{}
	var out []c03Field
	for _, m := range ref.Nodes[E].Out {
		k := mk{int(m.RoundNumber), m.Broadcast}
		if m.RoundNumber == 0 || seen[k] {
			continue
		}
		seen[k] = true
		addressed, rcpts := m.To != "", 0
		if !m.Broadcast {
			tos := map[party.ID]bool{}
			for _, x := range ref.Nodes[E].Out {
				if x.RoundNumber == m.RoundNumber && !x.Broadcast && x.To != "" {
					tos[x.To] = true
				}
			}
			rcpts = len(tos)
		}
		info[k] = [2]int{map[bool]int{true: 1}[addressed], rcpts}
		out = append(out, c03Field{Round: k.r, Bcast: k.bc, Field: "<message>", Paths: []string{"."}, Class: "message"})
		t, err := c03CborParse(m.Data)
		if err != nil {
			continue
		}
		idx := map[string]int{}
		for _, l := range t.leaves() {
			f := c03NormPath(l.Path)
			if i, ok := idx[f]; ok {
				out[i].Paths = append(out[i].Paths, l.Path)
				continue
			}
			idx[f] = len(out)
			out = append(out, c03Field{Round: k.r, Bcast: k.bc, Field: f, Paths: []string{l.Path}, Class: c03NodeClass(l.N)})
		}
	}
	for i := range out {
		x := info[mk{out[i].Round, out[i].Bcast}]
		out[i].Addressed, out[i].Rcpts = x[0] == 1, x[1]
	}
	return out
}

type c03Plan struct {
	AltsPerField int  // 0 = all
	Instances    int  // array instances per normalised field
	Positions    int  // cheater positions (0 = all)
	Splits       bool // per-recipient different alterations
	MsgLevel     bool
	OnlyFields   func(f c03Field) bool
	OnePerPart   bool // one rng-chosen leaf field per top-level part of every message; splits only on broadcasts
	SplitBcast   bool // per-recipient different alterations only on broadcast messages
	AllOfRound   int  // with OnePerPart: every leaf field of this round is kept
	// Headers: header-level alterations of `To` on p2p messages. 0 = none; 1 = each alone, plus ONE rng-chosen header
	// alteration combined with the first chosen payload alteration of every field; 2 = each alone, plus ONE rng-chosen header
	// alteration combined with every payload alteration; 3 = each alone and EVERY one combined with every payload alteration.
	// With Headers > 0 the p2p scalars also get the "consistent at another evaluation point" alterations.
	Headers int
	// Deal: dealing variants (c03_deal.go) of the key generation / refresh protocols, DealPositions cheater positions
	// (0 = all); DealOnly: no field catalogue for this protocol, only the dealing cases.  The dealing cases are drawn from
	// their own seeded stream, so the catalogue cases of a run do not depend on them.
	Deal          []string
	DealPositions int
	DealOnly      bool
	OnlyAlts      []string // if set: only these alterations of the selected fields
	UsePool       bool     // the reference run and the cases run with a worker pool (c03Case.Pool)
}

// alterations of a p2p scalar that keep it consistent with what E sent elsewhere (added when plan.Headers > 0)
var c03P2PScalarAlts = []string{"copy-recipient", "interp0"}

func c03Cases(c *ctx, p *c03Proto, plan c03Plan) []c03Case {
	var deal []c03Case
	if len(plan.Deal) > 0 && c03DealSpecOf(p.Name) != nil {
		h := int64(0)
		for _, ch := range p.Name {
			h = h*131 + int64(ch)
		}
		deal = c03DealCases(rand.New(rand.NewSource(c.res.Seed*1000003+h)), c.res.Property, p, 1, true, plan.Deal, plan.DealPositions)
	}
	if plan.DealOnly {
		return deal
	}
	cases := c03CatalogueCases(c, p, plan)
	return append(cases, deal...)
}

// c03Pooled: p with a worker pool of its own (if the protocol has a pooled start function); done() tears the pool down
func c03Pooled(p *c03Proto) (*c03Proto, func()) {
	if p.PoolStart == nil {
		return p, func() {}
	}
	pl := pool.NewPool(4)
	q := *p
	q.Start = func(id party.ID) protocol.StartFunc { return p.PoolStart(id, pl) }
	return &q, pl.TearDown
}

func c03CatalogueCases(c *ctx, p *c03Proto, plan c03Plan) []c03Case {
	rng := c.res.Rng
	refP, refDone := p, func() {}
	if plan.UsePool {
		refP, refDone = c03Pooled(p)
	}
	ref := c03RunHonest(refP, 5)
	refDone()
	var cases []c03Case
	ids := party.NewIDSlice(p.IDs)
	npos := len(ids)
	if plan.Positions > 0 && plan.Positions < npos {
		npos = plan.Positions
	}
	rot := rng.Intn(len(ids))
	for pi := 0; pi < npos; pi++ {
		E := ids[(pi+rot)%len(ids)]
		fields := c03Enumerate(ref, E)
		chosen := map[int]bool{}
		if plan.OnePerPart {
			groups := map[string][]int{}
			var order []string
			for fi, f := range fields {
				switch f.Class {
				case "point", "scalar", "bignum", "bytes":
					part := strings.SplitN(strings.TrimPrefix(f.Field, "."), ".", 2)[0]
					g := fmt.Sprintf("%d/%v/%s", f.Round, f.Bcast, part)
					if groups[g] == nil {
						order = append(order, g)
					}
					groups[g] = append(groups[g], fi)
				}
			}
			for _, g := range order {
				chosen[groups[g][rng.Intn(len(groups[g]))]] = true
			}
		}
		bcastRounds, lateDone := map[int]bool{}, map[string]int{}
		for _, f := range fields {
			if f.Bcast {
				bcastRounds[f.Round] = true
			}
		}
		for fi, f := range fields {
			if plan.OnlyFields != nil && !plan.OnlyFields(f) {
				continue
			}
			if plan.OnePerPart && !chosen[fi] && !(plan.AllOfRound == f.Round && f.Class != "message") {
				continue
			}
			hdrs := []string(nil)
			if plan.Headers > 0 && !f.Bcast {
				hdrs = c03HeaderAlts(f.Addressed, len(ids))
			}
			if f.Class == "message" && !plan.MsgLevel && hdrs == nil {
				continue
			}
			alts := c03AltsByClass[f.Class]
			if f.Class == "message" && !plan.MsgLevel {
				alts = nil
			}
			if plan.OnlyAlts != nil {
				var keep []string
				for _, a := range alts {
					for _, w := range plan.OnlyAlts {
						if a == w {
							keep = append(keep, a)
						}
					}
				}
				alts = keep
			}
			if plan.AltsPerField > 0 && len(alts) > plan.AltsPerField {
				if plan.AltsPerField >= 4 {
					alts = alts[:plan.AltsPerField]
				} else {
					// the first (minimal change) and rng-chosen others; with several cheater positions the choice rotates
					pick := []string{alts[(pi+fi)%2]}
					for len(pick) < plan.AltsPerField {
						a := alts[rng.Intn(len(alts))]
						dup := false
						for _, x := range pick {
							dup = dup || x == a
						}
						if !dup {
							pick = append(pick, a)
						}
					}
					alts = pick
				}
			}
			paths := f.Paths
			if plan.Instances > 0 && len(paths) > plan.Instances {
				sel := []string{paths[0]}
				for len(sel) < plan.Instances {
					sel = append(sel, paths[1+rng.Intn(len(paths)-1)])
				}
				paths = sel
			}
			if hdrs != nil && f.Class == "scalar" && f.Rcpts >= 2 {
				alts = append(append([]string{}, alts...), c03P2PScalarAlts...)
			}
			add := func(path, alt string) {
				cs := c03Case{Proto: p.Name, Cheater: string(E), Round: f.Round, Bcast: f.Bcast, Field: f.Field, Path: path, Alt: alt, Seed: rng.Int63(), Pool: plan.UsePool}
				if len(p.IDs) != 3 || p.Two {
					for _, id := range ids {
						cs.Parties = append(cs.Parties, string(id))
					}
				}
				cs.Key = cs.key("C03")
				if alt != "none" {
					cases = append(cases, cs)
				}
				if hdrs != nil && alt != "drop" && !strings.HasPrefix(alt, "split:") {
					// the same payload alteration under an altered recipient header
					hs := hdrs
					if plan.Headers < 3 && alt != "none" {
						hs = []string{hdrs[rng.Intn(len(hdrs))]}
						if plan.Headers == 1 && (alt != alts[0] || path != paths[0]) {
							hs = nil
						}
					}
					for _, h := range hs {
						c3 := cs
						c3.Hdr, c3.Seed = h, rng.Int63()
						c3.Key = c3.key("C03")
						cases = append(cases, c3)
						if alt == "none" && bcastRounds[f.Round] {
							c4 := c3
							c4.Order, c4.Seed = "p2p-first", rng.Int63()
							c4.Key = c4.key("C03")
							cases = append(cases, c4)
						}
					}
				}
				if alt == "none" {
					return
				}
				if !f.Bcast && bcastRounds[f.Round] && !strings.HasPrefix(alt, "split:") && lateDone[fmt.Sprint(f.Round, f.Field)] < 2 {
					// the same alteration with E's broadcast of that round arriving after the altered p2p message
					lateDone[fmt.Sprint(f.Round, f.Field)]++
					c2 := cs
					c2.Order, c2.Seed = "p2p-first", rng.Int63()
					c2.Key = c2.key("C03")
					cases = append(cases, c2)
				}
			}
			for _, path := range paths {
				for _, alt := range alts {
					add(path, alt)
				}
			}
			if f.Class == "message" && hdrs != nil {
				add(".", "none") // the header-level alterations alone
			}
			// per-recipient different alterations (equivocation when the message is a broadcast)
			if plan.Splits && len(ids) >= 3 && f.Class != "message" && (f.Bcast || !(plan.OnePerPart || plan.SplitBcast)) {
				switch f.Class {
				case "point", "scalar", "bignum", "bytes":
					add(paths[0], "split:fresh|fresh")
					add(paths[0], "split:none|fresh")
					if f.Class == "point" {
						add(paths[0], "split:none|neg")
					}
				case "embedded":
					add(paths[0], "split:none|flipbit")
				}
			}
		}
	}
	return cases
}

func c03RunAll(p *c03Proto, cases []c03Case) []*c03Outcome {
	outs := make([]*c03Outcome, len(cases))
	workers := runtime.NumCPU()
	if workers > 16 {
		workers = 16
	}
	if workers < 1 {
		workers = 1
	}
	var wg sync.WaitGroup
	ch := make(chan int)
	for w := 0; w < workers; w++ {
		wg.Add(1)
		go func() {
			defer wg.Done()
			for i := range ch {
				outs[i] = c03Run(p, cases[i])
			}
		}()
	}
	for i := range cases {
		ch <- i
	}
	close(ch)
	wg.Wait()
	return outs
}

// ---------------------------------------------------------------------------------------------

func c03ProtoByName(m *c03Mat, name string) *c03Proto {
	switch name {
	case "frost-keygen":
		return c03ProtoFrostKeygen(m, false)
	case "taproot-frost-keygen":
		return c03ProtoFrostKeygen(m, true)
	case "frost-refresh":
		return c03ProtoFrostRefresh(m, false)
	case "taproot-frost-refresh":
		return c03ProtoFrostRefresh(m, true)
	case "frost-sign":
		return c03ProtoFrostSign(m, false)
	case "taproot-frost-sign":
		return c03ProtoFrostSign(m, true)
	case "doerner-keygen":
		return c03ProtoDoernerKeygen(m)
	case "doerner-sign":
		return c03ProtoDoernerSign(m)
	case "cmp-keygen":
		return c03ProtoCMPKeygen(m)
	case "cmp-refresh":
		return c03ProtoCMPRefresh(m)
	case "cmp-sign":
		return c03ProtoCMPSign(m, m.signers)
	case "cmp-presign":
		return c03ProtoCMPPresign(m, "offline")
	case "cmp-presign-full":
		return c03ProtoCMPPresign(m, "full")
	case "cmp-presign-online":
		return c03ProtoCMPPresign(m, "online")
	}
	return nil
}

func c03IsCMP(name string) bool { return strings.HasPrefix(name, "cmp-") }

// c03Sweep runs the catalogue for the given protocols and hands every outcome to `judge`.
func c03Sweep(c *ctx, m *c03Mat, names []string, planOf func(p *c03Proto) c03Plan, judge func(p *c03Proto, out *c03Outcome)) {
	for _, name := range names {
		p := c03ProtoByName(m, name)
		if p == nil {
			continue
		}
		t0 := time.Now()
		cases := c03Cases(c, p, planOf(p))
		outs := c03RunAll(p, cases)
		nh, th, tall := 0, 0.0, 0.0
		for _, out := range outs {
			tall += out.CPUSec
			if out.Case.Hdr != "" {
				nh++
				th += out.CPUSec
			}
		}
		c.res.Note("%s: %d cases in %.1f s (worker-seconds %.0f; %d cases with an altered To header: %.0f worker-seconds)", name, len(cases), time.Since(t0).Seconds(), tall, nh, th)
		for _, out := range outs {
			judge(p, out)
		}
	}
}

func c03Describe(out *c03Outcome) string {
	var sb strings.Builder
	for _, p := range out.Honest {
		switch {
		case p.Res != nil:
			fmt.Fprintf(&sb, "%s=finished(%T); ", p.ID, p.Res)
		case p.Panic != "":
			fmt.Fprintf(&sb, "%s=PANIC(%.60s); ", p.ID, p.Panic)
		default:
			fmt.Fprintf(&sb, "%s=%.90s; ", p.ID, p.ErrText)
		}
	}
	return sb.String()
}

func runC03(c *ctx) {
	c.res.Rule = "catalogue from live messages: protocol x cheater position x round x message kind x CBOR field path x alteration " +
		"(boundary values, copies from other senders/rounds/fields, fresh valid-looking values, structural damage, recipient/round/sender substitution, " +
		"per-recipient different alterations); p2p messages also with the recipient header To altered (cleared / another party / the sender / made explicit), alone and combined " +
		"with the payload alterations, delivered to the original recipient; p2p scalars also replaced by the value sent to another recipient and by the interpolation at 0 of " +
		"the values sent to all recipients; key generation / refresh also with E dealing ANOTHER polynomial consistently (commitment and all shares rewritten: f+c*x with c random or such that " +
		"f'(victim)=0 with the victim's share 0 / wrong, degree t-1, t+1, t+2; FROST n=3,t=1 and n=4,t=2 by message rewriting, CMP through a session proxy); the verification primitives " +
		"Point.Equal / IsIdentity / Scalar.Equal / IsZero on every representation of the identity against arbitrary values, judged by the reference; quick: FROST keygen, refresh, sign (+taproot) and Doerner every field x 6 (x every header alteration), CMP sign every field x 2 " +
		"(one header alteration per field), CMP presign-online every field; " +
		"non-trivial = the alteration applied and changed delivered bytes; distinct by (case key, cheater, path)"
	orc := newC03Oracle(c)
	if c.replay != "" {
		var prim c03PrimReplay
		if err := readJSON(c.replay, &prim); err == nil && prim.Primitive != "" {
			c03PrimReplayRun(c, orc, prim)
			return
		}
		var cs c03Case
		if err := readJSON(c.replay, &cs); err != nil {
			c.res.Note("cannot read replay file: %v", err)
			return
		}
		m := c03Material(c, c03IsCMP(cs.Proto) && cs.Proto != "cmp-keygen", cs.Proto == "cmp-presign-online")
		if cs.Proto == "cmp-keygen" {
			usePrimeCache()
		}
		if cs.Proto == "cmp-sign" && len(cs.Parties) > 0 {
			m.signers = idsOf(cs.Parties...)
		}
		p := c03ProtoForCase(m, cs)
		if p == nil || len(m.errs) > 0 {
			c.res.Note("replay: cannot set up %q: %v", cs.Proto, m.errs)
			return
		}
		out := c03Run(p, cs)
		c03Judge(c, orc, p, out)
		c.res.Sample(3, map[string]interface{}{"replayed": cs, "applied": out.Applied, "outcome": c03Describe(out)})
		return
	}
	only := os.Getenv("VERIF_C03_ONLY") // development aid: restrict the sweep to the named protocols
	m := c03Material(c, only == "" || strings.Contains(only, "cmp-"), only == "" || strings.Contains(only, "online"))
	for _, e := range m.errs {
		// an honest set-up session that does not complete is itself a finding (not of C03): report, continue with the rest
		c.res.Note("set-up session failed: %s", e)
	}
	light := []string{"frost-keygen", "taproot-frost-keygen", "frost-refresh", "taproot-frost-refresh", "frost-sign", "taproot-frost-sign", "doerner-keygen", "doerner-sign"}
	heavy := []string{"cmp-sign", "cmp-presign-online", "cmp-keygen"} // quick: cmp-keygen only with the dealing cases
	if only != "" {
		light, heavy = strings.Split(only, ","), nil
	}
	if c.thorough() {
		heavy = []string{"cmp-sign", "cmp-presign-online", "cmp-presign", "cmp-presign-full", "cmp-keygen", "cmp-refresh"}
	}
	var names []string
	for _, n := range append(light, heavy...) {
		switch {
		case strings.Contains(n, "taproot") && m.tapCfg == nil, strings.HasPrefix(n, "frost-sign") && m.frostCfg == nil,
			n == "frost-refresh" && m.frostCfg == nil,
			n == "doerner-sign" && (m.dR == nil || m.dS == nil), c03IsCMP(n) && n != "cmp-keygen" && m.cmpCfg == nil,
			n == "cmp-presign-online" && m.cmpPre == nil:
			continue
		}
		names = append(names, n)
	}
	if !c.thorough() {
		// quick tier: CMP sign between the cheater and one honest signer (a third of the cost of n=3)
		perm := c.res.Rng.Perm(3)
		m.signers = []party.ID(party.NewIDSlice([]party.ID{m.ids[perm[0]], m.ids[perm[1]]}))
	}
	planOf := func(p *c03Proto) c03Plan {
		if c.thorough() {
			// budget ~15 min on 16 cores: CMP runs cost 10-25 CPU-seconds each
			switch p.Name {
			case "cmp-sign":
				return c03Plan{AltsPerField: 3, Instances: 1, Positions: 1, Splits: true, SplitBcast: true, MsgLevel: true, Headers: 2}
			case "cmp-keygen", "cmp-refresh":
				return c03Plan{AltsPerField: 2, Instances: 1, Positions: 1, Splits: true, SplitBcast: true, MsgLevel: true, Headers: 1, Deal: append(append([]string{}, c03DealVariants...), c03DealShareVariants...)}
			case "cmp-presign":
				return c03Plan{AltsPerField: 2, Instances: 1, Positions: 1, Splits: true, SplitBcast: true, MsgLevel: true, Headers: 1}
			case "cmp-presign-full":
				return c03Plan{AltsPerField: 2, Instances: 1, Positions: 1, OnePerPart: true, AllOfRound: 8, Splits: true}
			}
			return c03Plan{Splits: true, MsgLevel: true, Instances: 3, Headers: 3, Deal: append(append([]string{}, c03DealVariants...), c03DealShareVariants...)}
		}
		if p.Name == "cmp-keygen" {
			// the victim of a root of the dealt polynomial: consistent share 0 (accepted) and a wrong share (refused by the victim)
			return c03Plan{DealOnly: true, Deal: []string{"root-at-victim", "root-at-victim+wrong-share", "redeal+wrong-share", "redeal+negated-share"}, DealPositions: 1}
		}
		if p.Heavy {
			return c03Plan{AltsPerField: 2, Instances: 1, Positions: 1, Splits: false, MsgLevel: true, Headers: 1}
		}
		return c03Plan{AltsPerField: 6, Instances: 2, Splits: true, MsgLevel: true, Headers: 3, Deal: append(append([]string{}, c03DealVariants...), c03DealShareVariants...)}
	}
	judge := func(p *c03Proto, out *c03Outcome) { c03Judge(c, orc, p, out) }
	if only == "" {
		c03PrimitivesAll(c, orc, rand.New(rand.NewSource(c.res.Seed*7777+3)))
	}
	c03Sweep(c, m, names, planOf, judge)
	if only == "" {
		c03DealExtra(c, "C03", judge)
	}
	for op, k := range orc.fallback {
		c.res.Note("FALLBACK textbook check used %d times because model op %s was unavailable", k, op)
	}
	for i, d := range orc.disagree {
		if i < 5 {
			c.res.Violate("correspondence", "C03/reference-vs-textbook", "Coq reference verifier and the math/big textbook check disagree: "+d, nil)
		}
	}
}

var c03PanicSeen = map[string]bool{}

func c03Judge(c *ctx, orc *c03Oracle, p *c03Proto, out *c03Outcome) {
	c03DebugList(p, out)
	cs := out.Case
	c.res.Case(p.Name+"/"+out.class(), cs.Key+"/"+cs.Cheater+"/"+cs.Path, out.Applied && out.Changed)
	if strings.HasPrefix(out.Note, "harness panic") {
		c.res.Note("%s: %s", cs.Key, out.Note)
	}
	for _, hp := range out.Honest {
		if hp.Panic != "" || hp.Hung {
			k := fmt.Sprintf("%s/round%d/%s%s", p.Name, cs.Round, cs.kind(), cs.Field)
			if !c03PanicSeen[k] && len(c03PanicSeen) < 25 {
				c03PanicSeen[k] = true
				c.res.Note("honest %s panicked/hung (C05 matter, not a wrong result) in %s alteration %s: %.120s", hp.ID, k, cs.Alt, hp.Panic)
			}
		}
	}
	if out.Applied && out.Changed {
		c.res.Sample(4, map[string]interface{}{"case": cs, "outcome": c03Describe(out)})
	}
	bad := p.Judge(orc, out)
	if c03IsDeal(cs) && out.Applied && c03DealConsistent(cs.Alt) {
		// E's messages are those of an honest dealer with other randomness: nobody has a reason to refuse them
		for _, hp := range out.Honest {
			if hp.Res == nil && hp.ProtoErr && hp.Panic == "" && !hp.Hung && !strings.HasPrefix(hp.Inner, "aborted by other party") {
				// recorded only (C03 is about ACCEPTING a wrong result; a refused consistent re-deal of the harness's puppet dealer is
				// not a violation of it, and one taproot re-deal in many was refused in vp check 10 without reproducing locally)
				c.res.Note("%s: %s refused a consistent dealing (%s): %.120s", cs.Key, hp.ID, cs.Alt, hp.ErrText)
			}
		}
	}
	if len(bad) > 0 {
		c.res.Violate("property", cs.Key, fmt.Sprintf("cheater %s altered %s (%s) of its round-%d %s message; %s [%s]",
			cs.Cheater, cs.Path, cs.Alt, cs.Round, cs.kind(), strings.Join(bad, "; "), c03Describe(out)), cs)
	}
}

// debugging aid: VERIF_C03_LIST=1 prints every case whose outcome class is not "rejected"
func c03DebugList(p *c03Proto, out *c03Outcome) {
	if os.Getenv("VERIF_C03_LIST") == "" {
		return
	}
	cl := out.class()
	if (cl == "rejected" || cl == "not-applicable") && os.Getenv("VERIF_C03_LIST") != "all" {
		return
	}
	fmt.Printf("%-14s %s E=%s path=%s changed=%v note=%q :: %s\n", cl, out.Case.Key, out.Case.Cheater, out.Case.Path, out.Changed, out.Note, c03Describe(out))
}
