package main

// C19, values that differ only in HIGH-order bytes of a fixed-width or length-limited field.
//
// perturbValue changes the low end of a value (last byte, +-1).  An encoder that writes a field with too small a fixed
// width (FillBytes into a short buffer keeps the LOW bytes), converts to a narrower integer type or cuts a byte string
// keeps the low end and loses the high end: v and v + k*2^(8w) are then written identically although they are two
// different typed values.  For every kind, c19hbFields lists the fields of a description that are written with a fixed
// width (Nat/Int with announced length, scalar, point x, ciphertext (512), Pedersen N,S,T (256), threshold uint32, round
// number uint16), with a minimal width (moduli, big.Int) or as a byte string, and c19hbVariants derives, per field,
//
//	v + k*2^(8w)   for byte positions w up to the full width (all of them when dense, otherwise 1, W/2-1, W/2, W-2, W-1),
//	               k = 1 everywhere, and k = 0x80 / a k taken from the description at w = W/2 and w = W-1
//	               (v - k*2^(8w) when the sum leaves the field's range),
//	v with the top byte of the field cleared, v with the upper half of the field cleared (v mod 2^(8*(W/2))),
//	for minimal-width fields also v + 2^(8W) (one byte longer),
//
// every variant inside the type's valid range (scalar < q, x < p and on the curve, threshold < 2^32, ...).  The two values
// are different typed values (the model's streams differ), so their digests must differ or one of them must be refused.
// Key C19/digest-collision/high-bytes/kind=<k>.
//
// The same search runs, densely and around the offending value, as soon as the correspondence check finds the
// implementation's bytes of a kind differing from the model's (c19MismatchSearch): a changed width is then reported with a
// concrete colliding pair and not only as a stream mismatch.

import (
	"bytes"
	"encoding/hex"
	"fmt"
	"math/big"
	"math/rand"

	dcr "github.com/decred/dcrd/dcrec/secp256k1/v4"

	"verifharness/sx"
)

// c19hbField: one number-like field of a description.
type c19hbField struct {
	name    string
	width   int                 // bytes the field occupies (fixed width, announced length, or current minimal length)
	val     *big.Int            // magnitude
	min     *big.Int            // inclusive, nil = 0
	max     *big.Int            // exclusive, nil = 2^(8*width)
	ok      func(*big.Int) bool // further validity (x on the curve, identifier not taken), nil = none
	set     func(*big.Int) sx.V // the whole description with this field replaced
	grow    bool                // minimal-width field: v + 2^(8W) is another valid value of the type
	seekK   bool                // validity is sparse (curve points): try k = 1, 2, ... until ok
	isBytes bool
}

func c19hbPow(w int) *big.Int { return new(big.Int).Lsh(big.NewInt(1), uint(8*w)) }

func c19hbOnCurve(x *big.Int) bool {
	if x.Sign() <= 0 || x.Cmp(secpP) >= 0 {
		return false
	}
	var fx, fy dcr.FieldVal
	if overflow := fx.SetByteSlice(x.FillBytes(make([]byte, 32))); overflow {
		return false
	}
	return dcr.DecompressY(&fx, false, &fy)
}

// replaceAt returns a copy of l with element i replaced.
func c19hbRepl(l []sx.V, i int, x sx.V) []sx.V {
	c := append([]sx.V{}, l...)
	c[i] = x
	return c
}

func c19hbBytesField(name string, b []byte, set func([]byte) sx.V) c19hbField {
	n := len(b)
	return c19hbField{name: name, width: n, val: new(big.Int).SetBytes(b), isBytes: true,
		set: func(z *big.Int) sx.V { return set(z.FillBytes(make([]byte, n))) }}
}

// point description (x odd); the identity (0 0) has no field
func c19hbPointField(name string, p sx.V, set func(sx.V) sx.V) []c19hbField {
	if p.L[0].Z.Sign() == 0 {
		return nil
	}
	odd := p.L[1]
	return []c19hbField{{name: name + ".x", width: 32, val: p.L[0].Z, min: big.NewInt(1), max: secpP, ok: c19hbOnCurve, seekK: true,
		set: func(z *big.Int) sx.V { return set(sx.List(sx.Big(z), odd)) }}}
}

// fields of a config.Public description (E, G, paillierN, N, S, T)
func c19hbPublicFields(prefix string, p sx.V, set func(sx.V) sx.V) (fs []c19hbField) {
	at := func(i int, x sx.V) sx.V { return set(sx.List(c19hbRepl(p.L, i, x)...)) }
	fs = append(fs, c19hbPointField(prefix+"ecdsa", p.L[0], func(q sx.V) sx.V { return at(0, q) })...)
	fs = append(fs, c19hbPointField(prefix+"elgamal", p.L[1], func(q sx.V) sx.V { return at(1, q) })...)
	if pn := p.L[2].Z; pn.Sign() > 0 {
		fs = append(fs, c19hbField{name: prefix + "paillierN", width: minBytes(pn), val: pn, min: big.NewInt(1), grow: true,
			set: func(z *big.Int) sx.V { return at(2, sx.Big(z)) }})
	}
	for i, nm := range []string{"pedersenN", "pedersenS", "pedersenT"} {
		i := 3 + i
		f := c19hbField{name: prefix + nm, width: 256, val: p.L[i].Z, set: func(z *big.Int) sx.V { return at(i, sx.Big(z)) }}
		if i == 3 {
			f.min = big.NewInt(1)
		}
		if f.val.BitLen() <= 2048 {
			fs = append(fs, f)
		}
	}
	return
}

// c19hbFields: the fixed-width / length-limited fields of one typed value.
func c19hbFields(v sx.V) (fs []c19hbField) {
	kind := v.L[0].AsInt()
	k := v.L[0]
	signed := func(orig *big.Int, z *big.Int) *big.Int {
		if orig.Sign() < 0 {
			return new(big.Int).Neg(z)
		}
		return z
	}
	switch kind {
	case 0, 9, 10, 11, 14, 22:
		if len(v.L[1].L) == 1 && len(v.L[1].L[0].B) > 0 {
			fs = append(fs, c19hbBytesField("bytes", v.L[1].L[0].B, func(b []byte) sx.V { return sx.List(k, sx.List(sx.Bytes(b))) }))
		}
	case 7:
		if len(v.L[1].B) > 0 {
			fs = append(fs, c19hbBytesField("id", v.L[1].B, func(b []byte) sx.V { return sx.List(k, sx.Bytes(b)) }))
		}
	case 8:
		if len(v.L[1].L) == 1 {
			ids := v.L[1].L[0].L
			for j := range ids {
				j := j
				if len(ids[j].B) == 0 || (j != 0 && j != len(ids)-1) {
					continue
				}
				fs = append(fs, c19hbBytesField(fmt.Sprintf("id[%d]", j), ids[j].B, func(b []byte) sx.V {
					return sx.List(k, sx.List(sx.List(c19hbRepl(ids, j, sx.Bytes(b))...)))
				}))
			}
		}
	case 15:
		if len(v.L[1].B) > 0 {
			fs = append(fs, c19hbBytesField("domain", v.L[1].B, func(b []byte) sx.V { return sx.List(k, sx.Bytes(b), v.L[2]) }))
		}
		if len(v.L[2].L) == 1 && len(v.L[2].L[0].B) > 0 {
			fs = append(fs, c19hbBytesField("bytes", v.L[2].L[0].B, func(b []byte) sx.V { return sx.List(k, v.L[1], sx.List(sx.Bytes(b))) }))
		}
	case 1:
		z := v.L[1].Z
		fs = append(fs, c19hbField{name: "big.Int", width: minBytes(z), val: new(big.Int).Abs(z), grow: true,
			set: func(n *big.Int) sx.V { return sx.List(k, sx.Big(signed(z, n))) }})
	case 2, 3:
		bl, z := v.L[1].AsInt(), v.L[2].Z
		if bl > 0 {
			fs = append(fs, c19hbField{name: "announced-length-number", width: bl, val: new(big.Int).Abs(z),
				set: func(n *big.Int) sx.V { return sx.List(k, v.L[1], sx.Big(signed(z, n))) }})
		}
	case 4, 17:
		n := v.L[1].Z
		fs = append(fs, c19hbField{name: "modulus", width: minBytes(n), val: n, min: big.NewInt(1), grow: true,
			set: func(z *big.Int) sx.V { return sx.List(k, sx.Big(z)) }})
	case 5:
		fs = append(fs, c19hbField{name: "scalar", width: 32, val: v.L[1].Z, max: secpQ, set: func(z *big.Int) sx.V { return sx.List(k, sx.Big(z)) }})
	case 6:
		fs = append(fs, c19hbPointField("point", sx.List(v.L[1], v.L[2]), func(p sx.V) sx.V { return sx.List(k, p.L[0], p.L[1]) })...)
	case 12:
		fs = append(fs, c19hbField{name: "threshold", width: 4, val: v.L[1].Z, set: func(z *big.Int) sx.V { return sx.List(k, sx.Big(z)) }})
	case 13:
		fs = append(fs, c19hbField{name: "round", width: 2, val: v.L[1].Z, set: func(z *big.Int) sx.V { return sx.List(k, sx.Big(z)) }})
	case 16:
		fs = append(fs, c19hbField{name: "ciphertext", width: 512, val: v.L[1].Z, set: func(z *big.Int) sx.V { return sx.List(k, sx.Big(z)) }})
	case 18:
		for i, nm := range []string{"N", "S", "T"} {
			i := 1 + i
			f := c19hbField{name: "pedersen" + nm, width: 256, val: v.L[i].Z, set: func(z *big.Int) sx.V { return sx.List(c19hbRepl(v.L, i, sx.Big(z))...) }}
			if i == 1 {
				f.min = big.NewInt(1)
			}
			if f.val.BitLen() <= 2048 {
				fs = append(fs, f)
			}
		}
	case 19:
		if len(v.L[2].L) == 1 {
			pts := v.L[2].L[0].L
			for j := range pts {
				j := j
				if j != 0 && j != len(pts)-1 {
					continue
				}
				fs = append(fs, c19hbPointField(fmt.Sprintf("coefficient[%d]", j), pts[j], func(p sx.V) sx.V {
					return sx.List(k, v.L[1], sx.List(sx.List(c19hbRepl(pts, j, p)...)))
				})...)
			}
		}
	case 20:
		fs = append(fs, c19hbPointField("L", v.L[1], func(p sx.V) sx.V { return sx.List(k, p, v.L[2]) })...)
		fs = append(fs, c19hbPointField("M", v.L[2], func(p sx.V) sx.V { return sx.List(k, v.L[1], p) })...)
	case 21:
		fs = append(fs, c19hbPointField("C", v.L[1], func(p sx.V) sx.V { return sx.List(k, p) })...)
	case 23:
		if len(v.L[1].L) == 1 {
			fs = append(fs, c19hbPublicFields("", v.L[1].L[0], func(p sx.V) sx.V { return sx.List(k, sx.List(p)) })...)
		}
	case 24:
		if len(v.L[1].L) != 1 {
			return
		}
		cv := v.L[1].L[0]
		mk := func(i int, x sx.V) sx.V { return sx.List(k, sx.List(sx.List(c19hbRepl(cv.L, i, x)...))) }
		if thr := cv.L[0].Z; thr.Sign() >= 0 && thr.BitLen() <= 32 {
			// the Go field is an int that is written as uint32: the values of the type are those that survive the conversion
			fs = append(fs, c19hbField{name: "threshold", width: 4, val: thr, set: func(z *big.Int) sx.V { return mk(0, sx.Big(z)) }})
		}
		if len(cv.L[1].L) == 1 && len(cv.L[1].L[0].B) > 0 {
			fs = append(fs, c19hbBytesField("rid", cv.L[1].L[0].B, func(b []byte) sx.V { return mk(1, sx.List(sx.Bytes(b))) }))
		}
		if len(cv.L[2].B) > 0 {
			fs = append(fs, c19hbBytesField("chainkey", cv.L[2].B, func(b []byte) sx.V { return mk(2, sx.Bytes(b)) }))
		}
		ents := cv.L[3].L
		for j := range ents {
			j := j
			if j != 0 && j != len(ents)-1 {
				continue
			}
			id := ents[j].L[0].B
			f := c19hbBytesField(fmt.Sprintf("party[%d].id", j), id, func(b []byte) sx.V {
				return mk(3, sx.List(c19hbRepl(ents, j, sx.List(sx.Bytes(b), ents[j].L[1]))...))
			})
			n := len(id)
			f.ok = func(z *big.Int) bool { // the changed identifier must not be another party's
				b := z.FillBytes(make([]byte, n))
				for i := range ents {
					if i != j && bytes.Equal(ents[i].L[0].B, b) {
						return false
					}
				}
				return true
			}
			fs = append(fs, f)
			fs = append(fs, c19hbPublicFields(fmt.Sprintf("party[%d].", j), ents[j].L[1], func(p sx.V) sx.V {
				return mk(3, sx.List(c19hbRepl(ents, j, sx.List(ents[j].L[0], p))...))
			})...)
		}
	}
	return
}

type c19hbVariant struct {
	v     sx.V
	field string
	what  string // "w=<pos>,k=<k>" | "top-byte-cleared" | "upper-half-cleared" | "one-byte-longer"
}

func (f *c19hbField) valid(z *big.Int) bool {
	if z.Sign() < 0 || z.Cmp(f.val) == 0 {
		return false
	}
	if f.min != nil && z.Cmp(f.min) < 0 {
		return false
	}
	max := f.max
	if max == nil {
		max = c19hbPow(f.width)
	}
	if z.Cmp(max) >= 0 {
		return false
	}
	return f.ok == nil || f.ok(z)
}

// c19hbVariants: values that differ from v only in high-order bytes of one field. salt picks the description-dependent k.
func c19hbVariants(v sx.V, dense bool) (out []c19hbVariant) {
	desc := ""
	for _, f := range c19hbFields(v) {
		f := f
		W := f.width
		if W == 0 || (f.min != nil && f.val.Cmp(f.min) < 0) || (f.max != nil && f.val.Cmp(f.max) >= 0) || f.val.BitLen() > 8*W {
			continue // no field, or the base value is outside the field's range (the Go object is built from another number)
		}
		if desc == "" {
			desc = v.String()
		}
		add := func(z *big.Int, what string) bool {
			if !f.valid(z) {
				return false
			}
			out = append(out, c19hbVariant{v: f.set(z), field: f.name, what: what})
			return true
		}
		// byte positions
		var pos []int
		if dense {
			for w := 0; w < W; w++ {
				pos = append(pos, w)
			}
		} else {
			seen := map[int]bool{}
			for _, w := range []int{1, W/2 - 1, W / 2, W - 2, W - 1} {
				if w >= 0 && w < W && !seen[w] {
					seen[w] = true
					pos = append(pos, w)
				}
			}
		}
		for _, w := range pos {
			ks := []int64{1}
			if w == W/2 || w == W-1 {
				ks = append(ks, 0x80, int64(2+descHash(desc, f.name+fmt.Sprint(w))%254))
			}
			unit := c19hbPow(w)
			for _, k0 := range ks {
				tries := 1
				if f.seekK {
					tries = 40
				}
				for t := 0; t < tries; t++ {
					kk := (k0+int64(t)-1)%255 + 1
					d := new(big.Int).Mul(unit, big.NewInt(kk))
					if add(new(big.Int).Add(f.val, d), fmt.Sprintf("w=%d,k=+%d", w, kk)) ||
						add(new(big.Int).Sub(f.val, d), fmt.Sprintf("w=%d,k=-%d", w, kk)) {
						break
					}
				}
			}
		}
		if !f.seekK {
			top := new(big.Int).Mod(f.val, c19hbPow(W-1))
			add(top, "top-byte-cleared")
			if W >= 2 {
				add(new(big.Int).Mod(f.val, c19hbPow(W/2)), "upper-half-cleared")
			}
		}
		if f.grow {
			z := new(big.Int).Add(f.val, c19hbPow(W))
			if z.Cmp(f.val) != 0 && (f.ok == nil || f.ok(z)) {
				out = append(out, c19hbVariant{v: f.set(z), field: f.name, what: "one-byte-longer"})
			}
		}
	}
	return
}

// c19hbFull: a value of the kind whose fixed-width fields are fully occupied (top byte non-zero), so that clearing the
// top byte / the upper half gives another value; other kinds: the ordinary generator.
func c19hbFull(r *rand.Rand, kind int) sx.V {
	k := sx.Int(int64(kind))
	full := func(nbytes int) *big.Int {
		b := randBytes(r, nbytes)
		b[0] |= 1 + byte(r.Intn(255))
		if b[0] == 0 {
			b[0] = 0x80
		}
		if nbytes >= 2 && b[nbytes/2-1] == 0 { // the byte just above the lower half
			b[nbytes/2-1] = 1
		}
		return new(big.Int).SetBytes(b)
	}
	switch kind {
	case 0, 9, 10, 11, 14, 22:
		return sx.List(k, sx.List(sx.Bytes(full([]int{2, 32, 64}[r.Intn(3)]).Bytes())))
	case 7:
		return sx.List(k, sx.Bytes(full(1+r.Intn(8)).Bytes()))
	case 15:
		return sx.List(k, sx.Bytes(full(1+r.Intn(8)).Bytes()), sx.List(sx.Bytes(full(1+r.Intn(40)).Bytes())))
	case 1:
		z := full([]int{1, 8, 32, 33, 64}[r.Intn(5)])
		if r.Intn(2) == 0 {
			z.Neg(z)
		}
		return sx.List(k, sx.Big(z))
	case 2, 3:
		bl := []int{1, 2, 32, 33, 256, 512}[r.Intn(6)]
		z := full(bl)
		if kind == 3 && r.Intn(2) == 0 {
			z.Neg(z)
		}
		return sx.List(k, sx.Int(int64(bl)), sx.Big(z))
	case 4, 17:
		return sx.List(k, sx.Big(full([]int{2, 32, 256, 257}[r.Intn(4)])))
	case 5:
		z := full(32)
		return sx.List(k, sx.Big(z.Mod(z, secpQ)))
	case 12:
		return sx.List(k, sx.Big(full(4)))
	case 13:
		return sx.List(k, sx.Big(full(2)))
	case 16:
		return sx.List(k, sx.Big(full(512)))
	case 18:
		return sx.List(k, sx.Big(full(256)), sx.Big(full(256)), sx.Big(full(256)))
	case 23, 24:
		v := genHval(r, kind)
		for len(v.L[1].L) == 0 {
			v = genHval(r, kind)
		}
		fill := func(p sx.V) sx.V { // Pedersen N, S, T fully occupied; the Paillier modulus keeps its generated width
			l := append([]sx.V{}, p.L...)
			for i := 3; i <= 5; i++ {
				l[i] = sx.Big(full(256))
			}
			return sx.List(l...)
		}
		if kind == 23 {
			return sx.List(k, sx.List(fill(v.L[1].L[0])))
		}
		cv := v.L[1].L[0]
		ents := append([]sx.V{}, cv.L[3].L...)
		for i := range ents {
			ents[i] = sx.List(ents[i].L[0], fill(ents[i].L[1]))
		}
		thr := cv.L[0]
		if thr.Z.Sign() < 0 || thr.Z.BitLen() > 32 || r.Intn(2) == 0 {
			thr = sx.Big(full(4))
		}
		return sx.List(k, sx.List(sx.List(thr, cv.L[1], cv.L[2], sx.List(ents...))))
	}
	// other kinds: the ordinary generator, preferably a value that has a field at all (not nil / empty / the identity)
	v := genHval(r, kind)
	for t := 0; t < 8 && len(c19hbFields(v)) == 0; t++ {
		v = genHval(r, kind)
	}
	return v
}

func c19hbShape(kind int) string { return fmt.Sprintf("high-bytes/kind=%d", kind) }

// c19HighBytes judges the variants of one base value; returns the number of variants and whether a collision was found.
func (c *ctx) c19HighBytes(v sx.V, dense bool, class string) (n int, hit bool) {
	kind := v.L[0].AsInt()
	base := []sx.V{v}
	gd, gok := goDigestSafe(base)
	if !gok {
		c.res.Case(class+"/base-refused", v.String(), false)
		return 0, false
	}
	var ms []byte
	fp := fmt.Sprintf("%s|%08x", class, descHash(v.String(), "hb"))
	for _, va := range c19hbVariants(v, dense) {
		s2 := []sx.V{va.v}
		gd2, gok2 := goDigestSafe(s2)
		n++
		c.res.Case(class, fp+"|"+va.field+"|"+va.what, true)
		if !gok2 || !bytes.Equal(gd, gd2) {
			continue // refused, or different digests
		}
		if ms == nil {
			ms, _, _ = c.modelStream(base)
		}
		ms2, _, err := c.modelStream(s2)
		if err != nil {
			c.res.Violate("correspondence", "C19/model-error", err.Error(), c19Replay{SeqA: seqString(s2), What: "model error"})
			continue
		}
		if bytes.Equal(ms, ms2) {
			c.res.Note("high-bytes: kind %d field %s %s: equal digests and equal model streams (one typed value in the model)", kind, va.field, va.what)
			continue
		}
		hit = true
		c.res.Violate("property", "C19/digest-collision/"+c19hbShape(kind),
			fmt.Sprintf("two typed values that differ only in high-order bytes of %s (%s) give the same transcript digest", va.field, va.what),
			c19Replay{Shape: c19hbShape(kind), SeqA: seqString(base), SeqB: seqString(s2), GoA: hex.EncodeToString(gd), GoB: hex.EncodeToString(gd2),
				What: "digest collision: " + va.field + " " + va.what, Hints: hintsFor(base, s2)})
	}
	return n, hit
}

// goDigestSafe: goDigest, a panic while building or writing the object counts as refused.
func goDigestSafe(vals []sx.V) (d []byte, ok bool) {
	defer func() {
		if p := recover(); p != nil {
			d, ok = nil, false
		}
	}()
	return goDigest(vals)
}

// c19HighBytesAll: every kind, ordinary and fully occupied base values. Kinds whose objects are expensive to build
// (polynomial exponents, cmp Public / Config) use the sparse set of positions in the quick tier.
func (c *ctx) c19HighBytesAll(r *rand.Rand) {
	nBase := 2
	if c.thorough() {
		nBase = 12
	}
	total := 0
	for kind := 0; kind < nKinds; kind++ {
		dense := c.thorough() || !(kind == 19 || kind == 23 || kind == 24)
		for j := 0; j < 2*nBase; j++ {
			var v sx.V
			if j%2 == 0 {
				v = c19hbFull(r, kind)
			} else {
				v = genHval(r, kind)
			}
			n, _ := c.c19HighBytes(v, dense, "related-"+c19hbShape(kind))
			total += n
		}
	}
	c.res.Note("high-bytes: %d pairs (v, v + k*2^(8w) / top byte cleared / upper half cleared) over %d kinds", total, nKinds)
}

// c19MismatchSearch: the implementation's bytes for a value of this kind differ from the model's. Before the check gives
// up with a bare correspondence failure, look for a colliding pair of THAT kind: dense high-byte variants of the offending
// value, of fully occupied values and of ordinary values of the kind. Once per kind.
var c19MismatchDone = map[int]bool{}

func (c *ctx) c19MismatchSearch(v sx.V) {
	if len(v.L) == 0 || v.L[0].Kind != 0 {
		return
	}
	kind := v.L[0].AsInt()
	if c19MismatchDone[kind] || kind < 0 || kind >= nKinds || c.replay != "" {
		return // once per kind; a replay run re-executes its recorded pair only
	}
	c19MismatchDone[kind] = true
	// own generator: the main sequence of random choices is not disturbed by a search that only runs on a failure
	r := rand.New(rand.NewSource(int64(descHash(v.String(), "mismatch")) ^ c.res.Seed<<20))
	class := "mismatch-search-" + c19hbShape(kind)
	n, hit := c.c19HighBytes(v, true, class)
	for j := 0; j < 8 && !hit; j++ {
		var b sx.V
		if j%2 == 0 {
			b = c19hbFull(r, kind)
		} else {
			b = genHval(r, kind)
		}
		m, h := c.c19HighBytes(b, true, class)
		n, hit = n+m, hit || h
		// the low end as well
		if p := perturbValue(b); p != nil && !hit {
			gd, ok1 := goDigestSafe([]sx.V{b})
			gd2, ok2 := goDigestSafe([]sx.V{*p})
			c.res.Case("mismatch-search-perturb-value", b.String()+"|"+p.String(), true)
			if ok1 && ok2 && bytes.Equal(gd, gd2) {
				ms1, _, _ := c.modelStream([]sx.V{b})
				ms2, _, _ := c.modelStream([]sx.V{*p})
				if !bytes.Equal(ms1, ms2) {
					hit = true
					c.res.Violate("property", "C19/digest-collision/perturb-value",
						"two different typed-value sequences give the same transcript digest",
						c19Replay{Shape: "perturb-value", SeqA: seqString([]sx.V{b}), SeqB: seqString([]sx.V{*p}), GoA: hex.EncodeToString(gd), GoB: hex.EncodeToString(gd2),
							What: "digest collision by framing", Hints: hintsFor([]sx.V{b}, []sx.V{*p})})
				}
			}
		}
	}
	c.res.Note("correspondence mismatch on kind %d: searched %d high-byte pairs of that kind for a collision: found=%v", kind, n, hit)
}
