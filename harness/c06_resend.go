package main

// C06, third equivocation mode ("resend").
//
// The equivocator E is again two honest instances that share their randomness up to round k-1 (buildTwoFaced).  Instance 1
// talks to group 1 -- and its round-k BROADCAST (version 1) also goes to group 2.  Every member X of group 2 is given version
// 1 once it is in round k, and immediately afterwards instance 2's round-k broadcast (version 2: same sender, same round,
// individually valid, different content), i.e. while X is still in round k.  From then on X gets instance 2's messages only:
// its round-k point-to-point message (after version 2), and its later messages, which match what X could have consumed if it
// had taken version 2.  A cheater does not care about the echo: every later message of instance 2 to X carries the view digest
// that X itself holds for the previous round, and every later message to instance 2 is given instance 2's own digest, so that
// the instance stays alive to the end.
//
// A handler that keeps the first broadcast of a sender (Accept: duplicate) never looks at version 2: X holds version 1 like
// group 1 does, instance 2's later messages do not fit it, X aborts.  Oracles as in the other modes, with "split" read as the
// statement has it for parties that hold the same view: no member of group 1 and member of group 2 both complete with
// different (public) results; completers hold identical views; digests equal iff views equal.

import (
	"bytes"
	"fmt"
	"math/rand"
	"sort"
	"strings"

	"github.com/taurusgroup/multi-party-sig/pkg/ecdsa"
	"github.com/taurusgroup/multi-party-sig/pkg/party"
	"github.com/taurusgroup/multi-party-sig/pkg/protocol"
	"github.com/taurusgroup/multi-party-sig/protocols/cmp"
)

type resendState struct {
	E     party.ID
	e2    party.ID // label of instance 2
	g1    map[party.ID]bool
	k     int
	bcast map[int]bool
	inst1 map[*protocol.Message]bool // messages emitted by instance 1
	v1At  map[party.ID]bool          // version 1 delivered to this member of group 2
	v2At  map[party.ID]bool          // version 2 delivered
	open  map[party.ID]bool          // ... while the member was in round k and held version 1
	next  *Env                       // the envelope that must be delivered next (version 2 right after version 1)
}

// buildResend: the two-faced sim of fork mode with instance 1's round-k broadcast also routed to group 2.
func buildResend(sp SessionSpec, seed int64, E party.ID, g1 map[party.ID]bool, k int, bcast map[int]bool, det *detReader) (*Sim, *resendState) {
	s := buildTwoFacedResend(sp, seed, E, g1, k, det)
	rs := &resendState{E: E, e2: party.ID(string(E) + "#2"), g1: g1, k: k, bcast: bcast, inst1: map[*protocol.Message]bool{},
		v1At: map[party.ID]bool{}, v2At: map[party.ID]bool{}, open: map[party.ID]bool{}}
	return s, rs
}

// buildTwoFacedResend is buildTwoFaced with the resend routing: instance 1 reaches everybody, but of what it sends to group 2
// only the round-k broadcast is kept (tagged "/v1").  (Routing and filter are set before the nodes are created: the round-2
// messages are emitted at construction.)
func buildTwoFacedResend(sp SessionSpec, seed int64, E party.ID, g1 map[party.ID]bool, k int, det *detReader) *Sim {
	s := NewSim(sp.IDs, rand.New(rand.NewSource(seed)), det)
	e2 := party.ID(string(E) + "#2")
	det.alias[string(e2)] = string(E)
	if k <= 2 {
		det.alias[string(e2)] = string(E) + "-forked"
	}
	s.Route = func(from, to *Node) bool {
		if from.ID == E && from.Label != E {
			return !g1[to.ID] // instance 2 -> group 2
		}
		return true // instance 1 and the honest parties reach everyone (OnEmit filters instance 1's messages to group 2)
	}
	s.OnEmit = func(from party.ID, e *Env) []*Env {
		if from != E {
			return []*Env{e}
		}
		if e.Msg.RoundNumber == 0 {
			return nil // the cheater's instances keep their own failures to themselves
		}
		to := s.Nodes[e.To]
		if to == nil || to.ID == E || g1[to.ID] {
			return []*Env{e}
		}
		// to a member of group 2: from which instance?
		n1 := s.Nodes[E]
		isInst1 := false
		if n1 != nil {
			for i := len(n1.Out) - 1; i >= 0; i-- {
				if n1.Out[i] == e.Msg {
					isInst1 = true
					break
				}
			}
		}
		if !isInst1 {
			return []*Env{e}
		}
		if e.Msg.Broadcast && int(e.Msg.RoundNumber) == k {
			e.Tag = "/v1"
			return []*Env{e}
		}
		return nil
	}
	for _, id := range s.IDs {
		s.AddMulti(id, sp.Start(id), sp.SessionID)
	}
	s.AddMultiAs(e2, E, sp.Start(E), sp.SessionID)
	s.Seal()
	return s
}

func (rs *resendState) roundOf(s *Sim, id party.ID) int {
	n := s.Nodes[id]
	if n == nil || len(n.Obs) == 0 {
		return 0
	}
	return n.Obs[len(n.Obs)-1].Round
}

func (rs *resendState) isV1(e *Env) bool { return e.Tag == "/v1" }

func (rs *resendState) isV2(s *Sim, e *Env) bool {
	to := s.Nodes[e.To]
	return e.Msg.From == rs.E && e.Tag != "/v1" && e.Msg.Broadcast && int(e.Msg.RoundNumber) == rs.k && to != nil && to.ID != rs.E && !rs.g1[to.ID]
}

func (rs *resendState) v2For(s *Sim, to party.ID) int {
	for i, f := range s.Flight {
		if f.To == to && rs.isV2(s, f) {
			return i
		}
	}
	return -1
}

// digestFor: the digest the recipient of e holds for the round before e's round; ok=false: it must have one but has not yet
func (rs *resendState) digestFor(s *Sim, e *Env) (d []byte, needed, ok bool) {
	r := int(e.Msg.RoundNumber)
	if r <= rs.k || !rs.bcast[r-1] {
		return nil, false, true
	}
	to := s.Nodes[e.To]
	if to == nil || to.MH == nil {
		return nil, false, true
	}
	toInst2 := to.Label == rs.e2
	fromInst2ToG2 := e.Msg.From == rs.E && to.ID != rs.E && !rs.g1[to.ID]
	if !toInst2 && !fromInst2ToG2 {
		return nil, false, true
	}
	d = to.MH.VerifState().Hashes[uint16(r-1)]
	return d, true, d != nil
}

func (rs *resendState) blocked(s *Sim, e *Env) bool {
	to := s.Nodes[e.To]
	if to == nil {
		return false
	}
	switch {
	case rs.isV1(e):
		// version 1 goes to a member of group 2 once it is in round k and version 2 is ready to follow
		return rs.roundOf(s, e.To) < rs.k || rs.v2For(s, e.To) < 0
	case rs.isV2(s, e):
		return !rs.v1At[e.To] // only right after version 1 (forced)
	case e.Msg.From == rs.E && to.ID != rs.E && !rs.g1[to.ID] && int(e.Msg.RoundNumber) == rs.k && !e.Msg.Broadcast:
		return !rs.v2At[e.To] // instance 2's round-k p2p message: after version 2
	case to.ID != rs.E && !rs.g1[to.ID] && int(e.Msg.RoundNumber) == rs.k && e.Msg.From != rs.E:
		// the other parties' round-k messages reach a member of group 2 after the two versions: the member cannot leave round k
		// between version 1 and version 2
		return !rs.v2At[e.To]
	}
	_, needed, ok := rs.digestFor(s, e)
	return needed && !ok
}

// pick: the policy chose envelope i; returns the envelope to deliver instead if that one has to wait.
func (rs *resendState) pick(s *Sim, i int) int {
	if rs.next != nil {
		for j, f := range s.Flight {
			if f == rs.next {
				rs.next = nil
				return j
			}
		}
		rs.next = nil
	}
	if !rs.blocked(s, s.Flight[i]) {
		return i
	}
	// prefer what makes instance 2 progress, then anything that may go
	for j, f := range s.Flight {
		if f.To == rs.e2 && !rs.blocked(s, f) {
			return j
		}
	}
	for j, f := range s.Flight {
		if !rs.blocked(s, f) {
			return j
		}
	}
	return i
}

// patch: the echo digest the recipient expects
func (rs *resendState) patch(s *Sim, e *Env) {
	if d, needed, ok := rs.digestFor(s, e); needed && ok && !bytes.Equal(d, e.Msg.BroadcastVerification) {
		m := *e.Msg
		m.BroadcastVerification = append([]byte{}, d...)
		e.Msg = &m
	}
}

// delivered: bookkeeping after e has been delivered
func (rs *resendState) delivered(s *Sim, e *Env) {
	switch {
	case rs.isV1(e):
		rs.v1At[e.To] = true
		if j := rs.v2For(s, e.To); j >= 0 {
			rs.next = s.Flight[j]
		}
	case rs.isV2(s, e):
		rs.v2At[e.To] = true
		// was the member in round k (before and after), holding version 1?
		n := s.Nodes[e.To]
		if n != nil && len(n.Obs) >= 2 && rs.v1At[e.To] && n.Obs[len(n.Obs)-2].Round == rs.k && n.Obs[len(n.Obs)-2].Class == 0 {
			rs.open[e.To] = true
		}
	}
}

// c06PublicFP: the part of a protocol result that all parties of a session must agree on.
func c06PublicFP(r interface{}) string {
	switch v := r.(type) {
	case nil:
		return "<nil>"
	case *cmp.Config:
		return "cmp.Config:" + kmConfigDigest("", v).desc.String()
	case *ecdsa.PreSignature:
		return fmt.Sprintf("PreSignature:%s|%s|%s|%s", canon(v.ID), canon(v.R), canon(v.RBar), canon(v.S))
	}
	if sv, err := viewOfResult(r); err == nil {
		var ks []string
		for id, p := range sv.Table {
			ks = append(ks, fmt.Sprintf("%s=%s", id, canon(p)))
		}
		sort.Strings(ks)
		return fmt.Sprintf("%T:t=%d pub=%s %x chain=%x table=%s", r, sv.T, canon(sv.Pub), sv.PubBytes, sv.Chain, strings.Join(ks, ","))
	}
	return resultFP(r) // signatures: identical for all parties
}
