package main

import (
	"fmt"
	"os"
	"sync"
	"time"
)

var (
	tmMu sync.Mutex
	tm   = map[string]time.Duration{}
	tmN  = map[string]int{}
)

func tmAdd(k string, t0 time.Time) {
	tmMu.Lock()
	tm[k] += time.Since(t0)
	tmN[k]++
	tmMu.Unlock()
}
func tmDump() {
	if os.Getenv("C10_TIMING") == "" {
		return
	}
	for k, v := range tm {
		fmt.Fprintf(os.Stderr, "timing %-28s %8.2fs  n=%d  avg %.0fms\n", k, v.Seconds(), tmN[k], v.Seconds()*1000/float64(tmN[k]))
	}
}
