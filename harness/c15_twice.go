package main

// c15_twice.go -- encode, encode again, THEN decode the first result.
//
// A sender serializes a message, puts the returned byte slice into its send queue (by reference: nobody copies what an
// encoder returns), serializes the next message, and only later the queue is flushed and the receiver decodes.  A store
// does the same with configs.  For every type with a MarshalBinary / CBOR encoding that C15 round-trips:
//
//	encode A, encode B (and C) -- other values of the same type, the same object again, an equal value built separately --
//	keeping every returned slice exactly as returned, and a private snapshot copy of each taken at once (oracle only);
//	then: every held slice still equals its snapshot; decoding the HELD slice of A gives A (judged on the fields, not with the
//	library's Equal), re-encoding that gives the bytes an independent encoding of A gives (the harness's own CBOR writer for
//	protocol.Message, big-endian math/big for scalars, the undisturbed snapshot otherwise); the same for B, C (the
//	interleaving "A, B, then decode both"); decoding does not disturb the slices still queued; a value decoded earlier
//	is not changed by encodings made afterwards.
//
// Every sequence is run twice in a row (a queue is long-lived: the second pass is the same traffic sent again), so
// that a case does not depend on what the process happened to encode before it, and a replay in a fresh process sees what
// the run saw.
// Keys C15/<type>/encode-twice/<problem>; replay: the type, the snapshots of all values in encoding order (hex; [0] is A),
// the index of the slice that went wrong and what it held afterwards.

import (
	"bytes"
	"encoding/hex"
	"fmt"
	"math/big"
	"math/rand"
	"sort"

	"github.com/cronokirby/saferith"
	"github.com/fxamacker/cbor/v2"
	"github.com/taurusgroup/multi-party-sig/pkg/ecdsa"
	"github.com/taurusgroup/multi-party-sig/pkg/math/curve"
	"github.com/taurusgroup/multi-party-sig/pkg/math/polynomial"
	"github.com/taurusgroup/multi-party-sig/pkg/math/sample"
	"github.com/taurusgroup/multi-party-sig/pkg/paillier"
	"github.com/taurusgroup/multi-party-sig/pkg/party"
	"github.com/taurusgroup/multi-party-sig/pkg/protocol"
	"github.com/taurusgroup/multi-party-sig/pkg/verifhook"
	"github.com/taurusgroup/multi-party-sig/protocols/cmp"
	"github.com/taurusgroup/multi-party-sig/protocols/frost"

	"verifharness/sx"
)

type c15TwiceReplay struct {
	Type      string   `json:"type"`
	What      string   `json:"what"` // "encode-twice"
	Class     string   `json:"class"`
	Problem   string   `json:"problem"`
	Values    []string `json:"values_hex"`     // snapshot of every value's encoding, in encoding order; [0] is A
	SameAs    []int    `json:"same_object_as"` // i: the same OBJECT as value i was encoded again; -1: an object of its own
	Pass      int      `json:"pass"`           // 1: first time the sequence is encoded, 2: the same sequence again
	Index     int      `json:"held_index"`     // which held slice / decoded value went wrong
	HeldAfter string   `json:"held_afterwards_hex,omitempty"`
	Detail    string   `json:"detail,omitempty"`
}

type c15TwiceCodec struct {
	Type   string
	Enc    func(v interface{}) ([]byte, error)
	Dec    func(b []byte) (interface{}, error)
	Proj   func(v interface{}) string // observable content of a value
	Indep  func(v interface{}) []byte // encoding computed without the library's encoder (nil: none)
	Stable bool                       // the encoding is a function of the value (no Go map order inside)
}

// the harness's own encoding of a message (field order and types of the wire format; RFC 8949 heads)
func c15MsgOwnBytes(m *protocol.Message) []byte {
	opt := func(b []byte) *c15Node {
		if b == nil {
			return c15NullNode()
		}
		return c15B(b)
	}
	t := &c15Node{K: c15Map}
	for _, kv := range []struct {
		k string
		v *c15Node
	}{{"SSID", opt(m.SSID)}, {"From", c15T(string(m.From))}, {"To", c15T(string(m.To))}, {"Protocol", c15T(m.Protocol)},
		{"RoundNumber", c15U(uint64(m.RoundNumber))}, {"Data", opt(m.Data)}, {"Broadcast", &c15Node{K: c15Bool, Bool: m.Broadcast}},
		{"BroadcastVerification", opt(m.BroadcastVerification)}} {
		t.MK, t.MV = append(t.MK, c15T(kv.k)), append(t.MV, kv.v)
	}
	return t.bytes()
}

func c15TwiceCodecs() map[string]*c15TwiceCodec {
	g := c15Group
	out := map[string]*c15TwiceCodec{}
	// the result types of the protocols: the documented encoder / Empty* constructor, compared like a plain round trip
	stable := map[string]bool{"cmp.Config": true, "ecdsa.Signature": true, "protocol.Message": true}
	for name, t := range c15Types() {
		t := t
		cd := &c15TwiceCodec{Type: name, Enc: t.Marshal, Dec: t.Restore, Stable: stable[name], Proj: func(v interface{}) string { return canon(v) }}
		switch name {
		case "cmp.Config":
			cd.Proj = func(v interface{}) string { return c15CmpProj(v.(*cmp.Config)) }
		case "protocol.Message":
			cd.Proj = func(v interface{}) string { return c15MsgSx(v.(*protocol.Message)).String() }
			cd.Indep = func(v interface{}) []byte { return c15MsgOwnBytes(v.(*protocol.Message)) }
		}
		out[name] = cd
	}
	out["curve.Scalar"] = &c15TwiceCodec{Type: "curve.Scalar", Stable: true,
		Enc: func(v interface{}) ([]byte, error) { return c15TwiceScalarOf(v).MarshalBinary() },
		Dec: func(b []byte) (interface{}, error) {
			s := g.NewScalar()
			err := s.UnmarshalBinary(b)
			return s, err
		},
		Proj: func(v interface{}) string {
			if k, ok := v.(*c15KnownScalar); ok {
				return k.z.Text(16)
			}
			return scalarZ(v.(curve.Scalar)).Text(16)
		},
		Indep: func(v interface{}) []byte {
			if k, ok := v.(*c15KnownScalar); ok {
				return k.z.FillBytes(make([]byte, 32))
			}
			return nil
		},
	}
	out["curve.Point"] = &c15TwiceCodec{Type: "curve.Point", Stable: true,
		Enc: func(v interface{}) ([]byte, error) { return v.(curve.Point).MarshalBinary() },
		Dec: func(b []byte) (interface{}, error) {
			p := g.NewPoint()
			err := p.UnmarshalBinary(b)
			return p, err
		},
		Proj: func(v interface{}) string { return ptSx(v.(curve.Point)).String() },
	}
	out["polynomial.Exponent"] = &c15TwiceCodec{Type: "polynomial.Exponent", Stable: true,
		Enc: func(v interface{}) ([]byte, error) { return v.(*polynomial.Exponent).MarshalBinary() },
		Dec: func(b []byte) (interface{}, error) {
			e := polynomial.EmptyExponent(g)
			err := e.UnmarshalBinary(b)
			return e, err
		},
		Proj: func(v interface{}) string {
			e := v.(*polynomial.Exponent)
			s := fmt.Sprintf("const=%v deg=%d", e.IsConstant, e.Degree())
			// the polynomial as a function: its values at 0..deg+1
			for x := 0; x <= e.Degree()+1; x++ {
				s += " " + ptSx(e.Evaluate(g.NewScalar().SetNat(new(saferith.Nat).SetUint64(uint64(x))))).String()
			}
			return s
		},
	}
	out["paillier.Ciphertext"] = &c15TwiceCodec{Type: "paillier.Ciphertext", Stable: true,
		Enc: func(v interface{}) ([]byte, error) { return v.(*paillier.Ciphertext).MarshalBinary() },
		Dec: func(b []byte) (interface{}, error) {
			ct := &paillier.Ciphertext{}
			err := ct.UnmarshalBinary(b)
			return ct, err
		},
		Proj: func(v interface{}) string { return v.(*paillier.Ciphertext).Nat().Big().Text(16) },
	}
	out["party.PointMap"] = &c15TwiceCodec{Type: "party.PointMap",
		Enc: func(v interface{}) ([]byte, error) { return v.(*party.PointMap).MarshalBinary() },
		Dec: func(b []byte) (interface{}, error) {
			m := party.EmptyPointMap(g)
			err := m.UnmarshalBinary(b)
			return m, err
		},
		Proj: func(v interface{}) string {
			m := v.(*party.PointMap)
			ids := make([]string, 0, len(m.Points))
			for id := range m.Points {
				ids = append(ids, string(id))
			}
			sort.Strings(ids)
			s := ""
			for _, id := range ids {
				s += fmt.Sprintf("%q=%s ", id, ptSx(m.Points[party.ID(id)]))
			}
			return s
		},
	}
	return out
}

// a scalar built by the harness from a number it knows: the number and its 32-byte big-endian form are the reference
type c15KnownScalar struct {
	s curve.Scalar
	z *big.Int
}

func c15TwiceKnownScalar(z *big.Int) *c15KnownScalar {
	z = new(big.Int).Mod(z, secpQ)
	return &c15KnownScalar{s: c15Group.NewScalar().SetNat(new(saferith.Nat).SetBig(z, 256)), z: z}
}

func c15TwiceScalarOf(v interface{}) curve.Scalar {
	if k, ok := v.(*c15KnownScalar); ok {
		return k.s
	}
	return v.(curve.Scalar)
}

// c15TwiceCall: a library call under recover
func c15TwiceCall(f func() error) (err error) {
	defer func() {
		if p := recover(); p != nil {
			err = fmt.Errorf("panic: %v", p)
		}
	}()
	return f()
}

// c15TwiceRun: one sequence.  vals[0] is A.  Reports at most one problem (the first).
func (c *ctx) c15TwiceRun(cd *c15TwiceCodec, class string, vals []interface{}) (found bool) {
	n := len(vals)
	sameAs := make([]int, n)
	for i := range vals {
		sameAs[i] = -1
		for j := 0; j < i; j++ {
			if vals[j] == vals[i] { // the same object (pointer / interface identity)
				sameAs[i] = j
				break
			}
		}
	}
	// what every value is, read BEFORE anything is encoded
	want := make([]string, n)
	indep := make([][]byte, n)
	for i, v := range vals {
		v := v
		i := i
		_ = c15TwiceCall(func() error {
			want[i] = cd.Proj(v)
			if cd.Indep != nil {
				indep[i] = cd.Indep(v)
			}
			return nil
		})
	}
	var snaps [][]byte
	report := func(pass, idx int, problem, desc string, held []byte, detail string) {
		found = true
		rp := c15TwiceReplay{Type: cd.Type, What: "encode-twice", Class: class, Problem: problem, SameAs: sameAs, Pass: pass, Index: idx,
			HeldAfter: hex.EncodeToString(held), Detail: c15Short(detail, 600)}
		for _, s := range snaps {
			rp.Values = append(rp.Values, hex.EncodeToString(s))
		}
		c.res.Violate("property", "C15/"+cd.Type+"/encode-twice/"+problem,
			fmt.Sprintf("%s, sequence %s (%d values, pass %d), value #%d: %s", cd.Type, class, n, pass, idx, desc), rp)
	}
	for pass := 1; pass <= 2 && !found; pass++ {
		held := make([][]byte, n) // exactly what the encoder returned: never copied, never written by the harness
		snaps = make([][]byte, n)
		for i, v := range vals {
			v := v
			var b []byte
			err := c15TwiceCall(func() (e error) { b, e = cd.Enc(v); return })
			if err != nil {
				report(pass, i, "encode-fails", fmt.Sprintf("encoding fails: %v", err), nil, "")
				return
			}
			held[i] = b
			snaps[i] = append([]byte{}, b...)
		}
		// the freshly taken snapshot of a value IS its encoding: when there is an independent encoding, they agree
		// (a difference here is a plain encoder problem, reported under its own key)
		for i := range vals {
			if indep[i] != nil && !bytes.Equal(indep[i], snaps[i]) {
				report(pass, i, "fresh-encoding-differs-from-reference", "the encoder's result, copied at once, is not the reference encoding of the value", snaps[i], hex.EncodeToString(indep[i]))
				return
			}
		}
		stillHeld := func(problem, when string) bool {
			for i := range vals {
				if !bytes.Equal(held[i], snaps[i]) {
					report(pass, i, problem, fmt.Sprintf("the byte slice returned by the encoder (%d bytes) no longer holds what it held when it was returned: %s", len(snaps[i]), when), held[i], "")
					return false
				}
			}
			return true
		}
		if !stillHeld("first-result-overwritten", "it was changed by a later encoding") {
			// say also what a receiver would get
			var back interface{}
			if err := c15TwiceCall(func() (e error) { back, e = cd.Dec(held[0]); return }); err == nil && back != nil {
				got := ""
				_ = c15TwiceCall(func() error { got = cd.Proj(back); return nil })
				for j := 1; j < n; j++ {
					if got == want[j] && got != want[0] {
						c.res.Violate("property", "C15/"+cd.Type+"/encode-twice/decodes-to-other-value",
							fmt.Sprintf("%s, sequence %s: the bytes queued for value #0 decode without error to value #%d", cd.Type, class, j),
							c.res.Violations[len(c.res.Violations)-1].Replay)
						break
					}
				}
			}
			return
		}
		// decode every held slice, in order (A first)
		decoded := make([]interface{}, n)
		for i := range vals {
			var back interface{}
			err := c15TwiceCall(func() (e error) { back, e = cd.Dec(held[i]); return })
			if err != nil || back == nil {
				report(pass, i, "decode-fails", fmt.Sprintf("decoding the queued bytes fails: %v", err), held[i], "")
				return
			}
			decoded[i] = back
			if !stillHeld("queued-bytes-changed-by-decode", fmt.Sprintf("it was changed while value #%d was decoded", i)) {
				return
			}
			got := ""
			_ = c15TwiceCall(func() error { got = cd.Proj(back); return nil })
			if got != want[i] {
				problem := "decodes-to-different-value"
				for j := range vals {
					if j != i && got == want[j] {
						problem = "decodes-to-other-value"
					}
				}
				report(pass, i, problem, "the queued bytes decode to something else than the value that was encoded: "+c15FirstDiff(want[i], got), held[i], "")
				return
			}
			if !stillHeld("first-result-overwritten", fmt.Sprintf("it was changed while the decoded value #%d was read (parts of it are encoded for the comparison)", i)) {
				return
			}
		}
		// re-encode what was decoded: the reference encoding of the value again; nothing decoded or queued is disturbed by that
		for i := range vals {
			var b2 []byte
			back := decoded[i]
			err := c15TwiceCall(func() (e error) { b2, e = cd.Enc(back); return })
			if err != nil {
				report(pass, i, "reencode-fails", fmt.Sprintf("encoding the decoded value fails: %v", err), held[i], "")
				return
			}
			ref := snaps[i]
			if indep[i] != nil {
				ref = indep[i]
			}
			if cd.Stable && !bytes.Equal(b2, ref) {
				report(pass, i, "reencode-differs", "the decoded value encodes to other bytes than the value that was encoded", held[i], hex.EncodeToString(b2))
				return
			}
			if !stillHeld("first-result-overwritten", fmt.Sprintf("it was changed when the decoded value #%d was encoded", i)) {
				return
			}
		}
		for i := range vals {
			got := ""
			back := decoded[i]
			_ = c15TwiceCall(func() error { got = cd.Proj(back); return nil })
			if got != want[i] {
				report(pass, i, "decoded-value-changed-by-later-encoding", "a value decoded from the queue changed when other values were encoded / decoded afterwards: "+c15FirstDiff(want[i], got), held[i], "")
				return
			}
			v := vals[i]
			_ = c15TwiceCall(func() error { got = cd.Proj(v); return nil })
			if got != want[i] {
				report(pass, i, "encoder-changes-its-argument", "the value that was encoded is not what it was before: "+c15FirstDiff(want[i], got), held[i], "")
				return
			}
		}
	}
	return
}

// the sequences made from a list of different values of one type (objs[0] is A): other values after it, the same object
// again, an equal value built separately (restored from A's bytes)
func (c *ctx) c15TwiceSequences(cd *c15TwiceCodec, class string, objs []interface{}, light bool) int {
	if len(objs) == 0 {
		return 0
	}
	a := objs[0]
	var seqs [][]interface{}
	names := []string{}
	add := func(name string, s ...interface{}) { seqs = append(seqs, s); names = append(names, name) }
	if len(objs) >= 2 {
		add("A,B", a, objs[1])
		add("B,A", objs[1], a)
		if !light {
			add("A,B,A", a, objs[1], a)
		}
	}
	if len(objs) >= 3 {
		add("A,B,C", a, objs[1], objs[2])
		if !light {
			add("C,A,B", objs[2], a, objs[1])
		}
	}
	add("A,A", a, a)
	// an equal value that is another object
	var twin interface{}
	if b, err := cd.Enc(a); err == nil {
		_ = c15TwiceCall(func() (e error) { twin, e = cd.Dec(append([]byte{}, b...)); return })
	}
	if twin != nil {
		add("A,A'", a, twin)
		if len(objs) >= 2 && !light {
			add("A,B,A'", a, objs[1], twin)
		}
	}
	for i, s := range seqs {
		fp := cd.Type + "/" + class + "/" + names[i]
		_ = c15TwiceCall(func() error { fp += "/" + c15Short(cd.Proj(s[0]), 200); return nil })
		c.res.Case("encode-twice/"+cd.Type+"/"+class+"/"+names[i], fp, true)
		c.c15TwiceRun(cd, class+"/"+names[i], s)
	}
	return len(seqs)
}

// ---------------------------------------------------------------------------------------------
// protocol.Message

func c15TwiceMsg(r *rand.Rand, dataLen int, broadcast, withBV bool, k int) *protocol.Message {
	ids := []string{"a", "alice", "bob", "p-0123456789012345678901", "名前"}
	m := &protocol.Message{SSID: randBytes(r, []int{1, 32, 64}[r.Intn(3)]), From: party.ID(ids[r.Intn(len(ids))]),
		Protocol:    []string{"cmp/keygen", "cmp/sign", "frost/keygen-taproot", "doerner/keygen"}[r.Intn(4)],
		RoundNumber: verifhook.RoundNumber(1 + (k+r.Intn(3))%7), Broadcast: broadcast}
	switch {
	case dataLen < 0:
		m.Data = nil
	default:
		m.Data = randBytes(r, dataLen)
	}
	if !broadcast {
		m.To = party.ID(ids[r.Intn(len(ids))])
	}
	if withBV {
		m.BroadcastVerification = randBytes(r, 32)
	}
	return m
}

func (c *ctx) c15TwiceMessages(cd *c15TwiceCodec, mats []c15Material) int {
	r := c.res.Rng
	short := []int{-1, 0, 1, 23, 24, 32}
	long := []int{255, 256, 300, 1500, 4096}
	huge := []int{65535, 65536, 70000}
	pick := func(size string) int {
		switch size {
		case "short":
			return short[r.Intn(len(short))]
		case "long":
			return long[r.Intn(len(long))]
		}
		return huge[r.Intn(len(huge))]
	}
	cases := 0
	run := func(class string, ms ...*protocol.Message) {
		vals := make([]interface{}, len(ms))
		fp := class
		for i, m := range ms {
			vals[i] = m
			fp += "/" + hex.EncodeToString(m.Hash())
		}
		c.res.Case("encode-twice/protocol.Message/"+class, fp, true)
		cases++
		if c.c15TwiceRun(cd, class, vals) {
			return
		}
		// correspondence: the bytes of A, as the encoder returned them and after B was encoded, are the model's message_encode(A)
		if len(ms) >= 2 {
			b0, _ := ms[0].MarshalBinary()
			_, _ = ms[1].MarshalBinary()
			if len(b0) < 600 {
				if rep, err := c.m.Call("cbor.message_encode", c15MsgSx(ms[0])); err == nil {
					ok := bytes.Equal(rep.L[0].B, b0)
					c.res.Corr(ok)
					if !ok {
						c.res.Violate("correspondence", "C15/message-encode-mismatch/encode-twice", "the bytes held for a message after another one was encoded differ from the model's message_encode",
							c15Replay{Type: "protocol.Message", What: "encode", Go: hex.EncodeToString(b0), Model: hex.EncodeToString(rep.L[0].B)})
					}
				}
			}
		}
	}
	kinds := []struct {
		name   string
		bc, bv bool
	}{{"p2p", false, false}, {"broadcast", true, false}, {"p2p+verification", false, true}, {"broadcast+verification", true, true}}
	sizes := [][2]string{{"short", "short"}, {"short", "long"}, {"long", "short"}, {"long", "long"}}
	if true {
		sizes = append(sizes, [2]string{"huge", "short"}, [2]string{"short", "huge"}, [2]string{"huge", "long"}, [2]string{"huge", "huge"})
	}
	k := 0
	for _, sz := range sizes {
		for _, ka := range kinds {
			if sz[0] == "huge" && sz[1] == "huge" && !c.thorough() && ka.name != "broadcast+verification" {
				continue
			}
			kb := kinds[r.Intn(len(kinds))]
			k++
			la, lb := pick(sz[0]), pick(sz[1])
			a := c15TwiceMsg(r, la, ka.bc, ka.bv, k)
			b := c15TwiceMsg(r, lb, kb.bc, kb.bv, k+1)
			run(fmt.Sprintf("%s-then-%s/%s-then-%s", sz[0], sz[1], ka.name, kb.name), a, b)
			if sz[0] == sz[1] {
				// equal sizes: the same shape with other content (equal encoded length)
				b2 := c15TwiceMsg(r, 0, ka.bc, ka.bv, k)
				*b2 = *a
				b2.Data = randBytes(r, len(a.Data))
				if a.Data == nil {
					b2.Data = nil
					b2.SSID = randBytes(r, len(a.SSID))
				}
				run(fmt.Sprintf("equal-size-%s/%s", sz[0], ka.name), a, b2)
				// A, then the same object again; A, then an equal message built separately
				run(fmt.Sprintf("same-object-again-%s/%s", sz[0], ka.name), a, a)
				twin := *a
				twin.Data = append([]byte(nil), a.Data...)
				if a.Data != nil && twin.Data == nil {
					twin.Data = []byte{}
				}
				run(fmt.Sprintf("equal-value-again-%s/%s", sz[0], ka.name), a, &twin)
			}
			// three in the queue: A, B, C and A, B, A
			if sz[0] != "huge" || c.thorough() {
				cm := c15TwiceMsg(r, pick([]string{"short", "long"}[r.Intn(2)]), !ka.bc, !kb.bv, k+2)
				run(fmt.Sprintf("%s-then-%s-then-third/%s", sz[0], sz[1], ka.name), a, b, cm)
				run(fmt.Sprintf("%s-then-%s-then-first-again/%s", sz[0], sz[1], ka.name), a, b, a)
			}
		}
	}
	// what one party of a real session sends in a row: consecutive wire messages of the recorded sessions
	var real []interface{}
	for _, m := range mats {
		if m.Type == "protocol.Message" {
			real = append(real, m.Obj)
		}
	}
	for i := 0; i+1 < len(real); i++ {
		c.res.Case("encode-twice/protocol.Message/session-messages", fmt.Sprintf("session-pair-%d/%s", i, hex.EncodeToString(real[i].(*protocol.Message).Hash())), true)
		cases++
		c.c15TwiceRun(cd, "session-messages", []interface{}{real[i], real[i+1], real[(i+2)%len(real)]})
	}
	return cases
}

// ---------------------------------------------------------------------------------------------

func (c *ctx) c15EncodeTwice(mats []c15Material) {
	cds := c15TwiceCodecs()
	r := c.res.Rng
	g := c15Group
	total := 0
	// protocol.Message first
	total += c.c15TwiceMessages(cds["protocol.Message"], mats)

	// results of the recorded sessions, by type (up to three different objects of each)
	by := map[string][]interface{}{}
	for _, m := range mats {
		if m.Type != "protocol.Message" {
			dup := false
			for _, o := range by[m.Type] {
				dup = dup || o == m.Obj
			}
			if !dup {
				by[m.Type] = append(by[m.Type], m.Obj)
			}
		}
	}
	tns := make([]string, 0, len(by))
	for tn := range by {
		tns = append(tns, tn)
	}
	sort.Strings(tns)
	for _, tn := range tns {
		if cd := cds[tn]; cd != nil {
			total += c.c15TwiceSequences(cd, "session-results", by[tn], tn == "cmp.Config")
		}
	}
	// the point tables inside FROST configs / presignatures
	var pms []interface{}
	for _, o := range by["frost.Config"] {
		if cf := o.(*frost.Config); cf.VerificationShares != nil {
			pms = append(pms, cf.VerificationShares)
		}
	}
	for _, o := range by["ecdsa.PreSignature"] {
		if ps := o.(*ecdsa.PreSignature); ps.RBar != nil && ps.S != nil {
			pms = append(pms, ps.RBar, ps.S)
		}
	}
	if len(pms) > 3 {
		pms = append(pms[:2], pms[len(pms)-1])
	}
	total += c.c15TwiceSequences(cds["party.PointMap"], "session-tables", pms, false)

	// generated values: all randomness from the run's generator
	det := installDetReader(c.res.Seed*977+15, 0)
	defer restoreRandReader()
	_ = det
	rounds := 3
	if c.thorough() {
		rounds = 40
	}
	for i := 0; i < rounds; i++ {
		var scs, pts, sigs, exps []interface{}
		for j := 0; j < 3; j++ {
			z := new(big.Int).SetBytes(randBytes(r, 32))
			if i == 0 && j == 1 {
				z = big.NewInt(1) // leading zero bytes
			}
			scs = append(scs, c15TwiceKnownScalar(z))
			pts = append(pts, sample.Scalar(r, g).ActOnBase())
			sig := &ecdsa.Signature{R: sample.Scalar(r, g).ActOnBase(), S: sample.Scalar(r, g)}
			sigs = append(sigs, sig)
		}
		// exponents of different degrees: short then long, long then short, equal
		degs := [][3]int{{1, 24, 3}, {30, 0, 5}, {4, 4, 4}}[i%3]
		for j := 0; j < 3; j++ {
			var constant curve.Scalar
			if (i+j)%3 != 0 {
				constant = sample.Scalar(r, g)
			}
			exps = append(exps, polynomial.NewPolynomialExponent(polynomial.NewPolynomial(g, degs[j], constant)))
		}
		total += c.c15TwiceSequences(cds["curve.Scalar"], "generated", scs, false)
		total += c.c15TwiceSequences(cds["curve.Point"], "generated", pts, false)
		total += c.c15TwiceSequences(cds["ecdsa.Signature"], "generated", sigs, false)
		total += c.c15TwiceSequences(cds["polynomial.Exponent"], fmt.Sprintf("generated/deg=%d,%d,%d", degs[0], degs[1], degs[2]), exps, false)
	}
	// Paillier ciphertexts under a key of the recorded CMP session
	for _, o := range by["cmp.Config"] {
		cf := o.(*cmp.Config)
		pub := cf.Public[cf.ID]
		if pub == nil || pub.Paillier == nil {
			continue
		}
		var cts []interface{}
		for j := 0; j < 3; j++ {
			var ct *paillier.Ciphertext
			_ = c15TwiceCall(func() error {
				ct, _ = pub.Paillier.Enc(new(saferith.Int).SetBig(new(big.Int).SetBytes(randBytes(r, 1+r.Intn(32))), 256))
				return nil
			})
			if ct != nil {
				cts = append(cts, ct)
			}
		}
		total += c.c15TwiceSequences(cds["paillier.Ciphertext"], "generated", cts, false)
		break
	}
	c.res.Note("encode-twice: %d sequences (each encoded twice in a row; every returned slice kept by reference, decoded after the later encodings)", total)
}

// c15TwiceReplayRun: `-replay` of an encode-twice case; false: the file is not one of these
func (c *ctx) c15TwiceReplayRun() bool {
	var rp c15TwiceReplay
	if err := readJSON(c.replay, &rp); err != nil || rp.What != "encode-twice" {
		return false
	}
	cd := c15TwiceCodecs()[rp.Type]
	if cd == nil || len(rp.Values) == 0 {
		c.res.Note("replay file not understood: type %q", rp.Type)
		return true
	}
	vals := make([]interface{}, len(rp.Values))
	for i, h := range rp.Values {
		if i < len(rp.SameAs) && rp.SameAs[i] >= 0 && rp.SameAs[i] < i {
			vals[i] = vals[rp.SameAs[i]]
			continue
		}
		b, err := hex.DecodeString(h)
		if err == nil {
			err = c15TwiceCall(func() (e error) { vals[i], e = cd.Dec(b); return })
		}
		if err != nil || vals[i] == nil {
			c.res.Note("replay: value #%d cannot be rebuilt from its snapshot: %v", i, err)
			return true
		}
	}
	c.res.Case("replay", rp.Type+rp.Class, true)
	found := c.c15TwiceRun(cd, rp.Class, vals)
	fmt.Printf("replay: %s, sequence %s of %d values rebuilt from their snapshots, encoded twice in a row: problem reproduced=%v\n", rp.Type, rp.Class, len(vals), found)
	for _, v := range c.res.Violations {
		fmt.Printf("replay: %s: %s\n", v.Key, c15Short(v.Desc, 300))
	}
	return true
}

var _ = sx.Int
var _ = cbor.Marshal
