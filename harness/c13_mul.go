package main

// C13, Multiply: honest runs on the scalar lattice, the alteration search, replay.

import (
	"encoding/hex"
	"fmt"
	"math/big"
	"math/rand"
	"reflect"
	"strings"

	"github.com/taurusgroup/multi-party-sig/pkg/math/curve"
	"github.com/taurusgroup/multi-party-sig/pkg/verifhook"

	"verifharness/sx"
)

type c13MulOut struct {
	Outcome string // ok | sender-error | receiver-error | <stage>-panic: ... | inapplicable: ...
	SS, SR  *big.Int
	// prediction of MultiplyReceiver.Round2 (empty = none): ok | err | panic, and the share when ok
	Pred      string
	PredShare *big.Int
	PredNote  string
}

// multiply runs one multiplication. cs.Msg = "" (honest), "R1" (receiver's message altered before the sender sees
// it) or "S1" (sender's message altered before the receiver sees it).
// With shadow, the receiver's Round2 is also predicted: a second AdditiveOTReceiver fed with the same random bytes
// and the same hash gives the additive result for the (altered) message; the model's ot.mult_recv_check gives the
// check outcome; the share is sum result[i][0]*gadget[i] (big.Int). With deep, the additive step itself is
// predicted by the model (ot.additive_recv_class) and compared with the shadow.
func (e *c13Env) multiply(cs c13Case, shadow bool, deep bool) (out c13MulOut) {
	c := e.c
	stage := "receiver-new"
	defer func() {
		if r := recover(); r != nil {
			out.Outcome = stage + "-panic: " + fmt.Sprint(r)
		}
	}()
	nonce, _ := hex.DecodeString(cs.Nonce)
	alpha, beta := c13UnHex(cs.Alpha), c13UnHex(cs.Beta)
	h := c13Hash(nonce)
	e.rd.seed(cs.Seed)
	if cs.Gamma != "" {
		g, _ := hex.DecodeString(cs.Gamma)
		e.rd.force(g)
	}
	e.rd.record()
	recv, err := verifhook.OTNewMultiplyReceiver(h.Clone(), e.rs, c13Sc(beta))
	if err != nil {
		out.Outcome = "receiver-error"
		return
	}
	stage = "receiver-round1"
	m1 := recv.Round1()
	log := e.rd.stop()
	e.rd.force(nil)

	// shadow receiver (same random bytes, same hash): knows the choice vector and the additive result
	hs := h.Clone()
	var choices []byte
	var gz []*big.Int
	sh := verifhook.OTNewAdditiveOTReceiver(hs, e.rs, c13Group, nil)
	shadowOK := false
	if shadow {
		stage = "shadow"
		e.rd.force(log)
		gadget := verifhook.OTMakeGadget(h.Clone(), c13Group)
		ch, err := verifhook.OTEncode(c13Sc(beta), gadget[256:])
		if err != nil {
			out.Outcome = "shadow-error"
			return
		}
		choices = ch
		sh = verifhook.OTNewAdditiveOTReceiver(hs, e.rs, c13Group, choices)
		sm1 := sh.Round1()
		e.rd.force(nil)
		shadowOK = reflect.DeepEqual(sm1, m1.Msg)
		c.res.Corr(shadowOK)
		if !shadowOK {
			c.res.Violate("correspondence", "C13/multiply-receiver-round1", "MultiplyReceiver.Round1 is not AdditiveOTReceiver.Round1 on encode(beta) with the same randomness", cs)
		}
		for _, g := range gadget {
			gz = append(gz, c13Z(g))
		}
		// decode relation of the real choice vector
		dot, err := c.m.Call("ot.gadget_dot", sx.List(sx.Big(secpQ), c13Zs(gz), sx.Bytes(choices)))
		if err != nil {
			c.c13ModelErr("ot.gadget_dot", err, cs)
		} else {
			ok := dot.Kind == 0 && dot.Z.Cmp(new(big.Int).Mod(beta, secpQ)) == 0
			c.res.Corr(ok)
			if !ok {
				c.res.Violate("property", "C13/encode-decode-wrong/in-multiply", "<choices, gadget> != beta for the receiver's choice vector", cs)
			}
		}
	}
	stage = "alter"
	if cs.Msg == "R1" {
		if err := c13Apply(m1, cs.Path, cs.Op); err != nil {
			out.Outcome = "inapplicable: " + err.Error()
			return
		}
	}
	stage = "sender-new"
	if cs.Alpha1 != "" {
		e.rd.force(c13UnHex(cs.Alpha1).FillBytes(make([]byte, 32)))
	}
	sender := verifhook.OTNewMultiplySender(h.Clone(), e.ss, c13Sc(alpha))
	e.rd.force(nil)
	stage = "sender-round1"
	m2, shareS, err := sender.Round1(m1)
	if err != nil {
		out.Outcome = "sender-error"
		return
	}
	out.SS = c13Z(shareS)
	stage = "alter"
	if cs.Msg == "S1" {
		if err := c13Apply(m2, cs.Path, cs.Op); err != nil {
			out.Outcome = "inapplicable: " + err.Error()
			return
		}
	}

	// prediction of the receiver's Round2
	if shadow && shadowOK && m2.Msg != nil {
		stage = "shadow-round2"
		saved := c13CopyPads(m2.Msg.CombinedPads)
		var sres [][2]curve.Scalar
		var serr error
		p := c13Try(func() {
			r, er := sh.Round2(m2.Msg)
			sres, serr = r, er
		})
		m2.Msg.CombinedPads = saved // Round2 masks the pads in place
		addClass := "ok"
		if p != "" {
			addClass = "panic"
		} else if serr != nil {
			addClass = "err"
		}
		if deep {
			mp, err := e.predictAdditiveR2(saved, choices)
			if err != nil {
				c.c13ModelErr("ot.additive_recv_class", err, cs)
			} else {
				c.res.Corr(mp == addClass)
				if mp != addClass {
					cs.Observed = fmt.Sprintf("go=%s (%s %v) model=%s", addClass, p, serr, mp)
					c.res.Violate("correspondence", "C13/additive-round2-outcome", "AdditiveOTReceiver.Round2 outcome differs from the model's mask loops", cs)
				}
			}
		}
		out.Pred = addClass
		out.PredNote = "additive step: " + addClass + " " + p
		if addClass == "ok" {
			out.Pred = ""
			encodable := m2.UCheck != nil
			for _, x := range m2.RCheck {
				encodable = encodable && x != nil
			}
			if encodable {
				chi0, chi1 := c13Chi01(hs)
				res := make([]sx.V, len(sres))
				for i := range sres {
					res[i] = sx.List(sx.Big(c13Z(sres[i][0])), sx.Big(c13Z(sres[i][1])))
				}
				rc := make([]*big.Int, len(m2.RCheck))
				for i := range rc {
					rc[i] = c13Z(m2.RCheck[i])
				}
				rep, err := c.m.Call("ot.mult_recv_check", sx.List(sx.Big(secpQ), sx.Big(chi0), sx.Big(chi1), sx.Bytes(choices),
					sx.List(res...), c13Zs(rc), sx.Big(c13Z(m2.UCheck))))
				if err != nil {
					c.c13ModelErr("ot.mult_recv_check", err, cs)
				} else {
					out.Pred = c13ResClass(rep)
					out.PredNote = "model check: " + out.Pred
					if out.Pred == "ok" {
						share := new(big.Int)
						for i := range sres {
							if i < len(gz) {
								share.Add(share, new(big.Int).Mul(c13Z(sres[i][0]), gz[i]))
							}
						}
						out.PredShare = share.Mod(share, secpQ)
					}
				}
			}
		}
	}
	stage = "receiver-round2"
	shareR, err := recv.Round2(m2)
	if err != nil {
		out.Outcome = "receiver-error"
		return
	}
	out.SR = c13Z(shareR)
	out.Outcome = "ok"
	return
}

func c13FieldClass(cs c13Case) string {
	if cs.Msg == "" {
		return "honest"
	}
	return cs.Msg + "." + c13PathClass(cs.Path) + "/" + c13OpClass(cs.Op)
}

// mulJudge runs and judges one multiplication; cs.Op of an honest case carries its lattice name.
func (e *c13Env) mulJudge(cs c13Case, shadow, deep bool) c13MulOut {
	c := e.c
	out := e.multiply(cs, shadow, deep)
	cs.Observed = out.Outcome
	alpha, beta := c13UnHex(cs.Alpha), c13UnHex(cs.Beta)
	fc := c13FieldClass(cs)
	if cs.Msg == "" {
		c.res.Case("multiply/"+cs.Op, fmt.Sprintf("%s/%s/%s/%d/%s", cs.Alpha, cs.Beta, cs.Nonce, cs.Seed, cs.Gamma), alpha.Sign() != 0 || beta.Sign() != 0)
	} else {
		c.res.Case("alter/"+fc, fmt.Sprintf("%s/%s/%s/%d/%s/%s/%s", cs.Alpha, cs.Beta, cs.Nonce, cs.Seed, cs.Msg, cs.Path, cs.Op), true)
	}
	short := c13Short(out.Outcome)
	if cs.Msg != "" {
		c13Outcome("multiply "+fc, short)
	}
	// correspondence of the receiver's Round2 with the prediction
	if out.Pred != "" && (short == "ok" || short == "receiver-error" || short == "receiver-round2-panic") {
		real := map[string]string{"ok": "ok", "receiver-error": "err", "receiver-round2-panic": "panic"}[short]
		agree := real == out.Pred && (real != "ok" || (out.PredShare != nil && out.PredShare.Cmp(out.SR) == 0))
		c.res.Corr(agree)
		if !agree {
			cs.Observed = fmt.Sprintf("go=%s model=%s (%s)", out.Outcome, out.Pred, out.PredNote)
			c.res.Violate("correspondence", "C13/multiply-round2-mismatch/"+fc, "MultiplyReceiver.Round2 differs from the model's check / share on the same additive result", cs)
			cs.Observed = out.Outcome
		}
	}
	switch {
	case short == "inapplicable":
		c.res.Note("alteration %s inapplicable: %s", fc, out.Outcome)
	case short == "ok":
		prod := new(big.Int).Mul(alpha, beta)
		prod.Mod(prod, secpQ)
		sum := new(big.Int).Add(out.SS, out.SR)
		sum.Mod(sum, secpQ)
		plain := sum.Cmp(prod) == 0
		rep, err := c.m.Call("ot.mult_check", sx.List(sx.Big(secpQ), sx.Big(alpha), sx.Big(beta), sx.Big(out.SS), sx.Big(out.SR)))
		if err != nil {
			c.c13ModelErr("ot.mult_check", err, cs)
			break
		}
		c.res.Corr(rep.AsBool() == plain)
		if rep.AsBool() != plain {
			c.res.Violate("correspondence", "C13/mult-check-oracles-disagree", "model checker and big.Int checker disagree on share_S + share_R = alpha*beta", cs)
		}
		if !rep.AsBool() || !plain {
			cs.Observed = fmt.Sprintf("share_S=%s share_R=%s sum=%s product=%s", c13Hex(out.SS), c13Hex(out.SR), c13Hex(sum), c13Hex(prod))
			if cs.Msg == "" {
				c.res.Violate("property", "C13/multiply-wrong-product/"+cs.Op, "honest multiplication: share_S + share_R != alpha*beta (mod q)", cs)
			} else {
				c.res.Violate("property", "C13/alter/"+fc+"/wrong-product", "altered message accepted and the shares do not add up to the product", cs)
			}
		}
	case cs.Msg == "":
		c.res.Violate("property", "C13/multiply-honest-"+short+"/"+cs.Op, "honest multiplication does not complete: "+out.Outcome, cs)
	case short == "sender-error" || short == "receiver-error":
		// error on the checking side
	default:
		c.res.Violate("property", "C13/alter/"+fc+"/"+short, "altered message is answered by a panic instead of an error: "+out.Outcome, cs)
	}
	return out
}

func (e *c13Env) multiplyAll(r *rand.Rand, s int) {
	c := e.c
	zs, zn := c13Lattice(r, c.thorough())
	gp, gn := c13Patterns(r, (256+2*c13StatParam+7)/8)
	nonce := 0
	mk := func(a, b int, k int) c13Case {
		nonce++
		cs := c13Case{What: "multiply", SetupSeed: e.setupSeed, Seed: r.Int63(), Nonce: fmt.Sprintf("%02x%04x", s, nonce),
			Alpha: c13Hex(zs[a]), Beta: c13Hex(zs[b]), Op: zn[a] + "*" + zn[b]}
		if k >= 0 {
			cs.Gamma = hex.EncodeToString(gp[k])
			cs.Op += "/gamma-" + gn[k]
		}
		return cs
	}
	n := 0
	for a := range zs {
		for b := range zs {
			if !c.thorough() && s > 0 && (a+b)%3 != s%3 {
				continue
			}
			cs := mk(a, b, -1)
			out := e.mulJudge(cs, n%4 == 0 || c.thorough(), n%16 == 0)
			if n < 3 && out.SS != nil && out.SR != nil {
				c.res.Sample(3, map[string]string{"alpha": cs.Alpha, "beta": cs.Beta, "share_S": c13Hex(out.SS), "share_R": c13Hex(out.SR), "outcome": out.Outcome})
			}
			n++
		}
	}
	// forced gamma (choice vectors all-0 for beta = 0 / gamma = 0, dense, alternating), forced second sender scalar
	for k := range gp {
		for _, b := range []int{0, 1, 3, len(zs) - 1} {
			if !c.thorough() && s > 0 && k != 0 {
				continue
			}
			e.mulJudge(mk(r.Intn(len(zs)), b, k), true, false)
		}
	}
	for _, a1 := range []*big.Int{big.NewInt(0), big.NewInt(1), new(big.Int).Sub(secpQ, big.NewInt(1))} {
		cs := mk(r.Intn(len(zs)), r.Intn(len(zs)), -1)
		cs.Alpha1 = c13Hex(a1)
		if a1.Sign() == 0 {
			cs.Alpha1 = "0"
		}
		cs.Op += "/alpha-hat-forced"
		e.mulJudge(cs, true, false)
	}
	// one setup, one base hash, distinct nonces -- and the same nonce twice (the two runs must both be correct)
	for k := 0; k < 3; k++ {
		cs := mk(len(zs)-1, len(zs)-1, -1)
		cs.Nonce = fmt.Sprintf("aa%02x", k/2)
		cs.Op = "random*random/nonce-reuse"
		e.mulJudge(cs, false, false)
	}
}

func (e *c13Env) alterAll(r *rand.Rand, s int) {
	c := e.c
	zs, _ := c13Lattice(r, false)
	alts := append(c13AltsS1(c.thorough()), c13AltsR1(c.thorough())...)
	for k, a := range alts {
		if !c.thorough() && s > 0 && k%4 != s%4 {
			continue
		}
		ai, bi := r.Intn(len(zs)), r.Intn(len(zs))
		if k%3 == 0 {
			ai, bi = len(zs)-1, len(zs)-1
		}
		cs := c13Case{What: "alter", SetupSeed: e.setupSeed, Seed: r.Int63(), Nonce: fmt.Sprintf("a%d", s),
			Alpha: c13Hex(zs[ai]), Beta: c13Hex(zs[bi]), Msg: a.Msg, Path: a.Path, Op: a.Op}
		deep := a.Msg == "S1" && strings.HasPrefix(a.Path, "Msg.CombinedPads") && (c.thorough() || k%3 == 0)
		e.mulJudge(cs, a.Msg == "S1", deep)
	}
}

// ---------------------------------------------------------------------------------------------
// replay

func c13ReplayRun(c *ctx, rd *c13Reader) {
	var cs c13Case
	if err := readJSON(c.replay, &cs); err != nil {
		c.res.Note("cannot read replay: %v", err)
		return
	}
	unhex := func(s string) []byte { b, _ := hex.DecodeString(s); return b }
	r := rand.New(rand.NewSource(1))
	var env *c13Env
	needEnv := map[string]bool{"corre": true, "extended": true, "additive": true, "multiply": true, "alter": true}
	if needEnv[cs.What] || (cs.What == "aliasing" && cs.Mode != "randomot") {
		env = c.c13NewEnv(rd, cs.SetupSeed)
		if env == nil {
			return
		}
	}
	cs.Observed = ""
	switch cs.What {
	case "bitat":
		c.c13BitAtCase(cs.I, unhex(cs.Data), "replay")
	case "transpose":
		c.c13TransposeCase(cs.L, unhex(cs.Data), "replay")
	case "accumulate":
		c.c13AccCase(unhex(cs.F), unhex(cs.A), unhex(cs.B), "replay")
	case "eq":
		c.c13EqCase(unhex(cs.F), unhex(cs.A), "replay")
	case "gadget":
		c.c13GadgetCase(unhex(cs.Nonce))
	case "encode":
		var noise []*big.Int
		d := unhex(cs.Data)
		for i := 0; i+32 <= len(d); i += 32 {
			noise = append(noise, new(big.Int).SetBytes(d[i:i+32]))
		}
		var nn []byte
		if cs.Nonce != "" {
			nn = unhex(cs.Nonce)
			noise = c13Noise(c13Hash(nn), cs.NoiseLen)
		}
		c.c13EncodeCase(rd, c13UnHex(cs.Beta), noise, nn, unhex(cs.Gamma), "replay")
	case "randomot":
		fmt.Println("replay outcome:", c.c13RandomOTJudge(rd, cs))
	case "setup":
		if cs.Msg == "" {
			c.c13NewEnv(rd, cs.SetupSeed)
		} else {
			fmt.Println("replay outcome:", c.c13SetupJudge(&c13Env{c: c, rd: rd}, cs))
		}
	case "corre":
		env.correCase(cs)
	case "extended":
		env.extendedCase(cs, true)
	case "additive":
		env.additiveCase(cs)
	case "concurrent":
		c.c13ConcReplay(rd, cs)
	case "aliasing":
		c.c13AliasReplay(rd, env, cs)
	case "multiply", "alter":
		out := env.mulJudge(cs, cs.Msg != "R1", true)
		fmt.Println("replay outcome:", out.Outcome, "prediction:", out.Pred, out.PredNote)
	default:
		c.res.Note("unknown replay kind %q", cs.What)
	}
	_ = r
}
