package main

// C09 -- abort notices (round-0 messages) of OTHER sessions.
//
// A round-0 message ends the session of whoever accepts it.  The cross-session replay of c09.go offers only what honest,
// completing sessions emit; nobody aborts there, so no round-0 message is ever replayed.  Here, for every protocol family
// and both handlers:
//   * sibling sessions of a victim session, each differing from it in exactly one parameter (session id, nil vs empty
//     session id, threshold, participant set, protocol variant, message, key material), in which a party ends with an error
//     -- Stop, or an undecodable message for its current round -- and so emits its abort notice; the peers that receive
//     that notice abort as well and emit theirs.  Every such notice is harvested.
//   * hand-made round-0 messages with every combination of right / wrong session tag, protocol id, sender, recipient, data.
// Every one of them is offered to EVERY party of the victim session at EVERY point of its run (before every delivery and
// after the end): CanAccept must be false, a forced Accept must leave the handler's state fingerprint unchanged and emit
// nothing, and the victim session must complete with the result of its undisturbed run.  Combinations that ARE a genuine
// notice of the victim session (everything right) are only probed with CanAccept.  Every CanAccept / Accept is recorded as
// an API event and the whole history of every victim node is replayed in the Coq handler model (hnd.run / tph.run).
//
// Sessions whose tags are EQUAL although they differ in a parameter the statement names are reported (`/same-tag`); for
// parameters outside the statement (FROST / Doerner key material, FROST message) they are only counted.

import (
	"bytes"
	"encoding/hex"
	"fmt"
	"math/rand"
	"os"
	"sort"
	"strings"
	"sync"
	"time"

	"github.com/taurusgroup/multi-party-sig/pkg/math/curve"
	"github.com/taurusgroup/multi-party-sig/pkg/party"
	"github.com/taurusgroup/multi-party-sig/pkg/pool"
	"github.com/taurusgroup/multi-party-sig/pkg/protocol"
	"github.com/taurusgroup/multi-party-sig/protocols/cmp"
	"github.com/taurusgroup/multi-party-sig/protocols/doerner"
	"github.com/taurusgroup/multi-party-sig/protocols/frost"

	"verifharness/sx"
)

// anPoolCur: the worker pool of the quick tier's CMP sessions (torn down at the end of c09AbortNotices)
var anPoolCur *pool.Pool

// anRefreshVsKeygenScoped: judge "FROST refresh vs FROST key generation, everything else equal" as a difference in the protocol
// (a parameter the statement names).  Off: the clean tree has equal tags there (see NOTES.md of H5), the case is counted and noted.
const anRefreshVsKeygenScoped = false

type anReplay struct {
	Family string `json:"protocol"`
	Diff   string `json:"difference,omitempty"`
	Policy string `json:"schedule"`
	Seed   int64  `json:"seed"`
}

// anSibling: a session differing from the victim in exactly one parameter.
type anSibling struct {
	diff   string
	scoped bool // the statement names this parameter: equal tags are a violation
	build  func(det *detReader) *Sim
}

type anFamily struct {
	name   string
	two    bool // TwoPartyHandler
	heavy  bool // CMP
	noRef  bool // pooled CMP session: no byte-identical reference run
	victim func(det *detReader) *Sim
	sibs   []anSibling
}

type anNotice struct {
	msg  *protocol.Message
	diff string
	how  string
}

// anFP: fingerprint of everything the verification snapshot of a handler shows; stored messages by their Message.Hash
// (which covers all eight fields).
var (
	anHashMu    sync.Mutex
	anHashCache = map[*protocol.Message][]byte{}
)

// anMsgHash: Message.Hash of a stored message, computed once per message object (the handler never modifies a stored message;
// CMP messages are tens of kilobytes and the fingerprint is taken after every offer)
func anMsgHash(m *protocol.Message) []byte {
	anHashMu.Lock()
	h, ok := anHashCache[m]
	anHashMu.Unlock()
	if ok {
		return h
	}
	h = m.Hash()
	anHashMu.Lock()
	anHashCache[m] = h
	anHashMu.Unlock()
	return h
}

func anFP(n *Node) string {
	var sb strings.Builder
	if n.MH != nil {
		st := n.MH.VerifState()
		fmt.Fprintf(&sb, "r%d/%d err=%v %q %v res=%v out=%d/%d;", st.Round, st.Final, st.HasErr, st.ErrText, st.Culprits, st.HasResult, st.OutLen, st.OutCap)
		var rs []int
		for _, r := range st.Rounds {
			rs = append(rs, int(r.Number))
		}
		sort.Ints(rs)
		fmt.Fprintf(&sb, "rounds=%v;", rs)
		q := func(tag string, m map[uint16]map[party.ID]*protocol.Message) {
			var ks []string
			for r, byID := range m {
				for id, msg := range byID {
					ks = append(ks, fmt.Sprintf("%s%d/%s=%x", tag, r, id, anMsgHash(msg)))
				}
			}
			sort.Strings(ks)
			sb.WriteString(strings.Join(ks, ","))
			sb.WriteString(";")
		}
		q("b", st.Broadcasts)
		q("p", st.Messages)
		var hs []string
		for r, d := range st.Hashes {
			hs = append(hs, fmt.Sprintf("h%d=%x", r, d))
		}
		sort.Strings(hs)
		sb.WriteString(strings.Join(hs, ","))
		return sb.String()
	}
	if n.TH != nil {
		return tpStateFP(n)
	}
	return ""
}

// anHarvest runs the sibling session once per (trigger, party): the party ends with an error (Stop / an undecodable message for
// its current round), the notices travel, every round-0 message emitted by anybody is collected.  Returns the notices and the
// sibling's session tag.
// heavy (CMP, where starting a handler costs a fifth of a second): ONE run of the sibling session: one party is given the
// undecodable message, another one is stopped before that party's notice reaches it, the third learns of both (rotating with `rot`).
func anHarvest(sib anSibling, two, heavy bool, rot int, seed int64) (out []anNotice, tag []byte, started bool) {
	seen := map[string]bool{}
	build := func() *Sim {
		d := newMuxDetReader(seed)
		defer muxEnter(d)()
		return sib.build(d)
	}
	probe := build()
	var labels []party.ID
	for l, n := range probe.Nodes {
		if n.H != nil {
			labels = append(labels, l)
		}
	}
	if len(labels) == 0 {
		return nil, nil, false
	}
	sort.Slice(labels, func(i, j int) bool { return labels[i] < labels[j] })
	type step struct {
		trig string
		x    party.ID
	}
	var scenarios [][]step
	if heavy {
		scenarios = [][]step{{{"invalid", labels[(rot+1)%len(labels)]}, {"stop", labels[rot%len(labels)]}}}
	} else {
		for _, trig := range []string{"stop", "invalid"} {
			for _, x := range labels {
				scenarios = append(scenarios, []step{{trig, x}})
			}
		}
	}
	for _, sc := range scenarios {
		s := probe
		if probe = nil; s == nil {
			s = build()
		}
		started = true
		for _, y := range s.Nodes {
			if tag == nil && len(y.Out) > 0 {
				tag = nonNil(y.Out[0].SSID)
			}
		}
		why := map[party.ID]string{}
		for _, st := range sc {
			x := st.x
			n := s.Nodes[x]
			if n == nil || n.H == nil {
				continue
			}
			why[x] = st.trig + ":" + string(x)
			switch st.trig {
			case "stop":
				if two {
					s.tpStop(x)
				} else {
					s.Stop(x)
				}
			case "invalid":
				// an undecodable payload in the place of a genuine message for x's current round
				var e *Env
				for _, f := range s.Flight {
					if f.To == x && f.Msg.RoundNumber > 0 && int(f.Msg.RoundNumber) == n.Obs[len(n.Obs)-1].Round {
						e = f
						break
					}
				}
				if e == nil {
					for _, f := range s.Flight {
						if f.To == x && f.Msg.RoundNumber > 0 {
							e = f
							break
						}
					}
				}
				if e == nil {
					continue
				}
				m := *e.Msg
				m.Data = []byte{0xff, 0x00, 0x13}
				bad := &Env{Msg: &m, To: x, Valid: false, Tag: "/garbage"}
				if two {
					s.tpDeliver(bad)
				} else {
					s.Deliver(bad)
				}
			}
		}
		// the notices travel: only round-0 envelopes are delivered
		for k := 0; k < 64; k++ {
			i := -1
			for j, f := range s.Flight {
				if f.Msg.RoundNumber == 0 {
					i = j
					break
				}
			}
			if i < 0 {
				break
			}
			e := s.take(i)
			if two {
				s.tpDeliver(e)
			} else {
				s.Deliver(e)
			}
		}
		var ls []string
		for l := range s.Nodes {
			ls = append(ls, string(l))
		}
		sort.Strings(ls)
		for _, l := range ls {
			for _, m := range s.Nodes[party.ID(l)].Out {
				if m.RoundNumber != 0 {
					continue
				}
				k := hex.EncodeToString(m.Hash())
				if seen[k] {
					continue
				}
				seen[k] = true
				how := why[m.From]
				if how == "" {
					how = "relayed-by:" + string(m.From) + " after " + sc[0].trig + ":" + string(sc[0].x)
				}
				out = append(out, anNotice{msg: m, diff: sib.diff, how: how})
			}
		}
	}
	return out, tag, started
}

// anCombo: one hand-made round-0 message for recipient `self`; expect = it is a genuine notice of the victim session.
type anCombo struct {
	name   string
	msg    *protocol.Message
	expect bool
}

func anCombos(ids party.IDSlice, self party.ID, tag, foreignTag []byte, proto string) []anCombo {
	// peer: a participant other than self (the right sender); other: a participant other than self, if possible not the peer
	var peer, other party.ID
	for i, id := range ids {
		if id == self {
			peer = ids[(i+1)%len(ids)]
			other = ids[(i+len(ids)-1)%len(ids)]
		}
	}
	type opt struct {
		name string
		ok   bool
	}
	var out []anCombo
	for _, ss := range []struct {
		opt
		v []byte
	}{{opt{"ok", true}, tag}, {opt{"foreign", false}, foreignTag}, {opt{"empty", false}, []byte{}}} {
		for _, pr := range []struct {
			opt
			v string
		}{{opt{"ok", true}, proto}, {opt{"other", false}, proto + "x"}} {
			for _, fr := range []struct {
				opt
				v party.ID
			}{{opt{"peer", true}, peer}, {opt{"unknown", false}, "zed"}, {opt{"self", false}, self}} {
				for _, to := range []struct {
					opt
					v party.ID
				}{{opt{"all", true}, ""}, {opt{"self", true}, self}, {opt{"other", false}, other}, {opt{"unknown", false}, "zed"}} {
					for _, da := range []struct {
						opt
						v []byte
					}{{opt{"text", true}, []byte("peer failed")}, {opt{"nil", false}, nil}} {
						m := &protocol.Message{SSID: append([]byte{}, ss.v...), Protocol: pr.v, From: fr.v, To: to.v, Data: da.v}
						exp := ss.ok && pr.ok && fr.ok && to.ok && da.ok
						out = append(out, anCombo{name: fmt.Sprintf("ssid=%s,proto=%s,from=%s,to=%s,data=%s", ss.name, pr.name, fr.name, to.name, da.name), msg: m, expect: exp})
					}
				}
			}
		}
	}
	return out
}

type anViol struct {
	kind, key, desc string
	rp              c09Replay
}

type anOut struct {
	fam       *anFamily
	pol       string
	seed      int64
	viols     []anViol
	notes     []string
	cases     map[string]int // class -> count
	fps       []string       // one fingerprint per (class) for distinctness
	sim, ref  *Sim           // victim run, reference run
	offered   int
	notices   int
	samples   []interface{}
	harvested []string // notices per sibling
	secs      float64
	t0        time.Time
	laps      []string
}

func (o *anOut) lap(what string) {
	if os.Getenv("C09_TIMING") != "" {
		o.laps = append(o.laps, fmt.Sprintf("%s %.1fs", what, time.Since(o.t0).Seconds()))
	}
}

// anExec: one family under one schedule. No access to the shared result (runs on its own goroutine, own deterministic reader).
func anExec(fam *anFamily, pol string, seed int64, onlyDiff string) *anOut {
	o := &anOut{fam: fam, pol: pol, seed: seed, cases: map[string]int{}, t0: time.Now()}
	det := newMuxDetReader(seed)
	defer muxEnter(det)()
	violate := func(key, desc, diff, detail string) {
		o.viols = append(o.viols, anViol{"property", key, desc, c09Replay{What: "abort notice of another session", A: fam.name, B: diff, Detail: detail,
			AN: &anReplay{Family: fam.name, Diff: diff, Policy: pol, Seed: seed}}})
	}
	// the victim session (its handlers are created now: the session tag is read off their first messages)
	b := fam.victim(det)
	o.sim = b
	var tag []byte
	proto := ""
	var labels []party.ID
	for l, n := range b.Nodes {
		if n.H == nil {
			o.notes = append(o.notes, fmt.Sprintf("C09 abort notices: victim session %s did not start: %v", fam.name, n.StartErr))
			o.sim = nil
			return o
		}
		labels = append(labels, l)
	}
	sort.Slice(labels, func(i, j int) bool { return labels[i] < labels[j] })
	for _, l := range labels {
		n := b.Nodes[l]
		if fam.two {
			tpNote(n)
		} else if len(n.Obs) > 0 {
			anDrained(n, n.Obs[0])
		}
		if tag == nil && len(n.Out) > 0 {
			tag, proto = nonNil(n.Out[0].SSID), n.Out[0].Protocol
		}
	}
	if tag == nil {
		o.notes = append(o.notes, fmt.Sprintf("C09 abort notices: victim session %s emitted nothing at start", fam.name))
		o.sim = nil
		return o
	}
	// undisturbed reference run of the victim (same seed, same per-party random streams); not for the pooled CMP sessions of the
	// quick tier, whose proofs draw from the OS reader: there the victim must complete, and the shape is learned from the victim run
	var refRes map[party.ID]string
	if !fam.noRef {
		refDet := newMuxDetReader(seed)
		leaveRef := muxEnter(refDet)
		ref := fam.victim(refDet)
		if fam.two {
			for _, n := range ref.Nodes {
				tpNote(n)
			}
			for k := 0; len(ref.Flight) > 0 && k < 1000; k++ {
				ref.tpDeliver(ref.take(0))
			}
		} else {
			ref.RunFIFO(200000)
		}
		leaveRef()
		o.lap("reference run")
		o.ref = ref
		refRes = map[party.ID]string{}
		for id, n := range ref.Nodes {
			r, e := resultOf(n)
			refRes[id] = resultFP(r) + e
			if r == nil {
				o.notes = append(o.notes, fmt.Sprintf("C09 abort notices: undisturbed %s session did not complete at %s: %s", fam.name, id, e))
				o.sim = nil
				return o
			}
		}
	}
	// harvest (the siblings of a CMP family in parallel: each on its own goroutine with its own deterministic reader)
	var notices []anNotice
	var foreignTag []byte
	type harv struct {
		ns      []anNotice
		tag     []byte
		started bool
	}
	hs := make([]harv, len(fam.sibs))
	var hwg sync.WaitGroup
	for si, sib := range fam.sibs {
		run := func(si int, sib anSibling) {
			defer hwg.Done()
			defer func() {
				if r := recover(); r != nil {
					hs[si] = harv{}
				}
			}()
			hs[si].ns, hs[si].tag, hs[si].started = anHarvest(sib, fam.two, fam.heavy, si, seed+7)
		}
		hwg.Add(1)
		if fam.heavy {
			go run(si, sib)
		} else {
			run(si, sib)
		}
	}
	hwg.Wait()
	for si, sib := range fam.sibs {
		ns, stag, started := hs[si].ns, hs[si].tag, hs[si].started
		class := "abort-notice/" + fam.name + "/" + sib.diff
		switch {
		case !started || stag == nil:
			o.cases[class+"/sibling-refused-by-start"]++
			continue
		case bytes.Equal(stag, tag):
			if sib.scoped {
				o.cases[class+"/same-tag"]++
				violate(fmt.Sprintf("C09/abort-notice/%s/%s/same-tag", fam.name, sib.diff), fmt.Sprintf("two %s sessions differing in %s have the same session tag", fam.name, sib.diff), sib.diff, fmt.Sprintf("tag %x", tag))
			} else {
				o.cases[class+"/same-tag(outside-the-statement)"]++
				if pol == "fifo" {
					o.notes = append(o.notes, fmt.Sprintf("C09 abort notices: %s sessions differing in %s have the SAME session tag (a parameter the statement does not name: counted, not judged; their messages, notices included, are indistinguishable from the session's own)", fam.name, sib.diff))
				}
			}
			continue
		}
		if foreignTag == nil {
			foreignTag = stag
		}
		if onlyDiff != "" && sib.diff != onlyDiff {
			continue
		}
		o.harvested = append(o.harvested, fmt.Sprintf("%s=%d", sib.diff, len(ns)))
		notices = append(notices, ns...)
	}
	if foreignTag == nil {
		foreignTag = append([]byte{0x55}, tag...)
	}
	o.notices = len(notices)
	o.lap("harvest")
	if len(notices) > 0 {
		n0 := notices[0]
		o.samples = append(o.samples, map[string]string{"protocol": fam.name, "difference": n0.diff, "notice": n0.how, "from": string(n0.msg.From), "text": string(n0.msg.Data), "tag": hex.EncodeToString(n0.msg.SSID), "victim_tag": hex.EncodeToString(tag)})
	}
	// the victim run
	rng := rand.New(rand.NewSource(seed))
	combos := map[party.ID][]anCombo{}
	for _, l := range labels {
		combos[l] = anCombos(b.IDs, l, tag, foreignTag, proto)
	}
	dead := map[string]bool{}
	stop := false
	canAccept := func(n *Node, m *protocol.Message) bool {
		if fam.two {
			return b.tpCanAccept(n.Label, m, true)
		}
		return b.CanAccept(n.Label, m, true)
	}
	force := func(n *Node, m *protocol.Message, tagS string) Obs {
		e := &Env{Msg: m, To: n.Label, Valid: true, Tag: tagS}
		if fam.two {
			return b.tpDeliver(e)
		}
		return b.Deliver(e)
	}
	// offer m (which must be refused) to n; returns a description of what went wrong
	offer := func(n *Node, m *protocol.Message, fpBefore *string) string {
		o.offered++
		can := canAccept(n, m)
		ob := force(n, m, "/foreign-notice")
		after := anFP(n)
		changed := after != *fpBefore
		*fpBefore = after
		if can || changed || len(ob.NewOut) > 0 || ob.Panic != "" || ob.Hung {
			return fmt.Sprintf("CanAccept=%v, state changed=%v, emitted=%d, panic=%q, blocked=%v; handler now: round %d, error %q", can, changed, len(ob.NewOut), ob.Panic, ob.Hung, ob.Round, ob.ErrText)
		}
		return ""
	}
	point := 0
	// next: the recipient of the delivery that follows this point ("" after the end)
	offerAll := func(next party.ID) {
		point++
		for _, l := range labels {
			n := b.Nodes[l]
			fp := anFP(n)
			for _, nt := range notices {
				if dead[nt.diff] || stop {
					continue
				}
				o.cases["abort-notice/"+fam.name+"/"+nt.diff+"/offered"]++
				if bad := offer(n, nt.msg, &fp); bad != "" {
					dead[nt.diff] = true
					violate(fmt.Sprintf("C09/abort-notice/%s/%s/accepted", fam.name, nt.diff),
						fmt.Sprintf("the abort notice of a %s session differing in %s is not ignored by a running session (%s)", fam.name, nt.diff, bad), nt.diff,
						fmt.Sprintf("notice of %s (%s; text %.60q; tag %x) offered to %s at point %d of the victim run (victim tag %x): %s", nt.msg.From, nt.how, nt.msg.Data, nt.msg.SSID, l, point, tag, bad))
					if r, _ := resultOf(n); r == nil && strings.Contains(bad, "state changed=true") {
						stop = true
					}
				}
			}
			for _, cb := range combos[l] {
				if stop || (fam.heavy && next != "" && next != l) {
					break // CMP: the hand-made messages go to the recipient of the next delivery only (and to everybody after the end)
				}
				o.cases["abort-notice/"+fam.name+"/handmade/offered"]++
				if cb.expect {
					// a genuine notice of this session: only probed (the model replay checks the answer)
					o.offered++
					canAccept(n, cb.msg)
					continue
				}
				if dead["handmade/"+cb.name] {
					continue
				}
				if bad := offer(n, cb.msg, &fp); bad != "" {
					dead["handmade/"+cb.name] = true
					violate(fmt.Sprintf("C09/abort-notice/%s/handmade/%s", fam.name, cb.name),
						fmt.Sprintf("a round-0 message that is not a notice of this %s session (%s) is not ignored (%s)", fam.name, cb.name, bad), "handmade/"+cb.name,
						fmt.Sprintf("hand-made round-0 message {%s} (from %q to %q) offered to %s at point %d: %s", cb.name, cb.msg.From, cb.msg.To, l, point, bad))
					if r, _ := resultOf(n); r == nil && strings.Contains(bad, "state changed=true") {
						stop = true
					}
				}
			}
		}
	}
	for steps := 0; len(b.Flight) > 0 && steps < 20000 && !stop; steps++ {
		i := 0
		switch pol {
		case "lifo":
			i = len(b.Flight) - 1
		case "random":
			i = rng.Intn(len(b.Flight))
		}
		offerAll(b.Flight[i].To)
		if stop {
			break
		}
		e := b.take(i)
		if fam.two {
			b.tpDeliver(e)
		} else {
			ob := b.Deliver(e)
			anDrained(b.Nodes[e.To], ob)
		}
	}
	if !stop {
		offerAll("")
	}
	o.lap("victim run")
	if !stop {
		for _, l := range labels {
			r, e := resultOf(b.Nodes[l])
			if refRes == nil {
				if r == nil {
					violate(fmt.Sprintf("C09/abort-notice/%s/result", fam.name), fmt.Sprintf("a %s session that was offered abort notices of other sessions did not complete", fam.name), "", fmt.Sprintf("%s: %.120s", l, e))
					break
				}
				continue
			}
			if got := resultFP(r) + e; got != refRes[l] {
				violate(fmt.Sprintf("C09/abort-notice/%s/result", fam.name), fmt.Sprintf("a %s session that was offered abort notices of other sessions did not end like its undisturbed run", fam.name), "",
					fmt.Sprintf("%s: %.120s instead of %.120s", l, got, refRes[l]))
				break
			}
		}
	}
	return o
}

// anDrained tells the model that the user has read the k messages the last call put on Listen() (Sim.call reads the channel
// while the call runs): event (2 k), whose observation is the previous one without new output.  Without it the model's
// channel fills up in sessions that emit more than 2n messages in all (CMP).
func anDrained(n *Node, ob Obs) {
	if n == nil || n.MH == nil || len(ob.NewOut) == 0 || ob.Hung {
		return
	}
	n.Events = append(n.Events, sx.List(sx.Int(2), sx.Int(int64(len(ob.NewOut)))))
	o := ob
	o.NewOut, o.Extra = nil, 0
	n.Obs = append(n.Obs, o)
}

// anReport: counters, violations and the model replay of the victim run (main goroutine).
func (c *ctx) anReport(o *anOut) {
	for _, n := range o.notes {
		c.res.Note("%s", n)
	}
	var ks []string
	for k := range o.cases {
		ks = append(ks, k)
	}
	sort.Strings(ks)
	for _, k := range ks {
		for i := 0; i < o.cases[k]; i++ {
			c.res.Case(k, fmt.Sprintf("%s/%s/%d/%d", k, o.pol, o.seed, i), strings.HasSuffix(k, "/offered"))
		}
	}
	for _, s := range o.samples {
		c.res.Sample(8, s)
	}
	for _, v := range o.viols {
		c.res.Violate(v.kind, v.key, v.desc, v.rp)
	}
	if o.sim == nil {
		return
	}
	ref := o.ref
	if ref == nil {
		ref = o.sim // pooled CMP session: the victim run itself completed (or the result oracle has fired)
	}
	rp := c09Replay{What: "abort notices: model replay of the victim run", A: o.fam.name, AN: &anReplay{Family: o.fam.name, Policy: o.pol, Seed: o.seed}}
	var labels []party.ID
	for l := range o.sim.Nodes {
		labels = append(labels, l)
	}
	sort.Slice(labels, func(i, j int) bool { return labels[i] < labels[j] })
	var sh shapeInfo
	if !o.fam.two {
		sh = ref.learnShape()
	}
	for _, l := range labels {
		n := o.sim.Nodes[l]
		var i int
		var mo, ro string
		var err error
		if o.fam.two {
			var tsh tpShape
			tsh, err = learnTwoPartyShape(ref, ref.Nodes[l])
			if err == nil {
				i, mo, ro, err = c.CompareTwoPartyWithModel(o.sim, n, tsh, true, true)
			}
		} else {
			i, mo, ro, err = c.CompareWithModel(o.sim, n, sh, true)
		}
		if err != nil {
			c.res.Corr(false)
			c.res.Violate("correspondence", "C09/abort-notice/model-error", err.Error(), rp)
			continue
		}
		c.res.Corr(i < 0)
		if i >= 0 {
			rp.Detail = fmt.Sprintf("node %s event %d: model %s, handler %s", l, i, mo, ro)
			c.res.Violate("correspondence", "C09/abort-notice/handler-model/"+o.fam.name, "handler state differs from the Coq model after an event of the victim run (foreign round-0 messages offered at every point)", rp)
		}
	}
}

// ---------------------------------------------------------------------------------------------
// families

func anMulti(sp SessionSpec) func(det *detReader) *Sim {
	return func(det *detReader) *Sim { return sp.build(rand.New(rand.NewSource(3)), det) }
}

func (c *ctx) anFamilies() []*anFamily {
	g := curve.Secp256k1{}
	ids := idsOf("alice", "bob", "carl")
	ids4 := idsOf("alice", "bob", "carl", "dave")
	ids2 := idsOf("alice", "bob")
	var fams []*anFamily
	sid, sid2 := []byte("an-1"), []byte("an-2")

	// ---- example/xor ----
	fams = append(fams,
		&anFamily{name: "xor", victim: anMulti(specXOR(ids, sid)), sibs: []anSibling{
			{"session-id", true, anMulti(specXOR(ids, sid2))},
			{"session-id-absent", true, anMulti(specXOR(ids, nil))},
			{"participants+1", true, anMulti(specXOR(ids4, sid))},
			{"participants-1", true, anMulti(specXOR(ids2, sid))},
		}},
		&anFamily{name: "xor-nil-session-id", victim: anMulti(specXOR(ids, nil)), sibs: []anSibling{
			{"session-id-nil-vs-empty", true, anMulti(specXOR(ids, []byte{}))},
			{"session-id", true, anMulti(specXOR(ids, sid))},
		}})

	// ---- FROST ----
	fams = append(fams,
		&anFamily{name: "frost-keygen", victim: anMulti(specFrostKeygen(ids, 1, false, sid)), sibs: []anSibling{
			{"session-id", true, anMulti(specFrostKeygen(ids, 1, false, sid2))},
			{"threshold", true, anMulti(specFrostKeygen(ids, 2, false, sid))},
			{"participants+1", true, anMulti(specFrostKeygen(ids4, 1, false, sid))},
			{"variant-taproot", true, anMulti(specFrostKeygen(ids, 1, true, sid))},
		}},
		&anFamily{name: "taproot-frost-keygen", victim: anMulti(specFrostKeygen(ids, 1, true, sid)), sibs: []anSibling{
			{"session-id", true, anMulti(specFrostKeygen(ids, 1, true, sid2))},
			{"variant-plain", true, anMulti(specFrostKeygen(ids, 1, false, sid))},
		}})
	// key material: two independent key generations (A: the victim's, B: "other key material"), plain and taproot
	frostCfgs := func(tap bool, seed int64) (map[party.ID][]byte, bool) {
		det := installDetReader(seed, 0)
		defer restoreRandReader()
		kg := specFrostKeygen(ids, 1, tap, []byte("an-kg")).build(rand.New(rand.NewSource(1)), det)
		kg.RunFIFO(10000)
		raw := map[party.ID][]byte{}
		for id, n := range kg.Nodes {
			if r, _ := resultOf(n); r != nil {
				raw[id] = kmFreeze(r)
			}
		}
		return raw, len(raw) == len(ids)
	}
	msg, msg2 := []byte("abort-notice message"), []byte("another message")
	rawA, okA := frostCfgs(false, 901)
	rawB, okB := frostCfgs(false, 902)
	if okA && okB {
		thaw := func(raw map[party.ID][]byte, thr int) map[party.ID]*frost.Config {
			out := map[party.ID]*frost.Config{}
			for id, b := range raw {
				cf := kmThaw(b, frost.EmptyConfig(g)).(*frost.Config)
				if thr >= 0 {
					cf.Threshold = thr
				}
				out[id] = cf
			}
			return out
		}
		sign := func(raw map[party.ID][]byte, thr int, signers []party.ID, m, s []byte) func(det *detReader) *Sim {
			return func(det *detReader) *Sim {
				return specFrostSign(thaw(raw, thr), signers, m, s).build(rand.New(rand.NewSource(3)), det)
			}
		}
		refresh := func(raw map[party.ID][]byte, thr int, s []byte) func(det *detReader) *Sim {
			return func(det *detReader) *Sim {
				cfgs := thaw(raw, thr)
				sp := SessionSpec{Name: "frost-refresh", IDs: ids, SessionID: s, Start: func(id party.ID) protocol.StartFunc { return frost.Refresh(cfgs[id], ids) }}
				return sp.build(rand.New(rand.NewSource(3)), det)
			}
		}
		fams = append(fams,
			&anFamily{name: "frost-sign", victim: sign(rawA, -1, ids, msg, sid), sibs: []anSibling{
				{"session-id", true, sign(rawA, -1, ids, msg, sid2)},
				{"signers-1", true, sign(rawA, -1, ids2, msg, sid)},
				{"threshold", true, sign(rawA, 2, ids, msg, sid)},
				{"message", false, sign(rawA, -1, ids, msg2, sid)},
				{"key-material", false, sign(rawB, -1, ids, msg, sid)},
			}},
			&anFamily{name: "frost-refresh", victim: refresh(rawA, -1, sid), sibs: []anSibling{
				{"session-id", true, refresh(rawA, -1, sid2)},
				{"threshold", true, refresh(rawA, 2, sid)},
				{"key-material", false, refresh(rawB, -1, sid)},
				// FROST refresh runs under the protocol id of FROST key generation and puts nothing of the config but the threshold into
				// the tag: a key generation with the same session id, parties and threshold has the same tag (reported in work/H5/NOTES.md;
				// set anRefreshVsKeygenScoped to make it a violation: key C09/abort-notice/frost-refresh/variant-keygen/same-tag)
				{"variant-keygen", anRefreshVsKeygenScoped, anMulti(specFrostKeygen(ids, 1, false, sid))},
			}})
	} else {
		c.res.Note("C09 abort notices: FROST key generation did not complete: frost-sign / frost-refresh skipped")
	}
	if rawT, okT := frostCfgs(true, 903); okT {
		signT := func(signers []party.ID, m, s []byte) func(det *detReader) *Sim {
			return func(det *detReader) *Sim {
				cfgs := map[party.ID]*frost.TaprootConfig{}
				for id, b := range rawT {
					cfgs[id] = kmThaw(b, &frost.TaprootConfig{}).(*frost.TaprootConfig)
				}
				return specFrostSignTaproot(cfgs, signers, m, s).build(rand.New(rand.NewSource(3)), det)
			}
		}
		fams = append(fams, &anFamily{name: "taproot-frost-sign", victim: signT(ids, msg, sid), sibs: []anSibling{
			{"session-id", true, signT(ids, msg, sid2)},
			{"signers-1", true, signT(ids2, msg, sid)},
		}})
	}

	// ---- Doerner (TwoPartyHandler) ----
	dids := idsOf("recv", "send")
	dkg := func(r, s party.ID, sd []byte) func(det *detReader) *Sim {
		return func(det *detReader) *Sim {
			return twoPartySim([]party.ID{r, s}, det, doerner.Keygen(g, true, r, s, nil), doerner.Keygen(g, false, s, r, nil), sd, true, false)
		}
	}
	dmat := func(seed int64) (rawR, rawS []byte, ok bool) {
		det := installDetReader(seed, 0)
		defer restoreRandReader()
		kg := dkg(dids[0], dids[1], []byte("an-kg"))(det)
		kg.RunFIFO(1000)
		rr, _ := resultOf(kg.Nodes[dids[0]])
		rs, _ := resultOf(kg.Nodes[dids[1]])
		if rr == nil || rs == nil {
			return nil, nil, false
		}
		return kmFreeze(rr), kmFreeze(rs), true
	}
	rawR, rawS, okD := dmat(911)
	rawR2, rawS2, okD2 := dmat(912)
	hash1, hash2 := bytes.Repeat([]byte{7}, 32), bytes.Repeat([]byte{8}, 32)
	dsign := func(rr, rs []byte, h, sd []byte) func(det *detReader) *Sim {
		return func(det *detReader) *Sim {
			cr := kmThaw(rr, doerner.EmptyConfigReceiver(g)).(*doerner.ConfigReceiver)
			cs := kmThaw(rs, doerner.EmptyConfigSender(g)).(*doerner.ConfigSender)
			return twoPartySim(dids, det, doerner.SignReceiver(cr, dids[0], dids[1], h, nil), doerner.SignSender(cs, dids[1], dids[0], h, nil), sd, true, true)
		}
	}
	kgSibs := []anSibling{
		{"session-id", true, dkg(dids[0], dids[1], sid2)},
		{"session-id-absent", true, dkg(dids[0], dids[1], nil)},
		{"roles-swapped", false, dkg(dids[1], dids[0], sid)}, // the roles are not a parameter the statement names
	}
	if okD {
		kgSibs = append(kgSibs, anSibling{"variant-sign", true, dsign(rawR, rawS, hash1, sid)})
	}
	fams = append(fams, &anFamily{name: "doerner-keygen", two: true, victim: dkg(dids[0], dids[1], sid), sibs: kgSibs})
	if okD && okD2 {
		fams = append(fams, &anFamily{name: "doerner-sign", two: true, victim: dsign(rawR, rawS, hash1, sid), sibs: []anSibling{
			{"session-id", true, dsign(rawR, rawS, hash1, sid2)},
			{"message", false, dsign(rawR, rawS, hash2, sid)},
			{"key-material", false, dsign(rawR2, rawS2, hash1, sid)},
			{"variant-keygen", true, dkg(dids[0], dids[1], sid)},
		}})
	} else {
		c.res.Note("C09 abort notices: Doerner key generation did not complete: doerner-sign skipped")
	}

	// ---- CMP ----
	raw, err := c09CMPKeygenRaw(c.res.Seed*7919 + 90)
	if err != nil {
		c.res.Note("C09 abort notices: CMP key generation did not complete (%v): CMP families skipped", err)
		return fams
	}
	cthaw := func(mut func(*cmp.Config)) map[party.ID]*cmp.Config {
		out := map[party.ID]*cmp.Config{}
		for id, b := range raw {
			cf := kmThaw(b, cmp.EmptyConfig(g)).(*cmp.Config)
			if mut != nil {
				mut(cf)
			}
			out[id] = cf
		}
		return out
	}
	otherChain := func(cf *cmp.Config) { cf.ChainKey = kmFlipBytes(cf.ChainKey) }
	thr2 := func(cf *cmp.Config) { cf.Threshold = 2 }
	h32, h32b := bytes.Repeat([]byte{9}, 32), bytes.Repeat([]byte{10}, 32)
	// quick tier: the CMP sessions get a worker pool (their proofs then draw from the OS reader: no byte-identical reference run,
	// the victim must complete); thorough tier: no pool, reference run, result compared
	var pl *pool.Pool
	if !c.thorough() {
		pl = pool.NewPool(8)
		anPoolCur = pl
	}
	csign := func(mut func(*cmp.Config), signers []party.ID, h, s []byte, pl *pool.Pool) func(det *detReader) *Sim {
		return func(det *detReader) *Sim {
			cfgs := cthaw(mut)
			sp := SessionSpec{Name: "cmp-sign", IDs: signers, SessionID: s, Start: func(id party.ID) protocol.StartFunc { return cmp.Sign(cfgs[id], signers, h, pl) }}
			return sp.build(rand.New(rand.NewSource(3)), det)
		}
	}
	// quick tier: two of the three share holders sign (a CMP signing session of three costs 8 s); thorough tier: all three
	signers, fewer, diffName := ids2, ids, "signers+1"
	if c.thorough() {
		signers, fewer, diffName = ids, ids2, "signers-1"
	}
	fams = append(fams, &anFamily{name: "cmp-sign", heavy: true, noRef: pl != nil, victim: csign(nil, signers, h32, sid, pl), sibs: []anSibling{
		{"session-id", true, csign(nil, signers, h32, sid2, nil)},
		{diffName, true, csign(nil, fewer, h32, sid, nil)},
		{"message", true, csign(nil, signers, h32b, sid, nil)},
		{"key-material", true, csign(otherChain, signers, h32, sid, nil)},
		{"threshold", true, csign(thr2, signers, h32, sid, nil)},
	}})
	if c.thorough() {
		ckg := func(pids []party.ID, t int, s []byte) func(det *detReader) *Sim {
			return func(det *detReader) *Sim {
				sp := SessionSpec{Name: "cmp-keygen", IDs: pids, SessionID: s, Start: func(id party.ID) protocol.StartFunc { return cmp.Keygen(g, id, pids, t, nil) }}
				return sp.build(rand.New(rand.NewSource(3)), det)
			}
		}
		cpre := func(mut func(*cmp.Config), signers []party.ID, s []byte) func(det *detReader) *Sim {
			return func(det *detReader) *Sim {
				cfgs := cthaw(mut)
				sp := SessionSpec{Name: "cmp-presign", IDs: signers, SessionID: s, Start: func(id party.ID) protocol.StartFunc { return cmp.Presign(cfgs[id], signers, nil) }}
				return sp.build(rand.New(rand.NewSource(3)), det)
			}
		}
		cref := func(mut func(*cmp.Config), s []byte) func(det *detReader) *Sim {
			return func(det *detReader) *Sim {
				cfgs := cthaw(mut)
				sp := SessionSpec{Name: "cmp-refresh", IDs: ids, SessionID: s, Start: func(id party.ID) protocol.StartFunc { return cmp.Refresh(cfgs[id], nil) }}
				return sp.build(rand.New(rand.NewSource(3)), det)
			}
		}
		fams = append(fams,
			&anFamily{name: "cmp-keygen", heavy: true, victim: ckg(ids, 1, sid), sibs: []anSibling{
				{"session-id", true, ckg(ids, 1, sid2)},
				{"threshold", true, ckg(ids, 2, sid)},
				{"participants+1", true, ckg(ids4, 1, sid)},
			}},
			&anFamily{name: "cmp-presign", heavy: true, victim: cpre(nil, ids, sid), sibs: []anSibling{
				{"session-id", true, cpre(nil, ids, sid2)},
				{"signers-1", true, cpre(nil, ids2, sid)},
				{"key-material", true, cpre(otherChain, ids, sid)},
			}},
			&anFamily{name: "cmp-refresh", heavy: true, victim: cref(nil, sid), sibs: []anSibling{
				{"session-id", true, cref(nil, sid2)},
				{"key-material", true, cref(otherChain, sid)},
			}})
	}
	return fams
}

// c09AbortNotices: called from c09Replay; with only != nil just that family / schedule / seed.
func (c *ctx) c09AbortNotices(only *anReplay) {
	c.res.Rule += "; abort notices: for xor, FROST keygen / sign / refresh (+taproot), CMP sign (thorough: keygen, presign, refresh) and Doerner keygen / sign (two-party handler), " +
		"sibling sessions differing in one parameter in which a party is stopped or given an undecodable message, all emitted round-0 messages and hand-made round-0 messages " +
		"(tag x protocol x sender x recipient x data) offered to every party at every point of the victim run: refused, state unchanged, undisturbed result; victim histories replayed in the Coq handler models"
	usePrimeCache()
	fams := c.anFamilies()
	defer func() {
		if anPoolCur != nil {
			anPoolCur.TearDown()
			anPoolCur = nil
		}
	}()
	usePrimeCacheByParty(idsOf("alice", "bob", "carl"))
	defer usePrimeCache()
	installMux()
	defer restoreRandReader()
	type job struct {
		fam  *anFamily
		pol  string
		seed int64
	}
	var jobs []job
	for fi, f := range fams {
		if only != nil {
			if only.Family == f.name {
				jobs = append(jobs, job{f, only.Policy, only.Seed})
			}
			continue
		}
		pols := []string{"fifo"}
		if c.thorough() {
			pols = []string{"fifo", "lifo", "random"}
		} else if !strings.HasPrefix(f.name, "cmp") {
			pols = append(pols, []string{"lifo", "random"}[fi%2])
		}
		for pi, p := range pols {
			jobs = append(jobs, job{f, p, c.res.Seed*6007 + int64(fi*10+pi)})
		}
	}
	outs := make([]*anOut, len(jobs))
	var wg sync.WaitGroup
	sem := make(chan struct{}, 12)
	for i := range jobs {
		wg.Add(1)
		sem <- struct{}{}
		go func(i int) {
			defer wg.Done()
			defer func() { <-sem }()
			defer func() {
				if r := recover(); r != nil {
					outs[i] = &anOut{fam: jobs[i].fam, pol: jobs[i].pol, seed: jobs[i].seed, cases: map[string]int{},
						notes: []string{fmt.Sprintf("C09 abort notices: PANIC in the harness (%s): %v", jobs[i].fam.name, r)}}
				}
			}()
			diff := ""
			if only != nil {
				diff = only.Diff
				if strings.HasPrefix(diff, "handmade/") {
					diff = ""
				}
			}
			t0 := time.Now()
			outs[i] = anExec(jobs[i].fam, jobs[i].pol, jobs[i].seed, diff)
			outs[i].secs = time.Since(t0).Seconds()
		}(i)
	}
	wg.Wait()
	for _, o := range outs {
		t0 := time.Now()
		c.anReport(o)
		if os.Getenv("C09_TIMING") != "" {
			fmt.Fprintf(os.Stderr, "C09 abort notices: %-24s %-7s exec %.1fs report %.1fs offers %d %v\n", o.fam.name, o.pol, o.secs, time.Since(t0).Seconds(), o.offered, o.laps)
		}
		c.res.Note("C09 abort notices: %s (%s): %d notices of sibling sessions %v, %d offers", o.fam.name, o.pol, o.notices, o.harvested, o.offered)
	}
}
