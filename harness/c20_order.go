package main

// C20 -- the participant list is a SET: the parties of ONE session may list the same participants in different orders.
//
// Every public start function that takes a list (key generation: participants; signing / presigning: signers; FROST refresh:
// participants -- the table of c20.go, families "keygen", "sign", "refresh") is started by every party of one session with the
// SAME set, but each party passes its own ordering of it: the first party the sorted list, party i a rotation by i / the reversed
// list / a seeded permutation / only the last party deviates.  All parameters are valid (the oracle of the lattice calls
// "ids-unsorted" / "signers-unsorted" valid, and NewMultiHandler returns a handler for them), so
//   * every party must get a handler,
//   * the session tags (SSID of the first message each party emits) must be equal -- for the key generation family they are also
//     compared byte-exactly with the model's tag (sess.new) of the list as that party wrote it,
//   * with in-order delivery every party must finish with a result, and the results must be a valid outcome
//     (c20JudgeResults: one consistent sharing / the same group key / signatures verified by the reference).
// A session in which somebody has no result although no message is in flight any more is `stalled`: every party waits forever.
//
// Keys: C20/<fn>/participants-order/{refused,different-ssid,stalled,aborted,crashed,invalid-result}; replay = (fn, n, per-party orders, seed).

import (
	"bytes"
	"encoding/hex"
	"fmt"
	"math/rand"
	"sort"
	"strings"
	"time"

	"github.com/taurusgroup/multi-party-sig/pkg/math/curve"
	"github.com/taurusgroup/multi-party-sig/pkg/party"
	"github.com/taurusgroup/multi-party-sig/pkg/protocol"
)

type c20OrderCase struct {
	Fn      string              `json:"fn"`
	N       int                 `json:"n"`
	Variant string              `json:"variant"`
	Orders  map[string][]string `json:"orders"` // party -> the list as that party passes it to the start function
	Seed    int64               `json:"seed"`
	Tags    map[string]string   `json:"ssid_prefix_by_party,omitempty"`
	Outcome string              `json:"outcome,omitempty"`
}

type c20OrderReplay struct {
	What string        `json:"what"`
	PO   *c20OrderCase `json:"participants_order,omitempty"`
}

// c20OrderVariants: per-party orderings of the sorted set (first party: sorted). Deduplicated (n=2 has one non-trivial ordering).
func c20OrderVariants(set []party.ID, seed int64) (names []string, out []map[party.ID][]party.ID) {
	n := len(set)
	cp := func() []party.ID { return append([]party.ID{}, set...) }
	rev := func() []party.ID {
		o := cp()
		for i, j := 0, n-1; i < j; i, j = i+1, j-1 {
			o[i], o[j] = o[j], o[i]
		}
		return o
	}
	sorted := func(l []party.ID) bool {
		return sort.SliceIsSorted(l, func(i, j int) bool { return l[i] < l[j] })
	}
	r := rand.New(rand.NewSource(seed))
	mk := map[string]func(i int) []party.ID{
		"rotate":  func(i int) []party.ID { return append(append([]party.ID{}, set[i:]...), set[:i]...) },
		"reverse": func(i int) []party.ID { return rev() },
		"permute": func(i int) []party.ID {
			for {
				o := cp()
				r.Shuffle(n, func(a, b int) { o[a], o[b] = o[b], o[a] })
				if !sorted(o) {
					return o
				}
			}
		},
		"last-party-reversed": func(i int) []party.ID {
			if i == n-1 {
				return rev()
			}
			return cp()
		},
	}
	seen := map[string]bool{}
	for _, name := range []string{"rotate", "reverse", "permute", "last-party-reversed"} {
		m := map[party.ID][]party.ID{set[0]: cp()}
		for i := 1; i < n; i++ {
			m[set[i]] = mk[name](i)
		}
		fp := ""
		for _, id := range set {
			fp += fmt.Sprint(m[id]) + ";"
		}
		if seen[fp] {
			continue
		}
		seen[fp] = true
		names, out = append(names, name), append(out, m)
	}
	return
}

type c20OrderOut struct {
	kinds   []string // failing sub-keys
	desc    string
	tags    map[string]string
	allOK   bool
	sim     *Sim
	elapsed float64
}

// c20OrderRun runs one session: party id starts f with the list orders[id].
func (c *ctx) c20OrderRun(f *c20Fn, m *c20Mat, set []party.ID, orders map[party.ID][]party.ID, seed int64) (o c20OrderOut) {
	t0 := time.Now()
	det := installDetReader(seed, 0)
	defer restoreRandReader()
	s := NewSim(set, rand.New(rand.NewSource(seed)), det)
	s.AcceptTimeout = 90 * time.Second
	sid := []byte("c20-order")
	ps := map[party.ID]*c20P{}
	for _, id := range s.IDs {
		id := id
		p := &c20P{ids: append([]party.ID{}, orders[id]...)}
		ps[id] = p
		s.AddMulti(id, c20Wrap(func() protocol.StartFunc { return f.start(m, p, id, false) }), sid)
	}
	s.Seal()
	o.sim = s
	o.tags = map[string]string{}
	add := func(k string) {
		for _, x := range o.kinds {
			if x == k {
				return
			}
		}
		o.kinds = append(o.kinds, k)
	}
	var parts []string
	// (1) everybody gets a handler; (2) equal tags
	var tag0 []byte
	haveTag := false
	for _, id := range s.IDs {
		n := s.Nodes[id]
		if n.H == nil {
			add("refused")
			parts = append(parts, fmt.Sprintf("%q lists %q: refused at start (%s)", string(id), strsOf(orders[id]), c20Short(fmt.Sprint(n.StartErr))))
			continue
		}
		if len(n.Out) == 0 {
			continue
		}
		tag := nonNil(n.Out[0].SSID)
		short := tag
		if len(short) > 8 {
			short = short[:8]
		}
		o.tags[string(id)] = hex.EncodeToString(short)
		if !haveTag {
			tag0, haveTag = tag, true
		} else if !bytes.Equal(tag0, tag) {
			add("different-ssid")
		}
		// key generation family: no auxiliary data is written, the model computes the tag from (sid, protocol, group, list, t)
		if f.family == "keygen" {
			t := 1
			if !f.hasT {
				t = 0
			}
			sp := sessParams{Sid: sid, Proto: string(n.Out[0].Protocol), Group: f.name != "example.StartXOR", IDs: c20Bytes(strsOf(orders[id])), Self: []byte(id), Thr: t}
			rep, err := c.c20Call("sess.new", sp.sx(), false)
			if err != nil {
				c.res.Violate("correspondence", "C20/model-error", err.Error(), c20Replay{What: "model error", Params: sp.String(), Op: "sess.new"})
			} else {
				ok := len(rep.L) == 1 && bytes.Equal(blake64(rep.L[0].B), tag)
				c.res.Corr(ok)
				if !ok {
					c.res.Violate("correspondence", "C20/"+f.name+"/participants-order/ssid-mismatch",
						fmt.Sprintf("the session tag of %q (list %q) is not the model's tag of these parameters", string(id), strsOf(orders[id])), c20Replay{What: "ssid vs sess.new", Params: sp.String(), Op: "sess.new"})
				}
			}
		}
	}
	if hasStr(o.kinds, "different-ssid") {
		parts = append(parts, fmt.Sprintf("the parties compute DIFFERENT session tags %v", o.tags))
	}
	// (3) in-order delivery: everybody finishes
	s.RunFIFO(100000)
	o.allOK = len(o.kinds) == 0
	for _, id := range s.IDs {
		n := s.Nodes[id]
		if n.H == nil {
			o.allOK = false
			continue
		}
		name := fmt.Sprintf("%q", string(id))
		last := n.Obs[len(n.Obs)-1]
		pan := ""
		for _, ob := range n.Obs {
			if ob.Panic != "" {
				pan = fmt.Sprintf("PANIC in round %d: %s", ob.Round, c20Short(ob.Panic))
				break
			}
		}
		switch {
		case pan != "":
			add("crashed")
			o.allOK = false
			parts = append(parts, name+": "+pan)
		case last.Hung:
			add("crashed")
			o.allOK = false
			parts = append(parts, name+": Accept did not return")
		case last.Class == 1:
			parts = append(parts, name+": finished with a result")
		case last.Class == 2:
			add("aborted")
			o.allOK = false
			parts = append(parts, fmt.Sprintf("%s: aborted in round %d (%s)", name, last.Round, c20Short(last.ErrText)))
		default:
			o.allOK = false
			if len(s.Flight) == 0 {
				add("stalled")
				parts = append(parts, fmt.Sprintf("%s: STALLED in round %d (no result, no message in flight)", name, last.Round))
			} else {
				add("crashed")
				parts = append(parts, fmt.Sprintf("%s: not finished after %d deliveries", name, 100000))
			}
		}
	}
	if o.allOK {
		if probs := c.c20JudgeResults(f, m, &c20P{ids: append([]party.ID{}, set...)}, s); len(probs) > 0 {
			o.allOK = false
			add("invalid-result")
			if len(probs) > 3 {
				probs = append(probs[:3], fmt.Sprintf("(+%d more)", len(probs)-3))
			}
			parts = append(parts, "the results are NOT a valid outcome (reference check): "+strings.Join(probs, ", "))
		} else {
			parts = append(parts, "results pass the reference check")
		}
	}
	o.desc = strings.Join(parts, "; ")
	o.elapsed = time.Since(t0).Seconds()
	return o
}

func hasStr(l []string, s string) bool {
	for _, x := range l {
		if x == s {
			return true
		}
	}
	return false
}

func c20OrderStrs(set []party.ID, orders map[party.ID][]party.ID) map[string][]string {
	out := map[string][]string{}
	for _, id := range set {
		out[string(id)] = strsOf(orders[id])
	}
	return out
}

func (c *ctx) c20OrderReport(f *c20Fn, cs *c20OrderCase, o c20OrderOut, class string) {
	c.res.Case(class+"/"+f.name, fmt.Sprintf("C20/%s/participants-order/n=%d/%s", f.name, cs.N, cs.Variant), true)
	c.res.Sample(4, map[string]interface{}{"start_function": f.name, "orders": cs.Orders, "ssid_prefix_by_party": o.tags, "session": o.desc})
	cs.Tags, cs.Outcome = o.tags, o.desc
	for _, k := range o.kinds {
		what := map[string]string{
			"refused":        "a party listing the participants in another order is refused at start",
			"different-ssid": "parties listing the same participant set in different orders compute different session tags",
			"stalled":        "parties listing the same participant set in different orders: the session never completes (everybody waits forever)",
			"aborted":        "parties listing the same participant set in different orders: the session aborts",
			"crashed":        "parties listing the same participant set in different orders: a party panics or hangs",
			"invalid-result": "parties listing the same participant set in different orders: the results are not a valid outcome",
		}[k]
		c.res.Violate("property", "C20/"+f.name+"/participants-order/"+k, what+": "+o.desc, c20OrderReplay{What: "participants order", PO: cs})
	}
}

// c20Order runs the per-party-order sessions of every list-taking start function (only == nil) or one recorded case.
func (c *ctx) c20Order(only *c20OrderCase) {
	m := &c20Mat{c: c, g: curve.Secp256k1{}, ids: idsOf("a", "b", "c"), fail: map[string]string{}, tMake: map[string]float64{}, seed: c.res.Seed*1000 + 400}
	seed := c.res.Seed*1000 + 500
	t0 := time.Now()
	class := "participants-order"
	if only != nil {
		class = "replay"
	}
	// one: run one case; the checked result of a cmp.Keygen session is the CMP key material of the later cases (saves a key generation)
	one := func(f *c20Fn, set []party.ID, orders map[party.ID][]party.ID, cs *c20OrderCase) {
		if !f.need(m) {
			c.res.Note("C20 participants order: %s skipped, no key material", f.name)
			return
		}
		o := c.c20OrderRun(f, m, set, orders, cs.Seed)
		c.c20OrderReport(f, cs, o, class)
		if only != nil {
			fmt.Printf("replay: %s, per-party lists %v, seed %d\n  tags: %v\n  session: %s\n  property fails: %v %v\n", f.name, cs.Orders, cs.Seed, o.tags, o.desc, len(o.kinds) > 0, o.kinds)
		}
		if f.name == "cmp.Keygen" && o.allOK && m.cm == nil && (len(set) == len(m.ids) || !c.thorough()) {
			if cfgs, err := cmpConfigsOf(o.sim); err == nil {
				m.cm = cfgs
				m.tMake["cmp-keygen (participants-order session)"] = o.elapsed
			}
		}
		if !f.cheap {
			c.res.Note("C20 participants order: %s n=%d %s took %.1f s", f.name, len(set), cs.Variant, o.elapsed)
		}
	}
	for _, f := range c20Fns() {
		if f.family != "keygen" && f.family != "sign" && f.family != "refresh" {
			continue // cmp.Refresh, cmp.PresignOnline and the Doerner functions take no list
		}
		if only != nil {
			if only.Fn != f.name {
				continue
			}
			var set []party.ID
			orders := map[party.ID][]party.ID{}
			for id, l := range only.Orders {
				set = append(set, party.ID(id))
				orders[party.ID(id)] = idsOf(l...)
			}
			one(f, party.NewIDSlice(set), orders, &c20OrderCase{Fn: only.Fn, N: len(set), Variant: only.Variant, Orders: only.Orders, Seed: only.Seed})
			return
		}
		sets := [][]party.ID{f.baseIDs(m)}
		if !f.cheap && !c.thorough() {
			// quick tier, CMP: cmp.Keygen with two parties (8 s instead of 14 s), cmp.Sign with its two signers; cmp.Presign in the thorough tier
			if f.name == "cmp.Presign" {
				continue
			}
			sets = [][]party.ID{idsOf("a", "b")}
		}
		if f.family == "sign" && (f.cheap || c.thorough()) {
			sets = append(sets, idsOf("a", "b", "c"))
		}
		for _, set := range sets {
			set = party.NewIDSlice(set)
			seed++
			vnames, variants := c20OrderVariants(set, seed)
			if !f.cheap && !c.thorough() {
				vnames, variants = vnames[:1], variants[:1] // quick tier: one ordering for the CMP functions
			}
			for k, orders := range variants {
				seed++
				one(f, set, orders, &c20OrderCase{Fn: f.name, N: len(set), Variant: vnames[k], Orders: c20OrderStrs(set, orders), Seed: seed})
			}
		}
	}
	c.res.Note("C20 participants order: %.1f s in total", time.Since(t0).Seconds())
}

// c20OrderReplayFile: `-replay` of a participants-order case; false if the file is not one
func (c *ctx) c20OrderReplayFile() bool {
	var rp c20OrderReplay
	if err := readJSON(c.replay, &rp); err != nil || rp.PO == nil || rp.PO.Fn == "" {
		return false
	}
	c.res.Rule = "replay of one participants-order session"
	c.c20Order(rp.PO)
	return true
}
