package main

// C13, caller-owned inputs and aliasing.
//
// The sequential sections call every OT layer with freshly allocated, exactly-sized inputs. A caller that keeps the
// choice bits of several batches in one contiguous matrix (one row per batch), hands rows of a transport buffer to
// the next layer, or uses one scalar object for several multiplications passes slices with SPARE CAPACITY AND LIVE
// NEIGHBOURS and pointers it goes on using. This file adds that dimension for every layer the harness drives:
//
//   randomot  one random-OT setup, n transfers; the 32-byte nonces are consecutive rows of one buffer, the
//             receiver's first message reaches the sender as a row of a transport buffer
//   corre     n correlated OTs on one setup, the choice vectors are consecutive rows of one choice matrix; the
//             receiver's U columns reach the sender as rows of a transport buffer
//   extended  the same through ExtendedOTReceive / ExtendedOTSend
//   additive  the same through AdditiveOTReceiver / AdditiveOTSender; the sender's pads reach the receiver as rows of
//             a transport buffer; the two sender scalars are shared between batches and (every third batch) are one object
//   multiply  n multiplications on one setup: own scalar objects, alpha and beta ONE object, objects of the
//             previous batch used again
//
// A buffer ("arena") is guard | row 0 | ... | row n-1 | guard. Rows are handed out as sub-slices: "matrix" (capacity
// runs on over the following rows and the guard), "spare7" (7 bytes of spare capacity), "tight" (capacity = length).
//
// Oracles, per call:
//   (a) the results are those for the bits / scalars the CALLER chose: every relation (pad chosen, Q = T xor c*Delta,
//       V_choice = V_c, send + recv = c*alpha, share_S + share_R = alpha*beta) is judged against an independent copy of
//       the inputs taken when the buffer was built, by the plain Go oracle and by the model's checker
//       (ot.corre_check, ot.ext_x, ot.additive_check, ot.mult_check);
//   (b) no call modifies memory it does not own: every arena (rows, other rows, guards) is compared with a snapshot
//       taken immediately before the call; scalar inputs and the two setups have the same value after the call;
//       returned byte slices do not lie inside a caller buffer, returned scalars are not the caller's objects.
//       One in-place update is part of the code as written and specified exactly: AdditiveOTReceiver.Round2 masks the
//       RECEIVED pads (pad i stays as it is when choice bit i is 1 and becomes zero when it is 0); anything else that
//       happens to the pad buffer is a violation.
// Keys C13/aliasing/<layer>/<what>. A configuration is a function of (layer, rows, row length, capacity mode, seed,
// setup seed) and replays exactly; all rows are run again because what a batch sees depends on the earlier ones.

import (
	"bytes"
	"fmt"
	"math/big"
	"math/rand"
	"unsafe"

	"github.com/cronokirby/saferith"

	"github.com/taurusgroup/multi-party-sig/pkg/hash"
	"github.com/taurusgroup/multi-party-sig/pkg/math/curve"
	"github.com/taurusgroup/multi-party-sig/pkg/verifhook"

	"verifharness/sx"
)

// ---------------------------------------------------------------------------------------------
// arenas

const c13GuardLen = 64

type c13Arena struct {
	name    string
	buf     []byte // guard | rows | guard
	want    []byte // independent copy of what the caller put there
	rows    int
	rowLen  int
	capMode string
}

// c13NewArena builds a buffer of rows filled by fill(k) (len rowLen).
func c13NewArena(name string, rows, rowLen int, capMode string, fill func(k int) []byte) *c13Arena {
	a := &c13Arena{name: name, rows: rows, rowLen: rowLen, capMode: capMode}
	a.buf = make([]byte, 2*c13GuardLen+rows*rowLen)
	for i := 0; i < c13GuardLen; i++ {
		a.buf[i] = 0xC3 ^ byte(i)
		a.buf[len(a.buf)-1-i] = 0x3C ^ byte(i)
	}
	for k := 0; k < rows; k++ {
		copy(a.buf[c13GuardLen+k*rowLen:c13GuardLen+(k+1)*rowLen], fill(k))
	}
	a.want = append([]byte(nil), a.buf...)
	return a
}

// row k as the caller passes it on.
func (a *c13Arena) row(k int) []byte {
	lo := c13GuardLen + k*a.rowLen
	hi := lo + a.rowLen
	switch a.capMode {
	case "tight":
		return a.buf[lo:hi:hi]
	case "spare7":
		return a.buf[lo : hi : hi+7] // the guard is longer than 7
	}
	return a.buf[lo:hi] // capacity runs to the end of the buffer
}

// chosen: row k of the independent copy.
func (a *c13Arena) chosen(k int) []byte {
	lo := c13GuardLen + k*a.rowLen
	return a.want[lo : lo+a.rowLen]
}

func (a *c13Arena) snapshot() []byte { return append([]byte(nil), a.buf...) }

// where names the region of offset i.
func (a *c13Arena) where(i int) string {
	switch {
	case i < c13GuardLen:
		return "guard-before"
	case i >= c13GuardLen+a.rows*a.rowLen:
		return "guard-after"
	}
	return fmt.Sprintf("row %d", (i-c13GuardLen)/a.rowLen)
}

// changed describes the bytes that differ from snap ("" = none), region by region.
func (a *c13Arena) changed(snap []byte) string {
	out := ""
	regions := 0
	for i := 0; i < len(a.buf); {
		if a.buf[i] == snap[i] {
			i++
			continue
		}
		w := a.where(i)
		n, first := 0, i
		for i < len(a.buf) && a.where(i) == w {
			if a.buf[i] != snap[i] {
				n++
			}
			i++
		}
		if regions < 4 {
			if out != "" {
				out += "; "
			}
			out += fmt.Sprintf("%s: %d bytes changed from offset %d of the buffer", w, n, first)
		}
		regions++
	}
	if regions > 4 {
		out += fmt.Sprintf("; ... (%d regions)", regions)
	}
	return out
}

// c13Inside: does the memory of s (its whole capacity) overlap the buffer?
func c13Inside(s []byte, buf []byte) bool {
	if cap(s) == 0 || len(buf) == 0 {
		return false
	}
	ps := uintptr(unsafe.Pointer(unsafe.SliceData(s)))
	pb := uintptr(unsafe.Pointer(unsafe.SliceData(buf)))
	return ps < pb+uintptr(len(buf)) && pb < ps+uintptr(cap(s))
}

// ---------------------------------------------------------------------------------------------
// one configuration

type c13AliasRun struct {
	e      *c13Env // nil for the random-OT layer
	c      *ctx
	cs     c13Case
	layer  string
	arenas []*c13Arena
	// the call in progress: name and the arenas' state immediately before it
	call  string
	snaps [][]byte
	// setups as they were before the first batch
	delta, k0, k1 [][c13OTBytes]byte
	bad           bool
}

func (a *c13AliasRun) viol(what, desc, observed string) {
	cs := a.cs
	cs.Observed = observed
	if len(cs.Observed) > 700 {
		cs.Observed = cs.Observed[:700]
	}
	a.bad = true
	a.c.res.Violate("property", "C13/aliasing/"+a.layer+"/"+what, desc, cs)
}

// before / after bracket ONE library call: every arena is compared with its state immediately before the call.
func (a *c13AliasRun) before(call string) {
	a.call = call
	a.snaps = make([][]byte, len(a.arenas))
	for i, ar := range a.arenas {
		a.snaps[i] = ar.snapshot()
	}
}

func (a *c13AliasRun) after(batch int) {
	for i, ar := range a.arenas {
		if i >= len(a.snaps) {
			break
		}
		if ch := ar.changed(a.snaps[i]); ch != "" {
			a.viol("caller-memory-modified",
				"a call writes to caller memory it does not own: a buffer of which it was given a sub-slice (or which it was given to read) differs after the call",
				fmt.Sprintf("batch %d, %s, buffer %q (%d rows of %d bytes, rows passed with capacity mode %q): %s", batch, a.call, ar.name, ar.rows, ar.rowLen, ar.capMode, ch))
		}
	}
	a.snaps = nil
}

// try runs the library calls of one batch; a panic is an outcome (the call in progress is still checked).
func (a *c13AliasRun) try(batch int, f func()) bool {
	a.snaps = nil
	p := c13Try(f)
	if p == "" {
		return true
	}
	if a.snaps != nil {
		a.after(batch)
	}
	a.viol("honest-panic", "an honest run panics when its inputs are sub-slices of larger buffers / shared objects", fmt.Sprintf("batch %d, in %s: %s", batch, a.call, p))
	return false
}

func c13SetupRows(a [c13OTParam][c13OTBytes]byte) [][c13OTBytes]byte {
	return append([][c13OTBytes]byte(nil), a[:]...)
}

func (a *c13AliasRun) snapSetups() {
	d, kd := a.e.ss.VerifDelta()
	k0, k1 := a.e.rs.VerifK()
	a.delta = append([][c13OTBytes]byte{d}, c13SetupRows(kd)...)
	a.k0, a.k1 = c13SetupRows(k0), c13SetupRows(k1)
}

func (a *c13AliasRun) checkSetups(batch int) {
	d, kd := a.e.ss.VerifDelta()
	k0, k1 := a.e.rs.VerifK()
	same := d == a.delta[0] && d == a.e.delta
	for i := 0; i < c13OTParam && same; i++ {
		same = kd[i] == a.delta[1+i] && k0[i] == a.k0[i] && k1[i] == a.k1[i]
	}
	if !same {
		a.viol("setup-modified", "a batch changed the correlated-OT setup it was given to read", fmt.Sprintf("after batch %d", batch))
	}
}

// noAlias: returned byte slices must not lie inside a caller buffer.
func (a *c13AliasRun) noAlias(batch int, what string, s []byte) {
	for _, ar := range a.arenas {
		if c13Inside(s, ar.buf) {
			a.viol("result-aliases-input", "a returned slice shares memory with a buffer of the caller", fmt.Sprintf("batch %d: %s lies inside buffer %q", batch, what, ar.name))
		}
	}
}

// scalarsSame: the caller's scalar objects still hold the caller's values.
func (a *c13AliasRun) scalarsSame(batch int, objs []curve.Scalar, vals []*big.Int) {
	for i := range objs {
		var now *big.Int
		if p := c13Try(func() { now = c13Z(objs[i]) }); p != "" || now.Cmp(new(big.Int).Mod(vals[i], secpQ)) != 0 {
			a.viol("input-scalar-modified", "a call changed a scalar object of the caller", fmt.Sprintf("batch %d, after %s: input scalar %d is %v, the caller set %s (%s)", batch, a.call, i, now, c13Hex(vals[i]), p))
		}
	}
}

// notCallerObject: a returned scalar must be its own object.
func (a *c13AliasRun) notCallerObject(batch int, what string, res curve.Scalar, objs ...curve.Scalar) {
	for _, o := range objs {
		if res != nil && res == o {
			a.viol("result-aliases-input", "a returned scalar is the caller's input object", fmt.Sprintf("batch %d: %s", batch, what))
		}
	}
}

// rowPattern: the degenerate vectors of the property, then random.
func c13RowPattern(r *rand.Rand, k, n int) []byte {
	pats := []byte{0x00, 0xFF, 0xAA, 0x55}
	if k%5 == 4 {
		return randBytes(r, n)
	}
	return bytes.Repeat([]byte{pats[k%5]}, n)
}

func c13Nz(b []byte) bool {
	for _, x := range b {
		if x != 0 {
			return true
		}
	}
	return false
}

// transport copies cols (all of one length) into consecutive rows of a fresh arena and returns the rows.
func c13Transport(name string, cols [][]byte) (*c13Arena, [][]byte) {
	n := 0
	if len(cols) > 0 {
		n = len(cols[0])
	}
	ar := c13NewArena(name, len(cols), n, "matrix", func(k int) []byte {
		if len(cols[k]) != n {
			return make([]byte, n)
		}
		return cols[k]
	})
	out := make([][]byte, len(cols))
	for k := range cols {
		out[k] = ar.row(k)
	}
	return ar, out
}

func (a *c13AliasRun) model(op string, args sx.V) (sx.V, bool) {
	rep, err := a.c.m.Call(op, args)
	if err != nil {
		a.c.c13ModelErr(op, err, a.cs)
		return rep, false
	}
	return rep, true
}

// aliasRun runs the configuration cs (What "aliasing", Mode = layer, I = rows, L = row length, Op = capacity mode).
func (e *c13Env) aliasRun(cs c13Case) bool {
	a := &c13AliasRun{e: e, c: e.c, cs: cs, layer: cs.Mode}
	a.cs.Observed = ""
	r := rand.New(rand.NewSource(cs.Seed))
	a.snapSetups()
	switch cs.Mode {
	case "corre", "extended", "additive":
		a.choiceMatrix(r)
	case "multiply":
		a.multiplyShared(r)
	default:
		e.c.res.Note("unknown aliasing layer %q", cs.Mode)
	}
	return a.bad
}

func (a *c13AliasRun) count(k int, nontrivial bool) {
	cs := a.cs
	a.c.res.Case(fmt.Sprintf("aliasing/%s/%s/rowlen%d", a.layer, cs.Op, cs.L), fmt.Sprintf("alias/%s/%d/%d/%d/%s/%d", a.layer, cs.SetupSeed, cs.Seed, k, cs.Op, cs.L), nontrivial)
}

// ---------------------------------------------------------------------------------------------
// corre / extended / additive: the choice vectors are the rows of one matrix

func (a *c13AliasRun) choiceMatrix(r *rand.Rand) {
	e, cs := a.e, a.cs
	rows, rowLen := cs.I, cs.L
	mat := c13NewArena("choice matrix", rows, rowLen, cs.Op, func(k int) []byte { return c13RowPattern(r, k, rowLen) })
	zs, _ := c13Lattice(r, false)
	// additive: the sender's two scalars are objects shared by all batches
	a0, a1 := zs[r.Intn(len(zs))], zs[r.Intn(len(zs))]
	a0obj, a1obj := c13Sc(a0), c13Sc(a1)
	for k := 0; k < rows; k++ {
		row, chosen := mat.row(k), mat.chosen(k)
		h := c13Hash([]byte{byte(k), byte(cs.Seed), byte(cs.Seed >> 8), 0xA1})
		e.rd.seed(cs.Seed + int64(k) + 1)
		a.count(k, c13Nz(chosen))
		a.arenas = []*c13Arena{mat}
		switch a.layer {
		case "corre":
			a.correBatch(k, h, row, chosen)
		case "extended":
			a.extendedBatch(k, h, row, chosen)
		case "additive":
			alpha, az := [2]curve.Scalar{a0obj, a1obj}, [2]*big.Int{a0, a1}
			if k%3 == 2 {
				alpha[1], az[1] = a0obj, a0 // one object in both places
			}
			a.additiveBatch(k, h, row, chosen, alpha, az)
		}
		a.checkSetups(k)
	}
	a.arenas = []*c13Arena{mat}
	// the matrix as a whole, against what the caller put there
	if !bytes.Equal(mat.buf, mat.want) {
		a.viol("caller-memory-modified", "after all batches the caller's choice matrix is not what the caller put there", "choice matrix: "+mat.changed(mat.want))
	}
}

func (a *c13AliasRun) correBatch(k int, h *hash.Hash, row, chosen []byte) {
	e := a.e
	var T, Q [][c13OTBytes]byte
	var serr error
	if !a.try(k, func() {
		a.before("CorreOTReceive")
		msg, rres := verifhook.OTCorreOTReceive(h.Clone(), e.rs, row)
		a.after(k)
		T = rres.VerifT()
		for i := range msg.U {
			a.noAlias(k, fmt.Sprintf("message column U[%d]", i), msg.U[i])
		}
		// the message reaches the sender as rows of a transport buffer
		m2 := *msg
		uar, cols := c13Transport("transport buffer of the U columns", msg.U[:])
		copy(m2.U[:], cols)
		a.arenas = append(a.arenas, uar)
		a.before("CorreOTSend")
		sres, err := verifhook.OTCorreOTSend(h.Clone(), e.ss, 8*len(row), &m2)
		a.after(k)
		serr = err
		if err == nil {
			_, Q = sres.VerifUQ()
		}
	}) {
		return
	}
	if serr != nil {
		a.viol("honest-fails", "an honest correlated OT over a row of a choice matrix fails", fmt.Sprintf("batch %d: %v", k, serr))
		return
	}
	a.judgeCorre(k, chosen, T, Q)
}

func (a *c13AliasRun) judgeCorre(k int, chosen []byte, T, Q [][c13OTBytes]byte) {
	e, c := a.e, a.c
	plain := c13PlainCorre(e.delta[:], chosen, T, Q)
	if rep, ok := a.model("ot.corre_check", sx.List(sx.Bytes(e.delta[:]), sx.Bytes(chosen), c13Rows(T), c13Rows(Q))); ok {
		c.res.Corr(rep.AsBool() == plain)
		if rep.AsBool() != plain {
			c.res.Violate("correspondence", "C13/corre-check-oracles-disagree", "model checker and XOR checker disagree on Q^j = T^j xor c_j*Delta", a.cs)
		}
	}
	if !plain {
		a.viol("wrong-result", "the results are not those for the bits the caller chose: Q^j != T^j xor c_j*Delta with c = the caller's row of the choice matrix",
			fmt.Sprintf("batch %d, chosen row %x", k, chosen))
	}
}

func (a *c13AliasRun) extendedBatch(k int, h *hash.Hash, row, chosen []byte) {
	e, c := a.e, a.c
	batch := 8 * len(row)
	infl := batch + c13OTParam + c13StatParam
	var V0, V1, VC [][c13OTBytes]byte
	var X [c13OTBytes]byte
	var U [c13OTParam][]byte
	var pad []byte
	var serr error
	if !a.try(k, func() {
		e.rd.record()
		a.before("ExtendedOTReceive")
		msg, rres := verifhook.OTExtendedOTReceive(h.Clone(), e.rs, row)
		pad = e.rd.stop()
		a.after(k)
		U, X = msg.CorreMsg.U, msg.X
		VC = rres.VerifVChoices()
		for i := range U {
			a.noAlias(k, fmt.Sprintf("message column U[%d]", i), U[i])
		}
		m2, cm := *msg, *msg.CorreMsg
		m2.CorreMsg = &cm
		uar, cols := c13Transport("transport buffer of the U columns", U[:])
		copy(cm.U[:], cols)
		a.arenas = append(a.arenas, uar)
		a.before("ExtendedOTSend")
		sres, err := verifhook.OTExtendedOTSend(h.Clone(), e.ss, batch, &m2)
		a.after(k)
		serr = err
		if err == nil {
			V0, V1 = sres.VerifV()
		}
	}) {
		return
	}
	if serr != nil {
		a.viol("honest-fails", "an honest extended OT over a row of a choice matrix fails", fmt.Sprintf("batch %d: %v", k, serr))
		return
	}
	good := len(V0) == batch && len(V1) == batch && len(VC) == batch
	wrong, first := 0, -1
	for j := 0; j < batch && good; j++ {
		want := V0[j]
		if c13BitAt(j, chosen) == 1 {
			want = V1[j]
		}
		if VC[j] != want || V0[j] == V1[j] {
			wrong++
			if first < 0 {
				first = j
			}
		}
	}
	if !good || wrong > 0 {
		a.viol("wrong-result", "the receiver does not hold the vectors it chose: V_choice[j] != V_c[j] with c = the caller's row of the choice matrix",
			fmt.Sprintf("batch %d, chosen row %x: %d of %d transfers wrong (first %d)", k, chosen, wrong, batch, first))
	}
	// the message for the caller's bits, by the model: X = xor of chi_j over the set bits of (chosen ++ random pad)
	extra := append(append([]byte{}, chosen...), pad...)
	if len(extra) != infl/8 {
		c.res.Corr(false)
		c.res.Violate("correspondence", "C13/extended-inner-corre", "ExtendedOTReceive did not draw OTParam+StatParam random padding bits", a.cs)
		return
	}
	chi, err := c13Chi(h, U, infl)
	if err != nil {
		c.res.Note("chi: %v", err)
		return
	}
	if rx, ok := a.model("ot.ext_x", sx.List(sx.Int(c13OTBytes), sx.Bytes(extra), c13Rows(chi))); ok {
		okx := rx.Kind == 1 && bytes.Equal(rx.B, X[:])
		c.res.Corr(okx)
		if !okx {
			cs := a.cs
			cs.Observed = fmt.Sprintf("batch %d: X=%x model=%s", k, X, rx)
			c.res.Violate("correspondence", "C13/aliasing/extended/X-differs-from-model", "message field X is not the model's for the caller's row ++ the random padding", cs)
		}
	}
}

func (a *c13AliasRun) additiveBatch(k int, h *hash.Hash, row, chosen []byte, alpha [2]curve.Scalar, az [2]*big.Int) {
	e, c := a.e, a.c
	batch := 8 * len(row)
	var send, recv [][2]curve.Scalar
	var serr, rerr error
	padState := ""
	if !a.try(k, func() {
		sender := verifhook.OTNewAdditiveOTSender(h.Clone(), e.ss, batch, alpha)
		receiver := verifhook.OTNewAdditiveOTReceiver(h.Clone(), e.rs, c13Group, row)
		a.before("AdditiveOTReceiver.Round1")
		m1 := receiver.Round1()
		a.after(k)
		// the receiver's message reaches the sender as rows of a transport buffer
		m1b, em, cm := *m1, *m1.Msg, *m1.Msg.CorreMsg
		m1b.Msg, em.CorreMsg = &em, &cm
		for i := range cm.U {
			a.noAlias(k, fmt.Sprintf("message column U[%d]", i), cm.U[i])
		}
		uar, cols := c13Transport("transport buffer of the U columns", cm.U[:])
		copy(cm.U[:], cols)
		a.arenas = append(a.arenas, uar)
		a.before("AdditiveOTSender.Round1")
		m2, sres, err := sender.Round1(&m1b)
		a.after(k)
		a.scalarsSame(k, alpha[:], az[:])
		serr = err
		if err != nil {
			return
		}
		send = sres
		// the sender's pads reach the receiver as rows of a transport buffer
		flat := make([][]byte, 0, 2*len(m2.CombinedPads))
		for i := range m2.CombinedPads {
			a.noAlias(k, fmt.Sprintf("pad %d", i), m2.CombinedPads[i][0])
			a.noAlias(k, fmt.Sprintf("pad %d", i), m2.CombinedPads[i][1])
			flat = append(flat, m2.CombinedPads[i][0], m2.CombinedPads[i][1])
		}
		par, prow := c13Transport("transport buffer of the sender's pads", flat)
		m2b := *m2
		m2b.CombinedPads = make([][2][]byte, len(m2.CombinedPads))
		for i := range m2b.CombinedPads {
			m2b.CombinedPads[i] = [2][]byte{prow[2*i], prow[2*i+1]}
		}
		a.before("AdditiveOTReceiver.Round2")
		rres, err := receiver.Round2(&m2b)
		a.after(k)
		rerr, recv = err, rres
		// Round2 masks the received pads in place: pad i unchanged when the caller chose 1, zero when the caller chose 0
		spec := append([]byte(nil), par.want...)
		for i := 0; i < len(m2.CombinedPads) && i < batch; i++ {
			if c13BitAt(i, chosen) == 0 {
				lo := c13GuardLen + 2*i*par.rowLen
				for j := lo; j < lo+2*par.rowLen; j++ {
					spec[j] = 0
				}
			}
		}
		padState = par.changed(spec)
	}) {
		return
	}
	if serr != nil || rerr != nil {
		a.viol("honest-fails", "an honest additive OT over a row of a choice matrix fails", fmt.Sprintf("batch %d: sender %v, receiver %v", k, serr, rerr))
		return
	}
	if padState != "" {
		a.viol("received-pads-state", "after AdditiveOTReceiver.Round2 the buffer holding the received pads is not (pad where the caller chose 1, zero where the caller chose 0, everything else untouched)",
			fmt.Sprintf("batch %d, differences from that state: %s", k, padState))
	}
	s0, s1 := c13Pairs(send)
	r0, r1 := c13Pairs(recv)
	for w, tr := range []struct {
		a    *big.Int
		s, r []*big.Int
	}{{az[0], s0, r0}, {az[1], s1, r1}} {
		plain := len(tr.s) == batch && len(tr.r) == batch
		wrong := 0
		for j := 0; j < batch && plain; j++ {
			sum := new(big.Int).Add(tr.s[j], tr.r[j])
			sum.Mod(sum, secpQ)
			want := new(big.Int)
			if c13BitAt(j, chosen) == 1 {
				want.Mod(tr.a, secpQ)
			}
			if sum.Cmp(want) != 0 {
				wrong++
			}
		}
		plain = plain && wrong == 0
		if rep, ok := a.model("ot.additive_check", sx.List(sx.Big(secpQ), sx.Big(tr.a), sx.Bytes(chosen), c13Zs(tr.s), c13Zs(tr.r))); ok {
			c.res.Corr(rep.AsBool() == plain)
			if rep.AsBool() != plain {
				c.res.Violate("correspondence", "C13/additive-check-oracles-disagree", "model checker and big.Int checker disagree on send+recv = c*alpha", a.cs)
			}
		}
		if !plain {
			a.viol("wrong-result", "the results are not those for the bits the caller chose: send[j] + recv[j] != c_j * alpha (mod q) with c = the caller's row of the choice matrix",
				fmt.Sprintf("batch %d, component %d, chosen row %x: %d of %d transfers wrong", k, w, chosen, wrong, batch))
		}
	}
	for i := range send {
		for w := 0; w < 2; w++ {
			a.notCallerObject(k, fmt.Sprintf("sender result [%d][%d]", i, w), send[i][w], alpha[0], alpha[1])
			if i < len(recv) {
				a.notCallerObject(k, fmt.Sprintf("receiver result [%d][%d]", i, w), recv[i][w], alpha[0], alpha[1])
			}
		}
	}
}

// ---------------------------------------------------------------------------------------------
// multiply: scalar objects shared between the two sides and between batches

func (a *c13AliasRun) multiplyShared(r *rand.Rand) {
	e, c, cs := a.e, a.c, a.cs
	zs, zn := c13Lattice(r, false)
	var alphaObj, betaObj curve.Scalar
	var az, bz *big.Int
	name := ""
	for k := 0; k < cs.I; k++ {
		sharing := []string{"own-objects", "alpha-and-beta-one-object", "objects-of-previous-batch"}[k%3]
		switch k % 3 {
		case 0:
			i, j := r.Intn(len(zs)), r.Intn(len(zs))
			az, bz, name = zs[i], zs[j], zn[i]+"*"+zn[j]
			alphaObj, betaObj = c13Sc(az), c13Sc(bz)
		case 1:
			i := r.Intn(len(zs))
			if k%2 == 1 {
				i = len(zs) - 1 // random
			}
			az, bz, name = zs[i], zs[i], zn[i]+"*"+zn[i]
			alphaObj = c13Sc(az)
			betaObj = alphaObj
		}
		h := c13Hash([]byte{byte(k), byte(cs.Seed), byte(cs.Seed >> 8), 0xA2})
		e.rd.seed(cs.Seed + int64(k) + 1)
		c.res.Case("aliasing/multiply/"+sharing, fmt.Sprintf("alias/multiply/%d/%d/%d", cs.SetupSeed, cs.Seed, k), az.Sign() != 0 || bz.Sign() != 0)
		objs, vals := []curve.Scalar{alphaObj, betaObj}, []*big.Int{az, bz}
		var shareS, shareR curve.Scalar
		var serr, rerr error
		padState := ""
		if !a.try(k, func() {
			a.before("NewMultiplyReceiver")
			recv, err := verifhook.OTNewMultiplyReceiver(h.Clone(), e.rs, betaObj)
			a.scalarsSame(k, objs, vals)
			if err != nil {
				rerr = err
				return
			}
			a.before("MultiplyReceiver.Round1")
			m1 := recv.Round1()
			a.scalarsSame(k, objs, vals)
			a.before("NewMultiplySender")
			sender := verifhook.OTNewMultiplySender(h.Clone(), e.ss, alphaObj)
			a.scalarsSame(k, objs, vals)
			a.before("MultiplySender.Round1")
			m2, sS, err := sender.Round1(m1)
			a.scalarsSame(k, objs, vals)
			if err != nil {
				serr = err
				return
			}
			shareS = sS
			var saved [][2][]byte
			if m2.Msg != nil {
				saved = c13CopyPads(m2.Msg.CombinedPads)
			}
			a.before("MultiplyReceiver.Round2")
			sR, err := recv.Round2(m2)
			a.scalarsSame(k, objs, vals)
			rerr, shareR = err, sR
			// the received pads: each one as it was, or masked to zero
			for i := range saved {
				for w := 0; w < 2; w++ {
					now := m2.Msg.CombinedPads[i][w]
					if !bytes.Equal(now, saved[i][w]) && !(len(now) == len(saved[i][w]) && !c13Nz(now)) && padState == "" {
						padState = fmt.Sprintf("pad [%d][%d] was %x and is %x", i, w, saved[i][w], now)
					}
				}
			}
		}) {
			continue
		}
		a.snaps = nil
		if serr != nil || rerr != nil {
			a.viol("honest-fails", "an honest multiplication with shared scalar objects fails", fmt.Sprintf("batch %d (%s, %s): sender %v, receiver %v", k, sharing, name, serr, rerr))
			continue
		}
		if padState != "" {
			a.viol("received-pads-state", "MultiplyReceiver.Round2 left a received pad neither as it was nor masked to zero", fmt.Sprintf("batch %d: %s", k, padState))
		}
		a.notCallerObject(k, "the sender's share", shareS, alphaObj, betaObj)
		a.notCallerObject(k, "the receiver's share", shareR, alphaObj, betaObj)
		ss, sr := c13Z(shareS), c13Z(shareR)
		prod := new(big.Int).Mul(az, bz)
		prod.Mod(prod, secpQ)
		sum := new(big.Int).Add(ss, sr)
		sum.Mod(sum, secpQ)
		plain := sum.Cmp(prod) == 0
		if rep, ok := a.model("ot.mult_check", sx.List(sx.Big(secpQ), sx.Big(az), sx.Big(bz), sx.Big(ss), sx.Big(sr))); ok {
			c.res.Corr(rep.AsBool() == plain)
			if rep.AsBool() != plain {
				c.res.Violate("correspondence", "C13/mult-check-oracles-disagree", "model checker and big.Int checker disagree on share_S + share_R = alpha*beta", a.cs)
			}
		}
		if !plain {
			a.viol("wrong-result", "share_S + share_R != alpha*beta (mod q) for the scalars the caller set",
				fmt.Sprintf("batch %d (%s, %s): alpha=%s beta=%s share_S=%s share_R=%s", k, sharing, name, c13Hex(az), c13Hex(bz), c13Hex(ss), c13Hex(sr)))
		}
		a.checkSetups(k)
	}
}

// ---------------------------------------------------------------------------------------------
// random OT: nonces are rows of one buffer, one setup for all transfers, first message through a transport buffer

func (c *ctx) c13AliasRandomOT(rd *c13Reader, cs c13Case) bool {
	a := &c13AliasRun{c: c, cs: cs, layer: "randomot"}
	a.cs.Observed = ""
	r := rand.New(rand.NewSource(cs.Seed))
	rd.seed(cs.Seed)
	h := c13Hash([]byte{byte(cs.Seed), 0xA3})
	nonces := c13NewArena("nonce buffer", cs.I, 32, cs.Op, func(int) []byte { return randBytes(r, 32) })
	a.arenas = []*c13Arena{nonces}
	var B0 []byte
	a.try(-1, func() {
		a.call = "random-OT setup"
		smsg, ssetup := verifhook.OTRandomOTSetupSend(h.Clone(), c13Group)
		rsetup, err := verifhook.OTRandomOTSetupReceive(h.Clone(), smsg)
		if err != nil {
			a.viol("honest-fails", "honest random-OT setup fails", err.Error())
			return
		}
		B0, _ = smsg.B.MarshalBinary()
		for k := 0; k < cs.I; k++ {
			choice := r.Intn(2)
			key, keyWant := nonces.row(k), nonces.chosen(k)
			c.res.Case("aliasing/randomot/"+cs.Op, fmt.Sprintf("alias/randomot/%d/%d/%s", cs.Seed, k, cs.Op), true)
			a.arenas = []*c13Arena{nonces}
			a.before("NewRandomOTReceiver / NewRandomOTSender")
			R := verifhook.OTNewRandomOTReceiver(key, rsetup, saferith.Choice(choice))
			S := verifhook.OTNewRandomOTSender(key, ssetup)
			a.after(k)
			a.before("RandomOTReceiver.Round1")
			m1, err := R.Round1()
			a.after(k)
			if err != nil {
				a.viol("honest-fails", "honest random OT fails", fmt.Sprintf("transfer %d, receiver round 1: %v", k, err))
				continue
			}
			a.noAlias(k, "message ABytes", m1.ABytes)
			tr, trow := c13Transport("transport buffer of the first message", [][]byte{randBytes(r, len(m1.ABytes)), m1.ABytes, randBytes(r, len(m1.ABytes))})
			m1.ABytes = trow[1]
			a.arenas = append(a.arenas, tr)
			a.before("RandomOTSender.Round1")
			s1, err := S.Round1(&m1)
			a.after(k)
			if err != nil {
				a.viol("honest-fails", "honest random OT fails", fmt.Sprintf("transfer %d, sender round 1: %v", k, err))
				continue
			}
			a.before("RandomOTReceiver.Round2")
			m2 := R.Round2(&s1)
			a.after(k)
			a.before("RandomOTSender.Round2")
			s2, sres, err := S.Round2(&m2)
			a.after(k)
			if err != nil {
				a.viol("honest-fails", "honest random OT fails", fmt.Sprintf("transfer %d, sender round 2: %v", k, err))
				continue
			}
			a.before("RandomOTReceiver.Round3")
			pad, err := R.Round3(&s2)
			a.after(k)
			if err != nil {
				a.viol("honest-fails", "honest random OT fails", fmt.Sprintf("transfer %d, receiver round 3: %v", k, err))
				continue
			}
			want, other := sres.Rand0, sres.Rand1
			if choice == 1 {
				want, other = other, want
			}
			if pad != want || pad == other {
				a.viol("wrong-result", "the receiver's pad is not the chosen one of the sender's two", fmt.Sprintf("transfer %d, choice %d, nonce %x", k, choice, keyWant))
			}
			if now, err := smsg.B.MarshalBinary(); err != nil || !bytes.Equal(now, B0) {
				a.viol("setup-modified", "a transfer changed the point of the random-OT setup it was given to read", fmt.Sprintf("after transfer %d", k))
			}
		}
	})
	if !bytes.Equal(nonces.buf, nonces.want) {
		a.arenas = []*c13Arena{nonces}
		a.viol("caller-memory-modified", "after all transfers the caller's nonce buffer is not what the caller put there", "nonce buffer: "+nonces.changed(nonces.want))
	}
	return a.bad
}

// ---------------------------------------------------------------------------------------------
// the configurations

func (c *ctx) c13AliasAll(rd *c13Reader, r *rand.Rand) {
	type cfg struct {
		layer        string
		rows, rowLen int
		capMode      string
	}
	var cfgs []cfg
	for _, layer := range []string{"corre", "extended", "additive"} {
		cfgs = append(cfgs, cfg{layer, 5, 11, "matrix"}, cfg{layer, 5, 1, "matrix"}, cfg{layer, 4, 26, "matrix"}, cfg{layer, 3, 84, "matrix"},
			cfg{layer, 4, 11, "tight"}, cfg{layer, 4, 5, "spare7"})
		if c.thorough() {
			for _, l := range []int{2, 3, 16, 25, 27, 32, 110} {
				cfgs = append(cfgs, cfg{layer, 8, l, "matrix"}, cfg{layer, 4, l, "spare7"}, cfg{layer, 4, l, "tight"})
			}
		}
	}
	cfgs = append(cfgs, cfg{"multiply", pickInt(c.thorough(), 6, 18), 0, "objects"})
	nEnv := pickInt(c.thorough(), 1, 3)
	for s := 0; s < nEnv; s++ {
		e := c.c13NewEnv(rd, r.Int63())
		if e == nil {
			continue
		}
		for _, k := range cfgs {
			e.aliasRun(c13Case{What: "aliasing", Mode: k.layer, I: k.rows, L: k.rowLen, Op: k.capMode, Seed: r.Int63(), SetupSeed: e.setupSeed})
		}
	}
	for _, k := range []cfg{{"randomot", pickInt(c.thorough(), 6, 24), 32, "matrix"}, {"randomot", 4, 32, "tight"}, {"randomot", 4, 32, "spare7"}} {
		c.c13AliasRandomOT(rd, c13Case{What: "aliasing", Mode: k.layer, I: k.rows, L: k.rowLen, Op: k.capMode, Seed: r.Int63()})
	}
}

func (c *ctx) c13AliasReplay(rd *c13Reader, env *c13Env, cs c13Case) {
	bad := false
	if cs.Mode == "randomot" {
		bad = c.c13AliasRandomOT(rd, cs)
	} else {
		bad = env.aliasRun(cs)
	}
	fmt.Println("replay outcome: aliasing configuration", cs.Mode, "violates:", bad)
}
