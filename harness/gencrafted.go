package main

// `vh GENCRAFTED`: one-off, deterministic generation of the crafted integers of the C15 catalogue of malformed stored
// primes (c15_crafted.go). Writes <data>/craftedprimes.txt (data = $VERIF_DATA, default /verif/data); the file is
// committed and only READ by the checks (every entry is re-verified against its specification with math/big when it
// is loaded). The search is a function of the entry's name alone: the start value comes from SHA-256 in counter mode
// over "verif/C15/crafted/v1/<name>", candidates are visited in increasing order and the first one that meets the
// specification is taken (the parallel primality tests do not influence which one that is).

import (
	"crypto/sha256"
	"encoding/binary"
	"fmt"
	"math/big"
	"os"
	"path/filepath"
	"sort"
	"sync"
)

func init() { props["GENCRAFTED"] = runGenCrafted }

func dataPath(name string) string {
	d := os.Getenv("VERIF_DATA")
	if d == "" {
		d = "/verif/data"
	}
	return filepath.Join(d, name)
}

// craftedSpec: what an entry of craftedprimes.txt has to be.
//
//	safe      p and (p-1)/2 prime (then p = 3 mod 4)
//	prime1    p prime, p = 1 mod 4
//	notsafe   p prime, p = 3 mod 4, (p-1)/2 composite
//	comphalf  p = 3 mod 4 composite, (p-1)/2 prime
//	semi      p = a*b = 3 mod 4 with a, b primes of Bits/2 bits
//
// Bits is the exact bit length; Top is the required prefix of the binary expansion.
type craftedSpec struct {
	Name string
	Kind string
	Bits int
	Top  string
	Doc  string
}

var craftedSpecs = []craftedSpec{
	{"S2047A", "safe", 1024, "100", "1024-bit safe Blum prime below 1.25*2^1023"},
	{"S2047B", "safe", 1024, "100", "a second one: S2047A*S2047B has 2047 bits although both factors pass every per-prime rule"},
	{"S1023", "safe", 1023, "11", "safe Blum prime one bit short"},
	{"S1025", "safe", 1025, "11", "safe Blum prime one bit long (S1025*S1023 has 2048 bits)"},
	{"P1MOD4", "prime1", 1024, "11", "1024-bit prime = 1 mod 4"},
	{"NOTSAFE", "notsafe", 1024, "11", "1024-bit prime = 3 mod 4 whose half is composite"},
	{"COMPHALF", "comphalf", 1024, "11", "1024-bit composite = 3 mod 4 whose half is prime"},
	{"SEMI", "semi", 1024, "1", "1024-bit product of two 512-bit primes, = 3 mod 4"},
}

func craftedHasTop(z *big.Int, bits int, top string) bool {
	if z.BitLen() != bits {
		return false
	}
	for i, ch := range top {
		if z.Bit(bits-1-i) != uint(ch-'0') {
			return false
		}
	}
	return true
}

// craftedCheck verifies an entry against its specification (math/big only); rounds = Miller-Rabin rounds on top of
// Baillie-PSW.
func craftedCheck(sp craftedSpec, z *big.Int, rounds int) error {
	if z == nil || !craftedHasTop(z, sp.Bits, sp.Top) {
		return fmt.Errorf("%s: not a %d-bit number with prefix %s", sp.Name, sp.Bits, sp.Top)
	}
	half := new(big.Int).Rsh(z, 1)
	mod4 := int(z.Bit(0)) + 2*int(z.Bit(1))
	isP, halfP := z.ProbablyPrime(rounds), half.ProbablyPrime(rounds)
	ok := false
	switch sp.Kind {
	case "safe":
		ok = isP && halfP && mod4 == 3
	case "prime1":
		ok = isP && mod4 == 1
	case "notsafe":
		ok = isP && !halfP && mod4 == 3
	case "comphalf":
		ok = !isP && halfP && mod4 == 3
	case "semi":
		ok = !isP && !halfP && mod4 == 3
	}
	if !ok {
		return fmt.Errorf("%s: prime=%v half-prime=%v mod4=%d does not fit kind %s", sp.Name, isP, halfP, mod4, sp.Kind)
	}
	return nil
}

// craftedStart: a Bits-bit number with the prefix, the rest from SHA-256 in counter mode over the label.
func craftedStart(label string, bits int, top string) *big.Int {
	key := sha256.Sum256([]byte("verif/C15/crafted/v1/" + label))
	var buf []byte
	for ctr := uint64(0); len(buf)*8 < bits+8; ctr++ {
		var in [40]byte
		copy(in[:], key[:])
		binary.BigEndian.PutUint64(in[32:], ctr)
		d := sha256.Sum256(in[:])
		buf = append(buf, d[:]...)
	}
	z := new(big.Int).SetBytes(buf)
	z.Rsh(z, uint(z.BitLen()-bits+1)) // at most bits-1 bits
	for i := 0; i < bits; i++ {
		if i < len(top) {
			z.SetBit(z, bits-1-i, uint(top[i]-'0'))
		}
	}
	// room for the search: clear a block of bits below the prefix so that adding the search offset cannot carry into it
	for i := len(top); i < len(top)+8; i++ {
		z.SetBit(z, bits-1-i, 0)
	}
	return z
}

var craftedSmall = func() []uint64 {
	const lim = 1 << 16
	comp := make([]bool, lim)
	var ps []uint64
	for i := 3; i < lim; i += 2 {
		if !comp[i] {
			ps = append(ps, uint64(i))
			for j := i * i; j < lim; j += 2 * i {
				comp[j] = true
			}
		}
	}
	return ps
}()

// craftedSearch visits start, start+4, start+8, ... (start adjusted to the residue mod 4) and returns the first value
// for which accept holds. sieveHalf: also drop candidates whose half has a small factor. wantPrime: candidates with
// a small factor are dropped (for kinds that need a prime); the rest goes to accept.
func craftedSearch(start *big.Int, res4 uint, sieveSelf, sieveHalf bool, accept func(*big.Int) bool) *big.Int {
	p0 := new(big.Int).Set(start)
	p0.SetBit(p0, 0, res4&1)
	p0.SetBit(p0, 1, (res4>>1)&1)
	const W = 1 << 18
	for win := 0; ; win++ {
		base := new(big.Int).Add(p0, new(big.Int).Lsh(big.NewInt(int64(win)*W), 2))
		dead := make([]bool, W)
		var m big.Int
		for _, r := range craftedSmall {
			b := m.Mod(base, new(big.Int).SetUint64(r)).Uint64()
			// p = base + 4k; p = 0 mod r  <=>  k = -base/4 mod r ; (p-1)/2 = 0 mod r <=> p = 1 mod r
			inv4 := modInv64(4%r, r)
			if sieveSelf {
				k0 := (r - b) % r * inv4 % r
				for k := k0; k < W; k += r {
					dead[k] = true
				}
			}
			if sieveHalf {
				k0 := (r + 1 - b) % r * inv4 % r
				for k := k0; k < W; k += r {
					dead[k] = true
				}
			}
		}
		var surv []int
		for k := 0; k < W; k++ {
			if !dead[k] {
				surv = append(surv, k)
			}
		}
		const chunk = 64
		for i := 0; i < len(surv); i += chunk {
			j := i + chunk
			if j > len(surv) {
				j = len(surv)
			}
			hit := make([]bool, j-i)
			var wg sync.WaitGroup
			for x := i; x < j; x++ {
				wg.Add(1)
				go func(x int) {
					defer wg.Done()
					p := new(big.Int).Add(base, big.NewInt(int64(surv[x])*4))
					hit[x-i] = accept(p)
				}(x)
			}
			wg.Wait()
			for x := range hit {
				if hit[x] {
					return new(big.Int).Add(base, big.NewInt(int64(surv[i+x])*4))
				}
			}
		}
	}
}

func modInv64(a, m uint64) uint64 {
	return new(big.Int).ModInverse(new(big.Int).SetUint64(a), new(big.Int).SetUint64(m)).Uint64()
}

func craftedGenerate(sp craftedSpec) *big.Int {
	half := func(p *big.Int) *big.Int { return new(big.Int).Rsh(p, 1) }
	switch sp.Kind {
	case "safe":
		return craftedSearch(craftedStart(sp.Name, sp.Bits, sp.Top), 3, true, true, func(p *big.Int) bool {
			return half(p).ProbablyPrime(0) && p.ProbablyPrime(0) && half(p).ProbablyPrime(20) && p.ProbablyPrime(20)
		})
	case "prime1":
		return craftedSearch(craftedStart(sp.Name, sp.Bits, sp.Top), 1, true, false, func(p *big.Int) bool { return p.ProbablyPrime(20) })
	case "notsafe":
		return craftedSearch(craftedStart(sp.Name, sp.Bits, sp.Top), 3, true, false, func(p *big.Int) bool {
			return p.ProbablyPrime(20) && !half(p).ProbablyPrime(20)
		})
	case "comphalf":
		return craftedSearch(craftedStart(sp.Name, sp.Bits, sp.Top), 3, false, true, func(p *big.Int) bool {
			return half(p).ProbablyPrime(20) && !p.ProbablyPrime(20)
		})
	case "semi":
		a := craftedSearch(craftedStart(sp.Name+"/a", sp.Bits/2, "11"), 3, true, false, func(p *big.Int) bool { return p.ProbablyPrime(20) })
		b := craftedSearch(craftedStart(sp.Name+"/b", sp.Bits/2, "11"), 1, true, false, func(p *big.Int) bool { return p.ProbablyPrime(20) })
		return new(big.Int).Mul(a, b)
	}
	return nil
}

func runGenCrafted(c *ctx) {
	out := map[string]*big.Int{}
	var mu sync.Mutex
	var wg sync.WaitGroup
	for _, sp := range craftedSpecs {
		wg.Add(1)
		go func(sp craftedSpec) {
			defer wg.Done()
			z := craftedGenerate(sp)
			mu.Lock()
			out[sp.Name] = z
			mu.Unlock()
		}(sp)
	}
	wg.Wait()
	txt := "# craftedprimes.txt -- crafted integers for the C15 catalogue of malformed stored primes (harness/c15_crafted.go).\n" +
		"# Written by `vh GENCRAFTED` (harness/gencrafted.go), a deterministic search; public test material, never secret.\n" +
		"# <name> <hex>; every entry is re-verified against its specification when it is loaded.\n"
	names := make([]string, 0, len(out))
	for _, sp := range craftedSpecs {
		names = append(names, sp.Name)
	}
	sort.Strings(names)
	for _, sp := range craftedSpecs {
		z := out[sp.Name]
		if err := craftedCheck(sp, z, 30); err != nil {
			panic(err)
		}
		txt += fmt.Sprintf("# %s: %s\n%s %x\n", sp.Name, sp.Doc, sp.Name, z)
		c.res.Case("gencrafted/"+sp.Kind, sp.Name, true)
	}
	if err := os.MkdirAll(filepath.Dir(dataPath("craftedprimes.txt")), 0o755); err != nil {
		panic(err)
	}
	if err := os.WriteFile(dataPath("craftedprimes.txt"), []byte(txt), 0o644); err != nil {
		panic(err)
	}
	fmt.Println("wrote", dataPath("craftedprimes.txt"))
	_ = names
}
