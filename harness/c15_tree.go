package main

// c15_tree.go -- a generic CBOR tree for the subset fxamacker/cbor emits (uint, negint, bytes, text, array, map,
// bool, null; definite lengths, shortest heads), its encoder/decoder, its rendering as the Coq model's sx tree,
// and the single-node corruptions used by C15.

import (
	"encoding/binary"
	"fmt"
	"sort"

	"verifharness/sx"
)

const (
	c15Uint = iota
	c15Neg
	c15Bytes
	c15Text
	c15Arr
	c15Map
	c15Bool
	c15Null
)

type c15Node struct {
	K    int
	U    uint64
	B    []byte
	A    []*c15Node
	MK   []*c15Node
	MV   []*c15Node
	Bool bool
}

func c15U(u uint64) *c15Node          { return &c15Node{K: c15Uint, U: u} }
func c15B(b []byte) *c15Node          { return &c15Node{K: c15Bytes, B: append([]byte{}, b...)} }
func c15T(s string) *c15Node          { return &c15Node{K: c15Text, B: []byte(s)} }
func c15NullNode() *c15Node           { return &c15Node{K: c15Null} }
func c15ArrOf(a ...*c15Node) *c15Node { return &c15Node{K: c15Arr, A: a} }

func (n *c15Node) clone() *c15Node {
	if n == nil {
		return nil
	}
	c := &c15Node{K: n.K, U: n.U, Bool: n.Bool}
	if n.B != nil {
		c.B = append([]byte{}, n.B...)
	}
	for _, x := range n.A {
		c.A = append(c.A, x.clone())
	}
	for i := range n.MK {
		c.MK = append(c.MK, n.MK[i].clone())
		c.MV = append(c.MV, n.MV[i].clone())
	}
	return c
}

func c15Head(out *[]byte, major byte, n uint64) {
	switch {
	case n < 24:
		*out = append(*out, major<<5|byte(n))
	case n < 1<<8:
		*out = append(*out, major<<5|24, byte(n))
	case n < 1<<16:
		*out = append(*out, major<<5|25, byte(n>>8), byte(n))
	case n < 1<<32:
		var b [4]byte
		binary.BigEndian.PutUint32(b[:], uint32(n))
		*out = append(append(*out, major<<5|26), b[:]...)
	default:
		var b [8]byte
		binary.BigEndian.PutUint64(b[:], n)
		*out = append(append(*out, major<<5|27), b[:]...)
	}
}

func (n *c15Node) enc(out *[]byte) {
	switch n.K {
	case c15Uint:
		c15Head(out, 0, n.U)
	case c15Neg:
		c15Head(out, 1, n.U)
	case c15Bytes:
		c15Head(out, 2, uint64(len(n.B)))
		*out = append(*out, n.B...)
	case c15Text:
		c15Head(out, 3, uint64(len(n.B)))
		*out = append(*out, n.B...)
	case c15Arr:
		c15Head(out, 4, uint64(len(n.A)))
		for _, x := range n.A {
			x.enc(out)
		}
	case c15Map:
		c15Head(out, 5, uint64(len(n.MK)))
		for i := range n.MK {
			n.MK[i].enc(out)
			n.MV[i].enc(out)
		}
	case c15Bool:
		if n.Bool {
			*out = append(*out, 0xf5)
		} else {
			*out = append(*out, 0xf4)
		}
	default:
		*out = append(*out, 0xf6)
	}
}

func (n *c15Node) bytes() []byte {
	var out []byte
	n.enc(&out)
	return out
}

// c15Parse reads one item of the subset (any head width); rest is returned.
func c15Parse(b []byte, depth int) (*c15Node, []byte, error) {
	if depth > 64 {
		return nil, nil, fmt.Errorf("too deep")
	}
	if len(b) == 0 {
		return nil, nil, fmt.Errorf("eof")
	}
	major, info := b[0]>>5, b[0]&31
	b = b[1:]
	var arg uint64
	switch {
	case info < 24:
		arg = uint64(info)
	case info == 24:
		if len(b) < 1 {
			return nil, nil, fmt.Errorf("eof")
		}
		arg, b = uint64(b[0]), b[1:]
	case info == 25:
		if len(b) < 2 {
			return nil, nil, fmt.Errorf("eof")
		}
		arg, b = uint64(binary.BigEndian.Uint16(b)), b[2:]
	case info == 26:
		if len(b) < 4 {
			return nil, nil, fmt.Errorf("eof")
		}
		arg, b = uint64(binary.BigEndian.Uint32(b)), b[4:]
	case info == 27:
		if len(b) < 8 {
			return nil, nil, fmt.Errorf("eof")
		}
		arg, b = binary.BigEndian.Uint64(b), b[8:]
	default:
		return nil, nil, fmt.Errorf("indefinite/reserved")
	}
	switch major {
	case 0:
		return &c15Node{K: c15Uint, U: arg}, b, nil
	case 1:
		return &c15Node{K: c15Neg, U: arg}, b, nil
	case 2, 3:
		if arg > uint64(len(b)) {
			return nil, nil, fmt.Errorf("eof")
		}
		k := c15Bytes
		if major == 3 {
			k = c15Text
		}
		return &c15Node{K: k, B: append([]byte{}, b[:arg]...)}, b[arg:], nil
	case 4:
		if arg > uint64(len(b)) {
			return nil, nil, fmt.Errorf("eof")
		}
		n := &c15Node{K: c15Arr}
		for i := uint64(0); i < arg; i++ {
			x, r, err := c15Parse(b, depth+1)
			if err != nil {
				return nil, nil, err
			}
			n.A, b = append(n.A, x), r
		}
		return n, b, nil
	case 5:
		if arg > uint64(len(b)) {
			return nil, nil, fmt.Errorf("eof")
		}
		n := &c15Node{K: c15Map}
		for i := uint64(0); i < arg; i++ {
			k, r, err := c15Parse(b, depth+1)
			if err != nil {
				return nil, nil, err
			}
			v, r2, err := c15Parse(r, depth+1)
			if err != nil {
				return nil, nil, err
			}
			n.MK, n.MV, b = append(n.MK, k), append(n.MV, v), r2
		}
		return n, b, nil
	case 7:
		switch info {
		case 20:
			return &c15Node{K: c15Bool}, b, nil
		case 21:
			return &c15Node{K: c15Bool, Bool: true}, b, nil
		case 22:
			return &c15Node{K: c15Null}, b, nil
		}
	}
	return nil, nil, fmt.Errorf("outside subset")
}

// sx renders the tree in the model's encoding (coq/Model/DispatchCbor.v)
func (n *c15Node) sx() sx.V {
	switch n.K {
	case c15Uint:
		return sx.List(sx.Int(0), sx.Big(c15BigU(n.U)))
	case c15Neg:
		return sx.List(sx.Int(1), sx.Big(c15BigU(n.U)))
	case c15Bytes:
		return sx.List(sx.Int(2), sx.Bytes(n.B))
	case c15Text:
		return sx.List(sx.Int(3), sx.Bytes(n.B))
	case c15Arr:
		l := make([]sx.V, len(n.A))
		for i, x := range n.A {
			l[i] = x.sx()
		}
		return sx.List(sx.Int(4), sx.List(l...))
	case c15Map:
		l := make([]sx.V, len(n.MK))
		for i := range n.MK {
			l[i] = sx.List(n.MK[i].sx(), n.MV[i].sx())
		}
		return sx.List(sx.Int(5), sx.List(l...))
	case c15Bool:
		return sx.List(sx.Int(6), sx.Bool(n.Bool))
	}
	return sx.List(sx.Int(7))
}

func c15FromSx(v sx.V) (*c15Node, error) {
	if v.Kind != 2 || len(v.L) == 0 || v.L[0].Kind != 0 {
		return nil, fmt.Errorf("bad tree")
	}
	k := int(v.L[0].Z.Int64())
	switch k {
	case 0, 1:
		return &c15Node{K: k, U: v.L[1].Z.Uint64()}, nil
	case 2, 3:
		b := v.L[1].B
		if b == nil {
			b = []byte{}
		}
		return &c15Node{K: k, B: b}, nil
	case 4:
		n := &c15Node{K: c15Arr}
		for _, x := range v.L[1].L {
			c, err := c15FromSx(x)
			if err != nil {
				return nil, err
			}
			n.A = append(n.A, c)
		}
		return n, nil
	case 5:
		n := &c15Node{K: c15Map}
		for _, x := range v.L[1].L {
			kk, err := c15FromSx(x.L[0])
			if err != nil {
				return nil, err
			}
			vv, err := c15FromSx(x.L[1])
			if err != nil {
				return nil, err
			}
			n.MK, n.MV = append(n.MK, kk), append(n.MV, vv)
		}
		return n, nil
	case 6:
		return &c15Node{K: c15Bool, Bool: v.L[1].AsBool()}, nil
	case 7:
		return &c15Node{K: c15Null}, nil
	}
	return nil, fmt.Errorf("bad tree kind %d", k)
}

func (n *c15Node) get(key string) *c15Node {
	if n == nil || n.K != c15Map {
		return nil
	}
	for i, k := range n.MK {
		if k.K == c15Text && string(k.B) == key {
			return n.MV[i]
		}
	}
	return nil
}

// ---------------------------------------------------------------------------------------------
// corruptions

type c15Corruption struct {
	Field string   // stable path: map keys joined by "/", array positions and party-id keys as "*"
	Name  string   // stable name of the alteration
	Tree  *c15Node // the whole altered tree
}

type c15Walk struct {
	root    *c15Node
	nested  map[string]bool // field paths whose byte string is itself CBOR (PointMap.MarshalBinary)
	idKeyed map[string]bool // field paths that are maps keyed by party id
	ids     []string        // party ids of the object (for "other-id", threshold = n)
	self    string          // the owner's id: entries are named "self" / "other" instead of "*"
	out     []c15Corruption
}

// replaceAt rebuilds the root with the node reached by `path` (sequence of child indices; for maps 2*i+1 = value i,
// 2*i = key i; index -1 = enter nested CBOR inside a byte string) replaced by repl (nil = delete from parent)
func c15Replace(n *c15Node, path []int, repl *c15Node, del bool) *c15Node {
	if len(path) == 0 {
		return repl
	}
	c := n.clone()
	i := path[0]
	switch {
	case i == -1:
		inner, _, err := c15Parse(n.B, 0)
		if err != nil {
			return c
		}
		ni := c15Replace(inner, path[1:], repl, del)
		if ni == nil {
			c.B = []byte{}
		} else {
			c.B = ni.bytes()
		}
	case n.K == c15Arr:
		if len(path) == 1 && del {
			c.A = append(c.A[:i], c.A[i+1:]...)
		} else {
			c.A[i] = c15Replace(n.A[i], path[1:], repl, del)
		}
	case n.K == c15Map:
		j := i / 2
		if len(path) == 1 && del {
			c.MK = append(c.MK[:j], c.MK[j+1:]...)
			c.MV = append(c.MV[:j], c.MV[j+1:]...)
		} else if i%2 == 1 {
			c.MV[j] = c15Replace(n.MV[j], path[1:], repl, del)
		} else {
			c.MK[j] = c15Replace(n.MK[j], path[1:], repl, del)
		}
	}
	return c
}

var c15SecpQBytes = secpQ.Bytes()

func (w *c15Walk) add(field, name string, path []int, repl *c15Node) {
	w.out = append(w.out, c15Corruption{Field: field, Name: name, Tree: c15Replace(w.root, path, repl, false)})
}

func (w *c15Walk) del(field, name string, path []int) {
	w.out = append(w.out, c15Corruption{Field: field, Name: name, Tree: c15Replace(w.root, path, nil, true)})
}

func c15Join(field, comp string) string {
	if field == "" {
		return comp
	}
	return field + "/" + comp
}

// walk enumerates every single-node corruption below n
func (w *c15Walk) walk(n *c15Node, field string, path []int, parent *c15Node) {
	p := append([]int{}, path...)
	name := field
	if name == "" {
		name = "(whole)"
	}
	// generic
	if n.K != c15Null {
		w.add(name, "null", p, c15NullNode())
	}
	switch n.K {
	case c15Bytes:
		w.add(name, "wrong-type", p, c15U(1))
		L := len(n.B)
		if L > 0 {
			w.add(name, "empty", p, c15B(nil))
			w.add(name, "zero", p, c15B(make([]byte, L)))
			ff := make([]byte, L)
			for i := range ff {
				ff[i] = 0xff
			}
			w.add(name, "all-ff", p, c15B(ff))
			x := append([]byte{}, n.B...)
			x[L-1] ^= 1
			w.add(name, "flip-low-bit", p, c15B(x)) // even modulus / other point / other scalar
			y := append([]byte{}, n.B...)
			y[0] ^= 0x80
			w.add(name, "flip-high-bit", p, c15B(y)) // wrong-size modulus or prime
			w.add(name, "drop-first-byte", p, c15B(n.B[1:]))
			w.add(name, "prepend-byte", p, c15B(append([]byte{1}, n.B...)))
			one := make([]byte, L)
			one[L-1] = 1
			w.add(name, "one", p, c15B(one))
		} else {
			w.add(name, "one-byte", p, c15B([]byte{1}))
		}
		if L == 33 {
			id := make([]byte, 33)
			id[0] = 2
			w.add(name, "identity-point", p, c15B(id))
			z := append([]byte{}, n.B...)
			z[0] = 4
			w.add(name, "bad-prefix", p, c15B(z))
			z2 := append([]byte{}, n.B...)
			z2[0] ^= 1
			w.add(name, "negated-point", p, c15B(z2))
		}
		if L == 32 {
			w.add(name, "group-order", p, c15B(c15SecpQBytes))
		}
		// Pedersen S = T
		if parent != nil && parent.K == c15Map && len(field) > 2 && field[len(field)-2:] == "/S" {
			if t := parent.get("T"); t != nil && t.K == c15Bytes {
				w.add(name, "equals-T", p, c15B(t.B))
			}
		}
		if w.nested[field] {
			inner, _, err := c15Parse(n.B, 0)
			if err == nil {
				w.walk(inner, field, append(p, -1), n)
			}
		}
	case c15Uint, c15Neg:
		w.add(name, "wrong-type", p, c15B([]byte{1}))
		if !(n.K == c15Uint && n.U == 0) {
			w.add(name, "zero", p, c15U(0))
		}
		w.add(name, "minus-one", p, &c15Node{K: c15Neg, U: 0})
		w.add(name, "n", p, c15U(uint64(len(w.ids))))
		w.add(name, "n-plus-one", p, c15U(uint64(len(w.ids)+1)))
		w.add(name, "2^32", p, c15U(1<<32))
		w.add(name, "2^64-1", p, c15U(^uint64(0)))
		w.add(name, "min-int-minus", p, &c15Node{K: c15Neg, U: ^uint64(0)})
	case c15Text:
		w.add(name, "wrong-type", p, c15U(1))
		if len(n.B) > 0 {
			w.add(name, "empty", p, c15T(""))
		}
		for _, id := range w.ids {
			if id != string(n.B) {
				w.add(name, "other-id", p, c15T(id))
				break
			}
		}
		w.add(name, "unknown-id", p, c15T("zz-unknown"))
		w.add(name, "invalid-utf8", p, &c15Node{K: c15Text, B: []byte{0x61, 0xff}})
	case c15Bool:
		w.add(name, "wrong-type", p, c15U(1))
		w.add(name, "flip", p, &c15Node{K: c15Bool, Bool: !n.Bool})
	case c15Null:
		w.add(name, "wrong-type", p, c15U(1))
		w.add(name, "empty-bytes", p, c15B(nil))
	case c15Arr:
		w.add(name, "wrong-type", p, &c15Node{K: c15Map})
		if len(n.A) > 0 {
			w.add(name, "empty", p, &c15Node{K: c15Arr})
			d := n.clone()
			d.A = append(d.A, n.A[0].clone())
			w.add(name, "duplicate-party", p, d)
			f := n.clone()
			f.A = f.A[1:]
			w.add(name, "missing-first-party", p, f)
			l := n.clone()
			l.A = l.A[:len(l.A)-1]
			w.add(name, "missing-last-party", p, l)
		}
		if len(n.A) >= 2 && n.A[0].get("ID") != nil && n.A[1].get("ID") != nil {
			s := n.clone()
			a, b := s.A[0].get("ID"), s.A[1].get("ID")
			a.B, b.B = b.B, a.B
			w.add(name, "swapped-ids", p, s)
		}
		for i, x := range n.A {
			comp := "*"
			if id := x.get("ID"); w.self != "" && id != nil && id.K == c15Text {
				comp = "other"
				if string(id.B) == w.self {
					comp = "self"
				}
			}
			w.walk(x, c15Join(field, comp), append(p, i), n)
		}
	case c15Map:
		w.add(name, "wrong-type", p, &c15Node{K: c15Arr})
		if len(n.MK) > 0 {
			w.add(name, "empty", p, &c15Node{K: c15Map})
		}
		keyed := w.idKeyed[field]
		if keyed && len(n.MK) > 0 {
			l := n.clone()
			l.MK, l.MV = l.MK[1:], l.MV[1:]
			w.add(name, "missing-first-party", p, l)
			l2 := n.clone()
			l2.MK, l2.MV = l2.MK[:len(l2.MK)-1], l2.MV[:len(l2.MV)-1]
			w.add(name, "missing-last-party", p, l2)
			e := n.clone()
			e.MK, e.MV = append(e.MK, c15T("zz-unknown")), append(e.MV, n.MV[0].clone())
			w.add(name, "extra-party", p, e)
			d := n.clone()
			d.MK, d.MV = append(d.MK, n.MK[0].clone()), append(d.MV, n.MV[len(n.MV)-1].clone())
			w.add(name, "duplicate-party", p, d)
		}
		for i := range n.MK {
			comp := "*"
			if !keyed && n.MK[i].K == c15Text {
				comp = string(n.MK[i].B)
			} else if keyed && w.self != "" && n.MK[i].K == c15Text {
				comp = "other"
				if string(n.MK[i].B) == w.self {
					comp = "self"
				}
			}
			cf := c15Join(field, comp)
			if !keyed {
				w.del(cf, "missing", append(append([]int{}, p...), 2*i+1))
			}
			w.walk(n.MV[i], cf, append(p, 2*i+1), n)
		}
	}
}

// c15Corruptions lists all single-node corruptions of the tree (deterministic order).
func c15Corruptions(root *c15Node, nested, idKeyed map[string]bool, ids []string, self string) []c15Corruption {
	sort.Strings(ids)
	w := &c15Walk{root: root, nested: nested, idKeyed: idKeyed, ids: ids, self: self}
	w.walk(root, "", nil, nil)
	return w.out
}
