package main

// C19, kinds 19..24 of the typed-value model (coq/Model/Framing.v): *polynomial.Exponent, *elgamal.Ciphertext,
// *sch.Commitment, frost sign.messageHash, cmp *config.Public, cmp *config.Config -- generators, Go objects,
// perturbations -- and c19DirectWriteTo: the byte-level correspondence of every value with the model's item
// (domain string and payload) WITHOUT going through BLAKE3: Domain()/WriteTo (or the []byte / *big.Int /
// BinaryMarshaler branch of hash.WriteAny) against op c19.items.
//
// Announced lengths: wherever the model writes a fixed width (Pedersen S, T inside Public / Config) or a minimal width
// (moduli), the saferith object is built with an announced length chosen independently of the value (a deterministic
// function of the printed description, so replays rebuild the same object).

import (
	"bytes"
	"encoding"
	"encoding/binary"
	"encoding/hex"
	"fmt"
	"hash/fnv"
	"math/big"
	"math/rand"
	"reflect"
	"sort"

	"github.com/cronokirby/saferith"
	dcr "github.com/decred/dcrd/dcrec/secp256k1/v4"

	"github.com/taurusgroup/multi-party-sig/pkg/hash"
	"github.com/taurusgroup/multi-party-sig/pkg/math/arith"
	"github.com/taurusgroup/multi-party-sig/pkg/math/curve"
	"github.com/taurusgroup/multi-party-sig/pkg/math/polynomial"
	"github.com/taurusgroup/multi-party-sig/pkg/paillier"
	"github.com/taurusgroup/multi-party-sig/pkg/party"
	"github.com/taurusgroup/multi-party-sig/pkg/pedersen"
	"github.com/taurusgroup/multi-party-sig/pkg/verifhook"
	zksch "github.com/taurusgroup/multi-party-sig/pkg/zk/sch"
	cmpconfig "github.com/taurusgroup/multi-party-sig/protocols/cmp/config"

	"verifharness/sx"
)

const nKindsX = 25 // kinds 0..24

// c19xMessageHash wraps bytes as frost's unexported sign.messageHash.  It is set by c19_kinds_hook.go, which needs the
// verif-tagged export protocols/frost/sign/verif_messagehash.go in /repo (work/c19x/01-hook.diff).
var c19xMessageHash func([]byte) hash.WriterToWithDomain

// ---- points ----

// genPointX: (x odd) of k*G for a random k; with identity = true sometimes the identity, which MarshalBinary writes as 02 00..00.
func genPointX(r *rand.Rand, identity bool) sx.V {
	if identity && r.Intn(10) == 0 {
		return sx.List(sx.Int(0), sx.Bool(false))
	}
	var sc dcr.ModNScalar
	sc.SetByteSlice(randBytes(r, 32))
	if sc.IsZero() {
		sc.SetInt(1)
	}
	var pt dcr.JacobianPoint
	dcr.ScalarBaseMultNonConst(&sc, &pt)
	pt.ToAffine()
	return sx.List(sx.Big(new(big.Int).SetBytes(pt.X.Bytes()[:])), sx.Bool(pt.Y.IsOdd()))
}

func compressedX(p sx.V) []byte {
	b := make([]byte, 33)
	b[0] = 2
	if p.L[1].AsBool() {
		b[0] = 3
	}
	p.L[0].Z.FillBytes(b[1:])
	return b
}

func goPointX(p sx.V) curve.Point {
	if p.L[0].Z.Sign() == 0 && !p.L[1].AsBool() {
		return curve.Secp256k1{}.NewPoint()
	}
	q := curve.Secp256k1{}.NewPoint()
	if err := q.UnmarshalBinary(compressedX(p)); err != nil {
		panic(err)
	}
	return q
}

// G and 2G: fixed points used by perturbations and by the width witness.
var (
	c19xG  = sx.List(sx.Big(hexBig("79BE667EF9DCBBAC55A06295CE870B07029BFCDB2DCE28D959F2815B16F81798")), sx.Bool(false))
	c19x2G = sx.List(sx.Big(hexBig("C6047F9441ED7D6D3045406E95C07CD85C778E4B8CEF3CA7ABAC09B95C709EE5")), sx.Bool(false))
)

func hexBig(s string) *big.Int { z, _ := new(big.Int).SetString(s, 16); return z }

func otherPointX(p sx.V) sx.V {
	if p.String() == c19xG.String() {
		return c19x2G
	}
	return c19xG
}

func descHash(s string, salt string) int {
	h := fnv.New32a()
	h.Write([]byte(salt))
	h.Write([]byte(s))
	return int(h.Sum32() & 0x7fffffff)
}

// ---- config.Public ----

// mode 0: a 2048-bit odd Paillier modulus (what ValidateN admits); mode 1: other widths (outside wf_config, inside wf_public)
func genPublicX(r *rand.Rand, mode int) sx.V {
	var pn *big.Int
	if mode == 0 {
		pn = randBig(r, 2048)
		pn.SetBit(pn, 2047, 1)
		pn.SetBit(pn, 0, 1)
	} else {
		pn = randBig(r, []int{1, 8, 9, 264, 2040, 2047, 2049, 2056}[r.Intn(8)])
		if pn.Sign() == 0 {
			pn.SetInt64(1)
		}
	}
	n := randBig(r, 2048)
	n.SetBit(n, 0, 1)
	s := randBig(r, []int{0, 1, 8, 1000, 2040, 2047, 2048}[r.Intn(7)])
	t := randBig(r, []int{0, 1, 8, 1000, 2040, 2047, 2048}[r.Intn(7)])
	if r.Intn(3) == 0 {
		// S with a zero low byte: the shape in which a byte could move between S and T if widths were announced ones
		s.Lsh(randBig(r, 8+r.Intn(2000)), 8)
	}
	if mode == 1 && r.Intn(4) == 0 {
		// a value that does not fit 256 bytes: Parameters.WriteTo must refuse it (the model says None)
		over := new(big.Int).Lsh(big.NewInt(1), uint(2048+r.Intn(9)))
		switch r.Intn(3) {
		case 0:
			n.Add(n, over)
		case 1:
			s.Add(s, over)
		default:
			t.Add(t, over)
		}
	}
	return sx.List(genPointX(r, true), genPointX(r, true), sx.Big(pn), sx.Big(n), sx.Big(s), sx.Big(t))
}

// announcedBits: an announced bit length >= the true one, chosen from the description
func announcedBits(z *big.Int, desc, salt string, max int) int {
	b := z.BitLen()
	switch descHash(desc, salt) % 4 {
	case 0:
		return b
	case 1:
		return (b + 7) / 8 * 8
	case 2:
		if b+8+descHash(desc, salt+"x")%64 <= max {
			return b + 8 + descHash(desc, salt+"x")%64
		}
	}
	if b > max {
		return b
	}
	return max
}

func goPublicX(p sx.V) *cmpconfig.Public {
	desc := p.String()
	pn, n, s, t := p.L[2].Z, p.L[3].Z, p.L[4].Z, p.L[5].Z
	if n.Sign() == 0 {
		n = big.NewInt(1)
	}
	pnNat := natOf(pn, announcedBits(pn, desc, "pn", pn.BitLen()+64))
	nNat := natOf(n, announcedBits(n, desc, "n", 2048))
	return &cmpconfig.Public{
		ECDSA:    goPointX(p.L[0]),
		ElGamal:  goPointX(p.L[1]),
		Paillier: paillier.NewPublicKey(saferith.ModulusFromNat(pnNat)),
		Pedersen: pedersen.New(arith.ModulusFromN(saferith.ModulusFromNat(nNat)),
			// announced lengths beyond 2048 bits with a value that fits are fine: only the true size counts
			natOf(s, announcedBits(s, desc, "s", 2048+64)), natOf(t, announcedBits(t, desc, "t", 2048+64))),
	}
}

// ---- generators ----

func uniqueIDsX(r *rand.Rand, n int) [][]byte {
	seen := map[string]bool{}
	var out [][]byte
	for len(out) < n {
		var b []byte
		switch r.Intn(4) {
		case 0:
			b = []byte{byte('a' + r.Intn(4))}
		case 1:
			b = append([]byte{byte('a' + r.Intn(3))}, randBytes(r, r.Intn(3))...)
		default:
			b = advBytes(r)
		}
		if len(b) == 0 || seen[string(b)] {
			continue
		}
		seen[string(b)] = true
		out = append(out, b)
	}
	return out
}

func genHvalX(r *rand.Rand, kind int) sx.V {
	k := sx.Int(int64(kind))
	switch kind {
	case 19:
		isc := sx.Bool(r.Intn(2) == 0)
		switch r.Intn(10) {
		case 0:
			return sx.List(k, isc, sx.List()) // nil slice
		case 1:
			return sx.List(k, isc, sx.List(sx.List())) // empty slice
		}
		n := []int{1, 2, 3, 5, 23, 24, 25, 30}[r.Intn(8)]
		pts := make([]sx.V, n)
		for i := range pts {
			pts[i] = genPointX(r, false)
		}
		return sx.List(k, isc, sx.List(sx.List(pts...)))
	case 20:
		return sx.List(k, genPointX(r, true), genPointX(r, true))
	case 21:
		return sx.List(k, genPointX(r, true))
	case 22:
		if r.Intn(12) == 0 {
			return sx.List(k, sx.List())
		}
		if r.Intn(3) == 0 {
			return sx.List(k, sx.List(sx.Bytes(randBytes(r, 32))))
		}
		return sx.List(k, sx.List(sx.Bytes(advBytes(r))))
	case 23:
		if r.Intn(12) == 0 {
			return sx.List(k, sx.List())
		}
		return sx.List(k, sx.List(genPublicX(r, r.Intn(2))))
	case 24:
		if r.Intn(16) == 0 {
			return sx.List(k, sx.List())
		}
		n := 1 + r.Intn(3)
		ids := uniqueIDsX(r, n)
		mode := 0
		if r.Intn(4) == 0 {
			mode = 1
		}
		if r.Intn(2) == 0 {
			// already in Go's string order (the canonical form the model's wf_config asks for); otherwise any order:
			// a Go map has none, and the model sorts like party.NewIDSlice
			sort.Slice(ids, func(i, j int) bool { return string(ids[i]) < string(ids[j]) })
		}
		ents := make([]sx.V, n)
		for i := range ents {
			ents[i] = sx.List(sx.Bytes(ids[i]), genPublicX(r, mode))
		}
		var thr *big.Int
		switch r.Intn(8) {
		case 0:
			thr = new(big.Int).Lsh(big.NewInt(1), 32) // truncated by the uint32 conversion
		case 1:
			thr = big.NewInt(-1)
		case 2:
			thr = big.NewInt(1<<32 - 1)
		default:
			thr = big.NewInt(int64(r.Intn(n)))
		}
		rid := sx.List(sx.Bytes(randBytes(r, 32)))
		switch r.Intn(10) {
		case 0:
			rid = sx.List() // nil RID: WriteTo fails
		case 1:
			rid = sx.List(sx.Bytes(advBytes(r)))
		}
		// chain key: none (nil or empty: one value, length 0), 32 random bytes, other lengths
		var ck []byte
		switch r.Intn(8) {
		case 0, 1:
			ck = nil
		case 2:
			ck = advBytes(r)
		case 3:
			ck = randBytes(r, []int{1, 8, 31, 33, 64}[r.Intn(5)])
		default:
			ck = randBytes(r, 32)
		}
		return sx.List(k, sx.List(sx.List(sx.Big(thr), rid, sx.Bytes(ck), sx.List(ents...))))
	}
	panic("kind")
}

// ---- Go objects ----

// cborHeadX: shortest-form CBOR head, written here independently of the library and of the model
func cborHeadX(major byte, n uint64) []byte {
	switch {
	case n < 24:
		return []byte{major<<5 | byte(n)}
	case n < 1<<8:
		return []byte{major<<5 | 24, byte(n)}
	case n < 1<<16:
		b := []byte{major<<5 | 25, 0, 0}
		binary.BigEndian.PutUint16(b[1:], uint16(n))
		return b
	default:
		b := []byte{major<<5 | 26, 0, 0, 0, 0}
		binary.BigEndian.PutUint32(b[1:], uint32(n))
		return b
	}
}

// goExponentX builds the *polynomial.Exponent with the given flag and coefficient points.  The type has no constructor
// from points, so the object is obtained from the library's own decoder, fed with bytes assembled here by hand
// (count, CBOR map with the two field names, byte strings of compressed points).
func goExponentX(isConst bool, coeffs *[]sx.V) *polynomial.Exponent {
	var b []byte
	n := 0
	if coeffs != nil {
		n = len(*coeffs)
	}
	b = binary.BigEndian.AppendUint32(b, uint32(n))
	b = append(b, 0xa2)
	b = append(b, cborHeadX(3, 10)...)
	b = append(b, "IsConstant"...)
	if isConst {
		b = append(b, 0xf5)
	} else {
		b = append(b, 0xf4)
	}
	b = append(b, cborHeadX(3, 12)...)
	b = append(b, "Coefficients"...)
	if coeffs == nil {
		b = append(b, 0xf6)
	} else {
		b = append(b, cborHeadX(4, uint64(n))...)
		for _, p := range *coeffs {
			b = append(b, cborHeadX(2, 33)...)
			b = append(b, compressedX(p)...)
		}
	}
	e := polynomial.EmptyExponent(curve.Secp256k1{})
	if err := e.UnmarshalBinary(b); err != nil {
		panic(fmt.Sprintf("exponent: %v", err))
	}
	return e
}

func goConfigX(cv sx.V) *cmpconfig.Config {
	thr := cv.L[0].Z
	cfg := &cmpconfig.Config{Group: curve.Secp256k1{}, Public: map[party.ID]*cmpconfig.Public{}}
	// Threshold is a Go int; the description may be any integer that fits
	cfg.Threshold = int(thr.Int64())
	if len(cv.L[1].L) == 1 {
		rid := cv.L[1].L[0].B
		if rid == nil {
			rid = []byte{}
		}
		cfg.RID = verifhook.RID(rid)
	}
	// chain key: an empty description is a nil or an empty (non-nil) slice, chosen from the description -- both have
	// length 0 and are one value in the model
	if ck := cv.L[2].B; len(ck) > 0 {
		cfg.ChainKey = verifhook.RID(append([]byte{}, ck...))
	} else if descHash(cv.String(), "ck")%2 == 0 {
		cfg.ChainKey = verifhook.RID([]byte{})
	}
	for _, e := range cv.L[3].L {
		cfg.Public[party.ID(e.L[0].B)] = goPublicX(e.L[1])
	}
	return cfg
}

func goValueX(v sx.V) interface{} {
	kind := v.L[0].AsInt()
	a := v.L[1:]
	switch kind {
	case 19:
		if len(a[1].L) == 0 {
			return goExponentX(a[0].AsBool(), nil)
		}
		pts := a[1].L[0].L
		if pts == nil {
			pts = []sx.V{}
		}
		return goExponentX(a[0].AsBool(), &pts)
	case 20:
		return &verifhook.ElGamalCiphertext{L: goPointX(a[0]), M: goPointX(a[1])}
	case 21:
		return &zksch.Commitment{C: goPointX(a[0])}
	case 22:
		if c19xMessageHash == nil {
			panic("kind 22 needs the frost messageHash export (work/c19x/01-hook.diff) and harness/c19_kinds_hook.go")
		}
		return c19xMessageHash(optBytesOf(a[0]))
	case 23:
		if len(a[0].L) == 0 {
			return (*cmpconfig.Public)(nil)
		}
		return goPublicX(a[0].L[0])
	case 24:
		if len(a[0].L) == 0 {
			return (*cmpconfig.Config)(nil)
		}
		return goConfigX(a[0].L[0])
	}
	panic("kind")
}

// ---- perturbations: another value of the same kind ----

func bumpX(z *big.Int, bits uint) *big.Int {
	n := new(big.Int).Add(z, big.NewInt(1))
	if n.BitLen() > int(bits) {
		n.Sub(z, big.NewInt(1))
	}
	return n
}

func perturbPublicX(p sx.V, which int) sx.V {
	l := append([]sx.V{}, p.L...)
	switch which % 6 {
	case 0:
		l[0] = otherPointX(l[0])
	case 1:
		l[1] = otherPointX(l[1])
	case 2:
		// keep the byte length of the modulus: flip a low bit
		l[2] = sx.Big(new(big.Int).Xor(l[2].Z, big.NewInt(2)))
		if l[2].Z.Sign() == 0 {
			l[2] = sx.Big(big.NewInt(3))
		}
	case 3:
		l[3] = sx.Big(new(big.Int).Xor(l[3].Z, big.NewInt(2)))
	case 4:
		l[4] = sx.Big(bumpX(l[4].Z, 2048))
	default:
		l[5] = sx.Big(bumpX(l[5].Z, 2048))
	}
	return sx.List(l...)
}

func perturbValueX(v sx.V) *sx.V {
	kind := v.L[0].AsInt()
	which := descHash(v.String(), "perturb")
	var out sx.V
	switch kind {
	case 19:
		if len(v.L[2].L) == 1 && len(v.L[2].L[0].L) > 0 && which%3 != 0 {
			pts := append([]sx.V{}, v.L[2].L[0].L...)
			i := which % len(pts)
			pts[i] = otherPointX(pts[i])
			out = sx.List(v.L[0], v.L[1], sx.List(sx.List(pts...)))
		} else {
			out = sx.List(v.L[0], sx.Bool(!v.L[1].AsBool()), v.L[2])
		}
	case 20:
		if which%2 == 0 {
			out = sx.List(v.L[0], otherPointX(v.L[1]), v.L[2])
		} else {
			out = sx.List(v.L[0], v.L[1], otherPointX(v.L[2]))
		}
	case 21:
		out = sx.List(v.L[0], otherPointX(v.L[1]))
	case 22:
		if len(v.L[1].L) != 1 {
			return nil
		}
		b := append([]byte{}, v.L[1].L[0].B...)
		if len(b) == 0 {
			b = []byte{1}
		} else {
			b[len(b)-1] ^= 1
		}
		out = sx.List(v.L[0], sx.List(sx.Bytes(b)))
	case 23:
		if len(v.L[1].L) != 1 {
			return nil
		}
		out = sx.List(v.L[0], sx.List(perturbPublicX(v.L[1].L[0], which)))
	case 24:
		if len(v.L[1].L) != 1 {
			return nil
		}
		cv := v.L[1].L[0]
		thr, rid, ck, ents := cv.L[0], cv.L[1], cv.L[2], append([]sx.V{}, cv.L[3].L...)
		switch which % 5 {
		case 4:
			// only the chain key changes: last byte flipped, or a byte appended to an empty one
			b := append([]byte{}, ck.B...)
			if len(b) == 0 {
				b = []byte{0}
			} else if which/5%3 == 0 {
				b = b[:len(b)-1]
			} else {
				b[len(b)-1] ^= 1
			}
			ck = sx.Bytes(b)
		case 0:
			t := thr.Z.Int64()
			if t >= 0 && t < 1<<32-1 {
				thr = sx.Big(big.NewInt(t + 1))
			} else {
				thr = sx.Int(0)
			}
		case 1:
			if len(rid.L) == 1 && len(rid.L[0].B) > 0 {
				b := append([]byte{}, rid.L[0].B...)
				b[len(b)-1] ^= 1
				rid = sx.List(sx.Bytes(b))
			} else {
				thr = sx.Big(new(big.Int).Xor(thr.Z, big.NewInt(1)))
			}
		case 2:
			if len(ents) >= 2 && ents[0].L[1].String() != ents[1].L[1].String() {
				// the same public records attached to other parties
				a, b := ents[0], ents[1]
				ents[0] = sx.List(a.L[0], b.L[1])
				ents[1] = sx.List(b.L[0], a.L[1])
				break
			}
			fallthrough
		default:
			i := which / 5 % len(ents)
			ents[i] = sx.List(ents[i].L[0], perturbPublicX(ents[i].L[1], which/20))
		}
		out = sx.List(v.L[0], sx.List(sx.List(thr, rid, ck, sx.List(ents...))))
	default:
		return nil
	}
	return &out
}

// ---- direct byte-level correspondence ----

// goItemX: the (domain, payload) that hash.WriteAny would frame for g, obtained by calling the type's own methods.
func goItemX(g interface{}) (dom string, dat []byte, ok bool, pan string) {
	defer func() {
		if p := recover(); p != nil {
			ok, pan = false, fmt.Sprint(p)
		}
	}()
	switch t := g.(type) {
	case []byte:
		if t == nil {
			return "", nil, false, ""
		}
		return "[]byte", t, true, ""
	case *big.Int:
		if t == nil {
			return "", nil, false, ""
		}
		b, _ := t.GobEncode()
		return "big.Int", b, true, ""
	case hash.WriterToWithDomain:
		var buf bytes.Buffer
		if _, err := t.WriteTo(&buf); err != nil {
			return "", nil, false, ""
		}
		return t.Domain(), buf.Bytes(), true, ""
	case encoding.BinaryMarshaler:
		b, err := t.MarshalBinary()
		if err != nil {
			return "", nil, false, ""
		}
		return reflect.TypeOf(t).String(), b, true, ""
	}
	return "", nil, false, "unsupported type"
}

// c19DirectWriteTo: for every value, Domain() and WriteTo (or the corresponding WriteAny branch) called directly, compared
// byte for byte with the model's item.
func (c *ctx) c19DirectWriteTo(vals []sx.V) {
	if len(vals) == 0 {
		return
	}
	rep, err := c.m.Call("c19.items", sx.List(vals...))
	if err != nil || len(rep.L) != len(vals) {
		c.res.Violate("correspondence", "C19/model-error", fmt.Sprint("c19.items: ", err), c19Replay{SeqA: seqString(vals), What: "model error"})
		return
	}
	for i, v := range vals {
		kind := v.L[0].AsInt()
		dom, dat, gok, pan := goItemX(goValue(v))
		m := rep.L[i]
		mok := len(m.L) == 3
		agree := gok == mok && pan == ""
		wf := false
		if agree && mok {
			agree = dom == string(m.L[0].B) && bytes.Equal(dat, m.L[1].B)
			wf = m.L[2].AsBool()
		}
		c.res.Corr(agree)
		c.res.Case(fmt.Sprintf("direct-kind-%d/wf=%v/ok=%v", kind, wf, gok), v.String(), gok)
		if kind >= 19 {
			c.res.Sample(2, map[string]string{"value": shortX(v.String(), 160), "domain": dom, "payload": shortX(hex.EncodeToString(dat), 96)})
		}
		if !agree {
			md, mb := "", ""
			if mok {
				md, mb = string(m.L[0].B), hex.EncodeToString(m.L[1].B)
			}
			c.res.Violate("correspondence", fmt.Sprintf("C19/direct-writeto-mismatch/kind=%d", kind),
				fmt.Sprintf("Domain()/WriteTo called directly differ from the model's item: go ok=%v dom=%q panic=%q; model ok=%v dom=%q", gok, dom, pan, mok, md),
				c19Replay{SeqA: seqString([]sx.V{v}), GoA: hex.EncodeToString(dat), Model: mb, What: "direct WriteTo", Hints: hintsFor([]sx.V{v})})
			c.c19MismatchSearch(v)
		}
	}
}

// c19xSmallCorpus: one small fixed value of each kind 19..22, checked first so that these kinds are among the cases
// logged for re-evaluation by vm_compute inside Coq (kinds 23/24 exceed the per-case size limit of that log; the Coq side
// evaluates them in Proofs/HvalProofs.v: ex_values_wf and the refutation witnesses).
func (c *ctx) c19xSmallCorpus() {
	for _, v := range []sx.V{
		sx.List(sx.Int(19), sx.Bool(false), sx.List(sx.List(c19xG, c19x2G))),
		sx.List(sx.Int(19), sx.Bool(true), sx.List()),
		sx.List(sx.Int(19), sx.Bool(true), sx.List(sx.List())),
		sx.List(sx.Int(20), c19xG, c19x2G),
		sx.List(sx.Int(21), c19x2G),
		sx.List(sx.Int(21), sx.List(sx.Int(0), sx.Bool(false))),
		sx.List(sx.Int(22), sx.List(sx.Bytes([]byte("(m)")))),
		sx.List(sx.Int(22), sx.List()),
	} {
		c.c19DirectWriteTo([]sx.V{v})
	}
}

func shortX(s string, n int) string {
	if len(s) <= n {
		return s
	}
	return s[:n] + fmt.Sprintf("...(%d)", len(s))
}

// ---- regression pairs of Properties/C19_values.v, on the Go types ----

// c19xWidthWitness returns the two Config descriptions of HvalProofs.wit_config_a / wit_config_b: same threshold, parties
// and RID, different public records, Paillier moduli of 1 and 34 bytes resp. 34 and 1 bytes.  Before the repair of
// Config.WriteTo / Public.WriteTo (length-prefixed RID and modulus) both were written as the same bytes.
func c19xWidthWitness() (a, b sx.V) {
	pow := func(e uint) *big.Int { return new(big.Int).Lsh(big.NewInt(1), 8*e) }
	add := func(x *big.Int, y int64) *big.Int { return new(big.Int).Add(x, big.NewInt(y)) }
	mul := func(x *big.Int, y int64) *big.Int { return new(big.Int).Mul(x, big.NewInt(y)) }
	gx := c19xG.L[0].Z
	encG := new(big.Int).Add(mul(pow(32), 2), gx)
	top, sh := pow(223), pow(33)
	rid := sx.List(sx.Bytes(bytes.Repeat([]byte{7}, 32)))
	pub := func(e, g sx.V, pn, n, s, t *big.Int) sx.V {
		return sx.List(e, g, sx.Big(pn), sx.Big(n), sx.Big(s), sx.Big(t))
	}
	i := func(x int64) *big.Int { return big.NewInt(x) }
	a = sx.List(sx.Int(24), sx.List(sx.List(sx.Int(1), rid, sx.Bytes(nil), sx.List(
		sx.List(sx.Str("a"), pub(c19xG, c19x2G, i(7), add(top, 11), add(top, 12), add(top, 13))),
		sx.List(sx.Str("b"), pub(c19xG, c19x2G, add(mul(encG, 256), 9), i(14), i(15), i(16)))))))
	b = sx.List(sx.Int(24), sx.List(sx.List(sx.Int(1), rid, sx.Bytes(nil), sx.List(
		sx.List(sx.Str("a"), pub(c19xG, c19x2G, add(mul(sh, 7), 1), add(mul(sh, 11), 1), add(mul(sh, 12), 1), new(big.Int).Add(mul(sh, 13), encG))),
		sx.List(sx.Str("b"), pub(c19x2G, c19xG, i(9), i(14), i(15), i(16)))))))
	return
}

// c19xOnePartyWitness: HvalProofs.wit1_config_a / wit1_config_b -- one party, RIDs of 32 and 65 bytes, moduli of 34 and
// 1 bytes; written identically before the repair.
func c19xOnePartyWitness() (a, b sx.V) {
	gx := c19xG.L[0].Z
	encG := new(big.Int).Add(new(big.Int).Lsh(big.NewInt(2), 256), gx)
	rid := bytes.Repeat([]byte{7}, 32)
	pub := func(e, g sx.V, pn *big.Int) sx.V {
		return sx.List(e, g, sx.Big(pn), sx.Int(14), sx.Int(15), sx.Int(16))
	}
	a = sx.List(sx.Int(24), sx.List(sx.List(sx.Int(0), sx.List(sx.Bytes(rid)), sx.Bytes(nil), sx.List(
		sx.List(sx.Str("a"), pub(c19xG, c19x2G, new(big.Int).Add(new(big.Int).Lsh(encG, 8), big.NewInt(9))))))))
	b = sx.List(sx.Int(24), sx.List(sx.List(sx.Int(0), sx.List(sx.Bytes(append(append([]byte{}, rid...), compressedX(c19xG)...))), sx.Bytes(nil), sx.List(
		sx.List(sx.Str("a"), pub(c19x2G, c19xG, big.NewInt(9)))))))
	return
}

// c19xTruncationWitness: Pedersen moduli 5 and 5 + 2^2048 (same S, T): FillBytes into 256 bytes wrote them identically;
// the repaired Parameters.WriteTo refuses the second.
func c19xTruncationWitness() (a, b sx.V) {
	a = sx.List(sx.Int(18), sx.Int(5), sx.Int(1), sx.Int(1))
	b = sx.List(sx.Int(18), sx.Big(new(big.Int).Add(big.NewInt(5), new(big.Int).Lsh(big.NewInt(1), 2048))), sx.Int(1), sx.Int(1))
	return
}

// c19xChainKeyWitness: HvalProofs.wit_ck_config [] / wit_ck_config (repeat 9 32): two configs that differ ONLY in their
// chain key.  Before Config.WriteTo wrote the chain key both had the same bytes, hence the same session tag.
func c19xChainKeyWitness() (a, b sx.V) {
	two2047 := new(big.Int).Lsh(big.NewInt(1), 2047)
	pub := func(d int64) sx.V {
		return sx.List(c19xG, c19x2G, sx.Big(new(big.Int).Add(two2047, big.NewInt(d))), sx.Int(14), sx.Int(15), sx.Int(16))
	}
	rid := sx.List(sx.Bytes(bytes.Repeat([]byte{7}, 32)))
	ents := sx.List(sx.List(sx.Str("a"), pub(1)), sx.List(sx.Str("b"), pub(3)))
	a = sx.List(sx.Int(24), sx.List(sx.List(sx.Int(1), rid, sx.Bytes(nil), ents)))
	b = sx.List(sx.Int(24), sx.List(sx.List(sx.Int(1), rid, sx.Bytes(bytes.Repeat([]byte{9}, 32)), ents)))
	return
}

// c19xWidthProbe: the collision witnesses found against the pre-fix encoders, as a property check on the implementation:
// each pair consists of two DIFFERENT typed values, so the transcript digests must differ (or a value must be refused).
// Also compared with the model value by value (c19DirectWriteTo).
func (c *ctx) c19xWidthProbe() bool {
	type pair struct {
		shape string
		a, b  sx.V
	}
	wa, wb := c19xWidthWitness()
	oa, ob := c19xOnePartyWitness()
	ta, tb := c19xTruncationWitness()
	ka, kb := c19xChainKeyWitness()
	good := true
	for _, p := range []pair{
		{"config-paillier-width-shift", wa, wb},
		{"config-rid-length-shift", oa, ob},
		{"pedersen-truncation", ta, tb},
		{"config-chainkey", ka, kb},
	} {
		c.c19DirectWriteTo([]sx.V{p.a, p.b})
		ga, oka := goDigest([]sx.V{p.a})
		gb, okb := goDigest([]sx.V{p.b})
		c.res.Case("regression-"+p.shape, p.a.String()+"|"+p.b.String(), true)
		if oka && okb && bytes.Equal(ga, gb) {
			good = false
			c.res.Violate("property", "C19/digest-collision/"+p.shape,
				"two different typed values give the same transcript digest",
				c19Replay{Shape: p.shape, SeqA: seqString([]sx.V{p.a}), SeqB: seqString([]sx.V{p.b}),
					GoA: hex.EncodeToString(ga), GoB: hex.EncodeToString(gb), What: "digest collision by framing inside one item"})
		}
	}
	return good
}
