package main

// C13, alteration engine: one field of one message, addressed by a path ("Msg.CombinedPads[5][0]") and changed by
// a named operation. The message types live in /repo/internal/ot and cannot be named here, so the path is walked
// by reflection (all message fields are exported).

import (
	"fmt"
	"math/big"
	"reflect"
	"regexp"
	"strconv"
	"strings"

	"github.com/taurusgroup/multi-party-sig/pkg/math/curve"
)

var c13ScalarType = reflect.TypeOf((*curve.Scalar)(nil)).Elem()

// c13Walk returns the addressable value at path below root (a non-nil pointer to a struct).
func c13Walk(root interface{}, path string) (v reflect.Value, err error) {
	v = reflect.ValueOf(root)
	deref := func() error {
		for v.Kind() == reflect.Ptr || (v.Kind() == reflect.Interface && v.Type() != c13ScalarType) {
			if v.IsNil() {
				return fmt.Errorf("nil on the way")
			}
			v = v.Elem()
		}
		return nil
	}
	if path == "" {
		return v, nil
	}
	for _, tok := range strings.Split(path, ".") {
		name := tok
		var idx []int
		if i := strings.Index(tok, "["); i >= 0 {
			name = tok[:i]
			for _, s := range strings.Split(strings.Trim(tok[i:], "[]"), "][") {
				n, e := strconv.Atoi(s)
				if e != nil {
					return v, e
				}
				idx = append(idx, n)
			}
		}
		if err = deref(); err != nil {
			return
		}
		if v.Kind() != reflect.Struct {
			return v, fmt.Errorf("not a struct at %s", tok)
		}
		v = v.FieldByName(name)
		if !v.IsValid() {
			return v, fmt.Errorf("no field %s", name)
		}
		for _, n := range idx {
			if v.Kind() == reflect.Ptr {
				if err = deref(); err != nil {
					return
				}
			}
			if v.Kind() != reflect.Slice && v.Kind() != reflect.Array {
				return v, fmt.Errorf("not indexable at %s", tok)
			}
			if n < 0 || n >= v.Len() {
				return v, fmt.Errorf("index %d out of range at %s", n, tok)
			}
			v = v.Index(n)
		}
	}
	if !v.CanSet() {
		return v, fmt.Errorf("not settable: %s", path)
	}
	return v, nil
}

// c13Apply performs op on the value at path. Operations:
//
//	byte slices:  flip@k (k<0 from the end), trunc:n, extend:n, nil, zero, ones, set-q (32-byte big-endian q)
//	byte / word arrays: flip@k
//	scalars (curve.Scalar): add1, zero, nil, negate
//	pointers: nil
//	other slices: drop-last, dup-last, empty
func c13Apply(root interface{}, path, op string) error {
	v, err := c13Walk(root, path)
	if err != nil {
		return err
	}
	arg := 0
	name := op
	if i := strings.IndexAny(op, "@:"); i >= 0 {
		name = op[:i]
		arg, err = strconv.Atoi(op[i+1:])
		if err != nil {
			return err
		}
	}
	switch {
	case v.Type() == c13ScalarType:
		var cur curve.Scalar
		if !v.IsNil() {
			cur = v.Interface().(curve.Scalar)
		}
		switch name {
		case "nil":
			v.Set(reflect.Zero(v.Type()))
		case "zero":
			v.Set(reflect.ValueOf(c13Sc(big.NewInt(0))))
		case "add1":
			if cur == nil {
				return fmt.Errorf("nil scalar")
			}
			v.Set(reflect.ValueOf(c13Sc(new(big.Int).Add(c13Z(cur), big.NewInt(1)))))
		case "negate":
			if cur == nil {
				return fmt.Errorf("nil scalar")
			}
			v.Set(reflect.ValueOf(c13Sc(new(big.Int).Neg(c13Z(cur)))))
		default:
			return fmt.Errorf("op %s not for scalars", op)
		}
	case v.Kind() == reflect.Slice && v.Type().Elem().Kind() == reflect.Uint8:
		b := append([]byte{}, v.Bytes()...)
		switch name {
		case "flip":
			k := arg
			if k < 0 {
				k += len(b)
			}
			if k < 0 || k >= len(b) {
				return fmt.Errorf("flip position outside")
			}
			b[k] ^= 1 << uint(k%8)
		case "trunc":
			if arg > len(b) {
				return fmt.Errorf("trunc longer than field")
			}
			b = b[:arg]
		case "extend":
			b = append(b, make([]byte, arg)...)
		case "nil":
			b = nil
		case "zero":
			for i := range b {
				b[i] = 0
			}
		case "ones":
			for i := range b {
				b[i] = 0xff
			}
		case "set-q":
			b = secpQ.FillBytes(make([]byte, 32))
		default:
			return fmt.Errorf("op %s not for byte strings", op)
		}
		if b == nil {
			v.Set(reflect.Zero(v.Type()))
		} else {
			v.SetBytes(b)
		}
	case v.Kind() == reflect.Array:
		if name != "flip" || arg < 0 || arg >= v.Len() {
			return fmt.Errorf("op %s not for arrays", op)
		}
		el := v.Index(arg)
		el.SetUint(el.Uint() ^ 1<<uint(arg%8))
	case v.Kind() == reflect.Ptr:
		if name != "nil" {
			return fmt.Errorf("op %s not for pointers", op)
		}
		v.Set(reflect.Zero(v.Type()))
	case v.Kind() == reflect.Slice:
		switch name {
		case "drop-last":
			if v.Len() == 0 {
				return fmt.Errorf("empty")
			}
			v.Set(v.Slice(0, v.Len()-1))
		case "dup-last":
			if v.Len() == 0 {
				return fmt.Errorf("empty")
			}
			v.Set(reflect.Append(v, v.Index(v.Len()-1)))
		case "empty":
			v.Set(v.Slice(0, 0))
		default:
			return fmt.Errorf("op %s not for lists", op)
		}
	default:
		return fmt.Errorf("cannot alter kind %s", v.Kind())
	}
	return nil
}

var c13IdxRe = regexp.MustCompile(`\[(\d+)\]`)

// c13PathClass replaces every index of a path by [*]: the stable identifier of the altered field (the replay record
// carries the exact path).
func c13PathClass(path string) string { return c13IdxRe.ReplaceAllString(path, "[*]") }

// c13OpClass: flip@k -> flip, trunc:n -> truncated, extend:n -> overlong.
func c13OpClass(op string) string {
	name := op
	if i := strings.IndexAny(op, "@:"); i >= 0 {
		name = op[:i]
	}
	switch name {
	case "trunc":
		return "truncated"
	case "extend":
		return "overlong"
	}
	return name
}

type c13Alt struct{ Msg, Path, Op string }

func (a c13Alt) String() string { return a.Msg + ":" + a.Path + ":" + a.Op }

// alterations of the sender's Multiply message (checked by the receiver in Round2)
func c13AltsS1(th bool) (out []c13Alt) {
	pos := []int{0, 5, 31, 32, 33, 85, 256, 671}
	if th {
		pos = []int{0, 1, 4, 5, 6, 30, 31, 32, 33, 34, 83, 84, 85, 100, 255, 256, 257, 300, 500, 670, 671}
	}
	padOps := []string{"flip@0", "flip@-1", "trunc:5", "trunc:0", "trunc:31", "extend:1", "nil", "set-q"}
	for _, i := range pos {
		for w := 0; w < 2; w++ {
			if !th && w == 1 && i != 5 && i != 32 {
				continue
			}
			for _, op := range padOps {
				out = append(out, c13Alt{"S1", fmt.Sprintf("Msg.CombinedPads[%d][%d]", i, w), op})
			}
		}
	}
	for _, op := range []string{"drop-last", "dup-last", "empty"} {
		out = append(out, c13Alt{"S1", "Msg.CombinedPads", op})
	}
	out = append(out, c13Alt{"S1", "Msg", "nil"})
	rpos := []int{0, 255, 256, 671}
	if th {
		rpos = pos
	}
	for _, i := range rpos {
		for _, op := range []string{"add1", "zero", "negate", "nil"} {
			out = append(out, c13Alt{"S1", fmt.Sprintf("RCheck[%d]", i), op})
		}
	}
	for _, op := range []string{"drop-last", "dup-last", "empty"} {
		out = append(out, c13Alt{"S1", "RCheck", op})
	}
	for _, op := range []string{"add1", "zero", "negate", "nil"} {
		out = append(out, c13Alt{"S1", "UCheck", op})
	}
	return
}

// alterations of the receiver's Multiply message (checked by the sender in Round1: KOS consistency check)
func c13AltsR1(th bool) (out []c13Alt) {
	cols := []int{0, 64, 127}
	if th {
		cols = []int{0, 1, 7, 8, 63, 64, 100, 126, 127}
	}
	for _, i := range cols {
		for _, op := range []string{"flip@0", "flip@83", "flip@84", "flip@-1", "trunc:109", "trunc:0", "extend:1", "nil", "zero"} {
			out = append(out, c13Alt{"R1", fmt.Sprintf("Msg.Msg.CorreMsg.U[%d]", i), op})
		}
	}
	for _, k := range []int{0, 15} {
		out = append(out, c13Alt{"R1", "Msg.Msg.X", fmt.Sprintf("flip@%d", k)})
	}
	for _, k := range []int{0, 1, 2, 3} {
		out = append(out, c13Alt{"R1", "Msg.Msg.T", fmt.Sprintf("flip@%d", k)})
	}
	out = append(out, c13Alt{"R1", "Msg.Msg.CorreMsg", "nil"}, c13Alt{"R1", "Msg.Msg", "nil"}, c13Alt{"R1", "Msg", "nil"})
	return
}
