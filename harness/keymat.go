package main

// keymat.go -- oracles on key material and signatures that do not share code with the library:
// everything is judged by the extracted Coq reference (ref.* : textbook secp256k1 / ECDSA / BIP-340, poly.* : Lagrange over Z_q).

import (
	"bytes"
	"fmt"
	"io"
	"math/big"
	"sort"

	"github.com/zeebo/blake3"

	"github.com/taurusgroup/multi-party-sig/pkg/ecdsa"
	"github.com/taurusgroup/multi-party-sig/pkg/math/curve"
	"github.com/taurusgroup/multi-party-sig/pkg/party"
	"github.com/taurusgroup/multi-party-sig/pkg/taproot"
	"github.com/taurusgroup/multi-party-sig/protocols/cmp"
	"github.com/taurusgroup/multi-party-sig/protocols/doerner"
	"github.com/taurusgroup/multi-party-sig/protocols/frost"
	frostsign "github.com/taurusgroup/multi-party-sig/protocols/frost/sign"

	"verifharness/sx"
)

func scalarZ(s curve.Scalar) *big.Int {
	b, err := s.MarshalBinary()
	if err != nil {
		return nil
	}
	return new(big.Int).SetBytes(b)
}

// ptSx returns the model encoding of a library point: (x y) or () for the identity.
func (c *ctx) ptSx(p curve.Point) (sx.V, error) {
	if p == nil {
		return sx.V{}, fmt.Errorf("nil point")
	}
	if p.IsIdentity() {
		return sx.List(), nil
	}
	b, err := p.MarshalBinary()
	if err != nil {
		return sx.V{}, err
	}
	r, err := c.m.Call("ref.decompress", sx.Bytes(b))
	if err != nil {
		return sx.V{}, err
	}
	if len(r.L) != 1 {
		return sx.V{}, fmt.Errorf("library point %x is not a valid compressed point for the reference", b)
	}
	return r.L[0], nil
}

// refECDSAVerify: the library's full-point ECDSA verification equation, evaluated by the reference.
func (c *ctx) refECDSAVerify(X curve.Point, sig *ecdsa.Signature, hash []byte) (bool, error) {
	if sig == nil || sig.R == nil || sig.S == nil {
		return false, nil
	}
	xs, err := c.ptSx(X)
	if err != nil {
		return false, err
	}
	rs, err := c.ptSx(sig.R)
	if err != nil {
		return false, err
	}
	m, err := c.m.Call("ref.from_hash", sx.Bytes(hash))
	if err != nil {
		return false, err
	}
	r, err := c.m.Call("ref.ecdsa_verify", sx.List(xs, rs, sx.Big(scalarZ(sig.S)), m))
	if err != nil {
		return false, err
	}
	return r.AsBool(), nil
}

// frostChallenge recomputes c = H(R, Y, m) of the plain FROST/Schnorr signature from the model's framing + BLAKE3.
func (c *ctx) frostChallenge(R, Y curve.Point, m []byte) (*big.Int, error) {
	enc := func(p curve.Point) (sx.V, error) {
		b, err := p.MarshalBinary()
		if err != nil {
			return sx.V{}, err
		}
		return sx.List(sx.Int(6), sx.Big(new(big.Int).SetBytes(b[1:])), sx.Bool(b[0] == 3)), nil
	}
	rv, err := enc(R)
	if err != nil {
		return nil, err
	}
	yv, err := enc(Y)
	if err != nil {
		return nil, err
	}
	st, ok, err := c.modelStream([]sx.V{rv, yv, sx.List(sx.Int(15), sx.Str("messageHash"), sx.List(sx.Bytes(m)))})
	if err != nil || !ok {
		return nil, fmt.Errorf("model stream: %v", err)
	}
	h := blake3.New()
	h.Write(st)
	buf := make([]byte, 32)
	io.ReadFull(h.Digest(), buf)
	z := new(big.Int).SetBytes(buf)
	return z.Mod(z, secpQ), nil
}

func (c *ctx) refFrostVerify(Y curve.Point, sig frostsign.Signature, m []byte) (bool, error) {
	ch, err := c.frostChallenge(sig.R, Y, m)
	if err != nil {
		return false, err
	}
	ys, err := c.ptSx(Y)
	if err != nil {
		return false, err
	}
	rs, err := c.ptSx(sig.R)
	if err != nil {
		return false, err
	}
	r, err := c.m.Call("ref.schnorr_verify_c", sx.List(ys, rs, sx.Big(scalarZ(sig.VerifZ())), sx.Big(ch)))
	if err != nil {
		return false, err
	}
	return r.AsBool(), nil
}

func (c *ctx) refBip340Verify(pk, msg, sig []byte) (bool, error) {
	r, err := c.m.Call("ref.bip340_verify", sx.List(sx.Bytes(pk), sx.Bytes(msg), sx.Bytes(sig)))
	if err != nil {
		return false, err
	}
	return r.AsBool(), nil
}

// verifyAnySignature judges a protocol result under the reference verifier. pub: curve.Point or taproot.PublicKey.
func (c *ctx) verifyAnySignature(pub interface{}, result interface{}, msg []byte) (bool, string) {
	switch s := result.(type) {
	case *ecdsa.Signature:
		X, ok := pub.(curve.Point)
		if !ok {
			return false, "public key type"
		}
		v, err := c.refECDSAVerify(X, s, msg)
		if err != nil {
			return false, err.Error()
		}
		return v, ""
	case frostsign.Signature:
		Y, ok := pub.(curve.Point)
		if !ok {
			return false, "public key type"
		}
		v, err := c.refFrostVerify(Y, s, msg)
		if err != nil {
			return false, err.Error()
		}
		return v, ""
	case taproot.Signature:
		pk, ok := pub.(taproot.PublicKey)
		if !ok {
			return false, "public key type"
		}
		v, err := c.refBip340Verify(pk, msg, s)
		if err != nil {
			return false, err.Error()
		}
		return v, ""
	}
	return false, fmt.Sprintf("unknown signature type %T", result)
}

// ---------------------------------------------------------------------------------------------
// key material views

type shareView struct {
	ID       party.ID
	T        int
	Share    *big.Int
	Pub      curve.Point            // group key as a point (taproot: lifted x-only key)
	PubBytes []byte                 // taproot only: the 32-byte key
	Table    map[party.ID]curve.Point
	Chain    []byte
}

func viewOfResult(r interface{}) (*shareView, error) {
	switch cfg := r.(type) {
	case *cmp.Config:
		v := &shareView{ID: cfg.ID, T: cfg.Threshold, Share: scalarZ(cfg.ECDSA), Pub: cfg.PublicPoint(), Table: map[party.ID]curve.Point{}, Chain: cfg.ChainKey}
		for id, p := range cfg.Public {
			v.Table[id] = p.ECDSA
		}
		return v, nil
	case *frost.Config:
		v := &shareView{ID: cfg.ID, T: cfg.Threshold, Share: scalarZ(cfg.PrivateShare), Pub: cfg.PublicKey, Table: map[party.ID]curve.Point{}, Chain: cfg.ChainKey}
		for id, p := range cfg.VerificationShares.Points {
			v.Table[id] = p
		}
		return v, nil
	case *frost.TaprootConfig:
		pt, err := curve.Secp256k1{}.LiftX(cfg.PublicKey)
		if err != nil {
			return nil, err
		}
		v := &shareView{ID: cfg.ID, T: cfg.Threshold, Share: scalarZ(cfg.PrivateShare), Pub: pt, PubBytes: cfg.PublicKey, Table: map[party.ID]curve.Point{}, Chain: cfg.ChainKey}
		for id, p := range cfg.VerificationShares {
			v.Table[id] = p
		}
		return v, nil
	}
	return nil, fmt.Errorf("unknown key material %T", r)
}

func idScalar(id party.ID) *big.Int {
	z := new(big.Int).SetBytes([]byte(id))
	return z.Mod(z, secpQ)
}

func subsetsOfSize(ids []party.ID, k int) [][]party.ID {
	var out [][]party.ID
	var rec func(start int, cur []party.ID)
	rec = func(start int, cur []party.ID) {
		if len(cur) == k {
			out = append(out, append([]party.ID{}, cur...))
			return
		}
		for i := start; i < len(ids); i++ {
			rec(i+1, append(cur, ids[i]))
		}
	}
	rec(0, nil)
	return out
}

// checkSharing evaluates the key-generation consistency conditions (C02) on the material of all parties with the reference:
// same group key and table everywhere; share_i*G = table[i]; every (t+1)-subset of shares interpolates to one secret whose
// public key is the group key; every (t+1)-subset of table entries interpolates to the group key.
// Returns a list of problems (empty = consistent) and the reconstructed secret.
func (c *ctx) checkSharing(views []*shareView, maxSubsets int) ([]string, *big.Int) {
	var probs []string
	if len(views) == 0 {
		return []string{"no key material"}, nil
	}
	sort.Slice(views, func(i, j int) bool { return views[i].ID < views[j].ID })
	v0 := views[0]
	pub0, err := c.ptSx(v0.Pub)
	if err != nil {
		return []string{"group key: " + err.Error()}, nil
	}
	if len(pub0.L) == 0 {
		probs = append(probs, "group key is the identity")
	}
	tbl := map[party.ID]sx.V{}
	for id, p := range v0.Table {
		e, err := c.ptSx(p)
		if err != nil {
			return []string{fmt.Sprintf("table entry %s: %v", id, err)}, nil
		}
		tbl[id] = e
	}
	for _, v := range views[1:] {
		p, err := c.ptSx(v.Pub)
		if err != nil || !p.Equal(pub0) {
			probs = append(probs, fmt.Sprintf("parties %s and %s report different group keys", v0.ID, v.ID))
		}
		if v.T != v0.T {
			probs = append(probs, fmt.Sprintf("parties %s and %s report different thresholds", v0.ID, v.ID))
		}
		if len(v.Table) != len(v0.Table) {
			probs = append(probs, fmt.Sprintf("parties %s and %s report tables of different size", v0.ID, v.ID))
		}
		for id, pt := range v.Table {
			e, err := c.ptSx(pt)
			if err != nil || !e.Equal(tbl[id]) {
				probs = append(probs, fmt.Sprintf("parties %s and %s report different public shares for %s", v0.ID, v.ID, id))
			}
		}
		if !bytes.Equal(v.Chain, v0.Chain) {
			// chain keys are C14's concern; reported there
		}
	}
	// share_i * G = table[i]
	shares := map[party.ID]*big.Int{}
	for _, v := range views {
		shares[v.ID] = v.Share
		g, err := c.m.Call("ref.base_mul", sx.Big(v.Share))
		if err != nil {
			probs = append(probs, err.Error())
			continue
		}
		if !g.Equal(tbl[v.ID]) {
			probs = append(probs, fmt.Sprintf("secret share of %s does not match its public table entry", v.ID))
		}
		if v.Share.Sign() == 0 {
			probs = append(probs, fmt.Sprintf("secret share of %s is zero", v.ID))
		}
	}
	// reconstruction over every (t+1)-subset (of the parties whose shares we hold / of the table)
	var ids []party.ID
	for id := range v0.Table {
		ids = append(ids, id)
	}
	sort.Slice(ids, func(i, j int) bool { return ids[i] < ids[j] })
	var secret *big.Int
	subs := subsetsOfSize(ids, v0.T+1)
	if maxSubsets > 0 && len(subs) > maxSubsets {
		c.res.Rng.Shuffle(len(subs), func(i, j int) { subs[i], subs[j] = subs[j], subs[i] })
		subs = subs[:maxSubsets]
	}
	qv := sx.Big(secpQ)
	for _, S := range subs {
		var xs, ys []sx.V
		haveAll := true
		for _, id := range S {
			xs = append(xs, sx.Big(idScalar(id)))
			if shares[id] == nil {
				haveAll = false
			} else {
				ys = append(ys, sx.Big(shares[id]))
			}
		}
		if haveAll {
			r, err := c.m.Call("poly.interpolate0", sx.List(qv, sx.List(xs...), sx.List(ys...)))
			if err != nil {
				probs = append(probs, err.Error())
				continue
			}
			if secret == nil {
				secret = r.Z
				g, _ := c.m.Call("ref.base_mul", sx.Big(secret))
				if !g.Equal(pub0) {
					probs = append(probs, fmt.Sprintf("shares of %v reconstruct a secret whose public key is not the group key", S))
				}
			} else if secret.Cmp(r.Z) != 0 {
				probs = append(probs, fmt.Sprintf("shares of %v reconstruct a different secret", S))
			}
		}
		// table interpolation: sum lambda_j * X_j
		lam, err := c.m.Call("poly.lagrange_all", sx.List(qv, sx.List(xs...)))
		if err != nil {
			probs = append(probs, err.Error())
			continue
		}
		acc := sx.List()
		for i, id := range S {
			term, err := c.m.Call("ref.pt_mul", sx.List(lam.L[i], tbl[id]))
			if err != nil {
				probs = append(probs, err.Error())
				break
			}
			acc, err = c.m.Call("ref.pt_add", sx.List(acc, term))
			if err != nil {
				probs = append(probs, err.Error())
				break
			}
		}
		if !acc.Equal(pub0) {
			probs = append(probs, fmt.Sprintf("public shares of %v do not interpolate to the group key", S))
		}
	}
	return probs, secret
}

// Doerner: additive sharing  Public = (s_R + s_S) * G
func (c *ctx) checkDoerner(cr *doerner.ConfigReceiver, cs *doerner.ConfigSender) []string {
	var probs []string
	pr, e1 := c.ptSx(cr.Public)
	ps, e2 := c.ptSx(cs.Public)
	if e1 != nil || e2 != nil || !pr.Equal(ps) {
		probs = append(probs, "receiver and sender report different public keys")
	}
	sum := new(big.Int).Add(scalarZ(cr.SecretShare), scalarZ(cs.SecretShare))
	sum.Mod(sum, secpQ)
	g, err := c.m.Call("ref.base_mul", sx.Big(sum))
	if err != nil || !g.Equal(pr) {
		probs = append(probs, "the two secret shares do not combine to the secret key of the reported public key")
	}
	return probs
}
