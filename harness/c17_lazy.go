package main

// C17 -- sessions that END WHILE THE OUTGOING BUFFER IS EXACTLY FULL ("lazy reader").
//
// The histories of c17.go run on the pump, which reads Listen() while every call runs: the channel (capacity 2n) never
// fills up.  Here the user of ONE handler (the victim) does not read Listen() at all until the buffer holds exactly 2n
// messages (len == cap).  That state is reached by every MultiHandler session whose first two emitting rounds need no
// message that depends on the victim's own output: the constructor emits the first round's messages (n in the CMP
// signing sessions: one broadcast and n-1 p2p), and the peers' first-round messages let the victim finalize the next
// round, which emits n more.  The session is then ended -- by Stop, by a peer's abort notice, by an invalid message of the
// current round, or by a message the round code panics on -- and a few more API calls follow (Result, Stop again, a second
// notice, a duplicate) before the reader finally reads everything there is.
// Oracles as in c17History: no call panics or hangs, the ending call ends the session with the right error / culprits,
// Result is stable afterwards, and when the reader has read the buffered messages Listen() IS CLOSED (closed iff ended).
// A call that does not return is judged by the model: legitimate only if hnd.run says BlockedOnSend at that event.
// Every history (victim and peers) is replayed in the Coq model (hnd.run): the messages a call put on the channel are
// attributed to that call when the reader reads them (FIFO), the reader's reads are the model's drain events; what the
// model says about close(out) is compared at the final read (a close cannot be seen on a channel nobody receives from).

import (
	"fmt"
	"math/rand"
	"sort"
	"strings"
	"time"

	"github.com/taurusgroup/multi-party-sig/pkg/party"
	"github.com/taurusgroup/multi-party-sig/pkg/protocol"
	"github.com/taurusgroup/multi-party-sig/pkg/verifhook"
	"github.com/taurusgroup/multi-party-sig/protocols/cmp"

	"verifharness/sx"
)

var c17LazyEnders = []string{"stop", "abort-notice", "invalid-message", "panicking-message"}

type c17LazyViol struct{ kind, key, desc string }

type c17LazyOut struct {
	rp     c17Replay
	class  string
	full   bool
	viols  []c17LazyViol
	corr   []bool
	notes  []string
	sample interface{}
}

// c17LazyMaterial: CMP key material of three parties (cached primes, worker pool), frozen to bytes (c03Mat.freshCMP gives
// every session private objects)
func c17LazyMaterial() (*c03Mat, error) {
	m := &c03Mat{msg: c03Msg, ids: idsOf("alice", "bob", "carl")}
	usePrimeCache()
	p, done := c03Pooled(c03ProtoCMPKeygen(m))
	res, err := c03ResultsOf(c03RunHonest(p, 14))
	done()
	if err != nil {
		return nil, err
	}
	m.cmpCfg = map[party.ID]*cmp.Config{}
	for id, r := range res {
		m.cmpCfg[id], _ = r.(*cmp.Config)
		if m.cmpCfg[id] == nil {
			return nil, fmt.Errorf("party %s: no config", id)
		}
	}
	m.freeze()
	if len(m.errs) > 0 {
		return nil, fmt.Errorf("%v", m.errs)
	}
	return m, nil
}

// c17LazySpec: proto "cmp-sign" or "cmp-presign" (offline presigning: the same first rounds, found by the learned shape: the
// constructor and the round after it emit n messages each and need nothing that depends on the party's own output)
func c17LazySpec(m *c03Mat, proto string, n int) SessionSpec {
	signers := append([]party.ID{}, m.ids[:n]...)
	return SessionSpec{Name: fmt.Sprintf("%s/n=%d/lazy-reader", proto, n), IDs: signers, SessionID: []byte("c17-lazy"),
		Start: func(id party.ID) protocol.StartFunc {
			if proto == "cmp-presign" {
				return cmp.Presign(m.freshCMP(id), signers, nil)
			}
			return cmp.Sign(m.freshCMP(id), signers, m.msg, nil)
		}}
}

// lazy victim: calls run WITHOUT anybody reading Listen()
type c17Lazy struct {
	s      *Sim
	n      *Node
	attrib [][2]int          // FIFO: (observation index, messages that call put on the channel and nobody has read yet)
	hashes map[uint16][]byte // the handler's view digests after the last call that returned
}

// c17LazyModelRT: the model's runtime tag after the victim's recorded events (2 = BlockedOnSend), computed WITHOUT touching the
// handler (a call that has not returned holds its lock).  The digest tables only influence what the model accepts, not whether
// a send blocks; the view digests are those of the last call that returned, the own-broadcast fingerprints are left empty.
func (c *ctx) c17LazyModelRT(l *c17Lazy, sh shapeInfo) (int64, error) {
	s, n := l.s, l.n
	var vht []sx.V
	for r, d := range l.hashes {
		vht = append(vht, sx.List(sx.Int(int64(r)), sx.Int(s.Intern("digest", d))))
	}
	sort.Slice(vht, func(i, j int) bool { return vht[i].L[0].Z.Cmp(vht[j].L[0].Z) < 0 })
	ssid, proto := int64(0), int64(0)
	for _, p := range s.Nodes {
		if len(p.Out) > 0 {
			ssid, proto = s.Intern("ssid", nonNil(p.Out[0].SSID)), s.Intern("proto", []byte(p.Out[0].Protocol))
			break
		}
	}
	arg := sx.List(sx.Int(int64(n.Idx)), sx.Int(int64(len(s.IDs))), sx.Int(ssid), sx.Int(proto), sh.sx(),
		sx.List(vht...), sx.List(), sx.Bool(true), sx.List(n.Events...))
	rep, err := c.m.Call("hnd.run", arg)
	if err != nil {
		return -1, err
	}
	if len(rep.L) == 0 || rep.L[len(rep.L)-1].Kind != 2 || len(rep.L[len(rep.L)-1].L) != 11 {
		return -1, fmt.Errorf("unexpected model reply")
	}
	return rep.L[len(rep.L)-1].L[6].Z.Int64(), nil
}

func (l *c17Lazy) pending() (int, int) {
	ch := l.n.H.Listen()
	return len(ch), cap(ch)
}

func (l *c17Lazy) call(f func()) (pan string, hung bool) {
	done := make(chan string, 1)
	go func() {
		defer muxEnter(l.s.det)()
		defer func() {
			if r := recover(); r != nil {
				done <- "PANIC: " + fmt.Sprint(r)
			} else {
				done <- ""
			}
		}()
		f()
	}()
	select {
	case p := <-done:
		return strings.TrimPrefix(p, "PANIC: "), false
	case <-time.After(l.s.AcceptTimeout):
		return "", true
	}
}

// record: event ev, executed by f without reading the channel
func (l *c17Lazy) record(ev sx.V, f func(), extra func() int) Obs {
	s, n := l.s, l.n
	if s.det != nil {
		s.det.setParty(string(n.Label))
	}
	before, _ := l.pending()
	n.Events = append(n.Events, ev)
	pan, hung := l.call(f)
	x := 0
	if extra != nil && !hung {
		x = extra()
	}
	o := s.observe(n, nil, pan, x, hung)
	n.Obs = append(n.Obs, o)
	if !hung {
		l.hashes = n.MH.VerifState().Hashes
	}
	if after, _ := l.pending(); after > before {
		l.attrib = append(l.attrib, [2]int{len(n.Obs) - 1, after - before})
	}
	return o
}

func (l *c17Lazy) deliver(e *Env) Obs {
	return l.record(sx.List(sx.Int(0), l.s.msgSxP(e.Msg, e.Valid, e.Panics)), func() { l.n.H.Accept(e.Msg) }, nil)
}

// drainAll: the reader reads whatever is buffered (and sees the close, if there is one); model event (2 k)
func (l *c17Lazy) drainAll() int {
	s, n := l.s, l.n
	msgs := s.collect(n)
	for _, m := range msgs {
		for len(l.attrib) > 0 && l.attrib[0][1] == 0 {
			l.attrib = l.attrib[1:]
		}
		if len(l.attrib) > 0 {
			i := l.attrib[0][0]
			n.Obs[i].NewOut = append(n.Obs[i].NewOut, s.outSx(m))
			l.attrib[0][1]--
		}
	}
	n.Events = append(n.Events, sx.List(sx.Int(2), sx.Int(int64(len(msgs)))))
	n.Out = append(n.Out, msgs...)
	n.Obs = append(n.Obs, s.observe(n, nil, "", 0, false))
	s.enqueue(n, msgs)
	return len(msgs)
}

func c17LazyKey(spec, ender, what string) string {
	return "C17/" + spec + "/" + ender + "/" + strings.SplitN(what, ":", 2)[0]
}

// c17LazyHistory runs one history; refOut: what every party emitted in an honest reference run of the same spec (the
// panicking-message ender offers the victim a well-formed broadcast of its current round taken from there)
func (c *ctx) c17LazyHistory(sp SessionSpec, seed int64, ender string, sh shapeInfo, refOut map[party.ID][]*protocol.Message) *c17LazyOut {
	out := &c17LazyOut{class: sp.Name + "/" + ender}
	det := newMuxDetReader(seed)
	defer muxEnter(det)()
	rng := rand.New(rand.NewSource(seed))
	sorted := party.NewIDSlice(sp.IDs)
	victim := sorted[rng.Intn(len(sorted))]
	vi := 0
	for i, x := range sorted {
		if x == victim {
			vi = i
		}
	}
	peer := sorted[(vi+1+rng.Intn(len(sorted)-1))%len(sorted)]
	var hist []string
	out.rp = c17Replay{Spec: sp.Name + "/" + ender, Seed: seed, Victim: string(victim)}
	bad := func(what string) {
		out.viols = append(out.viols, c17LazyViol{"property", c17LazyKey(sp.Name, ender, what), what})
		if out.rp.What == "" {
			out.rp.What = what
		}
	}
	defer func() {
		if r := recover(); r != nil {
			out.notes = append(out.notes, fmt.Sprintf("%s seed %d: harness panic: %v", out.class, seed, r))
		}
		out.rp.History = hist
	}()
	// the panicking message: a broadcast of `peer` for the round the victim is in when its buffer is full
	var plan *c17PanicPlan
	psp := sp
	if ender == "panicking-message" {
		plan = &c17PanicPlan{Val: roundPanicValue}
		psp = c17WithPanic(sp, victim, plan)
	}
	s := NewSim(sp.IDs, rng, det)
	s.AcceptTimeout = 60 * time.Second
	var lz *c17Lazy
	for _, id := range s.IDs {
		if id != victim {
			n := s.AddMulti(id, psp.Start(id), sp.SessionID)
			if n.H == nil {
				out.notes = append(out.notes, fmt.Sprintf("%s: handler of %s not created: %v", out.class, id, n.StartErr))
				return out
			}
			anDrained(n, n.Obs[0])
			continue
		}
		// the victim's handler: nobody reads what the constructor emitted
		n := &Node{Label: id, ID: id, Idx: s.idx(id)}
		s.Nodes[id] = n
		det.setParty(string(id))
		h, err := protocol.NewMultiHandler(psp.Start(id), sp.SessionID)
		if err != nil {
			out.notes = append(out.notes, fmt.Sprintf("%s: handler of %s not created: %v", out.class, id, err))
			return out
		}
		n.H, n.MH = h, h
		lz = &c17Lazy{s: s, n: n}
		n.Obs = append(n.Obs, s.observe(n, nil, "", 0, false))
		if k, _ := lz.pending(); k > 0 {
			lz.attrib = append(lz.attrib, [2]int{0, k})
		}
	}
	s.Seal()
	v := lz.n
	ended, endClass, endFP := false, 0, ""
	check := func() {
		o := v.Obs[len(v.Obs)-1]
		if o.Panic != "" {
			bad("panic: " + o.Panic)
		}
		cl, fp := resultClass(v.H)
		if cl == 3 {
			bad("result-nil-nil: Result returned neither a value nor an error")
		}
		if ended {
			if cl != endClass || fp != endFP {
				bad(fmt.Sprintf("result-changed: Result changed after the end (%d -> %d)", endClass, cl))
			}
		} else if cl != 0 {
			ended, endClass, endFP = true, cl, fp
		}
	}
	// a call that did not return: legitimate iff the model is blocked on the send at that event
	blocked := func(what string) {
		// (the blocked call holds the handler's lock: nothing that takes it -- VerifState, Result -- may be called from here on)
		rt, err := c.c17LazyModelRT(lz, sh)
		k, cp := lz.pending()
		if err == nil && rt == 2 && k == cp {
			out.notes = append(out.notes, fmt.Sprintf("%s seed %d: %s blocks on the full buffer as the model says (BlockedOnSend); history ends here", out.class, seed, what))
			out.class += "/blocked-as-modelled"
			return
		}
		bad(fmt.Sprintf("blocked: %s did not return (buffer %d/%d, model runtime tag %d, BlockedOnSend = 2)", what, k, cp, rt))
	}
	// ---- phase 1: traffic, nobody reads the victim's channel, until its buffer is exactly full ----
	for steps := 0; steps < 400 && len(s.Flight) > 0; steps++ {
		if k, cp := lz.pending(); k == cp {
			out.full = true
			break
		}
		e := s.take(rng.Intn(len(s.Flight)))
		hist = append(hist, "deliver "+envName(e))
		if e.To != victim {
			anDrained(s.Nodes[e.To], s.Deliver(e))
			continue
		}
		o := lz.deliver(e)
		if o.Hung {
			blocked("Accept of " + envName(e))
			return out
		}
		check()
		if ended {
			bad("ended-early: the session ended on genuine traffic")
			return out
		}
	}
	if k, cp := lz.pending(); k == cp {
		out.full = true
	}
	if !out.full {
		k, cp := lz.pending()
		out.notes = append(out.notes, fmt.Sprintf("%s seed %d: the buffer did not fill up (%d/%d) with nobody reading", out.class, seed, k, cp))
		out.class += "/not-full"
	}
	st := v.MH.VerifState()
	cur := st.Round
	hdr := func() *protocol.Message {
		// header of a message of `peer` in this session
		for _, m := range s.Nodes[peer].Out {
			return &protocol.Message{SSID: m.SSID, From: peer, Protocol: m.Protocol}
		}
		return nil
	}
	// ---- phase 2: the session ends while the buffer is full ----
	var o Obs
	switch ender {
	case "stop":
		hist = append(hist, "Stop")
		o = lz.record(sx.List(sx.Int(1)), func() { v.H.Stop() }, nil)
		if !o.Hung && (o.Class != 2 || len(o.Culprits) != 1 || o.Culprits[0] != v.Idx || o.ErrKind != 5) {
			bad("stop-ineffective: Stop on a running session did not end it with the user's abort")
		}
	case "abort-notice":
		m := hdr()
		m.Data = []byte("peer failed")
		hist = append(hist, "abort-notice from "+string(peer))
		o = lz.deliver(&Env{Msg: m, To: victim, Valid: true, Tag: "/abort-notice"})
		if !o.Hung && (o.Class != 2 || len(o.Culprits) != 1 || o.Culprits[0] != s.idx(peer)) {
			bad("abort-notice: a peer's abort notice did not end the session naming exactly that peer")
		}
	case "invalid-message":
		// a broadcast of the victim's current round (same view of the previous round) whose content does not decode
		m := hdr()
		m.RoundNumber, m.Broadcast, m.Data = protocolRound(cur), true, []byte{0xff, 0x00, 0x17}
		m.BroadcastVerification = st.Hashes[cur-1]
		if !sh.Bcast[int(cur)] {
			m.Broadcast = false
			m.To = victim
		}
		hist = append(hist, fmt.Sprintf("invalid r%d message from %s", cur, peer))
		o = lz.deliver(&Env{Msg: m, To: victim, Valid: false, Tag: "/invalid"})
		if !o.Hung && (o.Class != 2 || len(o.Culprits) != 1 || o.Culprits[0] != s.idx(peer)) {
			bad("invalid-message: a message of the current round that does not decode did not end the session naming its sender")
		}
	case "panicking-message":
		// a well-formed broadcast of the current round (the reference run's own, under the peer's name): the round code panics on it
		var data []byte
		bc := sh.Bcast[int(cur)]
		for _, rm := range refOut[""] {
			if rm.RoundNumber == protocolRound(cur) && rm.Broadcast == bc {
				data = rm.Data
				break
			}
		}
		if data == nil {
			out.notes = append(out.notes, fmt.Sprintf("%s seed %d: no well-formed round-%d content in the reference run", out.class, seed, cur))
			out.class += "/no-panic-point"
			break
		}
		plan.Pt = c17PanicPoint{Round: int(cur), From: string(peer), Bcast: bc}
		m := hdr()
		m.RoundNumber, m.Broadcast, m.Data = protocolRound(cur), bc, data
		m.BroadcastVerification = st.Hashes[cur-1]
		if !bc {
			m.To = victim
		}
		hist = append(hist, "processing "+plan.Pt.String()+" panics")
		o = lz.deliver(&Env{Msg: m, To: victim, Valid: true, Panics: 1, Tag: "/panics"})
		if plan.Fired() == 0 {
			out.notes = append(out.notes, fmt.Sprintf("%s seed %d: the round code was not reached by the message meant to panic (%.80s)", out.class, seed, o.ErrText))
			out.class += "/panic-not-reached"
		} else if !o.Hung && o.Panic == "" && (o.Class != 2 || !strings.HasPrefix(o.ErrText, c17PanicErrPrefix) || len(o.Culprits) != 0) {
			bad(fmt.Sprintf("panic-not-contained: a panic while processing %s did not end the session cleanly (class %d, error %.80q, culprits %v)", plan.Pt, o.Class, o.ErrText, o.Culprits))
		}
	}
	if o.Hung {
		blocked("the ending call (" + ender + ")")
		return out
	}
	check()
	// ---- phase 3: more API calls on the ended session, still nobody reading ----
	for k, nk := 0, 2+rng.Intn(3); k < nk; k++ {
		switch rng.Intn(4) {
		case 0:
			hist = append(hist, "Stop")
			o = lz.record(sx.List(sx.Int(1)), func() { v.H.Stop() }, nil)
		case 1:
			m := hdr()
			m.Data = []byte("peer failed again")
			hist = append(hist, "abort-notice from "+string(peer))
			o = lz.deliver(&Env{Msg: m, To: victim, Valid: true, Tag: "/abort-notice"})
		case 2:
			if ms := s.Nodes[peer].Out; len(ms) > 0 {
				m := ms[rng.Intn(len(ms))]
				if m.IsFor(victim) {
					hist = append(hist, "dup "+envName(&Env{Msg: m, To: victim}))
					var res bool
					o = lz.record(sx.List(sx.Int(3), s.msgSx(m, true)), func() { res = v.H.CanAccept(m) }, func() int {
						if res {
							return 1
						}
						return 0
					})
					if !o.Hung {
						check()
						o = lz.deliver(&Env{Msg: m, To: victim, Valid: true, Tag: "/dup"})
					}
					break
				}
			}
			fallthrough
		default:
			hist = append(hist, "Result")
		}
		if o.Hung {
			bad("blocked: a call on the ended session did not return")
			return out
		}
		check()
	}
	// ---- phase 4: the reader reads everything there is ----
	k0, _ := lz.pending()
	got := lz.drainAll()
	hist = append(hist, fmt.Sprintf("reader reads %d messages", got))
	check()
	cl, _ := resultClass(v.H)
	if cl != 0 && !v.closed {
		// one more non-blocking look, like c17History
		time.Sleep(2 * time.Millisecond)
		got2 := lz.drainAll()
		hist = append(hist, fmt.Sprintf("reader reads %d messages", got2))
		if !v.closed {
			bad(fmt.Sprintf("not-closed: session ended (%s) while the outgoing buffer was full; the reader has read all %d buffered messages but Listen() is still open", ender, k0))
		}
	}
	if cl == 0 && v.closed {
		bad("closed-early: Listen() closed while Result says not finished")
	}
	check()
	out.sample = map[string]interface{}{"spec": sp.Name, "ender": ender, "victim": victim, "history": hist, "buffer_full": out.full}
	// ---- model replay of every node ----
	last := len(v.Obs) - 1
	var labels []string
	for l := range s.Nodes {
		labels = append(labels, string(l))
	}
	sort.Strings(labels)
	for _, l := range labels {
		n := s.Nodes[party.ID(l)]
		var norm func(i int, model, real sx.V) (sx.V, sx.V)
		if n == v {
			// close(out) cannot be seen before the reader has read past the buffered messages: compared at the final read only
			norm = func(i int, model, real sx.V) (sx.V, sx.V) {
				if i == last || model.Kind != 2 || len(model.L) != 11 || real.Kind != 2 || len(real.L) != 11 {
					return model, real
				}
				ml, rl := append([]sx.V{}, model.L...), append([]sx.V{}, real.L...)
				ml[5], rl[5] = sx.Int(0), sx.Int(0)
				return sx.List(ml...), sx.List(rl...)
			}
		}
		i, mo, ro, err := c.CompareWithModelNorm(s, n, sh, true, norm)
		if err != nil {
			out.corr = append(out.corr, false)
			out.viols = append(out.viols, c17LazyViol{"correspondence", "C17/model-error", err.Error()})
			continue
		}
		out.corr = append(out.corr, i < 0)
		if i >= 0 {
			out.viols = append(out.viols, c17LazyViol{"correspondence", "C17/handler-model/" + sp.Name,
				fmt.Sprintf("handler state differs from the Coq model after event %d of %s (lazy reader, %s): model %s, handler %s", i, l, ender, mo, ro)})
		}
	}
	return out
}

func protocolRound(r uint16) verifhook.RoundNumber { return verifhook.RoundNumber(r) }

// c17LazyRun: the lazy-reader histories of a run (or the one named by a replay file)
func (c *ctx) c17LazyRun(only *c17Replay) {
	t0 := time.Now()
	m, err := c17LazyMaterial()
	if err != nil {
		c.res.Note("lazy reader: CMP key material not available: %v", err)
		return
	}
	tMat := time.Since(t0).Seconds()
	installMux()
	defer restoreRandReader()
	type job struct {
		sp    SessionSpec
		seed  int64
		ender string
		sh    shapeInfo
		ref   map[party.ID][]*protocol.Message
		out   *c17LazyOut
	}
	var jobs []*job
	reps := 1
	if c.thorough() {
		reps = 6
	}
	var shapes []shapeInfo
	var refs []map[party.ID][]*protocol.Message
	type pn struct {
		proto string
		n     int
	}
	specs := []pn{{"cmp-sign", 2}, {"cmp-sign", 3}}
	if c.thorough() || (only != nil && strings.HasPrefix(only.Spec, "cmp-presign/")) {
		specs = append(specs, pn{"cmp-presign", 2}, pn{"cmp-presign", 3})
	}
	lastProto := ""
	for si, x := range specs {
		n := x.n
		sp := c17LazySpec(m, x.proto, n)
		if only != nil && !strings.HasPrefix(only.Spec, x.proto+"/") {
			continue
		}
		if only != nil && n != 2 && !strings.HasPrefix(only.Spec, sp.Name+"/") {
			continue
		}
		// shape and well-formed contents from an honest in-order run.  Quick tier: the 2-signer run serves both specs (the round
		// table of the protocol and the type of a round's content do not depend on the number of signers; the model replay of
		// the 3-signer histories would show a wrong table)
		if x.proto != lastProto || c.thorough() {
			lastProto = x.proto
			var sh shapeInfo
			refOut := map[party.ID][]*protocol.Message{}
			func() {
				det := newMuxDetReader(5)
				defer muxEnter(det)()
				ref := sp.build(rand.New(rand.NewSource(5)), det)
				ref.RunFIFO(10000)
				sh = ref.learnShape()
				for _, nd := range ref.Nodes {
					refOut[""] = append(refOut[""], nd.Out...)
				}
			}()
			shapes = append(shapes, sh)
			refs = append(refs, refOut)
		}
		sh, refOut := shapes[len(shapes)-1], refs[len(refs)-1]
		if only != nil && !strings.HasPrefix(only.Spec, sp.Name+"/") {
			continue
		}
		for ei, ender := range c17LazyEnders {
			if only != nil {
				if only.Spec == sp.Name+"/"+ender {
					jobs = append(jobs, &job{sp: sp, seed: only.Seed, ender: ender, sh: sh, ref: refOut})
				}
				continue
			}
			for r := 0; r < reps; r++ {
				jobs = append(jobs, &job{sp: sp, seed: c.res.Seed*100000 + 90000 + int64(si/2*4000+n*1000+ei*100+r), ender: ender, sh: sh, ref: refOut})
			}
		}
	}
	tRef := time.Since(t0).Seconds()
	c04ParallelDo(len(jobs), func(i int) { j := jobs[i]; j.out = c.c17LazyHistory(j.sp, j.seed, j.ender, j.sh, j.ref) })
	full := 0
	for _, j := range jobs {
		o := j.out
		if o == nil {
			continue
		}
		if o.full {
			full++
		}
		c.res.Case(o.class, fmt.Sprintf("%s/%d/%s", o.class, j.seed, strings.Join(o.rp.History, ",")), o.full)
		if o.sample != nil {
			c.res.Sample(2, o.sample)
		}
		for _, n := range o.notes {
			c.res.Note("%s", n)
		}
		for _, ok := range o.corr {
			c.res.Corr(ok)
		}
		for _, v := range o.viols {
			rp := o.rp
			rp.What = v.desc
			c.res.Violate(v.kind, v.key, v.desc, rp)
		}
	}
	c.res.Note("lazy reader: %d histories (%d with the buffer exactly full when the session ended); key material %.1f s, reference runs %.1f s, all %.1f s", len(jobs), full, tMat, tRef-tMat, time.Since(t0).Seconds())
}
