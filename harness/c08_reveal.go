package main

// C08 -- a refresh in which a peer REVEALS ANOTHER VALUE THAN IT COMMITTED TO.
//
// The refresh protocols fix every party's contribution before anybody reveals his: the Doerner Receiver commits to its
// refresh scalar rR in the first message, the Sender answers with rS in the clear, the Receiver then opens the commitment; the
// new shares are sR - rR + rS... resp. sS + rS - rR.  A Receiver that could reveal a scalar chosen AFTER seeing rS controls
// the offset rS - rR: revealing rS itself leaves the honest Sender's share exactly as it was (the refresh retires nothing).
// FROST (+Taproot) refresh: every party commits to its chain-key contribution in round 1 and opens it in round 2.
// Here the deviating peer runs the real code and the revealed value is rewritten on the wire (CBOR field, c03_cbor.go):
// a random other value, the value the honest peer itself revealed, zero.  The honest party must refuse.  If it completes,
// that is reported (`.../accepted`) together with what follows for its share: unchanged by the refresh / the old share of
// the peer and the new share of the honest party still combine to the key.

import (
	"bytes"
	"fmt"
	"math/big"
	"math/rand"
	"strings"

	"github.com/fxamacker/cbor/v2"
	"github.com/taurusgroup/multi-party-sig/pkg/math/curve"
	"github.com/taurusgroup/multi-party-sig/pkg/party"
	"github.com/taurusgroup/multi-party-sig/pkg/protocol"
	"github.com/taurusgroup/multi-party-sig/protocols/doerner"
	"github.com/taurusgroup/multi-party-sig/protocols/frost"

	"verifharness/sx"
)

const c08RevealScenario = "reveal-differs-from-commitment"

var c08RevealVariants = []string{"random", "peer-value", "zero"}

type c08RevealReplay struct {
	Scenario string   `json:"scenario"`
	Protocol string   `json:"protocol"`
	Variant  string   `json:"variant"`
	Seed     int64    `json:"seed"`
	Problems []string `json:"problems,omitempty"`
}

func (rp c08RevealReplay) key() string {
	return fmt.Sprintf("C08/%s/refresh/%s/%s/accepted", rp.Protocol, c08RevealScenario, rp.Variant)
}

// c08RewriteLeaf: msg with the byte-string leaf at `path` of its CBOR content replaced (nil if the path is not there)
func c08RewriteLeaf(m *protocol.Message, path string, val []byte) *protocol.Message {
	root, err := c03CborParse(m.Data)
	if err != nil {
		return nil
	}
	n := root.find(path)
	if n == nil || n.Maj != 2 {
		return nil
	}
	n.B = append([]byte{}, val...)
	n.Emb = nil
	cp := *m
	cp.Data = root.bytes()
	return &cp
}

func c08LeafBytes(m *protocol.Message, path string) []byte {
	root, err := c03CborParse(m.Data)
	if err != nil {
		return nil
	}
	if n := root.find(path); n != nil && n.Maj == 2 {
		return n.B
	}
	return nil
}

func c08AltValue(variant string, rng *rand.Rand, own, peer []byte) []byte {
	switch variant {
	case "zero":
		return make([]byte, len(own))
	case "peer-value":
		if len(peer) == len(own) {
			return peer
		}
		return nil
	}
	for {
		b := make([]byte, len(own))
		rng.Read(b)
		if len(b) == 32 {
			b[0] &= 0x7f // below the group order
		}
		if !bytes.Equal(b, own) && !bytes.Equal(b, peer) {
			return b
		}
	}
}

// ---- Doerner: the Receiver commits (message 1), the Sender reveals rS (message 2), the Receiver opens (message 3) ----

func (c *ctx) c08RevealDoerner(rp c08RevealReplay) {
	ids := idsOf("recv", "send")
	g := curve.Secp256k1{}
	kg := twoPartySim(ids, nil, doerner.Keygen(g, true, ids[0], ids[1], nil), doerner.Keygen(g, false, ids[1], ids[0], nil), []byte("c08rv"), true, false)
	kg.RunFIFO(10000)
	rr, _ := resultOf(kg.Nodes[ids[0]])
	rs, _ := resultOf(kg.Nodes[ids[1]])
	cr, ok1 := rr.(*doerner.ConfigReceiver)
	cs, ok2 := rs.(*doerner.ConfigSender)
	if !ok1 || !ok2 {
		c.res.Note("%s: doerner keygen did not complete", rp.key())
		return
	}
	// private objects for the refresh (the keygen results stay untouched: they are the "old" epoch)
	crB, e1 := cbor.Marshal(cr)
	csB, e2 := cbor.Marshal(cs)
	cr1, cs1 := doerner.EmptyConfigReceiver(g), doerner.EmptyConfigSender(g)
	if e1 != nil || e2 != nil || cbor.Unmarshal(crB, cr1) != nil || cbor.Unmarshal(csB, cs1) != nil {
		c.res.Note("%s: doerner configs do not round-trip", rp.key())
		return
	}
	oldS, oldR := scalarZ(cs.SecretShare), scalarZ(cr.SecretShare)
	rng := rand.New(rand.NewSource(rp.Seed))
	var senderScalar []byte
	applied := false
	s := NewSim(ids, rand.New(rand.NewSource(1)), nil)
	s.OnEmit = func(from party.ID, e *Env) []*Env {
		if from == ids[1] {
			if b := c08LeafBytes(e.Msg, ".RefreshScalar"); b != nil {
				senderScalar = b
			}
			return []*Env{e}
		}
		own := c08LeafBytes(e.Msg, ".RefreshScalar")
		if own == nil || c08LeafBytes(e.Msg, ".RefreshDecommit") == nil {
			return []*Env{e}
		}
		alt := c08AltValue(rp.Variant, rng, own, senderScalar)
		if alt == nil {
			return []*Env{e}
		}
		if m := c08RewriteLeaf(e.Msg, ".RefreshScalar", alt); m != nil {
			applied = !bytes.Equal(alt, own)
			e.Msg, e.Valid, e.Tag = m, false, "/reveal-rewritten"
		}
		return []*Env{e}
	}
	s.AddTwoParty(ids[0], doerner.RefreshReceiver(cr1, ids[0], ids[1], nil), []byte("c08rv-r"), true)
	s.AddTwoParty(ids[1], doerner.RefreshSender(cs1, ids[1], ids[0], nil), []byte("c08rv-r"), false)
	s.Seal()
	s.RunFIFO(10000)
	res, errText := resultOf(s.Nodes[ids[1]])
	class := "doerner/refresh/" + c08RevealScenario + "/" + rp.Variant
	if !applied {
		c.res.Case(class+"/not-applied", rp.key(), false)
		c.res.Note("%s: the Receiver's revealed refresh scalar was not rewritten (message layout changed?)", rp.key())
		return
	}
	cs2, done := res.(*doerner.ConfigSender)
	if !done {
		c.res.Case(class+"/refused", rp.key(), true)
		c.res.Sample(3, map[string]interface{}{"case": rp, "honest_sender": errText})
		return
	}
	c.res.Case(class+"/accepted", rp.key(), true)
	probs := []string{"the honest Sender completed the refresh although the Receiver revealed another refresh scalar than it had committed to"}
	newS := scalarZ(cs2.SecretShare)
	if newS.Cmp(oldS) == 0 {
		probs = append(probs, "share-unchanged: the Sender's secret share is unchanged by the refresh")
	}
	mix := new(big.Int).Add(oldR, newS)
	mix.Mod(mix, secpQ)
	gm, err1 := c.m.Call("ref.base_mul", sx.Big(mix))
	pk, err2 := c.ptSx(cr.Public)
	if err1 == nil && err2 == nil && gm.Equal(pk) {
		probs = append(probs, "mixed-epoch: the Receiver's OLD share and the Sender's NEW share combine to the key")
	}
	rp.Problems = probs
	c.res.Violate("property", rp.key(), strings.Join(probs, "; "), rp)
}

// ---- FROST (+Taproot): chain-key contribution committed in round 1, opened in round 2 ----

func (c *ctx) c08RevealFrost(rp c08RevealReplay) {
	tap := rp.Protocol == "frost-taproot"
	ids := idsOf("alice", "bob", "carl")
	kg := runToEnd(specFrostKeygen(ids, 1, tap, []byte("c08rv-"+rp.Protocol)), rp.Seed, "fifo")
	_, raw, probs := viewsOfSim(kg)
	if len(probs) > 0 || len(raw) != len(ids) {
		c.res.Note("%s: keygen did not complete: %v", rp.key(), probs)
		return
	}
	raw, e := restoreAll(raw)
	if e != "" {
		c.res.Note("%s: %s", rp.key(), e)
		return
	}
	start := map[party.ID]protocol.StartFunc{}
	for _, m := range raw {
		switch cf := m.(type) {
		case *frost.Config:
			start[cf.ID] = frost.Refresh(cf, ids)
		case *frost.TaprootConfig:
			start[cf.ID] = frost.RefreshTaproot(cf, ids)
		}
	}
	sorted := party.NewIDSlice(ids)
	rng := rand.New(rand.NewSource(rp.Seed))
	E := sorted[rng.Intn(len(sorted))]
	var peerVal []byte
	applied := false
	s := NewSim(ids, rand.New(rand.NewSource(rp.Seed)), nil)
	var held []*Env
	s.OnEmit = func(from party.ID, e *Env) []*Env {
		own := c08LeafBytes(e.Msg, ".C_l")
		if own == nil || !e.Msg.Broadcast {
			return []*Env{e}
		}
		if from != E {
			if peerVal == nil {
				peerVal = own
			}
			return []*Env{e}
		}
		// E reveals last: its opening is rewritten once an honest party's contribution is known
		held = append(held, e)
		return nil
	}
	for _, id := range s.IDs {
		s.AddMulti(id, start[id], []byte("c08rv-f"))
	}
	s.Seal()
	release := func() {
		hs := held
		held = nil
		for _, e := range hs {
			own := c08LeafBytes(e.Msg, ".C_l")
			if alt := c08AltValue(rp.Variant, rng, own, peerVal); alt != nil {
				if m := c08RewriteLeaf(e.Msg, ".C_l", alt); m != nil {
					applied = applied || !bytes.Equal(alt, own)
					e.Msg, e.Valid, e.Tag = m, false, "/reveal-rewritten"
				}
			}
			s.seq++
			e.Seq = s.seq
			s.Flight = append(s.Flight, e)
		}
	}
	for steps := 0; steps < 20000; steps++ {
		if len(s.Flight) == 0 {
			if len(held) == 0 {
				break
			}
			release()
			continue
		}
		s.Deliver(s.take(0))
	}
	class := rp.Protocol + "/refresh/" + c08RevealScenario + "/" + rp.Variant
	if !applied {
		c.res.Case(class+"/not-applied", rp.key(), false)
		c.res.Note("%s: the revealed chain-key contribution of %s was not rewritten", rp.key(), E)
		return
	}
	var acc []string
	var errs []string
	for _, id := range sorted {
		if id == E {
			continue
		}
		r, et := resultOf(s.Nodes[id])
		if r != nil {
			acc = append(acc, string(id))
		} else {
			errs = append(errs, fmt.Sprintf("%s: %.80s", id, et))
		}
	}
	if len(acc) == 0 {
		c.res.Case(class+"/refused", rp.key(), true)
		c.res.Sample(3, map[string]interface{}{"case": rp, "cheater": E, "honest": errs})
		return
	}
	c.res.Case(class+"/accepted", rp.key(), true)
	rp.Problems = []string{fmt.Sprintf("honest %v completed the refresh although %s opened its chain-key commitment to another value than committed", acc, E)}
	c.res.Violate("property", rp.key(), rp.Problems[0], rp)
}

func (c *ctx) c08RevealCase(rp c08RevealReplay) {
	rp.Problems = nil
	if rp.Protocol == "doerner" {
		c.c08RevealDoerner(rp)
	} else {
		c.c08RevealFrost(rp)
	}
}

func (c *ctx) c08RevealAll() {
	k := int64(0)
	for _, proto := range []string{"doerner", "frost", "frost-taproot"} {
		for _, v := range c08RevealVariants {
			k++
			c.c08RevealCase(c08RevealReplay{Scenario: c08RevealScenario, Protocol: proto, Variant: v, Seed: c.res.Seed*977 + k})
		}
	}
}

func (c *ctx) c08RevealReplayRun() bool {
	var rp c08RevealReplay
	if err := readJSON(c.replay, &rp); err != nil || rp.Scenario != c08RevealScenario {
		return false
	}
	c.res.Rule = "replay of one refresh in which a peer reveals another value than it committed to"
	c.c08RevealCase(rp)
	return true
}
