package main

// C12 -- sequences of operations on SHARED library objects (ops "seq" and "seqmta").
//
// Every other C12 case builds fresh library objects from numbers for every call, so a call that corrupts one of its
// arguments (or the key it is called on) is never seen. Here one case builds ONE set of objects (keys, plaintexts, nonces,
// ciphertexts, scalars, moduli) and runs a script of calls on them:
//   (a) before and after every call all objects of the case are serialised (value bytes and announced length of every
//       Nat / Int / ciphertext, N / p / q / phi of the keys, Pedersen parameters, points): nothing may change except the
//       documented in-place receiver of Add / Mul (which is always a Clone here)
//         property  C12/argument-mutated/<op>/<which>      which = role of the object in that call, or bystander:<name>
//   (b) the SAME objects are used again afterwards (Dec(ct) after DecWithRandomness(ct), re-encryption of the recovered
//       (m, rho) compared with the original object and with the copy taken before, Enc after Enc(+-1), ...) and the results
//       are compared with the model (pai.*) and with math/big
//         property  C12/reuse-after/<op>/<what>
// The objects of a case are private to the goroutine that evaluates it.

import (
	"fmt"
	"math/big"

	"github.com/cronokirby/saferith"
	"github.com/taurusgroup/multi-party-sig/pkg/hash"
	"github.com/taurusgroup/multi-party-sig/pkg/math/arith"
	"github.com/taurusgroup/multi-party-sig/pkg/math/curve"
	"github.com/taurusgroup/multi-party-sig/pkg/paillier"
	"github.com/taurusgroup/multi-party-sig/pkg/pedersen"
	"github.com/taurusgroup/multi-party-sig/pkg/verifhook"

	"verifharness/hk"
	"verifharness/sx"
)

type c12Obj struct {
	name string
	ser  func() string
}

type c12Track struct {
	c    *ctx
	cs   *c12Case
	objs []c12Obj
	dead bool // a call panicked: the script stops
}

func c12SerNat(n *saferith.Nat) string {
	if n == nil {
		return "nil"
	}
	return fmt.Sprintf("%d|%x", n.AnnouncedLen(), n.Bytes())
}
func c12SerInt(n *saferith.Int) string {
	if n == nil {
		return "nil"
	}
	b, _ := n.MarshalBinary()
	return fmt.Sprintf("%d|%x", n.AnnouncedLen(), b)
}
func c12SerCt(ct *paillier.Ciphertext) string {
	if ct == nil {
		return "nil"
	}
	b, _ := ct.MarshalBinary()
	return fmt.Sprintf("%d|%x", ct.Nat().AnnouncedLen(), b)
}
func c12SerPk(pk *paillier.PublicKey) string {
	return fmt.Sprintf("N=%x|mod=%x|mod2=%x", pk.N().Bytes(), pk.Modulus().Modulus.Bytes(), pk.ModulusSquared().Modulus.Bytes())
}
func c12SerSk(sk *paillier.SecretKey) string {
	return "p=" + c12SerNat(sk.P()) + "|q=" + c12SerNat(sk.Q()) + "|phi=" + c12SerNat(sk.Phi()) + "|" + c12SerPk(sk.PublicKey)
}
func c12SerPed(p *pedersen.Parameters) string {
	return fmt.Sprintf("N=%x|s=%s|t=%s", p.N().Bytes(), c12SerNat(p.S()), c12SerNat(p.T()))
}
func c12SerPoint(p curve.Point) string { b, _ := p.MarshalBinary(); return fmt.Sprintf("%x", b) }

func (t *c12Track) nat(name string, n *saferith.Nat) *saferith.Nat {
	t.objs = append(t.objs, c12Obj{name, func() string { return c12SerNat(n) }})
	return n
}
func (t *c12Track) int_(name string, n *saferith.Int) *saferith.Int {
	t.objs = append(t.objs, c12Obj{name, func() string { return c12SerInt(n) }})
	return n
}
func (t *c12Track) ct(name string, x *paillier.Ciphertext) *paillier.Ciphertext {
	t.objs = append(t.objs, c12Obj{name, func() string { return c12SerCt(x) }})
	return x
}
func (t *c12Track) add(name string, f func() string) { t.objs = append(t.objs, c12Obj{name, f}) }

func (t *c12Track) snap() []string {
	out := make([]string, len(t.objs))
	for i, o := range t.objs {
		func() {
			defer func() {
				if e := recover(); e != nil {
					out[i] = "unserialisable: " + fmt.Sprint(e)
				}
			}()
			out[i] = o.ser()
		}()
	}
	return out
}

// violate books a property violation with exactly the given key (no operand bucket: the key names the operation and the role)
func (t *c12Track) violate(key, desc string) {
	cs := t.cs
	cs.propBroken = true
	d := fmt.Sprintf("key %s (%s, %d-bit N): %s", cs.k.name, cs.form, cs.k.N.BitLen(), desc)
	rp := cs.replay()
	cs.emit(func(r *hk.Result) { r.Violate("property", key, d, rp) })
}

func c12Clip(s string) string {
	if len(s) > 70 {
		return s[:40] + ".." + s[len(s)-24:]
	}
	return s
}

// call runs one library call; roles maps tracked object name -> its role in this call; objects in `receiver` may change.
func (t *c12Track) call(op string, roles map[string]string, f func()) (ok bool) {
	if t.dead {
		return false
	}
	before := t.snap()
	n := len(t.objs)
	pan := ""
	func() {
		defer func() {
			if e := recover(); e != nil {
				pan = fmt.Sprint(e)
			}
		}()
		f()
	}()
	after := t.snap()
	for i := 0; i < n; i++ {
		if before[i] == after[i] {
			continue
		}
		which, isArg := roles[t.objs[i].name]
		if !isArg {
			which = "bystander:" + t.objs[i].name
		}
		t.violate("C12/argument-mutated/"+op+"/"+which,
			fmt.Sprintf("%s changed its %s (object %s): before %s, after %s (announced length | bytes)", op, which, t.objs[i].name, c12Clip(before[i]), c12Clip(after[i])))
	}
	if pan != "" {
		t.dead = true
		t.violate("C12/reuse-after/"+op+"/panic", fmt.Sprintf("%s panicked on in-range operands in a sequence of calls on shared objects: %s", op, pan))
		return false
	}
	return true
}

// expect: result of reusing an object after op
func (t *c12Track) expect(ok bool, op, what, desc string) {
	if !ok {
		t.violate("C12/reuse-after/"+op+"/"+what, desc)
	}
}

// model comparison of a value obtained in the sequence
func (t *c12Track) model(what string, goV sx.V, op string, args ...*big.Int) {
	if mv, ok := t.c.c12Model(t.cs, op, args...); ok {
		t.c.c12Cmp(t.cs, "seq-"+what, goV, mv)
	}
}

func c12CtBig(ct *paillier.Ciphertext) *big.Int {
	if ct == nil {
		return nil
	}
	return ct.Nat().Big()
}

// seq: a = m1 rho1 m2 s x e   (m1, m2 in range, rho1 a unit below N, s any integer, x a unit mod N^2, e >= 0); seed = tape of Enc
func (c *ctx) c12Seq(cs *c12Case) {
	k, a := cs.k, cs.a
	m1, rho1, m2, s, x, e := a[0], a[1], a[2], a[3], a[4], a[5]
	t := &c12Track{c: c, cs: cs}
	// the objects of this case (private to this goroutine)
	sk := paillier.NewSecretKeyFromPrimes(c12Nat(k.p), c12Nat(k.q))
	pub := sk.PublicKey
	if cs.form == "pk" {
		pub = paillier.NewPublicKey(saferith.ModulusFromNat(c12Nat(k.N)))
	}
	t.add("secret-key", func() string { return c12SerSk(sk) })
	t.add("public-key", func() string { return c12SerPk(pub) })
	M1, R1, M2 := t.int_("m1", c12Int(m1)), t.nat("rho1", c12Nat(rho1)), t.int_("m2", c12Int(m2))
	S, X, E := t.int_("s", c12Int(s)), t.nat("x", c12Nat(x)), t.nat("e", c12Nat(e))
	EI := t.int_("minus-e", c12Int(new(big.Int).Neg(e)))
	one, mone := t.int_("plus-one", c12Int(big.NewInt(1))), t.int_("minus-one", c12Int(big.NewInt(-1)))
	keyRoles := func(r map[string]string) map[string]string {
		r["public-key"] = "public-key"
		r["secret-key"] = "secret-key"
		return r
	}
	encOp := "pai.enc"
	encArgs := func(m, rho *big.Int) []*big.Int { return []*big.Int{k.N, m, rho} }
	if cs.form != "pk" {
		encOp = "pai.enc_sk"
		encArgs = func(m, rho *big.Int) []*big.Int { return []*big.Int{k.p, k.q, m, rho} }
	}

	// 1. EncWithNonce
	var ct1 *paillier.Ciphertext
	if !t.call("EncWithNonce", keyRoles(map[string]string{"m1": "plaintext", "rho1": "nonce"}), func() { ct1 = pub.EncWithNonce(M1, R1) }) {
		return
	}
	c1 := c12CtBig(ct1)
	t.ct("ct1", ct1)
	t.model("enc", sx.List(sx.Big(c1)), encOp, encArgs(m1, rho1)...)
	t.expect(c12Eq(c1, c12BigEnc(k, m1, rho1)), "sequence", "EncWithNonce-value", "EncWithNonce(m1; rho1) is not (1+N)^m1 rho1^N mod N^2")
	// 2. Clone
	var cp *paillier.Ciphertext
	t.call("Clone", keyRoles(map[string]string{"ct1": "receiver"}), func() { cp = ct1.Clone() })
	if t.dead {
		return
	}
	t.ct("copy-of-ct1", cp)
	t.expect(c12Eq(c12CtBig(cp), c1), "Clone", "copy-value", "Clone gives a ciphertext with another value")
	// 3. ValidateCiphertexts
	valid := false
	t.call("ValidateCiphertexts", keyRoles(map[string]string{"ct1": "ciphertext"}), func() { valid = pub.ValidateCiphertexts(ct1) })
	t.expect(valid || t.dead, "sequence", "ValidateCiphertexts", "a fresh encryption is reported invalid")
	// 4. DecWithRandomness on the object, then the SAME object again
	var dm *saferith.Int
	var dr *saferith.Nat
	var derr error
	t.call("DecWithRandomness", keyRoles(map[string]string{"ct1": "ciphertext"}), func() { dm, dr, derr = sk.DecWithRandomness(ct1) })
	if t.dead {
		return
	}
	if derr != nil || dm == nil || dr == nil {
		t.expect(false, "sequence", "DecWithRandomness-refuses", fmt.Sprintf("DecWithRandomness refuses a fresh encryption: %v", derr))
		return
	}
	t.int_("recovered-m", dm)
	t.nat("recovered-rho", dr)
	t.model("decrand", sx.List(sx.Big(dm.Big()), sx.Big(dr.Big())), "pai.dec_rand", k.p, k.q, c1)
	t.expect(c12Eq(dm.Big(), m1), "sequence", "DecWithRandomness-plaintext", fmt.Sprintf("DecWithRandomness(Enc(%s)) gives plaintext %s", c12Short(m1), c12Short(dm.Big())))
	var d2 *saferith.Int
	t.call("Dec", keyRoles(map[string]string{"ct1": "ciphertext"}), func() { d2, derr = sk.Dec(ct1) })
	if t.dead {
		return
	}
	d2v := sx.List()
	if derr == nil && d2 != nil {
		d2v = sx.List(sx.Big(d2.Big()))
	}
	t.model("dec-after-decrand", d2v, "pai.dec", k.p, k.q, c1)
	t.expect(derr == nil && d2 != nil && c12Eq(d2.Big(), m1), "DecWithRandomness", "Dec-same-object",
		fmt.Sprintf("Dec of the ciphertext OBJECT that DecWithRandomness was given: error %v, plaintext %v, encrypted was %s; the object now holds %s, it held %s",
			derr, d2, c12Short(m1), c12Short(c12CtBig(ct1)), c12Short(c1)))
	var re *paillier.Ciphertext
	t.call("EncWithNonce", keyRoles(map[string]string{"recovered-m": "plaintext", "recovered-rho": "nonce"}), func() { re = pub.EncWithNonce(dm, dr) })
	if t.dead {
		return
	}
	t.ct("reencryption", re)
	eqOrig, eqCopy := false, false
	t.call("Equal", map[string]string{"ct1": "argument", "reencryption": "receiver"}, func() { eqOrig = re.Equal(ct1) })
	t.call("Equal", map[string]string{"copy-of-ct1": "argument", "reencryption": "receiver"}, func() { eqCopy = re.Equal(cp) })
	t.expect(eqCopy, "DecWithRandomness", "reencrypt-vs-copy-taken-before",
		fmt.Sprintf("EncWithNonce of the recovered (m, rho) = %s differs from the copy of the ciphertext taken before the call (%s)", c12Short(c12CtBig(re)), c12Short(c12CtBig(cp))))
	t.expect(eqOrig, "DecWithRandomness", "reencrypt-vs-original-object",
		fmt.Sprintf("EncWithNonce of the recovered (m, rho) = %s differs from the ORIGINAL ciphertext object, which now holds %s (it held %s)", c12Short(c12CtBig(re)), c12Short(c12CtBig(ct1)), c12Short(c1)))
	// 5. Enc(+1), Enc(-1), then Enc(m2) under the same key: nonces from the tape
	var ct2 *paillier.Ciphertext
	var n2 *saferith.Nat
	var cP, cM *paillier.Ciphertext
	var nP, nM *saferith.Nat
	tp := c12NewTape(cs.seed)
	wantP, wantM, want2 := c12TapeUnit(tp, k.N), c12TapeUnit(tp, k.N), c12TapeUnit(tp, k.N)
	func() {
		defer c12WithTape(cs.seed)()
		t.call("Enc", keyRoles(map[string]string{"plus-one": "plaintext"}), func() { cP, nP = pub.Enc(one) })
		t.call("Enc", keyRoles(map[string]string{"minus-one": "plaintext"}), func() { cM, nM = pub.Enc(mone) })
		t.call("Enc", keyRoles(map[string]string{"m2": "plaintext"}), func() { ct2, n2 = pub.Enc(M2) })
	}()
	if t.dead {
		return
	}
	t.expect(c12Eq(nP.Big(), wantP) && c12Eq(c12CtBig(cP), c12BigEnc(k, big.NewInt(1), wantP)), "sequence", "Enc(+1)", "Enc(+1) is not (1+N) rho^N for the first unit of the tape")
	t.expect(c12Eq(nM.Big(), wantM) && c12Eq(c12CtBig(cM), c12BigEnc(k, big.NewInt(-1), wantM)), "Enc(+-1)", "Enc(-1)", "Enc(-1) after Enc(+1) is not (1+N)^-1 rho^N for the second unit of the tape")
	c2 := c12CtBig(ct2)
	t.ct("ct2", ct2)
	t.nat("nonce2", n2)
	t.model("enc-after-enc-pm1", sx.List(sx.Big(c2)), encOp, encArgs(m2, want2)...)
	t.expect(c12Eq(n2.Big(), want2) && c12Eq(c2, c12BigEnc(k, m2, want2)), "Enc(+-1)", "Enc",
		fmt.Sprintf("Enc(%s) after Enc(+1), Enc(-1) under the same key gives %s, expected %s", c12Short(m2), c12Short(c2), c12Short(c12BigEnc(k, m2, want2))))
	// 6. Add: the receiver is a clone; argument and key must stay
	var sum *paillier.Ciphertext
	t.call("Add", keyRoles(map[string]string{"ct2": "ciphertext-argument"}), func() { sum = ct1.Clone().Add(pub, ct2) })
	if t.dead {
		return
	}
	cSum := c12CtBig(sum)
	t.ct("sum", sum)
	t.model("add", sx.Big(cSum), "pai.add", k.N, c1, c2)
	var dsum, dc2 *saferith.Int
	t.call("Dec", keyRoles(map[string]string{"sum": "ciphertext"}), func() { dsum, _ = sk.Dec(sum) })
	t.call("Dec", keyRoles(map[string]string{"ct2": "ciphertext"}), func() { dc2, _ = sk.Dec(ct2) })
	if t.dead {
		return
	}
	wantSum := c12BigSym(k.N, new(big.Int).Add(m1, m2))
	t.expect(dsum != nil && c12Eq(dsum.Big(), wantSum), "Add", "Dec-of-sum", fmt.Sprintf("Dec(ct1 + ct2) = %v, expected %s", dsum, c12Short(wantSum)))
	t.expect(dc2 != nil && c12Eq(dc2.Big(), m2), "Add", "Dec-of-argument", fmt.Sprintf("Dec of the ciphertext object that was the argument of Add = %v, encrypted was %s", dc2, c12Short(m2)))
	// 7. Mul with one scalar object, twice
	var prod, prod2 *paillier.Ciphertext
	t.call("Mul", keyRoles(map[string]string{"s": "scalar"}), func() { prod = ct2.Clone().Mul(pub, S) })
	t.call("Mul", keyRoles(map[string]string{"s": "scalar"}), func() { prod2 = ct1.Clone().Mul(pub, S) })
	if t.dead {
		return
	}
	mulOp, mulArgs := "pai.mul", []*big.Int{k.N, s, c2}
	if cs.form != "pk" {
		mulOp, mulArgs = "pai.mul_sk", []*big.Int{k.p, k.q, s, c2}
	}
	t.model("mul", sx.Big(c12CtBig(prod)), mulOp, mulArgs...)
	t.expect(c12Eq(c12CtBig(prod), c12BigExp(k.N2, c2, s)), "sequence", "Mul-value", "Mul(s, ct2) is not ct2^s mod N^2")
	t.expect(c12Eq(c12CtBig(prod2), c12BigExp(k.N2, c1, s)), "Mul", "Mul-same-scalar-object", "a second Mul with the same scalar object is not ct1^s mod N^2")
	// 8. the key's own moduli: Exp / ExpI with one base and one exponent object
	for w, md := range []*arith.Modulus{pub.Modulus(), pub.ModulusSquared()} {
		n := []*big.Int{k.N, k.N2}[w]
		name := []string{"Modulus", "ModulusSquared"}[w]
		var r1, r2, r3 *saferith.Nat
		t.call(name+".Exp", keyRoles(map[string]string{"x": "base", "e": "exponent"}), func() { r1 = md.Exp(X, E) })
		t.call(name+".ExpI", keyRoles(map[string]string{"x": "base", "minus-e": "exponent"}), func() { r3 = md.ExpI(X, EI) })
		t.call(name+".Exp", keyRoles(map[string]string{"x": "base", "e": "exponent"}), func() { r2 = md.Exp(X, E) })
		if t.dead {
			return
		}
		want := c12BigExp(n, x, e)
		t.expect(c12Eq(r1.Big(), want), "sequence", name+".Exp-value", "Exp(x, e) differs from math/big")
		t.expect(c12Eq(r2.Big(), want), name+".ExpI", name+".Exp-same-objects", "Exp(x, e) with the same objects after ExpI(x, -e) differs from math/big")
		if wi := c12BigExp(n, x, new(big.Int).Neg(e)); wi != nil {
			t.expect(c12Eq(r3.Big(), wi), name+".Exp", name+".ExpI-same-base", "ExpI(x, -e) with the base object of Exp(x, e) differs from math/big")
		}
	}
	// 9. the objects of the beginning, once more
	var again *paillier.Ciphertext
	t.call("EncWithNonce", keyRoles(map[string]string{"m1": "plaintext", "rho1": "nonce"}), func() { again = pub.EncWithNonce(M1, R1) })
	if t.dead {
		return
	}
	t.expect(c12Eq(c12CtBig(again), c1), "sequence", "EncWithNonce-again", fmt.Sprintf("EncWithNonce(m1; rho1) with the objects of the first call gives %s at the end of the sequence, %s at its beginning", c12Short(c12CtBig(again)), c12Short(c1)))
	var sm *saferith.Int
	var sr *saferith.Nat
	t.call("DecWithRandomness", keyRoles(map[string]string{"sum": "ciphertext"}), func() { sm, sr, derr = sk.DecWithRandomness(sum) })
	if t.dead {
		return
	}
	if derr != nil || sm == nil {
		t.expect(false, "sequence", "DecWithRandomness-of-sum", fmt.Sprintf("DecWithRandomness refuses ct1+ct2: %v", derr))
	} else {
		t.model("decrand-sum", sx.List(sx.Big(sm.Big()), sx.Big(sr.Big())), "pai.dec_rand", k.p, k.q, cSum)
		t.expect(c12Eq(c12BigEnc(k, sm.Big(), sr.Big()), cSum), "sequence", "DecWithRandomness-of-sum", "the opening of ct1+ct2 does not re-encrypt to it")
	}
	var d3 *saferith.Int
	t.call("Dec", keyRoles(map[string]string{"ct1": "ciphertext"}), func() { d3, _ = sk.Dec(ct1) })
	t.expect(t.dead || (d3 != nil && c12Eq(d3.Big(), m1)), "sequence", "Dec-of-ct1-at-the-end", fmt.Sprintf("Dec(ct1) at the end of the sequence = %v, encrypted was %s", d3, c12Short(m1)))
	cs.goOut, cs.modelOut = sx.Str("sequence done"), sx.Str("sequence done")
}

// seqmta: a = a b rho_k rho_x ped_s ped_t; cs.k receiver, cs.snd sender; form affg | affp.  The MtA sender (prover) side is
// called twice on the same objects, the receiver decrypts and verifies with its objects in between.
func (c *ctx) c12SeqMta(cs *c12Case) {
	R, Sn, a := cs.k, cs.snd, cs.a
	sa, sb, rhoK, rhoX, pedS, pedT := a[0], a[1], a[2], a[3], a[4], a[5]
	group := curve.Secp256k1{}
	t := &c12Track{c: c, cs: cs}
	rsk := paillier.NewSecretKeyFromPrimes(c12Nat(R.p), c12Nat(R.q))
	rpk := paillier.NewPublicKey(saferith.ModulusFromNat(c12Nat(R.N)))
	ssk := paillier.NewSecretKeyFromPrimes(c12Nat(Sn.p), c12Nat(Sn.q))
	ped := pedersen.New(arith.ModulusFromN(saferith.ModulusFromNat(c12Nat(R.N))), c12Nat(pedS), c12Nat(pedT))
	t.add("receiver-secret-key", func() string { return c12SerSk(rsk) })
	t.add("receiver-public-key", func() string { return c12SerPk(rpk) })
	t.add("sender-secret-key", func() string { return c12SerSk(ssk) })
	t.add("pedersen", func() string { return c12SerPed(ped) })
	A := t.int_("a", c12Int(sa))
	B, RK := t.int_("b", c12Int(sb)), t.nat("rho_k", c12Nat(rhoK))
	roles := func(r map[string]string) map[string]string {
		for _, n := range []string{"receiver-secret-key", "receiver-public-key", "sender-secret-key", "pedersen"} {
			r[n] = n
		}
		return r
	}
	var K *paillier.Ciphertext
	if !t.call("EncWithNonce", roles(map[string]string{"b": "plaintext", "rho_k": "nonce"}), func() { K = rsk.PublicKey.EncWithNonce(B, RK) }) {
		return
	}
	kv := c12CtBig(K)
	t.ct("K", K)
	pt := group.NewScalar().SetNat(c12Nat(new(big.Int).Mod(sa, c12SecpQ))).ActOnBase()
	t.add("point-a.G", func() string { return c12SerPoint(pt) })
	var XP *paillier.Ciphertext
	var RX *saferith.Nat
	if cs.form == "affp" {
		RX = t.nat("rho_x", c12Nat(rhoX))
		if !t.call("EncWithNonce", roles(map[string]string{"a": "plaintext", "rho_x": "nonce"}), func() { XP = ssk.PublicKey.EncWithNonce(A, RX) }) {
			return
		}
		t.ct("X", XP)
	}
	op := map[string]string{"affg": "MtaProveAffG", "affp": "MtaProveAffP"}[cs.form]
	prod := new(big.Int).Mul(sa, sb)
	for round := 1; round <= 2; round++ {
		var beta *saferith.Int
		var D, F *paillier.Ciphertext
		func() {
			defer c12WithTape(cs.seed + int64(round))()
			t.call(op, roles(map[string]string{"a": "secret-a", "K": "ciphertext-K", "point-a.G": "point", "X": "ciphertext-X", "rho_x": "nonce-of-X"}), func() {
				if cs.form == "affp" {
					beta, D, F, _ = verifhook.MtaProveAffP(group, hash.New(), A, XP, RX, K, ssk, rpk, ped)
				} else {
					beta, D, F, _ = verifhook.MtaProveAffG(group, hash.New(), A, pt, K, ssk, rpk, ped)
				}
			})
		}()
		if t.dead {
			return
		}
		t.int_(fmt.Sprintf("beta-%d", round), beta)
		t.ct(fmt.Sprintf("D-%d", round), D)
		t.ct(fmt.Sprintf("F-%d", round), F)
		var alpha, kb *saferith.Int
		dname := fmt.Sprintf("D-%d", round)
		t.call("Dec", roles(map[string]string{dname: "ciphertext"}), func() { alpha, _ = rsk.Dec(D) })
		t.call("Dec", roles(map[string]string{"K": "ciphertext"}), func() { kb, _ = rsk.Dec(K) })
		if t.dead {
			return
		}
		what := []string{"", "first-call", "second-call-same-objects"}[round]
		t.expect(alpha != nil && new(big.Int).Add(alpha.Big(), beta.Big()).Cmp(prod) == 0, op, "alpha+beta/"+what,
			fmt.Sprintf("a=%s b=%s: alpha + beta != a*b (alpha = %v)", c12Short(sa), c12Short(sb), alpha))
		t.expect(kb != nil && c12Eq(kb.Big(), sb), op, "Dec-of-K/"+what, fmt.Sprintf("Dec of the K object given to %s = %v, encrypted was %s", op, kb, c12Short(sb)))
		t.expect(c12Eq(c12CtBig(K), kv), op, "K-value/"+what, "the K object holds another value")
		if alpha != nil {
			t.model("mta-dec-"+what, sx.List(sx.Big(alpha.Big())), "pai.dec", R.p, R.q, c12CtBig(D))
		}
	}
	cs.goOut, cs.modelOut = sx.Str("sequence done"), sx.Str("sequence done")
}

// generation: sequences for one key
func (g *c12Gen) seqSuite(k *c12Key, n int) {
	unitN2 := func() *big.Int {
		for {
			x := c12RandBelow(g.r, k.N2)
			if x.Sign() > 0 && new(big.Int).GCD(nil, nil, x, k.N).Cmp(c12One) == 0 {
				return x
			}
		}
	}
	ms := []*big.Int{g.randIn(k), new(big.Int).Set(k.half), new(big.Int).Neg(k.half), big.NewInt(0), big.NewInt(-1), big.NewInt(1)}
	for i := 0; i < n; i++ {
		m1, m2 := ms[i%len(ms)], ms[(i/len(ms)+i+1)%len(ms)]
		if i >= len(ms) {
			m1, m2 = g.randIn(k), g.randIn(k)
		}
		s := c12Signed(g.r, c12RandBits(g.r, 1+g.r.Intn(256)))
		e := c12RandBits(g.r, 1+g.r.Intn(k.N.BitLen()))
		g.run(&c12Case{op: "seq", k: k, form: []string{"sk", "pk"}[i%2], a: []*big.Int{m1, g.nonce(k), m2, s, unitN2(), e}, seed: g.r.Int63()})
	}
}

func (g *c12Gen) seqMtaSuite(real []*c12Key, n int) {
	for i := 0; i < n; i++ {
		s, rcv := real[i%len(real)], real[(i+1)%len(real)]
		if rcv.ped == nil || rcv == s {
			continue
		}
		a, b := c12RandBelow(g.r, c12SecpQ), c12RandBelow(g.r, c12SecpQ)
		if i == 1 {
			a = new(big.Int).Sub(c12SecpQ, c12One)
		}
		g.run(&c12Case{op: "seqmta", k: rcv, snd: s, form: []string{"affg", "affp"}[i%2],
			a: []*big.Int{a, b, g.nonce(rcv), g.nonce(s), rcv.ped.S().Big(), rcv.ped.T().Big()}, seed: g.r.Int63()})
	}
}
