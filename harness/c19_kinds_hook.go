package main

// Access to frost's unexported sign.messageHash for C19 kind 22, through the verif-tagged export
// protocols/frost/sign/verif_messagehash.go (hook work/c19x/01-hook.diff).

import frostsign "github.com/taurusgroup/multi-party-sig/protocols/frost/sign"

func init() { c19xMessageHash = frostsign.VerifMessageHash }
